(* C19 — A crash during a Merkle-store commit leaves a consistent store.  Property theorems only.

   Model: coq/Model/C19_CrashCommit.v (the database = four column families; a commit = the sequence
   of atomic write steps the code performs, one `write(batch)` = one step; a crash = any prefix).
   `root_of` (the state root describing a substate set) and `complete` (all tree nodes reachable from
   the root of a version are stored) are abstract: they belong to the state tree (C17 / C18).  The
   theorems below are about the LAYOUT of the writes: given that the tree computation returns a root
   describing the post-commit substates and nodes completing the new tree, and that pruning only
   deletes nodes the new tree does not need (hypotheses `HR`, `HC`, discharged for the tree model by
   C17 / C18 and checked on the implementation by the harness oracle at every crash point), no crash
   point of `commit` exposes anything but the pre-commit or the post-commit state, and both are
   consistent.  RocksDB's WriteBatch atomicity is the stated assumption (it is what "one step"
   means); only process death is considered (completed writes are durable). *)
From Coq Require Import List Arith NArith Bool Lia.
Import ListNotations.
Require Import RV.Lib.Bytes RV.Lib.SortedMap RV.Model.C14_Store RV.Model.C15_Stores RV.Proof.C15_Stores
               RV.Model.C19_CrashCommit RV.Proof.C19_CrashCommit.
Require RV.Model.C17_Jmt RV.Model.C17_Smt RV.Model.C18_Store RV.Proof.C17_Update RV.Proof.C17_Compose
        RV.Proof.C18_Store RV.Proof.C18_Lift RV.Proof.C18_Reach RV.Model.C19_Composed RV.Proof.C19_Composed RV.Props.C17.
Open Scope N_scope.

(* Any layout "one batch, then only deletions of tree nodes": every crash prefix is consistent; the
   crash before the batch is the pre-commit store itself, every later one has the post-commit
   substates, version and root. *)
Theorem C19_atomic_layout_safe :
  forall (root_of : kvmap -> bytes) (complete : kvmap -> N -> bytes -> Prop) s ws ds,
    let steps := SBatch ws :: map del_node ds in
    let post := run steps s in
    Consistent root_of complete s ->
    cur_root post = root_of (st_subs post) ->
    (forall j, (j <= length ds)%nat ->
       complete (st_nodes (crash_state (S j) steps s)) (cur_version post) (cur_root post)) ->
    forall k, (k <= length steps)%nat ->
      Consistent root_of complete (crash_state k steps s) /\
      (k = 0%nat -> crash_state k steps s = s) /\
      ((1 <= k)%nat -> proj (crash_state k steps s) = proj post).
Proof. exact atomic_layout_safe. Qed.

(* The commit of the code as written (model `commit_steps`: all substate operations, the new tree
   nodes, the stale-parts record and the metadata staged into one WriteBatch, then the pruning
   deletions), for every store, every DatabaseUpdates, every tree diff, pruning on or off:
   every crash point leaves a consistent store that is the pre-commit or the post-commit state on
   (substates, version, root). *)
Theorem C19_commit_crash_safe :
  forall (root_of : kvmap -> bytes) (complete : kvmap -> N -> bytes -> Prop) pruning s u d steps,
    commit_steps pruning s u d = CommitSteps steps ->
    let post := run steps s in
    Consistent root_of complete s ->
    td_root d = root_of (st_subs post) ->
    (forall j, (1 <= j <= length steps)%nat ->
       complete (st_nodes (crash_state j steps s)) (cur_version s + 1) (td_root d)) ->
    forall k, (k <= length steps)%nat ->
      Consistent root_of complete (crash_state k steps s) /\
      (proj (crash_state k steps s) = proj s \/ proj (crash_state k steps s) = proj post).
Proof. exact commit_crash_safe. Qed.

(* The same with the two guarantees of the state tree spelled out instead of "complete at every crash
   point": `needed v r` = keys of the tree nodes reachable from the root of version v;
   (C17) every node the new tree needs is already stored or among the new nodes of the diff,
   (C18) no key the pruning loop deletes is needed by the new tree.  Then the new tree is complete
   right after the batch and after every single pruning deletion. *)
Theorem C19_commit_crash_safe_tree :
  forall (root_of : kvmap -> bytes) (needed : N -> bytes -> list bytes) pruning s u d steps,
    commit_steps pruning s u d = CommitSteps steps ->
    let post := run steps s in
    sorted blt (st_nodes s) ->
    Consistent root_of (complete_by needed) s ->
    td_root d = root_of (st_subs post) ->
    (forall k, In k (needed (cur_version s + 1) (td_root d)) ->
       stored (st_nodes s) k \/ In k (map fst (td_new_nodes d))) ->
    (forall k, In k (td_deleted d) -> ~ In k (needed (cur_version s + 1) (td_root d))) ->
    forall k, (k <= length steps)%nat ->
      Consistent root_of (complete_by needed) (crash_state k steps s) /\
      (proj (crash_state k steps s) = proj s \/ proj (crash_state k steps s) = proj post).
Proof. exact commit_crash_safe_tree. Qed.

(* What the post-commit state is: the substates column family after C15's commit of the same updates
   (`rocks_commit` on the ordered map — by C15 the DatabaseUpdates semantics of the in-memory store,
   see the corollary below), version + 1, the root returned by the tree computation; and the commit
   panics only on u64 overflow of the version. *)
Theorem C19_commit_post_state : forall pruning s u d steps,
  commit_steps pruning s u d = CommitSteps steps ->
  let post := run steps s in
  st_subs post = rocks_commit list_kv (st_subs s) u /\
  cur_version post = cur_version s + 1 /\ cur_root post = td_root d.
Proof. exact commit_post. Qed.
Theorem C19_commit_panics_iff_version_overflow : forall pruning s u d,
  commit_steps pruning s u d = CommitPanic <-> 2 ^ 64 <= cur_version s + 1.
Proof. exact commit_panics_iff. Qed.
Corollary C19_post_substates_are_the_updates : forall pruning s u d steps db,
  commit_steps pruning s u d = CommitSteps steps ->
  flat_ok (st_subs s) db -> updates_ok u ->
  flat_ok (st_subs (run steps s)) (mem_commit db u).
Proof. exact post_substates_are_the_updates. Qed.

(* The layout of the code BEFORE the `fix:` commit (substate writes issued directly, before the
   batch): committing one Set into the empty store and stopping after the first write leaves a store
   that is neither the pre- nor the post-commit state, and that is inconsistent for every root
   function that distinguishes the empty substate set from the written one. *)
Theorem C19_pre_fix_layout_refuted :
  exists steps, commit_steps_pre_fix true w_store w_updates w_diff = CommitSteps steps /\
    (1 <= length steps)%nat /\
    proj (crash_state 1 steps w_store) <> proj w_store /\
    proj (crash_state 1 steps w_store) <> proj (run steps w_store) /\
    forall (root_of : kvmap -> bytes) (complete : kvmap -> N -> bytes -> Prop),
      Consistent root_of complete w_store ->
      root_of [] <> root_of (st_subs (crash_state 1 steps w_store)) ->
      ~ Consistent root_of complete (crash_state 1 steps w_store).
Proof. exact pre_fix_refuted. Qed.

(* the executable enumeration of crash states used by the correspondence evaluator is `crash_state` *)
Theorem C19_prefix_states_are_crash_states : forall steps s k, (k <= length steps)%nat ->
  nth_error (prefix_states steps s) k = Some (crash_state k steps s).
Proof. exact nth_prefix_states. Qed.

(* non-vacuity: a concrete store at version 1, a commit that deletes its substate and writes another,
   a tree diff with one new node and one pruned node, a concrete root function and `needed` (the
   root node of the version) — all hypotheses of C19_commit_crash_safe_tree hold, the commit has
   two write steps (three crash points), and the pre- and post-commit states differ. *)
Definition ex_root_of (m : kvmap) : bytes :=
  match m with [] => zero_hash | _ => flat_map (fun e : bytes * bytes => fst e ++ snd e) m end.
Definition ex_needed (v : N) (r : bytes) : list bytes := if v =? 0 then [] else [be_encode 8 v ++ [0]].
Definition ex_complete := complete_by ex_needed.
Definition ex_subs1 : kvmap := [(enc ([7], 0) [1], [42])].
Definition ex_subs2 : kvmap := [(enc ([7], 0) [2], [43])].
Definition ex_store : store := mkStore (Some (1, ex_root_of ex_subs1)) ex_subs1 [(be_encode 8 1 ++ [0], [9])] [].
Definition ex_updates : db_updates := [([7], [(0, PDelta [([2], USet [43]); ([1], UDelete)])])].
Definition ex_diff : tree_diff := mkDiff [(be_encode 8 2 ++ [0], [9])] [] [be_encode 8 1 ++ [0]] (ex_root_of ex_subs2).
Example C19_nonvacuous :
  exists steps, commit_steps true ex_store ex_updates ex_diff = CommitSteps steps /\
    length steps = 2%nat /\
    sorted blt (st_nodes ex_store) /\
    Consistent ex_root_of ex_complete ex_store /\
    td_root ex_diff = ex_root_of (st_subs (run steps ex_store)) /\
    (forall k, In k (ex_needed (cur_version ex_store + 1) (td_root ex_diff)) ->
       stored (st_nodes ex_store) k \/ In k (map fst (td_new_nodes ex_diff))) /\
    (forall k, In k (td_deleted ex_diff) -> ~ In k (ex_needed (cur_version ex_store + 1) (td_root ex_diff))) /\
    proj (run steps ex_store) <> proj ex_store /\
    st_nodes (run steps ex_store) = [(be_encode 8 2 ++ [0], [9])].
Proof.
  eexists. split; [vm_compute; reflexivity|]. split; [reflexivity|].
  split; [vm_compute; auto|].
  split; [split; [vm_compute; reflexivity|]|].
  { intros k I. vm_compute in I. destruct I as [<-|[]]. vm_compute. discriminate. }
  split; [vm_compute; reflexivity|].
  split; [intros k I; vm_compute in I; destruct I as [<-|[]]; right; vm_compute; left; reflexivity|].
  split; [intros k I; vm_compute in I; destruct I as [<-|[]]; vm_compute; intros [E|[]]; discriminate|].
  split; [vm_compute; discriminate|vm_compute; reflexivity].
Qed.

(* ================================================================================================ *)
(* The commit composed with the state tree (C17) and the node store (C18): no tree hypotheses.       *)
(* Model/C19_Composed.v: substates = the database of C17 (dbmap / apply_commit), the tree computation *)
(* = C17's put_at_next_version (root, new logical tree, node inserts and stale parts), the node column *)
(* family = C18's versioned store, the pruning loop as written (Node: unconditional delete; Subtree:   *)
(* walk over the nodes stored AFTER the batch, one delete_cf per step).                               *)
(* ================================================================================================ *)
Module Composed.
Import RV.Model.C17_Jmt RV.Model.C17_Smt RV.Model.C18_Store RV.Proof.C17_Update RV.Proof.C17_Compose
       RV.Proof.C18_Store RV.Proof.C18_Lift RV.Proof.C18_Reach RV.Model.C19_Composed RV.Proof.C19_Composed.

(* CConsistent st s: the recorded root is db_root (the commitment of C17_root_is_commitment /
   C17_binding) of EXACTLY the substates held, the recorded version is the tree's, and every node
   reachable from the root through all three tiers is stored.  For every hash function without the
   zero output, every prefix-free key universe, every consistent store, every well-formed commit,
   pruning on or off, every crash point k: the store found is the pre-commit store itself (k = 0)
   or has exactly the post-commit substates, version + 1 and their root, and is CConsistent for the
   new tree.  The root (HR of C19_commit_crash_safe) is discharged by C17 (commit_ok), completeness
   after the batch and during pruning (HC) by C18's summary of a commit (commit_facts: every node
   the new root reaches was inserted now or was reachable before and is hit by no stale part) and by
   the fact that the pruning walk deletes only keys below a stale part (prune_dels_hit).
   One side condition remains, `dels_old`: every key the pruning loop deletes has a version older
   than the one being committed (this is what makes "all inserts first, then all deletions" — the
   RocksDB order, different from the in-memory store's issue order — safe for nodes inserted under
   the path of a stale subtree).  It follows from two structural facts (C19_bfs_deletes_only_old_versions)
   and is checked on the implementation for every commit of every run (harness oracle + evaluator:
   the version prefix of every deleted key). *)
Theorem C19_composed_crash_safe :
  forall (H : list N -> list N) fuel, (0 < fuel)%nat -> (forall x, H x <> ZERO_HASH) ->
  forall US UP UE, pfree US -> ~ US [] -> pfree UP -> ~ UP [] -> pfree UE -> ~ UE [] ->
  forall pruning st s u steps st',
    CConsistent H fuel US UP UE st s -> ok_commit fuel US UP UE u ->
    ccommit H fuel pruning st s u = CSteps steps st' ->
    dels_old (c_version s + 1) steps ->
    forall k, (k <= length steps)%nat ->
      let sk := ccrash k steps s in
      (k = 0%nat -> sk = s) /\
      ((1 <= k)%nat ->
         c_db sk = apply_commit (c_db s) u /\ c_version sk = c_version s + 1 /\
         c_root sk = db_root H fuel (apply_commit (c_db s) u) /\ CConsistent H fuel US UP UE st' sk).
Proof.
  intros H fuel Hf HZ US UP UE PS S0 PP P0 PE E0.
  exact (composed_crash_safe H fuel Hf HZ US UP UE PS S0 PP P0 PE E0).
Qed.

(* an IO error reported by the k-th RocksDB write (unwrap / expect panics before the write took effect)
   leaves exactly the crash state k, hence the same guarantee *)
Theorem C19_io_error_is_a_crash : forall k steps s, cio_panic k steps s = ccrash k steps s.
Proof. reflexivity. Qed.

(* the pruning loop as written deletes only keys hit by a stale part of the commit ... *)
Theorem C19_pruning_deletes_only_stale : forall parts s k,
  In k (prune_dels parts s) -> exists part, In part parts /\ hits part k.
Proof. exact prune_dels_hit. Qed.
(* ... and only keys of older versions, when every stored node refers to children of its own or an
   older version and the stale parts name old versions *)
Theorem C19_bfs_deletes_only_old_versions :
  forall (H : list N -> list N) fuel, (0 < fuel)%nat -> forall pruning st s u steps st' root ops,
    ccommit H fuel pruning st s u = CSteps steps st' ->
    put_at_next_version H fuel st u = Ok (root, st', ops) ->
    child_mono (ins_all ops (c_nodes s)) ->
    Forall (fun part => part_ver part <= c_version s) (stale_parts_of ops) ->
    dels_old (c_version s + 1) steps.
Proof. exact dels_old_from_structure. Qed.

Theorem C19_empty_store_consistent : forall H fuel US UP UE,
  CConsistent H fuel US UP UE None (mkC [] None [] []).
Proof. exact empty_consistent. Qed.

(* non-vacuity: the two commits of C17_nonvacuous_db (two entities; then a delete, an overwrite and a
   partition Reset to empty) on the empty store with pruning: all hypotheses of
   C19_composed_crash_safe hold for both commits (the second one starts from the store the first one
   leaves, consistent BY the theorem), the second commit has pruning deletions after its batch *)
Example C19_composed_nonvacuous :
  let H := fun l : list N => 1 :: l in
  let US := fun k : list N => length k = 2%nat in
  let UE := fun k : list N => length k = 4%nat in
  let u1 : db_updates := [([1;2;3;4], [([0;6], Delta [([1;2], Some [30]); ([1;3], Some [31])])]);
                          ([1;2;3;5], [([0;6], Delta [([1;2], Some [5])]); ([0;7], Delta [])])] in
  let u2 : db_updates := [([1;2;3;4], [([0;6], Delta [([1;2], None); ([1;3], Some [32])])]);
                          ([1;2;3;5], [([0;6], Reset [])])] in
  let s0 := mkC [] None [] [] in
  exists steps1 st1 steps2 st2,
    ccommit H 9 true None s0 u1 = CSteps steps1 st1 /\ dels_old 1 steps1 /\
    ok_commit 9 US US UE u1 /\ ok_commit 9 US US UE u2 /\
    CConsistent H 9 US US UE st1 (crun steps1 s0) /\
    ccommit H 9 true st1 (crun steps1 s0) u2 = CSteps steps2 st2 /\ dels_old 2 steps2 /\
    (3 <= length steps2)%nat /\
    c_db (crun steps2 (crun steps1 s0)) = [([1;2;3;4], [([0;6], [([1;3], [32])])])].
Proof.
  cbv zeta. destruct RV.Props.C17.C17_nonvacuous_db as (HZ & OK & _). cbv zeta in HZ, OK.
  inversion OK as [|x l OK1 OK']; subst. inversion OK' as [|x l OK2 _]; subst.
  eexists. eexists. eexists. eexists.
  split; [vm_compute; reflexivity|]. split; [apply dels_oldb_spec; vm_compute; reflexivity|].
  split; [exact OK1|]. split; [exact OK2|].
  split.
  - match goal with |- CConsistent ?H ?f ?US ?UP ?UE ?st1 (crun ?steps1 ?s0) =>
      destruct (composed_crash_safe H f (ltac:(repeat constructor)) HZ US UP UE
                  (pfree_fixed_length 2) (ltac:(intro Q; discriminate Q)) (pfree_fixed_length 2) (ltac:(intro Q; discriminate Q))
                  (pfree_fixed_length 4) (ltac:(intro Q; discriminate Q)) true None s0 _ steps1 st1
                  (empty_consistent H f US UP UE) OK1 (ltac:(vm_compute; reflexivity))
                  (ltac:(apply dels_oldb_spec; vm_compute; reflexivity)) (length steps1) (le_n _)) as [_ T];
      destruct (T (ltac:(apply Nat.leb_le; vm_compute; reflexivity))) as (_ & _ & _ & C);
      unfold ccrash in C; rewrite firstn_all in C; exact C
    end.
  - split; [vm_compute; reflexivity|]. split; [apply dels_oldb_spec; vm_compute; reflexivity|].
    split; [apply Nat.leb_le; vm_compute; reflexivity|vm_compute; reflexivity].
Qed.
End Composed.

Print Assumptions C19_atomic_layout_safe.
Print Assumptions C19_commit_crash_safe.
Print Assumptions C19_commit_crash_safe_tree.
Print Assumptions C19_commit_post_state.
Print Assumptions C19_commit_panics_iff_version_overflow.
Print Assumptions C19_post_substates_are_the_updates.
Print Assumptions C19_pre_fix_layout_refuted.
Print Assumptions C19_prefix_states_are_crash_states.
Print Assumptions C19_nonvacuous.
Print Assumptions Composed.C19_composed_crash_safe.
Print Assumptions Composed.C19_io_error_is_a_crash.
Print Assumptions Composed.C19_pruning_deletes_only_stale.
Print Assumptions Composed.C19_bfs_deletes_only_old_versions.
Print Assumptions Composed.C19_empty_store_consistent.
Print Assumptions Composed.C19_composed_nonvacuous.
