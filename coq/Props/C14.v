(* C14 — A database overlay behaves like the database with the commits applied.  Property theorems.

   ov_run base cs        the overlay (staging area + root) after `commit`ting the history cs to a fresh
                         SubstateDatabaseOverlay over the in-memory database `base`
   apply_commits base cs the specification: `base` with the same commits applied directly
   db_wf base            representation invariant of InMemorySubstateDatabase (sorted maps, no empty
                         partition); it holds for every database reachable from `standard()` (C14_base_reachable)
   updates_wf u          the IndexMap invariant of DatabaseUpdates that the overlay relies on:
                         inside one node entry the partition numbers are distinct
   A listing is the list of all items the returned iterator yields. *)
From Coq Require Import List Arith NArith Bool.
Import ListNotations.
Require Import RV.Lib.Bytes RV.Lib.SortedMap RV.Model.C14_Store RV.Model.C14_Overlay
               RV.Proof.C14_Store RV.Proof.C14_Overlay RV.Proof.C14_PartKeys.
Open Scope N_scope.

(* every read through the overlay equals the read on the base with the commits applied *)
Theorem C14_get : forall base cs pk sk, db_wf base -> Forall updates_wf cs ->
  ov_get (ov_run base cs) pk sk = mem_get (apply_commits base cs) pk sk.
Proof. exact overlay_get. Qed.

(* every ordered partition listing, from the start (None) or from any cursor (Some k: present, deleted,
   between keys, beyond all keys), equals the listing on the base with the commits applied *)
Theorem C14_list_from : forall base cs pk from, db_wf base -> Forall updates_wf cs ->
  ov_list (ov_run base cs) pk from = mem_list (apply_commits base cs) pk from.
Proof. exact overlay_list. Qed.

(* commit_overlay_into_root_store yields exactly the base with the commits applied, and an empty overlay *)
Theorem C14_merge_into_base : forall base cs, db_wf base -> Forall updates_wf cs ->
  ov_commit_into_root (ov_run base cs) = overlay_new (apply_commits base cs).
Proof. exact overlay_merge_into_base. Qed.

(* the overlay keeps behaving like the specification after a merge in the middle of a history *)
Theorem C14_after_merge : forall base cs1 cs2 pk sk from, db_wf base -> Forall updates_wf cs1 -> Forall updates_wf cs2 ->
  let o := fold_left ov_commit cs2 (ov_commit_into_root (ov_run base cs1)) in
  ov_get o pk sk = mem_get (apply_commits base (cs1 ++ cs2)) pk sk /\
  ov_list o pk from = mem_list (apply_commits base (cs1 ++ cs2)) pk from.
Proof.
  intros base cs1 cs2 pk sk from B U1 U2. cbv zeta. rewrite overlay_merge_into_base by assumption.
  change (fold_left ov_commit cs2 (overlay_new (apply_commits base cs1))) with (ov_run (apply_commits base cs1) cs2).
  assert (apply_commits base (cs1 ++ cs2) = apply_commits (apply_commits base cs1) cs2) as ->
    by (unfold apply_commits; apply fold_left_app).
  pose proof (apply_commits_wf cs1 base B) as B'.
  split; [apply overlay_get|apply overlay_list]; assumption.
Qed.

(* the invariant assumed of the base holds for every in-memory database built by commits *)
Theorem C14_base_reachable : forall cs, db_wf (apply_commits mem_new cs).
Proof. intro cs. apply apply_commits_wf. exact db_wf_nil. Qed.

(* OverlayingIterator on ordered inputs: ordered output; an upsert wins, a delete hides, else the base *)
Theorem C14_overlaying_iterator : forall u o, sorted blt u -> sorted blt o ->
  sorted blt (overlaying_iter u o) /\
  forall k, lookup blt k (overlaying_iter u o) =
            match lookup blt k o with Some (Some v) => Some v | Some None => None | None => lookup blt k u end.
Proof. intros u o Su So. split; [apply ov_iter_sorted; assumption|intro k; apply ov_iter_lookup; assumption]. Qed.

(* ---- ListableSubstateDatabase::list_partition_keys of the overlay (not named in the property statement,
        whose "partition listings" are the cursor listings above; brought inside the model as written) ----
   It yields, without duplicates and in key order, the root's partitions and every staged partition;
   the partition set of the specification is exactly the yielded partitions whose listing through the
   overlay is non-empty.  So it is a superset: a staged partition that ends up empty (reset to nothing,
   or all substates deleted) is still yielded ... *)
Theorem C14_list_partition_keys : forall base cs, db_wf base -> Forall updates_wf cs ->
  let o := ov_run base cs in
  NoDup (ov_list_partition_keys o) /\
  (forall pk, In pk (mem_list_partition_keys (apply_commits base cs)) <->
              (In pk (ov_list_partition_keys o) /\ ov_list o pk None <> [])).
Proof. exact overlay_partition_keys. Qed.
(* ... and equality with the specification's partition list does fail (witness replayed by the harness:
   class bf_partition_keys_staged_empty); after commit_overlay_into_root_store it is exact again
   (C14_merge_into_base: the overlay is then a fresh overlay over the specification) *)
Theorem C14_list_partition_keys_equality_refuted :
  exists base cs, db_wf base /\ Forall updates_wf cs /\
    ov_list_partition_keys (ov_run base cs) <> mem_list_partition_keys (apply_commits base cs).
Proof.
  exists mem_new, [[([1], [(0, PReset [])])]]. split; [exact db_wf_nil|]. split.
  - repeat constructor; cbn; intuition.
  - vm_compute. discriminate.
Qed.
Theorem C14_list_partition_keys_fresh : forall db, db_wf db ->
  ov_list_partition_keys (overlay_new db) = mem_list_partition_keys db.
Proof.
  intros db W. unfold ov_list_partition_keys, overlay_new. cbn [ov_staging ov_root flat_map].
  destruct (map (fun pk : pkey => (pk, tt)) (mem_list_partition_keys db)) eqn:E; rewrite <- E;
    [|]; rewrite ?E; cbn [overlaying_iter_gen]; rewrite <- ?E; rewrite map_map; cbn [fst]; apply map_id.
Qed.

(* database_updates() / into_database_updates() / deconstruct(): the returned updates keep the IndexMap
   invariant and committing them to the base yields the base with the commits applied *)
Theorem C14_database_updates : forall base cs, db_wf base -> Forall updates_wf cs ->
  updates_wf (ov_database_updates (ov_run base cs)) /\
  mem_commit base (ov_database_updates (ov_run base cs)) = apply_commits base cs.
Proof. exact overlay_database_updates. Qed.

(* non-vacuity: a base with two partitions; history = delta, reset, delta on the reset partition,
   delete of an absent key; listings from a cursor that is a deleted key *)
Example C14_nonvacuous :
  let base := apply_commits mem_new
                [[([1], [(0, PDelta [([5], USet [50]); ([7], USet [70]); ([9], USet [90])]);
                         (1, PDelta [([2], USet [20])])])]] in
  let cs := [ [([1], [(0, PDelta [([7], UDelete); ([8], USet [80])])])];
              [([1], [(1, PReset [([3], [30])]); (0, PDelta [([6], UDelete)])])];
              [([1], [(1, PDelta [([4], USet [40]); ([3], UDelete)])])] ] in
  db_wf base /\ Forall updates_wf cs /\
  ov_list (ov_run base cs) ([1], 0) (Some [7]) = [([8], [80]); ([9], [90])] /\
  ov_list (ov_run base cs) ([1], 1) None = [([4], [40])] /\
  ov_get (ov_run base cs) ([1], 1) [2] = None /\
  ov_get (ov_run base cs) ([1], 0) [5] = Some [50].
Proof.
  cbv zeta. split; [apply C14_base_reachable|]. split.
  - repeat constructor; cbn; intuition discriminate.
  - repeat split; vm_compute; reflexivity.
Qed.

Print Assumptions C14_get.
Print Assumptions C14_list_from.
Print Assumptions C14_merge_into_base.
Print Assumptions C14_after_merge.
Print Assumptions C14_base_reachable.
Print Assumptions C14_overlaying_iterator.
Print Assumptions C14_nonvacuous.
Print Assumptions C14_list_partition_keys.
Print Assumptions C14_list_partition_keys_equality_refuted.
Print Assumptions C14_list_partition_keys_fresh.
Print Assumptions C14_database_updates.
