(* C41 — Liquidity pools stay solvent and fair. Property theorems only.
   Model: Model/C41_Pool.v (one-/two-/multi-resource pool blueprints v1_1, integers = attos).
   Vocabulary (Proof/C41_Pool.v):
     wf_divs dvs            every divisibility is in 0..18
     wf_pool dvs p          supply >= 0, one reserve >= 0 per resource
     inv dvs p              wf_pool and every reserve is a multiple of its resource's step 10^(18-div)
     valid_amount dv c      c >= 0 and a multiple of the step (what a bucket can hold)
     op_ok dvs o            the amounts carried by o are bucket amounts (contribute, deposit), units >= 0
     floor_to d x           d * (x / d), Z./ = floor division
     owed_bound u s o (dv,r)  0 <= o <= floor_to (step dv) (u*r/s), (u <= s -> o <= r), o multiple of the step
     unowned_reserves p     supply p = 0 and some reserve <> 0 (only a protected_deposit creates it)
     took q dv r c t r'     0<=dv<=18, 0 <= t <= c, t multiple of the step, q*r < (t+step)*10^36, r' = r+t *)
From Coq Require Import ZArith List Bool Lia.
Import ListNotations.
Require Import RV.Model.C41_Pool RV.Proof.C41_Pool RV.Proof.C41_Extra.
Open Scope Z_scope.

(* A redemption (and get_redemption_value) never pays more than the pro-rata share of each reserve
   rounded down to the resource's divisibility: owed_r <= ⌊units·R_r / S⌋_step, owed_r >= 0, a
   multiple of the step, and <= R_r when units <= S. All integers, all pools. *)
Theorem C41_redeem_pro_rata : forall k dvs p u p' owed,
  redeem k dvs p u = POk (p', owed) -> wf_pool dvs p -> 0 <= u -> 0 < supply p ->
  Forall2 (owed_bound u (supply p)) owed (combine dvs (reserves p)).
Proof. exact redeem_pro_rata. Qed.
Theorem C41_get_redemption_pro_rata : forall k dvs p u owed,
  get_redemption k dvs p u = POk owed -> wf_pool dvs p ->
  0 < u <= supply p /\ Forall2 (owed_bound u (supply p)) owed (combine dvs (reserves p)).
Proof. exact get_redemption_pro_rata. Qed.

(* Contribute, then redeem exactly the minted units: per resource the amount paid out is at most
   the amount the pool took. Holds in every well-formed state except a pool that has reserves but no
   units (those reserves belong to nobody; the blueprint documents that the first contributor gets
   them) — C41_user_histories_have_no_unowned_reserves shows such a state is never reached by
   contributions and redemptions. *)
Theorem C41_no_round_trip_gain : forall k dvs p cs p' m ts p'' owed,
  kind_ok k dvs -> wf_divs dvs -> wf_pool dvs p -> Forall2 valid_amount dvs cs ->
  ~ unowned_reserves p ->
  contribute k dvs p cs = POk (p', m, ts) ->
  redeem k dvs p' m = POk (p'', owed) ->
  Forall2 Z.le owed ts.
Proof. exact no_round_trip_gain_redeem. Qed.

(* The same without any premise on the state: for every well-formed pool, contribute-then-redeem
   either returns at most what was taken, or the pool had reserves but no units (the blueprint's
   documented first-contributor case) — and then the minted units are the whole supply and the
   redemption is still bounded by the reserves. An empty or all-zero contribution (which the
   multi-resource pool accepts on a pool without units, see C41_empty_contribution_mints_one_unit)
   is covered: valid_amount admits zero amounts. *)
Theorem C41_round_trip_total : forall k dvs p cs p' m ts owed,
  kind_ok k dvs -> wf_divs dvs -> wf_pool dvs p -> Forall2 valid_amount dvs cs ->
  contribute k dvs p cs = POk (p', m, ts) ->
  amounts_owed dvs m (supply p') (reserves p') = POk owed ->
  Forall2 Z.le owed ts \/
  (unowned_reserves p /\ supply p' = m /\
   Forall2 (owed_bound m (supply p')) owed (combine dvs (reserves p'))).
Proof. exact round_trip_total. Qed.

(* the exception is real (and documented in the blueprint): manager deposits 5 into an empty
   one-resource pool, a user contributes 1 and can redeem 6 *)
Theorem C41_unowned_reserves_go_to_first_contributor :
  let D := 10 ^ 18 in
  exists p' m ts p'' owed,
    contribute KOne [18] {| supply := 0; reserves := [5 * D] |} [1 * D] = POk (p', m, ts) /\
    redeem KOne [18] p' m = POk (p'', owed) /\ ts = [1 * D] /\ owed = [6 * D].
Proof.
  cbv zeta. do 5 eexists. split; [vm_compute; reflexivity|]. split; [vm_compute; reflexivity|].
  split; vm_compute; reflexivity.
Qed.

(* Histories: from a new pool, every sequence of operations with bucket-valid amounts keeps the
   supply and every reserve non-negative (and every reserve a multiple of its step). *)
Theorem C41_reserves_nonneg : forall k dvs ops,
  kind_ok k dvs -> wf_divs dvs -> Forall (op_ok dvs) ops ->
  Forall (fun xp => inv dvs (snd xp)) (run k dvs (pool_new (length dvs)) ops).
Proof. intros. apply run_inv; auto. apply pool_new_inv. Qed.

(* Histories of contributions, redemptions and queries (no protected deposit/withdraw): a pool
   without units has no reserves, so C41_no_round_trip_gain applies in every reached state. *)
Theorem C41_user_histories_have_no_unowned_reserves : forall k dvs ops,
  kind_ok k dvs -> wf_divs dvs -> Forall (op_ok dvs) ops -> Forall user_op ops ->
  Forall (fun xp => ~ unowned_reserves (snd xp)) (run k dvs (pool_new (length dvs)) ops).
Proof.
  intros k dvs ops Hk Hd Ho Hu. destruct (pool_new_inv dvs) as [Hi Hown].
  pose proof (run_owned k dvs ops _ Hk Hd Hi Hown Ho Hu) as H.
  eapply Forall_impl; [|exact H]. intros a. apply owned_not_unowned.
Qed.

(* Change without loss: a successful contribution mints m > 0; each resource gives 0 <= taken <=
   provided (a multiple of the step) and the reserve grows by exactly the amount taken, so
   provided = taken + change with change = what stays in the caller's bucket. New pool: see all_new
   (everything valid is taken). Pool with units: one 36-digit ratio q with m·10^36 <= q·S such that
   every resource pays at least ⌊q·R_r/10^36⌋ rounded down to its step (took). *)
Theorem C41_change_no_loss : forall k dvs p cs p' m ts,
  contribute k dvs p cs = POk (p', m, ts) ->
  kind_ok k dvs -> wf_divs dvs -> wf_pool dvs p -> Forall2 valid_amount dvs cs ->
  supply p' = supply p + m /\ 0 < m /\
  ((supply p = 0 /\ all_new dvs (reserves p) cs ts (reserves p')) \/
   (0 < supply p /\ exists q, 0 <= q /\ m * PP <= q * supply p /\
                    all_took q dvs (reserves p) cs ts (reserves p'))).
Proof. exact contribute_shape. Qed.
Theorem C41_taken_within_provided : forall k dvs p cs p' m ts,
  contribute k dvs p cs = POk (p', m, ts) ->
  kind_ok k dvs -> wf_divs dvs -> wf_pool dvs p -> Forall2 valid_amount dvs cs ->
  wf_pool dvs p' /\ 0 < supply p' /\ Forall2 (fun t c => 0 <= t <= c) ts cs.
Proof. exact contribute_wf. Qed.

(* Taken in the current ratio, upper side. Pool with units in circulation:
   multi-resource pool — exact: taken_j·R_i <= c_i·R_j for every resource i with reserves, i.e.
   taken_j <= (min_i c_i/R_i)·R_j;
   two-resource pool — taken_j <= c_i·R_j/R_i + R_j/(R_i·10^18) + R_j/10^36 attos (ratio_upper is this
   inequality multiplied out). The excess over the exact ratio is real: the blueprint compares its
   two candidates at 36 digits and on a tie keeps the second one (harness counter
   ratio_exceeded_within_36_digit_precision; e.g. R = (4e18, 43640360518335793289675144805308907827152616),
   c = (6e18, 1.5·R2 + 1 atto): all of c2 is taken). The caller, never the pool, bears that excess. *)
Theorem C41_taken_within_ratio_multi : forall dvs S rs cs p' m ts,
  multi_contribute dvs S rs cs = POk (p', m, ts) ->
  length dvs = length rs -> length rs = length cs -> 0 < S ->
  Forall (fun y => 0 <= y < 2 ^ 191) rs -> Forall (fun y => 0 <= y < 2 ^ 191) cs ->
  Forall2 (fun rj tj => Forall2 (fun ri ci => 0 < ri -> tj * ri <= ci * rj) rs cs) rs ts.
Proof. exact multi_contribute_ratio. Qed.
Theorem C41_taken_within_ratio_two : forall dv1 dv2 S r1 r2 c1 c2 p' m t1 t2,
  two_contribute dv1 dv2 S r1 r2 c1 c2 = POk (p', m, [t1; t2]) ->
  0 < S -> 0 <= r1 -> 0 <= r2 -> 0 <= c1 -> 0 <= c2 ->
  (0 < r2 -> t1 * r2 * PP <= c2 * r1 * PP + r1 * DD + r1 * r2) /\
  (0 < r1 -> t2 * r1 * PP <= c1 * r2 * PP + r2 * DD + r2 * r1).
Proof. exact two_contribute_ratio. Qed.

(* No panic: on every pool whose supply and reserves are Decimal-range values, no operation
   (contribute, redeem, protected_deposit, protected_withdraw, get_redemption_value) reaches a
   panicking path of the modelled code, provided the amounts are Decimal-range and a deposit or
   contribution does not push a vault past the Decimal range (the resource manager's total-supply
   bound guarantees that): vault put overflow, the assert!s of checked_round, the unwrap of
   checked_nth_root and PreciseDecimal::from are all excluded. *)
Theorem C41_no_panic : forall k dvs p o,
  kind_ok k dvs -> wf_divs dvs -> pool_range dvs p -> op_range p o ->
  snd (step_op k dvs p o) <> OutPanic.
Proof. exact step_op_no_panic. Qed.

(* Outside the statement (no clause of C41 is contradicted: nothing is paid out, nothing taken), but
   a defect worth recording: a contribution with no or only empty buckets to a multi-resource pool
   without units mints 1.0 pool unit (the geometric mean over zero contributions is the empty
   product ONE; the one- and two-resource pools reject this case). The pool then has units and no
   reserves, and every later contribution fails with NoMinimumRatio until the pool manager makes a
   protected_deposit — which then belongs entirely to the holder of that unit. Replayed on the
   engine by the harness in every run (scripted history, counter
   empty_contribution_minted_pool_units). *)
Theorem C41_empty_contribution_mints_one_unit :
  exists p',
    contribute KMulti [18; 2] (pool_new 2) [0; 0] = POk (p', 10 ^ 18, [0; 0]) /\
    p' = {| supply := 10 ^ 18; reserves := [0; 0] |} /\
    contribute KMulti [18; 2] p' [5 * 10 ^ 18; 3 * 10 ^ 18] = PErr ENoMinRatio.
Proof. eexists. split; [vm_compute; reflexivity|]. split; [reflexivity|vm_compute; reflexivity]. Qed.

(* non-vacuity: a two-resource pool (divisibilities 2 and 18) with units in circulation; an
   unbalanced contribution is accepted with change, mints units, and the round trip loses dust *)
Example C41_nonvacuous :
  let p := {| supply := 1000; reserves := [300; 700] |} in
  let dvs := [18; 18] in
  wf_pool dvs p /\ ~ unowned_reserves p /\
  exists p' m ts p'' owed,
    contribute KTwo dvs p [100; 100] = POk (p', m, ts) /\ ts = [42; 100] /\ m = 142 /\
    redeem KTwo dvs p' m = POk (p'', owed) /\ owed = [42; 99].
Proof.
  split; [repeat split; cbn; try lia; repeat constructor; lia|].
  split; [intros [H _]; discriminate|].
  do 5 eexists. split; [vm_compute; reflexivity|]. split; [vm_compute; reflexivity|].
  split; [vm_compute; reflexivity|]. split; vm_compute; reflexivity.
Qed.

Print Assumptions C41_redeem_pro_rata.
Print Assumptions C41_get_redemption_pro_rata.
Print Assumptions C41_no_round_trip_gain.
Print Assumptions C41_round_trip_total.
Print Assumptions C41_unowned_reserves_go_to_first_contributor.
Print Assumptions C41_reserves_nonneg.
Print Assumptions C41_user_histories_have_no_unowned_reserves.
Print Assumptions C41_change_no_loss.
Print Assumptions C41_taken_within_ratio_multi.
Print Assumptions C41_taken_within_ratio_two.
Print Assumptions C41_empty_contribution_mints_one_unit.
Print Assumptions C41_taken_within_provided.
Print Assumptions C41_no_panic.
Print Assumptions C41_nonvacuous.
