(* C41 — Liquidity pools stay solvent and fair. Property theorems only.
   Model: Model/C41_Pool.v (one-/two-/multi-resource pool blueprints v1_1, integers = attos).
   Vocabulary (Proof/C41_Pool.v):
     wf_divs dvs            every divisibility is in 0..18
     wf_pool dvs p          supply >= 0, one reserve >= 0 per resource
     inv dvs p              wf_pool and every reserve is a multiple of its resource's step 10^(18-div)
     valid_amount dv c      c >= 0 and a multiple of the step (what a bucket can hold)
     op_ok dvs o            the amounts carried by o are bucket amounts (contribute, deposit), units >= 0
     floor_to d x           d * (x / d), Z./ = floor division
     owed_bound u s o (dv,r)  0 <= o <= floor_to (step dv) (u*r/s), (u <= s -> o <= r), o multiple of the step
     unowned_reserves p     supply p = 0 and some reserve <> 0 (only a protected_deposit creates it)
     took q dv r c t r'     0<=dv<=18, 0 <= t <= c, t multiple of the step, q*r < (t+step)*10^36, r' = r+t *)
From Coq Require Import ZArith List Bool Lia.
Import ListNotations.
Require Import RV.Model.C41_Pool RV.Proof.C41_Pool.
Open Scope Z_scope.

(* A redemption (and get_redemption_value) never pays more than the pro-rata share of each reserve
   rounded down to the resource's divisibility: owed_r <= ⌊units·R_r / S⌋_step, owed_r >= 0, a
   multiple of the step, and <= R_r when units <= S. All integers, all pools. *)
Theorem C41_redeem_pro_rata : forall k dvs p u p' owed,
  redeem k dvs p u = POk (p', owed) -> wf_pool dvs p -> 0 <= u -> 0 < supply p ->
  Forall2 (owed_bound u (supply p)) owed (combine dvs (reserves p)).
Proof. exact redeem_pro_rata. Qed.
Theorem C41_get_redemption_pro_rata : forall k dvs p u owed,
  get_redemption k dvs p u = POk owed -> wf_pool dvs p ->
  0 < u <= supply p /\ Forall2 (owed_bound u (supply p)) owed (combine dvs (reserves p)).
Proof. exact get_redemption_pro_rata. Qed.

(* Contribute, then redeem exactly the minted units: per resource the amount paid out is at most
   the amount the pool took. Holds in every well-formed state except a pool that has reserves but no
   units (those reserves belong to nobody; the blueprint documents that the first contributor gets
   them) — C41_user_histories_have_no_unowned_reserves shows such a state is never reached by
   contributions and redemptions. *)
Theorem C41_no_round_trip_gain : forall k dvs p cs p' m ts p'' owed,
  kind_ok k dvs -> wf_divs dvs -> wf_pool dvs p -> Forall2 valid_amount dvs cs ->
  ~ unowned_reserves p ->
  contribute k dvs p cs = POk (p', m, ts) ->
  redeem k dvs p' m = POk (p'', owed) ->
  Forall2 Z.le owed ts.
Proof. exact no_round_trip_gain_redeem. Qed.

(* the exception is real (and documented in the blueprint): manager deposits 5 into an empty
   one-resource pool, a user contributes 1 and can redeem 6 *)
Theorem C41_unowned_reserves_go_to_first_contributor :
  let D := 10 ^ 18 in
  exists p' m ts p'' owed,
    contribute KOne [18] {| supply := 0; reserves := [5 * D] |} [1 * D] = POk (p', m, ts) /\
    redeem KOne [18] p' m = POk (p'', owed) /\ ts = [1 * D] /\ owed = [6 * D].
Proof.
  cbv zeta. do 5 eexists. split; [vm_compute; reflexivity|]. split; [vm_compute; reflexivity|].
  split; vm_compute; reflexivity.
Qed.

(* Histories: from a new pool, every sequence of operations with bucket-valid amounts keeps the
   supply and every reserve non-negative (and every reserve a multiple of its step). *)
Theorem C41_reserves_nonneg : forall k dvs ops,
  kind_ok k dvs -> wf_divs dvs -> Forall (op_ok dvs) ops ->
  Forall (fun xp => inv dvs (snd xp)) (run k dvs (pool_new (length dvs)) ops).
Proof. intros. apply run_inv; auto. apply pool_new_inv. Qed.

(* Histories of contributions, redemptions and queries (no protected deposit/withdraw): a pool
   without units has no reserves, so C41_no_round_trip_gain applies in every reached state. *)
Theorem C41_user_histories_have_no_unowned_reserves : forall k dvs ops,
  kind_ok k dvs -> wf_divs dvs -> Forall (op_ok dvs) ops -> Forall user_op ops ->
  Forall (fun xp => ~ unowned_reserves (snd xp)) (run k dvs (pool_new (length dvs)) ops).
Proof.
  intros k dvs ops Hk Hd Ho Hu. destruct (pool_new_inv dvs) as [Hi Hown].
  pose proof (run_owned k dvs ops _ Hk Hd Hi Hown Ho Hu) as H.
  eapply Forall_impl; [|exact H]. intros a. apply owned_not_unowned.
Qed.

(* Change without loss: a successful contribution mints m > 0; each resource gives 0 <= taken <=
   provided (a multiple of the step) and the reserve grows by exactly the amount taken, so
   provided = taken + change with change = what stays in the caller's bucket. New pool: see all_new
   (everything valid is taken). Pool with units: one 36-digit ratio q with m·10^36 <= q·S such that
   every resource pays at least ⌊q·R_r/10^36⌋ rounded down to its step (took).
   PARTIAL: the upper bound "taken_r <= (min_j c_j/R_j)·R_r up to the 36-digit precision slack" is
   checked by the harness oracle on the implementation, not proved here. *)
Theorem C41_change_no_loss_partial : forall k dvs p cs p' m ts,
  contribute k dvs p cs = POk (p', m, ts) ->
  kind_ok k dvs -> wf_divs dvs -> wf_pool dvs p -> Forall2 valid_amount dvs cs ->
  supply p' = supply p + m /\ 0 < m /\
  ((supply p = 0 /\ all_new dvs (reserves p) cs ts (reserves p')) \/
   (0 < supply p /\ exists q, 0 <= q /\ m * PP <= q * supply p /\
                    all_took q dvs (reserves p) cs ts (reserves p'))).
Proof. exact contribute_shape. Qed.
Theorem C41_taken_within_provided : forall k dvs p cs p' m ts,
  contribute k dvs p cs = POk (p', m, ts) ->
  kind_ok k dvs -> wf_divs dvs -> wf_pool dvs p -> Forall2 valid_amount dvs cs ->
  wf_pool dvs p' /\ 0 < supply p' /\ Forall2 (fun t c => 0 <= t <= c) ts cs.
Proof. exact contribute_wf. Qed.

(* No panic, PARTIAL: redeem and get_redemption_value (calculate_amount_owed, burn, vault takes)
   never reach a panicking path for amounts in the Decimal range. Not proved: the same for
   contribute (its panicking paths are vault `put` overflow, excluded by the resource's total-supply
   bound, and the unwrap in checked_nth_root); the harness reports any panic as a failure. *)
Theorem C41_no_panic_partial : forall k dvs p u,
  wf_divs dvs -> 0 <= u < 2 ^ 191 -> 0 <= supply p < 2 ^ 191 ->
  Forall (fun r => 0 <= r < 2 ^ 191) (reserves p) ->
  redeem k dvs p u <> PPanic /\ get_redemption k dvs p u <> PPanic.
Proof. exact redeem_no_panic. Qed.

(* non-vacuity: a two-resource pool (divisibilities 2 and 18) with units in circulation; an
   unbalanced contribution is accepted with change, mints units, and the round trip loses dust *)
Example C41_nonvacuous :
  let p := {| supply := 1000; reserves := [300; 700] |} in
  let dvs := [18; 18] in
  wf_pool dvs p /\ ~ unowned_reserves p /\
  exists p' m ts p'' owed,
    contribute KTwo dvs p [100; 100] = POk (p', m, ts) /\ ts = [42; 100] /\ m = 142 /\
    redeem KTwo dvs p' m = POk (p'', owed) /\ owed = [42; 99].
Proof.
  split; [repeat split; cbn; try lia; repeat constructor; lia|].
  split; [intros [H _]; discriminate|].
  do 5 eexists. split; [vm_compute; reflexivity|]. split; [vm_compute; reflexivity|].
  split; [vm_compute; reflexivity|]. split; vm_compute; reflexivity.
Qed.

Print Assumptions C41_redeem_pro_rata.
Print Assumptions C41_get_redemption_pro_rata.
Print Assumptions C41_no_round_trip_gain.
Print Assumptions C41_unowned_reserves_go_to_first_contributor.
Print Assumptions C41_reserves_nonneg.
Print Assumptions C41_user_histories_have_no_unowned_reserves.
Print Assumptions C41_change_no_loss_partial.
Print Assumptions C41_taken_within_provided.
Print Assumptions C41_no_panic_partial.
Print Assumptions C41_nonvacuous.
