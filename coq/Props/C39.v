(* C39 — Account deposit rules are enforced exactly. Property theorems only.
   Model: Model/C39_AccountDeposit.v (guarded deposit methods of the account blueprint, both the
   original functions and the Bottlenose extension; `try_deposit true` = the code exported from
   Bottlenose on, which is what the property is about).
   Vocabulary (Proof/C39_AccountDeposit.v):
     allowed_all a bs   every bucket's resource passes is_deposit_allowed (preference, else default rule)
     listed a c         a badge is named and it is on the account's authorized-depositor list
     proven c           the named badge is provable from the caller's auth zone
     offending a bs     the refused buckets, in order (one RejectedDepositEvent each)
     sum_for r bs       total amount of resource r in the batch (duplicates add up) *)
From Coq Require Import List NArith ZArith Bool.
Import ListNotations.
Require Import RV.Model.C39_AccountDeposit RV.Proof.C39_AccountDeposit.
Open Scope Z_scope.

(* the decision, for every account state, variant, batch and caller:
   1. all allowed, or named badge listed and proven  -> everything deposited;
   2. a bucket refused, named badge listed, not proven -> the call fails, nothing changes;
   3. a bucket refused, no listed badge named          -> nothing deposited: refund variants return
      every bucket (the refused ones are reported), abort variants fail. *)
Theorem C39_decision : forall a v bs c,
  (allowed_all a bs = true \/ (listed a c = true /\ proven c = true) ->
     try_deposit true a v bs c = (deposit_batch a bs, Deposited)) /\
  (allowed_all a bs = false -> listed a c = true -> proven c = false ->
     try_deposit true a v bs c = (a, Failed EBadgeNotPresent)) /\
  (allowed_all a bs = false -> listed a c = false ->
     try_deposit true a v bs c =
       (a, match v with
           | SingleRefund | BatchRefund => Refunded (offending a bs)
           | SingleAbort => Failed (match named c with Some _ => ENotAnAuthorizedDepositor | None => EDepositIsDisallowed end)
           | BatchAbort => Failed (match named c with Some _ => ENotAnAuthorizedDepositor | None => ENotAllBuckets end)
           end)).
Proof. exact decision. Qed.

Theorem C39_deposited_iff : forall a v bs c,
  snd (try_deposit true a v bs c) = Deposited <->
  (allowed_all a bs = true \/ (listed a c = true /\ proven c = true)).
Proof. exact deposited_iff. Qed.

(* the original functions (exported before Bottlenose, still used by the abort variants): the only
   difference is that a refund variant naming an UNLISTED badge fails instead of refunding *)
Theorem C39_decision_pre_bottlenose : forall a v bs c,
  (allowed_all a bs = true \/ (listed a c = true /\ proven c = true) ->
     try_deposit false a v bs c = (deposit_batch a bs, Deposited)) /\
  (allowed_all a bs = false -> listed a c = true -> proven c = false ->
     try_deposit false a v bs c = (a, Failed EBadgeNotPresent)) /\
  (allowed_all a bs = false -> listed a c = false ->
     try_deposit false a v bs c =
       (a, match named c with
           | Some _ => Failed ENotAnAuthorizedDepositor
           | None => match v with
                     | SingleRefund | BatchRefund => Refunded (offending a bs)
                     | SingleAbort => Failed EDepositIsDisallowed
                     | BatchAbort => Failed ENotAllBuckets
                     end
           end)).
Proof. exact decision_pre_bottlenose. Qed.

(* frame (both code versions): the deposit configuration never changes; vaults of resources not in
   the batch are untouched; a deposit adds exactly the batch's amount per resource (creating the
   vault if needed); a call that does not deposit everything changes nothing at all *)
Theorem C39_frame : forall bn a v bs c,
  let a' := fst (try_deposit bn a v bs c) in
  a_default a' = a_default a /\ a_prefs a' = a_prefs a /\ a_auth a' = a_auth a /\
  (forall r, memN r (map fst bs) = false -> lookup r (a_vaults a') = lookup r (a_vaults a)) /\
  (snd (try_deposit bn a v bs c) = Deposited ->
     forall r, memN r (map fst bs) = true -> lookup r (a_vaults a') = Some (balance a r + sum_for r bs)) /\
  (snd (try_deposit bn a v bs c) <> Deposited -> a' = a).
Proof. exact frame. Qed.

(* SEVERAL ACCOUNTS. The world maps addresses to accounts (an address without an entry is a
   preallocated account that does not exist yet = the blueprint defaults). For every transaction of the
   harness kinds (guarded deposit from a source account, owner deposit, owner withdrawal into another
   account, configuration change) every account that is not a party of it is exactly as before: *)
Theorem C39_world_frame : forall bn w o a, ~ In a (parties o) -> wget (fst (wstep bn w o)) a = wget w a.
Proof. exact world_frame. Qed.

(* the guarded-deposit transaction itself: when everything is deposited the target is as in
   C39_frame and the source loses exactly the buckets (configuration untouched); in every other
   outcome the target is unchanged and the source is restored (same configuration, same vaults);
   per resource, source + target hold the same total before and after *)
Theorem C39_world_try : forall bn w src tgt v bs c, src <> tgt ->
  let w' := fst (wstep bn w (WTry src tgt v bs c)) in
  let out := snd (wstep bn w (WTry src tgt v bs c)) in
  (out = Deposited ->
     wget w' tgt = fst (try_deposit bn (wget w tgt) v bs c) /\
     a_default (wget w' src) = a_default (wget w src) /\ a_prefs (wget w' src) = a_prefs (wget w src) /\
     a_auth (wget w' src) = a_auth (wget w src) /\
     forall r, lookup r (a_vaults (wget w' src)) =
               if memN r (map fst bs) then Some (balance (wget w src) r - sum_for r bs) else lookup r (a_vaults (wget w src))) /\
  (out <> Deposited -> wget w' tgt = wget w tgt /\ same_acct (wget w' src) (wget w src)).
Proof. exact world_try. Qed.
Theorem C39_world_conservation : forall bn w src tgt v bs c r, src <> tgt ->
  let w' := fst (wstep bn w (WTry src tgt v bs c)) in
  balance (wget w' src) r + balance (wget w' tgt) r = balance (wget w src) r + balance (wget w tgt) r.
Proof. exact world_try_conservation. Qed.

(* default AllowExisting (no explicit preference): exactly XRD and resources with an existing vault *)
Theorem C39_allow_existing : forall a r,
  a_default a = AllowExisting -> lookup r (a_prefs a) = None ->
  (is_deposit_allowed a r = true <-> (r = XRD \/ has_vault a r = true)).
Proof. exact allow_existing. Qed.
Theorem C39_preference_decides : forall a r p,
  lookup r (a_prefs a) = Some p -> is_deposit_allowed a r = match p with Allowed => true | Disallowed => false end.
Proof. exact preference_decides. Qed.

(* resource history: over every history of guarded deposits, owner deposits, withdrawals and
   configuration changes, the account holds a vault of r iff it did initially or an earlier step
   deposited a bucket of r (vaults are never removed, not even when emptied) *)
Theorem C39_vault_history : forall bn ops a r,
  has_vault (final bn a ops) r = true <->
  (has_vault a r = true \/
   exists e, In e (run bn a ops) /\ snd e = Deposited /\ memN r (map fst (deposits_of (snd (fst (fst e))))) = true).
Proof. exact vault_history. Qed.

(* non-vacuity: AllowExisting account holding resource 1; a mixed batch (resource 1 twice, new
   resource 2) is refused and refunded, goes through with a listed proven badge, fails when the
   badge is not proven *)
Example C39_nonvacuous :
  let a := {| a_default := AllowExisting; a_prefs := [(3%N, Disallowed)]; a_auth := [7%N]; a_vaults := [(1%N, 10)] |} in
  let bs := [(1%N, 5); (2%N, 4); (1%N, 0)] in
  try_deposit true a BatchRefund bs {| named := None; proofs := [] |} = (a, Refunded [(2%N, 4)]) /\
  snd (try_deposit true a BatchRefund bs {| named := Some 7%N; proofs := [7%N] |}) = Deposited /\
  lookup 1%N (a_vaults (fst (try_deposit true a BatchRefund bs {| named := Some 7%N; proofs := [7%N] |}))) = Some 15 /\
  try_deposit true a BatchRefund bs {| named := Some 7%N; proofs := [] |} = (a, Failed EBadgeNotPresent) /\
  try_deposit true a BatchAbort bs {| named := Some 9%N; proofs := [9%N] |} = (a, Failed ENotAnAuthorizedDepositor) /\
  try_deposit true a SingleRefund [(0%N, 1)] {| named := None; proofs := [] |} =
    (deposit_batch a [(0%N, 1)], Deposited).
Proof. vm_compute. repeat split. Qed.

Print Assumptions C39_decision.
Print Assumptions C39_deposited_iff.
Print Assumptions C39_decision_pre_bottlenose.
Print Assumptions C39_frame.
Print Assumptions C39_world_frame.
Print Assumptions C39_world_try.
Print Assumptions C39_world_conservation.
Print Assumptions C39_allow_existing.
Print Assumptions C39_preference_decides.
Print Assumptions C39_vault_history.
