(* C10 — Funds behind a live proof cannot be withdrawn. Property theorems only.

   A *history* (`hop` list) is any interleaving of: HLock a = create_proof_of_amount a or clone of
   a live proof of amount a (both call lock_amount a); HDrop a = drop of a live proof of amount a
   (unlock_amount a through the proof's teardown); HTake x = withdraw / burn / recall of x;
   HPut x = deposit of x.  `hrun div (f_new amt, []) ops = Some (c, ps)` says that the real
   container code (f_lock / f_unlock / f_take / f_put of Model/C10_ProofLock.v), started from a
   container holding `amt` with no proofs, performed every step of `ops` successfully, drops being
   issued only for proofs that are alive; `ps` is the multiset of amounts of the live proofs. *)
From Coq Require Import List ZArith NArith Bool.
Import ListNotations.
Require Import RV.Model.C10_ProofLock RV.Proof.C10_ProofLock RV.Proof.C10_NonFungible RV.Proof.C10_NonFungibleUnlock.
Require RV.Lib.DecCore RV.Model.C25_Round.
Require Import RV.Model.C10_Rounded RV.Proof.C10_Rounded.
Open Scope Z_scope.

(* liquid + locked (= max of the locked amounts) only changes by what is taken out or put in:
   creating, cloning and dropping proofs never changes it; and the locked amount is the maximum
   of the live proofs' amounts *)
Theorem C10_total_invariant : forall div amt ops c ps, 0 <= amt <= DEC_MAX ->
  hrun div (f_new amt, []) ops = Some (c, ps) ->
  fliq c + fmax (flocked c) = amt + flow ops /\ fmax (flocked c) = lmax ps.
Proof. exact total_invariant. Qed.

(* in every reachable state, a withdrawal / burn / recall of x succeeds iff x is a valid amount for
   the divisibility and fits in (total - maximum live proof) *)
Theorem C10_withdraw_iff : forall div amt ops c ps x, 0 <= amt <= DEC_MAX ->
  hrun div (f_new amt, []) ops = Some (c, ps) ->
  ((exists c', f_take div x c = Ok (c', x)) <->
   check_fungible_amount div x = true /\ x <= (amt + flow ops) - lmax ps).
Proof. exact withdraw_iff. Qed.

(* two overlapping proofs lock the maximum of their amounts, not the sum *)
Theorem C10_max_not_sum : forall amt a b c1 c2, 0 <= amt <= DEC_MAX -> 0 <= a -> 0 <= b ->
  f_lock a (f_new amt) = Ok c1 -> f_lock b c1 = Ok c2 ->
  fmax (flocked c2) = Z.max a b /\ fliq c2 = amt - Z.max a b.
Proof. exact max_not_sum. Qed.

(* when all proofs have been dropped, nothing is locked and the full amount is liquid again *)
Theorem C10_all_dropped_restores : forall div amt ops c, 0 <= amt <= DEC_MAX ->
  hrun div (f_new amt, []) ops = Some (c, []) ->
  flocked c = [] /\ fliq c = amt + flow ops.
Proof. exact all_dropped_restores. Qed.

(* dropping a live proof never hits the `expect` of unlock_amount nor the "Overflow" expect of
   put, in any reachable state; lock / take / create_proof / get_amount have no panic path *)
Theorem C10_no_panic : forall div amt ops c ps a, 0 <= amt <= DEC_MAX ->
  hrun div (f_new amt, []) ops = Some (c, ps) -> In a ps ->
  exists c', f_unlock a c = Ok c'.
Proof. exact no_panic. Qed.
Theorem C10_no_panic_other : forall div a c,
  f_lock a c <> Panic /\ f_take div a c <> Panic /\ f_create_proof div a c <> Panic /\ f_amount c <> Panic.
Proof. exact lock_take_never_panic. Qed.

(* every accepted amount (withdrawn, burned, recalled or proven) is a non-negative multiple of
   10^(18 - divisibility) *)
Theorem C10_divisibility : forall div a c r,
  (f_take div a c = Ok r \/ exists c', f_create_proof div a c = Ok c') -> 0 <= a /\ a mod unit_of div = 0.
Proof. exact accepted_amounts_divisible. Qed.

(* ---- take_advanced with a withdraw strategy ----
   Exact is take.  Rounded(m): the requested amount x is rounded to a multiple of 10^(18-div) as
   mode m prescribes (C25's independent specification round_spec: a multiple, less than one unit
   away, x itself when already a multiple); an unrepresentable result is DecimalOverflow; otherwise
   exactly the rounded amount r is taken, which succeeds iff 0 <= r <= total - max(live proofs):
   rounding can never take funds from under a proof nor an amount off the divisibility grid. *)
Theorem C10_withdraw_exact_is_take : forall div a c, f_take_adv div C25_Round.WExact a c = f_take div a c.
Proof. exact take_adv_exact. Qed.
Theorem C10_withdraw_rounded : forall c ps div m x, Good c ps -> DecCore.InF DecCore.DEC x -> 0 <= div <= 18 ->
  let r := C25_Round.round_spec m (unit_of div) x in
  (DecCore.in_f DecCore.DEC r = false -> f_take_adv div (C25_Round.WRounded m) x c = Err EOverflow) /\
  (DecCore.in_f DecCore.DEC r = true ->
     f_take_adv div (C25_Round.WRounded m) x c = f_take div r c /\
     r mod unit_of div = 0 /\ Z.abs (r - x) < unit_of div /\ (x mod unit_of div = 0 -> r = x) /\
     ((exists c', f_take_adv div (C25_Round.WRounded m) x c = Ok (c', r)) <-> 0 <= r <= total c - lmax ps)).
Proof. exact take_adv_rounded. Qed.
Example C10_rounded_nonvacuous :
  f_take_adv 2 (C25_Round.WRounded C25_Round.ToNearestMidpointToEven) 25000000000000000 (f_new 1000000000000000000)
    = Ok ({| fliq := 980000000000000000; flocked := [] |}, 20000000000000000)
  /\ f_take_adv 2 (C25_Round.WRounded C25_Round.ToPositiveInfinity) 1 {| fliq := 0; flocked := [(5, 1%N)] |} = Err EInsufficient
  /\ f_take_adv 2 (C25_Round.WRounded C25_Round.ToNegativeInfinity) (-1) (f_new 10) = Err EInvalidAmount.
Proof. repeat split; vm_compute; reflexivity. Qed.

(* ---- non-fungible containers ----
   NWf c: the liquid ids are distinct and none of them is in the lock table (holds initially and is
   kept by lock and take).  Proved: locking (create proof / clone) succeeds only for ids the
   container holds, keeps the set of ids held, and puts every proven id in the lock table and out
   of the liquid set; a take / recall / burn of ids succeeds iff the ids are distinct and all
   liquid; hence no id under a live lock can be withdrawn.
   Histories (`nhop` list): NLock ids = create proof of ids / clone (lock_non_fungibles), NDrop ids
   = drop of a live proof of exactly these ids (unlock_non_fungibles through its teardown), NTake
   ids = withdraw / burn / recall, NPut ids = deposit of ids the container does not hold (ids are
   unique ledger-wide).  `nhrun (n_new ids0, []) ops = Some (c, ps)`: the real container code
   performed every step; ps = id lists of the live proofs. *)
Theorem C10_nf_lock_keeps_ids : forall ids c c', NWf c -> n_lock ids c = Ok c' ->
  NWf c' /\ (forall y, holds c' y <-> holds c y) /\ (forall y, In y ids -> holds c y) /\
  (forall y, In y ids -> In y (nkeys (nlocked c')) /\ ~ In y (nliq c')) /\
  (forall y, In y (nkeys (nlocked c)) -> In y (nkeys (nlocked c'))).
Proof. exact n_lock_spec. Qed.
Theorem C10_nf_withdraw_iff : forall ids c, NWf c ->
  ((exists c', n_take_ids ids c = Ok (c', ids)) <-> NoDup ids /\ forall y, In y ids -> In y (nliq c)).
Proof. exact n_take_iff. Qed.
Theorem C10_nf_locked_not_withdrawable : forall c ids' y r, NWf c ->
  In y (nkeys (nlocked c)) -> In y ids' -> n_take_ids ids' c <> Ok r.
Proof. exact lock_table_ids_not_withdrawable. Qed.
Theorem C10_nf_take_keeps_wf : forall ids c c' out, NWf c -> n_take_ids ids c = Ok (c', out) ->
  NWf c' /\ out = ids /\ nlocked c' = nlocked c /\ (forall y, In y (nliq c') <-> In y (nliq c) /\ ~ In y ids).
Proof. exact n_take_wf. Qed.

(* in every reachable state the lock table holds exactly the ids proven by some live proof *)
Theorem C10_nf_locked_iff_proven : forall ids0 ops c ps y, nhrun (n_new ids0, []) ops = Some (c, ps) ->
  (In y (nkeys (nlocked c)) <-> exists p, In p ps /\ In y p) /\ NWf c.
Proof. exact nf_locked_iff_proven. Qed.
(* dropping a live proof of ids never hits the `expect` of unlock_non_fungibles *)
Theorem C10_nf_no_panic : forall ids0 ops c ps ids, nhrun (n_new ids0, []) ops = Some (c, ps) -> In ids ps ->
  exists c', n_unlock ids c = Ok c'.
Proof. exact nf_no_panic. Qed.
(* when all proofs are dropped nothing is locked: every id held is liquid (so withdrawable again) *)
Theorem C10_nf_all_dropped_restores : forall ids0 ops c, nhrun (n_new ids0, []) ops = Some (c, []) ->
  nlocked c = [] /\ forall y, holds c y <-> In y (nliq c).
Proof. exact nf_all_dropped_restores. Qed.
(* creating, cloning and dropping proofs never change the set of ids the container holds *)
Theorem C10_nf_total_invariant : forall c ps ids, NGood c ps ->
  (forall c', n_lock ids c = Ok c' -> forall y, holds c' y <-> holds c y) /\
  (In ids ps -> exists c', n_unlock ids c = Ok c' /\ forall y, holds c' y <-> holds c y).
Proof. exact nf_lock_unlock_keep_ids. Qed.
Theorem C10_nf_reachable_good : forall ids0 ops c ps, nhrun (n_new ids0, []) ops = Some (c, ps) -> NGood c ps.
Proof. intros ids0 ops c ps H. exact (nhrun_good _ _ _ _ _ (ngood_new ids0) H). Qed.

Example C10_nf_nonvacuous :
  (exists c, nhrun (n_new [1; 2; 3]%N, []) [NLock [1; 2]%N; NLock [2; 3]%N; NTake []%N; NDrop [1; 2]%N; NDrop [2; 3]%N; NTake [2]%N] = Some (c, []) /\ nliq c = [1; 3]%N)
  /\ nhrun (n_new [1; 2; 3]%N, []) [NLock [1; 2]%N; NLock [2; 3]%N; NDrop [1; 2]%N; NTake [2]%N] = None.
Proof. split; [eexists; split; vm_compute; reflexivity|vm_compute; reflexivity]. Qed.

(* non-vacuity: a history with two overlapping proofs (7 and 5 units), a withdrawal at the
   boundary, a clone, and all drops *)
Example C10_nonvacuous :
  let ops := [HLock 7; HLock 5; HTake 3; HLock 7; HDrop 7; HDrop 5; HDrop 7; HTake 7] in
  (exists c, hrun 18 (f_new 10, []) ops = Some (c, []) /\ fliq c = 0)
  /\ hrun 18 (f_new 10, []) [HLock 7; HLock 5; HTake 4] = None.
Proof. split; [eexists; split; vm_compute; reflexivity|vm_compute; reflexivity]. Qed.

Print Assumptions C10_total_invariant.
Print Assumptions C10_withdraw_iff.
Print Assumptions C10_max_not_sum.
Print Assumptions C10_all_dropped_restores.
Print Assumptions C10_no_panic.
Print Assumptions C10_no_panic_other.
Print Assumptions C10_divisibility.
Print Assumptions C10_withdraw_exact_is_take.
Print Assumptions C10_withdraw_rounded.
Print Assumptions C10_nf_lock_keeps_ids.
Print Assumptions C10_nf_withdraw_iff.
Print Assumptions C10_nf_locked_not_withdrawable.
Print Assumptions C10_nf_take_keeps_wf.
Print Assumptions C10_nf_locked_iff_proven.
Print Assumptions C10_nf_no_panic.
Print Assumptions C10_nf_all_dropped_restores.
Print Assumptions C10_nf_total_invariant.
Print Assumptions C10_nf_reachable_good.
