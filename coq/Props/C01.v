(* C01 — Transaction execution is deterministic: pinned statements about the id allocator
   (radix-engine/src/kernel/id_allocator.rs).  Determinism of the engine as a whole (diagnostic
   flags, code cache, threads) is runtime behaviour and is decided by the differential harness c01
   (byte-identical SBOR-encoded results under all flag combinations, cold/warm caches, 8 threads). *)
From Coq Require Import List NArith Bool.
Import ListNotations.
From Coq Require Import String.
Require Import RV.Model.C01_IdAlloc RV.Proof.C01_IdAlloc RV.Gen.C01_hash_iter.
Open Scope N_scope.

(* under collision-freeness of the surviving 29 hash bytes, every node id allocated within one
   transaction (any number of allocations up to OutOfID, any entity types) is distinct *)
Theorem C01_ids_injective : forall (H : list N -> list N),
  (forall x y, tl (H x) = tl (H y) -> x = y) ->
  forall txh etys ids a', allocate_all H (new txh) etys = (ids, a') -> NoDup ids.
Proof. exact ids_injective. Qed.

(* the k-th id of a transaction is id_at txh k: a function of (transaction hash, counter, entity type) only *)
Theorem C01_ids_are_counter_indexed : forall (H : list N -> list N) etys a ids a',
  allocate_all H a etys = (ids, a') -> ids = ids_from H (a_txh a) (a_next a) (firstn (List.length ids) etys).
Proof. exact allocate_all_ids. Qed.

Theorem C01_counter_bytes_injective : forall n m, n < 4294967296 -> m < 4294967296 -> le32 n = le32 m -> n = m.
Proof. exact le32_inj. Qed.

(* ---------- randomly seeded hash collections in the execution crates ---------- *)
(* The table RV.Gen.C01_hash_iter is regenerated from the source tree on every run (gen_c01): every
   non-test line of radix-engine, radix-engine-interface, radix-common, radix-substate-store-interface,
   radix-native-sdk, radix-transactions, radix-blueprint-schema-init, sbor and radix-rust that mentions
   HashMap / HashSet.  The reviewed list below is hand-written; a new, removed or changed site makes
   the two differ and this theorem fail until the list has been reviewed again.
   State-update order: Track keeps nodes / partitions / substates in IndexMaps (insertion order) and
   BTreeMaps; the C12 model represents them as insertion-ordered / sorted association lists, so
   to_state_updates is a function of the operation sequence by construction — there is no hash
   iteration to abstract over, which is exactly what the table below pins. *)
Open Scope string_scope.
Definition reviewed_sites : list (String.string * String.string) := [
  (* radix-rust: the definitions / constructors of the HashMap and HashSet aliases themselves, and
     NonIterMap, the only hash map the engine uses: a wrapper whose API (pinned below) has no iteration *)
  ("radix-rust/src/rust.rs", "HashMap::with_capacity_and_hasher(0, DefaultHashBuilder::default())");
  ("radix-rust/src/rust.rs", "HashMap::with_capacity_and_hasher(n, DefaultHashBuilder::default())");
  ("radix-rust/src/rust.rs", "HashMap<K, V, S>,");
  ("radix-rust/src/rust.rs", "HashSet::with_capacity_and_hasher(0, DefaultHashBuilder::default())");
  ("radix-rust/src/rust.rs", "HashSet::with_capacity_and_hasher(n, DefaultHashBuilder::default())");
  ("radix-rust/src/rust.rs", "Self(HashMap::from_iter(iter))");
  ("radix-rust/src/rust.rs", "Self(HashMap::with_hasher(DefaultHashBuilder::default()))");
  ("radix-rust/src/rust.rs", "pub fn new<K, V>() -> HashMap<K, V> {");
  ("radix-rust/src/rust.rs", "pub fn new<K>() -> HashSet<K> {");
  ("radix-rust/src/rust.rs", "pub fn with_capacity<K, V>(n: usize) -> HashMap<K, V> {");
  ("radix-rust/src/rust.rs", "pub fn with_capacity<K>(n: usize) -> HashSet<K> {");
  ("radix-rust/src/rust.rs", "pub type HashMap<K, V, S = DefaultHashBuilder> = ext_HashMap<K, V, S>;");
  ("radix-rust/src/rust.rs", "pub type HashSet<K> = ext_HashSet<K, DefaultHashBuilder>;");
  ("radix-rust/src/rust.rs", "pub use hash_map::HashMap;");
  ("radix-rust/src/rust.rs", "pub use hash_set::HashSet;");
  ("radix-rust/src/rust.rs", "pub use hashbrown::HashMap as ext_HashMap;");
  ("radix-rust/src/rust.rs", "pub use hashbrown::HashSet as ext_HashSet;");
  ("radix-rust/src/rust.rs", "pub use std::collections::HashMap as ext_HashMap;");
  ("radix-rust/src/rust.rs", "pub use std::collections::HashSet as ext_HashSet;");
  ("radix-rust/src/rust.rs", "use hashbrown::HashMap;");
  ("radix-rust/src/rust.rs", "use std::collections::HashMap;");
  (* static manifest analysis (not execution): a lookup table blueprint -> function -> schema, only .get() *)
  ("radix-transactions/src/manifest/static_resource_movements/typed_invocation.rs", "pub fn typed_native_invocation_function_table() -> HashMap<&'static str, HashMap<&'static str, HashMap<&'static str, SingleTypeSchema<ScryptoCustomSchema>>>> {");
  ("radix-transactions/src/manifest/static_resource_movements/typed_invocation.rs", "use radix_rust::rust::collections::HashMap;");
  (* sbor codecs for HashMap/HashSet values: encoding sorts the keys (keys.sort()) resp. goes through a
     BTreeSet, so the byte encoding does not depend on the iteration order; decoding inserts *)
  ("sbor/src/codec/collection.rs", "> Decode<X, D> for HashMap<K, V>");
  ("sbor/src/codec/collection.rs", "> Encode<X, E> for HashMap<K, V>");
  ("sbor/src/codec/collection.rs", "categorize_generic!(HashMap<K, V>, <K, V>, ValueKind::Map);");
  ("sbor/src/codec/collection.rs", "categorize_generic!(HashSet<T>, <T>, ValueKind::Array);");
  ("sbor/src/codec/collection.rs", "for HashSet<T>");
  ("sbor/src/codec/collection.rs", "for HashSet<T>");
  ("sbor/src/codec/collection.rs", "keys.sort();");
  ("sbor/src/codec/collection.rs", "let set: BTreeSet<&T> = self.iter().collect();");
  ("sbor/src/codec/collection.rs", "wrapped_double_generic_describe!(K, V, HashMap<K, V>, BTreeMap<K, V>);");
  ("sbor/src/codec/collection.rs", "wrapped_generic_describe!(T, HashSet<T>, BTreeSet<T>);")
].

Theorem C01_hash_iteration_sites_reviewed :
  hash_sites = reviewed_sites
  /\ non_iter_map_api = ["clear"; "contains_key"; "entry"; "get"; "get_mut"; "insert"; "is_empty"; "len"; "new"; "remove"].
Proof. split; reflexivity. Qed.

(* none of the engine crates proper mentions a hash collection at all *)
Theorem C01_engine_crates_have_no_hash_collections :
  forallb (fun s => negb (String.prefix "radix-engine" (fst s) || String.prefix "radix-common" (fst s)
                          || String.prefix "radix-native-sdk" (fst s) || String.prefix "radix-substate-store-interface" (fst s)
                          || String.prefix "radix-blueprint-schema-init" (fst s))) hash_sites = true.
Proof. vm_compute. reflexivity. Qed.
Close Scope string_scope.

Example C01_nonvacuous :
  let H := fun x => x in     (* identity "hash": collision free *)
  fst (allocate_all H (new [7]) [93; 88]) = [[93; 0; 0; 0; 0]; [88; 1; 0; 0; 0]]
  /\ allocate (fun x => x) (mkA [7] U32_MAX) 93 = None.
Proof. vm_compute. split; reflexivity. Qed.

Print Assumptions C01_hash_iteration_sites_reviewed.
Print Assumptions C01_ids_injective.
Print Assumptions C01_ids_are_counter_indexed.
