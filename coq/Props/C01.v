(* C01 — Transaction execution is deterministic: pinned statements about the id allocator
   (radix-engine/src/kernel/id_allocator.rs).  Determinism of the engine as a whole (diagnostic
   flags, code cache, threads) is runtime behaviour and is decided by the differential harness c01
   (byte-identical SBOR-encoded results under all flag combinations, cold/warm caches, 8 threads). *)
From Coq Require Import List NArith Bool.
Import ListNotations.
Require Import RV.Model.C01_IdAlloc RV.Proof.C01_IdAlloc.
Open Scope N_scope.

(* under collision-freeness of the surviving 29 hash bytes, every node id allocated within one
   transaction (any number of allocations up to OutOfID, any entity types) is distinct *)
Theorem C01_ids_injective : forall (H : list N -> list N),
  (forall x y, tl (H x) = tl (H y) -> x = y) ->
  forall txh etys ids a', allocate_all H (new txh) etys = (ids, a') -> NoDup ids.
Proof. exact ids_injective. Qed.

(* the k-th id of a transaction is id_at txh k: a function of (transaction hash, counter, entity type) only *)
Theorem C01_ids_are_counter_indexed : forall (H : list N -> list N) etys a ids a',
  allocate_all H a etys = (ids, a') -> ids = ids_from H (a_txh a) (a_next a) (firstn (length ids) etys).
Proof. exact allocate_all_ids. Qed.

Theorem C01_counter_bytes_injective : forall n m, n < 4294967296 -> m < 4294967296 -> le32 n = le32 m -> n = m.
Proof. exact le32_inj. Qed.

Example C01_nonvacuous :
  let H := fun x => x in     (* identity "hash": collision free *)
  fst (allocate_all H (new [7]) [93; 88]) = [[93; 0; 0; 0; 0]; [88; 1; 0; 0; 0]]
  /\ allocate (fun x => x) (mkA [7] U32_MAX) 93 = None.
Proof. vm_compute. split; reflexivity. Qed.

Print Assumptions C01_ids_injective.
Print Assumptions C01_ids_are_counter_indexed.
