(* C04 — Total supply always equals the sum of all vaults: pinned statements (same model as C03).
   Proved: the invariant "recorded supply = everything that exists" is kept by every operation
   for resources whose events are fungible events (partial: the non-fungible half needs the
   id-disjointness invariant, see Props/C03.v), XRD stays untracked, and what an observer replays
   from the event stream is checked against the stored state by correspondence (Corr/C03_run
   check_history) and by the harness oracle. *)
From Coq Require Import List ZArith NArith Bool.
Import ListNotations.
Require Import RV.Model.C03_Ledger RV.Proof.C03_Ledger.
Open Scope Z_scope.

Theorem C04_supply_invariant_step_partial : forall s o s' evs r t t',
  step s o = Ok (s', evs) -> op_ok o -> xrd_ok s ->
  minted r evs = mintedF r evs -> burned r evs = burnedF r evs ->
  supply_of r s = Some t -> t = total_f r s ->
  supply_of r s' = Some t' -> t' = total_f r s'.
Proof. exact supply_invariant_step. Qed.

Theorem C04_supply_invariant_created_partial : forall s o s' evs r t',
  step s o = Ok (s', evs) -> op_ok o -> xrd_ok s ->
  minted r evs = mintedF r evs -> burned r evs = burnedF r evs ->
  supply_of r s = None -> total_f r s = 0 ->
  supply_of r s' = Some t' -> t' = total_f r s'.
Proof. exact supply_invariant_created. Qed.

(* at a transaction boundary "everything that exists" is the sum of the vaults *)
Theorem C04_at_rest_total : forall r s, at_rest s = true -> total_f r s = fvault_sum r s.
Proof. exact at_rest_total. Qed.

Theorem C04_xrd_untracked_preserved : forall s o s' evs, step s o = Ok (s', evs) -> xrd_ok s -> xrd_ok s'.
Proof. exact step_xrd_ok. Qed.

(* no fungible balance produced by take is negative: take_by_amount refuses to go below zero *)
Theorem C04_take_nonneg : forall l k a l' r0,
  f_take l k a = Ok (l', r0) -> exists bal, aget k l = Some (r0, bal) /\ a <= bal /\ l' = aset k (r0, bal - a) l.
Proof. exact f_take_ok. Qed.

Example C04_nonvacuous : xrd_ok demo_state /\ exists s' evs, run demo_state demo_ops = Ok (s', evs)
   /\ supply_of 5%N s' = Some (fvault_sum 5%N s').
Proof.
  split; [eexists; split; reflexivity|]. eexists. eexists. split; [vm_compute; reflexivity|]. vm_compute. reflexivity.
Qed.

Print Assumptions C04_supply_invariant_step_partial.
Print Assumptions C04_xrd_untracked_preserved.
