(* C04 — Total supply always equals the sum of all vaults: pinned statements (same model as C03,
   RV.Model.C03_Ledger).  Inv s = the id-disjointness invariant NFInv (no id in two containers, held
   ids have live data entries, every non-fungible vault's amount field = number of its ids) + XRD
   exists and is untracked + for every resource that tracks its supply, recorded supply =
   everything that exists (vaults + buckets in flight + locked fees) + nothing exists of a resource
   that does not exist.  It holds at genesis and is preserved by EVERY accepted operation (free
   credit = 0, non-negative fee shares), hence by every op list and every history; at a transaction
   boundary "everything that exists" is the sum of the vaults.
   The event-replay clause of the property is checked by correspondence (Corr/C03_run
   check_history, model function [replay]) and by the harness oracle, not proved. *)
From Coq Require Import List ZArith NArith Bool.
Import ListNotations.
Require Import RV.Model.C03_Ledger RV.Proof.C03_Ledger RV.Proof.C03_NF RV.Proof.C04_Inv RV.Proof.C04_NonNeg RV.Proof.C04_Replay.
Open Scope Z_scope.

Theorem C04_supply_invariant :
  Inv genesis
  /\ (forall s o s' evs, Inv s -> step s o = Ok (s', evs) -> op_ok o -> Inv s')
  /\ (forall ops s s' evs, Inv s -> run s ops = Ok (s', evs) -> Forall op_ok ops -> Inv s').
Proof. split; [exact Inv_genesis|]. split; [exact step_Inv | exact run_Inv]. Qed.

(* every history of accepted transactions from a state satisfying Inv (e.g. genesis): Inv again; at a
   transaction boundary every tracked supply = sum of all vaults of the resource; every non-fungible
   vault's amount = number of ids; no id is held twice *)
Theorem C04_history_supply_invariant : forall txs s s',
  Inv s -> Forall (Forall op_ok) txs -> run_history s txs = Some s' ->
  Inv s' /\ (at_rest s' = true -> forall r t, supply_of r s' = Some t -> t = vault_sum r s')
  /\ (forall v r a ids, aget v (s_nv s') = Some (r, (a, ids)) -> a = cnt ids)
  /\ (forall r, NoDup (all_ids r s')).
Proof. exact history_supply_invariant. Qed.

(* every operation moves everything that exists of a resource, fungible or not, by minted - burned *)
Theorem C04_step_total : forall s o s' evs r,
  NFInv s -> step s o = Ok (s', evs) -> op_ok o ->
  total r s' = total r s + minted r evs - burned r evs.
Proof. exact step_total_full. Qed.

Theorem C04_xrd_untracked_preserved : forall s o s' evs, step s o = Ok (s', evs) -> xrd_ok s -> xrd_ok s'.
Proof. exact step_xrd_ok. Qed.

(* event replay, supply side: replaying the Mint / Burn events of a whole history from genesis (model
   function [replay], the same function the correspondence evaluates on the engine's event stream)
   gives for every resource — tracking or not, XRD included — exactly the sum of all its vaults at
   the final transaction boundary.  (The per-vault balance side of the replay is validated by
   correspondence and the harness oracle only.) *)
Theorem C04_event_replay_supply : forall txs s' evs,
  Forall (Forall op_ok) txs -> run_history_ev genesis txs = Some (s', evs) -> at_rest s' = true ->
  forall r, zget r (rp_supply (replay rp_empty evs)) = vault_sum r s'.
Proof. exact genesis_event_replay_supply. Qed.

(* no fungible vault balance, bucket amount or locked fee is ever negative: inductive invariant NN *)
Theorem C04_balances_nonneg :
  NN genesis
  /\ (forall s o s' evs, NN s -> step s o = Ok (s', evs) -> op_ok o -> NN s')
  /\ (forall ops s s' evs, NN s -> run s ops = Ok (s', evs) -> Forall op_ok ops ->
        forall v r bal, aget v (s_fv s') = Some (r, bal) -> 0 <= bal).
Proof.
  split; [constructor; constructor|]. split; [exact step_NN|].
  intros ops s s' evs I H OK v r bal G. pose proof (run_NN _ _ _ _ I H OK) as [F _ _].
  exact (Forall_aget _ _ _ _ F G).
Qed.

(* no fungible balance produced by take is negative: take_by_amount refuses to go below zero *)
Theorem C04_take_nonneg : forall l k a l' r0,
  f_take l k a = Ok (l', r0) -> exists bal, aget k l = Some (r0, bal) /\ a <= bal /\ l' = aset k (r0, bal - a) l.
Proof. exact f_take_ok. Qed.

Definition c04_demo : list (list op) :=
  [ [ OCreateF 5%N 2 true (Some (1000 * 10 ^ 16, 100%N)); OCreateVault 5%N 10%N; OVaultPut 10%N 100%N ];
    [ OMintF 5%N (7 * 10 ^ 16) 101%N; OVaultTake 10%N (3 * 10 ^ 16) 102%N; OBucketPut 101%N 102%N; OBurn 101%N ];
    [ OCreateN 7%N true (Some ([1%N; 2%N; 3%N], 100%N)); OCreateVault 7%N 20%N; OVaultPut 20%N 100%N;
      OMintN 7%N [4%N] 101%N; OVaultTakeIds 20%N [2%N] 102%N; OBucketPut 101%N 102%N; OBurn 101%N ] ].
Example C04_nonvacuous : exists s', run_history genesis c04_demo = Some s' /\ at_rest s' = true
  /\ supply_of 5%N s' = Some (997 * 10 ^ 16) /\ vault_sum 5%N s' = 997 * 10 ^ 16
  /\ supply_of 7%N s' = Some (2 * 10 ^ 18) /\ vault_sum 7%N s' = 2 * 10 ^ 18
  /\ Forall (Forall op_ok) c04_demo.
Proof.
  eexists. split; [vm_compute; reflexivity|]. repeat split; try (vm_compute; reflexivity).
  repeat constructor.
Qed.

Print Assumptions C04_supply_invariant.
Print Assumptions C04_history_supply_invariant.
Print Assumptions C04_step_total.
Print Assumptions C04_balances_nonneg.
Print Assumptions C04_event_replay_supply.
