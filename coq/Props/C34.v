(* C34 — Transaction validation enforces exactly the configured limits.  Property theorems only.
   Model: RV.Model.C34_Validate (preparation limits + validate_notarized_v1 / validate_transaction_tree_v2
   limit checks in code order, over a transaction summary).  Configurations: RV.Gen.C34_validation_config,
   generated on every run by calling TransactionValidationConfig::{babylon,cuttlefish,latest}() in /repo.
   `within_v1`, `within_v2`, `intent_within`, `msg_within`, `epoch_within`, `agg_all`, `in_epochs`, `in_ts`
   are defined in RV.Proof.C34_Validate. *)
From Coq Require Import List NArith ZArith Bool.
Import ListNotations.
Require Import RV.Model.C34_Validate RV.Proof.C34_Validate RV.Gen.C34_validation_config.
Open Scope N_scope.

(* Accepted <-> every field within its limit: an explicit conjunction, for every configuration,
   required network and summary.  V1: payload size, blobs, signatures (per intent and in total), network,
   epoch window, tip percentage, message shape and sizes, references (per intent and in total),
   instruction count. *)
Theorem C34_accept_iff_within_v1 : forall c net t, validate_v1 c net t = AcceptV1 <-> within_v1 c net t.
Proof. exact v1_accept_iff. Qed.

(* V2 (notarized: tip = Some _, signed partial: tip = None), any number of subintents: in addition
   per-intent blobs/children, number of subintents and of signature batches, tip basis points,
   per-intent timestamp window, the aggregated window non-empty, total references, total signature
   validations.  The overall validity range returned is the aggregate `agg_all t`. *)
Theorem C34_accept_iff_within_v2 : forall c net t r,
  validate_v2 c net t = AcceptV2 r <-> within_v2 c net t /\ r = range_of (agg_all t).
Proof. exact v2_accept_iff. Qed.
(* the total reference count compared with max_total_references is the sum over all intents *)
Theorem C34_total_references : forall t, a_refs (agg_all t) = sum (map i_references (intents t)).
Proof. intro t. unfold agg_all. rewrite agg_refs. reflexivity. Qed.

(* start < end <= start + max_epoch_range, for the V1 header and for every V2 intent *)
Theorem C34_epoch_window : forall c net,
  (forall t, validate_v1 c net t = AcceptV1 ->
     h1_start (v1_header t) < h1_end (v1_header t) /\
     h1_end (v1_header t) <= h1_start (v1_header t) + max_epoch_range c) /\
  (forall t r, validate_v2 c net t = AcceptV2 r ->
     Forall (fun i => h2_start (i_header i) < h2_end (i_header i) /\
                      h2_end (i_header i) <= h2_start (i_header i) + max_epoch_range c) (intents t)).
Proof. intros c net. split; [apply epoch_window_v1|apply epoch_window_v2]. Qed.

(* the overall window of an accepted V2 transaction is non-empty and is exactly the intersection of
   all its intents' windows (epochs: also below u64::MAX, the initial upper end of the aggregation) *)
Theorem C34_overall_window : forall c net t r, validate_v2 c net t = AcceptV2 r ->
  r_start r < r_end r /\ ts_within (r_min_ts r) (r_max_ts r) /\
  (forall x, in_epochs (r_start r) (r_end r) x <->
     x < U64_MAX /\ Forall (fun i => in_epochs (h2_start (i_header i)) (h2_end (i_header i)) x) (intents t)) /\
  (forall x, in_ts (r_min_ts r) (r_max_ts r) x <->
     Forall (fun i => in_ts (h2_min_ts (i_header i)) (h2_max_ts (i_header i)) x) (intents t)).
Proof. exact overall_window. Qed.

(* every limit at its exact boundary, for every configuration generated from the code: value = limit
   accepted, limit + 1 rejected (V1: payload, blobs, signatures, references, instructions, end epoch,
   tip, mime/plaintext/encrypted lengths, decryptors; V2 where permitted: payload, tip, blobs and
   children per intent, subintents, signatures per intent / per batch / in total, references per
   intent / in total, instructions, end epoch, mime, decryptors, overall epoch and timestamp windows,
   batch count; V2 rejected altogether where the configuration does not permit it) *)
Theorem C34_boundaries :
  forallb (fun c => v1_boundaries c && v2_boundaries c) all_configs = true.
Proof. vm_compute. reflexivity. Qed.

Example C34_nonvacuous :
  within_v1 cfg_cuttlefish (Some 1) (base1 cfg_cuttlefish) /\
  validate_v2 cfg_cuttlefish (Some 1)
    (tx2 cfg_cuttlefish 5 (int2 (hdr2 10 20 (Some 3%Z) None) (MPlaintext 4 9) 2 7 1 1) 2
         [int2 (hdr2 12 30 None (Some 8%Z)) MNone 3 4 0 0] [1])
    = AcceptV2 {| r_start := 12; r_end := 20; r_min_ts := Some 3%Z; r_max_ts := Some 8%Z |} /\
  validate_v2 cfg_babylon (Some 1) (base2 cfg_babylon) = Reject PrepareTransactionTypeNotSupported /\
  validate_v1 cfg_babylon (Some 1) (base1 cfg_babylon) = AcceptV1.
Proof.
  split; [apply C34_accept_iff_within_v1; vm_compute; reflexivity|].
  split; [vm_compute; reflexivity|]. split; vm_compute; reflexivity.
Qed.

Print Assumptions C34_accept_iff_within_v1.
Print Assumptions C34_accept_iff_within_v2.
Print Assumptions C34_epoch_window.
Print Assumptions C34_overall_window.
Print Assumptions C34_boundaries.
