(* C34 — Transaction validation enforces exactly the configured limits.  Property theorems only.
   Model: RV.Model.C34_Validate (preparation limits + validate_notarized_v1 / validate_transaction_tree_v2
   limit checks in code order, over a transaction summary).  Configurations: RV.Gen.C34_validation_config,
   generated on every run by calling TransactionValidationConfig::{babylon,cuttlefish,latest}() in /repo.
   `within_v1`, `within_v2`, `intent_within`, `msg_within`, `epoch_within`, `agg_all`, `in_epochs`, `in_ts`
   are defined in RV.Proof.C34_Validate. *)
From Coq Require Import List NArith ZArith Bool.
Import ListNotations.
Require Import RV.Model.C34_Validate RV.Proof.C34_Validate RV.Gen.C34_validation_config.
Open Scope N_scope.

(* Accepted <-> every field within its limit: an explicit conjunction, for every configuration,
   required network and summary.  V1: payload size, blobs, signatures (per intent and in total), network,
   epoch window, tip percentage, message shape and sizes, references (per intent and in total),
   instruction count. *)
Theorem C34_accept_iff_within_v1 : forall c net t, validate_v1 c net t = AcceptV1 <-> within_v1 c net t.
Proof. exact v1_accept_iff. Qed.

(* V2 (notarized: tip = Some _, signed partial: tip = None), any number of subintents: in addition
   per-intent blobs/children, number of subintents and of signature batches, tip basis points,
   per-intent timestamp window, the aggregated window non-empty, total references, total signature
   validations.  The overall validity range returned is the aggregate `agg_all t`. *)
Theorem C34_accept_iff_within_v2 : forall c net t r,
  validate_v2 c net t = AcceptV2 r <-> within_v2 c net t /\ r = range_of (agg_all t).
Proof. exact v2_accept_iff. Qed.
(* the total reference count compared with max_total_references is the sum over all intents *)
Theorem C34_total_references : forall t, a_refs (agg_all t) = sum (map i_references (intents t)).
Proof. intro t. unfold agg_all. rewrite agg_refs. reflexivity. Qed.

(* start < end <= start + max_epoch_range, for the V1 header and for every V2 intent *)
Theorem C34_epoch_window : forall c net,
  (forall t, validate_v1 c net t = AcceptV1 ->
     h1_start (v1_header t) < h1_end (v1_header t) /\
     h1_end (v1_header t) <= h1_start (v1_header t) + max_epoch_range c) /\
  (forall t r, validate_v2 c net t = AcceptV2 r ->
     Forall (fun i => h2_start (i_header i) < h2_end (i_header i) /\
                      h2_end (i_header i) <= h2_start (i_header i) + max_epoch_range c) (intents t)).
Proof. intros c net. split; [apply epoch_window_v1|apply epoch_window_v2]. Qed.

(* the overall window of an accepted V2 transaction is non-empty and is exactly the intersection of
   all its intents' windows (epochs: also below u64::MAX, the initial upper end of the aggregation) *)
Theorem C34_overall_window : forall c net t r, validate_v2 c net t = AcceptV2 r ->
  r_start r < r_end r /\ ts_within (r_min_ts r) (r_max_ts r) /\
  (forall x, in_epochs (r_start r) (r_end r) x <->
     x < U64_MAX /\ Forall (fun i => in_epochs (h2_start (i_header i)) (h2_end (i_header i)) x) (intents t)) /\
  (forall x, in_ts (r_min_ts r) (r_max_ts r) x <->
     Forall (fun i => in_ts (h2_min_ts (i_header i)) (h2_max_ts (i_header i)) x) (intents t)).
Proof. exact overall_window. Qed.

(* every limit at its exact boundary, for every configuration generated from the code: value = limit
   accepted, limit + 1 rejected (V1: payload, blobs, signatures, references, instructions, end epoch,
   tip, mime/plaintext/encrypted lengths, decryptors; V2 where permitted: payload, tip, blobs and
   children per intent, subintents, signatures per intent / per batch / in total, references per
   intent / in total, instructions, end epoch, mime, decryptors, overall epoch and timestamp windows,
   batch count; V2 rejected altogether where the configuration does not permit it) *)
Theorem C34_boundaries :
  forallb (fun c => v1_boundaries c && v2_boundaries c) all_configs = true.
Proof. vm_compute. reflexivity. Qed.

(* ---- the configured-depth-0 corner: `max_subintent_depth - 1` for a subintent root ---- *)
(* the explicit panic outcome is produced only for a signed partial transaction (subintent root) under a
   configuration that permits and allows V2 and has max_subintent_depth = 0 ... *)
Theorem C34_depth_underflow_only_if : forall c net t,
  validate_v2 c net t = PanicDepthUnderflow ->
  v2_transactions_permitted c = true /\ v2_transactions_allowed c = true /\
  max_subintent_depth c = 0 /\ v2_tip t = None.
Proof. exact v2_panic_only_if. Qed.
(* ... it is reached by the smallest such transaction under latest() with the depth set to 0 ... *)
Theorem C34_depth_underflow_reached :
  validate_v2 (mkConfig 16 512 0 65535 8640 1000 2048 2076 128 20 true 0 1000000 0 64 512 true 1048576 32 32 64)
              (Some 1) depth0_witness = PanicDepthUnderflow.
Proof. vm_compute. reflexivity. Qed.
(* ... and by no configuration constructor in the code: babylon() has depth 0 but does not permit V2 at
   preparation, cuttlefish()/latest() have depth 3 (re-evaluated on the generated table on every run) *)
Theorem C34_depth_underflow_unreachable_for_generated : forall c net t,
  In c all_configs -> validate_v2 c net t <> PanicDepthUnderflow.
Proof.
  intros c net t Hin H. apply C34_depth_underflow_only_if in H. destruct H as (P & _ & D & _).
  assert (G : forallb (fun c => negb (max_subintent_depth c =? 0) || negb (v2_transactions_permitted c)) all_configs = true)
    by (vm_compute; reflexivity).
  rewrite forallb_forall in G. specialize (G c Hin). rewrite D, P in G. discriminate.
Qed.

(* ---- preview entry points ---- *)
(* validate_preview_intent_v1: accepted iff the intent's own limits hold; nothing about signatures or the
   payload length is checked (signer public keys are passed through) *)
Theorem C34_preview_v1_accept_iff : forall c net t,
  validate_preview_v1 c net t = AcceptV1 <-> within_preview_v1 c net t.
Proof. exact preview_v1_accept_iff. Qed.
Theorem C34_v1_accept_iff_preview : forall c net t,
  validate_v1 c net t = AcceptV1 <->
  validate_preview_v1 c net t = AcceptV1 /\
  v1_payload_len t <= max_user_payload_length c /\
  v1_signatures t <= max_signer_signatures_per_intent c /\
  v1_signatures t + 1 <= max_total_signature_validations c.
Proof. exact v1_accept_iff_preview. Qed.
(* PreviewTransactionV2 is `validate_v2` with v2_preview = true: C34_accept_iff_within_v2 covers it (no payload
   length limit, no limit on the number of key batches at preparation; key counts are limited like signatures) *)

Example C34_nonvacuous :
  within_v1 cfg_cuttlefish (Some 1) (base1 cfg_cuttlefish) /\
  validate_v2 cfg_cuttlefish (Some 1)
    (tx2 cfg_cuttlefish 5 (int2 (hdr2 10 20 (Some 3%Z) None) (MPlaintext 4 9) 2 7 1 1) 2
         [int2 (hdr2 12 30 None (Some 8%Z)) MNone 3 4 0 0] [1])
    = AcceptV2 {| r_start := 12; r_end := 20; r_min_ts := Some 3%Z; r_max_ts := Some 8%Z |} /\
  validate_v2 cfg_babylon (Some 1) (base2 cfg_babylon) = Reject PrepareTransactionTypeNotSupported /\
  validate_v1 cfg_babylon (Some 1) (base1 cfg_babylon) = AcceptV1.
Proof.
  split; [apply C34_accept_iff_within_v1; vm_compute; reflexivity|].
  split; [vm_compute; reflexivity|]. split; vm_compute; reflexivity.
Qed.

Print Assumptions C34_accept_iff_within_v1.
Print Assumptions C34_accept_iff_within_v2.
Print Assumptions C34_epoch_window.
Print Assumptions C34_overall_window.
Print Assumptions C34_boundaries.
Print Assumptions C34_depth_underflow_unreachable_for_generated.
Print Assumptions C34_preview_v1_accept_iff.
