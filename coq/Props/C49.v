(* C49 — Execution limits are enforced exactly. Property theorems only.

   Model: Model/C49_Limits.v (LimitsModule checks and counters, the mixer's log / event / panic
   message checks, the call depth check, usize arithmetic with explicit panics).
   What is proved, for every configuration (all eleven limits arbitrary) and all sizes:
   - each check passes iff the size (or count, or total) is within its limit, the boundary is
     exact (= limit passes, limit + 1 fails) and the error names the limit and carries the size;
   - over every sequence of IO-access events that agrees with a store of tracked substates, the
     heap and track counters equal the sum of (key length + value size) of the tracked substates
     and never underflow;
   - a run is failed iff some prefix ends in an event that exceeds a limit; a run that stays
     within the limits at every event is not failed; a non-failed run never has depth, log count,
     event count or heap/track totals above the limits;
   - panics are exactly usize overflow/underflow (excluded for consistent bounded traces) and
     the known finding lock_fee_event_expect (max_event_size below the LockFeeEvent payload).
   Which kernel events fire in a real transaction (the event list of a program) is outside the
   model: it is tied by the correspondence harness on real transactions.
   How a limit error reaches the receipt (`surface` in the model): normally as
   SystemModuleError(TransactionLimitsError e); when the exceeding IO access happens while a blueprint
   payload is validated against its schema, validate_blueprint_payload reports it as
   SystemError(TypeCheckError(BlueprintPayloadValidationError(.., text containing e))).  The
   transaction is failed in both cases, which is all the property statement asks ("a transaction
   that would exceed any of them fails"), so this is not a finding; the correspondence compares the
   limit error e itself in both forms (CBoundary in Corr/C49_run.v). *)
From Coq Require Import List NArith Bool Lia.
Import ListNotations.
Require Import RV.Model.C49_Limits RV.Proof.C49_Limits RV.Gen.C49_limits.
Open Scope N_scope.

(* every limit: the check passes iff within the limit; otherwise the error of that limit *)
Theorem C49_exceed_iff_error : forall c,
  (forall k len, key_size k = Some len ->
     (process_key c k = ROk <-> len <= max_key c) /\
     (max_key c < len -> process_key c k = RErr (KeyExceeded len))) /\
  (forall len,
     (process_value c len = ROk <-> len <= max_value c) /\
     (max_value c < len -> process_value c len = RErr (ValueExceeded len))) /\
  (forall s size, depth s <> max_call_depth c ->
     (before_invoke c s size = ROk <-> size <= max_invoke c) /\
     (max_invoke c < size -> before_invoke c s size = RErr (InvokeExceeded size))) /\
  (forall s size,
     (before_invoke c s size = RErr CallDepthReached <-> depth s = max_call_depth c)) /\
  (forall s size, logs s < max_logs c ->
     (snd (add_log c (mkFlags true true) s size) = ROk <-> size <= max_log_size c) /\
     (max_log_size c < size ->
      snd (add_log c (mkFlags true true) s size) = RErr (LogTooLarge size (max_log_size c)))) /\
  (forall s size,
     (snd (add_log c (mkFlags true true) s size) = RErr TooManyLogs <-> max_logs c <= logs s)) /\
  (forall s size, events s < max_events c ->
     (snd (step c (mkFlags true true) s (OEvent size)) = ROk <-> size <= max_event_size c) /\
     (max_event_size c < size ->
      snd (step c (mkFlags true true) s (OEvent size)) = RErr (EventTooLarge size (max_event_size c)))) /\
  (forall s size,
     (snd (step c (mkFlags true true) s (OEvent size)) = RErr TooManyEvents <-> max_events c <= events s)) /\
  (forall size,
     (set_panic_message c (mkFlags true true) size = ROk <-> size <= max_panic_size c) /\
     (max_panic_size c < size ->
      set_panic_message c (mkFlags true true) size = RErr (PanicTooLarge size (max_panic_size c)))) /\
  (forall s,
     (check_totals c s = ROk <-> heap s <= max_heap c /\ track s <= max_track c) /\
     (max_heap c < heap s -> check_totals c s = RErr (HeapExceeded (heap s) (max_heap c))) /\
     (heap s <= max_heap c -> max_track c < track s ->
      check_totals c s = RErr (TrackExceeded (track s) (max_track c)))).
Proof. exact exceed_iff_error. Qed.

(* value = limit passes, limit + 1 fails *)
Theorem C49_boundary_exact : forall c,
  process_key c (KMap (max_key c)) = ROk /\
  process_key c (KMap (max_key c + 1)) = RErr (KeyExceeded (max_key c + 1)) /\
  process_value c (max_value c) = ROk /\
  process_value c (max_value c + 1) = RErr (ValueExceeded (max_value c + 1)) /\
  (forall s, depth s <> max_call_depth c ->
     before_invoke c s (max_invoke c) = ROk /\
     before_invoke c s (max_invoke c + 1) = RErr (InvokeExceeded (max_invoke c + 1))) /\
  set_panic_message c (mkFlags true true) (max_panic_size c) = ROk /\
  set_panic_message c (mkFlags true true) (max_panic_size c + 1)
    = RErr (PanicTooLarge (max_panic_size c + 1) (max_panic_size c)).
Proof. exact boundary_exact. Qed.

(* Over any sequence of IO-access events that agrees with the tracked substates (old_size is the
   tracked size, the key length is a function of the key) and fits a usize, the module never
   panics (no underflow), and its counters are the sums of key length + value size over the
   substates currently tracked on the heap / in the track (the stores are proper maps). *)
Theorem C49_counters_exact : forall c evs,
  consistent ([], []) evs ->
  exists s, io_exec c state0 (map proj evs) = Some s /\
            heap s = total (fst (aexec ([], []) evs)) /\
            track s = total (snd (aexec ([], []) evs)) /\
            NoDup (keys (fst (aexec ([], []) evs))) /\ NoDup (keys (snd (aexec ([], []) evs))).
Proof. exact counters_exact. Qed.

(* while a transaction is alive its counters are within the limits, so one more IO event with
   key and value sizes up to B cannot overflow when limit + 2B fits a usize *)
Theorem C49_io_no_panic_bounded : forall c st s a B,
  Inv st s -> aagrees st a ->
  heap s <= max_heap c -> track s <= max_track c ->
  max_heap c + B + B <= USIZE_MAX -> max_track c + B + B <= USIZE_MAX ->
  (match a with AHeap _ k _ n | ATrack _ k _ n => k <= B /\ odef n <= B | _ => True end) ->
  snd (process_io c s (proj a)) <> RPanic /\ Inv (astep st a) (fst (process_io c s (proj a))).
Proof. exact io_no_panic_bounded. Qed.

(* a failed run: some prefix ran through and the next event exceeds a limit (and is answered
   with a limit error) *)
Theorem C49_run_fail_sound : forall c f ops s i k r,
  limits_on f = true -> run c f s ops i = inr (k, r) -> r <> RPanic ->
  exists pre o post s1 e,
    ops = pre ++ o :: post /\ k = i + len pre /\ run c f s pre i = inl s1 /\
    r = RErr e /\ snd (step c f s1 o) = RErr e /\ exceeds c f s1 o.
Proof. exact run_fail_sound. Qed.

(* conversely an exceeding event after a prefix that ran through fails the run exactly there *)
Theorem C49_run_fail_complete : forall c f pre o post s i s1,
  limits_on f = true -> run c f s pre i = inl s1 -> exceeds c f s1 o ->
  exists r, run c f s (pre ++ o :: post) i = inr (i + len pre, r) /\ r <> ROk.
Proof. exact run_fail_complete. Qed.

(* a run is not failed iff no event exceeds a limit in the state it meets (and no usize panic) *)
Theorem C49_run_ok_iff : forall c f ops s i, limits_on f = true ->
  ((exists s', run c f s ops i = inl s') <-> within_all c f s ops).
Proof. exact run_ok_iff. Qed.

(* a non-failed run never has call depth, log count or event count above the limits (events
   are added unchecked only right after assert_can_add_event, as lock_fee does) *)
Theorem C49_committed_within_limits : forall c f ops s',
  limits_on f = true -> guarded false ops ->
  run c f state0 ops 0 = inl s' -> StateWithin c s'.
Proof. exact run_state_within. Qed.

Theorem C49_io_ok_totals_within : forall c f s a s',
  limits_on f = true -> step c f s (OIo a) = (s', ROk) ->
  heap s' <= max_heap c /\ track s' <= max_track c.
Proof. exact io_ok_totals_within. Qed.

(* with LIMITS disabled nothing is failed *)
Theorem C49_limits_off_never_fails : forall c rt ops s i,
  exists s', run c (mkFlags false rt) s ops i = inl s'.
Proof. exact run_limits_off. Qed.

(* known finding lock_fee_event_expect: "a limit violation is reported as a limit error, never as
   a panic" is refuted when max_event_size is below the LockFeeEvent payload ... *)
Theorem C49_no_panic_refuted :
  exists c, tx_outcome c (mkFlags true true)
              [OInvoke 0; OInvoke 0; OAssertCanAddEvent; OLockFeeEmit c49_lock_fee_event_len] = RPanic.
Proof. exists (mkConfig 8 67108864 67108864 1024 2097152 1048576 27 32768 32768 256 256). vm_compute. reflexivity. Qed.

(* ... and that is the only panic besides usize overflow / underflow *)
Theorem C49_no_panic_except_known : forall c f s o,
  snd (step c f s o) = RPanic -> KnownPanic c f o \/ ArithPanic s o.
Proof. exact step_panic_classified. Qed.

(* obligations on the LimitParameters values the code constructs or stores (Gen/C49_limits.v):
   the lock_fee event fits (the known panic is unreachable), limit + 2 * 2^32 fits a usize (no
   arithmetic panic for keys and values up to 4 GiB), the call depth limit is positive *)
Theorem C49_generated_configs_safe :
  c49_usize_max = USIZE_MAX /\
  forall c, In c c49_configs ->
    c49_lock_fee_event_len <= max_event_size c /\
    max_heap c + 4294967296 + 4294967296 <= USIZE_MAX /\
    max_track c + 4294967296 + 4294967296 <= USIZE_MAX /\
    0 < max_call_depth c /\ max_value c <= 4294967296 /\ max_key c <= 4294967296.
Proof.
  split; [reflexivity|].
  assert (forallb (fun c =>
    (c49_lock_fee_event_len <=? max_event_size c) &&
    (max_heap c + 4294967296 + 4294967296 <=? USIZE_MAX) &&
    (max_track c + 4294967296 + 4294967296 <=? USIZE_MAX) &&
    (0 <? max_call_depth c) && (max_value c <=? 4294967296) && (max_key c <=? 4294967296)) c49_configs = true) as H
    by (vm_compute; reflexivity).
  intros c Hin. rewrite forallb_forall in H. specialize (H c Hin).
  repeat (apply andb_true_iff in H; destruct H as [H ?]).
  repeat match goal with
  | X : (_ <=? _) = true |- _ => apply N.leb_le in X
  | X : (_ <? _) = true |- _ => apply N.ltb_lt in X
  end.
  repeat split; assumption.
Qed.

(* non-vacuity: a consistent IO trace with insert / update / remove on both stores, and a run
   that ends in an exceeding event *)
Example C49_nonvacuous :
  let evs := [AHeap 1 31 None (Some 100); ATrack 2 40 None (Some 7); AHeap 1 31 (Some 100) (Some 50);
              AHeap 3 32 None (Some 9); AHeap 1 31 (Some 50) None; ARead] in
  consistent ([], []) evs /\
  total (fst (aexec ([], []) evs)) = 41 /\ total (snd (aexec ([], []) evs)) = 47 /\
  tx_outcome (mkConfig 2 40 100 10 10 10 10 10 10 1 2) (mkFlags true true)
     (map OIo (map proj evs)) = RErr (HeapExceeded 131 40) /\
  tx_outcome (mkConfig 2 1000 100 10 10 10 10 10 10 1 2) (mkFlags true true)
     [OInvoke 3; OLog 10; OInvoke 10; OEvent 10; OReturn; OInvoke 0; OInvoke 0] = RErr CallDepthReached.
Proof.
  repeat split; try (vm_compute; reflexivity); cbn; unfold agrees; cbn; repeat split; try reflexivity;
    vm_compute; discriminate.
Qed.


(* ---- the handlers of the module, as written ---- *)

(* Every kernel callback of the LimitsModule (create_node, drop_node, move_module, open, read,
   write, set, remove, scan_keys, drain_substates, scan_sorted_substates; Start / IOAccess / other
   variants) answers exactly as the process_* call named by `hev_op` (Start of open and remove: the
   key; write: the value; set: key then value; create_node: every (key, value) of the node in
   order; every IOAccess variant: process_io_access; anything else: nothing). *)
Theorem C49_handlers_as_process_calls : forall c f s e, limits_on f = true ->
  step c f s (OH e) = match hev_op e with Some o => step c f s o | None => (s, ROk) end.
Proof. intros c f s e Hf. apply (step_norm c f s (OH e) Hf). Qed.

(* one event of any kind (handler events included): Ok iff it does not exceed a limit in the state
   it meets; a limit error only if it does *)
Theorem C49_step_ok_iff_within : forall c f s o, limits_on f = true ->
  (snd (step c f s o) = ROk /\ ~ exceeds c f s o) \/
  (exists e, snd (step c f s o) = RErr e /\ exceeds c f s o) \/
  (snd (step c f s o) = RPanic).
Proof. exact step_cases. Qed.

(* C49_counters_exact over ALL events: IO accesses (consistent with the tracked substates) that
   arrive through any of the eleven forwarding handlers or directly, interleaved with arbitrary
   other events (key / value checks, invokes, returns, logs, events, ...), whatever the answers:
   after the whole sequence the counters are the sums over the tracked substates, and no IO access
   is answered with a panic (no underflow). *)
Theorem C49_counters_exact_all_handlers : forall c f evs,
  limits_on f = true -> consistent_ev ([], []) evs ->
  let s := exec_all c f state0 (map aev_op evs) in
  heap s = total (fst (aexec_ev ([], []) evs)) /\
  track s = total (snd (aexec_ev ([], []) evs)) /\
  NoDup (keys (fst (aexec_ev ([], []) evs))) /\ NoDup (keys (snd (aexec_ev ([], []) evs))) /\
  io_no_panic c f state0 evs.
Proof.
  intros c f evs Hf HC. destruct (counters_exact_all c f evs _ _ Hf inv0 HC) as [(H1 & H2 & H3 & H4) H5].
  cbv zeta. repeat split; assumption.
Qed.

(* ---- the kernel call depth ---- *)

(* The transaction processor runs in the root frame (depth 0; observed on the engine: recursion n
   passes iff n <= max_call_depth, also for max_call_depth = 0 where every invocation fails); an
   invocation that passes before_invoke runs at depth + 1, a return goes back. Over every sequence
   of events (any invoke / return pattern), every state of a non-failed run has depth <=
   max_call_depth ... *)
Theorem C49_depth_never_exceeds : forall c f ops s', limits_on f = true ->
  run c f state0 ops 0 = inl s' -> depth s' <= max_call_depth c.
Proof.
  intros c f ops s' Hf H. eapply run_depth_le; [exact Hf|exact H|]. unfold state0. cbn [depth]. apply N.le_0_l.
Qed.

(* ... so a depth above max_call_depth never reaches the `==` of before_invoke: on every reachable
   state the check as written answers exactly like `>=` *)
Theorem C49_depth_eq_equiv_ge : forall c f pre s size, limits_on f = true ->
  run c f state0 pre 0 = inl s -> before_invoke c s size = before_invoke_ge c s size.
Proof. exact depth_eq_equiv_ge. Qed.

(* non-vacuity of the handler part: a transaction-like sequence through seven different handlers *)
Example C49_nonvacuous_handlers :
  let evs := [AEOther (OInvoke 10);
              AEOther (OH (HCreateNodeStart [(KField, 5); (KMap 3, 7)]));
              AEIo (Some HioCreateNode) (AHeap 1 32 None (Some 5));
              AEIo (Some HioCreateNode) (AHeap 2 34 None (Some 7));
              AEOther (OH HCreateNodeEnd);
              AEOther (OH (HOpenStart (KMap 3))); AEIo (Some HioOpen) (ATrack 9 40 None (Some 11));
              AEOther (OH (HWriteStart 8)); AEIo (Some HioWrite) (AHeap 2 34 (Some 7) (Some 8));
              AEIo (Some HioMoveModule) (AHeap 1 32 (Some 5) None); AEIo (Some HioMoveModule) (ATrack 1 32 None (Some 5));
              AEOther (OH (HRemoveStart (KSorted 1))); AEIo (Some HioRemove) (ATrack 9 40 (Some 11) None);
              AEIo (Some HioDrain) (AHeap 2 34 (Some 8) None); AEIo (Some HioScanKeys) ARead;
              AEOther OReturn] in
  let c := mkConfig 2 100 100 3 8 10 10 10 10 1 2 in
  consistent_ev ([], []) evs /\
  tx_outcome c (mkFlags true true) (map aev_op evs) = ROk /\
  total (fst (aexec_ev ([], []) evs)) = 0 /\ total (snd (aexec_ev ([], []) evs)) = 37 /\
  tx_outcome (mkConfig 2 100 100 2 8 10 10 10 10 1 2) (mkFlags true true) (map aev_op evs) = RErr (KeyExceeded 3) /\
  tx_outcome (mkConfig 2 78 100 3 8 10 10 10 10 1 2) (mkFlags true true) (map aev_op evs) = RErr (HeapExceeded 79 78).
Proof.
  repeat split; try (vm_compute; reflexivity); cbn; unfold agrees; cbn; repeat split; try reflexivity;
    vm_compute; discriminate.
Qed.

Print Assumptions C49_exceed_iff_error.
Print Assumptions C49_boundary_exact.
Print Assumptions C49_counters_exact.
Print Assumptions C49_io_no_panic_bounded.
Print Assumptions C49_run_fail_sound.
Print Assumptions C49_run_fail_complete.
Print Assumptions C49_run_ok_iff.
Print Assumptions C49_committed_within_limits.
Print Assumptions C49_io_ok_totals_within.
Print Assumptions C49_limits_off_never_fails.
Print Assumptions C49_no_panic_refuted.
Print Assumptions C49_no_panic_except_known.
Print Assumptions C49_generated_configs_safe.
Print Assumptions C49_nonvacuous.
Print Assumptions C49_handlers_as_process_calls.
Print Assumptions C49_step_ok_iff_within.
Print Assumptions C49_counters_exact_all_handlers.
Print Assumptions C49_depth_never_exceeds.
Print Assumptions C49_depth_eq_equiv_ge.
Print Assumptions C49_nonvacuous_handlers.
