(* C24 — Decimal arithmetic is exact or reports overflow.  Property theorems only.
   A value is its integer number of subunits (10^-18 for DEC = Decimal / I192, 10^-36 for PDEC =
   PreciseDecimal / I256).  For values a, b the exact product (a/ONE)(b/ONE) expressed in subunits is
   a*b/ONE and the exact quotient is a*ONE/b; `÷` (Z.quot) is division truncated toward zero.
   exact_or_none f r = Ok r if r is representable in f, Err ENone (Rust None) otherwise.
   The model (Model/C24_Dec.v) follows the Rust code line by line through the wider intermediate
   type and the width conversions of bnum_integer/convert.rs as written (after the fix 625ede4876). *)
From Coq Require Import ZArith List Bool Lia.
Import ListNotations.
Require Import RV.Lib.DecCore RV.Lib.DecCoreFacts RV.Model.C25_Round RV.Model.C24_Dec RV.Proof.C25_Round RV.Proof.C24_Dec RV.Proof.C24_ToPrim.
Open Scope Z_scope.

Definition IsFmt (f : fmt) : Prop := f = DEC \/ f = PDEC.
Lemma IsFmt_ok f : IsFmt f -> fmt_ok f.
Proof. intros [->| ->]; [apply fmt_ok_DEC|apply fmt_ok_PDEC]. Qed.

Theorem C24_add_exact : forall f a b, IsFmt f -> dec_add f a b = exact_or_none f (a + b).
Proof. intros; apply add_exact. Qed.
Theorem C24_sub_exact : forall f a b, IsFmt f -> dec_sub f a b = exact_or_none f (a - b).
Proof. intros; apply sub_exact. Qed.
Theorem C24_neg_exact : forall f a, IsFmt f -> dec_neg f a = exact_or_none f (- a).
Proof. intros; apply neg_exact. Qed.
Theorem C24_abs_exact : forall f a, IsFmt f -> InF f a -> dec_abs f a = exact_or_none f (Z.abs a).
Proof. intros f a Hf; apply abs_exact, IsFmt_ok, Hf. Qed.

(* multiplication: the exact product truncated toward zero, or None iff that is not representable
   (an overflow of the 256/384-bit intermediate implies an unrepresentable result) *)
Theorem C24_mul_exact : forall f a b, IsFmt f -> InF f a -> InF f b ->
  dec_mul f a b = exact_or_none f (Z.quot (a * b) (one f)).
Proof. intros f a b Hf; apply mul_exact, IsFmt_ok, Hf. Qed.

(* division: None for a zero divisor, otherwise the exact quotient truncated toward zero or None *)
Theorem C24_div_exact : forall f a b, IsFmt f -> InF f a -> InF f b ->
  dec_div f a b = if b =? 0 then Err ENone else exact_or_none f (Z.quot (a * one f) b).
Proof. intros f a b Hf; apply div_exact, IsFmt_ok, Hf. Qed.

(* Decimal -> PreciseDecimal is exact and total; PreciseDecimal -> Decimal truncates toward zero and
   fails with Overflow iff the truncated value is not a Decimal *)
Theorem C24_dec_to_pdec_exact : forall a, InF DEC a -> dec_to_pdec a = Ok (a * 10 ^ 18).
Proof. exact dec_to_pdec_exact. Qed.
Theorem C24_pdec_to_dec_trunc : forall p, InF PDEC p ->
  pdec_to_dec p = if in_f DEC (Z.quot p (10 ^ 18)) then Ok (Z.quot p (10 ^ 18)) else Err EOverflow.
Proof. exact pdec_to_dec_trunc. Qed.

(* from primitive integers (i8 … u128, isize, usize): exact, total *)
Theorem C24_from_prim_exact : forall f src v, IsFmt f ->
  - 2 ^ 127 <= v <= 2 ^ 128 - 1 -> dec_from_prim f src v = Ok (v * one f).
Proof.
  intros f src v Hf Hv. apply from_prim_exact; [apply IsFmt_ok, Hf|exact Hv|].
  destruct Hf as [->| ->]; vm_compute; reflexivity.
Qed.
(* from the big integer types (any signed/unsigned width): exact or Overflow *)
Theorem C24_try_from_int_exact : forall f src v, IsFmt f -> 1 <= ibits src -> InTy src v ->
  dec_try_from_int f src v = if in_f f (v * one f) then Ok (v * one f) else Err EOverflow.
Proof. intros f src v Hf; apply try_from_int_exact, IsFmt_ok, Hf. Qed.

(* to primitive integers (TryFrom<Decimal> for i8 … u128): a whole number converts exactly when it fits
   the target type (Overflow otherwise); a value with a fractional part is rejected (InvalidDigit) *)
Theorem C24_to_prim_exact : forall f dst v, IsFmt f -> InF f v ->
  dec_to_prim f dst v =
    if Z.rem v (one f) =? 0
    then (if in_ity dst (Z.quot v (one f)) then Ok (Z.quot v (one f)) else Err EOverflow)
    else Err EInvalidDigit.
Proof. intros f dst v Hf. apply to_prim_exact, IsFmt_ok, Hf. Qed.

(* the width conversion of convert.rs as written is exactly the range test of the target type *)
Theorem C24_narrow_is_range_test : forall src d v,
  1 <= d -> (if isigned src then d < ibits src else d <= ibits src) -> InTy src v ->
  try_from_bnum src (SI d) v = if in_ity (SI d) v then Ok v else Err EOverflow.
Proof. exact try_from_bnum_narrow. Qed.

(* none of the operations panics *)
Theorem C24_no_panic : forall f a b, IsFmt f -> InF f a -> InF f b ->
  dec_add f a b <> Panic /\ dec_sub f a b <> Panic /\ dec_mul f a b <> Panic /\
  dec_div f a b <> Panic /\ dec_neg f a <> Panic /\ dec_abs f a <> Panic /\
  (f = DEC -> dec_to_pdec a <> Panic) /\ (f = PDEC -> pdec_to_dec a <> Panic).
Proof.
  intros f a b Hf Ha Hb.
  rewrite C24_add_exact, C24_sub_exact, C24_mul_exact, C24_div_exact, C24_neg_exact, C24_abs_exact by assumption.
  unfold exact_or_none. repeat split;
    try (repeat match goal with |- context[if ?c then _ else _] => destruct c end; discriminate).
  - intros ->. rewrite C24_dec_to_pdec_exact by assumption. discriminate.
  - intros ->. rewrite C24_pdec_to_dec_trunc by assumption. destruct (in_f DEC _); discriminate.
Qed.

(* the repaired defect: with the narrowing as it was before the fix, MIN * 1 reported overflow
   although the exact result is representable *)
Theorem C24_mul_min_refuted_before_fix :
  dec_mul_prefix DEC (fmin DEC) (one DEC) = Err ENone /\
  dec_mul DEC (fmin DEC) (one DEC) = Ok (fmin DEC) /\
  in_f DEC (Z.quot (fmin DEC * one DEC) (one DEC)) = true.
Proof. exact mul_min_prefix_refuted. Qed.

(* non-vacuity: truncation toward zero at both signs, results on both limits, an overflow *)
Example C24_nonvacuous :
  InF DEC (fmin DEC) /\ InF DEC (fmax DEC) /\ InF PDEC (fmin PDEC) /\
  dec_mul DEC (-1500000000000000001) 1500000000000000001 = Ok (-2250000000000000003) /\
  dec_div DEC (-1000000000000000000) 3000000000000000000 = Ok (-333333333333333333) /\
  dec_div DEC (fmin DEC) (one DEC) = Ok (fmin DEC) /\
  dec_div DEC (fmin DEC) (- one DEC) = Err ENone /\
  dec_mul PDEC (fmin PDEC) (one PDEC) = Ok (fmin PDEC) /\
  dec_mul PDEC (fmax PDEC) (fmax PDEC) = Err ENone /\
  pdec_to_dec (-1999999999999999999) = Ok (-1) /\
  pdec_to_dec (fmin DEC * 10 ^ 18 - 10 ^ 18) = Err EOverflow /\
  pdec_to_dec (fmin DEC * 10 ^ 18 - 10 ^ 18 + 1) = Ok (fmin DEC).
Proof. repeat split; vm_compute; try reflexivity; intros; discriminate. Qed.

Print Assumptions C24_mul_exact.
Print Assumptions C24_div_exact.
Print Assumptions C24_pdec_to_dec_trunc.
Print Assumptions C24_try_from_int_exact.
Print Assumptions C24_no_panic.
Print Assumptions C24_to_prim_exact.
