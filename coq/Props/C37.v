(* C37 — Resource assertions accept exactly the balances they describe. Property theorems only.
   Model: Model/C37_Constraint.v (manifest_resource_assertion.rs line by line); the mathematical
   meaning SatF / SatNF / SatG / SatR and KnownClass are defined at the top of Proof/C37_Constraint.v.
   Balances: a fungible amount a >= 0 (attos); a duplicate-free list of non-fungible ids (IndexSet). *)
From Coq Require Import List ZArith NArith Bool.
Import ListNotations.
Require Import RV.Model.C37_Constraint RV.Proof.C37_Constraint.
Open Scope Z_scope.

(* every constraint kind (NonZeroAmount, ExactAmount, AtLeastAmount, ExactNonFungibles,
   AtLeastNonFungibles, General), every balance: validate_* returns Ok iff the balance satisfies the
   constraint's meaning.  No validity assumption on the constraint. *)
Theorem C37_validate_iff_sat :
  (forall c a, 0 <= a -> (validate_f c a = VOk <-> SatF c a)) /\
  (forall c ids, validate_nf c ids = VOk <-> SatNF c ids).
Proof. split; [exact validate_f_iff_sat | exact validate_nf_iff_sat]. Qed.

(* a reported NonFungibleMissing / NonFungibleNotAllowed names an id that really is missing from /
   present in the balance *)
Theorem C37_error_names_real_id : forall c ids i,
  (validate_nf c ids = VErr (EMissing i) -> ~ In i ids) /\
  (validate_nf c ids = VErr (ENotAllowed i) -> In i ids).
Proof. exact validate_nf_error_witness. Qed.

(* ManifestResourceConstraints::validate (worktop / balance assertions over several resources):
   accepted iff (with prevent_unspecified_resource_balances) no positive balance of an unspecified
   resource exists, and every constraint is satisfied by the aggregated balance of its resource *)
Theorem C37_constraints_validate_iff : forall cs b prevent,
  (forall r a, In (r, a) (fungible_resources b) -> 0 <= a) ->
  (constraints_validate cs b prevent = CsOk <->
   (prevent = true -> NoUnexpected cs b) /\ Forall (SatR b) cs).
Proof. exact constraints_validate_iff. Qed.

(* normalising a valid general constraint never changes which balances it accepts.
   Non-fungible use: full statement.  Fungible use: the faithful model REFUTES the statement for
   constraints with an empty allow-list and a non-zero upper bound (declared valid for fungible use
   by AllowedIds::is_valid_for_fungible_use although the documented rule requires the upper bound to
   be zero); outside that class it holds. *)
Theorem C37_normalize_preserves :
  (forall g ids, g_valid_nf g = true -> NoDup (required g) -> NoDup ids ->
     (validate_nf (General (normalize g)) ids = VOk <-> validate_nf (General g) ids = VOk)) /\
  (forall g a, g_valid_f g = true -> ~ KnownClass g ->
     (validate_f (General (normalize g)) a = VOk <-> validate_f (General g) a = VOk)).
Proof. split; [exact normalize_preserves_validate_nf | exact normalize_preserves_f_except_known]. Qed.
(* the same for the meaning, under the id part of validity only *)
Theorem C37_normalize_preserves_sat : forall g ids,
  g_valid_independent g = true -> NoDup (required g) -> NoDup ids ->
  (SatG (normalize g) ids <-> SatG g ids).
Proof. exact normalize_preserves_nf. Qed.
Theorem C37_normalize_preserves_fungible_refuted : exists g a,
  g_valid_f g = true /\ KnownClass g /\ 0 <= a /\
  validate_f (General g) a = VOk /\ validate_f (General (normalize g)) a <> VOk.
Proof. exact normalize_preserves_f_refuted. Qed.

(* a constraint declared valid is satisfiable *)
Theorem C37_valid_satisfiable :
  (forall c, valid_f c = true -> exists a, 0 <= a /\ validate_f c a = VOk) /\
  (forall c, valid_nf c = true -> constraint_nodup c -> exists ids, NoDup ids /\ validate_nf c ids = VOk).
Proof. split; [exact valid_f_satisfiable | exact valid_nf_satisfiable]. Qed.

(* no validity assumption *)
Theorem C37_normalize_idempotent : forall g, normalize (normalize g) = normalize g.
Proof. exact normalize_idempotent. Qed.

(* non-vacuity: a valid non-fungible constraint that normalisation really changes (the allow-list
   is detected to be exactly the required set), a balance it accepts and one it rejects *)
Example C37_nonvacuous :
  let g := mkGeneral [3%N; 1%N] (LIncl (1 * SCALE)) (UIncl (2 * SCALE)) (Allowlist [1%N; 2%N; 3%N]) in
  g_valid_nf g = true /\ NoDup (required g) /\
  normalize g = mkGeneral [3%N; 1%N] (LIncl (2 * SCALE)) (UIncl (2 * SCALE)) (Allowlist [3%N; 1%N]) /\
  validate_nf (General g) [1%N; 3%N] = VOk /\
  validate_nf (General g) [1%N; 2%N] = VErr (EMissing 3%N) /\
  validate_nf (General g) [1%N; 2%N; 3%N] = VErr (EExpectedAtMost (2 * SCALE) (3 * SCALE)).
Proof.
  cbv zeta. split; [vm_compute; reflexivity|]. split.
  - cbn [required]. constructor; [intros [H|[]]; discriminate | constructor; [intros [] | constructor]].
  - repeat split; vm_compute; reflexivity.
Qed.

Print Assumptions C37_validate_iff_sat.
Print Assumptions C37_error_names_real_id.
Print Assumptions C37_constraints_validate_iff.
Print Assumptions C37_normalize_preserves.
Print Assumptions C37_normalize_preserves_sat.
Print Assumptions C37_normalize_preserves_fungible_refuted.
Print Assumptions C37_valid_satisfiable.
Print Assumptions C37_normalize_idempotent.
