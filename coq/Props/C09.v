(* C09 — Resources cannot vanish or be duplicated inside a transaction. Property theorems only.
   Model: Model/C09_Worktop.v (`step` = one manifest instruction, `finish` = end of transaction,
   `run` = whole manifest). *)
From Coq Require Import List ZArith NArith Bool.
Import ListNotations.
Require Import RV.Model.C10_ProofLock RV.Model.C09_Worktop RV.Proof.C09_Worktop RV.Proof.C09_Conservation RV.Proof.C09_ConservationNF.
Open Scope N_scope.

(* Taking an amount from the worktop succeeds only if the worktop's bucket of that resource holds
   at least that amount; the result is either that very bucket (equal amounts: the bucket moves)
   or a split of it. *)
Theorem C09_take_bounded : forall s r a s' n, worktop_take s r a = Ok (s', n) -> (a <> 0)%Z ->
  exists w rv v existing,
    afind r (worktop s) = Some w /\ afind w (buckets s) = Some (rv, v) /\
    cont_amount v = Ok existing /\ (a <= existing)%Z /\
    ((a = existing /\ n = w /\ buckets s' = buckets s /\ worktop s' = aremove r (worktop s))
     \/ ((a < existing)%Z /\ bucket_take s w a = Ok (s', n))).
Proof. exact take_bounded. Qed.
(* a split yields a new bucket holding exactly `a` and leaves exactly `a` less in the source *)
Theorem C09_take_split_exact : forall s w r c a s' n, afind w (buckets s) = Some (r, CF c) ->
  bucket_take s w a = Ok (s', n) ->
  exists c', f_take (div_of s r) a c = Ok (c', a) /\ n = next_node s /\
    buckets s' = aset w (r, CF c') (buckets s) ++ [(n, (r, CF (f_new a)))] /\ (fliq c' = fliq c - a)%Z /\ flocked c' = flocked c.
Proof. exact bucket_take_fungible. Qed.
Theorem C09_take_ids_bounded : forall s r ids s' n, worktop_take_ids s r ids = Ok (s', n) -> ids <> [] ->
  exists w rv c, afind r (worktop s) = Some w /\ afind w (buckets s) = Some (rv, CN c) /\
    subset ids (n_ids c) = true.
Proof. exact take_ids_bounded. Qed.

(* Worktop assertions pass exactly when the worktop holds the asserted amount / any / ids. *)
Theorem C09_assert_exact : forall s r,
  (forall a amt, worktop_amount s r = Ok amt ->
     (step s (OAssertContains r a) = Ok s <-> (a <= amt)%Z) /\
     (step s (OAssertContains r a) = Err EAssertion <-> (amt < a)%Z)) /\
  (forall amt, worktop_amount s r = Ok amt -> (step s (OAssertContainsAny r) = Ok s <-> amt <> 0%Z)) /\
  (forall ids, step s (OAssertContainsNF r ids) = Ok s <-> (forall i, In i ids -> In i (worktop_ids s r))).
Proof.
  intros s r. split; [intros a amt H; apply assert_amount_exact, H|].
  split; [intros amt H; apply assert_any_exact, H|apply assert_ids_exact].
Qed.

(* A transaction that succeeds ends with no bucket node at all (worktop buckets were dropped empty
   and unlocked, no named bucket is left) and no proof: every resource taken is in a vault or
   burned.  Leftovers, a non-empty or locked worktop bucket, and consumed names make it fail. *)
Theorem C09_success_implies_disposed : forall s ops s', run s ops = Done s' ->
  buckets s' = [] /\ worktop s' = [] /\ pnamed s' = [] /\ azone s' = [].
Proof. intros s ops s'. apply run_from_done. Qed.
Theorem C09_leftover_on_worktop_fails : forall s r n rest v,
  worktop s = (r, n) :: rest -> afind n (buckets s) = Some (r, v) ->
  (cont_is_locked v = true \/ cont_liquid_zero v = false) -> forall s', finish s <> Ok s'.
Proof. exact finish_worktop_nonempty_fails. Qed.
Theorem C09_leftover_bucket_fails : forall s s1 s2 s3,
  drop_empty_all (set_worktop s []) (map snd (worktop s)) = Ok s1 ->
  drop_proofs (set_pnamed s1 []) (map snd (pnamed s1)) = Ok s2 ->
  drop_proofs (set_azone s2 []) (azone s2) = Ok s3 ->
  buckets s3 <> [] -> finish s = Err EOrphan.
Proof. exact finish_leftover_bucket_fails. Qed.
Theorem C09_consumed_bucket_fails : forall s b, afind b (named s) = None ->
  step s (OReturnToWorktop b) = Err EBucketNotFound /\ step s (OBurnBucket b) = Err EBucketNotFound
  /\ step s (ODeposit b) = Err EBucketNotFound /\ (forall a, step s (OBucketProofAmount b a) = Err EBucketNotFound)
  /\ (forall ids, step s (OBucketProofNF b ids) = Err EBucketNotFound) /\ step s (OBucketProofAll b) = Err EBucketNotFound.
Proof. exact consumed_bucket_fails. Qed.
Theorem C09_consumed_proof_fails : forall s p, afind p (pnamed s) = None ->
  step s (ODropProof p) = Err EProofNotFound /\ step s (OCloneProof p) = Err EProofNotFound
  /\ step s (OPushAuthZone p) = Err EProofNotFound.
Proof. exact consumed_proof_fails. Qed.

(* Conservation (fungible resources): `hold s r` = account vault of r + every bucket node of r
   (liquid + locked) + burned tally of r.  Every instruction that succeeds, and the end of the
   transaction, leave it unchanged: nothing vanishes, nothing is duplicated.  For a transaction
   that succeeds, all bucket nodes are gone, so vault + burned at the end = everything at the start. *)
Theorem C09_step_conserves : forall s o s' r, step s o = Ok s' -> (hold s' r = hold s r)%Z.
Proof. exact step_conserves. Qed.
Theorem C09_conservation : forall s ops s' r, run s ops = Done s' ->
  (hold s' r = hold s r)%Z /\
  (C09_Conservation.vsum r (vaults s') + fsum r (burnedf s') = C09_Conservation.vsum r (vaults s) + C09_Conservation.bsum r (buckets s) + fsum r (burnedf s))%Z.
Proof.
  intros s ops s' r H. pose proof (run_conserves _ _ _ _ r H) as Hc. split; [exact Hc|].
  destruct (run_from_done _ _ _ _ H) as (Hb & _). unfold hold in Hc. rewrite Hb in Hc. cbn [C09_Conservation.bsum] in Hc.
  rewrite <- Hc. ring.
Qed.

(* Conservation (non-fungible ids): `holdI i s r` = number of occurrences of id i in the account
   vault of r (liquid ids + lock table), in every bucket node of r and in the burned tally of r.
   If i occurs at most once (ids are unique; true for the initial state), every successful
   instruction and the end of the transaction leave the count unchanged: the id is never
   duplicated and never vanishes; after a successful transaction it is in the vault or burned. *)
Theorem C09_nf_step_conserves : forall i s o s' r, (holdI i s r <= 1)%Z -> step s o = Ok s' ->
  (holdI i s' r = holdI i s r)%Z.
Proof. exact step_conserves_id. Qed.
Theorem C09_nf_conservation : forall i s ops s' r, (holdI i s r <= 1)%Z -> run s ops = Done s' ->
  (holdI i s' r = holdI i s r)%Z /\
  (C09_ConservationNF.vsum i r (vaults s') + nsum i r (burnedn s') = holdI i s r)%Z.
Proof.
  intros i s ops s' r Hle H. pose proof (run_conserves_id i _ _ _ _ r Hle H) as Hc. split; [exact Hc|].
  destruct (run_from_done _ _ _ _ H) as (Hb & _). unfold holdI in Hc at 1. rewrite Hb in Hc. cbn [C09_ConservationNF.bsum] in Hc.
  rewrite <- Hc. ring.
Qed.
Theorem C09_nf_initially_unique : forall i f0 f1 ids r, (holdI i (init f0 f1 ids) r <= 1)%Z.
Proof. exact init_unique. Qed.

Example C09_nonvacuous :
  let s0 := init 1000 500 [1; 2; 3] in
  (exists s', run s0 [OWithdraw 0 10; OTakeFromWorktop 0 10; OReturnToWorktop 0; OTakeFromWorktop 0 4;
                      OAssertContains 0 6; ODeposit 1; ODepositBatch] = Done s')
  /\ run s0 [OWithdraw 0 10; OTakeFromWorktop 0 4; ODeposit 0] = Failed 3 EDropNonEmpty
  /\ run s0 [OWithdraw 0 10; OTakeFromWorktop 0 10] = Failed 2 EOrphan
  /\ run s0 [OWithdraw 0 10; OTakeFromWorktop 0 11] = Failed 1 EWorktopInsufficient
  /\ run s0 [OWithdraw 0 10; OTakeFromWorktop 0 10; ODeposit 0; ODeposit 0] = Failed 3 EBucketNotFound.
Proof. repeat split; try (eexists; vm_compute; reflexivity); vm_compute; reflexivity. Qed.

Print Assumptions C09_nf_step_conserves.
Print Assumptions C09_nf_conservation.
Print Assumptions C09_nf_initially_unique.
Print Assumptions C09_step_conserves.
Print Assumptions C09_conservation.
Print Assumptions C09_take_bounded.
Print Assumptions C09_take_split_exact.
Print Assumptions C09_take_ids_bounded.
Print Assumptions C09_assert_exact.
Print Assumptions C09_success_implies_disposed.
Print Assumptions C09_leftover_on_worktop_fails.
Print Assumptions C09_leftover_bucket_fails.
Print Assumptions C09_consumed_bucket_fails.
Print Assumptions C09_consumed_proof_fails.
