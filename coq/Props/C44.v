(* C44 — Consensus time and rounds only move forward. Property theorems only.
   Model: Model/C44_Consensus.v. A history is any list of next_round calls (round number, proposer
   timestamp, gap-leader count, index validity); a failing call leaves the state unchanged. *)
From Coq Require Import List NArith ZArith Bool.
Import ListNotations.
Require Import RV.Model.C44_Consensus RV.Proof.C44_Consensus.
Open Scope Z_scope.

(* over every history, for every epoch-change configuration: the milli clock, the minute clock and
   the epoch never decrease *)
Theorem C44_time_monotone : forall c is s,
  milli s <= milli (exec c s is) /\ minute s <= minute (exec c s is)
  /\ (epoch s <= epoch (exec c s is))%N.
Proof. exact time_monotone. Qed.

(* a successful round update either stays in the epoch with a strictly larger round, or moves to
   the next epoch with round 0 *)
Theorem C44_round_progress : forall c s i s',
  next_round c s i = Ok s' ->
  (epoch s' = epoch s /\ (round s < round s')%N)
  \/ (epoch s' = (epoch s + 1)%N /\ round s' = 0%N).
Proof. exact round_progress. Qed.

(* an epoch change advances the epoch by exactly one, resets the round and records the proposer
   timestamp as the actual epoch start; no other outcome changes the epoch *)
Theorem C44_epoch_step : forall c s i,
  let s' := step c s i in
  epoch s' = epoch s \/ (epoch s' = (epoch s + 1)%N /\ round s' = 0%N /\ act_start s' = r_ts i).
Proof.
  intros c s i s'. unfold s', step. destruct (next_round c s i) as [s1|e] eqn:E; [|left; reflexivity].
  apply next_round_ok in E. destruct E as (_ & _ & _ & _ & _ & [(B1 & _)|(B1 & B2 & B3 & _)]); auto.
Qed.

(* the minute clock is the milli clock truncated to minutes (for every i64 time, also negative), in
   every state reachable from a state where this holds (genesis sets both from one value), and the
   milli clock is the maximum of its initial value and all accepted proposer timestamps *)
Theorem C44_minute_consistent : forall c is s,
  ClockInv s ->
  minute (exec c s is) = Z.quot (milli (exec c s is)) 60000
  /\ milli (exec c s is) = max_accepted c s is (milli s).
Proof.
  intros c is s H. split; [exact (clock_inv_exec c is s H)|apply milli_is_max].
Qed.

(* comparisons made by components: at minute precision the recorded minute is compared with the
   argument truncated to minutes and saturated to the i32 range (also when seconds*1000 overflows
   i64); at second precision the milli clock truncated to seconds is compared with the argument;
   get_current_time returns the same two quantities *)
Theorem C44_compare_agrees : forall s inst o,
  in_i64 inst = true ->
  compare_minute s inst o = compare (minute s) (clamp_i32 (Z.quot inst 60)) o
  /\ compare_second s inst o = compare (Z.quot (milli s) 1000) inst o
  /\ get_time_minute s = minute s * 60
  /\ get_time_second s = Z.quot (milli s) 1000.
Proof. exact compare_agrees. Qed.

(* non-vacuity: a concrete history with an equal timestamp, a rejected decreasing timestamp, a
   round gap, an epoch change and a rejected stale round *)
Example C44_nonvacuous :
  let c := mkCfg 2 5 1000 in
  let s0 := mkCm 7 0 59999 0 59999 59999 in
  let is := [mkIn 1 59999 0 true; mkIn 2 59000 0 true; mkIn 3 60000 1 true; mkIn 3 60001 0 true;
             mkIn 5 130000 1 true] in
  ClockInv s0 /\
  exec c s0 is = mkCm 8 0 130000 2 130000 130000 /\
  next_round c s0 (mkIn 2 59000 0 true) = Err InvalidProposerTimestampUpdate /\
  compare_minute (exec c s0 is) 9223372036854775807 OpLt = true.
Proof. repeat split; vm_compute; reflexivity. Qed.

Print Assumptions C44_time_monotone.
Print Assumptions C44_round_progress.
Print Assumptions C44_epoch_step.
Print Assumptions C44_minute_consistent.
Print Assumptions C44_compare_agrees.
