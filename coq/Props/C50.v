(* C50 — Objects are encapsulated by their blueprint. Property theorems only.

   Model: Model/C50_Encaps.v — the access decisions of drop_object, globalize_with_address_internal,
   new_object(_internal) and get_actor_object_id (system.rs / actor.rs), as written, over abstract
   blueprint ids (package, name), node ids and a table of type infos.
   Vocabulary (Proof/C50_Encaps.v):
     DropRight a info       (no outer object, or a proof) the actor's blueprint id = the object's; or
                            (inner object) the actor is a main/direct method running on the object's
                            outer object itself or on another inner object of the same outer object
     actor_consistent h a   a method actor's cached ObjectInfo is the node's type info in h
     Inv h                  every inner object's outer object is a global object of the same package
     sys_step / sys_run     new_object / globalize / drop / allocate_global_address on the node table

   WHAT THE CODE ENFORCES vs THE STATEMENT. drop: blueprint level for objects without outer object
   and for proofs (a proof is dropped through its own blueprint's public `drop` function), *outer
   object family* level for inner objects. globalize: the code compares PACKAGES ("only the package
   can globalize a node" — comment in the code), so the literal blueprint-level reading is refuted
   (C50_globalize_blueprint_level_refuted, known finding class globalize_package_level) and the
   true statement is package level (C50_globalize_only_own). State: there is no call that opens a
   field of an arbitrary node; actor state handles resolve to the actor's node or its outer object.

   OUTSIDE the model (level "other"): kernel ownership / visibility (a frame can only pass nodes it
   owns or sees), auth (who may *call* a method), direct-access methods, key-value stores (not
   objects), the blueprint code of native packages (which calls these system functions), schema
   validation of created objects. *)
From Coq Require Import List NArith Bool.
Import ListNotations.
Require Import RV.Model.C50_Encaps RV.Proof.C50_Encaps.
Open Scope N_scope.

Theorem C50_drop_only_own : forall h a n,
  drop_check h a n = Granted ->
  exists info, lookup h n = Some (TObject info) /\ DropRight a info.
Proof. exact drop_only_own. Qed.

(* forbidden drops of objects get exactly InvalidDropAccess *)
Theorem C50_drop_denied_is_invalid_drop_access : forall h a n info,
  lookup h n = Some (TObject info) ->
  drop_check h a n = Granted \/ drop_check h a n = EInvalidDropAccess.
Proof. exact drop_denied_is_invalid_drop_access. Qed.

(* globalize: the reservation must be a real reservation whose phantom names exactly the object's
   blueprint, the object is not yet global, and the actor runs code of that blueprint's PACKAGE *)
Theorem C50_globalize_only_own : forall h a n r m,
  globalize_check h a n r m = Granted ->
  exists addr reserved info,
    lookup h r = Some (TReservation addr) /\ lookup h addr = Some (TPhantom reserved) /\
    lookup h n = Some (TObject info) /\ oi_global info = false /\
    oi_bp info = reserved /\ actor_pkg a = Some (bp_pkg (oi_bp info)) /\ m = true.
Proof. exact globalize_only_own. Qed.

(* the blueprint-level reading of the statement does not hold: a function of blueprint (7, 9)
   globalizes an object of blueprint (7, 8) of the same package *)
Theorem C50_globalize_blueprint_level_refuted :
  exists h a n r info,
    globalize_check h a n r true = Granted /\ lookup h n = Some (TObject info) /\
    actor_bp a <> Some (oi_bp info).
Proof.
  exists [(1, TObject (mkOI (mkBp 7 8) ONone false)); (2, TReservation 3); (3, TPhantom (mkBp 7 8))],
         (AFunction (mkBp 7 9)), 1, 2, (mkOI (mkBp 7 8) ONone false).
  split; [vm_compute; reflexivity|]. split; [vm_compute; reflexivity|]. cbn. intro H. discriminate H.
Qed.

(* likewise for drop of INNER objects the rule is the outer-object family, not the blueprint: a
   method of another inner blueprint of the same outer object (a vault of resource 10 dropping a
   bucket of resource 10) is admitted — the native resource package relies on it; finding class
   drop_by_sibling_inner_object.  DropRight in C50_drop_only_own is the exact rule;
   C50_drop_same_package the package-level guarantee that does hold. *)
Theorem C50_drop_blueprint_level_refuted :
  exists h a n info,
    drop_check h a n = Granted /\ lookup h n = Some (TObject info) /\
    actor_bp a <> Some (oi_bp info) /\ instance_context a <> Some n.
Proof.
  exists [(20, TObject (mkOI (mkBp 0 6) (OSome 10) false)); (21, TObject (mkOI (mkBp 0 7) (OSome 10) false));
          (10, TObject (mkOI (mkBp 0 5) ONone true))],
         (AMethod MMain 21 (mkOI (mkBp 0 7) (OSome 10) false)), 20, (mkOI (mkBp 0 6) (OSome 10) false).
  split; [vm_compute; reflexivity|]. split; [vm_compute; reflexivity|].
  split; cbn; intro H; discriminate H.
Qed.

(* key-value stores are not objects: key_value_store_open_entry consults only the node's type, never
   the actor — their encapsulation rests entirely on kernel ownership / visibility (outside this model) *)
Theorem C50_kv_store_open_ignores_actor : forall h a b n, kv_open_check h a n = kv_open_check h b n.
Proof. exact kv_open_actor_irrelevant. Qed.
Theorem C50_kv_store_open_granted_iff : forall h a n,
  kv_open_check h a n = Granted <-> lookup h n = Some TKVStore.
Proof. exact kv_open_granted_iff. Qed.

(* new_object: the created object is of the actor's package, owned, and — for an inner blueprint —
   its outer object is the actor's instance context, whose blueprint name is the declared outer *)
Theorem C50_new_object_own_package : forall h defs a ident i,
  new_object_check h defs a ident = inr i ->
  actor_pkg a = Some (bp_pkg (oi_bp i)) /\ bp_name (oi_bp i) = ident /\ oi_global i = false /\
  match defs (oi_bp i) with
  | Some BOuter => oi_outer i = ONone
  | Some (BInner outer_name) =>
      exists o oi, oi_outer i = OSome o /\ instance_context a = Some o /\
                   lookup h o = Some (TObject oi) /\ bp_name (oi_bp oi) = outer_name
  | None => False
  end.
Proof. exact new_object_own_package. Qed.

(* state: a handle resolves to the actor's own node, or (main module only) to its outer object;
   any other handle value is refused *)
Theorem C50_state_only_self_or_outer : forall h a handle n m,
  resolve_state_handle h a handle = inr (n, m) ->
  exists self sm, get_object_id a = Some (self, sm) /\
    ((handle = ACTOR_STATE_SELF /\ n = self /\ m = sm) \/
     (handle = ACTOR_STATE_OUTER_OBJECT /\ sm = None /\ m = None /\
      exists i, lookup h self = Some (TObject i) /\ oi_outer i = OSome n)).
Proof. exact state_only_self_or_outer. Qed.
Theorem C50_state_handle_other_refused : forall h a handle,
  handle <> ACTOR_STATE_SELF -> handle <> ACTOR_STATE_OUTER_OBJECT ->
  resolve_state_handle h a handle = inl EInvalidActorStateHandle.
Proof. exact state_handle_other_refused. Qed.

(* histories: from the empty table, every sequence of new_object / globalize / drop /
   allocate_global_address calls by consistent actors keeps every inner object inside the package
   of its global outer object ... *)
Theorem C50_inner_objects_stay_in_outer_package : forall defs ops,
  Inv (sys_run defs [] ops).
Proof. intros. apply sys_run_inv. intros n i o H. discriminate H. Qed.
(* ... hence whoever is admitted to drop an object (bucket, vault, any component) runs code of the
   object's own package — no other package's blueprint can drop it, whatever references it holds *)
Theorem C50_drop_same_package : forall defs ops a n,
  let h := sys_run defs [] ops in
  actor_consistent h a = true -> drop_check h a n = Granted ->
  exists info, lookup h n = Some (TObject info) /\ actor_pkg a = Some (bp_pkg (oi_bp info)).
Proof. intros defs ops a n h Hc Hd. apply drop_same_package; auto.
  apply C50_inner_objects_stay_in_outer_package. Qed.

(* non-vacuity: a resource manager (global, package 0) whose method creates a bucket (inner),
   a foreign function is refused to drop it, a sibling inner object's method is admitted *)
Example C50_nonvacuous :
  let defs := fun b => if bp_eqb b (mkBp 0 5) then Some BOuter
                       else if bp_eqb b (mkBp 0 6) then Some (BInner 5) else None in
  let rm := mkOI (mkBp 0 5) ONone true in
  let ops := [OpAllocate (mkBp 0 5) 10 11; OpNew (AFunction (mkBp 0 5)) 5 12;
              OpGlobalize (AFunction (mkBp 0 5)) 12 11;
              OpNew (AMethod MMain 10 rm) 6 20; OpNew (AMethod MMain 10 rm) 6 21] in
  let h := sys_run defs [] ops in
  lookup h 20 = Some (TObject (mkOI (mkBp 0 6) (OSome 10) false)) /\
  drop_check h (AFunction (mkBp 9 9)) 20 = EInvalidDropAccess /\
  drop_check h (AFunction (mkBp 0 6)) 20 = EInvalidDropAccess /\
  drop_check h (AMethod MMain 21 (mkOI (mkBp 0 6) (OSome 10) false)) 20 = Granted /\
  drop_check h (AMethod MMain 10 rm) 20 = Granted.
Proof. vm_compute. repeat split; reflexivity. Qed.

Print Assumptions C50_drop_only_own.
Print Assumptions C50_drop_denied_is_invalid_drop_access.
Print Assumptions C50_globalize_only_own.
Print Assumptions C50_globalize_blueprint_level_refuted.
Print Assumptions C50_drop_blueprint_level_refuted.
Print Assumptions C50_kv_store_open_ignores_actor.
Print Assumptions C50_kv_store_open_granted_iff.
Print Assumptions C50_new_object_own_package.
Print Assumptions C50_state_only_self_or_outer.
Print Assumptions C50_state_handle_other_refused.
Print Assumptions C50_inner_objects_stay_in_outer_package.
Print Assumptions C50_drop_same_package.
Print Assumptions C50_nonvacuous.
