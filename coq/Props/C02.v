(* C02 — Failed, rejected and aborted transactions change nothing but fees. Property theorems only.
   What is proved here is the mechanism in the Track and in determine_result_type (model:
   Model/C12_Track.v, Model/C12_View.v, Model/C02_ResultType.v); the engine-level statement (which
   substates the fee finalisation and the FORCE_WRITE call sites touch, events) is explored by the
   harness c02e, not proved. `reach` quantifies over every base database and every admissible
   operation sequence; admissibility contains the FORCE_WRITE admission rule of system.rs (only on a
   node not created in this transaction) and create_node freshness. *)
From Coq Require Import List NArith Bool String.
Import ListNotations.
Require Import RV.Model.C12_Track RV.Model.C12_View RV.Model.C02_ResultType RV.Proof.C12_Main RV.Proof.C12_Updates RV.Proof.C02_Result RV.Model.C02_Finalize RV.Proof.C02_Shape RV.Gen.C02_force_write_sites.
Open Scope N_scope.

(* the three unwrap()s of revert_non_force_write_changes are unreachable *)
Theorem C02_revert_no_panic : forall db t s, db_wf db -> reach db t s -> revert t <> None.
Proof. exact reach_revert_no_panic. Qed.

(* after the revert, what the transaction sees (and hence what fee finalisation starts from) is the
   database overlaid with exactly the force-written substates, holding the value they had when they
   were force-written; no created node survives. (Stated on reads; the StateUpdates form is
   C02_revert_updates_only_force_writes.) *)
Theorem C02_revert_keeps_only_force_writes : forall db t s t' n p k,
  db_wf db -> reach db t s -> no_blind_overwrite db t -> revert t = Some t' ->
  snd (fst (get_substate db t' n p k)) = match fw_get (v_fw s) n p k with Some x => x | None => al_get k (db n p) end
  /\ forall n', node_is_new (t_nodes t') n' = false.
Proof. exact revert_view. Qed.

(* the StateUpdates of the reverted track: committing them to the base database changes exactly the
   force-written keys, to their force-written values (every other key keeps its database value), and
   no node is reported as new *)
Theorem C02_revert_updates_only_force_writes : forall db t s t' n p k, db_wf db -> reach db t s ->
  no_blind_overwrite db t -> revert t = Some t' -> iset_mem (n, p) (v_del s) = false ->
  apply_su (snd (to_state_updates t')) db n p k =
    match fw_get (v_fw s) n p k with Some x => x | None => al_get k (db n p) end
  /\ fst (to_state_updates t') = [].
Proof. exact revert_updates_only_force_writes. Qed.

(* the state diff of a failed commit, for every operation list and every fault position (any
   reachable state t is a prefix of an admissible run cut at the fault), whatever the finalisation
   writes: after the revert and any list `post` of reads / writes / partition deletions, committing
   the final StateUpdates leaves every key of every non-deleted partition at its database value unless
   the key was force-written before the fault or is written by `post`; no node is reported new; no
   operation of `post` panics. *)
Theorem C02_failure_diff_shape : forall db t s t1 post t2 outs n p k,
  db_wf db -> reach db t s -> revert t = Some t1 -> Forall simple_op post ->
  run db t1 post = (t2, outs) ->
  (iset_mem (n, p) (t_del t2) = false -> fw_get (v_fw s) n p k = None -> ~ writes_key post n p k ->
     apply_su (snd (to_state_updates t2)) db n p k = al_get k (db n p))
  /\ fst (to_state_updates t2) = [] /\ List.length outs = List.length post.
Proof. exact failure_diff_shape. Qed.

(* the modelled finalize_fees_for_commit + update_transaction_tracker only read, write and drop
   partitions, and write only: balances of royalty / fee-locking / validator-reward vaults, the
   consensus manager's validator-rewards field, and substates of the transaction tracker *)
Theorem C02_finalisation_write_set : forall w ro lo rw en di nf,
  Forall simple_op (finalize_fee_ops w ro lo rw ++ tracker_ops w en di nf) /\
  forall n p k, writes_key (finalize_fee_ops w ro lo rw ++ tracker_ops w en di nf) n p k ->
                fee_or_tracker_key w ro lo rw n p k.
Proof. intros. split; [apply finalisation_simple|apply finalisation_writes]. Qed.

(* the static table of FORCE_WRITE sites, regenerated from /repo on every run: the flag is requested
   in exactly one place (FungibleVault::lock_fee), consumed in close_substate, refused for key-value
   entries and for every blueprint but the fungible vault (actor_open_field), and can otherwise only
   arrive as caller-supplied bits through the two WASM entry points that lead to those checks. A new
   site changes the generated table and breaks this obligation. *)
Theorem C02_force_write_sites_pinned :
  c02_lock_force_write_sites =
  [ ("radix-engine/src/blueprints/resource/fungible/fungible_vault.rs", "lock_fee", "use");
    ("radix-engine/src/kernel/substate_io.rs", "close_substate", "check");
    ("radix-engine/src/system/system.rs", "key_value_store_open_entry", "check");
    ("radix-engine/src/system/system.rs", "actor_open_field", "check");
    ("radix-engine/src/system/system.rs", "actor_open_key_value_entry", "check");
    ("radix-engine/src/vm/wasm_runtime/scrypto_runtime.rs", "key_value_store_open_entry", "caller_supplied_bits");
    ("radix-engine/src/vm/wasm_runtime/scrypto_runtime.rs", "actor_open_field", "caller_supplied_bits") ]%string
  /\
  c02_event_force_write_sites =
  [ ("radix-engine/src/system/system.rs", "start_lock_fee", "use");
    ("radix-engine/src/system/system.rs", "lock_fee", "use");
    ("radix-engine/src/system/system.rs", "actor_emit_event", "check");
    ("radix-engine/src/system/system_modules/transaction_runtime/module.rs", "finalize", "check");
    ("radix-engine/src/vm/wasm/wasmi.rs", "emit_event", "caller_supplied_bits");
    ("radix-native-sdk/src/runtime/runtime.rs", "emit_event_no_revert", "use") ]%string.
Proof. split; reflexivity. Qed.

(* rejected and aborted transactions have no state-update component; a failure commits only when the
   loan was fully repaid and the error is not an abort; commits of failures go through revert *)
Theorem C02_reject_abort_empty : forall i r f t,
  (determine_result_type i r f = Reject \/ determine_result_type i r f = Abort) ->
  receipt_state (determine_result_type i r f) t = None.
Proof. exact reject_abort_empty. Qed.

Theorem C02_commit_failure_iff : forall i r f,
  determine_result_type i r f = CommitFailure <-> i = IErrRuntime false /\ f = true.
Proof. exact commit_failure_iff. Qed.

Theorem C02_failure_receipt_reverts : forall db t s i r f,
  db_wf db -> reach db t s -> determine_result_type i r f = CommitFailure ->
  exists t', receipt_state (determine_result_type i r f) t = Some (Some t') /\ revert t = Some t'.
Proof. exact failure_receipt_reverts. Qed.

(* non-vacuity: a transaction that reads a vault, writes it, force-writes it (lock_fee), writes
   elsewhere, creates a node, and fails: only the force-written value survives *)
Example C02_nonvacuous :
  let db : dbfun := fun n p => if (n =? 0) && (p =? 0) then [(0, (10, 5)); (1, (11, 5))] else [] in
  let '(t, outs) := run db track_new
     [OGet 0 0 0; OSet 0 0 0 (20, 5); OForceWrite 0 0 0; OSet 0 0 0 (21, 5); OGet 0 0 1; OSet 0 0 1 (22, 5);
      OCreateNode 7 [(0, [(0, (30, 4))])]; ORevert; OGet 0 0 0; OGet 0 0 1; OGet 7 0 0] in
  map fst outs = [ROpt (Some (10, 5)); RUnit; RUnit; RUnit; ROpt (Some (11, 5)); RUnit; RUnit; RUnit;
                  ROpt (Some (20, 5)); ROpt (Some (11, 5)); ROpt None]
  /\ to_state_updates t = ([], [(0, [(0, PDelta [(0, USet (20, 5))])])]).
Proof. vm_compute. split; reflexivity. Qed.

Print Assumptions C02_revert_no_panic.
Print Assumptions C02_revert_keeps_only_force_writes.
Print Assumptions C02_revert_updates_only_force_writes.
Print Assumptions C02_failure_diff_shape.
Print Assumptions C02_finalisation_write_set.
Print Assumptions C02_force_write_sites_pinned.
Print Assumptions C02_reject_abort_empty.
Print Assumptions C02_commit_failure_iff.
Print Assumptions C02_failure_receipt_reverts.
