(* C16 — Database key mapping is reversible and preserves sorted-index order.  Property theorems.
   `H` is the hash function (Blake2b-256 in the code); the only thing assumed about it is that its
   output has the fixed length 32 (the code slices `hash(x).0[..20]`).  No injectivity or
   collision-freeness of the hash is needed: the plain bytes follow the fixed-length prefix.
   A result `None` is a Rust panic. *)
From Coq Require Import List Arith NArith Bool.
Import ListNotations.
Require Import RV.Lib.Bytes RV.Model.C16_KeyMapper RV.Proof.C16_KeyMapper.
Open Scope N_scope.

Definition HashLen (H : bytes -> bytes) : Prop := forall x, length (H x) = HASH_LENGTH.

(* ---- round trips: mapping to the database key and back returns the original ---- *)
Theorem C16_roundtrip_node : forall H, HashLen H -> forall n, length n = NODE_ID_LENGTH ->
  exists db, to_db_node_key H n = Some db /\ from_db_node_key db = Some n.
Proof. exact roundtrip_node. Qed.
Theorem C16_roundtrip_partition : forall H, HashLen H -> forall n p, length n = NODE_ID_LENGTH ->
  exists pk, to_db_partition_key H n p = Some pk /\ from_db_partition_key pk = Some (n, p).
Proof. exact roundtrip_partition. Qed.
Theorem C16_roundtrip_field : forall f,
  exists db, field_to_db_sort_key f = Some db /\ field_from_db_sort_key db = Some f.
Proof. exact roundtrip_field. Qed.
Theorem C16_roundtrip_map : forall H, HashLen H -> forall k,
  exists db, map_to_db_sort_key H k = Some db /\ map_from_db_sort_key db = Some k.
Proof. exact roundtrip_map. Qed.
Theorem C16_roundtrip_sorted : forall H, HashLen H -> forall p k, length p = 2%nat ->
  exists db, sorted_to_db_sort_key H p k = Some db /\ sorted_from_db_sort_key db = Some (p, k).
Proof. exact roundtrip_sorted. Qed.
(* the dispatching to_db_sort_key / from_db_sort_key::<K> pair, all three kinds *)
Theorem C16_roundtrip_sort_key : forall H, HashLen H -> forall key, key_wf key ->
  exists db, to_db_sort_key H key = Some db /\ from_db_sort_key (kind_of key) db = Some key.
Proof. exact roundtrip_sort_key. Qed.

(* ---- distinct logical keys never share a database key ---- *)
Theorem C16_injective_node : forall H, HashLen H -> forall n1 n2 db,
  to_db_node_key H n1 = Some db -> to_db_node_key H n2 = Some db -> n1 = n2.
Proof. exact node_key_inj. Qed.
Theorem C16_injective_sort_key : forall H, HashLen H -> forall k1 k2 db,
  key_wf k1 -> key_wf k2 -> kind_of k1 = kind_of k2 ->
  to_db_sort_key H k1 = Some db -> to_db_sort_key H k2 = Some db -> k1 = k2.
Proof. exact sort_key_inj_same_kind. Qed.
(* across kinds: a field key collides with nothing (length 1 vs >= 20) *)
Theorem C16_injective_field_vs_other : forall H, HashLen H -> forall f k2 db,
  to_db_sort_key H (KField f) = Some db -> to_db_sort_key H k2 = Some db -> k2 = KField f.
Proof. exact field_vs_other. Qed.
(* the full (entity, partition, substate key) mapping *)
Theorem C16_injective : forall H, HashLen H -> forall n1 p1 k1 n2 p2 k2 pk db,
  key_wf k1 -> key_wf k2 -> kind_of k1 = kind_of k2 ->
  to_db_partition_key H n1 p1 = Some pk -> to_db_partition_key H n2 p2 = Some pk ->
  to_db_sort_key H k1 = Some db -> to_db_sort_key H k2 = Some db ->
  n1 = n2 /\ p1 = p2 /\ k1 = k2.
Proof. exact full_key_inj. Qed.

(* across kinds, Map vs Sorted: a shared database key forces an 18-byte overlap of two hash prefixes
   (hp H x = the 20-byte hash prefix of x) ... *)
Theorem C16_map_vs_sorted_collision : forall H, HashLen H -> forall k p k' db, length p = 2%nat ->
  to_db_sort_key H (KMap k) = Some db -> to_db_sort_key H (KSorted p k') = Some db ->
  k = skipn 18 (hp H k') ++ k' /\ p = firstn 2 (hp H k) /\ skipn 2 (hp H k) = firstn 18 (hp H k').
Proof. exact map_vs_sorted_collision. Qed.
(* ... so under the explicit hash hypothesis NoShiftedOverlap (no k' whose hash prefix overlaps, shifted by
   two bytes, the hash prefix of its own last-two-prefix-bytes ++ k') distinct logical sort keys of ANY
   kinds never share a database key *)
Theorem C16_injective_all_kinds : forall H, HashLen H -> NoShiftedOverlap H -> forall k1 k2 db,
  key_wf k1 -> key_wf k2 -> to_db_sort_key H k1 = Some db -> to_db_sort_key H k2 = Some db -> k1 = k2.
Proof. exact sort_key_inj_all_kinds. Qed.
Theorem C16_hash_hypotheses_satisfiable :
  let H := fun _ : bytes => [0; 0] ++ repeat 1 30 in HashLen H /\ NoShiftedOverlap H.
Proof. cbv zeta. split; [intro x; reflexivity|intro k'; vm_compute; discriminate]. Qed.

(* ---- sorted substates are ordered in the database first by their 2-byte sort prefix ---- *)
Theorem C16_sorted_prefix_order : forall H, HashLen H -> forall p1 k1 p2 k2 d1 d2,
  length p1 = 2%nat -> length p2 = 2%nat ->
  sorted_to_db_sort_key H p1 k1 = Some d1 -> sorted_to_db_sort_key H p2 k2 = Some d2 ->
  blt p1 p2 = true -> blt d1 d2 = true.
Proof. exact sorted_prefix_order. Qed.
(* conversely the database order never inverts the prefix order *)
Theorem C16_sorted_order_reflects : forall H, HashLen H -> forall p1 k1 p2 k2 d1 d2,
  length p1 = 2%nat -> length p2 = 2%nat ->
  sorted_to_db_sort_key H p1 k1 = Some d1 -> sorted_to_db_sort_key H p2 k2 = Some d2 ->
  ble d1 d2 = true -> ble p1 p2 = true.
Proof. exact sorted_order_reflects. Qed.
(* the prefix read as a big-endian u16, as the engine's sorted indexes build it *)
Theorem C16_sorted_u16_order : forall H, HashLen H -> forall v w k1 k2 d1 d2, v < w -> w < 65536 ->
  sorted_to_db_sort_key H (be_encode 2 v) k1 = Some d1 ->
  sorted_to_db_sort_key H (be_encode 2 w) k2 = Some d2 -> blt d1 d2 = true.
Proof. exact sorted_u16_order. Qed.

(* ---- totality: to_ never panics; from_ does not panic on the image (by the round trips) but
        does on keys of the wrong length ---- *)
Theorem C16_to_db_total : forall H, HashLen H -> forall key, to_db_sort_key H key <> None.
Proof. exact to_db_sort_key_no_panic. Qed.
Theorem C16_from_db_total_on_image : forall H, HashLen H -> forall n key, length n = NODE_ID_LENGTH -> key_wf key ->
  (forall db, to_db_node_key H n = Some db -> from_db_node_key db <> None) /\
  (forall db, to_db_sort_key H key = Some db -> from_db_sort_key (kind_of key) db <> None).
Proof.
  intros H HL n key Ln W. split; intros db E.
  - destruct (roundtrip_node H HL n Ln) as [d [A B]]. congruence.
  - destruct (roundtrip_sort_key H HL key W) as [d [A B]]. congruence.
Qed.
Theorem C16_from_db_short_panics :
  (forall db, length db <> 50%nat -> from_db_node_key db = None) /\
  field_from_db_sort_key [] = None /\
  (forall db, (length db < 20)%nat -> map_from_db_sort_key db = None) /\
  (forall db, (length db < 22)%nat -> sorted_from_db_sort_key db = None).
Proof.
  split; [exact from_node_key_wrong_length|]. split; [exact from_field_key_empty|].
  split; [exact from_map_key_short|exact from_sorted_key_short].
Qed.

(* non-vacuity: a hash of the right length exists, and on it concrete keys map as expected *)
Example C16_nonvacuous :
  let H := fun x : bytes => firstn 32 (x ++ repeat 7 32) in
  HashLen H /\
  sorted_to_db_sort_key H [0; 255] [1; 2] = Some ([0; 255] ++ [1; 2] ++ repeat 7 18 ++ [1; 2]) /\
  sorted_to_db_sort_key H [1; 0] [] = Some ([1; 0] ++ repeat 7 20) /\
  (exists d1 d2, sorted_to_db_sort_key H [0; 255] [1; 2] = Some d1 /\ sorted_to_db_sort_key H [1; 0] [] = Some d2 /\ blt d1 d2 = true).
Proof.
  split.
  - intro x. rewrite firstn_length, app_length, repeat_length. unfold HASH_LENGTH. apply Nat.min_l. apply Nat.le_add_l.
  - split; [vm_compute; reflexivity|]. split; [vm_compute; reflexivity|].
    eexists. eexists. split; [vm_compute; reflexivity|]. split; vm_compute; reflexivity.
Qed.

Print Assumptions C16_roundtrip_node.
Print Assumptions C16_roundtrip_partition.
Print Assumptions C16_roundtrip_field.
Print Assumptions C16_roundtrip_map.
Print Assumptions C16_roundtrip_sorted.
Print Assumptions C16_roundtrip_sort_key.
Print Assumptions C16_injective_node.
Print Assumptions C16_injective_sort_key.
Print Assumptions C16_injective_field_vs_other.
Print Assumptions C16_injective.
Print Assumptions C16_sorted_prefix_order.
Print Assumptions C16_sorted_order_reflects.
Print Assumptions C16_sorted_u16_order.
Print Assumptions C16_to_db_total.
Print Assumptions C16_from_db_total_on_image.
Print Assumptions C16_from_db_short_panics.
Print Assumptions C16_nonvacuous.
Print Assumptions C16_map_vs_sorted_collision.
Print Assumptions C16_injective_all_kinds.
Print Assumptions C16_hash_hypotheses_satisfiable.
