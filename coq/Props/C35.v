(* C35 — Subintent structure validation accepts exactly well-formed trees. Property theorems only.
   Model: RV.Model.C35_IntentTree (validate_intent_relationships STEP 1-4 + the yield-count loop of
   validate_intents_and_structure, as written).  `WellFormed`, `depth_of`, `yields_match`, `declared`
   and the hypotheses `root_not_placeholder`, `root_fresh`, `summaries_cover` are defined at the end
   of the model file.

   Hypotheses, all visible in the statements:
   - root_not_placeholder: the root intent hash is not IntentHash::Transaction(0^32), the value the code
     uses as "no parent yet" (PLACEHOLDER_PARENT).  Without it the statement is false for the code:
     see C35_placeholder_root_counterexample.
   - root_fresh: the root is not also listed among the non-root subintents (for a real partial
     transaction that would need a subintent whose hash is contained in one of its own descendants).
   - effective_max t = Some maxd: `max_subintent_depth - 1` does not underflow (root subintent with a
     configured depth of 0 panics in a build with overflow checks: C35_depth_underflow_panics). *)
From Coq Require Import List NArith Bool.
Import ListNotations.
Require Import RV.Model.C35_IntentTree RV.Proof.C35_IntentTree.
Open Scope N_scope.

(* accepted  <->  pairwise distinct /\ every declared child present /\ every subintent declared as a
   child exactly once /\ every subintent reachable from the root within maxd /\ yield counts match *)
Theorem C35_accept_iff_tree : forall t maxd,
  root_not_placeholder t -> root_fresh t -> effective_max t = Some maxd ->
  (accepted t <-> WellFormed t maxd).
Proof. exact accept_iff_tree. Qed.

(* the STEP 3 loop never needs more iterations than there are subintents *)
Theorem C35_worklist_terminates : forall t, root_not_placeholder t -> validate t <> OutOfFuel.
Proof. exact worklist_terminates. Qed.

(* and more fuel never changes any other result (so the bound is not what produces the verdict) *)
Theorem C35_fuel_irrelevant : forall t f k,
  validate_with f t <> OutOfFuel -> validate_with (f + k) t = validate_with f t.
Proof. exact fuel_irrelevant. Qed.

(* none of the unwrap()s on index-map lookups can fail *)
Theorem C35_no_panic : forall t maxd,
  root_not_placeholder t -> root_fresh t -> effective_max t = Some maxd -> summaries_cover t ->
  validate t <> Panic.
Proof. exact no_panic. Qed.

(* in an accepted tree the depth of a subintent is unique: no subintent is its own descendant
   (no cycles), on top of everything being reachable *)
Theorem C35_depth_unique : forall t maxd,
  root_not_placeholder t -> root_fresh t -> effective_max t = Some maxd -> accepted t ->
  forall h d d', depth_of t h d -> depth_of t h d' -> d = d'.
Proof. exact depth_unique. Qed.

(* on acceptance the relationship details handed on (IntentRelationships) are exactly the declared
   structure: children as positions in the subintent list, every subintent's recorded parent is an
   intent that declares it, its recorded depth is its distance from the root *)
Theorem C35_accept_details : forall t maxd r ps ds chs,
  root_not_placeholder t -> effective_max t = Some maxd ->
  validate t = Accept r ps ds chs ->
  r = map (pos (hashes_of t)) (i_children (t_root t)) /\
  chs = map (fun s => map (pos (hashes_of t)) (i_children (s_intent s))) (t_subs t) /\
  forall k h, nth_error (hashes_of t) k = Some h ->
    exists p d, nth_error ps k = Some p /\ In (p, h) (edges t) /\
                nth_error ds k = Some (N.of_nat d) /\ depth_of t h d.
Proof. exact accept_details. Qed.

(* ---- extension: intents whose own validation can fail, reference totals (validate_intents_and_structure
   around the structure check).  `validate_full`, `intent_ok`, `total_references` are in the model file. ---- *)
(* accepted <-> well-formed tree /\ every intent's own validation passes (references within the per-intent
   limit, no other error) /\ the saturating total of references is within max_total_references *)
Theorem C35_full_accept_iff : forall f maxd,
  root_not_placeholder (f_tree f) -> root_fresh (f_tree f) -> effective_max (f_tree f) = Some maxd ->
  length (f_sub_vs f) = length (t_subs (f_tree f)) ->
  (full_accepted f <->
   WellFormed (f_tree f) maxd /\
   Forall (intent_ok (f_max_references_per_intent f)) (f_root_v f :: f_sub_vs f) /\
   total_references f <= f_max_total_references f).
Proof. exact full_accept_iff. Qed.
(* order of the verdicts: structure errors first, whatever the intents do; then the root intent; then the
   first failing subintent in list order (with its index and hash); then the reference total *)
Theorem C35_full_structure_first : forall f e,
  relationships (f_tree f) = inl e -> validate_full f = FStructure e.
Proof. exact full_structure_first. Qed.
Theorem C35_full_first_failure : forall f rel,
  relationships (f_tree f) = inr rel ->
  (forall e, run_intent (f_max_references_per_intent f) 0 (f_root_v f) = inl e ->
             validate_full f = FIntent FRoot e) /\
  (forall t1 l e, run_intent (f_max_references_per_intent f) 0 (f_root_v f) = inr t1 ->
             run_subs (f_max_references_per_intent f) 0 (hashes_of (f_tree f)) (f_sub_vs f) t1 = inl (l, e) ->
             validate_full f = FIntent l e /\
             exists k h v, nth_error (hashes_of (f_tree f)) k = Some h /\ nth_error (f_sub_vs f) k = Some v /\
                           l = FNonRoot k h /\ Forall (intent_ok (f_max_references_per_intent f)) (firstn k (f_sub_vs f)) /\
                           ~ intent_ok (f_max_references_per_intent f) v) /\
  (Forall (intent_ok (f_max_references_per_intent f)) (f_root_v f :: f_sub_vs f) ->
   length (f_sub_vs f) = length (t_subs (f_tree f)) ->
   f_max_total_references f < total_references f ->
   validate_full f = FIntent FAcross (TooManyReferences (total_references f) (f_max_total_references f))).
Proof. exact full_first_failure. Qed.
(* the total is usize::saturating_add of the counts = min(sum, usize::MAX) *)
Theorem C35_total_references_saturating : forall f,
  total_references f = N.min (fold_right N.add 0 (map v_refs (f_root_v f :: f_sub_vs f))) USIZE_MAX.
Proof. exact total_references_saturating. Qed.
(* when every intent passes and the total is within its limit the verdict is that of the base model,
   so every theorem above about `validate` transfers *)
Theorem C35_full_refines_structure : forall f,
  Forall (intent_ok (f_max_references_per_intent f)) (f_root_v f :: f_sub_vs f) ->
  length (f_sub_vs f) = length (t_subs (f_tree f)) ->
  total_references f <= f_max_total_references f ->
  validate_full f = FStructure (validate (f_tree f)).
Proof. exact full_refines_structure. Qed.

(* --- concrete instances --- *)
Definition mk (h : N) (cs : list N) (py : N) (cy : list (N * N)) : sub :=
  Build_sub h (Build_intent cs (Build_summary py cy)).
(* root -> {3, 1}; 3 -> {2}; 2 -> {4}; listed in the order 1,2,3,4; depth 3 = the limit *)
Definition ex_tree : tree :=
  Build_tree (ITx 77) (Build_intent [3; 1] (Build_summary 0 [(3, 2); (1, 0)]))
    [mk 1 [] 0 []; mk 2 [4] 1 [(4, 3)]; mk 3 [2] 2 [(2, 1)]; mk 4 [] 3 []] 3.

Example C35_nonvacuous :
  root_not_placeholder ex_tree /\ root_fresh ex_tree /\ effective_max ex_tree = Some 3 /\
  summaries_cover ex_tree /\
  validate ex_tree = Accept [2%nat; 0%nat] [ITx 77; ISub 3; ITx 77; ISub 2] [1; 2; 1; 3]
                            [[]; [3%nat]; [1%nat]; []] /\
  WellFormed ex_tree 3 /\
  (* one level too deep for a limit of 2, an island cycle, a second parent: all rejected *)
  validate (Build_tree (ITx 77) (t_root ex_tree) (t_subs ex_tree) 2)
    = Reject SubintentExceedsMaxDepth (NonRoot 3 4) /\
  validate (Build_tree (ITx 77) (Build_intent [] (Build_summary 0 []))
              [mk 1 [2] 0 [(2, 0)]; mk 2 [1] 0 [(1, 0)]] 3)
    = Reject SubintentIsNotReachable (NonRoot 0 1) /\
  validate (Build_tree (ITx 77) (Build_intent [1; 2] (Build_summary 0 [(1, 0); (2, 0)]))
              [mk 1 [2] 0 [(2, 0)]; mk 2 [] 0 []] 3)
    = Reject SubintentHasMultipleParents (NonRoot 1 2).
Proof.
  assert (A : validate ex_tree = Accept [2%nat; 0%nat] [ITx 77; ISub 3; ITx 77; ISub 2] [1; 2; 1; 3]
                                        [[]; [3%nat]; [1%nat]; []]) by (vm_compute; reflexivity).
  assert (R : root_not_placeholder ex_tree) by discriminate.
  assert (F : root_fresh ex_tree) by (intros h _; discriminate).
  assert (M : effective_max ex_tree = Some 3) by reflexivity.
  assert (C : summaries_cover ex_tree).
  { split.
    - intros c [<-|[<-|[]]]; cbn; discriminate.
    - intros s [<-|[<-|[<-|[<-|[]]]]] c; cbn; intros H;
        repeat (destruct H as [<-|H]; [cbn; discriminate|]); destruct H. }
  assert (W : WellFormed ex_tree 3).
  { apply (proj1 (C35_accept_iff_tree ex_tree 3 R F M)). unfold accepted. rewrite A. eauto 6. }
  split; [exact R|]. split; [exact F|]. split; [exact M|]. split; [exact C|]. split; [exact A|].
  split; [exact W|]. split; [vm_compute; reflexivity|]. split; vm_compute; reflexivity.
Qed.

(* why root_not_placeholder is needed: with the all-zero transaction-intent hash as root, the code's
   "parent == PLACEHOLDER_PARENT" test cannot see the first assignment, a child declared twice by the
   root is accepted (the work list simply visits it twice).  Reaching this on a real transaction needs
   a Blake2b-256 preimage of 0^32, so it is recorded as a hypothesis, not as a finding. *)
Theorem C35_placeholder_root_counterexample :
  exists t, root_fresh t /\ effective_max t = Some 3 /\ summaries_cover t /\
            (exists r p d c, validate_with 10 t = Accept r p d c) /\ ~ WellFormed t 3.
Proof.
  exists (Build_tree (ITx 0) (Build_intent [1; 1] (Build_summary 0 [(1, 0)])) [mk 1 [] 0 []] 3).
  split; [intros h _; discriminate|]. split; [reflexivity|]. split.
  { split; [intros c [<-|[<-|[]]]; cbn; discriminate|]. intros s [<-|[]] c []. }
  split; [vm_compute; eauto 6|].
  intros (_ & _ & H & _). specialize (H 1 (or_introl eq_refl)). vm_compute in H. discriminate.
Qed.

(* `self.config.max_subintent_depth - 1` with a subintent root and a configured depth of 0
   (the value in TransactionValidationConfig::babylon()) underflows *)
Theorem C35_depth_underflow_panics :
  validate (Build_tree (ISub 9) (Build_intent [] (Build_summary 0 [])) [] 0) = Panic.
Proof. vm_compute; reflexivity. Qed.

Example C35_full_nonvacuous :
  let ok := Build_iverdict 2 None in
  (* saturation: usize::MAX + 5 references count as usize::MAX, which is within a limit of usize::MAX *)
  validate_full (Build_full ex_tree (Build_iverdict USIZE_MAX None) [ok; ok; Build_iverdict 5 None; ok] USIZE_MAX USIZE_MAX)
    = FStructure (validate ex_tree) /\
  validate_full (Build_full ex_tree ok [ok; Build_iverdict 2 (Some 7); Build_iverdict 9 None; ok] 4 100)
    = FIntent (FNonRoot 1 2) (IntentFailed 7) /\
  validate_full (Build_full ex_tree ok [ok; ok; Build_iverdict 5 (Some 7); ok] 4 100)
    = FIntent (FNonRoot 2 3) (TooManyReferences 5 4) /\
  validate_full (Build_full ex_tree ok [ok; ok; ok; ok] 4 9)
    = FIntent FAcross (TooManyReferences 10 9) /\
  full_accepted (Build_full ex_tree ok [ok; ok; ok; ok] 4 10).
Proof.
  cbv zeta. split; [vm_compute; reflexivity|]. split; [vm_compute; reflexivity|].
  split; [vm_compute; reflexivity|]. split; [vm_compute; reflexivity|].
  unfold full_accepted. vm_compute. eauto 6.
Qed.

Print Assumptions C35_accept_iff_tree.
Print Assumptions C35_full_accept_iff.
Print Assumptions C35_full_first_failure.
Print Assumptions C35_worklist_terminates.
Print Assumptions C35_fuel_irrelevant.
Print Assumptions C35_no_panic.
Print Assumptions C35_depth_unique.
Print Assumptions C35_accept_details.
Print Assumptions C35_nonvacuous.
