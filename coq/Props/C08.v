(* C08 — Protected calls succeed exactly when the access rule is satisfied. Property theorems only.
   `verify` (Model/C08_Auth.v) is the implementation-shaped evaluator (short-circuit loops, CountOf
   countdown, zone traversal order local implicit -> global caller chain -> parent chain);
   `Sat` (Proof/C08_Auth.v) is the declarative meaning of a rule over the visible zones. *)
From Coq Require Import List ZArith NArith Bool.
Import ListNotations.
Require Import RV.Model.C08_Auth RV.Proof.C08_Auth.
Open Scope N_scope.

(* for every rule tree and every auth zone stack, the evaluator authorizes iff the rule is
   satisfied by the badges visible to the caller *)
Theorem C08_verify_iff_sat : forall a r, verify a r = true <-> Sat (visible a) r.
Proof. exact verify_iff_sat. Qed.

(* what "visible" and "satisfied" mean, pinned here so that the statement above cannot drift *)
Theorem C08_sat_meaning : forall V,
  (forall x, SatB V (Require x) <-> HasBadge V x) /\
  (forall amt r, SatB V (AmountOf amt r) <-> exists z p, In z V /\ In p (z_proofs z) /\ p_res p = r /\ (amt <= p_amt p)%Z) /\
  (forall l, SatB V (AllOf l) <-> forall x, In x l -> HasBadge V x) /\
  (forall l, SatB V (AnyOf l) <-> exists x, In x l /\ HasBadge V x) /\
  (forall n l, SatB V (CountOf n l) <-> AtLeast (HasBadge V) (N.to_nat n) l) /\
  (forall l, SatC V (CAnyOf l) <-> exists c, In c l /\ SatC V c) /\
  (forall l, SatC V (CAllOf l) <-> forall c, In c l -> SatC V c) /\
  (Sat V AllowAll /\ ~ Sat V DenyAll).
Proof.
  intros V. repeat split; try tauto; cbn [SatB]; try (intros H; exact H).
  - apply Forall_forall.
  - apply Forall_forall.
  - apply Exists_exists.
  - apply Exists_exists.
  - induction l as [|x t IH]; cbn; [tauto|]. intros [H|H]; [exists x; auto|]. destruct (IH H) as [c [Hc Hs]]. exists c. auto.
  - induction l as [|x t IH]; cbn; [intros [c [[] _]]|]. intros [c [[->|Hc] Hs]]; [now left|right; apply IH; eauto].
  - induction l as [|x t IH]; cbn; [tauto|]. intros [H1 H2] c [->|Hc]; [assumption|apply IH; assumption].
  - induction l as [|x t IH]; cbn; [tauto|]. intros H. split; [apply H; now left|apply IH; intros c Hc; apply H; now right].
Qed.
Theorem C08_visible_zones : forall a,
  visible a =
  (match local_implicit a with [] => [] | li => [{| z_proofs := []; z_vres := []; z_vnf := li |}] end)
  ++ (match az_gc a with Some (_, _, c) => c | None => [] end) ++ az_parent a.
Proof. reflexivity. Qed.

(* a role-protected method: the role's own rule if assigned, else the owner rule; `_self_` means
   "the caller is this very global object"; a role list passes iff one of its roles does *)
Theorem C08_role_fallback : forall a addr roles owner key,
  (key <> SELF_ROLE -> forall r, role_find key roles = Some r -> verify_role a addr roles owner key = verify a r) /\
  (key <> SELF_ROLE -> role_find key roles = None -> verify_role a addr roles owner key = verify a owner) /\
  (verify_role a addr roles owner SELF_ROLE = true <-> HasBadge (visible a) (RNF (GC_RES, addr))).
Proof. exact role_fallback. Qed.
Theorem C08_role_list : forall a addr roles owner keys,
  verify_role_list a addr roles owner keys = true <->
  exists k, In k keys /\ Sat (visible a) (role_rule addr roles owner k).
Proof. exact role_list_iff. Qed.

(* adding proofs or badges to the visible zones never turns Authorized into Failed *)
Theorem C08_monotone : forall a a' r, Vle (visible a) (visible a') -> verify a r = true -> verify a' r = true.
Proof. exact monotone. Qed.

(* non-vacuity: a rule using count-of, amount-of and composition, a stack with a signature badge
   in the global caller's zone and a fungible proof in its parent; satisfied, and no longer
   satisfied when the proof is too small *)
Example C08_nonvacuous :
  let r := Protected (CAllOf [Basic (CountOf 2 [RNF (10, 0); RNF (10, 1); RRes 3]);
                              CAnyOf [Basic (AmountOf 5 1); Basic (Require (RNF (1000001, 9)))]]) in
  let z amt := {| az_pkg := Some 7; az_gc := Some (2, false,
                    [{| z_proofs := []; z_vres := []; z_vnf := [(10, 1)] |};
                     {| z_proofs := [{| p_res := 3; p_amt := 1; p_ids := [4] |}; {| p_res := 1; p_amt := amt; p_ids := [] |}]; z_vres := []; z_vnf := [] |}]);
                  az_parent := [] |} in
  verify (z 5%Z) r = true /\ verify (z 4%Z) r = false /\ Sat (visible (z 5%Z)) r.
Proof. split; [reflexivity|split; [reflexivity|apply verify_iff_sat; reflexivity]]. Qed.

Print Assumptions C08_verify_iff_sat.
Print Assumptions C08_sat_meaning.
Print Assumptions C08_visible_zones.
Print Assumptions C08_role_fallback.
Print Assumptions C08_role_list.
Print Assumptions C08_monotone.
