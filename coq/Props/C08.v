(* C08 — Protected calls succeed exactly when the access rule is satisfied. Property theorems only.
   `verify` (Model/C08_Auth.v) is the implementation-shaped evaluator (short-circuit loops, CountOf
   countdown, zone traversal order local implicit -> global caller chain -> parent chain);
   `Sat` (Proof/C08_Auth.v) is the declarative meaning of a rule over the visible zones. *)
From Coq Require Import List ZArith NArith Bool.
Import ListNotations.
Require Import RV.Model.C08_Auth RV.Proof.C08_Auth.
Open Scope N_scope.

(* for every rule tree and every auth zone stack, the evaluator authorizes iff the rule is
   satisfied by the badges visible to the caller *)
Theorem C08_verify_iff_sat : forall a r, verify a r = true <-> Sat (visible a) r.
Proof. exact verify_iff_sat. Qed.

(* what "visible" and "satisfied" mean, pinned here so that the statement above cannot drift *)
Theorem C08_sat_meaning : forall V,
  (forall x, SatB V (Require x) <-> HasBadge V x) /\
  (forall amt r, SatB V (AmountOf amt r) <-> exists z p, In z V /\ In p (z_proofs z) /\ p_res p = r /\ (amt <= p_amt p)%Z) /\
  (forall l, SatB V (AllOf l) <-> forall x, In x l -> HasBadge V x) /\
  (forall l, SatB V (AnyOf l) <-> exists x, In x l /\ HasBadge V x) /\
  (forall n l, SatB V (CountOf n l) <-> AtLeast (HasBadge V) (N.to_nat n) l) /\
  (forall l, SatC V (CAnyOf l) <-> exists c, In c l /\ SatC V c) /\
  (forall l, SatC V (CAllOf l) <-> forall c, In c l -> SatC V c) /\
  (Sat V AllowAll /\ ~ Sat V DenyAll).
Proof.
  intros V. repeat split; try tauto; cbn [SatB]; try (intros H; exact H).
  - apply Forall_forall.
  - apply Forall_forall.
  - apply Exists_exists.
  - apply Exists_exists.
  - induction l as [|x t IH]; cbn; [tauto|]. intros [H|H]; [exists x; auto|]. destruct (IH H) as [c [Hc Hs]]. exists c. auto.
  - induction l as [|x t IH]; cbn; [intros [c [[] _]]|]. intros [c [[->|Hc] Hs]]; [now left|right; apply IH; eauto].
  - induction l as [|x t IH]; cbn; [tauto|]. intros [H1 H2] c [->|Hc]; [assumption|apply IH; assumption].
  - induction l as [|x t IH]; cbn; [tauto|]. intros H. split; [apply H; now left|apply IH; intros c Hc; apply H; now right].
Qed.
Theorem C08_visible_zones : forall a,
  visible a =
  (match local_implicit a with [] => [] | li => [{| z_proofs := []; z_vres := []; z_vnf := li |}] end)
  ++ (match az_gc a with Some (_, _, c) => c | None => [] end) ++ az_parent a.
Proof. reflexivity. Qed.

(* a role-protected method: the role's own rule if assigned, else the owner rule; `_self_` means
   "the caller is this very global object"; a role list passes iff one of its roles does *)
Theorem C08_role_fallback : forall a addr roles owner key,
  (key <> SELF_ROLE -> forall r, role_find key roles = Some r -> verify_role a addr roles owner key = verify a r) /\
  (key <> SELF_ROLE -> role_find key roles = None -> verify_role a addr roles owner key = verify a owner) /\
  (verify_role a addr roles owner SELF_ROLE = true <-> HasBadge (visible a) (RNF (GC_RES, addr))).
Proof. exact role_fallback. Qed.
Theorem C08_role_list : forall a addr roles owner keys,
  verify_role_list a addr roles owner keys = true <->
  exists k, In k keys /\ Sat (visible a) (role_rule addr roles owner k).
Proof. exact role_list_iff. Qed.

(* adding proofs or badges to the visible zones never turns Authorized into Failed *)
Theorem C08_monotone : forall a a' r, Vle (visible a) (visible a') -> verify a r = true -> verify a' r = true.
Proof. exact monotone. Qed.

(* ---- construction of the auth zone along a call chain (auth_module.rs create_auth_zone) ----
   A chain `l` lists the calls newest first: (actor of the caller, content of the caller's auth
   zone at the time of the call, receiver kind).  `build l` is the zone create_auth_zone gives the
   newest callee; `verify_call` checks that call against a role list. *)
(* the parent chain of the new zone = the zones of the callers of the same global context *)
Theorem C08_zone_parent : forall l, Forall not_root (same_ctx l) -> fz_par (build l) = map cdata (same_ctx l).
Proof. exact build_parent. Qed.
(* the global caller = the caller of the most recent context-changing call, with the zones of ITS context *)
Theorem C08_zone_global_caller : forall l, Forall global_caller_kind l ->
  fz_gc (build l) =
  match from_barrier l with
  | [] => None
  | b :: t => Some (caller_id (ccaller b), false, cdata b :: map cdata (same_ctx t))
  end.
Proof. exact build_gc. Qed.
(* so what a check sees is: the local implicit badges, the global caller's context, the own context *)
Theorem C08_zone_visible : forall l, Forall global_caller_kind l ->
  visible (to_azone (build l)) =
  (match local_implicit (to_azone (build l)) with [] => [] | li => [{| z_proofs := []; z_vres := []; z_vnf := li |}] end)
  ++ (match from_barrier l with [] => [] | b :: t => cdata b :: map cdata (same_ctx t) end)
  ++ map cdata (same_ctx l).
Proof. exact visible_of_chain. Qed.
Theorem C08_zone_local_implicit : forall c d r t, global_caller_kind (c, d, r) -> Forall global_caller_kind t ->
  local_implicit (to_azone (build ((c, d, r) :: t))) =
  (match caller_pkg c with Some p => [(PKG_RES, p)] | None => [] end) ++
  (match from_barrier ((c, d, r) :: t) with [] => [] | b :: _ => [(GC_RES, caller_id (ccaller b))] end).
Proof. exact local_implicit_of_chain. Qed.
(* barrier: every visible zone is the local implicit one, or belongs to the own context, or to the
   context of the global caller — nothing older than the second most recent context change *)
Theorem C08_zone_barrier : forall l z, Forall global_caller_kind l -> In z (visible (to_azone (build l))) ->
  (z_proofs z = [] /\ z_vres z = [])
  \/ exists x, cdata x = z /\
       (In x (same_ctx l) \/ (exists t, from_barrier l = x :: t) \/ (exists b t, from_barrier l = b :: t /\ In x (same_ctx t))).
Proof. exact barrier. Qed.
(* callers that are not (under) a global object give no global caller; frame-owned callers give no badge *)
Theorem C08_zone_no_global_caller : forall c d r t,
  (c = CRoot \/ exists p, c = CMethod p ODirect \/ c = CMethod p OSubstateRef) ->
  fz_gc (build ((c, d, r) :: t)) = None.
Proof. exact build_gc_none. Qed.
Theorem C08_zone_frame_owned : forall p d r t,
  local_implicit (to_azone (build ((CMethod p OFrameOwned, d, r) :: t))) = [(PKG_RES, p)].
Proof. exact build_gc_frame_owned. Qed.
(* composition: a role-protected call at the end of any call chain is authorized iff some role of
   its list has a rule satisfied by what the construction makes visible *)
Theorem C08_call_authorized_iff : forall l addr roles owner keys,
  verify_call l addr roles owner keys = true <->
  exists k, In k keys /\ Sat (visible (to_azone (build l))) (role_rule addr roles owner k).
Proof. intros. unfold verify_call. apply role_list_iff. Qed.

Example C08_zone_nonvacuous :
  let tp := {| z_proofs := [{| p_res := 1; p_amt := 5; p_ids := [] |}]; z_vres := []; z_vnf := [(10, 0)] |} in
  let e := {| z_proofs := []; z_vres := []; z_vnf := [] |} in
  let l := [(CMethod 6 (OGlobal 4), e, RMethod false false); (CFunction 2 1, tp, RMethod true false); (CRoot, e, RFunction)] in
  let l2 := [(CMethod 12 (OGlobal 13), e, RMethod true false); (CFunction 2 1, tp, RMethod true false); (CRoot, e, RFunction)] in
  (* own vault of a global component: the transaction's badges stay visible *)
  verify_call l 77 [(7, Protected (Basic (Require (RNF (10, 0)))))] DenyAll [7] = true
  (* a second global component: they are behind the barrier, only the caller badge counts *)
  /\ verify_call l2 78 [(5, Protected (Basic (Require (RNF (10, 0)))))] DenyAll [5] = false
  /\ verify_call l2 78 [(5, Protected (Basic (Require (RNF (1000002, 13)))))] DenyAll [5] = true.
Proof. repeat split; reflexivity. Qed.

(* non-vacuity: a rule using count-of, amount-of and composition, a stack with a signature badge
   in the global caller's zone and a fungible proof in its parent; satisfied, and no longer
   satisfied when the proof is too small *)
Example C08_nonvacuous :
  let r := Protected (CAllOf [Basic (CountOf 2 [RNF (10, 0); RNF (10, 1); RRes 3]);
                              CAnyOf [Basic (AmountOf 5 1); Basic (Require (RNF (1000001, 9)))]]) in
  let z amt := {| az_pkg := Some 7; az_gc := Some (2, false,
                    [{| z_proofs := []; z_vres := []; z_vnf := [(10, 1)] |};
                     {| z_proofs := [{| p_res := 3; p_amt := 1; p_ids := [4] |}; {| p_res := 1; p_amt := amt; p_ids := [] |}]; z_vres := []; z_vnf := [] |}]);
                  az_parent := [] |} in
  verify (z 5%Z) r = true /\ verify (z 4%Z) r = false /\ Sat (visible (z 5%Z)) r.
Proof. split; [reflexivity|split; [reflexivity|apply verify_iff_sat; reflexivity]]. Qed.

Print Assumptions C08_verify_iff_sat.
Print Assumptions C08_sat_meaning.
Print Assumptions C08_visible_zones.
Print Assumptions C08_role_fallback.
Print Assumptions C08_role_list.
Print Assumptions C08_monotone.
Print Assumptions C08_zone_parent.
Print Assumptions C08_zone_global_caller.
Print Assumptions C08_zone_visible.
Print Assumptions C08_zone_local_implicit.
Print Assumptions C08_zone_barrier.
Print Assumptions C08_zone_no_global_caller.
Print Assumptions C08_zone_frame_owned.
Print Assumptions C08_call_authorized_iff.
