(* C07 — An intent can be committed at most once before it expires. Property theorems only.
   Model: Model/C07_Tracker.v (ring of partitions, Submit / NextEpoch / SystemCommit steps).
   Definitions used in the statements (Proof/C07_Tracker.v):
     TInv st      tracker invariant: parameters well-formed, start_epoch <= cur < start_epoch + epp,
                  start partition inside the ring;
     Margin st    cur + (ring length + 1) * epochs_per_partition <= u64::MAX (no u64 overflow in reach);
     Covers t m   m <= epochs_per_partition * (number of partitions - 1);
     Holds st h e while cur < e, the boot lookup for (hash h, expiry e) finds a committed status;
     valid_submit what the static validators guarantee (C07_validated_window). *)
From Coq Require Import List NArith Bool.
Import ListNotations.
Require Import RV.Model.C07_Tracker RV.Proof.C07_Tracker RV.Gen.C07_consts.
Open Scope N_scope.

(* Obligation over the constants generated from the code on every run: for every protocol version
   (ledger bootstrapped to it) and for every TransactionValidationConfig constructor, the stored ring
   parameters are well-formed and the ring minus one partition covers max_epoch_range. Breaks if
   someone shrinks the ring, the partition span, or enlarges the window. *)
Definition row_ok (v : N * N * N * N) : bool :=
  let '(lo, hi, e, m) := v in
  (lo <=? hi) && (hi <=? 255) && (hi - lo + 1 <=? 255) && (0 <? e) && (m <=? e * (hi - lo + 1 - 1)).
Theorem C07_ring_covers_window :
  forall lo hi e m c,
    In (lo, hi, e, m) c07_versions \/
    ((lo, hi, e) = (c07_p_lo, c07_p_hi, c07_epp) /\ In m c07_max_epoch_range_ctors) ->
    wf_params (tracker_new lo hi e c) /\ Covers (tracker_new lo hi e c) m.
Proof.
  assert (H1 : forallb row_ok c07_versions = true) by (vm_compute; reflexivity).
  assert (H2 : forallb (fun m => row_ok (c07_p_lo, c07_p_hi, c07_epp, m)) c07_max_epoch_range_ctors = true)
    by (vm_compute; reflexivity).
  intros lo hi e m c H.
  assert (Hr : row_ok (lo, hi, e, m) = true).
  { destruct H as [H|[H H']].
    - exact (proj1 (forallb_forall _ _) H1 _ H).
    - injection H as -> -> ->. exact (proj1 (forallb_forall _ _) H2 _ H'). }
  unfold row_ok in Hr. repeat (apply andb_true_iff in Hr; destruct Hr as [Hr ?]).
  unfold wf_params, Covers, num, tracker_new; cbn [p_lo p_hi epp].
  repeat match goal with
         | H : (_ <=? _) = true |- _ => apply N.leb_le in H
         | H : (_ <? _) = true |- _ => apply N.ltb_lt in H end.
  repeat split; assumption.
Qed.

(* the invariant is preserved by every step, and with it every still-effective replay record *)
Theorem C07_inv : forall st x h e,
  TInv st -> Margin (snd (do_step st x)) ->
  TInv (snd (do_step st x)) /\ (Holds st h e -> Holds (snd (do_step st x)) h e).
Proof. exact inv_step. Qed.

(* No replay. From any state satisfying the invariant, for every history `pre`, if a transaction
   commits (success or failure) and records nullification n (a transaction intent always, a subintent
   only on success), then after every further history `mid` (any number of epoch changes and other
   transactions), as long as the current epoch is below n's expiry, a transaction carrying a
   nullification with the same hash and expiry is never committed and leaves the state unchanged. *)
Theorem C07_no_replay : forall st0 pre sub oc ok st2 mid sub' oc' n n',
  TInv st0 ->
  do_step (exec st0 pre) (Submit sub oc) = (RCommit ok, st2) ->
  In n (s_nulls sub) -> recorded ok n = true ->
  let st3 := exec st2 mid in
  Margin st3 -> cur st3 < n_expiry n ->
  In n' (s_nulls sub') -> n_hash n' = n_hash n -> n_expiry n' = n_expiry n ->
  (forall ok', fst (do_step st3 (Submit sub' oc')) <> RCommit ok')
  /\ snd (do_step st3 (Submit sub' oc')) = st3.
Proof. exact no_replay. Qed.

(* the same single-intent transaction submitted again before its expiry is rejected with exactly
   IntentHashPreviouslyCommitted *)
Theorem C07_replay_rejected_reason : forall st0 pre s e k h oc ok st2 mid oc',
  TInv st0 ->
  let sub := mkSubmit s e [mkNull k h e] in
  do_step (exec st0 pre) (Submit sub oc) = (RCommit ok, st2) ->
  recorded ok (mkNull k h e) = true ->
  let st3 := exec st2 mid in
  Margin st3 -> cur st3 < e ->
  do_step st3 (Submit sub oc') = (RReject (PrevCommitted k h), st3).
Proof. exact replay_rejected_reason. Qed.

(* committed => inside the window; outside the window => rejected, nothing changes *)
Theorem C07_epoch_window : forall st sub oc,
  (forall ok st', do_step st (Submit sub oc) = (RCommit ok, st') -> s_start sub <= cur st < s_end sub)
  /\ (~ (s_start sub <= cur st < s_end sub) ->
      exists r, do_step st (Submit sub oc) = (RReject r, st) /\ (r = NotYetValid \/ r = NoLongerValid)).
Proof.
  intros st sub oc. split.
  - intros ok st' H. exact (epoch_window _ _ _ _ _ H).
  - exact (outside_window_rejected st sub oc).
Qed.

(* the static validators (header checks + cross-intent aggregation) produce executables whose
   nullification expiries lie inside (overall end, overall start + max_epoch_range] *)
Theorem C07_validated_window : forall m is sub,
  is <> [] -> to_submit m is = Some sub -> valid_submit m sub.
Proof. exact to_submit_valid. Qed.

(* No panic: under the invariant, when the ring covers the window, neither `expect`, neither assert of
   partition_for_expiry_epoch, nor any u8/u64 overflow is reachable by a validated transaction, an
   epoch change or a system commit. *)
Theorem C07_no_panic : forall st maxr x,
  TInv st -> Covers (trk st) maxr -> Margin st ->
  (forall sub oc, x = Submit sub oc -> valid_submit maxr sub) ->
  fst (do_step st x) <> RPanic.
Proof. exact no_panic. Qed.

(* non-vacuity: the genesis tracker with the generated constants satisfies the invariant; a concrete
   history commits an intent expiring at a partition boundary, crosses 100 epochs (one ring rotation
   step, partition 65 deleted), and the replay is still rejected; after expiry it is NoLongerValid *)
Fixpoint nexts (n : nat) : list step := match n with O => [] | S k => NextEpoch :: nexts k end.
Example C07_nonvacuous :
  let st0 := mkState 7 (tracker_new c07_p_lo c07_p_hi c07_epp 7) [] in
  let sub := mkSubmit 7 207 [mkNull KTx 1 207] in
  TInv st0 /\
  fst (run st0 ([Submit sub ExFailure] ++ nexts 150 ++ [Submit sub ExSuccess] ++ nexts 50 ++ [Submit sub ExSuccess]))
  = [RCommit false] ++ repeat (RCommit true) 150 ++ [RReject (PrevCommitted KTx 1)]
    ++ repeat (RCommit true) 50 ++ [RReject NoLongerValid]
  /\ start_partition (trk (exec st0 (Submit sub ExFailure :: nexts 150))) = 66.
Proof.
  split; [apply tracker_new_inv; vm_compute; congruence|].
  split; vm_compute; reflexivity.
Qed.

Print Assumptions C07_ring_covers_window.
Print Assumptions C07_inv.
Print Assumptions C07_no_replay.
Print Assumptions C07_replay_rejected_reason.
Print Assumptions C07_epoch_window.
Print Assumptions C07_validated_window.
Print Assumptions C07_no_panic.

(* theorem-level non-vacuity of C07_no_replay: a concrete instance satisfying every hypothesis (an
   intent expiring at epoch 207 commits as a failure at epoch 10, then 150 epoch changes including a
   partition rotation), to which the theorem is applied *)
Example C07_no_replay_nonvacuous :
  let st0 := mkState 7 (tracker_new c07_p_lo c07_p_hi c07_epp 7) [] in
  let n := mkNull KTx 1 207 in
  let sub := mkSubmit 7 207 [n] in
  exists st2,
    TInv st0 /\ do_step (exec st0 (nexts 3)) (Submit sub ExFailure) = (RCommit false, st2)
    /\ In n (s_nulls sub) /\ recorded false n = true
    /\ Margin (exec st2 (nexts 150)) /\ cur (exec st2 (nexts 150)) < n_expiry n
    /\ start_partition (trk (exec st2 (nexts 150))) = 66
    /\ (forall oc' ok', fst (do_step (exec st2 (nexts 150)) (Submit sub oc')) <> RCommit ok').
Proof.
  cbv zeta.
  destruct (do_step (exec (mkState 7 (tracker_new c07_p_lo c07_p_hi c07_epp 7) []) (nexts 3))
                    (Submit (mkSubmit 7 207 [mkNull KTx 1 207]) ExFailure)) as [r st2] eqn:E.
  exists st2.
  assert (Hi : TInv (mkState 7 (tracker_new c07_p_lo c07_p_hi c07_epp 7) []))
    by (apply tracker_new_inv; vm_compute; congruence).
  assert (Hr : r = RCommit false) by (vm_compute in E; injection E as <- _; reflexivity).
  subst r.
  assert (Hm : Margin (exec st2 (nexts 150))) by (vm_compute in E; injection E as <-; vm_compute; discriminate).
  assert (Hc : cur (exec st2 (nexts 150)) < 207) by (vm_compute in E; injection E as <-; vm_compute; reflexivity).
  assert (Hp : start_partition (trk (exec st2 (nexts 150))) = 66)
    by (vm_compute in E; injection E as <-; vm_compute; reflexivity).
  split; [exact Hi|]. split; [reflexivity|]. split; [left; reflexivity|]. split; [reflexivity|].
  split; [exact Hm|]. split; [exact Hc|]. split; [exact Hp|].
  intros oc' ok'.
  exact (proj1 (C07_no_replay _ (nexts 3) _ ExFailure false st2 (nexts 150)
                  (mkSubmit 7 207 [mkNull KTx 1 207]) oc' (mkNull KTx 1 207) (mkNull KTx 1 207)
                  Hi E (or_introl eq_refl) eq_refl Hm Hc (or_introl eq_refl) eq_refl eq_refl) ok').
Qed.

(* What a commit changes in the status store. The writes create or replace only entries keyed by a
   recorded nullification of the committing transaction, in the partition the tracker assigns to its
   expiry; then either nothing else changes, or the tracker advances by one partition and EXACTLY the
   recycled partition (the old start partition) is emptied: it has no record left and every record of
   every other partition is kept (the per-partition record counts are what the correspondence run reads
   back from the database after every step). *)
Theorem C07_rotation_deletes_exactly : forall st ne ns ok st',
  update_tracker st ne ns ok = Some st' ->
  exists s1, write_nulls (trk st) (store st) ok ns = Some s1 /\
    ((ne < start_epoch (trk st) + epp (trk st) /\ trk st' = trk st /\ store st' = s1)
     \/ (start_epoch (trk st) + epp (trk st) <= ne
         /\ advance (trk st) = Some (trk st', start_partition (trk st))
         /\ (forall r, In r (store st') <-> In r s1 /\ fst (fst r) <> start_partition (trk st))
         /\ count_part (store st') (start_partition (trk st)) = 0%nat
         /\ (forall p, p <> start_partition (trk st) -> count_part (store st') p = count_part s1 p))).
Proof. exact update_tracker_deletes. Qed.

Theorem C07_writes_only_own_keys : forall t ok ns s s',
  write_nulls t s ok ns = Some s' ->
  (forall r, In r s' ->
     In r s \/ exists n, In n ns /\ recorded ok n = true
                         /\ partition_for t (n_expiry n) = PSome (fst (fst r)) /\ snd (fst r) = n_hash n)
  /\ (forall r, In r s ->
     In r s' \/ exists n, In n ns /\ recorded ok n = true
                         /\ partition_for t (n_expiry n) = PSome (fst (fst r)) /\ snd (fst r) = n_hash n).
Proof. exact write_nulls_only_keys. Qed.

(* the Cancelled status is never written: from a store without it no step produces it and
   IntentHashPreviouslyCancelled is never returned *)
Theorem C07_never_cancelled : forall st x,
  NoCancelled (store st) ->
  NoCancelled (store (snd (do_step st x)))
  /\ forall k h, fst (do_step st x) <> RReject (PrevCancelled k h).
Proof. exact no_cancelled_step. Qed.

Print Assumptions C07_rotation_deletes_exactly.
Print Assumptions C07_writes_only_own_keys.
Print Assumptions C07_never_cancelled.
