(* C13 — Substate locks are exclusive for writers. Property theorems only. *)
From Coq Require Import List NArith Bool.
Import ListNotations.
Require Import RV.Model.C13_Locks RV.Proof.C13_Locks.
Open Scope N_scope.

(* For every request sequence (any length, any substates), the lock table of the code behaves
   exactly like the abstract reader/writer specification `spec_step`: same answer to every lock,
   unlock, get, is_locked and node_is_locked request, and the same panics. *)
Theorem C13_refines_rw : forall ops, run locks_new ops = spec_run spec_new ops.
Proof. exact refines_rw. Qed.

(* what the specification grants: read iff no open writer on the substate; write iff no open handle *)
Theorem C13_lock_granted_iff : forall sp k ro d,
  s_next sp <> U32_MAX ->
  (snd (spec_step sp (OpLock k ro d)) <> OutLock None <->
   if ro then forall x, In x (open sp) -> oh_key x = k -> oh_ro x = true
   else forall x, In x (open sp) -> oh_key x <> k).
Proof. exact lock_granted_iff. Qed.

(* in every reachable state a write handle is the only open handle on its substate *)
Theorem C13_writer_exclusive : forall ops sp,
  spec_exec spec_new ops = Some sp -> WriterExclusive (open sp).
Proof. exact writer_exclusive. Qed.

Theorem C13_readers_coexist : forall sp k d,
  existsb (writer_on k) (open sp) = false -> s_next sp <> U32_MAX ->
  snd (spec_step sp (OpLock k true d)) = OutLock (Some (s_next sp)).
Proof. exact readers_coexist. Qed.

(* a handle is usable exactly while open; handle ids are never reused *)
Theorem C13_handle_lifetime : forall sp h,
  snd (spec_step sp (OpGet h)) <> OutPanic <-> exists x, In x (open sp) /\ oh_id x = h.
Proof. exact handle_usable_iff_open. Qed.
Theorem C13_handles_never_reused : forall ops sp,
  spec_exec spec_new ops = Some sp ->
  NoDup (map oh_id (open sp)) /\ forall x, In x (open sp) -> oh_id x < s_next sp.
Proof. exact handles_never_reused. Qed.

Theorem C13_node_locked_iff : forall sp n,
  snd (spec_step sp (OpNodeIsLocked n)) = OutBool true <->
  exists x, In x (open sp) /\ node_of (oh_key x) = n.
Proof. exact node_locked_iff. Qed.

(* a substate is reported locked exactly while some handle on it is open *)
Theorem C13_substate_locked_iff : forall sp k,
  snd (spec_step sp (OpIsLocked k)) = OutBool true <-> exists x, In x (open sp) /\ oh_key x = k.
Proof. exact substate_locked_iff. Qed.

(* the counters of the implementation never underflow when unlock is applied to an open handle *)
Theorem C13_no_underflow : forall ops s h,
  exec locks_new ops = Some s -> find_handle h (handles s) <> None ->
  snd (step s (OpUnlock h)) <> OutPanic.
Proof. exact unlock_open_no_panic. Qed.

(* "usable exactly from open until close", over whole histories: once an open handle has been
   unlocked in a reachable state, no later history makes it usable again — get and unlock on it
   panic in every state reachable afterwards and no later lock returns its id *)
Theorem C13_closed_handle_stays_closed : forall ops sp h sp' rest sp'',
  spec_exec spec_new ops = Some sp ->
  fst (spec_step sp (OpUnlock h)) = Some sp' ->
  spec_exec sp' rest = Some sp'' ->
  snd (spec_step sp'' (OpGet h)) = OutPanic /\ snd (spec_step sp'' (OpUnlock h)) = OutPanic
  /\ forall k ro d, snd (spec_step sp'' (OpLock k ro d)) <> OutLock (Some h).
Proof. exact closed_handle_stays_closed. Qed.

(* a handle id that was never handed out is not usable in any reachable state *)
Theorem C13_unissued_handle_unusable : forall ops sp h,
  spec_exec spec_new ops = Some sp -> s_next sp <= h ->
  snd (spec_step sp (OpGet h)) = OutPanic.
Proof. exact unissued_handle_unusable. Qed.

(* non-vacuity of the premises of C13_closed_handle_stays_closed: handle 0 is unlocked after two
   locks, then three more requests run; the same history on the implementation model panics on get *)
Example C13_closed_nonvacuous :
  let ops := [OpLock (1,0,0) true 7; OpLock (1,0,1) false 9] in
  let rest := [OpLock (1,0,0) false 3; OpUnlock 1; OpLock (1,0,1) true 4] in
  (exists sp sp' sp'', spec_exec spec_new ops = Some sp /\
     fst (spec_step sp (OpUnlock 0)) = Some sp' /\ spec_exec sp' rest = Some sp'')
  /\ run locks_new (ops ++ [OpUnlock 0] ++ rest ++ [OpGet 0]) =
     [OutLock (Some 0); OutLock (Some 1); OutEntry (1,0,0) 7; OutLock (Some 2);
      OutEntry (1,0,1) 9; OutLock (Some 3); OutPanic].
Proof.
  split; [do 3 eexists; repeat split; vm_compute; reflexivity|vm_compute; reflexivity].
Qed.

(* non-vacuity: a concrete history reaching a state with two readers on one substate and a writer
   on another, on which the premises above are met *)
Example C13_nonvacuous :
  let ops := [OpLock (1,0,0) true 7; OpLock (1,0,0) true 8; OpLock (1,0,1) false 9;
              OpLock (1,0,0) false 1; OpLock (1,0,1) true 2; OpUnlock 0; OpNodeIsLocked 1] in
  run locks_new ops =
    [OutLock (Some 0); OutLock (Some 1); OutLock (Some 2); OutLock None; OutLock None;
     OutEntry (1,0,0) 7; OutBool true]
  /\ exists sp, spec_exec spec_new ops = Some sp /\ length (open sp) = 2%nat.
Proof. split; [vm_compute; reflexivity|eexists; split; vm_compute; reflexivity]. Qed.

Print Assumptions C13_refines_rw.
Print Assumptions C13_lock_granted_iff.
Print Assumptions C13_writer_exclusive.
Print Assumptions C13_readers_coexist.
Print Assumptions C13_handle_lifetime.
Print Assumptions C13_handles_never_reused.
Print Assumptions C13_node_locked_iff.
Print Assumptions C13_no_underflow.
Print Assumptions C13_closed_handle_stays_closed.
Print Assumptions C13_unissued_handle_unusable.
Print Assumptions C13_substate_locked_iff.
