(* C51 — Locked state stays locked forever. Property theorems only.
   Model: Model/C51_Locked.v. A substate is (Option value, LockStatus); every write-type access
   (module method or blueprint code) first passes the auth module — represented by arbitrary
   booleans in `caller`, i.e. the theorems hold whoever calls and whatever badges are presented —
   and then opens the substate with MUTABLE, which the system layer refuses when it is Locked. *)
From Coq Require Import List NArith Bool.
Import ListNotations.
Require Import RV.Model.C51_Locked RV.Proof.C51_Locked RV.Gen.C51_lock_sites.
From Coq Require String.
Import String.StringSyntax.
Open Scope N_scope.

(* Locked is absorbing in every history: from any state in which substate k (object field,
   key-value entry, metadata entry or component-royalty entry) is locked, through any sequence of
   operations by any callers, k keeps exactly its value and its lock in every intermediate and in the
   final state, and no operation addressing k (write, remove, lock again) commits. *)
Theorem C51_locked_monotone : forall evs s k, locked_at s k ->
  get k (s_cells (final s evs)) = get k (s_cells s) /\
  (forall e, In e (run s evs) -> get k (s_cells (fst (fst (fst e)))) = get k (s_cells s) /\
                                get k (s_cells (snd (fst e))) = get k (s_cells s) /\
                                (addresses (snd (snd (fst (fst e)))) k = true -> snd e <> Ok)).
Proof. exact locked_monotone. Qed.

(* the same for the owner role: once its field is locked (lock_owner_role, or created Fixed/None)
   rule, updater and lock never change and no set_owner_role / lock_owner_role commits *)
Theorem C51_owner_locked_monotone : forall evs s, o_locked (s_owner s) = true ->
  s_owner (final s evs) = s_owner s /\
  (forall e, In e (run s evs) -> s_owner (snd (fst e)) = s_owner s /\
                                (is_owner_op (snd (snd (fst (fst e)))) = true -> snd e <> Ok)).
Proof. exact owner_locked_monotone. Qed.

(* how a substate becomes locked: a committed lock operation; lock_owner_role additionally sets the
   updater to None, after which the auth layer alone refuses every owner update by anyone *)
Theorem C51_lock_locks :
  (forall s c k, snd (step s c (OCell k SLock)) = Ok -> locked_at (fst (step s c (OCell k SLock))) k) /\
  (forall s c, snd (step s c OLockOwner) = Ok ->
     o_locked (s_owner (fst (step s c OLockOwner))) = true /\ o_updater (s_owner (fst (step s c OLockOwner))) = UNone /\
     o_rule (s_owner (fst (step s c OLockOwner))) = o_rule (s_owner s)) /\
  (forall s c o, o_updater (s_owner s) = UNone -> is_owner_op o = true -> snd (step s c o) = Fail EUnauthorized) /\
  (forall r, o_locked (create_owner r UNone) = true).
Proof. repeat split; [exact lock_locks|apply lock_owner_locks; assumption|apply lock_owner_locks; assumption|apply lock_owner_locks; assumption|exact owner_none_denies_all]. Qed.

(* THE LOCK WRITERS OF THE ENGINE, pinned. gen_c51 scans radix-engine/src on every run for everything that
   makes a substate Locked; the list below is the reviewed one. Each entry is an instance of a model
   cell (kind KField / KKvEntry / KMetadata / KRoyalty, or the owner role) being locked by `SLock`
   resp. being created with c_locked = true; C51_locked_monotone covers all of them. A new writer, or
   one that disappears (e.g. a burn that no longer tombstones, a lock method that no longer locks),
   breaks this theorem and must be reviewed.
     run-time lock calls (the only ones in the engine; no unlock primitive exists):
       metadata lock                 -> exercised (c51: resources and accounts)
       component royalty lock_royalty-> exercised (c51)
       non-fungible burn tombstone   -> exercised (c43)
       role assignment lock_owner_role (field_lock) -> exercised (c51)
     created immutable / locked:
       owner role created Fixed/None -> exercised (c51, set_owner_role / lock_owner_role refused)
       metadata entries created locked (MetadataInit; the `locked` flag is data, not a literal, so it
         is not in the scan) -> exercised (c51)
       component royalty accumulator, fungible divisibility / total supply, non-fungible id type /
         mutable fields / total supply, pool state, consensus manager configuration, package royalty
         field and the 8 package key-value collections (definitions, code, schemas, ...): the
         blueprints offer NO method that writes these substates, so there is nothing to attack from a
         transaction; covered by the theorem only. *)
Local Open Scope string_scope.
Definition reviewed_lock_sites : list (String.string * String.string * nat) := [
  ("field_created_immutable", "blueprints/consensus_manager/consensus_manager.rs", 1%nat);
  ("field_created_immutable", "blueprints/package/package.rs", 1%nat);
  ("field_created_immutable", "blueprints/pool/v1/v1_0/one_resource_pool_blueprint.rs", 1%nat);
  ("field_created_immutable", "blueprints/pool/v1/v1_0/two_resource_pool_blueprint.rs", 1%nat);
  ("field_created_immutable", "blueprints/pool/v1/v1_1/one_resource_pool_blueprint.rs", 1%nat);
  ("field_created_immutable", "blueprints/pool/v1/v1_1/two_resource_pool_blueprint.rs", 1%nat);
  ("field_created_immutable", "blueprints/resource/fungible/fungible_resource_manager.rs", 2%nat);
  ("field_created_immutable", "blueprints/resource/non_fungible/non_fungible_resource_manager.rs", 3%nat);
  ("field_created_immutable", "object_modules/role_assignment/package.rs", 1%nat);
  ("field_created_immutable", "object_modules/royalty/package.rs", 1%nat);
  ("field_lock_call", "object_modules/role_assignment/package.rs", 1%nat);
  ("kv_entry_created_locked", "blueprints/package/package.rs", 8%nat);
  ("kv_entry_lock_call", "blueprints/resource/non_fungible/non_fungible_resource_manager.rs", 1%nat);
  ("kv_entry_lock_call", "object_modules/metadata/package.rs", 1%nat);
  ("kv_entry_lock_call", "object_modules/royalty/package.rs", 1%nat)
].
Local Close Scope string_scope.
Theorem C51_lock_sites_pinned : c51_lock_sites = reviewed_lock_sites.
Proof. reflexivity. Qed.

(* non-vacuity: metadata key 7 set, locked, then set / remove / lock attempts by fully authorised
   callers fail and the value stays; owner role locked, then set by a caller satisfying the owner rule fails *)
Example C51_nonvacuous :
  let god := {| auth := true; owner_auth := true; is_object := true |} in
  let s0 := {| s_cells := []; s_owner := create_owner 1 UOwner |} in
  let evs := [(god, OCell (KMetadata, 7) (SWrite 5)); (god, OCell (KMetadata, 7) SLock);
              (god, OCell (KMetadata, 7) (SWrite 6)); (god, OCell (KMetadata, 7) SRemove);
              (god, OCell (KMetadata, 7) SLock); (god, OSetOwner 2); (god, OLockOwner); (god, OSetOwner 3)] in
  map (fun e => snd e) (run s0 evs) = [Ok; Ok; Fail ELocked; Fail ELocked; Fail ELocked; Ok; Ok; Fail EUnauthorized] /\
  get (KMetadata, 7) (s_cells (final s0 evs)) = {| c_val := Some 5; c_locked := true |} /\
  s_owner (final s0 evs) = {| o_rule := 2; o_updater := UNone; o_locked := true |}.
Proof. vm_compute. repeat split. Qed.

Print Assumptions C51_locked_monotone.
Print Assumptions C51_owner_locked_monotone.
Print Assumptions C51_lock_locks.
Print Assumptions C51_lock_sites_pinned.
