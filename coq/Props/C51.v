(* C51 — Locked state stays locked forever. Property theorems only.
   Model: Model/C51_Locked.v. A substate is (Option value, LockStatus); every write-type access
   (module method or blueprint code) first passes the auth module — represented by arbitrary
   booleans in `caller`, i.e. the theorems hold whoever calls and whatever badges are presented —
   and then opens the substate with MUTABLE, which the system layer refuses when it is Locked. *)
From Coq Require Import List NArith Bool.
Import ListNotations.
Require Import RV.Model.C51_Locked RV.Proof.C51_Locked.
Open Scope N_scope.

(* Locked is absorbing in every history: from any state in which substate k (object field,
   key-value entry, metadata entry or component-royalty entry) is locked, through any sequence of
   operations by any callers, k keeps exactly its value and its lock in every intermediate and in the
   final state, and no operation addressing k (write, remove, lock again) commits. *)
Theorem C51_locked_monotone : forall evs s k, locked_at s k ->
  get k (s_cells (final s evs)) = get k (s_cells s) /\
  (forall e, In e (run s evs) -> get k (s_cells (fst (fst (fst e)))) = get k (s_cells s) /\
                                get k (s_cells (snd (fst e))) = get k (s_cells s) /\
                                (addresses (snd (snd (fst (fst e)))) k = true -> snd e <> Ok)).
Proof. exact locked_monotone. Qed.

(* the same for the owner role: once its field is locked (lock_owner_role, or created Fixed/None)
   rule, updater and lock never change and no set_owner_role / lock_owner_role commits *)
Theorem C51_owner_locked_monotone : forall evs s, o_locked (s_owner s) = true ->
  s_owner (final s evs) = s_owner s /\
  (forall e, In e (run s evs) -> s_owner (snd (fst e)) = s_owner s /\
                                (is_owner_op (snd (snd (fst (fst e)))) = true -> snd e <> Ok)).
Proof. exact owner_locked_monotone. Qed.

(* how a substate becomes locked: a committed lock operation; lock_owner_role additionally sets the
   updater to None, after which the auth layer alone refuses every owner update by anyone *)
Theorem C51_lock_locks :
  (forall s c k, snd (step s c (OCell k SLock)) = Ok -> locked_at (fst (step s c (OCell k SLock))) k) /\
  (forall s c, snd (step s c OLockOwner) = Ok ->
     o_locked (s_owner (fst (step s c OLockOwner))) = true /\ o_updater (s_owner (fst (step s c OLockOwner))) = UNone /\
     o_rule (s_owner (fst (step s c OLockOwner))) = o_rule (s_owner s)) /\
  (forall s c o, o_updater (s_owner s) = UNone -> is_owner_op o = true -> snd (step s c o) = Fail EUnauthorized) /\
  (forall r, o_locked (create_owner r UNone) = true).
Proof. repeat split; [exact lock_locks|apply lock_owner_locks; assumption|apply lock_owner_locks; assumption|apply lock_owner_locks; assumption|exact owner_none_denies_all]. Qed.

(* non-vacuity: metadata key 7 set, locked, then set / remove / lock attempts by fully authorised
   callers fail and the value stays; owner role locked, then set by a caller satisfying the owner rule fails *)
Example C51_nonvacuous :
  let god := {| auth := true; owner_auth := true; is_object := true |} in
  let s0 := {| s_cells := []; s_owner := create_owner 1 UOwner |} in
  let evs := [(god, OCell (KMetadata, 7) (SWrite 5)); (god, OCell (KMetadata, 7) SLock);
              (god, OCell (KMetadata, 7) (SWrite 6)); (god, OCell (KMetadata, 7) SRemove);
              (god, OCell (KMetadata, 7) SLock); (god, OSetOwner 2); (god, OLockOwner); (god, OSetOwner 3)] in
  map (fun e => snd e) (run s0 evs) = [Ok; Ok; Fail ELocked; Fail ELocked; Fail ELocked; Ok; Ok; Fail EUnauthorized] /\
  get (KMetadata, 7) (s_cells (final s0 evs)) = {| c_val := Some 5; c_locked := true |} /\
  s_owner (final s0 evs) = {| o_rule := 2; o_updater := UNone; o_locked := true |}.
Proof. vm_compute. repeat split. Qed.

Print Assumptions C51_locked_monotone.
Print Assumptions C51_owner_locked_monotone.
Print Assumptions C51_lock_locks.
