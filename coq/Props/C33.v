(* C33 — Only valid signatures authorize a transaction.  Property theorems only.

   Model: Model/C33_SigValidate.v (AllPendingSignatureValidations as written; validate_tree = the
   signature part of validate_transaction_tree_v2 for notarized / signed-partial / preview V2
   transactions, validate_v1 = the signature part of validate_notarized_v1).  Every theorem is closed:
   it quantifies over the two cryptographic primitives
     recover h s  = verify_and_recover(h, s)   (intent signatures, SignatureWithPublicKeyV1)
     verify h k s = verify(h, k, s)            (notary signature, SignatureV1)
   so "signature s is valid for key k over hash h" is literally `recover h s = Some k`, resp.
   `verify h k s = true`; nothing about the primitives is assumed.

   Declarative vocabulary (Proof/C33_SigValidate.v):
     with_notary nis npk ks0     = ks0 ++ [npk] if nis && npk not in ks0, else ks0
     notary_appended c v nis npk ks0 ks
                                 = ks is with_notary .. ks0, and a signatory notary that is already in
                                   ks0 is tolerated only when allow_notary_to_duplicate_signer c v
     intent_accepts c v p ks     = all signatures of p recover a key over p's signed hash, those keys
                                   (in order) are pairwise distinct, the notary signature verifies over
                                   the notarized hash, and ks is that list with the notary appended
     tree_accepts ...            = counts within both limits, one batch per subintent, total = sum,
                                   intent_accepts for the root and for every non-root subintent.

   Not covered here (see spec/C33.json): the third sentence of the property ("altering any byte ...")
   needs that the hashes cover the content (C32) and unforgeability of the primitives; what is proved
   is C33_mutation_rejected: whatever changes a signed hash makes the transaction invalid unless
   every signature of that intent still verifies over the new hash according to the primitives. *)
From Coq Require Import List NArith Bool.
Import ListNotations.
Require Import RV.Model.C33_SigValidate RV.Proof.C33_SigValidate.
Open Scope N_scope.

(* Exact characterisation: the validator accepts with result (rk, nrk, total) iff the declarative
   conditions hold; in particular the result is determined by them. *)
Theorem C33_accept_iff : forall recover verify c v rh root subs batches rk nrk total,
  validate_tree recover verify c v rh root subs batches = Accepted rk nrk total <->
  ( intent_signature_validations root <= max_signer_signatures_per_intent c /\
    length subs = length batches /\
    Forall (fun b => batch_count b <= max_signer_signatures_per_intent c) batches /\
    total = intent_signature_validations root + notary_signature_validations root + sum_counts batches /\
    total <= max_total_signature_validations c /\
    intent_accepts recover verify c v root rk /\
    Forall2 (fun hb ks => intent_accepts recover verify c v (for_subintent (snd hb) (fst hb)) ks)
            (combine subs batches) nrk ).
Proof. exact accept_iff. Qed.

Theorem C33_reject_iff : forall recover verify c v rh root subs batches,
  (exists l e, validate_tree recover verify c v rh root subs batches = Rejected l e) <->
  ~ exists rk nrk total, tree_accepts recover verify c v root subs batches rk nrk total.
Proof. exact reject_iff. Qed.

(* Accepted => the notary signature verifies over the notarized (signed-intent) hash with the key
   declared in the header, and every intent signature of every intent recovers a key over THAT
   intent's hash, and that key is in the signer list of that intent. *)
Theorem C33_accept_implies_all_valid : forall recover verify c v rh root subs batches rk nrk total,
  validate_tree recover verify c v rh root subs batches = Accepted rk nrk total ->
  (forall nis npk nsig nh sigs sh, root = TransactionIntent nis npk nsig nh sigs sh ->
     verify nh npk nsig = true /\
     forall s, In s sigs -> exists k, recover sh s = Some k /\ In k rk) /\
  (forall sigs sh, root = Subintent sigs sh ->
     forall s, In s sigs -> exists k, recover sh s = Some k /\ In k rk) /\
  (forall i h sigs, nth_error subs i = Some h -> nth_error batches i = Some (BatchSignatures sigs) ->
     exists ks, nth_error nrk i = Some ks /\
     forall s, In s sigs -> exists k, recover h s = Some k /\ In k ks).
Proof. exact accept_implies_all_valid. Qed.

(* Accepted => each returned signer list is exactly the keys recovered from that intent's signatures,
   in order (for the transaction intent: + the notary key appended iff notary_is_signatory and not
   already present), without duplicates; one list per subintent.  A signatory notary that also
   signed is possible only if the configuration allows it for this transaction version. *)
Theorem C33_signer_set_exact : forall recover verify c v rh root subs batches rk nrk total,
  validate_tree recover verify c v rh root subs batches = Accepted rk nrk total ->
  NoDup rk /\ length nrk = length subs /\
  (forall nis npk nsig nh sigs sh, root = TransactionIntent nis npk nsig nh sigs sh ->
     exists ks0, map (recover sh) sigs = map Some ks0 /\ rk = with_notary nis npk ks0 /\
                 (nis = true -> In npk ks0 -> allow_notary_to_duplicate_signer c v = true)) /\
  (forall nis npk keys, root = PreviewTransactionIntent nis npk keys ->
     rk = with_notary nis npk keys /\ NoDup keys /\
     (nis = true -> In npk keys -> allow_notary_to_duplicate_signer c v = true)) /\
  (forall sigs sh, root = Subintent sigs sh -> map (recover sh) sigs = map Some rk) /\
  (forall i h b, nth_error subs i = Some h -> nth_error batches i = Some b ->
     exists ks, nth_error nrk i = Some ks /\ NoDup ks /\
                match b with
                | BatchSignatures sigs => map (recover h) sigs = map Some ks
                | BatchPublicKeys keys => ks = keys
                end).
Proof. exact signer_set_exact. Qed.

(* notary_is_signatory and one intent signature recovers the notary key: rejected whenever the
   configuration does not allow it ... *)
Theorem C33_notary_duplicate_rejected : forall recover verify c v rh npk nsig nh sigs sh subs batches s,
  In s sigs -> recover sh s = Some npk -> allow_notary_to_duplicate_signer c v = false ->
  exists l e, validate_tree recover verify c v rh
                (TransactionIntent true npk nsig nh sigs sh) subs batches = Rejected l e.
Proof. exact notary_duplicate_rejected. Qed.
(* ... which for V2 is always, and for V1 exactly when the config flag is off
   (the "allowed" direction is the notary_appended clause of C33_accept_iff) *)
Theorem C33_notary_duplicate_flag : forall c,
  allow_notary_to_duplicate_signer c V2 = false /\
  allow_notary_to_duplicate_signer c V1 = v1_transactions_allow_notary_to_duplicate_signer c.
Proof. intro c. split; reflexivity. Qed.

(* Limits: accepted => every per-intent count <= max_signer_signatures_per_intent and the total
   (signer signatures of all intents + 1 for the notary of a transaction intent) is what is reported
   and <= max_total_signature_validations; conversely exceeding either limit is rejected with
   TooManySignatures. *)
Theorem C33_limits : forall recover verify c v rh root subs batches rk nrk total,
  validate_tree recover verify c v rh root subs batches = Accepted rk nrk total ->
  intent_signature_validations root <= max_signer_signatures_per_intent c /\
  Forall (fun b => batch_count b <= max_signer_signatures_per_intent c) batches /\
  total = intent_signature_validations root + notary_signature_validations root + sum_counts batches /\
  total <= max_total_signature_validations c.
Proof. exact limits. Qed.
Theorem C33_limits_converse : forall recover verify c v rh root subs batches,
  (max_signer_signatures_per_intent c < intent_signature_validations root \/
   (length subs = length batches /\
    (Exists (fun b => max_signer_signatures_per_intent c < batch_count b) batches \/
     max_total_signature_validations c <
       intent_signature_validations root + notary_signature_validations root + sum_counts batches))) ->
  exists l t lim, validate_tree recover verify c v rh root subs batches
                  = Rejected l (TooManySignatures t lim) /\ lim < t.
Proof. exact limits_converse. Qed.

(* Mutation: if (after any change of a signed hash, signature or key) some signature does not verify
   over the hash of the intent it sits in, or the notary signature does not verify over the
   notarized hash, the transaction is rejected. *)
Theorem C33_mutation_rejected : forall recover verify c v rh root subs batches,
  ((exists nis npk nsig nh sigs sh, root = TransactionIntent nis npk nsig nh sigs sh /\
      (verify nh npk nsig = false \/ exists s, In s sigs /\ recover sh s = None)) \/
   (exists sigs sh, root = Subintent sigs sh /\ exists s, In s sigs /\ recover sh s = None) \/
   (exists i h sigs s, nth_error subs i = Some h /\ nth_error batches i = Some (BatchSignatures sigs) /\
      In s sigs /\ recover h s = None)) ->
  exists l e, validate_tree recover verify c v rh root subs batches = Rejected l e.
Proof. exact invalid_signature_rejected. Qed.

(* validate_notarized_v1 is the same decision on a tree without subintents, version V1 *)
Theorem C33_v1_is_tree : forall recover verify c h root,
  validate_v1 recover verify c h root = validate_tree recover verify c V1 (IHTransaction h) root [] [].
Proof. exact v1_is_tree. Qed.

(* Non-vacuity: concrete primitives and a V2 transaction with a subintent that is accepted with the
   expected signer lists; changing the signed intent hash, or letting the signatory notary also sign,
   gets it rejected, while the V1 variant with the config flag on is accepted. *)
Definition ex_recover (h s : N) : option N :=
  if h =? 10 then (if s =? 1 then Some 100 else if s =? 2 then Some 101 else if s =? 5 then Some 200 else None)
  else if h =? 11 then (if s =? 3 then Some 102 else None) else None.
Definition ex_verify (h k s : N) : bool := (h =? 20) && (k =? 200) && (s =? 9).
Example C33_nonvacuous :
  let cfg := mkConfig 16 64 true in
  validate_tree ex_recover ex_verify cfg V2 (IHTransaction 10)
    (TransactionIntent true 200 9 20 [1; 2] 10) [11] [BatchSignatures [3]]
    = Accepted [100; 101; 200] [[102]] 4
  /\ validate_tree ex_recover ex_verify cfg V2 (IHTransaction 12)
    (TransactionIntent true 200 9 20 [1; 2] 12) [11] [BatchSignatures [3]]
    = Rejected (RootTransactionIntent 12) InvalidIntentSignature
  /\ validate_tree ex_recover ex_verify cfg V2 (IHTransaction 10)
    (TransactionIntent true 200 9 20 [1; 5] 10) [11] [BatchSignatures [3]]
    = Rejected (RootTransactionIntent 10) NotaryIsSignatorySoShouldNotAlsoBeASigner
  /\ validate_v1 ex_recover ex_verify cfg 10 (TransactionIntent true 200 9 20 [1; 5] 10)
    = Accepted [100; 200] [] 3
  /\ validate_tree ex_recover ex_verify cfg V2 (IHTransaction 10)
    (TransactionIntent true 200 9 20 [1; 2] 10) [11] [BatchSignatures [3; 3]]
    = Rejected (NonRootSubintent 0 11) DuplicateSigner
  /\ validate_tree ex_recover ex_verify (mkConfig 16 3 true) V2 (IHTransaction 10)
    (TransactionIntent true 200 9 20 [1; 2] 10) [11] [BatchSignatures [3]]
    = Rejected AcrossTransaction (TooManySignatures 4 3).
Proof. vm_compute. repeat split; reflexivity. Qed.

Print Assumptions C33_accept_iff.
Print Assumptions C33_reject_iff.
Print Assumptions C33_accept_implies_all_valid.
Print Assumptions C33_signer_set_exact.
Print Assumptions C33_notary_duplicate_rejected.
Print Assumptions C33_notary_duplicate_flag.
Print Assumptions C33_limits.
Print Assumptions C33_limits_converse.
Print Assumptions C33_mutation_rejected.
Print Assumptions C33_v1_is_tree.
Print Assumptions C33_nonvacuous.
