(* C44 — proofs about the consensus clock model (Model/C44_Consensus.v). *)
From Coq Require Import List NArith ZArith Bool Lia.
Import ListNotations.
Require Import RV.Model.C44_Consensus.
Open Scope Z_scope.

Ltac Zify.zify_post_hook ::= Z.to_euclidean_division_equations.

(* the minute clock is the truncated milli clock *)
Definition ClockInv (s : cm) : Prop := minute s = Z.quot (milli s) MILLIS_IN_MINUTE.

Lemma quot_mono : forall a b, a <= b -> Z.quot a 60000 <= Z.quot b 60000.
Proof. intros. apply Z.quot_le_mono; lia. Qed.

(* what a successful check_timestamps does *)
Lemma check_timestamps_ok : forall s ts s1,
  check_timestamps s ts = Ok s1 ->
  milli s <= ts /\ milli s1 = ts /\ epoch s1 = epoch s /\ round s1 = round s
  /\ eff_start s1 = eff_start s /\ act_start s1 = act_start s
  /\ minute s1 = Z.max (minute s) (Z.quot ts MILLIS_IN_MINUTE)
  /\ in_i32 (Z.quot ts MILLIS_IN_MINUTE) = true.
Proof.
  intros s ts s1 H. unfold check_timestamps, milli_to_minute in H.
  destruct (ts <? milli s) eqn:E1; [discriminate|]. apply Z.ltb_ge in E1.
  destruct (in_i32 (Z.quot ts MILLIS_IN_MINUTE)) eqn:E2; [|discriminate].
  destruct (milli s <? ts) eqn:E3; cbn [minute epoch round milli eff_start act_start] in H.
  - apply Z.ltb_lt in E3.
    destruct (minute s <? Z.quot ts MILLIS_IN_MINUTE) eqn:E4; injection H as <-; cbn;
      [apply Z.ltb_lt in E4|apply Z.ltb_ge in E4]; repeat split; try lia.
  - apply Z.ltb_ge in E3. assert (ts = milli s) by lia.
    destruct (minute s <? Z.quot ts MILLIS_IN_MINUTE) eqn:E4; injection H as <-; cbn;
      [apply Z.ltb_lt in E4|apply Z.ltb_ge in E4]; repeat split; try lia.
Qed.

(* what a successful next_round does *)
Lemma next_round_ok : forall c s i s',
  next_round c s i = Ok s' ->
  milli s <= r_ts i /\ milli s' = r_ts i
  /\ minute s' = Z.max (minute s) (Z.quot (r_ts i) MILLIS_IN_MINUTE)
  /\ in_i32 (Z.quot (r_ts i) MILLIS_IN_MINUTE) = true
  /\ (round s < r_round i)%N
  /\ ((epoch s' = epoch s /\ round s' = r_round i /\ eff_start s' = eff_start s /\ act_start s' = act_start s)
      \/ (epoch s' = (epoch s + 1)%N /\ round s' = 0%N /\ act_start s' = r_ts i /\ (epoch s < U64_MAX)%N)).
Proof.
  intros c s i s' H. unfold next_round in H.
  destruct (check_timestamps s (r_ts i)) as [s1|e] eqn:E1; [|discriminate].
  apply check_timestamps_ok in E1. destruct E1 as (A1 & A2 & A3 & A4 & A5 & A6 & A7 & A8).
  unfold calculate_progress in H.
  destruct (r_round i <=? round s1)%N eqn:E2; [discriminate|]. apply N.leb_gt in E2.
  destruct (negb (r_gaps i =? r_round i - round s1 - 1)%N); [discriminate|].
  destruct (negb (r_leaders_ok i)); [discriminate|].
  destruct (should_epoch_change c (eff_start s1) (r_ts i) (r_round i)) as [ne|].
  - destruct (U64_MAX <=? epoch s1)%N eqn:E3; [discriminate|]. apply N.leb_gt in E3.
    injection H as <-. cbn. rewrite A3, A4 in *. repeat split; try lia; auto.
    all: try (right; repeat split; auto; lia).
  - injection H as <-. cbn. rewrite A3, A4, A5, A6 in *. repeat split; try lia; auto.
    all: try (left; repeat split; auto; lia).
Qed.

Lemma clock_inv_step : forall c s i, ClockInv s -> ClockInv (step c s i).
Proof.
  intros c s i Hi. unfold step. destruct (next_round c s i) as [s'|e] eqn:E; [|exact Hi].
  apply next_round_ok in E. destruct E as (A1 & A2 & A3 & _).
  unfold ClockInv in *. rewrite A3, A2, Hi. unfold MILLIS_IN_MINUTE.
  apply Z.max_r. apply quot_mono. exact A1.
Qed.

Lemma step_monotone : forall c s i,
  milli s <= milli (step c s i) /\ minute s <= minute (step c s i)
  /\ (epoch s <= epoch (step c s i))%N.
Proof.
  intros c s i. unfold step. destruct (next_round c s i) as [s'|e] eqn:E; [|lia].
  apply next_round_ok in E. destruct E as (A1 & A2 & A3 & A4 & A5 & [B|B]); destruct B as (B1 & _); lia.
Qed.

Theorem time_monotone : forall c is s,
  milli s <= milli (exec c s is) /\ minute s <= minute (exec c s is)
  /\ (epoch s <= epoch (exec c s is))%N.
Proof.
  intros c is. induction is as [|i is IH]; intros s; cbn [exec]; [lia|].
  pose proof (step_monotone c s i). pose proof (IH (step c s i)). lia.
Qed.

Theorem clock_inv_exec : forall c is s, ClockInv s -> ClockInv (exec c s is).
Proof.
  intros c is. induction is as [|i is IH]; intros s H; cbn [exec]; [exact H|].
  apply IH. apply clock_inv_step. exact H.
Qed.

(* the milli clock is the maximum of the initial value and all accepted proposer timestamps *)
Fixpoint max_accepted (c : cfg) (s : cm) (is : list round_input) (acc : Z) : Z :=
  match is with
  | [] => acc
  | i :: is' => match next_round c s i with
                | Ok s' => max_accepted c s' is' (Z.max acc (r_ts i))
                | Err _ => max_accepted c s is' acc
                end
  end.
Theorem milli_is_max : forall c is s,
  milli (exec c s is) = max_accepted c s is (milli s).
Proof.
  intros c is. induction is as [|i is IH]; intros s; cbn [exec max_accepted]; [reflexivity|].
  unfold step. destruct (next_round c s i) as [s'|e] eqn:E; [|apply IH].
  rewrite IH. apply next_round_ok in E. destruct E as (A1 & A2 & _).
  rewrite A2. f_equal. lia.
Qed.

Theorem round_progress : forall c s i s',
  next_round c s i = Ok s' ->
  (epoch s' = epoch s /\ (round s < round s')%N)
  \/ (epoch s' = (epoch s + 1)%N /\ round s' = 0%N).
Proof.
  intros c s i s' H. apply next_round_ok in H.
  destruct H as (_ & _ & _ & _ & A5 & [(B1 & B2 & _)|(B1 & B2 & _)]); [left|right]; split; auto; lia.
Qed.

(* ---- comparisons ------------------------------------------------------------------------------------ *)
Definition clamp_i32 (x : Z) : Z := if x <? I32_MIN then I32_MIN else if I32_MAX <? x then I32_MAX else x.

Lemma other_epoch_minute_spec : forall inst,
  in_i64 inst = true -> other_epoch_minute inst = clamp_i32 (Z.quot inst 60).
Proof.
  intros inst Hi. unfold other_epoch_minute, milli_to_minute, clamp_i32, in_i64, in_i32,
    MILLIS_IN_SECOND, MILLIS_IN_MINUTE, I32_MIN, I32_MAX, I64_MIN, I64_MAX in *.
  apply andb_true_iff in Hi. destruct Hi as [H1 H2]. apply Z.leb_le in H1, H2.
  assert (Hq : Z.quot (inst * 1000) 60000 = Z.quot inst 60).
  { replace 60000 with (60 * 1000) by reflexivity. apply Z.quot_mul_cancel_r; lia. }
  rewrite Hq.
  destruct ((-9223372036854775808 <=? inst * 1000) && (inst * 1000 <=? 9223372036854775807)) eqn:E1.
  - apply andb_true_iff in E1. destruct E1 as [E1 E1']. apply Z.leb_le in E1, E1'.
    destruct ((-2147483648 <=? Z.quot inst 60) && (Z.quot inst 60 <=? 2147483647)) eqn:E2.
    + apply andb_true_iff in E2. destruct E2 as [E2 E2']. apply Z.leb_le in E2, E2'.
      destruct (Z.quot inst 60 <? -2147483648) eqn:E3; [apply Z.ltb_lt in E3; lia|].
      destruct (2147483647 <? Z.quot inst 60) eqn:E4; [apply Z.ltb_lt in E4; lia|]. reflexivity.
    + apply andb_false_iff in E2.
      destruct (Z.quot inst 60 <? -2147483648) eqn:E3.
      * apply Z.ltb_lt in E3. destruct (inst <? 0) eqn:E5; [reflexivity|]. apply Z.ltb_ge in E5. lia.
      * apply Z.ltb_ge in E3. destruct (2147483647 <? Z.quot inst 60) eqn:E4.
        { apply Z.ltb_lt in E4. destruct (inst <? 0) eqn:E5; [apply Z.ltb_lt in E5; lia|reflexivity]. }
        { apply Z.ltb_ge in E4. destruct E2 as [E2|E2]; apply Z.leb_gt in E2; lia. }
  - apply andb_false_iff in E1.
    destruct (inst <? 0) eqn:E5; [apply Z.ltb_lt in E5|apply Z.ltb_ge in E5].
    + destruct (Z.quot inst 60 <? -2147483648) eqn:E3; [reflexivity|]. apply Z.ltb_ge in E3.
      destruct E1 as [E1|E1]; apply Z.leb_gt in E1; lia.
    + destruct (Z.quot inst 60 <? -2147483648) eqn:E3; [apply Z.ltb_lt in E3; lia|].
      destruct (2147483647 <? Z.quot inst 60) eqn:E4; [reflexivity|]. apply Z.ltb_ge in E4.
      destruct E1 as [E1|E1]; apply Z.leb_gt in E1; lia.
Qed.

Lemma compare_scale : forall a b o, compare (a * 60) (b * 60) o = compare a b o.
Proof.
  intros a b o. destruct o; cbn [compare].
  - destruct (a =? b) eqn:E; [apply Z.eqb_eq in E; apply Z.eqb_eq; lia|apply Z.eqb_neq in E; apply Z.eqb_neq; lia].
  - destruct (a <? b) eqn:E; [apply Z.ltb_lt in E; apply Z.ltb_lt; lia|apply Z.ltb_ge in E; apply Z.ltb_ge; lia].
  - destruct (a <=? b) eqn:E; [apply Z.leb_le in E; apply Z.leb_le; lia|apply Z.leb_gt in E; apply Z.leb_gt; lia].
  - destruct (b <? a) eqn:E; [apply Z.ltb_lt in E; apply Z.ltb_lt; lia|apply Z.ltb_ge in E; apply Z.ltb_ge; lia].
  - destruct (b <=? a) eqn:E; [apply Z.leb_le in E; apply Z.leb_le; lia|apply Z.leb_gt in E; apply Z.leb_gt; lia].
Qed.

Theorem compare_agrees : forall s inst o,
  in_i64 inst = true ->
  compare_minute s inst o = compare (minute s) (clamp_i32 (Z.quot inst 60)) o
  /\ compare_second s inst o = compare (Z.quot (milli s) 1000) inst o
  /\ get_time_minute s = minute s * 60
  /\ get_time_second s = Z.quot (milli s) 1000.
Proof.
  intros s inst o Hi. unfold compare_minute, compare_second, get_time_minute, get_time_second,
    SECONDS_IN_MINUTE, MILLIS_IN_SECOND.
  rewrite compare_scale, other_epoch_minute_spec by exact Hi. auto.
Qed.

(* with the clock invariant: the minute comparison is the comparison of the milli clock and the
   argument both truncated to minutes *)
Corollary compare_minute_clock : forall s inst o,
  ClockInv s -> in_i64 inst = true ->
  compare_minute s inst o = compare (Z.quot (milli s) 60000) (clamp_i32 (Z.quot inst 60)) o.
Proof.
  intros s inst o Hc Hi. destruct (compare_agrees s inst o Hi) as (H & _). rewrite H, Hc. reflexivity.
Qed.
