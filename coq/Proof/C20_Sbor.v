(* C20/C21 — proofs about the SBOR Value codec model: decode∘encode, encode∘decode (canonicity),
   totality of the decoder (no Panic / OutOfFuel with the canonical fuel). *)
From Coq Require Import List NArith ZArith Bool Lia.
Import ListNotations.
Require Import RV.Lib.Utf8 RV.Model.C20_Sbor RV.Proof.C20_Base RV.Proof.C20_Codec.
Open Scope N_scope.

Arguments N.add : simpl never. Arguments N.sub : simpl never. Arguments N.mul : simpl never.
Arguments N.eqb : simpl never. Arguments N.ltb : simpl never. Arguments N.leb : simpl never.

(* ------------------------------------------------------------------------------------------ *)
(* induction principle for the nested value type                                               *)
Section ValueInd.
  Variable P : value -> Prop.
  Hypothesis HBool : forall b, P (VBool b).
  Hypothesis HInt : forall i z, P (VInt i z).
  Hypothesis HString : forall s, P (VString s).
  Hypothesis HEnum : forall d fs, Forall P fs -> P (VEnum d fs).
  Hypothesis HArray : forall ek es, Forall P es -> P (VArray ek es).
  Hypothesis HTuple : forall fs, Forall P fs -> P (VTuple fs).
  Hypothesis HMap : forall kk vk es, Forall (fun p => P (fst p) /\ P (snd p)) es -> P (VMap kk vk es).
  Hypothesis HCustom : forall c, P (VCustom c).
  Fixpoint value_ind' (v : value) : P v :=
    let lst := fix go (l : list value) : Forall P l :=
      match l with [] => Forall_nil _ | x :: t => Forall_cons x (value_ind' x) (go t) end in
    match v with
    | VBool b => HBool b
    | VInt i z => HInt i z
    | VString s => HString s
    | VEnum d fs => HEnum d fs (lst fs)
    | VArray ek es => HArray ek es (lst es)
    | VTuple fs => HTuple fs (lst fs)
    | VMap kk vk es =>
      HMap kk vk es
        ((fix go (l : list (value * value)) : Forall (fun p => P (fst p) /\ P (snd p)) l :=
            match l with
            | [] => Forall_nil _
            | (k, x) :: t => Forall_cons (k, x) (conj (value_ind' k) (value_ind' x)) (go t)
            end) es)
    | VCustom c => HCustom c
    end.
End ValueInd.

(* ------------------------------------------------------------------------------------------ *)
(* named versions of the encoder's inner loops                                                 *)
Definition enc_fields (md d : N) := fix go (l : list value) : eres bytes :=
  match l with [] => Ok [] | x :: t => a <- enc_value md d x ;; r <- go t ;; Ok (a ++ r) end.
Definition enc_elems (md d : N) (ek : vkind) := fix go (l : list value) : eres bytes :=
  match l with
  | [] => Ok []
  | x :: t =>
    if negb (kind_eqb (value_kind x) ek)
    then Err (EMismatchingArrayElementValueKind (kind_u8 ek) (kind_u8 (value_kind x)))
    else a <- enc_deeper md d x ;; r <- go t ;; Ok (a ++ r)
  end.
Definition enc_entries (md d : N) (kk vk : vkind) := fix go (l : list (value * value)) : eres bytes :=
  match l with
  | [] => Ok []
  | (k, x) :: t =>
    if negb (kind_eqb (value_kind k) kk)
    then Err (EMismatchingMapKeyValueKind (kind_u8 kk) (kind_u8 (value_kind k)))
    else a <- enc_deeper md d k ;;
      if negb (kind_eqb (value_kind x) vk)
      then Err (EMismatchingMapValueValueKind (kind_u8 vk) (kind_u8 (value_kind x)))
      else b <- enc_deeper md d x ;; r <- go t ;; Ok (a ++ b ++ r)
  end.

Lemma enc_body_enum : forall md d disc fs, enc_body md d (VEnum disc fs) =
  sz <- write_size (nlen fs) ;; r <- enc_fields md d fs ;; Ok (disc :: sz ++ r).
Proof. reflexivity. Qed.
Lemma enc_body_tuple : forall md d fs, enc_body md d (VTuple fs) =
  sz <- write_size (nlen fs) ;; r <- enc_fields md d fs ;; Ok (sz ++ r).
Proof. reflexivity. Qed.
Lemma enc_body_array : forall md d ek es, enc_body md d (VArray ek es) =
  sz <- write_size (nlen es) ;; r <- enc_elems md d ek es ;; Ok (kind_u8 ek :: sz ++ r).
Proof. reflexivity. Qed.
Lemma enc_body_map : forall md d kk vk es, enc_body md d (VMap kk vk es) =
  sz <- write_size (nlen es) ;; r <- enc_entries md d kk vk es ;; Ok (kind_u8 kk :: kind_u8 vk :: sz ++ r).
Proof. reflexivity. Qed.

Definition wf_entries (fl : flavour) := fix go (es : list (value * value)) : bool :=
  match es with [] => true | (k, x) :: t => wf_value fl k && wf_value fl x && go t end.
Definition valid_entries := fix go (es : list (value * value)) : bool :=
  match es with [] => true | (k, x) :: t => valid_value k && valid_value x && go t end.
Lemma wf_value_map : forall fl kk vk es, wf_value fl (VMap kk vk es) =
  kind_ok fl kk && kind_ok fl vk && wf_entries fl es.
Proof. reflexivity. Qed.
Lemma valid_value_map : forall kk vk es, valid_value (VMap kk vk es) = valid_entries es.
Proof. reflexivity. Qed.

Section Main.
Variable fl : flavour.

(* unfolding equations of the decoder *)
Lemma dec_elems_S : forall f md d ek n st, dec_elems fl (S f) md d ek n st =
  if n =? 0 then Ok ([], st) else
  '(v, st) <- match ek with
              | None => '(k, st) <- read_value_kind fl st ;; dec_deeper fl f md d k st
              | Some k => dec_deeper fl f md d k st
              end ;;
  '(vs, st) <- dec_elems fl f md d ek (n - 1) st ;; Ok (v :: vs, st).
Proof. reflexivity. Qed.
Lemma dec_entries_S : forall f md d kk vk n st, dec_entries fl (S f) md d kk vk n st =
  if n =? 0 then Ok ([], st) else
  '(k, st) <- dec_deeper fl f md d kk st ;;
  '(x, st) <- dec_deeper fl f md d vk st ;;
  '(es, st) <- dec_entries fl f md d kk vk (n - 1) st ;; Ok ((k, x) :: es, st).
Proof. reflexivity. Qed.
Lemma dec_body_S : forall f md d k st, dec_body fl (S f) md d k st =
  match k with
  | KBool =>
    '(b, st) <- read_byte st ;;
    if b =? 0 then Ok (VBool false, st) else if b =? 1 then Ok (VBool true, st)
    else Err (InvalidBool b)
  | KInt i => '(s, st) <- read_slice (ikind_bytes i) st ;; Ok (VInt i (dec_int i s), st)
  | KString =>
    '(n, st) <- read_size st ;; '(s, st) <- read_slice n st ;;
    if utf8_valid s then Ok (VString s, st) else Err InvalidUtf8
  | KTuple =>
    '(n, st) <- read_size st ;; '(fs, st) <- dec_elems fl f md d None n st ;; Ok (VTuple fs, st)
  | KEnum =>
    '(disc, st) <- read_byte st ;; '(n, st) <- read_size st ;;
    '(fs, st) <- dec_elems fl f md d None n st ;; Ok (VEnum disc fs, st)
  | KArray =>
    '(ek, st) <- read_value_kind fl st ;; '(n, st) <- read_size st ;;
    '(es, st) <- dec_elems fl f md d (Some ek) n st ;; Ok (VArray ek es, st)
  | KMap =>
    '(kk, st) <- read_value_kind fl st ;; '(vk, st) <- read_value_kind fl st ;;
    '(n, st) <- read_size st ;;
    '(es, st) <- dec_entries fl f md d kk vk n st ;; Ok (VMap kk vk es, st)
  | KCustom c =>
    if flavour_eqb (ckind_flavour c) fl
    then '(cv, st) <- dec_custom c st ;; Ok (VCustom cv, st)
    else Panic
  end.
Proof. reflexivity. Qed.

Lemma kind_ok_value_kind : forall v, wf_value fl v = true -> kind_ok fl (value_kind v) = true.
Proof.
  intros v H. destruct v; try reflexivity. cbn [wf_value] in H. apply andb_true_iff in H.
  destruct H as [H _]. exact H.
Qed.

(* ------------------------------------------------------------------------------------------ *)
(* encoded bodies are never empty                                                              *)
Lemma write_size_loop_nonempty : forall f n bs, write_size_loop f n = Ok bs -> (1 <= length bs)%nat.
Proof.
  intros f n bs W. destruct f as [|f]; [discriminate|]. cbn [write_size_loop] in W.
  destruct (N.shiftr n 7 =? 0); [inversion W; cbn; lia|].
  destruct (write_size_loop f (N.shiftr n 7)); cbn [bind] in W; try discriminate. inversion W. cbn. lia.
Qed.
Lemma write_size_nonempty : forall n bs, write_size n = Ok bs -> (1 <= length bs)%nat.
Proof.
  intros n bs W. unfold write_size in W. destruct (MAX_SIZE <? n); [discriminate|].
  eapply write_size_loop_nonempty; exact W.
Qed.
Lemma enc_nfid_nonempty : forall id bs, enc_nfid id = Ok bs -> (1 <= length bs)%nat.
Proof.
  intros id bs E. destruct id; cbn [enc_nfid] in E;
    try (destruct (write_size _) in E; cbn [bind] in E; try discriminate); inversion E; cbn; lia.
Qed.
Lemma fixed_len : forall n b, fixed_ok n b = true -> n <> 0 -> (1 <= length b)%nat.
Proof. intros n b H Hn. apply fixed_ok_inv in H. destruct H as [L _]. rewrite nlen_spec in L. lia. Qed.
Lemma enc_custom_nonempty : forall c bs, cvalue_wf c = true -> enc_custom c = Ok bs -> (1 <= length bs)%nat.
Proof.
  intros c bs W E. destruct c; cbn [enc_custom cvalue_wf] in *;
    try (inversion E; subst; eapply fixed_len; [exact W|lia]);
    try (eapply enc_nfid_nonempty; exact E);
    try (inversion E; subst; cbn; lia).
Qed.
Lemma enc_body_nonempty : forall md d v bs, wf_value fl v = true -> enc_body md d v = Ok bs -> (1 <= length bs)%nat.
Proof.
  intros md d v bs W E. destruct v.
  - inversion E. cbn. lia.
  - cbn [enc_body] in E. inversion E; subst bs. assert (L := enc_int_nlen i z). rewrite nlen_spec in L.
    assert (1 <= ikind_bytes i) by (destruct i; cbv; discriminate). lia.
  - cbn [enc_body] in E. destruct (write_size (nlen s)) eqn:S; cbn [bind] in E; try discriminate.
    inversion E. apply write_size_nonempty in S. rewrite app_length. lia.
  - rewrite enc_body_enum in E. destruct (write_size _); cbn [bind] in E; try discriminate.
    destruct (enc_fields _ _ _); cbn [bind] in E; try discriminate. inversion E. cbn. lia.
  - rewrite enc_body_array in E. destruct (write_size _); cbn [bind] in E; try discriminate.
    destruct (enc_elems _ _ _ _); cbn [bind] in E; try discriminate. inversion E. cbn. lia.
  - rewrite enc_body_tuple in E. destruct (write_size _) eqn:S; cbn [bind] in E; try discriminate.
    destruct (enc_fields _ _ _); cbn [bind] in E; try discriminate. inversion E.
    apply write_size_nonempty in S. rewrite app_length. lia.
  - rewrite enc_body_map in E. destruct (write_size _); cbn [bind] in E; try discriminate.
    destruct (enc_entries _ _ _ _ _); cbn [bind] in E; try discriminate. inversion E. cbn. lia.
  - cbn [wf_value] in W. apply andb_true_iff in W. destruct W as [_ W]. eapply enc_custom_nonempty; eassumption.
Qed.

(* ------------------------------------------------------------------------------------------ *)
(* direction 1: decode (encode v) = v, with the canonical fuel bound                           *)
Definition D1 (v : value) : Prop := forall md d bs,
  wf_value fl v = true -> valid_value v = true -> enc_body md d v = Ok bs ->
  forall f rest, (2 * length (bs ++ rest) + 1 <= f)%nat ->
  dec_body fl f md d (value_kind v) (bs ++ rest) = Ok (v, rest).

Lemma D1_deeper : forall v, D1 v -> forall md d bs,
  wf_value fl v = true -> valid_value v = true -> enc_deeper md d v = Ok bs ->
  forall f rest, (2 * length (bs ++ rest) + 1 <= f)%nat ->
  dec_deeper fl f md d (value_kind v) (bs ++ rest) = Ok (v, rest).
Proof.
  intros v H md d bs W V E f rest Hf. unfold enc_deeper in E. unfold dec_deeper.
  destruct (md <? d + 1); [discriminate|]. apply H; assumption.
Qed.

Lemma D1_fields : forall fs, Forall D1 fs -> forall md d bs,
  forallb (wf_value fl) fs = true -> forallb valid_value fs = true -> enc_fields md d fs = Ok bs ->
  forall f rest, (2 * length (bs ++ rest) + 2 <= f)%nat ->
  dec_elems fl f md d None (nlen fs) (bs ++ rest) = Ok (fs, rest).
Proof.
  induction 1 as [|x t Hx Ht IH]; intros md d bs W V E f rest Hf.
  - cbn in E. inversion E; subst bs. destruct f as [|f]; [lia|]. rewrite dec_elems_S. reflexivity.
  - cbn [forallb] in W, V. apply andb_true_iff in W. destruct W as [Wx Wt].
    apply andb_true_iff in V. destruct V as [Vx Vt].
    cbn [enc_fields] in E. fold (enc_fields md d) in E.
    unfold enc_value in E at 1.
    destruct (enc_deeper md d x) as [b| | |] eqn:Ex; cbn [bind] in E; try discriminate.
    destruct (enc_fields md d t) as [r| | |] eqn:Et; cbn [bind] in E; try discriminate.
    inversion E; subst bs. clear E.
    destruct f as [|f]; [lia|]. rewrite dec_elems_S.
    rewrite nlen_cons. replace (nlen t + 1 =? 0) with false by (symmetry; apply N.eqb_neq; lia).
    replace (nlen t + 1 - 1) with (nlen t) by lia.
    cbn [app]. rewrite <- app_assoc.
    rewrite read_value_kind_as by (apply kind_ok_value_kind; exact Wx). cbn [bind].
    cbn [app length] in Hf. rewrite !app_length in Hf.
    rewrite (D1_deeper x Hx md d b Wx Vx Ex) by (rewrite !app_length; lia). cbn [bind].
    rewrite (IH md d r Wt Vt Et) by (rewrite app_length; lia). reflexivity.
Qed.

Lemma D1_elems : forall es, Forall D1 es -> forall md d ek bs,
  forallb (wf_value fl) es = true -> forallb valid_value es = true -> enc_elems md d ek es = Ok bs ->
  forall f rest, (2 * length (bs ++ rest) + 2 <= f)%nat ->
  dec_elems fl f md d (Some ek) (nlen es) (bs ++ rest) = Ok (es, rest).
Proof.
  induction 1 as [|x t Hx Ht IH]; intros md d ek bs W V E f rest Hf.
  - cbn in E. inversion E; subst bs. destruct f as [|f]; [lia|]. rewrite dec_elems_S. reflexivity.
  - cbn [forallb] in W, V. apply andb_true_iff in W. destruct W as [Wx Wt].
    apply andb_true_iff in V. destruct V as [Vx Vt].
    cbn [enc_elems] in E. fold (enc_elems md d ek) in E.
    destruct (kind_eqb (value_kind x) ek) eqn:K; cbn [negb] in E; [|discriminate].
    apply kind_eqb_eq in K.
    destruct (enc_deeper md d x) as [b| | |] eqn:Ex; cbn [bind] in E; try discriminate.
    destruct (enc_elems md d ek t) as [r| | |] eqn:Et; cbn [bind] in E; try discriminate.
    inversion E; subst bs. clear E.
    assert (Lb : (1 <= length b)%nat).
    { unfold enc_deeper in Ex. destruct (md <? d + 1); [discriminate|]. eapply enc_body_nonempty; eassumption. }
    destruct f as [|f]; [lia|]. rewrite dec_elems_S.
    rewrite nlen_cons. replace (nlen t + 1 =? 0) with false by (symmetry; apply N.eqb_neq; lia).
    replace (nlen t + 1 - 1) with (nlen t) by lia.
    rewrite <- app_assoc. rewrite !app_length in Hf.
    rewrite <- K.
    rewrite (D1_deeper x Hx md d b Wx Vx Ex) by (rewrite !app_length; lia). cbn [bind].
    rewrite K. rewrite (IH md d ek r Wt Vt Et) by (rewrite app_length; lia). reflexivity.
Qed.

Lemma D1_entries : forall es, Forall (fun p => D1 (fst p) /\ D1 (snd p)) es -> forall md d kk vk bs,
  wf_entries fl es = true -> valid_entries es = true -> enc_entries md d kk vk es = Ok bs ->
  forall f rest, (2 * length (bs ++ rest) + 2 <= f)%nat ->
  dec_entries fl f md d kk vk (nlen es) (bs ++ rest) = Ok (es, rest).
Proof.
  induction 1 as [|[k x] t [Hk Hx] Ht IH]; intros md d kk vk bs W V E f rest Hf.
  - cbn in E. inversion E; subst bs. destruct f as [|f]; [lia|]. rewrite dec_entries_S. reflexivity.
  - cbn [fst snd] in Hk, Hx.
    cbn [wf_entries] in W. fold (wf_entries fl) in W. apply andb_true_iff in W. destruct W as [W Wt].
    apply andb_true_iff in W. destruct W as [Wk Wx].
    cbn [valid_entries] in V. fold valid_entries in V. apply andb_true_iff in V. destruct V as [V Vt].
    apply andb_true_iff in V. destruct V as [Vk Vx].
    cbn [enc_entries] in E. fold (enc_entries md d kk vk) in E.
    destruct (kind_eqb (value_kind k) kk) eqn:K1; cbn [negb] in E; [|discriminate]. apply kind_eqb_eq in K1.
    destruct (enc_deeper md d k) as [a| | |] eqn:Ek; cbn [bind] in E; try discriminate.
    destruct (kind_eqb (value_kind x) vk) eqn:K2; cbn [negb] in E; [|discriminate]. apply kind_eqb_eq in K2.
    destruct (enc_deeper md d x) as [b| | |] eqn:Ex; cbn [bind] in E; try discriminate.
    destruct (enc_entries md d kk vk t) as [r| | |] eqn:Et; cbn [bind] in E; try discriminate.
    inversion E; subst bs. clear E.
    assert (La : (1 <= length a)%nat).
    { unfold enc_deeper in Ek. destruct (md <? d + 1); [discriminate|]. eapply enc_body_nonempty; [exact Wk|exact Ek]. }
    destruct f as [|f]; [lia|]. rewrite dec_entries_S.
    rewrite nlen_cons. replace (nlen t + 1 =? 0) with false by (symmetry; apply N.eqb_neq; lia).
    replace (nlen t + 1 - 1) with (nlen t) by lia.
    rewrite <- !app_assoc. rewrite !app_length in Hf.
    rewrite <- K1. rewrite (D1_deeper k Hk md d a Wk Vk Ek) by (rewrite !app_length; lia). cbn [bind].
    rewrite <- K2. rewrite (D1_deeper x Hx md d b Wx Vx Ex) by (rewrite !app_length; lia). cbn [bind].
    rewrite K1, K2. rewrite (IH md d kk vk r Wt Vt Et) by (rewrite app_length; lia). reflexivity.
Qed.

Lemma D1_all : forall v, D1 v.
Proof.
  induction v using value_ind'; intros md dp bs W V E f rest Hf;
    (destruct f as [|f]; [lia|]); rewrite dec_body_S; cbn [value_kind].
  - (* Bool *) inversion E; subst bs. cbn [app read_byte bind]. destruct b; reflexivity.
  - (* Int *) inversion E; subst bs. rewrite read_slice_fixed by apply enc_int_nlen. cbn [bind].
    cbn [wf_value] in W. rewrite dec_enc_int by exact W. reflexivity.
  - (* String *) cbn [enc_body] in E. destruct (write_size (nlen s)) as [sz| | |] eqn:S; cbn [bind] in E; try discriminate.
    inversion E; subst bs. rewrite <- app_assoc. rewrite (write_size_read _ _ _ S). cbn [bind].
    rewrite read_slice_app. cbn [bind]. cbn [wf_value] in W. apply andb_true_iff in W. destruct W as [_ U].
    rewrite U. reflexivity.
  - (* Enum *) rewrite enc_body_enum in E.
    destruct (write_size (nlen fs)) as [sz| | |] eqn:S; cbn [bind] in E; try discriminate.
    destruct (enc_fields md dp fs) as [r| | |] eqn:R; cbn [bind] in E; try discriminate.
    inversion E; subst bs. cbn [app read_byte bind]. rewrite <- app_assoc. rewrite (write_size_read _ _ _ S). cbn [bind].
    cbn [wf_value] in W. apply andb_true_iff in W. destruct W as [_ W]. cbn [valid_value] in V.
    cbn [app length] in Hf. rewrite !app_length in Hf.
    rewrite (D1_fields fs H md dp r W V R) by (rewrite app_length; lia). reflexivity.
  - (* Array *) rewrite enc_body_array in E.
    destruct (write_size (nlen es)) as [sz| | |] eqn:S; cbn [bind] in E; try discriminate.
    destruct (enc_elems md dp ek es) as [r| | |] eqn:R; cbn [bind] in E; try discriminate.
    inversion E; subst bs. cbn [wf_value] in W. apply andb_true_iff in W. destruct W as [Wk W]. cbn [valid_value] in V.
    cbn [app]. rewrite read_value_kind_as by exact Wk. cbn [bind].
    rewrite <- app_assoc. rewrite (write_size_read _ _ _ S). cbn [bind].
    cbn [app length] in Hf. rewrite !app_length in Hf.
    rewrite (D1_elems es H md dp ek r W V R) by (rewrite app_length; lia). reflexivity.
  - (* Tuple *) rewrite enc_body_tuple in E.
    destruct (write_size (nlen fs)) as [sz| | |] eqn:S; cbn [bind] in E; try discriminate.
    destruct (enc_fields md dp fs) as [r| | |] eqn:R; cbn [bind] in E; try discriminate.
    inversion E; subst bs. rewrite <- app_assoc. rewrite (write_size_read _ _ _ S). cbn [bind].
    cbn [wf_value] in W. cbn [valid_value] in V.
    assert (Ls := write_size_nonempty _ _ S). rewrite !app_length in Hf.
    rewrite (D1_fields fs H md dp r W V R) by (rewrite app_length; lia). reflexivity.
  - (* Map *) rewrite enc_body_map in E.
    destruct (write_size (nlen es)) as [sz| | |] eqn:S; cbn [bind] in E; try discriminate.
    destruct (enc_entries md dp kk vk es) as [r| | |] eqn:R; cbn [bind] in E; try discriminate.
    inversion E; subst bs. rewrite wf_value_map in W. apply andb_true_iff in W. destruct W as [W We].
    apply andb_true_iff in W. destruct W as [Wk Wv]. rewrite valid_value_map in V.
    cbn [app]. rewrite read_value_kind_as by exact Wk. cbn [bind].
    rewrite read_value_kind_as by exact Wv. cbn [bind].
    rewrite <- app_assoc. rewrite (write_size_read _ _ _ S). cbn [bind].
    cbn [app length] in Hf. rewrite !app_length in Hf.
    rewrite (D1_entries es H md dp kk vk r We V R) by (rewrite app_length; lia). reflexivity.
  - (* Custom *) cbn [wf_value] in W. apply andb_true_iff in W. destruct W as [Wf Wc]. rewrite Wf.
    cbn [enc_body] in E. cbn [valid_value] in V. rewrite (dec_enc_custom c bs rest Wc V E). reflexivity.
Qed.

(* ------------------------------------------------------------------------------------------ *)
(* direction 2 (canonicity): whatever decodes re-encodes to exactly the consumed bytes         *)
Definition enc_list (md d : N) (ek : option vkind) (vs : list value) : eres bytes :=
  match ek with None => enc_fields md d vs | Some k => enc_elems md d k vs end.

Definition P2_body (f : nat) : Prop := forall md d k st v rest,
  bytes_ok st = true -> kind_ok fl k = true -> dec_body fl f md d k st = Ok (v, rest) ->
  value_kind v = k /\ wf_value fl v = true /\ valid_value v = true /\
  exists bs, st = bs ++ rest /\ enc_body md d v = Ok bs.
Definition P2_elems (f : nat) : Prop := forall md d ek n st vs rest,
  bytes_ok st = true -> (forall k, ek = Some k -> kind_ok fl k = true) ->
  dec_elems fl f md d ek n st = Ok (vs, rest) ->
  nlen vs = n /\ forallb (wf_value fl) vs = true /\ forallb valid_value vs = true /\
  exists bs, st = bs ++ rest /\ enc_list md d ek vs = Ok bs.
Definition P2_entries (f : nat) : Prop := forall md d kk vk n st es rest,
  bytes_ok st = true -> kind_ok fl kk = true -> kind_ok fl vk = true ->
  dec_entries fl f md d kk vk n st = Ok (es, rest) ->
  nlen es = n /\ wf_entries fl es = true /\ valid_entries es = true /\
  exists bs, st = bs ++ rest /\ enc_entries md d kk vk es = Ok bs.

Lemma P2_deeper : forall f, P2_body f -> forall md d k st v rest,
  bytes_ok st = true -> kind_ok fl k = true -> dec_deeper fl f md d k st = Ok (v, rest) ->
  value_kind v = k /\ wf_value fl v = true /\ valid_value v = true /\
  exists bs, st = bs ++ rest /\ enc_deeper md d v = Ok bs.
Proof.
  intros f H md d k st v rest Hok Hk D. unfold dec_deeper in D. unfold enc_deeper.
  destruct (md <? d + 1); [discriminate|]. eapply H; eassumption.
Qed.

Lemma P2_elems_step : forall f, P2_body f -> P2_elems f -> P2_elems (S f).
Proof.
  intros f HB HE md d ek n st vs rest Hok Hek D. rewrite dec_elems_S in D.
  destruct (n =? 0) eqn:N0.
  { apply N.eqb_eq in N0. inversion D; subst. repeat split. exists []. split; [reflexivity|]. destruct ek; reflexivity. }
  apply N.eqb_neq in N0.
  destruct ek as [k|].
  - destruct (dec_deeper fl f md d k st) as [[v st1]| | |] eqn:D1; cbn [bind] in D; try discriminate.
    destruct (dec_elems fl f md d (Some k) (n - 1) st1) as [[vs' st2]| | |] eqn:D2; cbn [bind] in D; try discriminate.
    inversion D; subst vs rest. clear D.
    apply (P2_deeper f HB) in D1; [|exact Hok|apply Hek; reflexivity].
    destruct D1 as [K [W [V [b [E1 E2]]]]]. subst st.
    apply bytes_ok_split in Hok. destruct Hok as [_ Hok1].
    apply HE in D2; [|exact Hok1|exact Hek]. destruct D2 as [L [Ws [Vs [r [E3 E4]]]]]. subst st1.
    split; [rewrite nlen_cons; lia|]. split; [cbn [forallb]; rewrite W, Ws; reflexivity|].
    split; [cbn [forallb]; rewrite V, Vs; reflexivity|].
    exists (b ++ r). split; [rewrite app_assoc; reflexivity|].
    cbn [enc_list enc_elems]. fold (enc_elems md d k). rewrite K, kind_eqb_refl. cbn [negb].
    rewrite E2. cbn [bind]. cbn [enc_list] in E4. rewrite E4. reflexivity.
  - destruct (read_value_kind fl st) as [[k st0]| | |] eqn:RK; cbn [bind] in D; try discriminate.
    apply read_value_kind_ok in RK. destruct RK as [Est Hk]. subst st.
    rewrite bytes_ok_cons in Hok. apply andb_true_iff in Hok. destruct Hok as [_ Hok0].
    destruct (dec_deeper fl f md d k st0) as [[v st1]| | |] eqn:D1; cbn [bind] in D; try discriminate.
    destruct (dec_elems fl f md d None (n - 1) st1) as [[vs' st2]| | |] eqn:D2; cbn [bind] in D; try discriminate.
    inversion D; subst vs rest. clear D.
    apply (P2_deeper f HB) in D1; [|exact Hok0|exact Hk].
    destruct D1 as [K [W [V [b [E1 E2]]]]]. subst st0.
    apply bytes_ok_split in Hok0. destruct Hok0 as [_ Hok1].
    apply HE in D2; [|exact Hok1|exact Hek]. destruct D2 as [L [Ws [Vs [r [E3 E4]]]]]. subst st1.
    split; [rewrite nlen_cons; lia|]. split; [cbn [forallb]; rewrite W, Ws; reflexivity|].
    split; [cbn [forallb]; rewrite V, Vs; reflexivity|].
    exists ((kind_u8 k :: b) ++ r). split; [cbn [app]; rewrite app_assoc; reflexivity|].
    cbn [enc_list enc_fields]. fold (enc_fields md d). unfold enc_value at 1. rewrite E2. cbn [bind].
    cbn [enc_list] in E4. rewrite E4. cbn [bind]. rewrite K. reflexivity.
Qed.

Lemma P2_entries_step : forall f, P2_body f -> P2_entries f -> P2_entries (S f).
Proof.
  intros f HB HE md d kk vk n st es rest Hok Hkk Hvk D. rewrite dec_entries_S in D.
  destruct (n =? 0) eqn:N0.
  { apply N.eqb_eq in N0. inversion D; subst. repeat split. exists []. split; reflexivity. }
  apply N.eqb_neq in N0.
  destruct (dec_deeper fl f md d kk st) as [[k st1]| | |] eqn:D1; cbn [bind] in D; try discriminate.
  destruct (dec_deeper fl f md d vk st1) as [[x st2]| | |] eqn:D2; cbn [bind] in D; try discriminate.
  destruct (dec_entries fl f md d kk vk (n - 1) st2) as [[es' st3]| | |] eqn:D3; cbn [bind] in D; try discriminate.
  inversion D; subst es rest. clear D.
  apply (P2_deeper f HB) in D1; [|exact Hok|exact Hkk].
  destruct D1 as [K1 [W1 [V1 [a [E1 E2]]]]]. subst st.
  apply bytes_ok_split in Hok. destruct Hok as [_ Hok1].
  apply (P2_deeper f HB) in D2; [|exact Hok1|exact Hvk].
  destruct D2 as [K2 [W2 [V2 [b [E3 E4]]]]]. subst st1.
  apply bytes_ok_split in Hok1. destruct Hok1 as [_ Hok2].
  apply HE in D3; [|exact Hok2|exact Hkk|exact Hvk]. destruct D3 as [L [Ws [Vs [r [E5 E6]]]]]. subst st2.
  split; [rewrite nlen_cons; lia|].
  split; [cbn [wf_entries]; fold (wf_entries fl); rewrite W1, W2, Ws; reflexivity|].
  split; [cbn [valid_entries]; fold valid_entries; rewrite V1, V2, Vs; reflexivity|].
  exists (a ++ b ++ r). split; [rewrite <- !app_assoc; reflexivity|].
  cbn [enc_entries]. fold (enc_entries md d kk vk). rewrite K1, K2, !kind_eqb_refl. cbn [negb].
  rewrite E2. cbn [bind]. rewrite E4. cbn [bind]. rewrite E6. reflexivity.
Qed.

Lemma P2_body_step : forall f, P2_elems f -> P2_entries f -> P2_body (S f).
Proof.
  intros f HE HM md d k st v rest Hok Hk D. rewrite dec_body_S in D.
  destruct k as [|i| | | | | |c].
  - (* Bool *)
    destruct st as [|b st']; cbn [read_byte bind] in D; [discriminate|].
    destruct (b =? 0) eqn:B0; [apply N.eqb_eq in B0; subst b; inversion D; subst|].
    { repeat split. exists [0]. split; reflexivity. }
    destruct (b =? 1) eqn:B1; [apply N.eqb_eq in B1; subst b; inversion D; subst|discriminate].
    repeat split. exists [1]. split; reflexivity.
  - (* Int *)
    destruct (read_slice (ikind_bytes i) st) as [[s st1]| | |] eqn:S; cbn [bind] in D; try discriminate.
    inversion D; subst v rest. clear D. apply read_slice_ok in S. destruct S as [E L]. subst st.
    apply bytes_ok_split in Hok. destruct Hok as [Hs _].
    destruct (enc_dec_int i s L Hs) as [I1 I2].
    repeat split; try assumption. exists s. split; [reflexivity|]. cbn [enc_body]. rewrite I2. reflexivity.
  - (* String *)
    destruct (read_size st) as [[n st1]| | |] eqn:R; cbn [bind] in D; try discriminate.
    destruct (read_slice n st1) as [[s st2]| | |] eqn:S; cbn [bind] in D; try discriminate.
    destruct (utf8_valid s) eqn:U; [|discriminate]. inversion D; subst v rest. clear D.
    apply read_size_write in R; [|exact Hok]. destruct R as [sz [E1 [W _]]]. subst st.
    apply read_slice_ok in S. destruct S as [E2 L]. subst st1 n.
    apply bytes_ok_split in Hok. destruct Hok as [_ Hok]. apply bytes_ok_split in Hok. destruct Hok as [Hs _].
    repeat split. { cbn [wf_value]. rewrite Hs, U. reflexivity. }
    exists (sz ++ s). split; [rewrite app_assoc; reflexivity|]. cbn [enc_body]. rewrite W. reflexivity.
  - (* Enum *)
    destruct st as [|disc st']; cbn [read_byte bind] in D; [discriminate|].
    rewrite bytes_ok_cons in Hok. apply andb_true_iff in Hok. destruct Hok as [Hd Hok].
    destruct (read_size st') as [[n st1]| | |] eqn:R; cbn [bind] in D; try discriminate.
    destruct (dec_elems fl f md d None n st1) as [[fs st2]| | |] eqn:DE; cbn [bind] in D; try discriminate.
    inversion D; subst v rest. clear D.
    apply read_size_write in R; [|exact Hok]. destruct R as [sz [E1 [W _]]]. subst st'.
    apply bytes_ok_split in Hok. destruct Hok as [_ Hok1].
    apply HE in DE; [|exact Hok1|discriminate]. destruct DE as [L [Ws [Vs [r [E3 E4]]]]]. subst st1 n.
    repeat split; try assumption. { cbn [wf_value]. rewrite Hd, Ws. reflexivity. }
    exists (disc :: sz ++ r). split; [cbn [app]; rewrite app_assoc; reflexivity|].
    rewrite enc_body_enum, W. cbn [bind]. cbn [enc_list] in E4. rewrite E4. reflexivity.
  - (* Array *)
    destruct (read_value_kind fl st) as [[ek st0]| | |] eqn:RK; cbn [bind] in D; try discriminate.
    apply read_value_kind_ok in RK. destruct RK as [Est Hek]. subst st.
    rewrite bytes_ok_cons in Hok. apply andb_true_iff in Hok. destruct Hok as [_ Hok].
    destruct (read_size st0) as [[n st1]| | |] eqn:R; cbn [bind] in D; try discriminate.
    destruct (dec_elems fl f md d (Some ek) n st1) as [[es st2]| | |] eqn:DE; cbn [bind] in D; try discriminate.
    inversion D; subst v rest. clear D.
    apply read_size_write in R; [|exact Hok]. destruct R as [sz [E1 [W _]]]. subst st0.
    apply bytes_ok_split in Hok. destruct Hok as [_ Hok1].
    apply HE in DE; [|exact Hok1|intros k0 Ek0; inversion Ek0; subst; exact Hek].
    destruct DE as [L [Ws [Vs [r [E3 E4]]]]]. subst st1 n.
    repeat split; try assumption. { cbn [wf_value]. rewrite Hek, Ws. reflexivity. }
    exists (kind_u8 ek :: sz ++ r). split; [cbn [app]; rewrite app_assoc; reflexivity|].
    rewrite enc_body_array, W. cbn [bind]. cbn [enc_list] in E4. rewrite E4. reflexivity.
  - (* Tuple *)
    destruct (read_size st) as [[n st1]| | |] eqn:R; cbn [bind] in D; try discriminate.
    destruct (dec_elems fl f md d None n st1) as [[fs st2]| | |] eqn:DE; cbn [bind] in D; try discriminate.
    inversion D; subst v rest. clear D.
    apply read_size_write in R; [|exact Hok]. destruct R as [sz [E1 [W _]]]. subst st.
    apply bytes_ok_split in Hok. destruct Hok as [_ Hok1].
    apply HE in DE; [|exact Hok1|discriminate]. destruct DE as [L [Ws [Vs [r [E3 E4]]]]]. subst st1 n.
    repeat split; try assumption.
    exists (sz ++ r). split; [rewrite app_assoc; reflexivity|].
    rewrite enc_body_tuple, W. cbn [bind]. cbn [enc_list] in E4. rewrite E4. reflexivity.
  - (* Map *)
    destruct (read_value_kind fl st) as [[kk st0]| | |] eqn:RK; cbn [bind] in D; try discriminate.
    apply read_value_kind_ok in RK. destruct RK as [Est Hkk]. subst st.
    rewrite bytes_ok_cons in Hok. apply andb_true_iff in Hok. destruct Hok as [_ Hok].
    destruct (read_value_kind fl st0) as [[vk st0']| | |] eqn:RV; cbn [bind] in D; try discriminate.
    apply read_value_kind_ok in RV. destruct RV as [Est Hvk]. subst st0.
    rewrite bytes_ok_cons in Hok. apply andb_true_iff in Hok. destruct Hok as [_ Hok].
    destruct (read_size st0') as [[n st1]| | |] eqn:R; cbn [bind] in D; try discriminate.
    destruct (dec_entries fl f md d kk vk n st1) as [[es st2]| | |] eqn:DE; cbn [bind] in D; try discriminate.
    inversion D; subst v rest. clear D.
    apply read_size_write in R; [|exact Hok]. destruct R as [sz [E1 [W _]]]. subst st0'.
    apply bytes_ok_split in Hok. destruct Hok as [_ Hok1].
    apply HM in DE; [|exact Hok1|exact Hkk|exact Hvk]. destruct DE as [L [Ws [Vs [r [E3 E4]]]]]. subst st1 n.
    repeat split; try assumption. { rewrite wf_value_map, Hkk, Hvk, Ws. reflexivity. }
    exists (kind_u8 kk :: kind_u8 vk :: sz ++ r). split; [cbn [app]; rewrite app_assoc; reflexivity|].
    rewrite enc_body_map, W. cbn [bind]. rewrite E4. reflexivity.
  - (* Custom *)
    cbn [kind_ok] in Hk. rewrite Hk in D.
    destruct (dec_custom c st) as [[cv st1]| | |] eqn:DC; cbn [bind] in D; try discriminate.
    inversion D; subst v rest. clear D.
    apply enc_dec_custom in DC; [|exact Hok]. destruct DC as [K [W [V [bs [E1 [E2 _]]]]]].
    split; [cbn [value_kind]; rewrite K; reflexivity|].
    split; [cbn [wf_value]; rewrite K, Hk, W; reflexivity|]. split; [exact V|].
    exists bs. split; assumption.
Qed.

Lemma P2_all : forall f, P2_body f /\ P2_elems f /\ P2_entries f.
Proof.
  induction f as [|f [IB [IE IM]]].
  - repeat split; repeat intro; discriminate.
  - split; [apply P2_body_step; assumption|]. split; [apply P2_elems_step; assumption|apply P2_entries_step; assumption].
Qed.

(* ------------------------------------------------------------------------------------------ *)
(* totality: no Panic, no OutOfFuel with fuel >= 2*|input|+1, every value consumes >= 1 byte   *)
Lemma rs_oof : forall st, read_size st = OutOfFuel -> False.
Proof. intros st H. apply (proj1 (read_size_total st)). exact H. Qed.
Lemma rs_panic : forall st, read_size st = Panic -> False.
Proof. intros st H. apply (proj2 (read_size_total st)). exact H. Qed.
Lemma rsl_oof : forall n st, read_slice n st = OutOfFuel -> False.
Proof. intros n st H. apply (proj1 (read_slice_total n st)). exact H. Qed.
Lemma rsl_panic : forall n st, read_slice n st = Panic -> False.
Proof. intros n st H. apply (proj2 (read_slice_total n st)). exact H. Qed.
Ltac leaf_bad H := exfalso; first [exact (rs_oof _ H)|exact (rs_panic _ H)|exact (rsl_oof _ _ H)|exact (rsl_panic _ _ H)].

Definition Tres {A} (n : nat) (strict : bool) (fuel_ok : Prop) (r : dres (A * bytes)) : Prop :=
  match r with
  | Ok (_, rest) => if strict then (length rest < n)%nat else (length rest <= n)%nat
  | Err _ => True
  | Panic => False
  | OutOfFuel => ~ fuel_ok
  end.

Lemma read_slice_len : forall n st s rest, read_slice n st = Ok (s, rest) ->
  length st = (length s + length rest)%nat /\ N.of_nat (length s) = n.
Proof.
  intros n st s rest H. apply read_slice_ok in H. destruct H as [E L]. subst st.
  rewrite app_length. rewrite nlen_spec in L. split; [reflexivity|exact L].
Qed.

Lemma dec_nfid_T : forall st, Tres (length st) true True (dec_nfid st).
Proof.
  intro st. unfold dec_nfid. destruct st as [|d st']; cbn [read_byte bind]; [exact I|].
  destruct (d =? 0).
  { destruct (read_size st') as [[n st1]| | |] eqn:R; cbn [bind]; try exact I;
      try (leaf_bad R).
    apply read_size_consumes in R.
    destruct (read_slice n st1) as [[s st2]| | |] eqn:S; cbn [bind]; try exact I;
      try (leaf_bad S).
    apply read_slice_len in S. destruct (utf8_valid s && nfid_valid (NfString s)); cbn; [lia|exact I]. }
  destruct (d =? 1).
  { destruct (read_slice 8 st') as [[s st2]| | |] eqn:S; cbn [bind]; try exact I;
      try (leaf_bad S).
    apply read_slice_len in S. cbn. lia. }
  destruct (d =? 2).
  { destruct (read_size st') as [[n st1]| | |] eqn:R; cbn [bind]; try exact I;
      try (leaf_bad R).
    apply read_size_consumes in R.
    destruct (read_slice n st1) as [[s st2]| | |] eqn:S; cbn [bind]; try exact I;
      try (leaf_bad S).
    apply read_slice_len in S. destruct (nfid_valid (NfBytes s)); cbn; [lia|exact I]. }
  destruct (d =? 3); [|exact I].
  destruct (read_slice 32 st') as [[s st2]| | |] eqn:S; cbn [bind]; try exact I;
    try (leaf_bad S).
  apply read_slice_len in S. cbn. lia.
Qed.

Ltac slice_T n st :=
  let s := fresh "s" in let st2 := fresh "st2" in let S := fresh "S" in
  destruct (read_slice n st) as [[s st2]| | |] eqn:S; cbn [bind]; try exact I;
    try (leaf_bad S);
  apply read_slice_len in S; cbn; try lia.

Lemma dec_custom_T : forall c st, Tres (length st) true True (dec_custom c st).
Proof.
  intros c st. destruct c; cbn [dec_custom].
  - slice_T 30 st.
  - slice_T 30 st.
  - slice_T 24 st.
  - slice_T 32 st.
  - assert (H := dec_nfid_T st). destruct (dec_nfid st) as [[id st1]| | |]; cbn [bind]; cbn in *; try exact I; try lia; try exact H.
  - destruct st as [|d st']; cbn [read_byte bind]; [exact I|].
    destruct (d =? 0).
    { destruct (read_slice 30 st') as [[s st2]| | |] eqn:S; cbn [bind]; try exact I;
        try (leaf_bad S).
      apply read_slice_len in S. destruct (cvalue_valid (MAddressStatic s)); cbn; [lia|exact I]. }
    destruct (d =? 1); [|exact I]. slice_T 4 st'.
  - slice_T 4 st.
  - slice_T 4 st.
  - destruct (read_slice 1 st) as [[s st2]| | |] eqn:S; cbn [bind]; try exact I;
      try (leaf_bad S).
    apply read_slice_len in S. destruct S as [S1 S2].
    destruct s as [|b [|b2 s]]; cbn [length] in S2; try lia.
    destruct (b =? 0); [cbn in *; lia|]. destruct (b =? 1); [cbn in *; lia|exact I].
  - slice_T 32 st.
  - slice_T 24 st.
  - slice_T 32 st.
  - assert (H := dec_nfid_T st). destruct (dec_nfid st) as [[id st1]| | |]; cbn [bind]; cbn in *; try exact I; try lia; try exact H.
  - slice_T 4 st.
Qed.

Definition T_body (f : nat) : Prop := forall md d k st, kind_ok fl k = true ->
  Tres (length st) true (2 * length st + 1 <= f)%nat (dec_body fl f md d k st).
Definition T_elems (f : nat) : Prop := forall md d ek n st,
  (forall k, ek = Some k -> kind_ok fl k = true) ->
  Tres (length st) false (2 * length st + 2 <= f)%nat (dec_elems fl f md d ek n st).
Definition T_entries (f : nat) : Prop := forall md d kk vk n st,
  kind_ok fl kk = true -> kind_ok fl vk = true ->
  Tres (length st) false (2 * length st + 2 <= f)%nat (dec_entries fl f md d kk vk n st).

Lemma T_deeper : forall f, T_body f -> forall md d k st, kind_ok fl k = true ->
  Tres (length st) true (2 * length st + 1 <= f)%nat (dec_deeper fl f md d k st).
Proof. intros f H md d k st Hk. unfold dec_deeper. destruct (md <? d + 1); [exact I|]. apply H. exact Hk. Qed.

Lemma read_value_kind_len : forall st k rest, read_value_kind fl st = Ok (k, rest) ->
  length st = S (length rest) /\ kind_ok fl k = true.
Proof. intros st k rest H. apply read_value_kind_ok in H. destruct H as [E K]. subst st. split; [reflexivity|exact K]. Qed.
Lemma read_value_kind_total : forall st, read_value_kind fl st <> OutOfFuel /\ read_value_kind fl st <> Panic.
Proof.
  intro st. unfold read_value_kind. destruct st as [|b st']; cbn [read_byte bind]; [split; discriminate|].
  destruct (kind_from_u8 fl b); split; discriminate.
Qed.

Lemma rvk_oof : forall st, read_value_kind fl st = OutOfFuel -> False.
Proof. intros st H. apply (proj1 (read_value_kind_total st)). exact H. Qed.
Lemma rvk_panic : forall st, read_value_kind fl st = Panic -> False.
Proof. intros st H. apply (proj2 (read_value_kind_total st)). exact H. Qed.
Ltac rvk_bad H := exfalso; first [exact (rvk_oof _ H)|exact (rvk_panic _ H)].

Lemma T_elems_step : forall f, T_body f -> T_elems f -> T_elems (S f).
Proof.
  intros f HB HE md d ek n st Hek. rewrite dec_elems_S.
  destruct (n =? 0); [cbn; lia|].
  destruct ek as [k|].
  - assert (H1 := T_deeper f HB md d k st (Hek k eq_refl)).
    destruct (dec_deeper fl f md d k st) as [[v st1]| | |]; cbn [bind]; cbn [Tres] in *; try exact I; try lia.
    assert (H2 := HE md d (Some k) (n - 1) st1 Hek).
    destruct (dec_elems fl f md d (Some k) (n - 1) st1) as [[vs st2]| | |]; cbn [bind]; cbn [Tres] in *; try exact I; try lia.
  - destruct (read_value_kind fl st) as [[k st0]| | |] eqn:RK; cbn [bind]; try exact I;
      try (rvk_bad RK).
    apply read_value_kind_len in RK. destruct RK as [L Hk].
    assert (H1 := T_deeper f HB md d k st0 Hk).
    destruct (dec_deeper fl f md d k st0) as [[v st1]| | |]; cbn [bind]; cbn [Tres] in *; try exact I; try lia.
    assert (H2 := HE md d None (n - 1) st1 Hek).
    destruct (dec_elems fl f md d None (n - 1) st1) as [[vs st2]| | |]; cbn [bind]; cbn [Tres] in *; try exact I; try lia.
Qed.

Lemma T_entries_step : forall f, T_body f -> T_entries f -> T_entries (S f).
Proof.
  intros f HB HE md d kk vk n st Hkk Hvk. rewrite dec_entries_S.
  destruct (n =? 0); [cbn; lia|].
  assert (H1 := T_deeper f HB md d kk st Hkk).
  destruct (dec_deeper fl f md d kk st) as [[k st1]| | |]; cbn [bind]; cbn [Tres] in *; try exact I; try lia.
  assert (H2 := T_deeper f HB md d vk st1 Hvk).
  destruct (dec_deeper fl f md d vk st1) as [[x st2]| | |]; cbn [bind]; cbn [Tres] in *; try exact I; try lia.
  assert (H3 := HE md d kk vk (n - 1) st2 Hkk Hvk).
  destruct (dec_entries fl f md d kk vk (n - 1) st2) as [[es st3]| | |]; cbn [bind]; cbn [Tres] in *; try exact I; try lia.
Qed.

Lemma T_body_step : forall f, T_elems f -> T_entries f -> T_body (S f).
Proof.
  intros f HE HM md d k st Hk. rewrite dec_body_S.
  destruct k as [|i| | | | | |c].
  - destruct st as [|b st']; cbn [read_byte bind]; [exact I|].
    destruct (b =? 0); [cbn; lia|]. destruct (b =? 1); [cbn; lia|exact I].
  - destruct (read_slice (ikind_bytes i) st) as [[s st2]| | |] eqn:S; cbn [bind]; try exact I;
      try (leaf_bad S).
    apply read_slice_len in S. cbn. assert (1 <= ikind_bytes i) by (destruct i; cbv; discriminate). lia.
  - destruct (read_size st) as [[n st1]| | |] eqn:R; cbn [bind]; try exact I;
      try (leaf_bad R).
    apply read_size_consumes in R.
    destruct (read_slice n st1) as [[s st2]| | |] eqn:S; cbn [bind]; try exact I;
      try (leaf_bad S).
    apply read_slice_len in S. destruct (utf8_valid s); cbn; [lia|exact I].
  - (* Enum *)
    destruct st as [|disc st']; cbn [read_byte bind]; [exact I|].
    destruct (read_size st') as [[n st1]| | |] eqn:R; cbn [bind]; try exact I;
      try (leaf_bad R).
    apply read_size_consumes in R.
    assert (H2 := HE md d None n st1 ltac:(discriminate)).
    destruct (dec_elems fl f md d None n st1) as [[fs st2]| | |]; cbn [bind]; cbn [Tres length] in *; try exact I; try lia.
  - (* Array *)
    destruct (read_value_kind fl st) as [[ek st0]| | |] eqn:RK; cbn [bind]; try exact I;
      try (rvk_bad RK).
    apply read_value_kind_len in RK. destruct RK as [L Hek].
    destruct (read_size st0) as [[n st1]| | |] eqn:R; cbn [bind]; try exact I;
      try (leaf_bad R).
    apply read_size_consumes in R.
    assert (H2 := HE md d (Some ek) n st1 ltac:(intros k0 E0; inversion E0; subst; exact Hek)).
    destruct (dec_elems fl f md d (Some ek) n st1) as [[fs st2]| | |]; cbn [bind]; cbn [Tres] in *; try exact I; try lia.
  - (* Tuple *)
    destruct (read_size st) as [[n st1]| | |] eqn:R; cbn [bind]; try exact I;
      try (leaf_bad R).
    apply read_size_consumes in R.
    assert (H2 := HE md d None n st1 ltac:(discriminate)).
    destruct (dec_elems fl f md d None n st1) as [[fs st2]| | |]; cbn [bind]; cbn [Tres] in *; try exact I; try lia.
  - (* Map *)
    destruct (read_value_kind fl st) as [[kk st0]| | |] eqn:RK; cbn [bind]; try exact I;
      try (rvk_bad RK).
    apply read_value_kind_len in RK. destruct RK as [L Hkk].
    destruct (read_value_kind fl st0) as [[vk st0']| | |] eqn:RV; cbn [bind]; try exact I;
      try (rvk_bad RV).
    apply read_value_kind_len in RV. destruct RV as [L' Hvk].
    destruct (read_size st0') as [[n st1]| | |] eqn:R; cbn [bind]; try exact I;
      try (leaf_bad R).
    apply read_size_consumes in R.
    assert (H2 := HM md d kk vk n st1 Hkk Hvk).
    destruct (dec_entries fl f md d kk vk n st1) as [[es st2]| | |]; cbn [bind]; cbn [Tres] in *; try exact I; try lia.
  - (* Custom *)
    cbn [kind_ok] in Hk. rewrite Hk. assert (H := dec_custom_T c st).
    destruct (dec_custom c st) as [[cv st1]| | |]; cbn [bind]; cbn [Tres] in *; try exact I; try lia; try exact H; try (intros _; apply H; exact I).
Qed.

Lemma T_all : forall f, T_body f /\ T_elems f /\ T_entries f.
Proof.
  induction f as [|f [IB [IE IM]]].
  - repeat split; repeat intro; cbn; lia.
  - split; [apply T_body_step; assumption|]. split; [apply T_elems_step; assumption|apply T_entries_step; assumption].
Qed.
End Main.
