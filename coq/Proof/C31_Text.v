(* C31 — bounded exhaustive no-panic fact about the string lexer. *)
From Coq Require Import List NArith Bool Lia.
Import ListNotations.
Require Import RV.Model.C30_Text.
Open Scope N_scope.

(* C31: the string lexer never reaches a panic (u32 underflow, unreachable hex state) on any text over
   the escape-relevant alphabet (quote, backslash, u, d, 8, 0, c, x) of length <= 7 (exhaustive) *)
Definition not_panic (r : sres) : bool := match r with SPanic => false | _ => true end.
Definition sigma : list N := [34; 92; 117; 100; 56; 48; 99; 120].
Fixpoint no_panic_upto (n : nat) (prefix : list N) : bool :=
  not_panic (lex_string (rev prefix) 1 0 []) &&
  match n with
  | O => true
  | S n' => forallb (fun c => no_panic_upto n' (c :: prefix)) sigma
  end.
Fixpoint over_sigma (l : list N) : Prop :=
  match l with [] => True | c :: t => In c sigma /\ over_sigma t end.
Lemma no_panic_upto_spec : forall n prefix, no_panic_upto n prefix = true ->
  forall l, over_sigma l -> (length l <= n)%nat -> lex_string (rev prefix ++ l) 1 0 [] <> SPanic.
Proof.
  induction n as [|n IH]; intros prefix H l Hl Hlen; cbn [no_panic_upto] in H; apply andb_true_iff in H; destruct H as [H1 H2].
  - destruct l; [|cbn in Hlen; lia]. rewrite app_nil_r. intro E; rewrite E in H1; discriminate.
  - destruct l as [|c t].
    + rewrite app_nil_r. intro E; rewrite E in H1; discriminate.
    + destruct Hl as [Hc Ht]. rewrite forallb_forall in H2. specialize (H2 c Hc).
      replace (rev prefix ++ c :: t) with (rev (c :: prefix) ++ t) by (cbn; rewrite <- app_assoc; reflexivity).
      apply IH; [exact H2 | exact Ht | cbn in Hlen; lia].
Qed.
Lemma lex_string_no_panic_sigma7 : forall l, over_sigma l -> (length l <= 7)%nat -> lex_string l 1 0 [] <> SPanic.
Proof.
  assert (H : no_panic_upto 7 [] = true) by (vm_compute; reflexivity).
  intros l Hl Hn. apply (no_panic_upto_spec 7 [] H l Hl Hn).
Qed.
