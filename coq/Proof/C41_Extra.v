(* Proof/C41_Extra.v — (a) the upper ratio bound on the amounts a contribution takes, with the exact
   excess the two-resource pool's tie-break allows; (b) contribute never panics for Decimal-range
   inputs. *)
From Coq Require Import ZArith List Bool Lia.
Import ListNotations.
Require Import RV.Model.C41_Pool RV.Proof.C41_Pool.
Open Scope Z_scope.

(* ---------------------------------------------------------------------------------------------- *)
(* (a) upper ratio bound *)

(* taken_j <= c_i·R_j/R_i + R_j/(R_i·10^18) + R_j/10^36 (in attos), written without division *)
Definition ratio_upper (ri ci rj tj : Z) : Prop :=
  tj * ri * PP <= ci * rj * PP + rj * DD + rj * ri.
(* the exact bound *)
Definition ratio_exact (ri ci rj tj : Z) : Prop := tj * ri <= ci * rj.

Lemma ratio_exact_upper ri ci rj tj :
  0 <= ri -> 0 <= rj -> ratio_exact ri ci rj tj -> ratio_upper ri ci rj tj.
Proof.
  unfold ratio_exact, ratio_upper. intros. pose proof PP_pos. pose proof DD_pos.
  assert (tj * ri * PP <= ci * rj * PP) by nia. nia.
Qed.

Lemma two_candidate_valid sp r1p c c1p c2p a1 a2 mm :
  two_candidate sp r1p c c1p c2p = Some (a1, a2, mm) -> a1 <= c1p /\ a2 <= c2p.
Proof.
  unfold two_candidate. destruct c as [[x1 x2]|]; [|discriminate].
  destruct (Z.leb_spec x1 c1p); destruct (Z.leb_spec x2 c2p); cbn [andb]; try discriminate.
  destruct (obind _ _) as [m|]; [|discriminate].
  intros HH. assert (x1 = a1 /\ x2 = a2) as [<- <-] by (split; congruence). auto.
Qed.

(* candidate A: resource 1 in full, x of resource 2 *)
Lemma cand_A_upper r1 r2 c1 c2 q x :
  0 < r1 -> 0 < r2 -> 0 <= c1 -> 0 <= c2 ->
  pd_div (c1 * DD) (r1 * DD) = Some q -> pd_mul q (r2 * DD) = Some x -> x <= c2 * DD ->
  ratio_upper r2 c2 r1 c1 /\ ratio_exact r1 c1 r2 (x / DD) /\ 0 <= x.
Proof.
  intros H1 H2 Hc1 Hc2 Eq Ex Hv. pose proof DD_pos as HD. pose proof PP_pos as HP.
  apply pd_div_some in Eq; [|nia|nia].
  assert (Hq0 : 0 <= q) by (subst q; apply Z.div_pos; nia).
  apply pd_mul_some in Ex; [|lia|nia].
  assert (Hx0 : 0 <= x) by (subst x; apply Z.div_pos; nia).
  (* q = ⌊c1·P/r1⌋ *)
  assert (Hq : q = c1 * PP / r1).
  { subst q. rewrite <- (Z.mul_assoc c1 DD PP), (Z.mul_comm DD PP), (Z.mul_assoc c1 PP DD).
    apply Z.div_mul_cancel_r; lia. }
  pose proof (Z.mul_div_le (c1 * PP) r1 H1) as Hq1. rewrite <- Hq in Hq1.
  pose proof (div_lt_succ_mul (c1 * PP) r1 H1) as Hq2. rewrite <- Hq in Hq2.
  pose proof (Z.mul_div_le (q * (r2 * DD)) PP HP) as Hx1. rewrite <- Ex in Hx1.
  pose proof (div_lt_succ_mul (q * (r2 * DD)) PP HP) as Hx2. rewrite <- Ex in Hx2.
  pose proof (Z.mul_div_le x DD HD) as Hxd.
  rewrite PP_DD in *.
  split; [|split; [|auto]].
  - unfold ratio_upper. rewrite PP_DD.
    (* q·r2·D < (x+1)·D·D <= (c2·D+1)·D·D  ==>  q·r2 < c2·D·D + D *)
    assert (q * r2 < c2 * (DD * DD) + DD) by nia.
    assert (c1 * (DD * DD) * r2 < (q + 1) * r1 * r2) by nia.
    nia.
  - unfold ratio_exact.
    assert ((x / DD) * (DD * DD) <= q * r2) by nia.
    assert ((x / DD) * (DD * DD) * r1 <= c1 * (DD * DD) * r2) by nia.
    nia.
Qed.

(* candidate B: y of resource 1, resource 2 in full *)
Lemma cand_B_upper r1 r2 c1 c2 q2 y :
  0 < r1 -> 0 < r2 -> 0 <= c1 -> 0 <= c2 ->
  pd_div (c2 * DD) (r2 * DD) = Some q2 -> pd_mul q2 (r1 * DD) = Some y -> y <= c1 * DD ->
  ratio_exact r2 c2 r1 (y / DD) /\ ratio_upper r1 c1 r2 c2 /\ 0 <= y.
Proof.
  intros H1 H2 Hc1 Hc2 Eq Ey Hv.
  destruct (cand_A_upper r2 r1 c2 c1 q2 y H2 H1 Hc2 Hc1 Eq Ey Hv) as (A & B & C). auto.
Qed.

Lemma floor_to_le_nonneg d x : 0 < d -> 0 <= x -> 0 <= floor_to d x <= x.
Proof. intros. split; [apply floor_to_nonneg; lia|apply floor_to_le; lia]. Qed.

Theorem two_contribute_ratio dv1 dv2 S r1 r2 c1 c2 p' m t1 t2 :
  two_contribute dv1 dv2 S r1 r2 c1 c2 = POk (p', m, [t1; t2]) ->
  0 < S -> 0 <= r1 -> 0 <= r2 -> 0 <= c1 -> 0 <= c2 ->
  (0 < r2 -> ratio_upper r2 c2 r1 t1) /\ (0 < r1 -> ratio_upper r1 c1 r2 t2).
Proof.
  unfold two_contribute. intros H HS Hr1 Hr2 Hc1 Hc2. pose proof DD_pos as HD. pose proof PP_pos as HP.
  destruct (pd_of_dec S) as [sp| |] eqn:Es; cbn [pbind] in H; try discriminate.
  destruct (pd_of_dec r1) as [r1p| |] eqn:Er1; cbn [pbind] in H; try discriminate.
  destruct (pd_of_dec r2) as [r2p| |] eqn:Er2; cbn [pbind] in H; try discriminate.
  destruct (pd_of_dec c1) as [c1p| |] eqn:Ec1; cbn [pbind] in H; try discriminate.
  destruct (pd_of_dec c2) as [c2p| |] eqn:Ec2; cbn [pbind] in H; try discriminate.
  apply pd_of_dec_ok in Es, Er1, Er2, Ec1, Ec2. subst.
  match type of H with pbind ?X _ = _ => destruct X as [[[a1p a2p] mp]| |] eqn:Em; cbn [pbind] in H; try discriminate end.
  assert (Hb : 0 <= a1p /\ 0 <= a2p /\
               (0 < r2 -> ratio_upper r2 c2 r1 (a1p / DD)) /\ (0 < r1 -> ratio_upper r1 c1 r2 (a2p / DD))).
  { destruct (Z.ltb_spec 0 (S * DD)) as [HS1|HS1]; [|nia].
    destruct (Z.ltb_spec 0 (r1 * DD)) as [Hr1p|Hr1p], (Z.ltb_spec 0 (r2 * DD)) as [Hr2p|Hr2p].
    - match type of Em with orerr _ ?X = _ => destruct X as [[[x1 x2] xm]|] eqn:Ep; cbn [orerr] in Em; [|discriminate] end.
      assert (x1 = a1p /\ x2 = a2p /\ xm = mp) as (-> & -> & ->) by (repeat split; congruence).
      apply two_pick_cases in Ep. destruct Ep as [Ep|Ep]; pose proof (two_candidate_valid _ _ _ _ _ _ _ _ Ep) as [Hv1 Hv2];
        apply two_candidate_some in Ep; destruct Ep as [Ec _].
      + destruct (pd_div (c1 * DD) (r1 * DD)) as [q1|] eqn:Eq1; cbn [obind option_map] in Ec; [|discriminate].
        destruct (pd_mul q1 (r2 * DD)) as [x|] eqn:Ex; cbn [option_map] in Ec; [|discriminate].
        assert (a1p = c1 * DD /\ a2p = x) as [-> ->] by (split; congruence).
        destruct (cand_A_upper r1 r2 c1 c2 q1 x ltac:(nia) ltac:(nia) Hc1 Hc2 Eq1 Ex Hv2) as (A & B & C).
        rewrite Z.div_mul by lia. repeat split; try nia; auto.
        intros _. apply ratio_exact_upper; auto.
      + destruct (pd_div (c2 * DD) (r2 * DD)) as [q2|] eqn:Eq2; cbn [obind option_map] in Ec; [|discriminate].
        destruct (pd_mul q2 (r1 * DD)) as [y|] eqn:Ey; cbn [option_map] in Ec; [|discriminate].
        assert (a1p = y /\ a2p = c2 * DD) as [-> ->] by (split; congruence).
        destruct (cand_B_upper r1 r2 c1 c2 q2 y ltac:(nia) ltac:(nia) Hc1 Hc2 Eq2 Ey Hv1) as (A & B & C).
        rewrite Z.div_mul by lia. repeat split; try nia; auto.
        intros _. apply ratio_exact_upper; auto.
    - (* only resource 1 has reserves: nothing of resource 2 is taken *)
      destruct (pd_div (c1 * DD) (r1 * DD)) as [q|] eqn:Eq; cbn [obind orerr pbind] in Em; [|discriminate].
      destruct (pd_mul q (S * DD)) as [x|] eqn:Ex; cbn [orerr pbind] in Em; [|discriminate].
      assert (a1p = c1 * DD /\ a2p = 0) as [-> ->] by (split; congruence).
      assert (r2 = 0) by nia. subst r2. rewrite Z.div_0_l by lia.
      repeat split; try nia. intros _. unfold ratio_upper. nia.
    - destruct (pd_div (c2 * DD) (r2 * DD)) as [q|] eqn:Eq; cbn [obind orerr pbind] in Em; [|discriminate].
      destruct (pd_mul q (S * DD)) as [x|] eqn:Ex; cbn [orerr pbind] in Em; [|discriminate].
      assert (a1p = 0 /\ a2p = c2 * DD) as [-> ->] by (split; congruence).
      assert (r1 = 0) by nia. subst r1. rewrite Z.div_0_l by lia.
      repeat split; try nia. intros _. unfold ratio_upper. nia.
    - discriminate. }
  destruct Hb as (Ha1 & Ha2 & Hu1 & Hu2).
  destruct (to_dec_or_overflow a1p) as [a1| |] eqn:Ea1; cbn [pbind] in H; try discriminate.
  destruct (to_dec_or_overflow a2p) as [a2| |] eqn:Ea2; cbn [pbind] in H; try discriminate.
  destruct (to_dec_or_overflow mp) as [m'| |] eqn:Emd; cbn [pbind] in H; try discriminate.
  apply to_dec_or_overflow_ok in Ea1; [|auto]. apply to_dec_or_overflow_ok in Ea2; [|auto].
  assert (Ha10 : 0 <= a1) by (subst a1; apply Z.div_pos; lia).
  assert (Ha20 : 0 <= a2) by (subst a2; apply Z.div_pos; lia).
  destruct (take_advanced EBucket dv1 c1 a1 WDown) as [[u1 rest1]| |] eqn:Et1; cbn [pbind] in H; try discriminate.
  destruct (take_advanced EBucket dv2 c2 a2 WDown) as [[u2 rest2]| |] eqn:Et2; cbn [pbind] in H; try discriminate.
  apply take_down_ok in Et1; [|auto]. apply take_down_ok in Et2; [|auto].
  destruct Et1 as (Hdv1 & Ht1 & _). destruct Et2 as (Hdv2 & Ht2 & _).
  match type of H with (if ?X then _ else _) = _ => destruct X; [discriminate|] end.
  destruct (m' =? 0); [discriminate|].
  destruct (mint_units S m') as [s'| |]; cbn [pbind] in H; try discriminate.
  destruct (vault_put r1 u1) as [r1'| |]; cbn [pbind] in H; try discriminate.
  destruct (vault_put r2 u2) as [r2'| |]; cbn [pbind] in H; try discriminate.
  match type of H with (if ?X then _ else _) = _ => destruct X; [discriminate|] end.
  assert (u1 = t1 /\ u2 = t2) as [-> ->] by (split; congruence).
  pose proof (floor_to_le_nonneg (step dv1) a1 (step_pos dv1 ltac:(lia)) Ha10) as Hf1.
  pose proof (floor_to_le_nonneg (step dv2) a2 (step_pos dv2 ltac:(lia)) Ha20) as Hf2.
  rewrite <- Ht1 in Hf1. rewrite <- Ht2 in Hf2. rewrite <- Ea1 in Hu1. rewrite <- Ea2 in Hu2.
  unfold ratio_upper in *. split; intros Hpos.
  - specialize (Hu1 Hpos).
    assert (t1 * r2 * PP <= a1 * r2 * PP).
    { apply Z.mul_le_mono_nonneg_r; [lia|]. apply Z.mul_le_mono_nonneg_r; lia. }
    lia.
  - specialize (Hu2 Hpos).
    assert (t2 * r1 * PP <= a2 * r1 * PP).
    { apply Z.mul_le_mono_nonneg_r; [lia|]. apply Z.mul_le_mono_nonneg_r; lia. }
    lia.
Qed.

(* --- multi-resource pool: exact --- *)
Lemma Forall2_imp {A B} (P Q : A -> B -> Prop) l l' :
  (forall a b, P a b -> Q a b) -> Forall2 P l l' -> Forall2 Q l l'.
Proof. intros H. induction 1; constructor; auto. Qed.


(* k is at most every ratio c_i·P/r_i of a resource with non-zero reserves (a ratio whose
   computation overflows is skipped by the code, but then it is larger than every computed one) *)
Lemma fold_min_le l : forall x y, In y (x :: l) -> fold_left Z.min l x <= y.
Proof.
  induction l as [|a l IH]; intros x y Hin; cbn [fold_left].
  - destruct Hin as [->|[]]. lia.
  - destruct Hin as [->|[->|Hin]].
    + pose proof (IH (Z.min y a) (Z.min y a) ltac:(left; auto)). lia.
    + pose proof (IH (Z.min x y) (Z.min x y) ltac:(left; auto)). lia.
    + apply IH. right. auto.
Qed.
Lemma list_min_le l k y : list_min l = Some k -> In y l -> k <= y.
Proof.
  destruct l as [|x l]; [discriminate|]. cbn [list_min]. intros H Hin.
  assert (k = fold_left Z.min l x) by congruence. subst. now apply fold_min_le.
Qed.
Lemma fold_min_bound l : forall x B, x < B -> fold_left Z.min l x < B.
Proof. induction l as [|a l IH]; intros x B H; cbn [fold_left]; [auto|]. apply IH. lia. Qed.

(* range tests on non-negative values, with the powers of two kept abstract *)
Lemma in256_nonneg z : 0 <= z -> in256 z = (z <? 2 ^ 255).
Proof.
  intros Hz. unfold in256, in_ity, I256, SI, imin, imax. cbn [isigned ibits].
  change (256 - 1) with 255. assert (0 < 2 ^ 255) by (apply Z.pow_pos_nonneg; lia).
  set (B := 2 ^ 255) in *.
  destruct (Z.leb_spec (- B) z); destruct (Z.leb_spec z (B - 1)); destruct (Z.ltb_spec z B); cbn [andb]; auto; lia.
Qed.
Lemma in384_nonneg z : 0 <= z -> in384 z = (z <? 2 ^ 383).
Proof.
  intros Hz. unfold in384, in_ity, I384, SI, imin, imax. cbn [isigned ibits].
  change (384 - 1) with 383. assert (0 < 2 ^ 383) by (apply Z.pow_pos_nonneg; lia).
  set (B := 2 ^ 383) in *.
  destruct (Z.leb_spec (- B) z); destruct (Z.leb_spec z (B - 1)); destruct (Z.ltb_spec z B); cbn [andb]; auto; lia.
Qed.
Lemma in192_nonneg z : 0 <= z -> in192 z = (z <? 2 ^ 191).
Proof.
  intros Hz. unfold in192, in_ity, I192, SI, imin, imax. cbn [isigned ibits].
  change (192 - 1) with 191. assert (0 < 2 ^ 191) by (apply Z.pow_pos_nonneg; lia).
  set (B := 2 ^ 191) in *.
  destruct (Z.leb_spec (- B) z); destruct (Z.leb_spec z (B - 1)); destruct (Z.ltb_spec z B); cbn [andb]; auto; lia.
Qed.
Lemma PP_lt : PP < 2 ^ 120. Proof. vm_compute. reflexivity. Qed.
Lemma pow_255_120 : 2 ^ 255 * 2 ^ 120 <= 2 ^ 383.
Proof. rewrite <- Z.pow_add_r by lia. apply Z.pow_le_mono_r; lia. Qed.
Lemma mulPP_in384 a : 0 <= a -> a < 2 ^ 255 -> in384 (a * PP) = true.
Proof.
  intros Ha Hlt. pose proof PP_pos. pose proof PP_lt. pose proof pow_255_120.
  rewrite in384_nonneg by nia. apply Z.ltb_lt.
  set (B := 2 ^ 255) in *. set (C := 2 ^ 120) in *. set (E := 2 ^ 383) in *.
  assert (a * PP < B * C) by nia. lia.
Qed.

Lemma pd_div_none_big a b : 0 <= a -> 0 < b -> a < 2 ^ 255 -> pd_div a b = None -> 2 ^ 255 <= a * PP / b.
Proof.
  intros Ha Hb Hlt H. unfold pd_div in H. pose proof PP_pos as HP.
  rewrite (mulPP_in384 a Ha Hlt) in H. destruct (Z.eqb_spec b 0); [lia|].
  rewrite Z.quot_div_nonneg in H by nia.
  assert (0 <= a * PP / b) by (apply Z.div_pos; nia).
  rewrite in256_nonneg in H by auto.
  destruct (Z.ltb_spec (a * PP / b) (2 ^ 255)); [discriminate|auto].
Qed.
Lemma pd_div_some_lt a b q : pd_div a b = Some q -> 0 <= a -> 0 < b -> q < 2 ^ 255.
Proof.
  intros H Ha Hb. pose proof H as H'. apply pd_div_some in H'; auto. pose proof PP_pos.
  unfold pd_div in H. destruct (in384 _); [|discriminate]. destruct (b =? 0); [discriminate|].
  rewrite Z.quot_div_nonneg in H by nia.
  assert (0 <= a * PP / b) by (apply Z.div_pos; nia).
  rewrite in256_nonneg in H by auto.
  destruct (Z.ltb_spec (a * PP / b) (2 ^ 255)); [|discriminate]. subst q. auto.
Qed.

Lemma ratios_spec rps cps : forall k,
  Forall (fun y => 0 <= y < 2 ^ 255) rps -> Forall (fun y => 0 <= y < 2 ^ 255) cps ->
  length rps = length cps ->
  list_min (ratios rps cps) = Some k ->
  k < 2 ^ 255 /\
  Forall2 (fun rp cp => 0 < rp -> k <= cp * PP / rp) rps cps.
Proof.
  intros k Hr Hc L Hmin.
  assert (Hall : Forall (fun y => y < 2 ^ 255) (ratios rps cps) /\
                 Forall2 (fun rp cp => 0 < rp -> (In (cp * PP / rp) (ratios rps cps) \/ 2 ^ 255 <= cp * PP / rp)) rps cps).
  { clear Hmin k. revert cps Hc L. induction Hr as [|rp rps Hrp Hr IH]; intros cps Hc L; destruct cps as [|cp cps]; try discriminate.
    - split; constructor.
    - inversion Hc as [|? ? Hcp Hc']; subst. cbn [ratios].
      destruct (IH cps Hc' ltac:(cbn in L; lia)) as [IH1 IH2].
      destruct (Z.eqb_spec rp 0).
      + split; [auto|]. constructor; [lia|auto].
      + destruct (pd_div cp rp) as [q|] eqn:E.
        * pose proof E as E'. apply pd_div_some in E'; [|lia|lia]. subst q.
          assert (cp * PP / rp < 2 ^ 255) by (eapply pd_div_some_lt; [exact E| |]; lia).
          split; [constructor; auto|]. constructor; [intros _; left; left; reflexivity|].
          eapply Forall2_imp; [|exact IH2]. cbn. intros a b Hab Hpos. destruct (Hab Hpos); [left; right; auto|right; auto].
        * split; [auto|]. constructor; [|auto].
          intros _. right. apply pd_div_none_big; auto; lia. }
  destruct Hall as [H1 H2]. split.
  - destruct (ratios rps cps) as [|x l]; [discriminate|]. cbn [list_min] in Hmin.
    assert (k = fold_left Z.min l x) by congruence. subst. inversion H1; subst. now apply fold_min_bound.
  - assert (Hk : k < 2 ^ 255).
    { destruct (ratios rps cps) as [|x l]; [discriminate|]. cbn [list_min] in Hmin.
      assert (k = fold_left Z.min l x) by congruence. subst. inversion H1; subst. now apply fold_min_bound. }
    eapply Forall2_imp; [|exact H2]. cbn. intros a b Hab Hpos.
    destruct (Hab Hpos) as [Hin|Hbig]; [eapply list_min_le; eauto|lia].
Qed.

Lemma multi_take_upper dvs : forall rs cs k rs' ts,
  length dvs = length rs -> length rs = length cs ->
  Forall (fun y => 0 <= y) rs -> 0 <= k ->
  multi_take dvs rs cs k = POk (rs', ts) -> Forall2 (fun r t => 0 <= t /\ t * PP <= k * r) rs ts.
Proof.
  induction dvs as [|dv dvs IH]; intros rs cs k rs' ts L1 L2 Hrs Hk H.
  - destruct rs; [|discriminate]. destruct cs; [|discriminate]. cbn in H.
    assert (ts = []) by congruence. subst. constructor.
  - destruct rs as [|r rs]; [discriminate|]. destruct cs as [|c cs]; [discriminate|].
    cbn [multi_take] in H. inversion Hrs as [|? ? Hr Hrs']; subst.
    pose proof DD_pos as HD. pose proof PP_pos as HP.
    destruct (pd_of_dec r) as [rp| |] eqn:Er; cbn [pbind] in H; try discriminate.
    apply pd_of_dec_ok in Er. subst rp.
    destruct (pd_mul (r * DD) k) as [ap|] eqn:Ea; cbn [orerr pbind] in H; try discriminate.
    apply pd_mul_some in Ea; [|nia|lia].
    destruct (to_dec_or_overflow ap) as [a| |] eqn:Ead; cbn [pbind] in H; try discriminate.
    apply to_dec_or_overflow_ok in Ead; [|subst ap; apply Z.div_pos; nia].
    assert (Ha : a = k * r / PP) by (subst a ap; now apply mul_ratio_to_dec).
    assert (Ha0 : 0 <= a) by (rewrite Ha; apply Z.div_pos; nia).
    destruct (take_advanced EBucket dv c a WDown) as [[t rest]| |] eqn:Et; cbn [pbind] in H; try discriminate.
    apply take_down_ok in Et; [|lia]. destruct Et as (Hdv & Ht & _).
    destruct ((t =? 0) && negb (r * DD =? 0)); [discriminate|].
    destruct (vault_put r t) as [r1| |]; cbn [pbind] in H; try discriminate.
    destruct (multi_take dvs rs cs k) as [[rs1 ts1]| |] eqn:Em; cbn [pbind] in H; try discriminate.
    assert (ts = t :: ts1) by congruence. subst ts.
    constructor; [|apply (IH rs cs k rs1 ts1); auto; cbn [length] in L1, L2; lia].
    pose proof (floor_to_le_nonneg (step dv) a (step_pos dv ltac:(lia)) Ha0) as Hf. rewrite <- Ht in Hf.
    pose proof (Z.mul_div_le (k * r) PP HP) as Hd. rewrite <- Ha in Hd.
    split; [lia|]. nia.
Qed.

Lemma pd_range_of_dec r : 0 <= r < 2 ^ 191 -> 0 <= r * DD < 2 ^ 255.
Proof.
  intros H. pose proof DD_pos. pose proof DD_lt.
  assert (2 ^ 191 * 2 ^ 60 <= 2 ^ 255) by (rewrite <- Z.pow_add_r by lia; apply Z.pow_le_mono_r; lia).
  set (A := 2 ^ 191) in *. set (B := 2 ^ 60) in *. set (C := 2 ^ 255) in *.
  split; [nia|]. assert (r * DD < A * B) by nia. lia.
Qed.

(* every amount taken by the multi-resource pool is at most the exact ratio of every resource with
   non-zero reserves: taken_j·R_i <= c_i·R_j *)
Theorem multi_contribute_ratio dvs S rs cs p' m ts :
  multi_contribute dvs S rs cs = POk (p', m, ts) ->
  length dvs = length rs -> length rs = length cs -> 0 < S ->
  Forall (fun y => 0 <= y < 2 ^ 191) rs -> Forall (fun y => 0 <= y < 2 ^ 191) cs ->
  Forall2 (fun rj tj => Forall2 (fun ri ci => 0 < ri -> ratio_exact ri ci rj tj) rs cs) rs ts.
Proof.
  unfold multi_contribute. intros H L1 L2 HS Hrs Hcs. pose proof DD_pos as HD. pose proof PP_pos as HP.
  destruct (pd_of_dec S) as [sp| |] eqn:Es; cbn [pbind] in H; try discriminate.
  destruct (pd_of_decs rs) as [rps| |] eqn:Er; cbn [pbind] in H; try discriminate.
  destruct (pd_of_decs cs) as [cps| |] eqn:Ec; cbn [pbind] in H; try discriminate.
  apply pd_of_dec_ok in Es. apply pd_of_decs_ok in Er, Ec. subst sp.
  match type of H with pbind ?X _ = _ => destruct X as [[[mp rs1] ts1]| |] eqn:Em; cbn [pbind] in H; try discriminate end.
  destruct (to_dec_or_overflow mp) as [m'| |]; cbn [pbind] in H; try discriminate.
  destruct (m' =? 0); [discriminate|].
  destruct (mint_units S m') as [s'| |]; cbn [pbind] in H; try discriminate.
  assert (ts = ts1) by congruence. subst ts1.
  destruct (Z.eqb_spec (S * DD) 0); [nia|].
  match type of Em with pbind ?X _ = _ => destruct X as [k| |] eqn:Ek; cbn [pbind] in Em; try discriminate end.
  destruct (multi_take dvs rs cs k) as [[rs2 ts2]| |] eqn:Et; cbn [pbind] in Em; try discriminate.
  destruct (pd_mul (S * DD) k) as [mp2|]; cbn [orerr pbind] in Em; try discriminate.
  assert (ts = ts2) by congruence. subst ts2.
  destruct (list_min (ratios rps cps)) as [k'|] eqn:El; cbn [orerr] in Ek; [|discriminate].
  assert (k' = k) by congruence. subst k'.
  assert (Hrp : Forall (fun y => 0 <= y < 2 ^ 255) rps).
  { subst rps. apply Forall_map. eapply Forall_impl; [|exact Hrs]. intros a Ha. now apply pd_range_of_dec. }
  assert (Hcp : Forall (fun y => 0 <= y < 2 ^ 255) cps).
  { subst cps. apply Forall_map. eapply Forall_impl; [|exact Hcs]. intros a Ha. now apply pd_range_of_dec. }
  destruct (ratios_spec rps cps k Hrp Hcp ltac:(subst; rewrite !map_length; auto) El) as [_ Hk].
  assert (Hk0 : 0 <= k).
  { eapply list_min_nonneg; eauto. apply ratios_nonneg.
    - eapply Forall_impl; [|exact Hrp]. cbn. lia.
    - eapply Forall_impl; [|exact Hcp]. cbn. lia. }
  assert (Hrs0 : Forall (fun y => 0 <= y) rs) by (eapply Forall_impl; [|exact Hrs]; cbn; lia).
  pose proof (multi_take_upper dvs rs cs k rs2 ts L1 L2 Hrs0 Hk0 Et) as Hup.
  (* k·r_i <= c_i·P for every i with r_i > 0 *)
  assert (Hkr : Forall2 (fun ri ci => 0 < ri -> k * ri <= ci * PP) rs cs).
  { subst rps cps. clear -Hk Hrs Hcs HD HP. revert cs Hk Hcs. induction Hrs as [|r rs Hr Hrs IH]; intros cs Hk Hcs;
      destruct cs as [|c cs]; cbn [map] in Hk; inversion Hk; subst; constructor.
    - intros Hpos. inversion Hcs; subst.
      specialize (H2 ltac:(nia)).
      assert (c * DD * PP / (r * DD) = c * PP / r).
      { rewrite <- (Z.mul_assoc c DD PP), (Z.mul_comm DD PP), (Z.mul_assoc c PP DD). apply Z.div_mul_cancel_r; lia. }
      rewrite H in H2. pose proof (Z.mul_div_le (c * PP) r Hpos). nia.
    - inversion Hcs; subst. apply IH; auto. }
  assert (Hgen : forall rso tso,
            Forall2 (fun r t => 0 <= t /\ t * PP <= k * r) rso tso -> Forall (fun y => 0 <= y) rso ->
            Forall2 (fun rj tj => Forall2 (fun ri ci => 0 < ri -> ratio_exact ri ci rj tj) rs cs) rso tso).
  { clear -Hkr HP Hk0. induction 1 as [|rj tj rso tso [Ht0 Ht] Hup IH]; intros Hnn; constructor.
    - inversion Hnn as [|? ? Hrj Hnn']; subst.
      eapply Forall2_imp; [|exact Hkr]. cbn. intros ri ci Hi Hpos. specialize (Hi Hpos).
      unfold ratio_exact.
      assert (tj * PP * ri <= k * rj * ri) by nia.
      assert (k * ri * rj <= ci * PP * rj) by nia.
      nia.
    - inversion Hnn; subst. apply IH; auto. }
  apply Hgen; auto.
Qed.

(* ---------------------------------------------------------------------------------------------- *)
(* (b) contribute never panics for Decimal-range inputs *)

Definition dec_range (a : Z) : Prop := 0 <= a < 2 ^ 191.

Lemma pd_to_dec_no_panic p : pd_to_dec p <> PPanic.
Proof.
  unfold pd_to_dec. pose proof (round_to_no_panic I256 36 18 RZero p ltac:(lia)).
  destruct (round_to I256 36 18 RZero p); cbn [pbind]; congruence.
Qed.
Lemma to_dec_no_panic p : to_dec_or_overflow p <> PPanic.
Proof.
  unfold to_dec_or_overflow. pose proof (pd_to_dec_no_panic p).
  destruct (pd_to_dec p) as [[x|]| |]; cbn [pbind orerr]; congruence.
Qed.
Lemma take_advanced_no_panic e dv bal a w : 0 <= dv <= 18 -> take_advanced e dv bal a w <> PPanic.
Proof.
  intros Hdv. unfold take_advanced.
  assert (H : (match w with WExact => POk (Some a) | WDown => dec_round dv RDown a | WUp => dec_round dv RUp a end) <> PPanic).
  { destruct w; [discriminate| |]; apply round_to_no_panic; lia. }
  destruct (match w with WExact => _ | WDown => _ | WUp => _ end) as [[x|]| |]; cbn [pbind]; try congruence; try discriminate.
  destruct (negb _); [discriminate|]. destruct (_ <? _); discriminate.
Qed.
Lemma take_advanced_bounds e dv bal a w t rest :
  take_advanced e dv bal a w = POk (t, rest) -> 0 <= t <= bal.
Proof.
  unfold take_advanced. intros H.
  destruct (match w with WExact => _ | WDown => _ | WUp => _ end) as [[x|]| |]; cbn [pbind] in H; try discriminate.
  destruct (amount_ok dv x) eqn:Ea; cbn [negb] in H; [|discriminate].
  destruct (Z.ltb_spec bal x); [discriminate|].
  assert (x = t) by congruence. subst. unfold amount_ok in Ea.
  destruct (Z.ltb_spec t 0); [discriminate|]. lia.
Qed.
Lemma vault_put_no_panic r a : 0 <= r + a < 2 ^ 191 -> vault_put r a <> PPanic.
Proof.
  intros H. unfold vault_put. rewrite in192_nonneg by lia.
  destruct (Z.ltb_spec (r + a) (2 ^ 191)); [discriminate|lia].
Qed.
Lemma mint_units_no_panic s m : mint_units s m <> PPanic.
Proof. unfold mint_units. destruct (_ <? _); [discriminate|]. destruct (_ <? _); [discriminate|]. destruct (in192 _); discriminate. Qed.
Lemma pd_of_dec_np a : dec_range a -> pd_of_dec a = POk (a * DD).
Proof. apply pd_of_dec_no_panic. Qed.

(* the bisection of iroot stays inside its bracket *)
Lemma iroot_go_bounds n x : forall fuel lo hi, lo < hi -> lo <= iroot_go fuel n x lo hi < hi.
Proof.
  induction fuel as [|k IH]; intros lo hi Hlt; cbn [iroot_go]; [lia|].
  destruct (Z.leb_spec (hi - lo) 1); [lia|].
  assert (lo < (lo + hi) / 2 < hi).
  { pose proof (Z.div_mod (lo + hi) 2 ltac:(lia)). pose proof (Z.mod_pos_bound (lo + hi) 2 ltac:(lia)). lia. }
  destruct (_ <=? x).
  - pose proof (IH ((lo + hi) / 2) hi ltac:(lia)). lia.
  - pose proof (IH lo ((lo + hi) / 2) ltac:(lia)). lia.
Qed.

Lemma pd_nth_root_no_panic n x : 1 <= n -> 0 <= x < 2 ^ 255 -> pd_nth_root n x <> PPanic.
Proof.
  intros Hn Hx. unfold pd_nth_root.
  destruct (_ || _); [discriminate|]. destruct (Z.eqb_spec n 1); [discriminate|].
  destruct (Z.eqb_spec x 0); [discriminate|].
  set (X := x * PP ^ (n - 1)).
  assert (HPk : 0 < PP ^ (n - 1) <= 2 ^ (120 * (n - 1))).
  { pose proof PP_pos. pose proof PP_lt. split; [apply Z.pow_pos_nonneg; lia|].
    rewrite Z.pow_mul_r by lia. apply Z.pow_le_mono_l. lia. }
  assert (HX : 0 < X < 2 ^ (255 + 120 * (n - 1))).
  { unfold X. rewrite Z.pow_add_r by lia.
    assert (0 < 2 ^ 255) by (apply Z.pow_pos_nonneg; lia).
    set (A := 2 ^ 255) in *. set (B := 2 ^ (120 * (n - 1))) in *. set (Q := PP ^ (n - 1)) in *. nia. }
  assert (Hlog : Z.log2 X < 255 + 120 * (n - 1)) by (apply Z.log2_lt_pow2; lia).
  unfold troot. destruct (Z.ltb_spec X 0); [lia|].
  unfold iroot. destruct (Z.leb_spec X 0); [lia|].
  assert (Hq : Z.log2 X / n + 1 <= 255).
  { assert (Z.log2 X / n < 255); [|lia]. apply Z.div_lt_upper_bound; [lia|]. nia. }
  assert (Hhi : 0 < 2 ^ (Z.log2 X / n + 1)).
  { apply Z.pow_pos_nonneg; [lia|]. pose proof (Z.log2_nonneg X). pose proof (Z.div_pos (Z.log2 X) n). lia. }
  pose proof (iroot_go_bounds n X (S (S (Z.to_nat (Z.log2 X)))) 0 (2 ^ (Z.log2 X / n + 1)) Hhi) as Hb.
  set (r := iroot_go _ n X 0 _) in *.
  assert (2 ^ (Z.log2 X / n + 1) <= 2 ^ 255) by (apply Z.pow_le_mono_r; lia).
  rewrite in256_nonneg by lia. destruct (Z.ltb_spec r (2 ^ 255)); [discriminate|lia].
Qed.

Lemma pd_of_decs_np l : Forall dec_range l -> pd_of_decs l = POk (map (fun a => a * DD) l).
Proof.
  induction 1 as [|a l Ha Hl IH]; cbn [pd_of_decs map]; [reflexivity|].
  rewrite (pd_of_dec_np a Ha). cbn [pbind]. rewrite IH. reflexivity.
Qed.

(* --- one-resource pool --- *)
Lemma one_contribute_no_panic S R c :
  dec_range S -> dec_range R -> dec_range c -> R + c < 2 ^ 191 -> one_contribute S R c <> PPanic.
Proof.
  intros HS HR Hc Hsum. unfold one_contribute. destruct (c =? 0); [discriminate|].
  rewrite (pd_of_dec_np R HR), (pd_of_dec_np S HS), (pd_of_dec_np c Hc). cbn [pbind].
  match goal with |- pbind ?X _ <> _ => assert (Hx : X <> PPanic) end.
  { destruct (0 <? S * DD), (0 <? R * DD); try discriminate.
    - destruct (obind _ _); discriminate.
    - destruct (pd_add _ _); discriminate. }
  match goal with |- pbind ?X _ <> _ => destruct X as [mp| |]; cbn [pbind]; try congruence; try discriminate end.
  pose proof (to_dec_no_panic mp).
  destruct (to_dec_or_overflow mp) as [m| |]; cbn [pbind]; try congruence; try discriminate.
  destruct (m =? 0); [discriminate|].
  pose proof (vault_put_no_panic R c ltac:(unfold dec_range in *; lia)).
  destruct (vault_put R c) as [r'| |]; cbn [pbind]; try congruence; try discriminate.
  pose proof (mint_units_no_panic S m).
  destruct (mint_units S m); cbn [pbind]; try congruence; discriminate.
Qed.

(* --- two-resource pool --- *)
Lemma two_new_np c1p c2p :
  (let+ mp := (if (c1p =? 0) || (c2p =? 0) then POk (Z.max c1p c2p)
               else match obind (pd_sqrt c1p) (fun q1 => obind (pd_sqrt c2p) (fun q2 => pd_mul q1 q2)) with
                    | None => PErr EDecOverflow
                    | Some v => let+ x := round_to I256 36 18 RUp v in orerr EDecOverflow x
                    end) in
   POk (c1p, c2p, mp)) <> PPanic.
Proof.
  destruct (_ || _); [discriminate|]. destruct (obind _ _) as [v|]; [|discriminate].
  pose proof (round_to_no_panic I256 36 18 RUp v ltac:(lia)).
  destruct (round_to I256 36 18 RUp v) as [[z|]| |]; cbn [pbind orerr]; try congruence; discriminate.
Qed.
Lemma two_contribute_no_panic dv1 dv2 S r1 r2 c1 c2 :
  0 <= dv1 <= 18 -> 0 <= dv2 <= 18 ->
  dec_range S -> dec_range r1 -> dec_range r2 -> dec_range c1 -> dec_range c2 ->
  r1 + c1 < 2 ^ 191 -> r2 + c2 < 2 ^ 191 ->
  two_contribute dv1 dv2 S r1 r2 c1 c2 <> PPanic.
Proof.
  intros Hd1 Hd2 HS Hr1 Hr2 Hc1 Hc2 Hs1 Hs2. unfold two_contribute.
  rewrite (pd_of_dec_np S HS), (pd_of_dec_np r1 Hr1), (pd_of_dec_np r2 Hr2), (pd_of_dec_np c1 Hc1), (pd_of_dec_np c2 Hc2).
  cbn [pbind].
  match goal with |- pbind ?X _ <> _ => assert (Hx : X <> PPanic) end.
  { destruct (0 <? r1 * DD), (0 <? r2 * DD), (0 <? S * DD);
      first [ apply two_new_np
            | discriminate
            | match goal with |- pbind (orerr _ ?o) _ <> _ => destruct o; cbn [orerr pbind]; discriminate end
            | match goal with |- orerr _ ?o <> _ => destruct o; discriminate end ]. }
  match goal with |- pbind ?X _ <> _ => destruct X as [[[a1p a2p] mp]| |]; cbn [pbind]; try congruence; try discriminate end.
  pose proof (to_dec_no_panic a1p). destruct (to_dec_or_overflow a1p) as [a1| |]; cbn [pbind]; try congruence; try discriminate.
  pose proof (to_dec_no_panic a2p). destruct (to_dec_or_overflow a2p) as [a2| |]; cbn [pbind]; try congruence; try discriminate.
  pose proof (to_dec_no_panic mp). destruct (to_dec_or_overflow mp) as [m| |]; cbn [pbind]; try congruence; try discriminate.
  pose proof (take_advanced_no_panic EBucket dv1 c1 a1 WDown Hd1).
  destruct (take_advanced EBucket dv1 c1 a1 WDown) as [[t1 rest1]| |] eqn:E1; cbn [pbind]; try congruence; try discriminate.
  pose proof (take_advanced_no_panic EBucket dv2 c2 a2 WDown Hd2).
  destruct (take_advanced EBucket dv2 c2 a2 WDown) as [[t2 rest2]| |] eqn:E2; cbn [pbind]; try congruence; try discriminate.
  apply take_advanced_bounds in E1, E2.
  destruct (_ || _); [discriminate|]. destruct (m =? 0); [discriminate|].
  pose proof (mint_units_no_panic S m). destruct (mint_units S m); cbn [pbind]; try congruence; try discriminate.
  unfold dec_range in *.
  pose proof (vault_put_no_panic r1 t1 ltac:(lia)). destruct (vault_put r1 t1); cbn [pbind]; try congruence; try discriminate.
  pose proof (vault_put_no_panic r2 t2 ltac:(lia)). destruct (vault_put r2 t2); cbn [pbind]; try congruence; try discriminate.
  destruct (_ && _); discriminate.
Qed.

(* --- multi-resource pool --- *)
Lemma geo_fold_no_panic n : 1 <= n -> forall cs acc,
  Forall (fun y => 0 <= y < 2 ^ 255) cs -> geo_fold n cs acc <> PPanic.
Proof.
  intros Hn. induction cs as [|c cs IH]; intros acc Hc; cbn [geo_fold]; [discriminate|].
  inversion Hc; subst. pose proof (pd_nth_root_no_panic n c Hn ltac:(auto)).
  destruct (pd_nth_root n c) as [r| |]; cbn [pbind]; try congruence; try discriminate.
  destruct (obind r _); [apply IH; auto|discriminate].
Qed.
Lemma put_all_no_panic rs : forall cs,
  Forall2 (fun r c => 0 <= r + c < 2 ^ 191) rs cs -> put_all rs cs <> PPanic.
Proof.
  induction rs as [|r rs IH]; intros cs H; destruct cs as [|c cs]; cbn [put_all]; try discriminate.
  inversion H; subst. pose proof (vault_put_no_panic r c ltac:(auto)).
  destruct (vault_put r c); cbn [pbind]; try congruence; try discriminate.
  pose proof (IH cs ltac:(auto)). destruct (put_all rs cs); cbn [pbind]; try congruence; discriminate.
Qed.
Lemma multi_take_no_panic dvs : forall rs cs k,
  Forall (fun dv => 0 <= dv <= 18) dvs -> Forall dec_range rs ->
  Forall2 (fun r c => 0 <= c /\ r + c < 2 ^ 191) rs cs -> multi_take dvs rs cs k <> PPanic.
Proof.
  induction dvs as [|dv dvs IH]; intros rs cs k Hd Hr Hrc; destruct rs as [|r rs], cs as [|c cs]; cbn [multi_take]; try discriminate.
  inversion Hd; subst. inversion Hr; subst. inversion Hrc as [|? ? ? ? [Hc0 Hsum] Hrc']; subst.
  rewrite (pd_of_dec_np r ltac:(auto)). cbn [pbind].
  destruct (pd_mul (r * DD) k) as [ap|]; cbn [orerr pbind]; [|discriminate].
  pose proof (to_dec_no_panic ap). destruct (to_dec_or_overflow ap) as [a| |]; cbn [pbind]; try congruence; try discriminate.
  pose proof (take_advanced_no_panic EBucket dv c a WDown ltac:(auto)).
  destruct (take_advanced EBucket dv c a WDown) as [[t rest]| |] eqn:E; cbn [pbind]; try congruence; try discriminate.
  apply take_advanced_bounds in E.
  destruct (_ && _); [discriminate|].
  match goal with Hrr : dec_range r |- _ => unfold dec_range in Hrr end.
  pose proof (vault_put_no_panic r t ltac:(lia)). destruct (vault_put r t); cbn [pbind]; try congruence; try discriminate.
  pose proof (IH rs cs k ltac:(auto) ltac:(auto) Hrc').
  destruct (multi_take dvs rs cs k) as [[? ?]| |]; cbn [pbind]; try congruence; discriminate.
Qed.

Lemma multi_contribute_no_panic dvs S rs cs :
  Forall (fun dv => 0 <= dv <= 18) dvs -> dec_range S -> Forall dec_range rs -> Forall dec_range cs ->
  Forall2 (fun r c => 0 <= c /\ r + c < 2 ^ 191) rs cs ->
  multi_contribute dvs S rs cs <> PPanic.
Proof.
  intros Hd HS Hr Hc Hrc. unfold multi_contribute.
  rewrite (pd_of_dec_np S HS), (pd_of_decs_np rs Hr), (pd_of_decs_np cs Hc). cbn [pbind].
  match goal with |- pbind ?X _ <> _ => assert (Hx : X <> PPanic) end.
  { destruct (S * DD =? 0).
    - set (nz := filter _ _).
      assert (Hnz : Forall (fun y => 0 <= y < 2 ^ 255) nz).
      { unfold nz. apply Forall_forall. intros y Hy. apply filter_In in Hy. destruct Hy as [Hy _].
        apply in_map_iff in Hy. destruct Hy as [a [<- Ha]]. rewrite Forall_forall in Hc.
        apply pd_range_of_dec. apply Hc. auto. }
      assert (Hg : geo_fold (Z.of_nat (length nz)) nz PP <> PPanic).
      { destruct nz as [|y nz']; [cbn; discriminate|]. apply geo_fold_no_panic; [cbn [length]; lia|auto]. }
      destruct (geo_fold _ nz PP) as [[g|]| |]; cbn [pbind]; try congruence; try discriminate.
      pose proof (round_to_no_panic I256 36 18 RUp g ltac:(lia)).
      destruct (round_to I256 36 18 RUp g) as [[z|]| |]; cbn [pbind orerr]; try congruence; try discriminate.
      assert (Hp : put_all rs cs <> PPanic).
      { apply put_all_no_panic. clear -Hr Hrc. induction Hrc as [|r c rs cs [Hc0 Hs] Hrc IH]; constructor.
        - inversion Hr; subst. unfold dec_range in *. lia.
        - inversion Hr; subst. auto. }
      destruct (put_all rs cs); cbn [pbind]; try congruence; discriminate.
    - destruct (list_min _) as [k|]; cbn [orerr pbind]; [|discriminate].
      pose proof (multi_take_no_panic dvs rs cs k Hd Hr Hrc).
      destruct (multi_take dvs rs cs k) as [[? ?]| |]; cbn [pbind]; try congruence; try discriminate.
      destruct (pd_mul _ _); cbn [orerr pbind]; discriminate. }
  match goal with |- pbind ?X _ <> _ => destruct X as [[[mp rs1] ts1]| |]; cbn [pbind]; try congruence; try discriminate end.
  pose proof (to_dec_no_panic mp). destruct (to_dec_or_overflow mp) as [m| |]; cbn [pbind]; try congruence; try discriminate.
  destruct (m =? 0); [discriminate|].
  pose proof (mint_units_no_panic S m). destruct (mint_units S m); cbn [pbind]; try congruence; discriminate.
Qed.

(* all pools *)
Theorem contribute_no_panic k dvs p cs :
  kind_ok k dvs -> wf_divs dvs -> length (reserves p) = length dvs ->
  dec_range (supply p) -> Forall dec_range (reserves p) -> Forall dec_range cs ->
  Forall2 (fun r c => 0 <= c /\ r + c < 2 ^ 191) (reserves p) cs ->
  contribute k dvs p cs <> PPanic.
Proof.
  intros Hk Hd HL HS Hr Hc Hrc. destruct p as [S rs]. cbn [supply reserves] in *.
  destruct k; cbn [contribute supply reserves kind_ok] in *.
  - destruct dvs as [|dv [|? ?]]; try discriminate. destruct rs as [|R [|? ?]]; try discriminate.
    inversion Hrc as [|? c ? cs' [Hc0 Hs] Hrc']; subst. inversion Hrc'; subst.
    unfold nthz. change (Z.to_nat 0) with 0%nat. cbn [nth].
    inversion Hr; subst. inversion Hc; subst. apply one_contribute_no_panic; auto.
  - destruct dvs as [|dv1 [|dv2 [|? ?]]]; try discriminate. destruct rs as [|r1 [|r2 [|? ?]]]; try discriminate.
    inversion Hrc as [|? c1 ? cs' [Hc10 Hs1] Hrc']; subst. inversion Hrc' as [|? c2 ? cs'' [Hc20 Hs2] Hrc'']; subst. inversion Hrc''; subst.
    unfold nthz. change (Z.to_nat 0) with 0%nat. change (Z.to_nat 1) with 1%nat. cbn [nth].
    inversion Hr as [|? ? Hr1 Hr']; subst. inversion Hr' as [|? ? Hr2 ?]; subst.
    inversion Hc as [|? ? Hc1 Hc']; subst. inversion Hc' as [|? ? Hc2 ?]; subst.
    inversion Hd as [|? ? Hd1 Hd']; subst. inversion Hd' as [|? ? Hd2 ?]; subst.
    apply two_contribute_no_panic; auto.
  - apply multi_contribute_no_panic; auto.
Qed.

(* ---------------------------------------------------------------------------------------------- *)
(* no operation panics on Decimal-range states and arguments *)

Definition pool_range (dvs : list Z) (p : pool) : Prop :=
  length (reserves p) = length dvs /\ dec_range (supply p) /\ Forall dec_range (reserves p).
Definition op_range (p : pool) (o : op) : Prop :=
  match o with
  | OContribute cs => Forall dec_range cs /\ Forall2 (fun r c => 0 <= c /\ r + c < 2 ^ 191) (reserves p) cs
  | ORedeem u => dec_range u
  | ODeposit i a => 0 <= nthz (reserves p) i + a < 2 ^ 191   (* total supply of the resource fits a Decimal *)
  | OWithdraw _ _ _ => True
  | OGetRedemption _ => True
  end.

Theorem step_op_no_panic k dvs p o :
  kind_ok k dvs -> wf_divs dvs -> pool_range dvs p -> op_range p o ->
  snd (step_op k dvs p o) <> OutPanic.
Proof.
  intros Hk Hd (HL & HS & HR) Ho. destruct o as [cs|u|i a|i a w|u]; cbn [step_op op_range] in *.
  - destruct Ho as [Hc Hrc]. pose proof (contribute_no_panic k dvs p cs Hk Hd HL HS HR Hc Hrc).
    destruct (contribute k dvs p cs) as [[[p' m] ts]| |]; cbn [snd]; try discriminate. congruence.
  - destruct (redeem_no_panic k dvs p u Hd Ho HS HR) as [H _].
    destruct (redeem k dvs p u) as [[p' owed]| |]; cbn [snd]; try discriminate. congruence.
  - pose proof (vault_put_no_panic (nthz (reserves p) i) a Ho).
    destruct (vault_put _ a); cbn [snd]; try discriminate. congruence.
  - assert (Hdi : 0 <= nthz dvs i <= 18) by (apply nthz_Forall; [lia|exact Hd]).
    pose proof (take_advanced_no_panic EVault (nthz dvs i) (nthz (reserves p) i) a w Hdi).
    destruct (take_advanced _ _ _ a w) as [[t r']| |]; cbn [snd]; try discriminate. congruence.
  - (* get_redemption_value checks 0 < u <= supply before computing *)
    unfold get_redemption.
    destruct (Z.ltb_spec u 0); [cbn; discriminate|]. destruct (Z.eqb_spec u 0); [cbn; discriminate|].
    destruct (Z.ltb_spec (supply p) u); [cbn; discriminate|]. cbn [orb].
    assert (Hu : dec_range u) by (unfold dec_range in *; lia).
    pose proof (amounts_owed_no_panic dvs (reserves p) u (supply p) Hd Hu HS HR).
    destruct (amounts_owed dvs u (supply p) (reserves p)); cbn [snd]; try discriminate. congruence.
Qed.

(* ---------------------------------------------------------------------------------------------- *)
(* the round trip without any premise on the state: either nothing is gained, or the pool had
   reserves but no units (the documented first-contributor case) and then the redemption is still
   bounded by the reserves *)
Lemma unowned_dec p : {unowned_reserves p} + {~ unowned_reserves p}.
Proof.
  unfold unowned_reserves. destruct (Z.eq_dec (supply p) 0) as [E|E]; [|right; tauto].
  destruct (Exists_dec (fun r => r <> 0) (reserves p)) as [H|H].
  - intros x. destruct (Z.eq_dec x 0); [right; tauto|left; auto].
  - left. split; [auto|]. apply Exists_exists in H. destruct H as [r [Hin Hr]]. eauto.
  - right. intros [_ [r [Hin Hr]]]. apply H. apply Exists_exists. eauto.
Qed.

Theorem round_trip_total k dvs p cs p' m ts owed :
  kind_ok k dvs -> wf_divs dvs -> wf_pool dvs p -> Forall2 valid_amount dvs cs ->
  contribute k dvs p cs = POk (p', m, ts) ->
  amounts_owed dvs m (supply p') (reserves p') = POk owed ->
  Forall2 Z.le owed ts \/
  (unowned_reserves p /\ supply p' = m /\
   Forall2 (owed_bound m (supply p')) owed (combine dvs (reserves p'))).
Proof.
  intros Hk Hd Hw Hv Hc Ho. destruct (unowned_dec p) as [Hu|Hu].
  - right. split; [auto|].
    destruct (contribute_wf _ _ _ _ _ _ _ Hc Hk Hd Hw Hv) as ((HS' & HL' & HR') & Hpos & _).
    destruct (contribute_shape _ _ _ _ _ _ _ Hc Hk Hd Hw Hv) as (Hs' & Hm & _).
    destruct Hu as [Hz _]. split; [lia|].
    apply amounts_owed_ok in Ho; auto; try lia. apply owed_are_bound; auto; lia.
  - left. eapply no_round_trip_gain; eauto.
Qed.
