(* C19 — crash safety of the commit composed with the state tree (C17) and the node store (C18). *)
From Coq Require Import List NArith Bool Lia Arith.
Import ListNotations.
Require Import RV.Model.C17_Jmt RV.Model.C17_Smt RV.Model.C18_Store RV.Proof.C17_Base RV.Proof.C17_Lists
               RV.Proof.C17_Update RV.Proof.C17_Tier RV.Proof.C17_Root RV.Proof.C17_Assoc RV.Proof.C17_Compose RV.Proof.C18_Store RV.Proof.C18_Reach RV.Proof.C18_Lift
               RV.Model.C19_Composed.
Open Scope N_scope.

(* ================================================================================================ *)
(* A. the node store under inserts and removals                                                     *)
(* ================================================================================================ *)
Definition ins_all (ops : list store_op) (s : store) : store :=
  fold_left (fun s op => match op with OpInsert v p n => st_insert (v, p) n s | OpStale _ => s end) ops s.

Lemma ins_all_keeps : forall ops s k, st_get k s <> None -> st_get k (ins_all ops s) <> None.
Proof.
  induction ops as [|op ops IH]; intros s k G; [exact G|]. unfold ins_all in *. cbn [fold_left].
  apply IH. destruct op as [v p n|part]; [|exact G]. rewrite st_get_insert. destruct (skey_eqb k (v, p)); [discriminate|exact G].
Qed.
Lemma ins_all_has : forall ops s k, In k (ins_keys ops) -> st_get k (ins_all ops s) <> None.
Proof.
  induction ops as [|op ops IH]; intros s k I; [destruct I|]. unfold ins_all in *. cbn [fold_left].
  unfold ins_keys in I. cbn [flat_map] in I. apply in_app_or in I. destruct I as [I|I].
  - destruct op as [v p n|part]; [|destruct I]. destruct I as [<-|[]].
    apply (ins_all_keeps ops). rewrite st_get_insert, skey_eqb_refl. discriminate.
  - apply IH. exact I.
Qed.
Lemma remove_all_keeps : forall ds s k, ~ In k ds -> st_get k s <> None -> st_get k (remove_all ds s) <> None.
Proof.
  induction ds as [|d ds IH]; intros s k NI G; [exact G|]. unfold remove_all in *. cbn [fold_left].
  apply IH; [intro I; apply NI; right; exact I|]. rewrite st_get_remove.
  destruct (skey_eqb d k) eqn:E; [|exact G]. apply skey_eqb_eq in E. exfalso. apply NI. left. exact E.
Qed.

(* the walk over a stale subtree only deletes keys below the subtree's path ... *)
Lemma child_keys_prefix : forall p0 k n c, path_prefix p0 (snd k) -> In c (child_keys k n) -> path_prefix p0 (snd c).
Proof.
  intros p0 k n c P I. destruct n as [| |cs]; try destruct I. cbn [child_keys] in I. apply in_map_iff in I.
  destruct I as [[[[nib ver] h] lf] [E _]]. subst c. cbn [snd]. eapply path_prefix_trans; [exact P|apply path_prefix_app].
Qed.
Lemma subtree_dels_prefix : forall p0 fuel queue s k,
  Forall (fun q => path_prefix p0 (snd q)) queue -> In k (subtree_dels fuel queue s) -> path_prefix p0 (snd k).
Proof.
  intros p0 fuel. induction fuel as [|f IH]; intros queue s k F I.
  - destruct queue; destruct I.
  - destruct queue as [|q0 q]; [destruct I|]. cbn [subtree_dels] in I. inversion F as [|x l P0 Fq]; subst.
    destruct (st_get q0 s) as [n|] eqn:G.
    + destruct I as [<-|I]; [exact P0|]. apply (IH (q ++ child_keys q0 n) (st_remove q0 s) k); [|exact I].
      apply Forall_app. split; [exact Fq|]. apply Forall_forall. intros c Hc. eapply child_keys_prefix; [exact P0|exact Hc].
    + apply (IH _ _ _ Fq I).
Qed.
(* ... hence every key the pruning loop deletes is hit by one of the stale parts *)
Lemma prune_dels_hit : forall parts s k, In k (prune_dels parts s) -> exists part, In part parts /\ hits part k.
Proof.
  induction parts as [|[v p|v p] r IH]; intros s k I; [destruct I| |]; cbn [prune_dels] in I.
  - destruct I as [<-|I]; [exists (StaleNode v p); split; [left; reflexivity|reflexivity]|].
    destruct (IH _ _ I) as (part & Hp & Hh). exists part. split; [right; exact Hp|exact Hh].
  - apply in_app_or in I. destruct I as [I|I].
    + exists (StaleSubtree v p). split; [left; reflexivity|]. cbn [hits].
      apply (subtree_dels_prefix p _ _ _ k) in I; [exact I|]. constructor; [apply path_prefix_refl|constructor].
    + destruct (IH _ _ I) as (part & Hp & Hh). exists part. split; [right; exact Hp|exact Hh].
Qed.

(* the walk only reaches versions not above the version it starts from, when every stored node
   refers to children of its own or an older version *)
Definition child_mono (s : store) : Prop :=
  forall k n c, st_get k s = Some n -> In c (child_keys k n) -> fst c <= fst k.
Lemma child_mono_remove : forall k s, child_mono s -> child_mono (st_remove k s).
Proof.
  intros k s M k' n c G I. rewrite st_get_remove in G. destruct (skey_eqb k k'); [discriminate|]. exact (M k' n c G I).
Qed.
Lemma child_mono_remove_all : forall ds s, child_mono s -> child_mono (remove_all ds s).
Proof. induction ds as [|d ds IH]; intros s M; [exact M|]. unfold remove_all in *. cbn [fold_left]. apply IH. apply child_mono_remove. exact M. Qed.
Lemma subtree_dels_old : forall v0 fuel queue s k, child_mono s ->
  Forall (fun q => fst q <= v0) queue -> In k (subtree_dels fuel queue s) -> fst k <= v0.
Proof.
  intros v0 fuel. induction fuel as [|f IH]; intros queue s k M F I.
  - destruct queue; destruct I.
  - destruct queue as [|q0 q]; [destruct I|]. cbn [subtree_dels] in I. inversion F as [|x l P0 Fq]; subst.
    destruct (st_get q0 s) as [n|] eqn:G.
    + destruct I as [<-|I]; [exact P0|]. apply (IH (q ++ child_keys q0 n) (st_remove q0 s) k); [apply child_mono_remove; exact M| |exact I].
      apply Forall_app. split; [exact Fq|]. apply Forall_forall. intros c Hc. specialize (M q0 n c G Hc). lia.
    + apply (IH _ _ _ M Fq I).
Qed.
Definition part_ver (p : stale_part) : N := match p with StaleNode v _ | StaleSubtree v _ => v end.
Lemma prune_dels_old : forall v0 parts s k, child_mono s ->
  Forall (fun part => part_ver part <= v0) parts -> In k (prune_dels parts s) -> fst k <= v0.
Proof.
  intros v0. induction parts as [|[v p|v p] r IH]; intros s k M F I; [destruct I| |]; cbn [prune_dels] in I;
    inversion F as [|x l Pv Fr]; subst; cbn [part_ver] in Pv.
  - destruct I as [<-|I]; [exact Pv|]. apply (IH _ _ (child_mono_remove _ _ M) Fr I).
  - apply in_app_or in I. destruct I as [I|I].
    + apply (subtree_dels_old v0 _ _ _ k M) in I; [exact I|]. constructor; [exact Pv|constructor].
    + apply (IH _ _ (child_mono_remove_all _ _ M) Fr I).
Qed.

(* ================================================================================================ *)
(* B. effect of the steps                                                                           *)
(* ================================================================================================ *)
Lemma inserts_effect : forall ops s,
  let s' := fold_left capply (inserts_of ops) s in
  c_db s' = c_db s /\ c_meta s' = c_meta s /\ c_stale s' = c_stale s /\ c_nodes s' = ins_all ops (c_nodes s).
Proof.
  induction ops as [|op ops IH]; intro s; [repeat split|]. unfold inserts_of, ins_all in *. cbn [flat_map fold_left].
  destruct op as [v p n|part]; cbn [app fold_left].
  - destruct (IH (capply s (CInsert (v, p) n))) as (A & B & C & D). cbn [capply c_db c_meta c_stale c_nodes] in *. auto.
  - apply IH.
Qed.
Lemma batch_effect_c : forall (pruning : bool) d ops next root s,
  let s' := capply_step s (CBatch (CSetDb d :: inserts_of ops
                                   ++ (if pruning then [] else [CStaleRecord next (stale_parts_of ops)]) ++ [CMeta next root])) in
  c_db s' = d /\ c_meta s' = Some (next, root) /\ c_nodes s' = ins_all ops (c_nodes s).
Proof.
  intros pruning d ops next root s. cbn [capply_step fold_left]. rewrite !fold_left_app.
  destruct (inserts_effect ops (capply s (CSetDb d))) as (A & B & C & D).
  set (s1 := fold_left capply (inserts_of ops) (capply s (CSetDb d))) in *.
  destruct pruning; cbn [fold_left capply c_db c_meta c_nodes]; rewrite A, D; repeat split.
Qed.
Lemma deletes_effect : forall ds s,
  let s' := crun (map (fun k => CDirect (CDelete k)) ds) s in
  c_db s' = c_db s /\ c_meta s' = c_meta s /\ c_nodes s' = remove_all ds (c_nodes s).
Proof.
  induction ds as [|d ds IH]; intro s; [repeat split|]. unfold crun, remove_all in *. cbn [map fold_left capply_step].
  destruct (IH (capply s (CDelete d))) as (A & B & C). cbn [capply c_db c_meta c_nodes] in *. auto.
Qed.

Lemma in_firstn' : forall (A : Type) n (l : list A) x, In x (firstn n l) -> In x l.
Proof. intros A n l x I. rewrite <- (firstn_skipn n l). apply in_or_app. left. exact I. Qed.

(* ================================================================================================ *)
(* C. the composed theorem                                                                          *)
(* ================================================================================================ *)
Section Composed.
  Variable H : list N -> list N.
  Variable fuel : nat.
  Hypothesis Hfuel : (0 < fuel)%nat.
  Hypothesis HZ : forall x, H x <> ZERO_HASH.
  Variables US UP UE : list N -> Prop.
  Hypothesis PFS : pfree US. Hypothesis US0 : ~ US [].
  Hypothesis PFP : pfree UP. Hypothesis UP0 : ~ UP [].
  Hypothesis PFE : pfree UE. Hypothesis UE0 : ~ UE [].

  (* the store `s` is consistent, `st` being the logical tree its nodes represent: the recorded root is
     the commitment (C17: db_root) of exactly the substates held, the recorded version is the tree's,
     and every node reachable from the root is stored *)
  Definition CConsistent (st : tree_state) (s : cstore) : Prop :=
    db_rel H fuel US UP UE st (c_db s) /\
    ver_of st = c_version s /\
    c_root s = db_root H fuel (c_db s) /\
    vers_le (ver_of st) (reach_db fuel st) /\
    forall k, In k (reach_db fuel st) -> st_get k (c_nodes s) <> None.

  (* every deletion step removes a node of an older version than the one being committed *)
  Definition dels_old (ver : N) (steps : list cstep) : Prop :=
    forall k, In (CDirect (CDelete k)) steps -> fst k < ver.

  Theorem composed_crash_safe : forall pruning st s u steps st',
    CConsistent st s -> ok_commit fuel US UP UE u ->
    ccommit H fuel pruning st s u = CSteps steps st' ->
    dels_old (c_version s + 1) steps ->
    forall k, (k <= length steps)%nat ->
      let sk := ccrash k steps s in
      (k = 0%nat -> sk = s) /\
      ((1 <= k)%nat ->
         c_db sk = apply_commit (c_db s) u /\ c_version sk = c_version s + 1 /\
         c_root sk = db_root H fuel (apply_commit (c_db s) u) /\ CConsistent st' sk).
  Proof.
    intros pruning st s u steps st' (DR & EV & ER & VL & Stored) OKu E Old k L. cbv zeta.
    split; [intros ->; reflexivity|]. intro K1.
    unfold ccommit in E. destruct (2 ^ 64 <=? c_version s + 1); [discriminate|].
    destruct (commit_facts H fuel Hfuel US UP UE PFS US0 PFP UP0 PFE UE0 st (c_db s) u HZ DR OKu VL)
      as (root & st1 & ops & Eput & DR' & EV' & F).
    destruct (commit_ok H fuel Hfuel HZ US UP UE PFS US0 PFP UP0 PFE UE0 st (c_db s) u DR OKu) as (st2 & ops2 & Eput2 & _).
    rewrite Eput in Eput2. injection Eput2 as Eroot _ _.
    rewrite Eput in E. injection E as Esteps Est. subst st'.
    set (next := c_version s + 1) in *.
    set (ds := if pruning then prune_dels (stale_parts_of ops) (c_nodes (fold_left capply (inserts_of ops) s)) else []).
    assert (Esteps' : steps = CBatch (CSetDb (apply_commit (c_db s) u) :: inserts_of ops
                                      ++ (if pruning then [] else [CStaleRecord next (stale_parts_of ops)]) ++ [CMeta next root])
                              :: map (fun k => CDirect (CDelete k)) ds).
    { rewrite <- Esteps. unfold ds. destruct pruning; reflexivity. }
    clear Esteps. subst steps.
    destruct k as [|j]; [lia|]. unfold ccrash. cbn [firstn]. unfold crun. cbn [fold_left]. fold (crun (firstn j (map (fun k => CDirect (CDelete k)) ds))).
    rewrite firstn_map.
    set (s1 := capply_step s _).
    destruct (batch_effect_c pruning (apply_commit (c_db s) u) ops next root s) as (B1 & B2 & B3). fold s1 in B1, B2, B3.
    destruct (deletes_effect (firstn j ds) s1) as (D1 & D2 & D3).
    set (sk := crun (map (fun k => CDirect (CDelete k)) (firstn j ds)) s1) in *.
    assert (Vk : c_version sk = next) by (unfold c_version; rewrite D2, B2; reflexivity).
    assert (Rk : c_root sk = db_root H fuel (apply_commit (c_db s) u)) by (unfold c_root; rewrite D2, B2; exact Eroot).
    assert (Dk : c_db sk = apply_commit (c_db s) u) by (rewrite D1; exact B1).
    split; [exact Dk|]. split; [exact Vk|]. split; [exact Rk|].
    (* consistency of the crash state with the new logical tree *)
    assert (InsV : forall x, In x (ins_keys ops) -> fst x = ver_of st + 1).
    { intros [v p] Hx. apply ins_keys_in in Hx. destruct Hx as [n Hn]. apply (sf_ops _ _ _ _ _ F) in Hn. cbn in Hn. apply Hn. }
    assert (VL' : vers_le (ver_of st + 1) (reach_db fuel st1)).
    { destruct (facts_dead [] (ver_of st + 1) ops _ _ [] (ver_of st) F VL) as [V _]; [intros x []|lia|intros x []|exact V]. }
    unfold CConsistent.
    change (fold_left capply_step (map (fun k0 : skey => CDirect (CDelete k0)) (firstn j ds)) s1) with sk.
    rewrite Dk. split; [exact DR'|]. split; [rewrite EV', Vk, EV; reflexivity|].
    split; [exact Rk|]. split; [rewrite EV'; exact VL'|].
    intros x Hx. rewrite D3, B3.
    assert (NotDeleted : ~ In x (firstn j ds)).
    { intro I. apply in_firstn' in I.
      assert (OldX : fst x < next).
      { apply Old. right. apply in_map_iff. exists x. split; [reflexivity|exact I]. }
      destruct (sf_reach _ _ _ _ _ F x Hx) as [Hi|[Ho NK]].
      - rewrite (InsV x Hi), EV in OldX. unfold next in OldX. lia.
      - unfold ds in I. destruct pruning; [|destruct I].
        destruct (prune_dels_hit _ _ _ I) as (part & Hp & Hh).
        apply (NK (OpStale part)); [|exact Hh].
        unfold stale_parts_of in Hp. apply in_flat_map in Hp. destruct Hp as (op & Hop & Hin).
        destruct op as [v p n|part']; [destruct Hin|]. destruct Hin as [<-|[]]. exact Hop. }
    apply remove_all_keeps; [exact NotDeleted|].
    destruct (sf_reach _ _ _ _ _ F x Hx) as [Hi|[Ho _]].
    - apply ins_all_has. exact Hi.
    - apply ins_all_keeps. apply Stored. exact Ho.
  Qed.

  (* the side condition follows from two structural facts about the stored nodes after the batch *)
  Lemma dels_old_from_structure : forall pruning st s u steps st' root ops,
    ccommit H fuel pruning st s u = CSteps steps st' ->
    put_at_next_version H fuel st u = Ok (root, st', ops) ->
    child_mono (ins_all ops (c_nodes s)) ->
    Forall (fun part => part_ver part <= c_version s) (stale_parts_of ops) ->
    dels_old (c_version s + 1) steps.
  Proof.
    intros pruning st s u steps st' root ops E Eput M Fp x I.
    unfold ccommit in E. destruct (2 ^ 64 <=? c_version s + 1); [discriminate|]. rewrite Eput in E.
    assert (Es := f_equal (fun o => match o with CSteps x _ => x | _ => [] end) E). cbn beta iota in Es. subst steps. clear E.
    destruct I as [I|I]; [discriminate|]. destruct pruning; [|destruct I].
    apply in_map_iff in I. destruct I as (y & Ey & Iy). injection Ey as ->.
    destruct (inserts_effect ops s) as (_ & _ & _ & D). rewrite D in Iy.
    pose proof (prune_dels_old (c_version s) _ _ _ M Fp Iy). lia.
  Qed.

  (* the empty store is consistent *)
  Lemma empty_consistent : CConsistent None (mkC [] None [] []).
  Proof.
    unfold CConsistent. cbn. split; [reflexivity|]. split; [reflexivity|].
    split; [symmetry; apply (db_root_nil H fuel)|]. split; intros k [].
  Qed.
End Composed.

(* executable form of the side condition *)
Definition dels_oldb (ver : N) (steps : list cstep) : bool :=
  forallb (fun st => match st with CDirect (CDelete k) => fst k <? ver | _ => true end) steps.
Lemma dels_oldb_spec : forall ver steps, dels_oldb ver steps = true -> dels_old ver steps.
Proof.
  intros ver steps B k I. unfold dels_oldb in B. rewrite forallb_forall in B. specialize (B _ I). cbn in B.
  apply N.ltb_lt. exact B.
Qed.
