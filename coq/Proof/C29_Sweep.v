(* C29 — the finite sweep over one 400-year cycle (kept in its own file: ~25 s of vm_compute). *)
From Coq Require Import List ZArith Bool Lia.
Import ListNotations.
Require Import RV.Model.C29_Calendar.
Open Scope Z_scope.

(* literal sub-computation of from_instant on `remaining_days` in [0, DAYS_PER_400Y):
   (year offset from 2000 + 400*cycle before the month carry, 0-based month counted from March,
   0-based day of month) *)
Definition cycle_part0 (rd : Z) : option (Z * Z * Z) :=
  let n100 := Z.quot rd DAYS_PER_100Y in
  let num_100_year_cycles := if n100 =? 4 then n100 - 1 else n100 in
  let remaining_days := rd - num_100_year_cycles * DAYS_PER_100Y in
  let n4 := Z.quot remaining_days DAYS_PER_4Y in
  let num_4_year_cycles := if n4 =? 25 then n4 - 1 else n4 in
  let remaining_days := remaining_days - num_4_year_cycles * DAYS_PER_4Y in
  let ny := Z.quot remaining_days 365 in
  let remaining_years := if ny =? 4 then ny - 1 else ny in
  let remaining_days := remaining_days - remaining_years * 365 in
  match month_loop (rotate_left 2 LEAP_YEAR_DAYS_IN_MONTHS) 0 remaining_days with
  | None => None
  | Some (month, remaining_days) =>
    Some (remaining_years + 4 * num_4_year_cycles + 100 * num_100_year_cycles, month, remaining_days)
  end.

Definition DAYS_1970_TO_MARCH_Y2K : Z := 11017.

Definition cycle_ok (rd : Z) : bool :=
  match cycle_part0 rd with
  | None => false
  | Some (yo0, mraw, d0) =>
    let m := if 12 <=? mraw + 2 then mraw + 2 - 12 + 1 else mraw + 2 + 1 in
    let yo := if 12 <=? mraw + 2 then yo0 + 1 else yo0 in
    (0 <=? yo0) && (yo0 <=? 399) && (0 <=? mraw) && (mraw <=? 11) && (0 <=? d0)
    && (d0 + 1 <=? month_len (greg_leap (2000 + yo)) m)
    && (days_from_civil (2000 + yo) m (d0 + 1) =? rd + DAYS_1970_TO_MARCH_Y2K)
  end.

Fixpoint forall_range (f : Z -> bool) (start : Z) (n : nat) : bool :=
  match n with
  | O => true
  | S k => f start && forall_range f (start + 1) k
  end.

Lemma forall_range_spec : forall f n start,
  forall_range f start n = true -> forall z, start <= z < start + Z.of_nat n -> f z = true.
Proof.
  induction n as [|n IH]; intros start H z Hz.
  - lia.
  - cbn [forall_range] in H. apply andb_prop in H. destruct H as [H0 H1].
    destruct (Z.eq_dec z start) as [->|N]; [exact H0|].
    apply (IH (start + 1) H1). lia.
Qed.

(* the finite sweep: all 146 097 days of one 400-year cycle *)
Lemma cycle_sweep : forall_range cycle_ok 0 (N.to_nat 146097) = true.
Proof. vm_compute. reflexivity. Qed.

Lemma cycle_ok_all : forall rd, 0 <= rd < 146097 -> cycle_ok rd = true.
Proof.
  intros rd H. apply (forall_range_spec cycle_ok (N.to_nat 146097) 0 cycle_sweep).
  rewrite N_nat_Z. lia.
Qed.

