(* C20/C21 — payload-level theorems about the SBOR Value codec model. *)
From Coq Require Import List NArith ZArith Bool Lia.
Import ListNotations.
Require Import RV.Lib.Utf8 RV.Model.C20_Sbor RV.Proof.C20_Base RV.Proof.C20_Codec RV.Proof.C20_Sbor.
Open Scope N_scope.

Arguments N.add : simpl never. Arguments N.sub : simpl never. Arguments N.mul : simpl never.
Arguments N.eqb : simpl never. Arguments N.ltb : simpl never. Arguments N.leb : simpl never.

Section Top.
Variable fl : flavour.

Lemma encode_payload_inv : forall md v bs, encode_payload fl md v = Ok bs ->
  exists b, bs = payload_prefix fl :: kind_u8 (value_kind v) :: b /\ enc_deeper md 0 v = Ok b.
Proof.
  intros md v bs E. unfold encode_payload, enc_value in E.
  destruct (enc_deeper md 0 v) as [b| | |]; cbn [bind] in E; try discriminate.
  inversion E. exists b. split; reflexivity.
Qed.

(* decode (encode v) = v *)
Theorem decode_encode : forall md v bs,
  wf_value fl v = true -> valid_value v = true ->
  encode_payload fl md v = Ok bs -> decode_payload fl md bs = Ok v.
Proof.
  intros md v bs W V E. apply encode_payload_inv in E. destruct E as [b [E1 E2]]. subst bs.
  unfold decode_payload, decode_payload_fuel, fuel_for. cbn [read_byte bind]. rewrite N.eqb_refl. cbn [negb].
  unfold dec_value. rewrite read_value_kind_as by (apply kind_ok_value_kind; exact W). cbn [bind].
  rewrite <- (app_nil_r b) at 2.
  rewrite (D1_deeper fl v (D1_all fl v) md 0 b W V E2); [reflexivity|].
  rewrite app_nil_r. cbn [length]. lia.
Qed.

(* canonicity: an accepted payload is the encoding of the value it decodes to *)
Theorem encode_decode : forall md bs v, bytes_ok bs = true ->
  decode_payload fl md bs = Ok v ->
  encode_payload fl md v = Ok bs /\ wf_value fl v = true /\ valid_value v = true.
Proof.
  intros md bs v Hok D. unfold decode_payload, decode_payload_fuel in D.
  destruct bs as [|p st]; cbn [read_byte bind] in D; [discriminate|].
  rewrite bytes_ok_cons in Hok. apply andb_true_iff in Hok. destruct Hok as [_ Hok].
  destruct (p =? payload_prefix fl) eqn:P; cbn [negb] in D; [|discriminate]. apply N.eqb_eq in P. subst p.
  unfold dec_value in D.
  destruct (read_value_kind fl st) as [[k st0]| | |] eqn:RK; cbn [bind] in D; try discriminate.
  apply read_value_kind_ok in RK. destruct RK as [Est Hk]. subst st.
  rewrite bytes_ok_cons in Hok. apply andb_true_iff in Hok. destruct Hok as [_ Hok].
  destruct (dec_deeper fl _ md 0 k st0) as [[v' rest]| | |] eqn:DD; cbn [bind] in D; try discriminate.
  destruct rest as [|x rest]; [|discriminate]. inversion D; subst v'. clear D.
  destruct (P2_all fl (fuel_for (payload_prefix fl :: kind_u8 k :: st0))) as [PB _].
  apply (P2_deeper fl _ PB) in DD; [|exact Hok|exact Hk].
  destruct DD as [K [W [V [b [E1 E2]]]]]. rewrite app_nil_r in E1. subst st0.
  split; [|split; assumption].
  unfold encode_payload, enc_value. rewrite E2. cbn [bind]. rewrite K. reflexivity.
Qed.

(* every value has one encoding, and different values have different encodings *)
Theorem encode_injective : forall md v1 v2 bs,
  wf_value fl v1 = true -> valid_value v1 = true -> wf_value fl v2 = true -> valid_value v2 = true ->
  encode_payload fl md v1 = Ok bs -> encode_payload fl md v2 = Ok bs -> v1 = v2.
Proof.
  intros md v1 v2 bs W1 V1 W2 V2 E1 E2.
  apply decode_encode in E1; try assumption. apply decode_encode in E2; try assumption. congruence.
Qed.

Theorem decode_unique_encoding : forall md bs1 bs2 v, bytes_ok bs1 = true -> bytes_ok bs2 = true ->
  decode_payload fl md bs1 = Ok v -> decode_payload fl md bs2 = Ok v -> bs1 = bs2.
Proof.
  intros md bs1 bs2 v H1 H2 D1 D2. apply encode_decode in D1; [|exact H1]. apply encode_decode in D2; [|exact H2].
  destruct D1 as [D1 _]. destruct D2 as [D2 _]. congruence.
Qed.

(* values of the basic and Scrypto flavours are valid by construction *)
Lemma forallb_Forall : forall A (p q : A -> bool) l,
  Forall (fun x => p x = true -> q x = true) l -> forallb p l = true -> forallb q l = true.
Proof.
  induction 1 as [|x l Hx Hl IH]; intro H; [reflexivity|]. cbn [forallb] in *.
  apply andb_true_iff in H. destruct H as [H1 H2]. rewrite Hx, IH by assumption. reflexivity.
Qed.
Lemma valid_of_wf : forall v, fl <> Manifest -> wf_value fl v = true -> valid_value v = true.
Proof.
  intros v Hfl. induction v using value_ind'; intro W; try reflexivity.
  - cbn [wf_value] in W. apply andb_true_iff in W. destruct W as [_ W]. cbn [valid_value].
    eapply forallb_Forall; eassumption.
  - cbn [wf_value] in W. apply andb_true_iff in W. destruct W as [_ W]. cbn [valid_value].
    eapply forallb_Forall; eassumption.
  - cbn [wf_value] in W. cbn [valid_value]. eapply forallb_Forall; eassumption.
  - rewrite wf_value_map in W. apply andb_true_iff in W. destruct W as [_ W]. rewrite valid_value_map.
    induction H as [|[k x] t [Hk Hx] Ht IH]; [reflexivity|].
    cbn [wf_entries] in W. fold (wf_entries fl) in W. apply andb_true_iff in W. destruct W as [W Wt].
    apply andb_true_iff in W. destruct W as [Wk Wx]. cbn [valid_entries]. fold valid_entries.
    cbn [fst snd] in Hk, Hx. rewrite Hk, Hx, IH by assumption. reflexivity.
  - cbn [wf_value] in W. apply andb_true_iff in W. destruct W as [F _]. cbn [valid_value].
    destruct c; try reflexivity; destruct fl; try discriminate; exfalso; apply Hfl; reflexivity.
Qed.

(* round trip exactly when the custom values are valid *)
Theorem roundtrip_iff_valid : forall md v bs, wf_value fl v = true -> bytes_ok bs = true ->
  encode_payload fl md v = Ok bs ->
  (decode_payload fl md bs = Ok v <-> valid_value v = true).
Proof.
  intros md v bs W Hok E. split.
  - intro D. apply encode_decode in D; [|exact Hok]. destruct D as [_ [_ V]]. exact V.
  - intro V. apply decode_encode; assumption.
Qed.

(* totality of payload decoding *)
Theorem decode_total : forall md input,
  decode_payload fl md input <> Panic /\ decode_payload fl md input <> OutOfFuel.
Proof.
  intros md input. unfold decode_payload, decode_payload_fuel.
  destruct input as [|p st]; cbn [read_byte bind]; [split; discriminate|].
  destruct (negb (p =? payload_prefix fl)); [split; discriminate|].
  unfold dec_value.
  destruct (read_value_kind fl st) as [[k st0]| | |] eqn:RK; cbn [bind]; try (split; discriminate);
    try (exfalso; first [exact (rvk_oof fl _ RK)|exact (rvk_panic fl _ RK)]).
  apply read_value_kind_len in RK. destruct RK as [L Hk].
  destruct (T_all fl (fuel_for (p :: st))) as [TB _].
  assert (H := T_deeper fl _ TB md 0 k st0 Hk).
  destruct (dec_deeper fl (fuel_for (p :: st)) md 0 k st0) as [[v rest]| | |]; cbn [bind]; cbn [Tres] in H.
  - destruct rest; split; discriminate.
  - split; discriminate.
  - contradiction.
  - exfalso. apply H. unfold fuel_for. cbn [length]. lia.
Qed.
End Top.

