(* C09 — conservation of non-fungible ids by every instruction of Model/C09_Worktop.v.
   For a resource r and an id i, `holdI i s r` counts the occurrences of i in the account vault of r
   (liquid + lock table), in every bucket node of r, and in the burned tally of r.  If i occurs at
   most once at the start (ids are unique), every successful instruction and the end of the
   transaction leave the count unchanged: an id is never duplicated and never vanishes. *)
From Coq Require Import List ZArith NArith Bool Lia.
Import ListNotations.
Require Import RV.Model.C10_ProofLock RV.Model.C09_Worktop RV.Proof.C10_NonFungible RV.Proof.C10_NonFungibleUnlock.
Open Scope Z_scope.

Section OneId.
Variable i : N.

Definition icnt (l : list N) : Z := Z.of_nat (count_occ N.eq_dec l i).
Definition dl (x : N) : Z := if N.eq_dec x i then 1 else 0.

Lemma icnt_nonneg : forall l, 0 <= icnt l. Proof. intros. unfold icnt. lia. Qed.
Lemma icnt_nil : icnt [] = 0. Proof. reflexivity. Qed.
Lemma icnt_cons : forall x l, icnt (x :: l) = dl x + icnt l.
Proof. intros x l. unfold icnt, dl. cbn [count_occ]. destruct (N.eq_dec x i); lia. Qed.
Lemma icnt_app : forall a b, icnt (a ++ b) = icnt a + icnt b.
Proof. intros a b. unfold icnt. rewrite count_occ_app. lia. Qed.
Lemma icnt_pos_in : forall l, 0 < icnt l <-> In i l.
Proof. intros l. unfold icnt. rewrite (count_occ_In N.eq_dec). lia. Qed.
Lemma icnt_zero_notin : forall l, icnt l = 0 <-> ~ In i l.
Proof. intros l. rewrite <- icnt_pos_in. pose proof (icnt_nonneg l). lia. Qed.
Lemma dl_nonneg : forall x, 0 <= dl x <= 1. Proof. intros x. unfold dl. destruct (N.eq_dec x i); lia. Qed.
Lemma in_icnt_ge : forall x l, In x l -> dl x <= icnt l.
Proof.
  induction l as [|y t IH]; intros H; [destruct H|]. rewrite icnt_cons. destruct H as [->|H].
  - pose proof (icnt_nonneg t). lia.
  - specialize (IH H). pose proof (dl_nonneg y). lia.
Qed.

(* ---- IndexSet operations ---- *)
Lemma replace_first_icnt : forall x y l, In x l -> icnt (replace_first x y l) = icnt l - dl x + dl y.
Proof.
  induction l as [|a t IH]; intros H; [destruct H|]. cbn [replace_first].
  destruct (N.eqb_spec a x) as [->|Hne]; rewrite !icnt_cons; [lia|].
  destruct H as [H|H]; [congruence|]. rewrite (IH H). lia.
Qed.
Lemma swap_remove_icnt : forall x l l', swap_remove x l = Some l' -> icnt l' = icnt l - dl x.
Proof.
  intros x l l' H. unfold swap_remove in H. destruct (mem x l) eqn:Em; [|discriminate]. apply mem_iff in Em.
  destruct (rev l) as [|last rinit] eqn:Er; [discriminate|].
  assert (El : l = rev rinit ++ [last]) by (rewrite <- (rev_involutive l), Er; reflexivity).
  rewrite El, icnt_app, icnt_cons, icnt_nil.
  destruct (N.eqb_spec last x) as [->|Hne]; injection H as <-; [lia|].
  assert (Hx : In x (rev rinit)).
  { rewrite El in Em. apply in_app_or in Em. destruct Em as [|[<-|[]]]; [assumption|congruence]. }
  rewrite (replace_first_icnt _ _ _ Hx). lia.
Qed.
Lemma liq_take_ids_icnt : forall ids l l', liq_take_ids ids l = Ok l' -> icnt l' = icnt l - icnt ids.
Proof.
  induction ids as [|a t IH]; intros l l' H; cbn [liq_take_ids] in H.
  - injection H as <-. rewrite icnt_nil. lia.
  - destruct (swap_remove a l) as [l1|] eqn:E; [|discriminate]. rewrite (IH _ _ H), (swap_remove_icnt _ _ _ E), icnt_cons. lia.
Qed.
Lemma liq_extend_icnt : forall ids l, icnt l + icnt ids <= 1 -> icnt (liq_extend l ids) = icnt l + icnt ids.
Proof.
  induction ids as [|a t IH]; intros l H; cbn [liq_extend]; [rewrite icnt_nil; lia|].
  rewrite icnt_cons in H. pose proof (icnt_nonneg t). pose proof (icnt_nonneg l). pose proof (dl_nonneg a).
  destruct (mem a l) eqn:Em.
  - apply mem_iff in Em. pose proof (in_icnt_ge _ _ Em). rewrite IH by lia. rewrite icnt_cons.
    unfold dl in *. destruct (N.eq_dec a i); lia.
  - rewrite IH by (rewrite icnt_app, icnt_cons, icnt_nil; lia). rewrite icnt_app, !icnt_cons, icnt_nil. lia.
Qed.
Lemma firstn_icnt_le : forall n l, icnt (firstn n l) <= icnt l.
Proof.
  induction n as [|n IH]; intros l; cbn [firstn]; [rewrite icnt_nil; apply icnt_nonneg|].
  destruct l as [|a t]; [lia|]. rewrite !icnt_cons. specialize (IH t). lia.
Qed.

(* ---- lock table ---- *)
Definition kcnt (l : list (N * N)) : Z := icnt (nkeys l).
Lemma kcnt_incr : forall a l, kcnt (ncnt_incr a l) = kcnt l + (if in_dec N.eq_dec a (nkeys l) then 0 else dl a).
Proof.
  unfold kcnt. induction l as [|[k n] t IH]; cbn [ncnt_incr nkeys map fst].
  - rewrite icnt_cons, icnt_nil. destruct (in_dec N.eq_dec a []) as [[]|]. lia.
  - fold (nkeys t) in *. destruct (N.eqb_spec k a) as [->|Hne]; cbn [nkeys map fst]; fold (nkeys t); fold (nkeys (ncnt_incr a t)).
    + rewrite !icnt_cons. destruct (in_dec N.eq_dec a (a :: nkeys t)) as [|Hn]; [lia|exfalso; apply Hn; now left].
    + rewrite !icnt_cons, IH. destruct (in_dec N.eq_dec a (nkeys t)) as [H1|H1]; destruct (in_dec N.eq_dec a (k :: nkeys t)) as [H2|H2]; try lia.
      * exfalso. apply H2. now right.
      * destruct H2 as [H2|H2]; [congruence|contradiction].
Qed.
Lemma kcnt_fold_incr : forall ids l, kcnt l <= 1 ->
  kcnt (fold_left (fun m x => ncnt_incr x m) ids l) =
  if in_dec N.eq_dec i (nkeys l) then kcnt l else kcnt l + (if in_dec N.eq_dec i ids then 1 else 0).
Proof.
  induction ids as [|a t IH]; intros l Hl; cbn [fold_left].
  - destruct (in_dec N.eq_dec i (nkeys l)); [reflexivity|]. destruct (in_dec N.eq_dec i []) as [[]|]. lia.
  - pose proof (kcnt_incr a l) as Hk. unfold dl in Hk.
    assert (Hin : In i (nkeys l) <-> 0 < kcnt l) by (unfold kcnt; symmetry; apply icnt_pos_in).
    assert (Hin' : In i (nkeys (ncnt_incr a l)) <-> i = a \/ In i (nkeys l)) by apply nkeys_incr_in.
    destruct (in_dec N.eq_dec a (nkeys l)) as [Ha|Ha].
    + rewrite IH by lia. rewrite Hk.
      destruct (in_dec N.eq_dec i (nkeys (ncnt_incr a l))) as [H1|H1]; destruct (in_dec N.eq_dec i (nkeys l)) as [H2|H2]; try lia.
      * apply Hin' in H1. destruct H1 as [->|H1]; contradiction.
      * exfalso. apply H1, Hin'. now right.
      * destruct (in_dec N.eq_dec i t) as [H3|H3]; destruct (in_dec N.eq_dec i (a :: t)) as [H4|H4]; try lia.
        -- exfalso. apply H4. now right.
        -- destruct H4 as [->|H4]; contradiction.
    + destruct (N.eq_dec a i) as [->|Hai].
      * assert (H2 : ~ In i (nkeys l)) by exact Ha. assert (kcnt l = 0) by (unfold kcnt; apply icnt_zero_notin; exact H2).
        rewrite IH by lia. rewrite Hk.
        destruct (in_dec N.eq_dec i (nkeys (ncnt_incr i l))) as [H1|H1]; [|exfalso; apply H1, Hin'; now left].
        destruct (in_dec N.eq_dec i (nkeys l)); [contradiction|]. destruct (in_dec N.eq_dec i (i :: t)) as [|H4]; [lia|exfalso; apply H4; now left].
      * rewrite IH by lia. rewrite Hk.
        destruct (in_dec N.eq_dec i (nkeys (ncnt_incr a l))) as [H1|H1]; destruct (in_dec N.eq_dec i (nkeys l)) as [H2|H2]; try lia.
        -- apply Hin' in H1. destruct H1 as [->|H1]; [congruence|contradiction].
        -- exfalso. apply H1, Hin'. now right.
        -- destruct (in_dec N.eq_dec i t) as [H3|H3]; destruct (in_dec N.eq_dec i (a :: t)) as [H4|H4]; try lia.
           ++ exfalso. apply H4. now right.
           ++ destruct H4 as [H4|H4]; [congruence|contradiction].
Qed.
Lemma kcnt_remove : forall a l, kcnt (ncnt_remove a l) = kcnt l - (if in_dec N.eq_dec a (nkeys l) then dl a else 0).
Proof.
  unfold kcnt. induction l as [|[k n] t IH]; cbn [ncnt_remove nkeys map fst].
  - destruct (in_dec N.eq_dec a []) as [[]|]. lia.
  - fold (nkeys t) in *. destruct (N.eqb_spec k a) as [->|Hne].
    + fold (nkeys t). rewrite icnt_cons. destruct (in_dec N.eq_dec a (a :: nkeys t)) as [|Hn]; [lia|exfalso; apply Hn; now left].
    + cbn [nkeys map fst]. fold (nkeys (ncnt_remove a t)). rewrite !icnt_cons, IH.
      destruct (in_dec N.eq_dec a (nkeys t)) as [H1|H1]; destruct (in_dec N.eq_dec a (k :: nkeys t)) as [H2|H2]; try lia.
      * exfalso. apply H2. now right.
      * destruct H2 as [H2|H2]; [congruence|contradiction].
Qed.
Lemma filter_notin_icnt : forall (keys ids : list N),
  icnt (filter (fun x => negb (mem x keys)) ids) = if in_dec N.eq_dec i keys then 0 else icnt ids.
Proof.
  intros keys. induction ids as [|a t IH]; cbn [filter].
  - destruct (in_dec N.eq_dec i keys); reflexivity.
  - destruct (mem a keys) eqn:Em; cbn [negb].
    + apply mem_iff in Em. rewrite IH, icnt_cons. unfold dl. destruct (in_dec N.eq_dec i keys) as [|Hn]; [reflexivity|].
      destruct (N.eq_dec a i) as [->|]; [contradiction|lia].
    + rewrite !icnt_cons, IH. apply mem_false in Em. unfold dl. destruct (in_dec N.eq_dec i keys) as [Hi|]; [|reflexivity].
      destruct (N.eq_dec a i) as [->|]; [contradiction|lia].
Qed.

(* ---- containers ---- *)
Definition mn (c : ncont) : Z := icnt (nliq c) + kcnt (nlocked c).
Definition m (v : cont) : Z := match v with CN c => mn c | CF _ => 0 end.
Lemma mn_nonneg : forall c, 0 <= mn c.
Proof. intros c. unfold mn, kcnt. pose proof (icnt_nonneg (nliq c)). pose proof (icnt_nonneg (nkeys (nlocked c))). lia. Qed.
Lemma m_nonneg : forall v, 0 <= m v. Proof. intros [c|c]; cbn; [lia|apply mn_nonneg]. Qed.

Lemma n_new_m : forall ids, icnt ids <= 1 -> mn (n_new ids) = icnt ids.
Proof. intros ids H. unfold mn, n_new, kcnt. cbn [nliq nlocked nkeys map]. rewrite liq_extend_icnt by (rewrite icnt_nil; lia). rewrite !icnt_nil. lia. Qed.

Lemma n_take_ids_m : forall ids c c' out, n_take_ids ids c = Ok (c', out) -> mn c <= 1 ->
  out = ids /\ mn c' + mn (n_new out) = mn c.
Proof.
  intros ids c c' out H Hle. unfold n_take_ids in H. destruct (liq_take_ids ids (nliq c)) as [l| |] eqn:E; try discriminate.
  cbn [bind] in H. injection H as <- <-. split; [reflexivity|].
  pose proof (liq_take_ids_icnt _ _ _ E) as Hl. pose proof (icnt_nonneg l). pose proof (icnt_nonneg (nkeys (nlocked c))).
  assert (Hi : icnt ids <= 1) by (unfold mn, kcnt in Hle; lia).
  rewrite (n_new_m ids Hi). unfold mn, kcnt in *. cbn [nliq nlocked] in *. lia.
Qed.
Lemma n_take_amount_m : forall a c c' out, n_take_amount a c = Ok (c', out) -> mn c <= 1 -> mn c' + mn (n_new out) = mn c.
Proof.
  intros a c c' out H Hle. unfold n_take_amount in H. destruct (check_non_fungible_amount a); [|discriminate].
  destruct (N.of_nat (length (nliq c)) <? n)%N; [discriminate|]. destruct (n_take_ids_m _ _ _ _ H Hle) as [_ E]. exact E.
Qed.
Lemma n_lock_m : forall ids c c', n_lock ids c = Ok c' -> mn c <= 1 -> mn c' = mn c.
Proof.
  intros ids c c' H Hle. unfold n_lock in H.
  assert (Ef : filter (fun x => match ncnt_find x (nlocked c) with None => true | Some _ => false end) ids
             = filter (fun x => negb (mem x (nkeys (nlocked c)))) ids).
  { apply filter_ext. intros x. destruct (ncnt_find x (nlocked c)) eqn:E.
    - assert (In x (nkeys (nlocked c))) by (destruct (in_dec N.eq_dec x (nkeys (nlocked c))) as [|Hn]; [assumption|apply ncnt_find_none in Hn; congruence]).
      apply mem_iff in H0. rewrite H0. reflexivity.
    - apply ncnt_find_none in E. apply mem_false in E. rewrite E. reflexivity. }
  rewrite Ef in H. clear Ef.
  destruct (liq_take_ids _ (nliq c)) as [l| |] eqn:E; try discriminate. cbn [bind] in H. injection H as <-.
  pose proof (liq_take_ids_icnt _ _ _ E) as Hl. rewrite filter_notin_icnt in Hl.
  pose proof (icnt_nonneg l). pose proof (icnt_nonneg (nliq c)). pose proof (icnt_nonneg (nkeys (nlocked c))). pose proof (icnt_nonneg ids).
  unfold mn in *. cbn [nliq nlocked]. rewrite kcnt_fold_incr by (unfold kcnt in *; lia). unfold kcnt in *.
  destruct (in_dec N.eq_dec i (nkeys (nlocked c))) as [Hi|Hi]; [lia|].
  destruct (in_dec N.eq_dec i ids) as [Hi2|Hi2].
  - apply icnt_pos_in in Hi2. lia.
  - apply icnt_zero_notin in Hi2. lia.
Qed.
Lemma nkeys_snoc_icnt : forall l a c, icnt (nkeys (l ++ [(a, c)])) = icnt (nkeys l) + dl a.
Proof. intros. unfold nkeys. rewrite map_app, icnt_app. cbn [map fst]. rewrite icnt_cons, icnt_nil. lia. Qed.
Lemma unlock_loop_m : forall ids locked freed l' f', n_unlock_loop ids locked freed = Some (l', f') ->
  kcnt locked + icnt freed <= 1 -> kcnt l' + icnt f' = kcnt locked + icnt freed.
Proof.
  induction ids as [|a t IH]; intros locked freed l' f' H Hle; cbn [n_unlock_loop] in H.
  - injection H as <- <-. reflexivity.
  - destruct (ncnt_find a locked) as [c|] eqn:Ef; [|discriminate].
    assert (Ha : In a (nkeys locked)) by (destruct (in_dec N.eq_dec a (nkeys locked)) as [|Hn]; [assumption|apply ncnt_find_none in Hn; congruence]).
    pose proof (kcnt_remove a locked) as Hr. destruct (in_dec N.eq_dec a (nkeys locked)); [|contradiction].
    pose proof (icnt_nonneg freed). pose proof (icnt_nonneg (nkeys locked)). pose proof (dl_nonneg a). unfold kcnt in *.
    destruct (1 <? c)%N.
    + apply IH in H.
      * rewrite H. rewrite nkeys_snoc_icnt. lia.
      * rewrite nkeys_snoc_icnt. lia.
    + destruct (mem a freed) eqn:Em.
      * apply mem_iff in Em. pose proof (in_icnt_ge _ _ Em). pose proof (in_icnt_ge _ _ Ha).
        apply IH in H; [|unfold kcnt; lia]. rewrite H. unfold kcnt. unfold dl in *. destruct (N.eq_dec a i); lia.
      * apply IH in H; [|unfold kcnt; rewrite icnt_app, icnt_cons, icnt_nil; lia].
        rewrite H. unfold kcnt. rewrite icnt_app, icnt_cons, icnt_nil. lia.
Qed.
Lemma n_unlock_m : forall ids c c', n_unlock ids c = Ok c' -> mn c <= 1 -> mn c' = mn c.
Proof.
  intros ids c c' H Hle. unfold n_unlock in H. destruct (n_unlock_loop ids (nlocked c) []) as [[l' f']|] eqn:E; [|discriminate].
  injection H as <-. pose proof (icnt_nonneg (nliq c)). pose proof (icnt_nonneg f'). pose proof (icnt_nonneg (nkeys l')).
  unfold mn in *. apply unlock_loop_m in E; [|rewrite icnt_nil; lia]. rewrite icnt_nil in E. cbn [nliq nlocked].
  unfold kcnt in *. rewrite liq_extend_icnt by lia. lia.
Qed.
Lemma n_put_m : forall ids c, mn c + icnt ids <= 1 -> mn (n_put ids c) = mn c + icnt ids.
Proof.
  intros ids c H. pose proof (icnt_nonneg (nkeys (nlocked c))). unfold mn, n_put, kcnt in *. cbn [nliq nlocked]. rewrite liq_extend_icnt by lia. lia.
Qed.
Lemma n_create_proof_m : forall ids c c', n_create_proof ids c = Ok c' -> mn c <= 1 -> mn c' = mn c.
Proof.
  intros ids c c' H Hle. unfold n_create_proof in H. destruct (n_lock ids c) as [c1| |] eqn:E; try discriminate. cbn [bind] in H.
  destruct ids; [discriminate|]. injection H as <-. eapply n_lock_m; eassumption.
Qed.

(* ---- sums over the state ---- *)
Definition sel (r r' : N) (x : Z) : Z := if (r' =? r)%N then x else 0.
Fixpoint bsum (r : N) (l : list (N * (N * cont))) : Z :=
  match l with [] => 0 | (_, (r', v)) :: t => sel r r' (m v) + bsum r t end.
Fixpoint vsum (r : N) (l : list (N * cont)) : Z :=
  match l with [] => 0 | (k, v) :: t => sel r k (m v) + vsum r t end.
Fixpoint nsum (r : N) (l : list (N * list N)) : Z :=
  match l with [] => 0 | (k, ids) :: t => sel r k (icnt ids) + nsum r t end.
Definition holdI (s : st) (r : N) : Z := vsum r (vaults s) + bsum r (buckets s) + nsum r (burnedn s).

Lemma sel_nonneg : forall r r' x, 0 <= x -> 0 <= sel r r' x. Proof. intros. unfold sel. destruct (r' =? r)%N; lia. Qed.
Lemma bsum_nonneg : forall r l, 0 <= bsum r l.
Proof. induction l as [|[n [r' v]] t IH]; cbn [bsum]; [lia|]. pose proof (sel_nonneg r r' _ (m_nonneg v)). lia. Qed.
Lemma vsum_nonneg : forall r l, 0 <= vsum r l.
Proof. induction l as [|[k v] t IH]; cbn [vsum]; [lia|]. pose proof (sel_nonneg r k _ (m_nonneg v)). lia. Qed.
Lemma nsum_nonneg : forall r l, 0 <= nsum r l.
Proof. induction l as [|[k ids] t IH]; cbn [nsum]; [lia|]. pose proof (sel_nonneg r k _ (icnt_nonneg ids)). lia. Qed.
Lemma bsum_app : forall r a b, bsum r (a ++ b) = bsum r a + bsum r b.
Proof. induction a as [|[n [r' v]] t IH]; intros b; cbn [app bsum]; [lia|]. rewrite IH. lia. Qed.
Lemma bsum_aset : forall r l n r0 v v', afind n l = Some (r0, v) ->
  bsum r (aset n (r0, v') l) = bsum r l + sel r r0 (m v') - sel r r0 (m v).
Proof.
  induction l as [|[k [rk vk]] t IH]; intros n r0 v v' H; cbn [afind aset bsum] in *; [discriminate|].
  destruct (N.eqb_spec k n).
  - injection H as -> ->. cbn [bsum]. lia.
  - cbn [bsum]. rewrite (IH _ _ _ _ H). lia.
Qed.
Lemma bsum_aremove : forall r l n r0 v, afind n l = Some (r0, v) ->
  bsum r (aremove n l) = bsum r l - sel r r0 (m v).
Proof.
  induction l as [|[k [rk vk]] t IH]; intros n r0 v H; cbn [afind aremove bsum] in *; [discriminate|].
  destruct (N.eqb_spec k n).
  - injection H as -> ->. lia.
  - cbn [bsum]. rewrite (IH _ _ _ H). lia.
Qed.
Lemma bsum_ge : forall r l n r0 v, afind n l = Some (r0, v) -> sel r r0 (m v) <= bsum r l.
Proof.
  induction l as [|[k [rk vk]] t IH]; intros n r0 v H; cbn [afind bsum] in *; [discriminate|].
  pose proof (bsum_nonneg r t). pose proof (sel_nonneg r rk _ (m_nonneg vk)).
  destruct (N.eqb_spec k n); [injection H as -> ->; lia|]. specialize (IH _ _ _ H). lia.
Qed.
Lemma vsum_aset : forall r l k v v', afind k l = Some v ->
  vsum r (aset k v' l) = vsum r l + sel r k (m v') - sel r k (m v).
Proof.
  induction l as [|[k0 v0] t IH]; intros k v v' H; cbn [afind aset vsum] in *; [discriminate|].
  destruct (N.eqb_spec k0 k).
  - injection H as ->. subst. cbn [vsum]. lia.
  - cbn [vsum]. rewrite (IH _ _ _ H). lia.
Qed.
Lemma vsum_ge : forall r l k v, afind k l = Some v -> sel r k (m v) <= vsum r l.
Proof.
  induction l as [|[k0 v0] t IH]; intros k v H; cbn [afind vsum] in *; [discriminate|].
  pose proof (vsum_nonneg r t). pose proof (sel_nonneg r k0 _ (m_nonneg v0)).
  destruct (N.eqb_spec k0 k); [injection H as ->; subst; lia|]. specialize (IH _ _ H). lia.
Qed.
Lemma nsum_addn : forall r l k ids, nsum r (addn k ids l) = nsum r l + sel r k (icnt ids).
Proof.
  induction l as [|[k0 x] t IH]; intros k ids; cbn [addn nsum]; [lia|].
  destruct (N.eqb_spec k0 k).
  - subst. cbn [nsum]. rewrite icnt_app. unfold sel. destruct (k =? r)%N; lia.
  - cbn [nsum]. rewrite IH. lia.
Qed.

Lemma hold_parts_nonneg : forall s r, 0 <= vsum r (vaults s) /\ 0 <= bsum r (buckets s) /\ 0 <= nsum r (burnedn s).
Proof. intros. split; [apply vsum_nonneg|split; [apply bsum_nonneg|apply nsum_nonneg]]. Qed.

Ltac parts s r := let H := fresh in pose proof (hold_parts_nonneg s r) as H; destruct H as (? & ? & ?).
Ltac fin := unfold sel in *; repeat match goal with H : context [N.eqb _ _] |- _ => revert H end;
  repeat match goal with |- context [(?a =? ?b)%N] => destruct (a =? b)%N end; intros; try lia.

Lemma ok_inj : forall (A : Type) (x y : A), @Ok A x = Ok y -> x = y.
Proof. intros A x y H. injection H. auto. Qed.

Lemma hold_same : forall s s' r, vaults s' = vaults s -> buckets s' = buckets s -> burnedn s' = burnedn s -> holdI s' r = holdI s r.
Proof. intros s s' r H1 H2 H3. unfold holdI. rewrite H1, H2, H3. reflexivity. Qed.

(* a container of resource r holds at most what the state holds *)
Lemma get_cont_le : forall s c r0 v r, get_cont s c = Some (r0, v) -> sel r r0 (m v) <= holdI s r.
Proof.
  intros s [k|n] r0 v r H; unfold get_cont in H; parts s r; unfold holdI.
  - destruct (afind k (vaults s)) as [v0|] eqn:E; [|discriminate]. injection H as <- <-. pose proof (vsum_ge r _ _ _ E). lia.
  - pose proof (bsum_ge r _ _ _ _ H). lia.
Qed.
Lemma put_cont_hold : forall s c r0 v v' r, get_cont s c = Some (r0, v) ->
  sel r r0 (m v') = sel r r0 (m v) -> holdI (put_cont s c v') r = holdI s r.
Proof.
  intros s [k|n] r0 v v' r H E; unfold get_cont, put_cont in *.
  - destruct (afind k (vaults s)) as [v0|] eqn:Ef; [|discriminate]. injection H as <- <-.
    unfold holdI. cbn [vaults buckets burnedn set_vaults]. rewrite (vsum_aset _ _ _ _ _ Ef). lia.
  - rewrite H. unfold holdI. cbn [vaults buckets burnedn set_buckets]. rewrite (bsum_aset _ _ _ _ _ _ H). lia.
Qed.
Lemma new_bucket_hold : forall s r0 v s' n r, new_bucket s r0 v = (s', n) -> holdI s' r = holdI s r + sel r r0 (m v).
Proof.
  intros s r0 v s' n r H. unfold new_bucket in H. injection H as <- _. unfold holdI. cbn [vaults buckets burnedn set_buckets set_next_node].
  rewrite bsum_app. cbn [bsum]. lia.
Qed.
Lemma unlocked_m : forall v, cont_is_locked v = false -> m v = match v with CN c => icnt (nliq c) | CF _ => 0 end.
Proof. intros [c|c] H; cbn in *; [reflexivity|]. unfold n_is_locked in H. unfold mn, kcnt. destruct (nlocked c); [|discriminate]. cbn [nkeys map]. change (icnt []) with 0. lia. Qed.
Lemma drop_bucket_hold : forall s n s' r0 v r, drop_bucket s n = Ok (s', (r0, v)) ->
  holdI s' r = holdI s r - sel r r0 (m v) /\ cont_is_locked v = false /\ afind n (buckets s) = Some (r0, v) /\ buckets s' = aremove n (buckets s) /\ vaults s' = vaults s.
Proof.
  intros s n s' r0 v r H. unfold drop_bucket in H. destruct (afind n (buckets s)) as [[r1 v1]|] eqn:E; [|discriminate].
  destruct (cont_is_locked v1) eqn:El; [discriminate|]. injection H as <- <- <-. repeat split; try assumption.
  unfold holdI. cbn [vaults buckets burnedn set_buckets]. rewrite (bsum_aremove _ _ _ _ _ E). lia.
Qed.
Lemma drop_empty_hold : forall s n s' r, drop_empty s n = Ok s' -> holdI s' r = holdI s r.
Proof.
  intros s n s' r H. unfold drop_empty in H. destruct (drop_bucket s n) as [[s1 [r0 v]]| |] eqn:E; try discriminate.
  cbn [bind] in H. destruct (cont_liquid_zero v) eqn:Ez; [|discriminate]. injection H as <-.
  destruct (drop_bucket_hold _ _ _ _ _ r E) as (Hh & Hl & _). rewrite Hh, (unlocked_m _ Hl).
  destruct v as [c|c]; cbn in Ez; [fin|]. destruct (nliq c); [|discriminate]. change (icnt []) with 0. fin.
Qed.

Lemma bucket_put_hold : forall s own other s' r, holdI s r <= 1 -> bucket_put s own other = Ok s' -> holdI s' r = holdI s r.
Proof.
  intros s own other s' r Hle H. unfold bucket_put in H.
  destruct (drop_bucket s other) as [[s1 [ro vo]]| |] eqn:E; try discriminate. cbn [bind] in H.
  destruct (drop_bucket_hold _ _ _ _ _ r E) as (Hh & Hl & _). pose proof (unlocked_m _ Hl) as Hu.
  destruct (afind own (buckets s1)) as [[r1 [c|c]]|] eqn:Eo; try discriminate; destruct vo as [co|co]; try discriminate;
    destruct (N.eqb_spec ro r1) as [->|]; cbn [negb] in H; try discriminate.
  - unfold liq_put, dadd in H. destruct (dec_ok _); [|discriminate]. cbn [bind] in H. injection H as <-.
    unfold holdI in *. cbn [vaults buckets burnedn set_buckets] in *. rewrite (bsum_aset _ _ _ _ _ _ Eo). cbn [m] in *. fin.
  - injection H as <-. pose proof (bsum_ge r _ _ _ _ Eo) as Hge. parts s1 r.
    unfold holdI in *. cbn [vaults buckets burnedn set_buckets] in *. rewrite (bsum_aset _ _ _ _ _ _ Eo). cbn [m] in *.
    unfold sel in *. destruct (r1 =? r)%N; [|lia]. rewrite n_put_m by lia. lia.
Qed.
Lemma worktop_put_hold : forall s n s' r, holdI s r <= 1 -> worktop_put s n = Ok s' -> holdI s' r = holdI s r.
Proof.
  intros s n s' r Hle H. unfold worktop_put in H. destruct (afind n (buckets s)) as [[r0 v]|]; [|discriminate].
  destruct (cont_amount v) as [amt| |]; try discriminate. cbn [bind] in H.
  destruct (amt =? 0); [eapply drop_empty_hold, H|].
  destruct (afind r0 (worktop s)) as [own|]; [eapply bucket_put_hold; eassumption|].
  injection H as <-. apply hold_same; reflexivity.
Qed.
Lemma new_empty_bucket_hold : forall s r0 s' n r, new_empty_bucket s r0 = Ok (s', n) -> holdI s' r = holdI s r.
Proof.
  intros s r0 s' n r H. unfold new_empty_bucket in H. destruct (kind_of s r0) as [k|]; [|discriminate].
  apply ok_inj in H. rewrite (new_bucket_hold _ _ _ _ _ r H). destruct k; cbn [empty_cont m]; [fin|].
  rewrite n_new_m by (rewrite icnt_nil; lia). rewrite icnt_nil. fin.
Qed.
Lemma bucket_take_hold : forall s n a s' k r, holdI s r <= 1 -> bucket_take s n a = Ok (s', k) -> holdI s' r = holdI s r.
Proof.
  intros s n a s' k r Hle H. unfold bucket_take in H. destruct (afind n (buckets s)) as [[r0 [c|c]]|] eqn:E; try discriminate.
  - destruct (f_take (div_of s r0) a c) as [[c' amt]| |]; try discriminate. cbn [bind] in H. apply ok_inj in H.
    rewrite (new_bucket_hold _ _ _ _ _ r H). unfold holdI. cbn [vaults buckets burnedn set_buckets].
    rewrite (bsum_aset _ _ _ _ _ _ E). cbn [m]. fin.
  - destruct (n_take_amount a c) as [[c' ids]| |] eqn:Et; try discriminate. cbn [bind] in H. apply ok_inj in H.
    rewrite (new_bucket_hold _ _ _ _ _ r H). pose proof (bsum_ge r _ _ _ _ E) as Hge. parts s r.
    unfold holdI in *. cbn [vaults buckets burnedn set_buckets]. rewrite (bsum_aset _ _ _ _ _ _ E). cbn [m] in *.
    unfold sel in *. destruct (r0 =? r)%N; [|lia]. pose proof (n_take_amount_m _ _ _ _ Et). lia.
Qed.
Lemma bucket_take_ids_hold : forall s n ids s' k r, holdI s r <= 1 -> bucket_take_ids s n ids = Ok (s', k) -> holdI s' r = holdI s r.
Proof.
  intros s n ids s' k r Hle H. unfold bucket_take_ids in H. destruct (afind n (buckets s)) as [[r0 [c|c]]|] eqn:E; try discriminate.
  destruct (n_take_ids ids c) as [[c' ids']| |] eqn:Et; try discriminate. cbn [bind] in H. apply ok_inj in H.
  rewrite (new_bucket_hold _ _ _ _ _ r H). pose proof (bsum_ge r _ _ _ _ E) as Hge. parts s r.
  unfold holdI in *. cbn [vaults buckets burnedn set_buckets]. rewrite (bsum_aset _ _ _ _ _ _ E). cbn [m] in *.
  unfold sel in *. destruct (r0 =? r)%N; [|lia]. pose proof (n_take_ids_m _ _ _ _ Et). lia.
Qed.
Lemma worktop_take_hold : forall s r0 a s' n r, holdI s r <= 1 -> worktop_take s r0 a = Ok (s', n) -> holdI s' r = holdI s r.
Proof.
  intros s r0 a s' n r Hle H. unfold worktop_take in H. destruct (a =? 0); [eapply new_empty_bucket_hold, H|].
  destruct (afind r0 (worktop s)) as [w|]; [|discriminate].
  destruct (afind w (buckets s)) as [[rv v]|]; [|discriminate].
  destruct (cont_amount v) as [ex| |]; try discriminate. cbn [bind] in H.
  destruct (ex <? a); [discriminate|]. destruct (ex =? a); [|eapply bucket_take_hold; eassumption].
  injection H as <- _. apply hold_same; reflexivity.
Qed.
Lemma worktop_take_ids_hold : forall s r0 ids s' n r, holdI s r <= 1 -> worktop_take_ids s r0 ids = Ok (s', n) -> holdI s' r = holdI s r.
Proof.
  intros s r0 ids s' n r Hle H. unfold worktop_take_ids in H. destruct ids as [|x t]; [eapply new_empty_bucket_hold, H|].
  destruct (afind r0 (worktop s)) as [w|]; [|discriminate].
  destruct (afind w (buckets s)) as [[rv [c|c]]|]; try discriminate.
  destruct (negb (subset (x :: t) (n_ids c))); [discriminate|].
  destruct (len (n_ids c) =? len (x :: t))%N; [|eapply bucket_take_ids_hold; eassumption].
  injection H as <- _. apply hold_same; reflexivity.
Qed.
Lemma worktop_take_all_hold : forall s r0 s' n r, worktop_take_all s r0 = Ok (s', n) -> holdI s' r = holdI s r.
Proof.
  intros s r0 s' n r H. unfold worktop_take_all in H. destruct (afind r0 (worktop s)); [|eapply new_empty_bucket_hold, H].
  injection H as <- _. apply hold_same; reflexivity.
Qed.

Lemma cont_step_hold : forall s c r0 (nc nc' : ncont) r, holdI s r <= 1 -> get_cont s c = Some (r0, CN nc) ->
  (mn nc <= 1 -> mn nc' = mn nc) -> holdI (put_cont s c (CN nc')) r = holdI s r.
Proof.
  intros s c r0 nc nc' r Hle Hg Hm. eapply put_cont_hold; [exact Hg|]. pose proof (get_cont_le _ _ _ _ r Hg) as Hc. cbn [m] in *.
  unfold sel in *. destruct (r0 =? r)%N; [|reflexivity]. apply Hm. lia.
Qed.
Lemma lock_proof_hold : forall s p s' r, holdI s r <= 1 -> lock_proof s p = Ok s' -> holdI s' r = holdI s r.
Proof.
  intros s [c a|c ids] s' r Hle H; unfold lock_proof in H; destruct (get_cont s c) as [[r0 [fc|nc]]|] eqn:E; try discriminate.
  - destruct (f_lock a fc) as [fc'| |]; try discriminate. cbn [bind] in H. injection H as <-.
    eapply put_cont_hold; [exact E|reflexivity].
  - destruct (n_lock ids nc) as [nc'| |] eqn:El; try discriminate. cbn [bind] in H. injection H as <-.
    eapply cont_step_hold; [assumption|exact E|]. intros. eapply n_lock_m; eassumption.
Qed.
Lemma drop_proof_hold : forall s p s' r, holdI s r <= 1 -> drop_proof s p = Ok s' -> holdI s' r = holdI s r.
Proof.
  intros s [c a|c ids] s' r Hle H; unfold drop_proof in H; destruct (get_cont s c) as [[r0 [fc|nc]]|] eqn:E; try discriminate.
  - destruct (f_unlock a fc) as [fc'| |]; try discriminate. cbn [bind] in H. injection H as <-.
    eapply put_cont_hold; [exact E|reflexivity].
  - destruct (n_unlock ids nc) as [nc'| |] eqn:El; try discriminate. cbn [bind] in H. injection H as <-.
    eapply cont_step_hold; [assumption|exact E|]. intros. eapply n_unlock_m; eassumption.
Qed.
Lemma drop_proofs_hold : forall ps s s' r, holdI s r <= 1 -> drop_proofs s ps = Ok s' -> holdI s' r = holdI s r.
Proof.
  induction ps as [|p t IH]; intros s s' r Hle H; cbn [drop_proofs] in H; [injection H as <-; reflexivity|].
  destruct (drop_proof s p) as [s1| |] eqn:E; try discriminate. cbn [bind] in H.
  pose proof (drop_proof_hold _ _ _ r Hle E) as H1. rewrite (IH s1 s' r ltac:(lia) H). exact H1.
Qed.
Lemma create_proof_amount_hold : forall s c a s' p r, create_proof_amount s c a = Ok (s', p) -> holdI s' r = holdI s r.
Proof.
  intros s c a s' p r H. unfold create_proof_amount in H. destruct (get_cont s c) as [[r0 [fc|nc]]|] eqn:E; try discriminate.
  destruct (f_create_proof (div_of s r0) a fc) as [fc'| |]; try discriminate. cbn [bind] in H. injection H as <- _.
  eapply put_cont_hold; [exact E|reflexivity].
Qed.
Lemma create_proof_ids_hold : forall s c ids s' p r, holdI s r <= 1 -> create_proof_ids s c ids = Ok (s', p) -> holdI s' r = holdI s r.
Proof.
  intros s c ids s' p r Hle H. unfold create_proof_ids in H. destruct (get_cont s c) as [[r0 [fc|nc]]|] eqn:E; try discriminate.
  destruct (n_create_proof ids nc) as [nc'| |] eqn:El; try discriminate. cbn [bind] in H. injection H as <- _.
  eapply cont_step_hold; [assumption|exact E|]. intros. eapply n_create_proof_m; eassumption.
Qed.
Lemma create_proof_all_hold : forall s c s' p r, holdI s r <= 1 -> create_proof_all s c = Ok (s', p) -> holdI s' r = holdI s r.
Proof.
  intros s c s' p r Hle H. unfold create_proof_all in H. destruct (get_cont s c) as [[r0 [fc|nc]]|]; try discriminate.
  - destruct (f_amount fc); try discriminate. cbn [bind] in H. eapply create_proof_amount_hold, H.
  - eapply create_proof_ids_hold; eassumption.
Qed.
Lemma burn_bucket_hold : forall s n s' r, burn_bucket s n = Ok s' -> holdI s' r = holdI s r.
Proof.
  intros s n s' r H. unfold burn_bucket in H. destruct (drop_bucket s n) as [[s1 [r0 v]]| |] eqn:E; try discriminate.
  cbn [bind] in H. destruct (drop_bucket_hold _ _ _ _ _ r E) as (Hh & Hl & _). pose proof (unlocked_m _ Hl) as Hu.
  destruct v as [c|c]; injection H as <-; unfold holdI in *; cbn [vaults buckets burnedn set_burnedf set_burnedn] in *.
  - cbn [m] in *. fin.
  - rewrite nsum_addn. fin.
Qed.
Lemma vault_put_hold : forall s n s' r, holdI s r <= 1 -> vault_put s n = Ok s' -> holdI s' r = holdI s r.
Proof.
  intros s n s' r Hle H. unfold vault_put in H. destruct (drop_bucket s n) as [[s1 [r0 vo]]| |] eqn:E; try discriminate.
  cbn [bind] in H. destruct (drop_bucket_hold _ _ _ _ _ r E) as (Hh & Hl & _ & _ & Hv). pose proof (unlocked_m _ Hl) as Hu.
  destruct (afind r0 (vaults s1)) as [[c|c]|] eqn:Ev; try discriminate; destruct vo as [co|co]; try discriminate.
  - destruct (f_put (fliq co) c) as [c'| |]; try discriminate. cbn [bind] in H. injection H as <-.
    unfold holdI in *. cbn [vaults buckets burnedn set_vaults] in *. rewrite (vsum_aset _ _ _ _ _ Ev). cbn [m] in *. fin.
  - injection H as <-. pose proof (vsum_ge r _ _ _ Ev) as Hge. parts s1 r.
    unfold holdI in *. cbn [vaults buckets burnedn set_vaults] in *. rewrite (vsum_aset _ _ _ _ _ Ev). cbn [m] in *.
    unfold sel in *. destruct (r0 =? r)%N; [|lia]. rewrite n_put_m by lia. lia.
Qed.
Lemma vault_put_all_hold : forall ns s s' r, holdI s r <= 1 -> vault_put_all s ns = Ok s' -> holdI s' r = holdI s r.
Proof.
  induction ns as [|n t IH]; intros s s' r Hle H; cbn [vault_put_all] in H; [injection H as <-; reflexivity|].
  destruct (vault_put s n) as [s1| |] eqn:E; try discriminate. cbn [bind] in H.
  pose proof (vault_put_hold _ _ _ r Hle E) as H1. rewrite (IH s1 s' r ltac:(lia) H). exact H1.
Qed.
Lemma vault_take_hold : forall s r0 a s' n r, vault_take s r0 a = Ok (s', n) -> holdI s' r = holdI s r.
Proof.
  intros s r0 a s' n r H. unfold vault_take in H. destruct (afind r0 (vaults s)) as [[c|c]|] eqn:E; try discriminate.
  destruct (f_take (div_of s r0) a c) as [[c' amt]| |]; try discriminate. cbn [bind] in H. apply ok_inj in H.
  rewrite (new_bucket_hold _ _ _ _ _ r H). unfold holdI. cbn [vaults buckets burnedn set_vaults]. rewrite (vsum_aset _ _ _ _ _ E). cbn [m]. fin.
Qed.
Lemma vault_take_ids_hold : forall s r0 ids s' n r, holdI s r <= 1 -> vault_take_ids s r0 ids = Ok (s', n) -> holdI s' r = holdI s r.
Proof.
  intros s r0 ids s' n r Hle H. unfold vault_take_ids in H. destruct (afind r0 (vaults s)) as [[c|c]|] eqn:E; try discriminate.
  destruct (n_take_ids ids c) as [[c' ids']| |] eqn:Et; try discriminate. cbn [bind] in H. apply ok_inj in H.
  rewrite (new_bucket_hold _ _ _ _ _ r H). pose proof (vsum_ge r _ _ _ E) as Hge. parts s r.
  unfold holdI in *. cbn [vaults buckets burnedn set_vaults]. rewrite (vsum_aset _ _ _ _ _ E). cbn [m] in *.
  unfold sel in *. destruct (r0 =? r)%N; [|lia]. pose proof (n_take_ids_m _ _ _ _ Et). lia.
Qed.
Lemma take_named_hold : forall s b s' n r, take_named s b = Ok (s', n) -> holdI s' r = holdI s r.
Proof. intros s b s' n r H. unfold take_named in H. destruct (afind b (named s)); [|discriminate]. injection H as <- _. reflexivity. Qed.

Ltac bindstep H E := match type of H with
  | bind ?x _ = Ok _ => destruct x as [?|?|] eqn:E; try discriminate; cbn [bind] in H end.
Ltac same := apply hold_same; reflexivity.

Theorem step_conserves_id : forall s o s' r, holdI s r <= 1 -> step s o = Ok s' -> holdI s' r = holdI s r.
Proof.
  intros s o s' r Hle H. destruct o; cbn [step] in H.
  all: try (unfold need_owner in H; destruct (signed s); cbn [bind] in H; [|discriminate]).
  - bindstep H E. destruct a0 as [s1 n]. pose proof (vault_take_hold _ _ _ _ _ r E) as H1. rewrite (worktop_put_hold s1 n s' r ltac:(lia) H). exact H1.
  - bindstep H E. destruct a as [s1 n]. pose proof (vault_take_ids_hold _ _ _ _ _ r Hle E) as H1. rewrite (worktop_put_hold s1 n s' r ltac:(lia) H). exact H1.
  - bindstep H E. destruct a0 as [s1 n]. rewrite (burn_bucket_hold _ _ _ r H). eapply vault_take_hold, E.
  - bindstep H E. destruct a as [s1 n]. rewrite (burn_bucket_hold _ _ _ r H). eapply vault_take_ids_hold; eassumption.
  - bindstep H E. destruct a0 as [s1 p]. injection H as <-. rewrite <- (create_proof_amount_hold _ _ _ _ _ r E). same.
  - bindstep H E. destruct a as [s1 p]. injection H as <-. rewrite <- (create_proof_ids_hold _ _ _ _ _ r Hle E). same.
  - bindstep H E. destruct a0 as [s1 n]. pose proof (vault_take_hold _ _ _ _ _ r E) as H1. rewrite (worktop_put_hold s1 n s' r ltac:(lia) H). exact H1.
  - bindstep H E. destruct a as [s1 n]. pose proof (vault_take_ids_hold _ _ _ _ _ r Hle E) as H1. rewrite (worktop_put_hold s1 n s' r ltac:(lia) H). exact H1.
  - destruct (rev (azone s)); [discriminate|]. injection H as <-. same.
  - destruct (afind p (pnamed s)); [|discriminate]. injection H as <-. same.
  - destruct (afind p (pnamed s)) as [pr|]; [|discriminate]. bindstep H E. injection H as <-.
    rewrite <- (lock_proof_hold _ _ _ r Hle E). same.
  - destruct (afind p (pnamed s)) as [pr|]; [|discriminate].
    rewrite (drop_proof_hold (set_pnamed s (aremove p (pnamed s))) _ _ r Hle H). same.
  - bindstep H E. assert (H0 : holdI a r = holdI s r) by (rewrite (drop_proofs_hold _ (set_pnamed s []) _ r Hle E); same).
    assert (Hle2 : holdI (set_signed (set_azone a []) false) r <= 1) by (change (holdI a r <= 1); lia).
    rewrite (drop_proofs_hold _ _ _ r Hle2 H).
    rewrite <- H0. same.
  - rewrite (drop_proofs_hold _ (set_pnamed s []) _ r Hle H). same.
  - rewrite (drop_proofs_hold _ (set_signed (set_azone s []) false) _ r Hle H). same.
  - bindstep H E. destruct a0 as [s1 n]. injection H as <-. rewrite <- (worktop_take_hold _ _ _ _ _ r Hle E). same.
  - bindstep H E. destruct a as [s1 n]. injection H as <-. rewrite <- (worktop_take_ids_hold _ _ _ _ _ r Hle E). same.
  - bindstep H E. destruct a as [s1 n]. injection H as <-. rewrite <- (worktop_take_all_hold _ _ _ _ r E). same.
  - bindstep H E. destruct a as [s1 n]. pose proof (take_named_hold _ _ _ _ r E) as H1. rewrite (worktop_put_hold s1 n s' r ltac:(lia) H). exact H1.
  - unfold get_named in H. destruct (afind b (named s)) as [n|]; [|discriminate]. cbn [bind] in H.
    bindstep H E. destruct a0 as [s1 p]. injection H as <-. rewrite <- (create_proof_amount_hold _ _ _ _ _ r E). same.
  - unfold get_named in H. destruct (afind b (named s)) as [n|]; [|discriminate]. cbn [bind] in H.
    bindstep H E. destruct a as [s1 p]. injection H as <-. rewrite <- (create_proof_ids_hold _ _ _ _ _ r Hle E). same.
  - unfold get_named in H. destruct (afind b (named s)) as [n|]; [|discriminate]. cbn [bind] in H.
    bindstep H E. destruct a as [s1 p]. injection H as <-. rewrite <- (create_proof_all_hold _ _ _ _ r Hle E). same.
  - bindstep H E. destruct a as [s1 n]. rewrite (burn_bucket_hold _ _ _ r H). eapply take_named_hold, E.
  - bindstep H E. destruct a as [s1 n]. unfold need_owner in H. destruct (signed s1); cbn [bind] in H; [|discriminate].
    pose proof (take_named_hold _ _ _ _ r E) as H1. rewrite (vault_put_hold s1 n s' r ltac:(lia) H). exact H1.
  - cbv zeta in H. unfold need_owner in H. cbn [signed set_worktop] in H. destruct (signed s); cbn [bind] in H; [|discriminate].
    rewrite (vault_put_all_hold _ (set_worktop s []) _ r Hle H). same.
  - bindstep H E. destruct (a0 <? a); [discriminate|]. injection H as <-. reflexivity.
  - bindstep H E. destruct (a =? 0); [discriminate|]. injection H as <-. reflexivity.
  - match type of H with (match ?d with _ => _ end) = _ => destruct d end; [|discriminate]. injection H as <-. reflexivity.
Qed.

Lemma drop_empty_all_hold : forall ns s s' r, drop_empty_all s ns = Ok s' -> holdI s' r = holdI s r.
Proof.
  induction ns as [|n t IH]; intros s s' r H; cbn [drop_empty_all] in H; [injection H as <-; reflexivity|].
  destruct (drop_empty s n) as [s1| |] eqn:E; try discriminate. cbn [bind] in H.
  rewrite (IH _ _ _ H). eapply drop_empty_hold, E.
Qed.
Theorem finish_conserves_id : forall s s' r, holdI s r <= 1 -> finish s = Ok s' -> holdI s' r = holdI s r.
Proof.
  intros s s' r Hle H. unfold finish in H.
  bindstep H E1. bindstep H E2. bindstep H E3. destruct (buckets a1); [|discriminate]. injection H as <-.
  assert (H1 : holdI a r = holdI s r) by (rewrite (drop_empty_all_hold _ _ _ r E1); same).
  assert (L2 : holdI (set_pnamed a []) r <= 1) by (change (holdI a r <= 1); lia).
  assert (H2 : holdI a0 r = holdI a r) by (rewrite (drop_proofs_hold _ _ _ r L2 E2); same).
  assert (L3 : holdI (set_azone a0 []) r <= 1) by (change (holdI a0 r <= 1); lia).
  assert (H3 : holdI a1 r = holdI a0 r) by (rewrite (drop_proofs_hold _ _ _ r L3 E3); same).
  lia.
Qed.
Theorem run_conserves_id : forall ops k s s' r, holdI s r <= 1 -> run_from k s ops = Done s' -> holdI s' r = holdI s r.
Proof.
  induction ops as [|o t IH]; intros k s s' r Hle H; cbn [run_from] in H.
  - destruct (finish s) as [s1| |] eqn:E; try discriminate. injection H as <-. eapply finish_conserves_id; eassumption.
  - destruct (step s o) as [s1| |] eqn:E; try discriminate. pose proof (step_conserves_id _ _ _ r Hle E) as H1.
    rewrite (IH _ s1 s' r ltac:(lia) H). exact H1.
Qed.
End OneId.

(* the harness's initial state (and any state whose non-fungible vault was built from a list of
   ids) holds every id at most once *)
Lemma init_unique : forall i f0 f1 ids r, holdI i (init f0 f1 ids) r <= 1.
Proof.
  intros i f0 f1 ids r. unfold holdI, init. cbn [vaults buckets burnedn vsum bsum nsum m].
  assert (H : mn i (n_new ids) <= 1).
  { unfold mn, kcnt, n_new. cbn [nliq nlocked nkeys map]. change (icnt i []) with 0.
    assert (Hnd : NoDup (liq_extend [] ids)) by (apply liq_extend_nodup; constructor).
    unfold icnt. rewrite (NoDup_count_occ N.eq_dec) in Hnd. specialize (Hnd i). lia. }
  unfold sel. destruct (0 =? r)%N; destruct (1 =? r)%N; destruct (2 =? r)%N; pose proof (mn_nonneg i (n_new ids)); lia.
Qed.
