(* C20 — base lemmas for the SBOR codec model: lengths, slicing, LEB128 sizes, integer images,
   value-kind bytes. *)
From Coq Require Import List NArith ZArith Bool Lia.
Import ListNotations.
Require Import RV.Lib.Utf8 RV.Model.C20_Sbor.
Open Scope N_scope.
Ltac Zify.zify_post_hook ::= Z.div_mod_to_equations.

Arguments N.add : simpl never. Arguments N.sub : simpl never. Arguments N.mul : simpl never.
Arguments N.eqb : simpl never. Arguments N.ltb : simpl never. Arguments N.leb : simpl never.
Arguments N.land : simpl never. Arguments N.lor : simpl never.
Arguments N.shiftl : simpl never. Arguments N.shiftr : simpl never.
Arguments N.div : simpl never. Arguments N.modulo : simpl never. Arguments N.pow : simpl never.

(* ------------------------------------------------------------------------------------------ *)
(* nlen, take                                                                                  *)
Lemma nlen_acc_spec : forall A (l : list A) acc, nlen_acc l acc = acc + N.of_nat (length l).
Proof.
  induction l as [|x l IH]; intro acc; cbn [nlen_acc length].
  - lia.
  - rewrite IH. lia.
Qed.
Lemma nlen_spec : forall A (l : list A), nlen l = N.of_nat (length l).
Proof. intros. unfold nlen. rewrite nlen_acc_spec. lia. Qed.
Lemma nlen_nil : forall A, nlen (@nil A) = 0.
Proof. reflexivity. Qed.
Lemma nlen_cons : forall A (x : A) l, nlen (x :: l) = nlen l + 1.
Proof. intros. rewrite !nlen_spec. cbn [length]. lia. Qed.
Lemma nlen_app : forall A (a b : list A), nlen (a ++ b) = nlen a + nlen b.
Proof. intros. rewrite !nlen_spec, app_length. lia. Qed.
Lemma nlen_zero : forall A (l : list A), nlen l = 0 -> l = [].
Proof. intros A [|x l] H; [reflexivity|]. rewrite nlen_cons in H. lia. Qed.

Lemma take_app : forall a r, take (nlen a) (a ++ r) = Some (a, r).
Proof.
  induction a as [|x a IH]; intro r.
  - cbn [app]. rewrite nlen_nil. destruct r; reflexivity.
  - cbn [app take]. rewrite nlen_cons.
    replace (nlen a + 1 =? 0) with false by (symmetry; apply N.eqb_neq; lia).
    replace (nlen a + 1 - 1) with (nlen a) by lia. rewrite IH. reflexivity.
Qed.
Lemma take_some : forall l n a r, take n l = Some (a, r) -> l = a ++ r /\ nlen a = n.
Proof.
  induction l as [|x l IH]; intros n a r H; cbn [take] in H.
  - destruct (n =? 0) eqn:E; [|discriminate]. inversion H; subst. apply N.eqb_eq in E. split; [reflexivity|]. rewrite nlen_nil. lia.
  - destruct (n =? 0) eqn:E.
    + inversion H; subst. apply N.eqb_eq in E. split; [reflexivity|rewrite nlen_nil; lia].
    + destruct (take (n - 1) l) as [[a' r']|] eqn:T; [|discriminate]. inversion H; subst.
      apply IH in T. destruct T as [T1 T2]. subst l. split; [reflexivity|]. rewrite nlen_cons.
      apply N.eqb_neq in E. lia.
Qed.
Lemma take_none : forall l n, take n l = None -> nlen l < n.
Proof.
  induction l as [|x l IH]; intros n H; cbn [take] in H.
  - destruct (n =? 0) eqn:E; [discriminate|]. apply N.eqb_neq in E. rewrite nlen_nil. lia.
  - destruct (n =? 0) eqn:E; [discriminate|]. apply N.eqb_neq in E.
    destruct (take (n - 1) l) as [[a' r']|] eqn:T; [discriminate|]. apply IH in T. rewrite nlen_cons. lia.
Qed.

Lemma bytes_ok_app : forall a b, bytes_ok (a ++ b) = bytes_ok a && bytes_ok b.
Proof. intros. unfold bytes_ok. apply forallb_app. Qed.
Lemma bytes_ok_cons : forall x a, bytes_ok (x :: a) = byte_ok x && bytes_ok a.
Proof. reflexivity. Qed.

Lemma read_slice_app : forall a r, read_slice (nlen a) (a ++ r) = Ok (a, r).
Proof. intros. unfold read_slice. rewrite take_app. reflexivity. Qed.
Lemma read_slice_ok : forall n st a r, read_slice n st = Ok (a, r) -> st = a ++ r /\ nlen a = n.
Proof.
  intros n st a r H. unfold read_slice in H. destruct (take n st) as [[a' r']|] eqn:T; [|discriminate].
  inversion H; subst. apply take_some in T. exact T.
Qed.

(* ------------------------------------------------------------------------------------------ *)
(* bit operations used by the LEB128 codec, as arithmetic                                      *)
Lemma land_127 : forall b, N.land b 127 = b mod 128.
Proof. intro b. change 127 with (N.ones 7). rewrite N.land_ones. reflexivity. Qed.
Lemma shiftr_7 : forall s, N.shiftr s 7 = s / 128.
Proof. intro s. rewrite N.shiftr_div_pow2. reflexivity. Qed.
Lemma lor_shiftl_add : forall a x s, a < 2 ^ s -> N.lor a (N.shiftl x s) = a + x * 2 ^ s.
Proof.
  intros a x s H.
  assert (D : N.land a (N.shiftl x s) = 0).
  { apply N.bits_inj. intro i. rewrite N.land_spec, N.bits_0.
    destruct (N.lt_ge_cases i s) as [L|G].
    - rewrite N.shiftl_spec_low by exact L. apply andb_false_r.
    - replace (N.testbit a i) with false; [reflexivity|]. symmetry.
      destruct (N.eq_dec a 0) as [Z|NZ]; [subst; apply N.bits_0|].
      apply N.bits_above_log2. apply N.log2_lt_pow2; [lia|].
      apply N.lt_le_trans with (2 ^ s); [exact H|]. apply N.pow_le_mono_r; lia. }
  rewrite <- N.lxor_lor by exact D. rewrite <- N.add_nocarry_lxor by exact D.
  rewrite N.shiftl_mul_pow2. reflexivity.
Qed.
Lemma lor_128 : forall d, d < 128 -> N.lor d 128 = d + 128.
Proof. intros d H. change 128 with (N.shiftl 1 7) at 1. rewrite lor_shiftl_add by exact H. reflexivity. Qed.

(* ------------------------------------------------------------------------------------------ *)
(* LEB128 sizes                                                                                *)
Lemma write_size_loop_read : forall f size shift acc bs rest,
  shift + 7 * N.of_nat f = 28 -> acc < 2 ^ shift -> size < 2 ^ (7 * N.of_nat f) ->
  (shift <> 0 -> size <> 0) ->
  write_size_loop f size = Ok bs ->
  read_size_loop f acc shift (bs ++ rest) = Ok (acc + size * 2 ^ shift, rest).
Proof.
  induction f as [|f IH]; intros size shift acc bs rest Hinv Hacc Hsize Hnz W.
  - cbn in W. discriminate.
  - cbn [write_size_loop] in W. rewrite land_127, shiftr_7 in W.
    assert (Hd : size mod 128 < 128) by (apply N.mod_lt; lia).
    assert (Hdm : size = 128 * (size / 128) + size mod 128) by (apply N.div_mod; lia).
    destruct (size / 128 =? 0) eqn:E.
    + apply N.eqb_eq in E. inversion W; subst bs. clear W.
      cbn [app read_size_loop read_byte bind].
      replace (size mod 128 <? 128) with true by (symmetry; apply N.ltb_lt; exact Hd).
      rewrite land_127, N.mod_mod by lia. rewrite lor_shiftl_add by exact Hacc.
      assert (Es : size mod 128 = size) by lia. rewrite Es.
      destruct (size =? 0) eqn:Z; cbn [andb].
      * apply N.eqb_eq in Z. destruct (shift =? 0) eqn:S0; cbn [negb].
        -- reflexivity.
        -- apply N.eqb_neq in S0. exfalso. apply (Hnz S0). exact Z.
      * reflexivity.
    + apply N.eqb_neq in E.
      destruct (write_size_loop f (size / 128)) as [r| | |] eqn:W'; cbn [bind] in W; try discriminate.
      inversion W; subst bs. clear W.
      rewrite lor_128 by exact Hd.
      cbn [app read_size_loop read_byte bind].
      replace (size mod 128 + 128 <? 128) with false by (symmetry; apply N.ltb_ge; lia).
      rewrite land_127.
      replace ((size mod 128 + 128) mod 128) with (size mod 128).
      2:{ symmetry. rewrite N.add_mod by lia. rewrite N.mod_same by lia. rewrite N.add_0_r.
          rewrite !N.mod_mod by lia. reflexivity. }
      rewrite lor_shiftl_add by exact Hacc.
      (* f >= 1 because size/128 <> 0 and size < 2^(7 (f+1)) *)
      assert (Hf : f <> O).
      { intro; subst f. cbn in Hsize. change (2 ^ 7) with 128 in Hsize.
        apply E. apply N.div_small. exact Hsize. }
      assert (Hsh : shift + 7 + 7 * N.of_nat f = 28) by lia.
      replace (28 <=? shift + 7) with false by (symmetry; apply N.leb_gt; lia).
      assert (P7 : 2 ^ (shift + 7) = 2 ^ shift * 128) by (rewrite N.pow_add_r; reflexivity).
      rewrite (IH (size / 128) (shift + 7) (acc + size mod 128 * 2 ^ shift) r rest Hsh).
      * f_equal. f_equal. rewrite P7. nia.
      * rewrite P7. nia.
      * replace (7 * N.of_nat (S f)) with (7 * N.of_nat f + 7) in Hsize by lia.
        rewrite N.pow_add_r in Hsize. change (2 ^ 7) with 128 in Hsize.
        apply N.div_lt_upper_bound; lia.
      * intros _. exact E.
      * exact W'.
Qed.

Lemma write_size_read : forall n bs rest, write_size n = Ok bs -> read_size (bs ++ rest) = Ok (n, rest).
Proof.
  intros n bs rest W. unfold write_size in W. destruct (MAX_SIZE <? n) eqn:M; [discriminate|].
  apply N.ltb_ge in M. unfold MAX_SIZE in M. unfold read_size.
  rewrite (write_size_loop_read 4 n 0 0 bs rest); try reflexivity.
  - f_equal. f_equal. change (2 ^ 0) with 1. lia.
  - change (2 ^ (7 * N.of_nat 4)) with 268435456. lia.
  - intro C. exfalso. apply C. reflexivity.
  - exact W.
Qed.
Lemma write_size_bound : forall n bs, write_size n = Ok bs -> n <= MAX_SIZE.
Proof. intros n bs W. unfold write_size in W. destruct (MAX_SIZE <? n) eqn:M; [discriminate|]. apply N.ltb_ge in M. exact M. Qed.

Lemma write_size_loop_ok : forall f size, size < 2 ^ (7 * N.of_nat (S f)) ->
  exists bs, write_size_loop (S f) size = Ok bs /\ bs <> [] /\ bytes_ok bs = true.
Proof.
  induction f as [|f IH]; intros size H.
  - cbn [write_size_loop]. rewrite land_127, shiftr_7. change (2 ^ (7 * N.of_nat 1)) with 128 in H.
    rewrite N.div_small by exact H. cbn [N.eqb]. rewrite N.eqb_refl.
    eexists; split; [reflexivity|]. split; [discriminate|]. cbn. rewrite N.mod_small by exact H.
    unfold byte_ok. replace (size <? 256) with true by (symmetry; apply N.ltb_lt; lia). reflexivity.
  - remember (S f) as g. cbn [write_size_loop]. rewrite land_127, shiftr_7.
    assert (Hd : size mod 128 < 128) by (apply N.mod_lt; lia).
    destruct (size / 128 =? 0) eqn:E.
    + eexists; split; [reflexivity|]. split; [discriminate|]. cbn. unfold byte_ok.
      replace (size mod 128 <? 256) with true by (symmetry; apply N.ltb_lt; lia). reflexivity.
    + destruct (IH (size / 128)) as [r [W [NE OKr]]].
      { subst g. replace (7 * N.of_nat (S (S f))) with (7 * N.of_nat (S f) + 7) in H by lia.
        rewrite N.pow_add_r in H. change (2 ^ 7) with 128 in H. apply N.div_lt_upper_bound; lia. }
      subst g. rewrite W. cbn [bind]. eexists; split; [reflexivity|]. split; [discriminate|].
      rewrite bytes_ok_cons, OKr, lor_128 by exact Hd. unfold byte_ok.
      replace (size mod 128 + 128 <? 256) with true by (symmetry; apply N.ltb_lt; lia). reflexivity.
Qed.
Lemma write_size_ok : forall n, n <= MAX_SIZE -> exists bs, write_size n = Ok bs /\ bs <> [] /\ bytes_ok bs = true.
Proof.
  intros n H. unfold write_size. replace (MAX_SIZE <? n) with false by (symmetry; apply N.ltb_ge; exact H).
  apply write_size_loop_ok. unfold MAX_SIZE in H. change (2 ^ (7 * N.of_nat 4)) with 268435456. lia.
Qed.

(* canonicity: whatever read_size accepts is exactly what write_size produces *)
Lemma read_size_loop_write : forall f acc shift st n rest,
  shift + 7 * N.of_nat f = 28 -> acc < 2 ^ shift -> bytes_ok st = true ->
  read_size_loop f acc shift st = Ok (n, rest) ->
  exists bs size, st = bs ++ rest /\ n = acc + size * 2 ^ shift /\ write_size_loop f size = Ok bs
    /\ size < 2 ^ (7 * N.of_nat f) /\ (shift <> 0 -> size <> 0) /\ bs <> [].
Proof.
  induction f as [|f IH]; intros acc shift st n rest Hinv Hacc Hok R.
  - cbn in R. discriminate.
  - cbn [read_size_loop] in R. destruct st as [|b st']; cbn [read_byte bind] in R; [discriminate|].
    rewrite bytes_ok_cons in Hok. apply andb_true_iff in Hok. destruct Hok as [Hb Hst].
    unfold byte_ok in Hb. apply N.ltb_lt in Hb.
    rewrite land_127, lor_shiftl_add in R by exact Hacc.
    destruct (b <? 128) eqn:B.
    + apply N.ltb_lt in B. rewrite N.mod_small in R by exact B.
      destruct ((b =? 0) && negb (shift =? 0)) eqn:C; [discriminate|]. inversion R; subst n rest. clear R.
      exists [b], b. split; [reflexivity|]. split; [reflexivity|].
      split.
      { cbn [write_size_loop]. rewrite land_127, shiftr_7. rewrite N.div_small by exact B.
        rewrite N.eqb_refl. rewrite N.mod_small by exact B. reflexivity. }
      split.
      { apply N.lt_le_trans with 128; [exact B|]. change 128 with (2 ^ 7). apply N.pow_le_mono_r; lia. }
      split; [|discriminate].
      intros S0 Z. subst b. rewrite N.eqb_refl in C. cbn [andb] in C.
      apply negb_false_iff in C. apply N.eqb_eq in C. contradiction.
    + apply N.ltb_ge in B.
      destruct (28 <=? shift + 7) eqn:L; [discriminate|]. apply N.leb_gt in L.
      assert (Hf : f <> O) by (intro; subst f; cbn in Hinv; lia).
      assert (Hsh : shift + 7 + 7 * N.of_nat f = 28) by lia.
      assert (P7 : 2 ^ (shift + 7) = 2 ^ shift * 128) by (rewrite N.pow_add_r; reflexivity).
      assert (Hbm : b mod 128 < 128) by (apply N.mod_lt; lia).
      assert (Hbd : b = 128 * (b / 128) + b mod 128) by (apply N.div_mod; lia).
      assert (Hb1 : b / 128 = 1).
      { assert (b / 128 < 2) by (apply N.div_lt_upper_bound; lia).
        assert (1 <= b / 128) by (apply N.div_le_lower_bound; lia). lia. }
      apply IH in R; [|exact Hsh|rewrite P7; nia|exact Hst].
      destruct R as [bs [size [E1 [E2 [W [Hs [Hnz Hne]]]]]]].
      exists (b :: bs), (b mod 128 + 128 * size). split; [subst st'; reflexivity|].
      split; [rewrite E2, P7; nia|].
      assert (Snz : size <> 0) by (apply Hnz; lia).
      split.
      { cbn [write_size_loop]. rewrite land_127, shiftr_7.
        replace ((b mod 128 + 128 * size) / 128) with size.
        2:{ clear -Hbm. generalize dependent (b mod 128). intros m Hm. lia. }
        replace ((b mod 128 + 128 * size) mod 128) with (b mod 128).
        2:{ clear -Hbm. generalize dependent (b mod 128). intros m Hm. rewrite (N.mul_comm 128 size), N.mod_add by lia. rewrite N.mod_small; lia. }
        replace (size =? 0) with false by (symmetry; apply N.eqb_neq; exact Snz).
        rewrite W. cbn [bind]. rewrite lor_128 by exact Hbm. do 2 f_equal. lia. }
      split.
      { replace (7 * N.of_nat (S f)) with (7 * N.of_nat f + 7) by lia.
        rewrite N.pow_add_r. change (2 ^ 7) with 128. nia. }
      split; [intros _; nia|discriminate].
Qed.

Lemma read_size_write : forall st n rest, bytes_ok st = true -> read_size st = Ok (n, rest) ->
  exists bs, st = bs ++ rest /\ write_size n = Ok bs /\ bs <> [].
Proof.
  intros st n rest Hok R. unfold read_size in R.
  apply read_size_loop_write in R; [|reflexivity|reflexivity|exact Hok].
  destruct R as [bs [size [E1 [E2 [W [Hs [_ Hne]]]]]]].
  change (2 ^ 0) with 1 in E2. assert (n = size) by lia. subst size.
  exists bs. split; [exact E1|]. split; [|exact Hne]. unfold write_size.
  change (2 ^ (7 * N.of_nat 4)) with 268435456 in Hs.
  replace (MAX_SIZE <? n) with false by (symmetry; apply N.ltb_ge; unfold MAX_SIZE; lia). exact W.
Qed.

Lemma read_size_loop_total : forall f acc shift st,
  shift + 7 * N.of_nat (S f) = 28 ->
  read_size_loop (S f) acc shift st <> OutOfFuel /\ read_size_loop (S f) acc shift st <> Panic.
Proof.
  induction f as [|f IH]; intros acc shift st Hinv.
  - cbn [read_size_loop]. destruct st as [|b st']; cbn [read_byte bind]; [split; discriminate|].
    destruct (b <? 128); [destruct ((b =? 0) && negb (shift =? 0)); split; discriminate|].
    replace (28 <=? shift + 7) with true by (symmetry; apply N.leb_le; lia). split; discriminate.
  - remember (S f) as g. cbn [read_size_loop]. destruct st as [|b st']; cbn [read_byte bind]; [split; discriminate|].
    destruct (b <? 128); [destruct ((b =? 0) && negb (shift =? 0)); split; discriminate|].
    destruct (28 <=? shift + 7); [split; discriminate|]. subst g. apply IH. lia.
Qed.
Lemma read_size_total : forall st, read_size st <> OutOfFuel /\ read_size st <> Panic.
Proof. intro st. unfold read_size. apply read_size_loop_total. reflexivity. Qed.

(* read_size consumes at least one byte *)
Lemma read_size_loop_consumes : forall f acc shift st n rest,
  read_size_loop f acc shift st = Ok (n, rest) -> (length rest < length st)%nat.
Proof.
  induction f as [|f IH]; intros acc shift st n rest R; [discriminate|].
  cbn [read_size_loop] in R. destruct st as [|b st']; cbn [read_byte bind] in R; [discriminate|].
  destruct (b <? 128).
  - destruct ((b =? 0) && negb (shift =? 0)); [discriminate|]. inversion R; subst. cbn. lia.
  - destruct (28 <=? shift + 7); [discriminate|]. apply IH in R. cbn. lia.
Qed.
Lemma read_size_consumes : forall st n rest, read_size st = Ok (n, rest) -> (length rest < length st)%nat.
Proof. intros st n rest R. unfold read_size in R. eapply read_size_loop_consumes; exact R. Qed.
