(* C36 — forward simulation: static interpreter state machine  ->  run-time id machine. *)
From Coq Require Import List Arith NArith Bool Lia.
Import ListNotations.
Require Import RV.Model.C36_ManifestIds.
Open Scope N_scope.

(* ---- nth_N / upd_N ------------------------------------------------------------------------------ *)
Lemma upd_nat_length : forall A (l : list A) i x, length (upd_nat l i x) = length l.
Proof. induction l as [|h t IH]; intros [|i] x; cbn; try reflexivity. rewrite IH; reflexivity. Qed.
Lemma upd_nat_same : forall A (l : list A) i x, (i < length l)%nat -> nth_error (upd_nat l i x) i = Some x.
Proof. induction l as [|h t IH]; intros [|i] x H; cbn in *; try lia; [reflexivity | apply IH; lia]. Qed.
Lemma upd_nat_other : forall A (l : list A) i j x, i <> j -> nth_error (upd_nat l i x) j = nth_error l j.
Proof.
  induction l as [|h t IH]; intros [|i] [|j] x H; cbn; try reflexivity; try congruence.
  apply IH; congruence.
Qed.
Lemma nth_N_lt : forall A (l : list A) i x, nth_N l i = Some x -> i < lenN l.
Proof.
  intros A l i x H; unfold nth_N, lenN in *.
  assert (N.to_nat i < length l)%nat by (apply nth_error_Some; congruence). lia.
Qed.
Lemma nth_N_ge : forall A (l : list A) i, lenN l <= i -> nth_N l i = None.
Proof. intros A l i H; unfold nth_N, lenN in *. apply nth_error_None. lia. Qed.
Lemma upd_N_len : forall A (l : list A) i x, lenN (upd_N l i x) = lenN l.
Proof. intros; unfold lenN, upd_N; rewrite upd_nat_length; reflexivity. Qed.
Lemma upd_N_same : forall A (l : list A) i x y, nth_N l i = Some y -> nth_N (upd_N l i x) i = Some x.
Proof.
  intros A l i x y H; unfold nth_N, upd_N in *. apply upd_nat_same. apply nth_error_Some; congruence.
Qed.
Lemma upd_N_other : forall A (l : list A) i j x, i <> j -> nth_N (upd_N l i x) j = nth_N l j.
Proof. intros A l i j x H; unfold nth_N, upd_N. apply upd_nat_other. lia. Qed.
Lemma nth_N_app_old : forall A (l : list A) x i, i < lenN l -> nth_N (l ++ [x]) i = nth_N l i.
Proof. intros A l x i H; unfold nth_N, lenN in *. apply nth_error_app1. lia. Qed.
Lemma nth_N_app_new : forall A (l : list A) x, nth_N (l ++ [x]) (lenN l) = Some x.
Proof.
  intros A l x; unfold nth_N, lenN. rewrite Nat2N.id. rewrite nth_error_app2 by lia.
  rewrite Nat.sub_diag; reflexivity.
Qed.
Lemma lenN_app : forall A (l : list A) x, lenN (l ++ [x]) = lenN l + 1.
Proof. intros; unfold lenN; rewrite app_length; cbn; lia. Qed.
Lemma nth_N_app_inv : forall A (l : list A) x i y, nth_N (l ++ [x]) i = Some y ->
  (i < lenN l /\ nth_N l i = Some y) \/ (i = lenN l /\ y = x).
Proof.
  intros A l x i y H. destruct (N.ltb_spec i (lenN l)) as [Hlt|Hge].
  - left. split; [exact Hlt|]. rewrite nth_N_app_old in H by exact Hlt. exact H.
  - right. pose proof (nth_N_lt _ _ _ _ H) as Hl. rewrite lenN_app in Hl.
    assert (i = lenN l) by lia. subst i. rewrite nth_N_app_new in H. split; [reflexivity | congruence].
Qed.

Lemma memN_In : forall x l, memN x l = true <-> In x l.
Proof.
  intros x l; unfold memN; rewrite existsb_exists; split.
  - intros [y [Hy He]]; apply N.eqb_eq in He; subst; exact Hy.
  - intros H; exists x; split; [exact H | apply N.eqb_refl].
Qed.
Lemma removeN_In : forall x y l, In y (removeN x l) <-> In y l /\ y <> x.
Proof.
  intros x y l; unfold removeN; rewrite filter_In. split; intros [H1 H2]; split; try exact H1.
  - apply negb_true_iff, N.eqb_neq in H2. congruence.
  - apply negb_true_iff, N.eqb_neq. congruence.
Qed.

(* ---- the simulation relation ------------------------------------------------------------------- *)
Definition live_b (s : sstate) (b : N) : Prop :=
  exists st, nth_N (s_buckets s) b = Some st /\ b_consumed st = false.
Record R (blobs : list N) (s : sstate) (r : rstate) : Prop := mkRel {
  R_nb : rt_nb r = lenN (s_buckets s);
  R_np : rt_np r = lenN (s_proofs s);
  R_nr : rt_nr r = lenN (s_res s);
  R_named : rt_named r = s_named s;
  R_b : forall b, In b (rt_buckets r) <-> live_b s b;
  R_p : forall p src, In (p, src) (rt_proofs r) <-> nth_N (s_proofs s) p = Some (mkP src false);
  R_r : forall x, In x (rt_res r) <-> nth_N (s_res s) x = Some false;
  R_blobs : forall h, memN h (s_blobs s) = memN h blobs }.

Lemma R_set_req : forall blobs s r v, R blobs s r -> R blobs (set_req s v) r.
Proof. intros blobs s r v [H1 H2 H3 H4 H5 H6 H7 H8]; constructor; cbn; assumption. Qed.

Lemma has_proof_spec : forall blobs s r p, R blobs s r ->
  (forall src, has_proof p (rt_proofs r) = Some src <-> nth_N (s_proofs s) p = Some (mkP src false)).
Proof.
  intros blobs s r p HR src; unfold has_proof. split.
  - destruct (find _ (rt_proofs r)) as [[p' src']|] eqn:E; [|discriminate]. cbn. intro H; inversion H; subst.
    apply find_some in E. destruct E as [Hin He]. cbn in He. apply N.eqb_eq in He; subst p'.
    apply (R_p _ _ _ HR). exact Hin.
  - intro H. apply (R_p _ _ _ HR) in H.
    destruct (find (fun e => p =? fst e) (rt_proofs r)) as [[p' src']|] eqn:E.
    + apply find_some in E. destruct E as [Hin He]. cbn in He. apply N.eqb_eq in He; subst p'.
      apply (R_p _ _ _ HR) in Hin. apply (R_p _ _ _ HR) in H. cbn. congruence.
    + exfalso. pose proof (find_none _ _ E _ H) as Hn. cbn in Hn. rewrite N.eqb_refl in Hn. discriminate.
Qed.
Lemma has_proof_none : forall blobs s r p, R blobs s r -> has_proof p (rt_proofs r) = None ->
  forall src, nth_N (s_proofs s) p <> Some (mkP src false).
Proof.
  intros blobs s r p HR Hn src H. apply (has_proof_spec _ _ _ p HR) in H. congruence.
Qed.

(* get_existing_* succeed only on live ids *)
Lemma geb_ok : forall s b st, get_existing_bucket s b = Ok st ->
  nth_N (s_buckets s) b = Some st /\ b_consumed st = false.
Proof.
  intros s b st H; unfold get_existing_bucket in H. destruct (nth_N (s_buckets s) b) as [x|]; [|discriminate].
  destruct (b_consumed x) eqn:E; [discriminate|]. inversion H; subst. split; [reflexivity | exact E].
Qed.
Lemma gep_ok : forall s p st, get_existing_proof s p = Ok st ->
  nth_N (s_proofs s) p = Some st /\ p_consumed st = false.
Proof.
  intros s p st H; unfold get_existing_proof in H. destruct (nth_N (s_proofs s) p) as [x|]; [|discriminate].
  destruct (p_consumed x) eqn:E; [discriminate|]. inversion H; subst. split; [reflexivity | exact E].
Qed.
Lemma ger_ok : forall s x, get_existing_res s x = Ok tt -> nth_N (s_res s) x = Some false.
Proof.
  intros s x H; unfold get_existing_res in H. destruct (nth_N (s_res s) x) as [c|]; [|discriminate].
  destruct c; [discriminate | reflexivity].
Qed.

(* updating a bucket entry without changing its consumed flag keeps the live set *)
Lemma live_b_upd_same_flag : forall s b st st' x,
  nth_N (s_buckets s) b = Some st -> b_consumed st' = b_consumed st ->
  (live_b (set_buckets s (upd_N (s_buckets s) b st')) x <-> live_b s x).
Proof.
  intros s b st st' x Hn Hf; unfold live_b; cbn [s_buckets set_buckets].
  destruct (N.eq_dec b x) as [->|Hne].
  - rewrite (upd_N_same _ _ _ _ _ Hn). split.
    + intros [y [Hy Hc]]; inversion Hy; subst. exists st. split; [exact Hn | congruence].
    + intros [y [Hy Hc]]. exists st'. split; [reflexivity|]. rewrite Hn in Hy; inversion Hy; subst. congruence.
  - rewrite upd_N_other by exact Hne. reflexivity.
Qed.

(* ---- primitive steps ----------------------------------------------------------------------------- *)
Lemma sim_consume_bucket : forall blobs rs s r b s', R blobs s r -> consume_bucket rs s b = Ok s' ->
  exists r', rt_take_bucket false r b = ROk r' /\ R blobs s' r'.
Proof.
  intros blobs rs s r b s' HR H. unfold consume_bucket, bind in H.
  destruct (get_existing_bucket s b) as [st| |] eqn:E; try discriminate.
  destruct (r_lock rs && (0 <? b_locks st)); [discriminate|]. inversion H; subst s'; clear H.
  apply geb_ok in E. destruct E as [Hn Hc].
  assert (Hin : In b (rt_buckets r)) by (apply (R_b _ _ _ HR); exists st; split; assumption).
  unfold rt_take_bucket. apply memN_In in Hin. rewrite Hin. cbn [andb].
  eexists; split; [reflexivity|]. destruct HR as [H1 H2 H3 H4 H5 H6 H7 H8].
  constructor; cbn; try assumption.
  - rewrite upd_N_len; exact H1.
  - intros x. rewrite removeN_In, H5. unfold live_b; cbn [s_buckets set_buckets].
    destruct (N.eq_dec b x) as [->|Hne].
    + rewrite (upd_N_same _ _ _ _ _ Hn). split; [intros [_ Hx]; congruence|].
      intros [y [Hy Hcy]]; inversion Hy; subst; cbn in Hcy; discriminate.
    + rewrite upd_N_other by exact Hne. split; [intros [Hx _]; exact Hx | intro Hx; split; [exact Hx | congruence]].
Qed.

Lemma sim_new_proof : forall blobs s r src s', R blobs s r -> handle_new_proof s src = Ok s' ->
  (match src with Some b => In b (rt_buckets r) | None => True end) /\ R blobs s' (rt_new_proof r src).
Proof.
  intros blobs s r src s' HR H. unfold handle_new_proof, bind in H.
  assert (Hmid : exists s1, (match src with
            | Some b => match get_existing_bucket s b with
                        | Ok st => Ok (set_buckets s (upd_N (s_buckets s) b (mkB (b_fungible st) (b_locks st + 1) (b_consumed st))))
                        | Err e => Err e | Panic => Panic end
            | None => Ok s end) = Ok s1 /\ s' = set_proofs s1 (s_proofs s1 ++ [mkP src false])).
  { destruct src as [b|].
    - destruct (get_existing_bucket s b) as [st| |]; try discriminate. eexists; split; [reflexivity|]. inversion H; reflexivity.
    - eexists; split; [reflexivity|]. inversion H; reflexivity. }
  destruct Hmid as [s1 [Hs1 ->]]. clear H.
  assert (HR1 : R blobs s1 r /\ match src with Some b => In b (rt_buckets r) | None => True end).
  { destruct src as [b|]; [|inversion Hs1; subst; split; [exact HR | exact I]].
    destruct (get_existing_bucket s b) as [st| |] eqn:E; try discriminate. inversion Hs1; subst s1; clear Hs1.
    apply geb_ok in E. destruct E as [Hn Hc]. split.
    - destruct HR as [H1 H2 H3 H4 H5 H6 H7 H8]. constructor; cbn; try assumption.
      + rewrite upd_N_len; exact H1.
      + intros x. rewrite H5. symmetry. apply (live_b_upd_same_flag s b st); [exact Hn | reflexivity].
    - apply (R_b _ _ _ HR). exists st; split; assumption. }
  destruct HR1 as [HR1 Hin]. split; [exact Hin|].
  destruct HR1 as [H1 H2 H3 H4 H5 H6 H7 H8]. constructor; cbn; try assumption.
  - rewrite lenN_app, H2; reflexivity.
  - intros p src'. rewrite in_app_iff, H6. cbn [In]. split.
    + intros [Hold|[Hnew|[]]].
      * rewrite nth_N_app_old by (apply (nth_N_lt _ _ _ _ Hold)). exact Hold.
      * inversion Hnew; subst. rewrite H2. apply nth_N_app_new.
    + intro Hn. apply nth_N_app_inv in Hn. destruct Hn as [[_ Hn]|[Hi Hx]]; [left; exact Hn|].
      right; left. inversion Hx; subst. rewrite H2; reflexivity.
Qed.

Lemma sim_consume_proof : forall blobs s r p s', R blobs s r -> consume_proof s p = Ok s' ->
  exists r', rt_take_proof r p = ROk r' /\ R blobs s' r' /\
             rt_buckets r' = rt_buckets r /\ rt_res r' = rt_res r /\ rt_named r' = rt_named r /\
             rt_nb r' = rt_nb r /\ rt_np r' = rt_np r /\ rt_nr r' = rt_nr r /\
             rt_proofs r' = remove_proof p (rt_proofs r).
Proof.
  intros blobs s r p s' HR H. unfold consume_proof, bind in H.
  destruct (get_existing_proof s p) as [st| |] eqn:E; try discriminate.
  apply gep_ok in E. destruct E as [Hn Hc]. destruct st as [src c]; cbn in Hc; subst c. cbn [p_src] in H.
  assert (Hhp : has_proof p (rt_proofs r) = Some src) by (apply (has_proof_spec _ _ _ p HR); exact Hn).
  unfold rt_take_proof. rewrite Hhp. eexists; split; [reflexivity|]. cbn.
  split; [|repeat split; reflexivity].
  set (s1 := set_proofs s (upd_N (s_proofs s) p (mkP src true))) in *.
  assert (HR1 : R blobs s1 (mkR (rt_buckets r) (remove_proof p (rt_proofs r)) (rt_res r) (rt_named r) (rt_nb r) (rt_np r) (rt_nr r))).
  { destruct HR as [H1 H2 H3 H4 H5 H6 H7 H8]. constructor; cbn; try assumption.
    - rewrite upd_N_len; exact H2.
    - intros q src'. unfold remove_proof. rewrite filter_In. cbn [fst]. rewrite H6.
      destruct (N.eq_dec p q) as [->|Hne].
      + rewrite N.eqb_refl. cbn. rewrite (upd_N_same _ _ _ _ _ Hn). split; [intros [_ Hx]; discriminate | intro Hx; discriminate].
      + rewrite upd_N_other by exact Hne. apply N.eqb_neq in Hne. rewrite Hne. cbn. tauto. }
  destruct src as [b|]; [|inversion H; subst; exact HR1].
  destruct (get_existing_bucket s1 b) as [bs| |] eqn:EB; try discriminate.
  destruct (b_locks bs =? 0); [discriminate|]. inversion H; subst s'; clear H.
  apply geb_ok in EB. destruct EB as [Hnb Hcb].
  destruct HR1 as [H1 H2 H3 H4 H5 H6 H7 H8]. constructor; cbn in *; try assumption.
  - rewrite upd_N_len; exact H1.
  - intros x. rewrite H5. symmetry. apply (live_b_upd_same_flag s1 b bs); [exact Hnb | reflexivity].
Qed.

Lemma sim_consume_res : forall blobs s r x s', R blobs s r -> consume_res s x = Ok s' ->
  exists r', rt_take_res r x = ROk r' /\ R blobs s' r'.
Proof.
  intros blobs s r x s' HR H. unfold consume_res, bind in H.
  destruct (get_existing_res s x) as [[]| |] eqn:E; try discriminate. inversion H; subst s'; clear H.
  apply ger_ok in E.
  assert (Hin : In x (rt_res r)) by (apply (R_r _ _ _ HR); exact E).
  unfold rt_take_res. apply memN_In in Hin. rewrite Hin. eexists; split; [reflexivity|].
  destruct HR as [H1 H2 H3 H4 H5 H6 H7 H8]. constructor; cbn; try assumption.
  - rewrite upd_N_len; exact H3.
  - intros y. rewrite removeN_In, H7. destruct (N.eq_dec x y) as [->|Hne].
    + rewrite (upd_N_same _ _ _ _ _ E). split; [intros [_ Hx]; congruence | discriminate].
    + rewrite upd_N_other by exact Hne. split; [intros [Hx _]; exact Hx | intro Hx; split; [exact Hx | congruence]].
Qed.

(* DROP_NAMED_PROOFS / DROP_ALL_PROOFS: the static loop over the unconsumed proofs = draining the map *)
Lemma unconsumed_spec : forall l off p,
  In p (unconsumed_proofs l off) <-> exists st, off <= p /\ nth_N l (p - off) = Some st /\ p_consumed st = false.
Proof.
  induction l as [|h t IH]; intros off p; cbn [unconsumed_proofs].
  - split; [intros [] | intros [st [_ [H _]]]]. unfold nth_N in H. destruct (N.to_nat (p - off)); discriminate.
  - assert (Htail : (exists st, off + 1 <= p /\ nth_N t (p - (off + 1)) = Some st /\ p_consumed st = false) <->
                    (exists st, off < p /\ nth_N (h :: t) (p - off) = Some st /\ p_consumed st = false)).
    { split; intros [st [H1 [H2 H3]]]; exists st; (split; [lia|]); (split; [|exact H3]); unfold nth_N in *.
      - replace (N.to_nat (p - off)) with (S (N.to_nat (p - (off + 1)))) by lia. exact H2.
      - replace (N.to_nat (p - off)) with (S (N.to_nat (p - (off + 1)))) in H2 by lia. exact H2. }
    destruct (p_consumed h) eqn:Hc.
    + rewrite IH, Htail. split; intros [st [H1 [H2 H3]]]; exists st.
      * split; [lia|]. split; assumption.
      * destruct (N.eq_dec p off) as [->|Hne].
        -- rewrite N.sub_diag in H2. unfold nth_N in H2. cbn in H2. inversion H2; subst. congruence.
        -- split; [lia|]. split; assumption.
    + cbn [In]. rewrite IH, Htail. split.
      * intros [<-|[st [H1 [H2 H3]]]].
        -- exists h. split; [lia|]. rewrite N.sub_diag. split; [reflexivity | exact Hc].
        -- exists st. split; [lia|]. split; assumption.
      * intros [st [H1 [H2 H3]]]. destruct (N.eq_dec p off) as [->|Hne]; [left; reflexivity|].
        right. exists st. split; [lia|]. split; assumption.
Qed.

Lemma sim_fold_consume_proof : forall blobs idxs s r s', R blobs s r -> fold_res consume_proof s idxs = Ok s' ->
  exists r', R blobs s' r' /\
             rt_buckets r' = rt_buckets r /\ rt_res r' = rt_res r /\ rt_named r' = rt_named r /\
             rt_nb r' = rt_nb r /\ rt_np r' = rt_np r /\ rt_nr r' = rt_nr r /\
             (forall e, In e (rt_proofs r') -> In e (rt_proofs r) /\ ~ In (fst e) idxs).
Proof.
  induction idxs as [|p t IH]; intros s r s' HR H; cbn [fold_res] in H.
  - inversion H; subst. exists r. split; [exact HR|]. repeat split; try reflexivity. exact H0. intros [].
  - unfold bind in H. destruct (consume_proof s p) as [s1| |] eqn:E; try discriminate.
    destruct (sim_consume_proof _ _ _ _ _ HR E) as [r1 [_ [HR1 [E1 [E2 [E3 [E4 [E5 [E6 E7]]]]]]]]].
    destruct (IH _ _ _ HR1 H) as [r' [HR' [F1 [F2 [F3 [F4 [F5 [F6 F7]]]]]]]].
    exists r'. split; [exact HR'|]. repeat split; try congruence.
    + destruct (F7 e H0) as [Hin _]. rewrite E7 in Hin. unfold remove_proof in Hin. apply filter_In in Hin. apply Hin.
    + intros [Heq|Hin].
      * destruct (F7 e H0) as [Hin _]. rewrite E7 in Hin. unfold remove_proof in Hin. apply filter_In in Hin.
        destruct Hin as [_ Hne]. apply negb_true_iff, N.eqb_neq in Hne. congruence.
      * destruct (F7 e H0) as [_ Hn]. contradiction.
Qed.

Lemma sim_drop_named : forall blobs s r s', R blobs s r ->
  fold_res consume_proof s (unconsumed_proofs (s_proofs s) 0) = Ok s' ->
  R blobs s' (mkR (rt_buckets r) [] (rt_res r) (rt_named r) (rt_nb r) (rt_np r) (rt_nr r)).
Proof.
  intros blobs s r s' HR H.
  destruct (sim_fold_consume_proof _ _ _ _ _ HR H) as [r' [HR' [F1 [F2 [F3 [F4 [F5 [F6 F7]]]]]]]].
  assert (Hnil : rt_proofs r' = []).
  { destruct (rt_proofs r') as [|[p src] l] eqn:E; [reflexivity|]. exfalso.
    destruct (F7 (p, src) (or_introl eq_refl)) as [Hin Hn]. apply Hn. cbn [fst].
    apply (R_p _ _ _ HR) in Hin. apply unconsumed_spec. exists (mkP src false).
    split; [lia|]. rewrite N.sub_0_r. split; [exact Hin | reflexivity]. }
  destruct r' as [b' p' x' n' nb' np' nr']; cbn in *; subst. exact HR'.
Qed.

(* ---- instruction steps ---------------------------------------------------------------------------- *)
(* the only run-time id errors an accepted manifest can meet are those whose static check was
   switched off in the ruleset *)
Definition allowed (rs : ruleset) (e : rerr) : Prop :=
  match e with
  | NFAddr _ => r_dyn_addr rs = false
  | NFBlob _ => r_blob_refs rs = false
  | NFBucket _ => r_assert rs = false   (* ASSERT_BUCKET_CONTENTS on a dead bucket, assertions unchecked *)
  | _ => False
  end.
Definition sim_out (rs : ruleset) (blobs : list N) (s' : sstate) (x : rres) : Prop :=
  match x with ROk r' => R blobs s' r' | RErr e => allowed rs e end.

Lemma sim_arg : forall rs blobs k s r a s', R blobs s r -> handle_arg rs k s a = Ok s' ->
  sim_out rs blobs s' (rt_arg false blobs r a).
Proof.
  intros rs blobs k s r a s' HR H. destruct a as [b|p|x|n|h|]; cbn [handle_arg rt_arg] in *.
  - destruct (sim_consume_bucket _ _ _ _ _ _ HR H) as [r' [E HR']]. rewrite E. exact HR'.
  - destruct (yields_across k); [discriminate|].
    destruct (sim_consume_proof _ _ _ _ _ HR H) as [r' [E [HR' _]]]. rewrite E. exact HR'.
  - destruct (sim_consume_res _ _ _ _ _ HR H) as [r' [E HR']]. rewrite E. exact HR'.
  - unfold bind, get_existing_named in H. destruct (n <? s_named s) eqn:E; [|discriminate]. inversion H; subst.
    unfold rt_get_addr. rewrite (R_named _ _ _ HR), E. exact HR.
  - destruct (memN h blobs) eqn:Eb; cbn.
    + destruct (r_blob_refs rs && negb (memN h (s_blobs s))); [discriminate|]. inversion H; subst; exact HR.
    + rewrite (R_blobs _ _ _ HR), Eb in H. cbn in H. rewrite andb_true_r in H.
      destruct (r_blob_refs rs); [discriminate | reflexivity].
  - inversion H; subst; exact HR.
Qed.
Lemma sim_args : forall rs blobs k args s r s', R blobs s r -> fold_res (handle_arg rs k) s args = Ok s' ->
  sim_out rs blobs s' (rfold (rt_arg false blobs) r args).
Proof.
  induction args as [|a t IH]; intros s r s' HR H; cbn [fold_res rfold] in *.
  - inversion H; subst; exact HR.
  - unfold bind in H. destruct (handle_arg rs k s a) as [s1| |] eqn:E; try discriminate.
    pose proof (sim_arg _ _ _ _ _ _ _ HR E) as Hs. unfold sim_out in Hs.
    destruct (rt_arg false blobs r a) as [r1|e]; cbn [rbind]; [apply (IH _ _ _ Hs H) | exact Hs].
Qed.

Lemma sim_step : forall rs m s r i s', R (m_blobs m) s r -> handle_instruction rs m s i = Ok s' ->
  sim_out rs (m_blobs m) s' (rt_step false (m_blobs m) r i).
Proof.
  intros rs m s r i s' HR H. set (blobs := m_blobs m) in *.
  unfold handle_instruction, bind in H.
  destruct (if s_req s then if is_invocation i then Ok (set_req s false) else Err ENextCallNotInvocation else Ok s)
    as [s0| |] eqn:E0; try discriminate.
  assert (HR0 : R blobs s0 r).
  { destruct (s_req s); [destruct (is_invocation i); [|discriminate]|]; inversion E0; subst;
      [apply R_set_req|]; exact HR. }
  clear E0 HR s. rename s0 into s. rename HR0 into HR.
  destruct i as [f| |b|b|p|p|named az|k args| |a|]; cbn [rt_step].
  - (* create bucket *) inversion H; subst; clear H. cbn [sim_out].
    destruct HR as [H1 H2 H3 H4 H5 H6 H7 H8]. constructor; cbn; try assumption.
    + rewrite lenN_app, H1; reflexivity.
    + intros x. rewrite in_app_iff, H5. unfold live_b; cbn [In s_buckets set_buckets]. split.
      * intros [[st [Hn Hc]]|[Hx|[]]].
        -- exists st. rewrite nth_N_app_old by (apply (nth_N_lt _ _ _ _ Hn)). split; assumption.
        -- subst x. rewrite H1. exists (mkB f 0 false). split; [apply nth_N_app_new | reflexivity].
      * intros [st [Hn Hc]]. apply nth_N_app_inv in Hn. destruct Hn as [[_ Hn]|[Hi _]].
        -- left; exists st; split; assumption.
        -- right; left. congruence.
  - (* proof from auth zone *) destruct (sim_new_proof _ _ _ _ _ HR H) as [_ HR']. exact HR'.
  - (* proof from bucket *) destruct (sim_new_proof _ _ _ _ _ HR H) as [Hin HR'].
    unfold rt_get_bucket. apply memN_In in Hin. rewrite Hin. cbn [rbind]. exact HR'.
  - destruct (sim_consume_bucket _ _ _ _ _ _ HR H) as [r' [E HR']]. rewrite E. exact HR'.
  - destruct (sim_consume_proof _ _ _ _ _ HR H) as [r' [E [HR' _]]]. rewrite E. exact HR'.
  - (* clone *) unfold bind in H. destruct (get_existing_proof s p) as [[src c]| |] eqn:E; try discriminate.
    apply gep_ok in E. destruct E as [Hn Hc]. cbn in Hc; subst c. cbn [p_src] in H.
    assert (Hhp : has_proof p (rt_proofs r) = Some src) by (apply (has_proof_spec _ _ _ p HR); exact Hn).
    rewrite Hhp. destruct (sim_new_proof _ _ _ _ _ HR H) as [_ HR']. exact HR'.
  - (* drop many *) destruct named; [|inversion H; subst; exact HR]. cbn [sim_out].
    apply (sim_drop_named _ _ _ _ HR H).
  - (* invocation *) unfold handle_invocation, bind in H.
    match type of H with (match ?c with _ => _ end) = _ => destruct c as [[]| |] eqn:EK; try discriminate end.
    assert (Hk : sim_out rs blobs s (match k with KMethod (Some n) | KFunction (Some n) => rt_get_addr r n | _ => ROk r end)).
    { unfold rt_get_addr. rewrite (R_named _ _ _ HR).
      destruct k as [[n|]|[n|]| | |idx]; try exact HR.
      - destruct (n <? s_named s) eqn:En; [exact HR|]. cbn. unfold get_existing_named in EK. rewrite En in EK.
        destruct (r_dyn_addr rs); [discriminate | reflexivity].
      - destruct (n <? s_named s) eqn:En; [exact HR|]. cbn. unfold get_existing_named in EK. rewrite En in EK.
        destruct (r_dyn_addr rs); [discriminate | reflexivity]. }
    unfold sim_out in Hk.
    destruct (match k with KMethod (Some n) | KFunction (Some n) => rt_get_addr r n | _ => ROk r end) as [r1|e];
      cbn [rbind]; [apply (sim_args _ _ _ _ _ _ _ Hk H) | exact Hk].
  - (* allocate *) inversion H; subst; clear H. cbn [sim_out].
    destruct HR as [H1 H2 H3 H4 H5 H6 H7 H8]. constructor; cbn; try assumption.
    + rewrite lenN_app, H3; reflexivity.
    + rewrite H4; reflexivity.
    + intros x. rewrite in_app_iff, H7. cbn [In]. split.
      * intros [Hn|[Hx|[]]].
        -- rewrite nth_N_app_old by (apply (nth_N_lt _ _ _ _ Hn)). exact Hn.
        -- subst x. rewrite H3. apply nth_N_app_new.
      * intro Hn. apply nth_N_app_inv in Hn. destruct Hn as [[_ Hn]|[Hi _]]; [left; exact Hn | right; left; congruence].
  - (* assertion *) unfold handle_assertion in H.
    destruct a as [v|v|b vf vnf].
    + destruct (r_assert rs); [destruct v; [|discriminate]|]; inversion H; subst; exact HR.
    + destruct (r_assert rs); [destruct v; [|discriminate]|]; inversion H; subst; [apply R_set_req|]; exact HR.
    + unfold rt_get_bucket. destruct (memN b (rt_buckets r)) eqn:Em.
      * cbn. destruct (r_assert rs); [|inversion H; subst; exact HR].
        unfold bind in H. destruct (get_existing_bucket s b) as [st| |]; try discriminate.
        destruct (if b_fungible st then vf else vnf); [|discriminate]. inversion H; subst; exact HR.
      * (* not live at run time: the static check must have been on and failed, or was off *)
        cbn. destruct (r_assert rs) eqn:Ea.
        -- unfold bind in H. destruct (get_existing_bucket s b) as [st| |] eqn:E; try discriminate.
           apply geb_ok in E. destruct E as [Hn Hc].
           assert (Hin : In b (rt_buckets r)) by (apply (R_b _ _ _ HR); exists st; split; assumption).
           apply memN_In in Hin. congruence.
        -- (* r_assert off: bucket assertions are not checked statically *) reflexivity.
  - destruct (m_subintent m); [|discriminate]. inversion H; subst; exact HR.
Qed.

(* ---- runs ------------------------------------------------------------------------------------------ *)
Lemma sim_run : forall rs m is s r s', R (m_blobs m) s r -> fold_res (handle_instruction rs m) s is = Ok s' ->
  sim_out rs (m_blobs m) s' (rfold (rt_step false (m_blobs m)) r is).
Proof.
  induction is as [|i t IH]; intros s r s' HR H; cbn [fold_res rfold] in *.
  - inversion H; subst; exact HR.
  - unfold bind in H. destruct (handle_instruction rs m s i) as [s1| |] eqn:E; try discriminate.
    pose proof (sim_step _ _ _ _ _ _ HR E) as Hs. unfold sim_out in Hs.
    destruct (rt_step false (m_blobs m) r i) as [r1|e]; cbn [rbind]; [apply (IH _ _ _ Hs H) | exact Hs].
Qed.

Lemma register_blobs_spec : forall rs l s s', register_blobs rs s l = Ok s' ->
  s_buckets s' = s_buckets s /\ s_proofs s' = s_proofs s /\ s_res s' = s_res s /\ s_named s' = s_named s /\
  s_req s' = s_req s /\ forall h, memN h (s_blobs s') = memN h (s_blobs s) || memN h l.
Proof.
  induction l as [|x t IH]; intros s s' H; cbn [register_blobs] in H.
  - inversion H; subst. repeat split; try reflexivity. intro h. cbn. rewrite orb_false_r; reflexivity.
  - destruct (memN x (s_blobs s) && r_dup_blobs rs); [discriminate|].
    apply IH in H. destruct H as [H1 [H2 [H3 [H4 [H5 H6]]]]].
    destruct (memN x (s_blobs s)) eqn:Ex; cbn in *.
    + repeat split; try assumption. intro h. rewrite H6. destruct (N.eqb_spec h x) as [->|Hne]; cbn.
      * rewrite Ex; reflexivity.
      * reflexivity.
    + repeat split; try assumption. intro h. rewrite H6. unfold memN at 1. rewrite existsb_app. cbn.
      fold (memN h (s_blobs s)). rewrite orb_false_r. rewrite <- orb_assoc. reflexivity.
Qed.

Lemma R_init : forall rs m s0, register_blobs rs (s_init m) (m_blobs m) = Ok s0 -> R (m_blobs m) s0 (rt_init m).
Proof.
  intros rs m s0 H. apply register_blobs_spec in H. destruct H as [H1 [H2 [H3 [H4 [H5 H6]]]]].
  cbn in H1, H2, H3, H4, H6.
  constructor; cbn [rt_init rt_nb rt_np rt_nr rt_named rt_buckets rt_proofs rt_res].
  - rewrite H1; reflexivity.
  - rewrite H2; reflexivity.
  - rewrite H3. unfold lenN. rewrite repeat_length. lia.
  - rewrite H4; reflexivity.
  - intro b. split; [intros [] | intros [st [Hn _]]]. rewrite H1 in Hn. unfold nth_N in Hn. destruct (N.to_nat b); discriminate.
  - intros p src. split; [intros [] | intro Hn]. rewrite H2 in Hn. unfold nth_N in Hn. destruct (N.to_nat p); discriminate.
  - intro x. rewrite H3. rewrite in_map_iff. split.
    + intros [k [Hk Hin]]. apply in_seq in Hin. subst x. unfold nth_N. rewrite Nat2N.id.
      apply nth_error_repeat. lia.
    + intro Hn. pose proof (nth_N_lt _ _ _ _ Hn) as Hl. unfold lenN in Hl. rewrite repeat_length in Hl.
      exists (N.to_nat x). split; [lia|]. apply in_seq. lia.
  - intro h. rewrite H6. reflexivity.
Qed.

(* C36_runtime_simulation *)
Theorem runtime_simulation : forall rs m, validate rs m = Ok tt ->
  match rt_run false m with ROk _ => True | RErr e => allowed rs e end.
Proof.
  intros rs m H. unfold validate, bind in H.
  destruct (register_blobs rs (s_init m) (m_blobs m)) as [s0| |] eqn:E0; try discriminate.
  destruct (run_instrs rs m s0) as [s1| |] eqn:E1; try discriminate.
  pose proof (sim_run rs m _ _ _ _ (R_init _ _ _ E0) E1) as Hs. unfold rt_run, sim_out in *.
  destruct (rfold _ _ _); [exact I | exact Hs].
Qed.
Corollary runtime_never_missing_node : forall rs m, validate rs m = Ok tt ->
  forall e, rt_run false m = RErr e ->
  match e with
  | NFProof _ | NFRes _ | LockedBucket _ => False
  | NFBucket _ => r_assert rs = false
  | NFAddr _ => r_dyn_addr rs = false
  | NFBlob _ => r_blob_refs rs = false
  end.
Proof.
  intros rs m H e He. pose proof (runtime_simulation rs m H) as Hs. rewrite He in Hs.
  destruct e; cbn in Hs; try exact Hs.
Qed.

(* ---- accepted => the lifecycle run succeeds and ends clean (lock clause: see static_sound) -------- *)
Lemma first_index_none : forall A (f : A -> bool) l i, first_index f l i = None -> forall x, In x l -> f x = false.
Proof.
  induction l as [|h t IH]; intros i H x Hx; [destruct Hx|]. cbn in H. destruct (f h) eqn:E; [discriminate|].
  destruct Hx as [->|Hx]; [exact E | apply (IH _ H _ Hx)].
Qed.
Lemma nth_N_In : forall A (l : list A) i x, nth_N l i = Some x -> In x l.
Proof. intros A l i x H; unfold nth_N in H. apply nth_error_In in H; exact H. Qed.

Definition ends_with_yield (m : manifest) : Prop :=
  exists pre args, m_instrs m = pre ++ [IInvoke KYieldToParent args].
Lemma last_yield : forall (l : list instr),
  match last (map Some l) None with Some (IInvoke KYieldToParent _) => Ok tt | _ => Err ESubintentEnd end = Ok tt ->
  exists pre args, l = pre ++ [IInvoke KYieldToParent args].
Proof.
  intros l; induction l as [|x l _] using rev_ind; intro H; [cbn in H; discriminate|].
  rewrite map_app in H; cbn [map] in H; rewrite last_last in H.
  destruct x as [| | | | | | |k args| | |]; try discriminate.
  destruct k; try discriminate. exists l, args; reflexivity.
Qed.
Lemma verify_final_spec : forall m, verify_final m = Ok tt -> m_subintent m = true -> ends_with_yield m.
Proof.
  intros m H Hs; unfold verify_final in H. rewrite Hs in H. apply last_yield; exact H.
Qed.

Definition all_checks (rs : ruleset) : Prop :=
  r_blob_refs rs = true /\ r_dangling rs = true /\ r_dyn_addr rs = true /\ r_assert rs = true.

Theorem static_sound_nolock : forall rs m, all_checks rs -> validate rs m = Ok tt ->
  exists f, rt_run false m = ROk f /\ rt_buckets f = [] /\ rt_res f = [] /\
            (m_subintent m = true -> ends_with_yield m).
Proof.
  intros rs m [Hb [Hd [Ha Hs]]] H. unfold validate, bind in H.
  destruct (register_blobs rs (s_init m) (m_blobs m)) as [s0| |] eqn:E0; try discriminate.
  destruct (run_instrs rs m s0) as [s1| |] eqn:E1; try discriminate.
  destruct (verify_final m) as [[]| |] eqn:E2; try discriminate.
  pose proof (sim_run rs m _ _ _ _ (R_init _ _ _ E0) E1) as Hsim. unfold rt_run, sim_out in *.
  destruct (rfold (rt_step false (m_blobs m)) (rt_init m) (m_instrs m)) as [f|e].
  2:{ exfalso. destruct e; cbn in Hsim; congruence. }
  exists f. split; [reflexivity|]. unfold wrap_up in H. destruct (s_req s1); [discriminate|]. rewrite Hd in H.
  destruct (first_index (fun st => negb (b_consumed st)) (s_buckets s1) 0) eqn:F1; [discriminate|].
  destruct (first_index negb (s_res s1) 0) eqn:F2; [discriminate|].
  split; [|split].
  - destruct (rt_buckets f) as [|b l] eqn:Eb; [reflexivity|]. exfalso.
    assert (Hin : In b (rt_buckets f)) by (rewrite Eb; left; reflexivity).
    apply (R_b _ _ _ Hsim) in Hin. destruct Hin as [st [Hn Hc]].
    pose proof (first_index_none _ _ _ _ F1 st (nth_N_In _ _ _ _ Hn)) as Hf. cbn in Hf. rewrite Hc in Hf. discriminate.
  - destruct (rt_res f) as [|x l] eqn:Ex; [reflexivity|]. exfalso.
    assert (Hin : In x (rt_res f)) by (rewrite Ex; left; reflexivity).
    apply (R_r _ _ _ Hsim) in Hin.
    pose proof (first_index_none _ _ _ _ F2 false (nth_N_In _ _ _ _ Hin)) as Hf. discriminate.
  - apply verify_final_spec; exact E2.
Qed.
