(* part 1: digit runs and the chunked unsigned parser *)
From Coq Require Import ZArith NArith List Bool Lia.
Import ListNotations.
Require Import RV.Lib.DecCore RV.Model.C27_DecText.
Open Scope Z_scope.

Lemma horner_app l1 : forall l2 a,
  horner (l1 ++ l2) a = match horner l1 a with Some v => horner l2 v | None => None end.
Proof.
  induction l1 as [|d r IH]; intros l2 a; cbn [app horner]; [reflexivity|].
  destruct (is_digit d); [apply IH|reflexivity].
Qed.

Lemma digit_val_range d : is_digit d = true -> 0 <= digit_val d <= 9.
Proof.
  unfold is_digit, digit_val. rewrite andb_true_iff, !N.leb_le. lia.
Qed.

Lemma pow10_pos' n : 0 < 10 ^ Z.of_nat n.
Proof. apply Z.pow_pos_nonneg; lia. Qed.
Lemma pow10_S n : 10 ^ Z.of_nat (S n) = 10 * 10 ^ Z.of_nat n.
Proof. rewrite Nat2Z.inj_succ, Z.pow_succ_r by lia. reflexivity. Qed.

Lemma horner_lin s : all_digits s = true ->
  exists v, 0 <= v < 10 ^ Z.of_nat (length s) /\
            forall acc, horner s acc = Some (acc * 10 ^ Z.of_nat (length s) + v).
Proof.
  unfold all_digits. induction s as [|d r IH]; intros H.
  - exists 0. split; [cbn; lia|]. intros acc. cbn. f_equal. lia.
  - cbn [forallb] in H. apply andb_true_iff in H. destruct H as [Hd Hr].
    destruct (IH Hr) as (v & Hv & Hh). pose proof (digit_val_range d Hd) as Hdv.
    pose proof (pow10_pos' (length r)) as Hp.
    exists (digit_val d * 10 ^ Z.of_nat (length r) + v). cbn [length]. rewrite pow10_S. split.
    + assert (digit_val d * 10 ^ Z.of_nat (length r) <= 9 * 10 ^ Z.of_nat (length r))
        by (apply Z.mul_le_mono_nonneg_r; lia).
      assert (0 <= digit_val d * 10 ^ Z.of_nat (length r)) by (apply Z.mul_nonneg_nonneg; lia).
      lia.
    + intros acc. cbn [horner]. rewrite Hd, Hh. f_equal. ring.
Qed.

Lemma horner_digits s acc : all_digits s = true ->
  horner s acc = Some (acc * 10 ^ Z.of_nat (length s) + dval s) /\
  0 <= dval s < 10 ^ Z.of_nat (length s).
Proof.
  intros H. destruct (horner_lin s H) as (v & Hv & Hh).
  assert (E : dval s = v). { unfold dval. rewrite Hh. lia. }
  rewrite E. split; [apply Hh|exact Hv].
Qed.

Lemma horner_none s : all_digits s = false -> forall acc, horner s acc = None.
Proof.
  unfold all_digits. induction s as [|d r IH]; intros H acc; [discriminate|].
  cbn [forallb] in H. cbn [horner]. destruct (is_digit d); [apply IH; exact H|reflexivity].
Qed.

Lemma all_digits_app a b : all_digits (a ++ b) = all_digits a && all_digits b.
Proof. unfold all_digits. apply forallb_app. Qed.

Lemma dval_app a b : all_digits a = true -> all_digits b = true ->
  dval (a ++ b) = dval a * 10 ^ Z.of_nat (length b) + dval b.
Proof.
  intros Ha Hb. unfold dval at 1. rewrite horner_app.
  destruct (horner_digits a 0 Ha) as [E _]. rewrite E.
  destruct (horner_digits b (0 * 10 ^ Z.of_nat (length a) + dval a) Hb) as [E' _]. rewrite E'.
  lia.
Qed.

Section Uint.
  Variable bits : Z.
  Hypothesis Hbits : 10 ^ 19 <= 2 ^ bits.
  Let B := 2 ^ bits.

  Lemma uint_chunks_step k s out : s <> [] ->
    uint_chunks (S k) bits s out =
      (let out1 := out * 10 ^ 19 in
       if 2 ^ bits <=? out1 then Err EOverflow else
       match horner (firstn 19 s) 0 with
       | None => Err EInvalidDigit
       | Some n => let out2 := out1 + n in
                   if 2 ^ bits <=? out2 then Err EOverflow else uint_chunks k bits (skipn 19 s) out2
       end).
  Proof. destruct s; [congruence|reflexivity]. Qed.
  Lemma uint_chunks_nil fuel out : uint_chunks fuel bits [] out = Ok out.
  Proof. destruct fuel; reflexivity. Qed.

  Lemma uint_chunks_digits : forall fuel s out,
    (length s <= fuel)%nat -> all_digits s = true -> Z.of_nat (length s) mod 19 = 0 ->
    0 <= out < B ->
    uint_chunks fuel bits s out =
      (let v := out * 10 ^ Z.of_nat (length s) + dval s in if v <? B then Ok v else Err EOverflow).
  Proof.
    induction fuel as [|k IH]; intros s out Hlen Hall Hmod Hout.
    - destruct s; [|cbn in Hlen; lia]. cbn. unfold B in *.
      destruct (Z.ltb_spec (out * 1 + 0) (2 ^ bits)); [f_equal; lia|lia].
    - destruct s as [|c r] eqn:Es.
      { rewrite uint_chunks_nil. cbn. destruct (Z.ltb_spec (out * 1 + 0) B); [f_equal; lia|lia]. }
      rewrite <- Es in *. assert (Hne : s <> []) by (rewrite Es; discriminate).
      rewrite uint_chunks_step by exact Hne. cbv zeta.
      assert (Hl19 : (19 <= length s)%nat).
      { assert (0 < length s)%nat by (rewrite Es; cbn; lia).
        destruct (Nat.le_gt_cases 19 (length s)) as [|Hlt]; [assumption|].
        rewrite Z.mod_small in Hmod by lia. lia. }
      pose proof (firstn_skipn 19 s) as Hsplit.
      set (a := firstn 19 s) in *. set (b := skipn 19 s) in *.
      assert (Hla : length a = 19%nat) by (unfold a; apply firstn_length_le; exact Hl19).
      assert (Hlb : length b = (length s - 19)%nat) by (unfold b; apply skipn_length).
      assert (Hab : all_digits a = true /\ all_digits b = true).
      { rewrite <- Hsplit, all_digits_app in Hall. apply andb_true_iff in Hall. exact Hall. }
      destruct Hab as [Ha Hb].
      destruct (horner_digits a 0 Ha) as [Eh Hda]. rewrite Eh, Hla.
      destruct (horner_digits b 0 Hb) as [_ Hdb].
      assert (Hdv : dval s = dval a * 10 ^ Z.of_nat (length b) + dval b)
        by (rewrite <- Hsplit; apply dval_app; assumption).
      assert (Hpow : 10 ^ Z.of_nat (length s) = 10 ^ 19 * 10 ^ Z.of_nat (length b)).
      { rewrite <- Z.pow_add_r by lia. f_equal. lia. }
      set (P := 10 ^ Z.of_nat (length b)) in *. assert (HP : 1 <= P) by (pose proof (pow10_pos' (length b)); unfold P; lia).
      change (Z.of_nat 19) with 19 in *. rewrite Hpow, Hdv.
      replace (0 * 10 ^ 19 + dval a) with (dval a) by lia.
      set (da := dval a) in *. set (db := dval b) in *. set (T := 10 ^ 19) in *.
      assert (HT : 0 < T) by (unfold T; lia).
      assert (Etot : out * (T * P) + (da * P + db) = (out * T + da) * P + db) by ring.
      rewrite Etot. fold B.
      destruct (Z.leb_spec B (out * T)) as [Ho1|Ho1].
      { assert (B <= (out * T + da) * P + db) by nia.
        destruct (Z.ltb_spec ((out * T + da) * P + db) B); [lia|reflexivity]. }
      destruct (Z.leb_spec B (out * T + da)) as [Ho2|Ho2].
      { assert (B <= (out * T + da) * P + db) by nia.
        destruct (Z.ltb_spec ((out * T + da) * P + db) B); [lia|reflexivity]. }
      rewrite IH; [reflexivity|lia|exact Hb| |nia].
      rewrite Hlb. replace (Z.of_nat (length s - 19)) with (Z.of_nat (length s) - 19) by lia.
      rewrite <- Zminus_mod_idemp_l, Hmod. reflexivity.
  Qed.

  Lemma uint_chunks_bad : forall fuel s out,
    (length s <= fuel)%nat -> all_digits s = false ->
    uint_chunks fuel bits s out = Err EInvalidDigit \/ uint_chunks fuel bits s out = Err EOverflow.
  Proof.
    induction fuel as [|k IH]; intros s out Hlen Hall.
    - destruct s; [discriminate|cbn in Hlen; lia].
    - assert (Hne : s <> []) by (intros ->; discriminate).
      rewrite uint_chunks_step by exact Hne. cbv zeta.
      destruct (2 ^ bits <=? out * 10 ^ 19); [right; reflexivity|].
      pose proof (firstn_skipn 19 s) as Hsplit.
      destruct (all_digits (firstn 19 s)) eqn:Ha.
      + destruct (horner_digits (firstn 19 s) 0 Ha) as [Eh _]. rewrite Eh.
        destruct (2 ^ bits <=? _); [right; reflexivity|].
        apply IH.
        * rewrite skipn_length. destruct s as [|c0 s0]; [congruence|]. cbn [length] in *. lia.
        * rewrite <- Hsplit, all_digits_app, Ha in Hall. exact Hall.
      + rewrite horner_none by exact Ha. left; reflexivity.
  Qed.

  Lemma parse_uint_digits s : s <> [] -> all_digits s = true ->
    parse_uint bits s = if dval s <? B then Ok (dval s) else Err EOverflow.
  Proof.
    intros Hne Hall. unfold parse_uint.
    set (len := Z.of_nat (length s)).
    assert (Hlen : 0 < len) by (destruct s; [congruence|unfold len; cbn [length]; lia]).
    pose proof (Z.mod_pos_bound len 19 ltac:(lia)) as Hr.
    pose proof (Z.div_mod len 19 ltac:(lia)) as Hdm.
    set (sp := if len mod 19 =? 0 then 19 else len mod 19).
    assert (Hsp : 1 <= sp <= 19 /\ sp <= len /\ (len - sp) mod 19 = 0).
    { unfold sp. destruct (Z.eqb_spec (len mod 19) 0) as [E|E].
      - rewrite E in Hdm. split; [lia|]. split; [lia|].
        replace (len - 19) with ((len / 19 - 1) * 19) by lia. apply Z.mod_mul. lia.
      - split; [lia|]. split; [lia|].
        replace (len - len mod 19) with ((len / 19) * 19) by lia. apply Z.mod_mul. lia. }
    destruct Hsp as (Hsp1 & Hsp2 & Hsp3).
    pose proof (firstn_skipn (Z.to_nat sp) s) as Hsplit.
    set (a := firstn (Z.to_nat sp) s) in *. set (b := skipn (Z.to_nat sp) s) in *.
    assert (Hla : length a = Z.to_nat sp) by (unfold a; apply firstn_length_le; unfold len in *; lia).
    assert (Hlb : length b = (length s - Z.to_nat sp)%nat) by (unfold b; apply skipn_length).
    assert (Hab : all_digits a = true /\ all_digits b = true).
    { rewrite <- Hsplit, all_digits_app in Hall. apply andb_true_iff in Hall. exact Hall. }
    destruct Hab as [Ha Hb].
    destruct (horner_digits a 0 Ha) as [Eh Hda]. rewrite Eh.
    replace (0 * 10 ^ Z.of_nat (length a) + dval a) with (dval a) by lia.
    assert (Hdalt : dval a < B).
    { rewrite Hla, Z2Nat.id in Hda by lia.
      assert (10 ^ sp <= 10 ^ 19) by (apply Z.pow_le_mono_r; lia). unfold B. lia. }
    rewrite uint_chunks_digits; [|rewrite Hlb; lia|exact Hb| |lia].
    - cbv zeta. rewrite <- (dval_app a b Ha Hb), Hsplit. reflexivity.
    - rewrite Hlb. replace (Z.of_nat (length s - Z.to_nat sp)) with (len - sp) by (unfold len; lia). exact Hsp3.
  Qed.

  Lemma parse_uint_bad s : all_digits s = false ->
    parse_uint bits s = Err EInvalidDigit \/ parse_uint bits s = Err EOverflow.
  Proof.
    intros Hall. unfold parse_uint.
    set (sp := Z.to_nat _).
    pose proof (firstn_skipn sp s) as Hsplit.
    destruct (all_digits (firstn sp s)) eqn:Ha.
    - destruct (horner_digits (firstn sp s) 0 Ha) as [Eh _]. rewrite Eh.
      apply uint_chunks_bad.
      + rewrite skipn_length. lia.
      + rewrite <- Hsplit, all_digits_app, Ha in Hall. exact Hall.
    - rewrite horner_none by exact Ha. left; reflexivity.
  Qed.
End Uint.
