(* C22 — the streaming implementation model (Model/C22_Typed.v: typed traverser over the C21
   traverser + validator) accepts a payload exactly when the payload decodes to a value v and
   `validates s t v = true` (depth limits >= 1).  Structure: the accept/reject simulation of
   Proof/C21_Sim.v redone with the typed container stack; totality and "End only if the decoder
   accepts" come from C21 (total_payload, traverser_agrees). *)
From Coq Require Import List NArith ZArith Bool Lia.
Import ListNotations.
Require Import RV.Lib.Utf8 RV.Model.C20_Sbor RV.Model.C21_Traverser RV.Model.C22_Types RV.Model.C22_Schema
               RV.Model.C22_Typed RV.Proof.C20_Base RV.Proof.C20_Codec RV.Proof.C20_Sbor RV.Proof.C20_Top
               RV.Proof.C21_Sim RV.Proof.C21_Agree RV.Proof.C22_Schema.
Open Scope N_scope.

Arguments N.add : simpl never. Arguments N.sub : simpl never. Arguments N.mul : simpl never.
Arguments N.eqb : simpl never. Arguments N.ltb : simpl never. Arguments N.leb : simpl never.
Arguments N.even : simpl never.

(* ------------------------------------------------------------------------------------------ *)
(* value-level: `validates` phrased with the functions the streaming model uses                *)
Section Value.
Variable s : schema.

(* map_container_start + validate_container *)
Definition start_ok (t : tid) (h : header) : option ctype :=
  match map_container_start s t h with
  | inl c => match validate_container s t h with None => Some c | Some _ => None end
  | inr _ => None
  end.

Fixpoint elems_ok (c : ctype) (i : N) (vs : list value) : bool :=
  match vs with
  | [] => true
  | v :: r =>
    match child_for_element c i with
    | Some t => validates s t v && elems_ok c (i + 1) r
    | None => false
    end
  end.
Fixpoint entries_ok (c : ctype) (es : list (value * value)) : bool :=
  match es with
  | [] => true
  | (a, b) :: r =>
    match child_for_key c, child_for_val c with
    | Some tk, Some tv => validates s tk a && validates s tv b && entries_ok c r
    | _, _ => false
    end
  end.

Lemma elems_ok_uniform : forall c te, (forall j, child_for_element c j = Some te) ->
  forall vs i, elems_ok c i vs = forallb (validates s te) vs.
Proof.
  intros c te U. induction vs as [|v r IH]; intro i; cbn [elems_ok forallb]; [reflexivity|].
  rewrite U, IH. reflexivity.
Qed.

Lemma nth_N_app : forall A (pre : list A) x r, nth_N (pre ++ x :: r) (nlen pre) = Some x.
Proof.
  induction pre as [|y pre IH]; intros x r; cbn [nth_N app].
  - rewrite nlen_nil. reflexivity.
  - rewrite nlen_cons. replace (nlen pre + 1 =? 0) with false by (symmetry; apply N.eqb_neq; lia).
    replace (nlen pre + 1 - 1) with (nlen pre) by lia. apply IH.
Qed.

Lemma elems_ok_fields : forall (mkc : list tid -> ctype),
  (forall l j, child_for_element (mkc l) j = nth_N l j) ->
  forall fts pre fs, length fts = length fs ->
  elems_ok (mkc (pre ++ fts)) (nlen pre) fs = forall2b (fun ft x => validates s ft x) fts fs.
Proof.
  intros mkc Hc. induction fts as [|ft fts IH]; intros pre fs L; destruct fs as [|v fs]; try discriminate L.
  - reflexivity.
  - cbn [elems_ok forall2b]. rewrite Hc, nth_N_app.
    replace (pre ++ ft :: fts) with ((pre ++ [ft]) ++ fts) by (rewrite <- app_assoc; reflexivity).
    replace (nlen pre + 1) with (nlen (pre ++ [ft])) by (rewrite nlen_app, nlen_cons, nlen_nil; lia).
    rewrite IH by (cbn in L; lia). reflexivity.
Qed.

Lemma forall2b_len : forall A B (f : A -> B -> bool) l1 l2, forall2b f l1 l2 = true -> length l1 = length l2.
Proof.
  intros A B f l1 l2. revert l1. induction l2 as [|y l2 IH]; intros [|x l1] H; cbn in *; try discriminate; [reflexivity|].
  apply andb_true_iff in H. destruct H as [_ H]. f_equal. auto.
Qed.

Lemma nlen_eqb_length : forall A B (a : list A) (b : list B), (nlen a =? nlen b) = true <-> length a = length b.
Proof. intros. rewrite N.eqb_eq, !nlen_spec. lia. Qed.

(* validate_container as a boolean on the header *)
Lemma validate_container_none : forall t h,
  validate_container s t h = None <->
  exists tv, resolve_val s t = Some tv /\
    match tv with
    | VNone => True
    | VArr b => match h with HArray _ len => len_ok b len = true | _ => False end
    | VMapV b => match h with HMap _ _ len => len_ok b len = true | _ => False end
    | _ => False
    end.
Proof.
  intros t h. unfold validate_container. destruct (resolve_val s t) as [tv|].
  - split.
    + intro H. exists tv. split; [reflexivity|].
      destruct tv; try discriminate; try exact I; destruct h; try discriminate;
        match goal with |- len_ok ?b ?l = true => destruct (len_ok b l); [reflexivity|discriminate] end.
    + intros [tv' [E H]]. inversion E; subst tv'.
      destruct tv; try contradiction; try reflexivity; destruct h; try contradiction; rewrite H; reflexivity.
  - split; [discriminate|]. intros [tv [E _]]. discriminate.
Qed.

Ltac hdr_cases :=
  repeat match goal with
  | |- context [if ?c then _ else _] => destruct c eqn:?
  | |- context [match find_variant ?d ?v with _ => _ end] => destruct (find_variant d v) eqn:?
  | |- context [match resolve_kind ?s ?e with _ => _ end] => destruct (resolve_kind s e) eqn:?
  end; cbn;
  repeat match goal with H : (if ?c then _ else _) = _ |- _ => destruct c eqn:?; try discriminate H; clear H end;
  repeat match goal with H : negb ?x = true |- _ => apply negb_true_iff in H | H : negb ?x = false |- _ => apply negb_false_iff in H end;
  repeat match goal with H : ?x = true |- context [?x] => rewrite H | H : ?x = false |- context [?x] => rewrite H end;
  cbn [andb]; rewrite ?andb_false_r; try reflexivity.

Lemma tuple_hdr : forall t fs,
  validates s t (VTuple fs) =
  match start_ok t (HTuple (nlen fs)) with Some c => elems_ok c 0 fs | None => false end.
Proof.
  intros t fs. rewrite validates_tuple_eq. unfold start_ok, map_container_start, validate_container.
  destruct (resolve_kind s t) as [k|]; [|reflexivity].
  destruct (resolve_val s t) as [tv|]; [|destruct k; hdr_cases].
  destruct k; destruct tv; cbn; try reflexivity; hdr_cases.
  - symmetry. apply (elems_ok_uniform (CAny t) any_tid). reflexivity.
  - match goal with L : (nlen _ =? nlen _) = true |- _ => apply nlen_eqb_length in L;
      rewrite <- (elems_ok_fields (CTuple t) (fun l j => eq_refl) fields [] fs L) end.
    cbn [app]. rewrite nlen_nil. reflexivity.
  - destruct (forall2b (fun ft x => validates s ft x) fields fs) eqn:F; [|reflexivity].
    apply forall2b_len in F. apply nlen_eqb_length in F. congruence.
Qed.

Lemma enum_hdr : forall t d fs,
  validates s t (VEnum d fs) =
  match start_ok t (HEnum d (nlen fs)) with Some c => elems_ok c 0 fs | None => false end.
Proof.
  intros t d fs. rewrite validates_enum_eq. unfold start_ok, map_container_start, validate_container.
  destruct (resolve_kind s t) as [k|]; [|reflexivity].
  destruct (resolve_val s t) as [tv|]; [|destruct k; hdr_cases].
  destruct k; destruct tv; cbn; try reflexivity; hdr_cases.
  - symmetry. apply (elems_ok_uniform (CAny t) any_tid). reflexivity.
  - match goal with L : (nlen ?fts =? nlen _) = true |- _ => apply nlen_eqb_length in L;
      rewrite <- (elems_ok_fields (CEnumV t) (fun l j => eq_refl) fts [] fs L) end.
    cbn [app]. rewrite nlen_nil. reflexivity.
  - match goal with |- forall2b ?f ?a ?b = false => destruct (forall2b f a b) eqn:F; [|reflexivity] end.
    apply forall2b_len in F. apply nlen_eqb_length in F. congruence.
Qed.

Lemma array_hdr : forall t ek es,
  validates s t (VArray ek es) =
  match start_ok t (HArray ek (nlen es)) with Some c => elems_ok c 0 es | None => false end.
Proof.
  intros t ek es. rewrite validates_array_eq. unfold start_ok, map_container_start, validate_container.
  destruct (resolve_kind s t) as [k|]; [|reflexivity].
  destruct (resolve_val s t) as [tv|]; [|destruct k; hdr_cases].
  destruct k; destruct tv; cbn; try reflexivity; hdr_cases;
    try (symmetry; apply (elems_ok_uniform (CAny t) any_tid); reflexivity);
    try (symmetry; apply (elems_ok_uniform (CArray t elem) elem); reflexivity).
Qed.

Lemma entries_ok_eq : forall c tk tv, child_for_key c = Some tk -> child_for_val c = Some tv ->
  forall es, entries_ok c es = val_entries s tk tv es.
Proof.
  intros c tk tv K V. induction es as [|[a b] r IH]; cbn [entries_ok val_entries]; [reflexivity|].
  rewrite K, V, IH. reflexivity.
Qed.

Lemma map_hdr : forall t kk vk es,
  validates s t (VMap kk vk es) =
  match start_ok t (HMap kk vk (nlen es)) with Some c => entries_ok c es | None => false end.
Proof.
  intros t kk vk es. rewrite validates_map_eq. unfold start_ok, map_container_start, validate_container.
  destruct (resolve_kind s t) as [k|]; [|reflexivity].
  destruct (resolve_val s t) as [tv|]; [|destruct k; hdr_cases].
  destruct k; destruct tv; cbn; try reflexivity; hdr_cases;
    try (symmetry; apply (entries_ok_eq (CAny t) any_tid any_tid); reflexivity);
    try (symmetry; apply (entries_ok_eq (CMap t key val) key val); reflexivity).
Qed.

(* containers produced for an array header give every element the same type *)
Lemma start_ok_array_uniform : forall t ek n c, start_ok t (HArray ek n) = Some c ->
  exists te, forall j, child_for_element c j = Some te.
Proof.
  intros t ek n c H. unfold start_ok, map_container_start in H.
  destruct (resolve_kind s t) as [k|]; [|discriminate].
  destruct k; try discriminate.
  - destruct (validate_container s t (HArray ek n)); [discriminate|]. inversion H; subst. exists any_tid. reflexivity.
  - destruct (resolve_kind s elem) as [ke|]; [|discriminate]. destruct (kind_matches ek ke); [|discriminate].
    destruct (validate_container s t (HArray ek n)); [discriminate|]. inversion H; subst. exists elem. reflexivity.
Qed.

(* terminal values *)
Ltac iff_fin := solve [split; (let X := fresh "X" in intro X; try reflexivity; try discriminate X)].
Lemma check_terminal_iff : forall t v, is_leaf v = true ->
  (check_terminal s t v = None <-> validates s t v = true).
Proof.
  intros t v L. rewrite (validates_leaf_eq s t v L). unfold check_terminal.
  destruct (resolve_kind s t) as [k|]; [|iff_fin].
  destruct (kind_matches (value_kind v) k); cbn [negb andb]; [|destruct (resolve_val s t); iff_fin].
  destruct (resolve_val s t) as [tv|].
  2:{ destruct v; try discriminate L; iff_fin. }
  destruct v; try discriminate L; cbn [leaf_val_ok].
  - destruct tv; iff_fin.
  - destruct tv; try iff_fin.
    destruct (ikind_eqb i0 i); cbn [andb]; [|iff_fin].
    destruct (num_ok i0 b z); iff_fin.
  - destruct tv; try iff_fin.
    destruct (len_ok b (nlen s0)); iff_fin.
  - destruct tv; try iff_fin.
    + destruct c; try iff_fin. destruct (ref_ok r node); iff_fin.
    + destruct c; try iff_fin. destruct (own_ok o node); iff_fin.
Qed.

(* byte batches *)
Definition u8val (x : N) : value := VInt U8 (dec_int U8 [x]).
Lemma dec_int_u8 : forall x, dec_int U8 [x] = Z.of_N x.
Proof. intro x. unfold dec_int. cbn. f_equal. lia. Qed.

Lemma check_batch_iff : forall t b, b <> [] ->
  (check_batch s t b = None <-> forallb (validates s t) (map u8val b) = true).
Proof.
  intros t b NE. unfold check_batch.
  assert (E : forall x, validates s t (u8val x) =
              match resolve_kind s t, resolve_val s t with
              | Some k, Some tv => kind_matches (KInt U8) k && leaf_val_ok tv (u8val x)
              | _, _ => false end) by (intro x; apply validates_leaf_eq; reflexivity).
  destruct b as [|x0 b]; [contradiction|].
  destruct (resolve_kind s t) as [k|].
  2:{ cbn [map forallb]. rewrite E. iff_fin. }
  destruct (kind_matches (KInt U8) k); cbn [negb].
  2:{ cbn [map forallb]. rewrite E. destruct (resolve_val s t); iff_fin. }
  destruct (resolve_val s t) as [tv|].
  2:{ cbn [map forallb]. rewrite E. iff_fin. }
  assert (F : forall l, forallb (validates s t) (map u8val l) = forallb (fun x => leaf_val_ok tv (u8val x)) l).
  { induction l as [|y l IH]; [reflexivity|]. cbn [map forallb]. rewrite E, IH. reflexivity. }
  rewrite F. destruct tv; try (cbn [forallb leaf_val_ok u8val]; iff_fin).
  - split; [intros _|reflexivity]. apply forallb_forall. reflexivity.
  - destruct i; try (cbn [forallb leaf_val_ok u8val andb ikind_eqb]; iff_fin).
    assert (G : forallb (fun x => leaf_val_ok (VNum U8 b0) (u8val x)) (x0 :: b) =
                forallb (fun x => num_ok U8 b0 (Z.of_N x)) (x0 :: b)).
    { generalize (x0 :: b). induction l as [|y l IH]; [reflexivity|]. cbn [forallb]. rewrite IH. f_equal.
      unfold u8val. cbn [leaf_val_ok]. rewrite dec_int_u8. reflexivity. }
    rewrite G. destruct (forallb (fun x => num_ok U8 b0 (Z.of_N x)) (x0 :: b)); iff_fin.
Qed.
End Value.

(* ------------------------------------------------------------------------------------------ *)
(* decoder facts needed below                                                                   *)
Lemma dec_elems_nlen : forall fl f md d ek n st vs rest,
  dec_elems fl f md d ek n st = Ok (vs, rest) -> nlen vs = n.
Proof.
  induction f as [|f IH]; intros md d ek n st vs rest D; [discriminate|].
  rewrite dec_elems_S' in D. destruct (n =? 0) eqn:N0.
  - apply N.eqb_eq in N0. inversion D; subst. apply nlen_nil.
  - apply N.eqb_neq in N0.
    destruct (resolve fl ek st) as [[k st']| | |]; cbn [bind] in D; try discriminate.
    destruct (dec_deeper fl f md d k st') as [[v st1]| | |]; cbn [bind] in D; try discriminate.
    destruct (dec_elems fl f md d ek (n - 1) st1) as [[vs' st2]| | |] eqn:D2; cbn [bind] in D; try discriminate.
    inversion D; subst. rewrite nlen_cons. apply IH in D2. lia.
Qed.
Lemma dec_entries_nlen : forall fl f md d kk vk n st es rest,
  dec_entries fl f md d kk vk n st = Ok (es, rest) -> nlen es = n.
Proof.
  induction f as [|f IH]; intros md d kk vk n st es rest D; [discriminate|].
  rewrite dec_entries_S in D. destruct (n =? 0) eqn:N0.
  - apply N.eqb_eq in N0. inversion D; subst. apply nlen_nil.
  - apply N.eqb_neq in N0.
    destruct (dec_deeper fl f md d kk st) as [[k st1]| | |]; cbn [bind] in D; try discriminate.
    destruct (dec_deeper fl f md d vk st1) as [[x st2]| | |]; cbn [bind] in D; try discriminate.
    destruct (dec_entries fl f md d kk vk (n - 1) st2) as [[es' st3]| | |] eqn:D3; cbn [bind] in D; try discriminate.
    inversion D; subst. rewrite nlen_cons. apply IH in D3. lia.
Qed.

(* a terminal kind decodes to a leaf value *)
Lemma leaf_is_leaf : forall fl k st v rest, is_container k = false ->
  dec_body fl 1 0 0 k st = Ok (v, rest) -> is_leaf v = true.
Proof.
  intros fl k st v rest C D. rewrite dec_body_S in D.
  destruct k; try discriminate C; unfold bind in D;
    repeat match type of D with
    | context [match ?x with _ => _ end] => destruct x; try discriminate D
    end; inversion D; reflexivity.
Qed.

(* byte arrays: the element-wise decoder yields exactly the bytes of the batch read *)
Lemma u8_elems_values : forall fl f m d n st vs rest,
  dec_elems fl f m d (Some (KInt U8)) n st = Ok (vs, rest) ->
  exists b, read_slice n st = Ok (b, rest) /\ vs = map u8val b.
Proof.
  induction f as [|f IH]; intros m d n st vs rest D; [discriminate|].
  rewrite dec_elems_S in D. destruct (n =? 0) eqn:N0.
  - apply N.eqb_eq in N0. subst n. inversion D; subst. exists []. unfold read_slice. rewrite take_zero. split; reflexivity.
  - apply N.eqb_neq in N0.
    destruct (dec_deeper fl f m d (KInt U8) st) as [[v st1]| | |] eqn:D1; cbn [bind] in D; try discriminate.
    destruct (dec_elems fl f m d (Some (KInt U8)) (n - 1) st1) as [[vs' st2]| | |] eqn:D2; cbn [bind] in D; try discriminate.
    inversion D; subst. unfold dec_deeper in D1. destruct (m <? d + 1); [discriminate|].
    destruct f as [|f]; [discriminate|]. rewrite dec_body_S in D1. cbn [ikind_bytes] in D1.
    destruct (read_slice 1 st) as [[s0 st1']| | |] eqn:S1; cbn [bind] in D1; try discriminate. inversion D1; subst.
    apply read_slice_ok in S1. destruct S1 as [E L]. destruct s0 as [|b [|b2 s0]]; try (rewrite ?nlen_nil, ?nlen_cons in L; lia).
    subst st. apply IH in D2. destruct D2 as [bs [R Ev]]. unfold read_slice in *. cbn [app]. rewrite take_succ by exact N0.
    destruct (take (n - 1) st1) as [[a r]|]; [|discriminate]. inversion R; subst. eexists. split; reflexivity.
Qed.

(* ------------------------------------------------------------------------------------------ *)
(* the typed machine                                                                            *)
Section Machine.
Variable s : schema.
Variable root : tid.
Variable cfg : tconfig.
Notation md := (c_md cfg).
Notation stepc := (step Scrypto cfg).
Notation rvb := (read_value_body Scrypto cfg).
Notation rv := (read_value Scrypto cfg).
Notation tstep := (typed_step s root cfg).
Notation tout' := (typed_out s root).
Notation gti := (get_type_id root).

Fixpoint tysteps (n : nat) (cs : list ctype) (st : tstate) : option (list ctype * tstate) :=
  match n with
  | O => Some (cs, st)
  | S n' => match tstep cs st with TyNext cs' st' => tysteps n' cs' st' | TyDone _ => None end
  end.
Lemma tysteps_app : forall n m cs st cs1 s1, tysteps n cs st = Some (cs1, s1) ->
  tysteps (n + m) cs st = tysteps m cs1 s1.
Proof.
  induction n as [|n IH]; intros m cs st cs1 s1 H; cbn [tysteps plus] in *.
  - inversion H. reflexivity.
  - destruct (tstep cs st) as [cs' st'|]; [|discriminate]. apply IH. exact H.
Qed.

Definition TFail (cs : list ctype) (st : tstate) : Prop :=
  exists n cs1 s1 r, tysteps n cs st = Some (cs1, s1) /\ tstep cs1 s1 = TyDone r /\ r <> POk.
Definition TReach (o : tout) (cs : list ctype) (n : nat) (tgt : list ctype * tstate) : Prop :=
  exists cs1 s1, tout' cs o = TyNext cs1 s1 /\ tysteps n cs1 s1 = Some tgt.
Definition TFailOut (cs : list ctype) (o : tout) : Prop :=
  (exists r, tout' cs o = TyDone r /\ r <> POk) \/
  (exists cs1 s1, tout' cs o = TyNext cs1 s1 /\ TFail cs1 s1).

Lemma tysteps_S : forall cs st o n tgt, stepc st = o -> TReach o cs n tgt -> tysteps (S n) cs st = Some tgt.
Proof. intros cs st o n tgt H [cs1 [s1 [E R]]]. cbn [tysteps]. unfold typed_step. rewrite H, E. exact R. Qed.
Lemma TFail_S : forall cs st o, stepc st = o -> TFailOut cs o -> TFail cs st.
Proof.
  intros cs st o H [[r [E N]]|[cs1 [s1 [E [n [cs2 [s2 [r [R [T N]]]]]]]]]].
  - exists O, cs, st, r. cbn [tysteps]. unfold typed_step. rewrite H. repeat split; assumption.
  - exists (S n), cs2, s2, r. cbn [tysteps]. unfold typed_step at 1. rewrite H, E. repeat split; assumption.
Qed.
Lemma TFail_steps : forall n cs st cs1 s1, tysteps n cs st = Some (cs1, s1) -> TFail cs1 s1 -> TFail cs st.
Proof.
  intros n cs st cs1 s1 R [m [cs2 [s2 [r [R2 [T N]]]]]]. exists (n + m)%nat, cs2, s2, r.
  rewrite (tysteps_app n m _ _ _ _ R). repeat split; assumption.
Qed.
Lemma TReach_steps : forall o cs n cs1 s1 m tgt, TReach o cs n (cs1, s1) -> tysteps m cs1 s1 = Some tgt ->
  TReach o cs (n + m) tgt.
Proof.
  intros o cs n cs1 s1 m tgt [c0 [s0 [E R]]] R2. exists c0, s0. split; [exact E|].
  rewrite (tysteps_app n m _ _ _ _ R). exact R2.
Qed.
Lemma TReach_Fail : forall o cs n cs1 s1, TReach o cs n (cs1, s1) -> TFail cs1 s1 -> TFailOut cs o.
Proof.
  intros o cs n cs1 s1 [c0 [s0 [E R]]] F. right. exists c0, s0. split; [exact E|]. eapply TFail_steps; eassumption.
Qed.

(* the typed layer on the shapes of `complete` *)
Lemma tout_terminal : forall cs v start Sk st next,
  tout' cs (complete cfg (EvTerminal v) start Sk st next) =
  match gti cs Sk with
  | None => TyDone PPanic
  | Some t => match check_terminal s t v with Some err => TyDone (PErr err) | None => TyNext cs (mk next Sk st) end
  end.
Proof. reflexivity. Qed.
Lemma tout_batch : forall cs b start Sk st next,
  tout' cs (complete cfg (EvBatch b) start Sk st next) =
  match gti cs Sk with
  | None => TyDone PPanic
  | Some t => match check_batch s t b with Some err => TyDone (PErr err) | None => TyNext cs (mk next Sk st) end
  end.
Proof. reflexivity. Qed.
Lemma tout_end : forall c cs h start Sk st next,
  tout' (c :: cs) (complete cfg (EvContainerEnd h) start Sk st next) = TyNext cs (mk next Sk st).
Proof. reflexivity. Qed.
Lemma tout_start : forall cs h start Sk st next,
  tout' cs (complete cfg (EvContainerStart h) start Sk st next) =
  match gti cs Sk with
  | None => TyDone PPanic
  | Some t =>
    match map_container_start s t h with
    | inr err => TyDone (PErr err)
    | inl c => match validate_container s t h with
               | Some err => TyDone (PErr err)
               | None => TyNext (c :: cs) (mk next Sk st)
               end
    end
  end.
Proof. reflexivity. Qed.

Lemma tout_start_some : forall cs h start Sk st next t c, gti cs Sk = Some t -> start_ok s t h = Some c ->
  tout' cs (complete cfg (EvContainerStart h) start Sk st next) = TyNext (c :: cs) (mk next Sk st).
Proof.
  intros cs h start Sk st next t c G H. rewrite tout_start, G. unfold start_ok in H.
  destruct (map_container_start s t h) as [c0|]; [|discriminate].
  destruct (validate_container s t h); [discriminate|]. inversion H; subst. reflexivity.
Qed.
Lemma tout_start_bad : forall cs h start Sk st next,
  match gti cs Sk with Some t => start_ok s t h = None | None => True end ->
  exists r, tout' cs (complete cfg (EvContainerStart h) start Sk st next) = TyDone r /\ r <> POk.
Proof.
  intros cs h start Sk st next H. rewrite tout_start. destruct (gti cs Sk) as [t|].
  - unfold start_ok in H. destruct (map_container_start s t h) as [c0|e].
    + destruct (validate_container s t h) as [e|]; [|discriminate]. eexists. split; [reflexivity|discriminate].
    + eexists. split; [reflexivity|discriminate].
  - eexists. split; [reflexivity|discriminate].
Qed.

Definition nonmap (h : header) : bool := match h with HMap _ _ _ => false | _ => true end.
Lemma gti_elem : forall c cs h cstart j Sk, nonmap h = true ->
  gti (c :: cs) (anc h cstart j :: Sk) = child_for_element c j.
Proof. intros c cs h cstart j Sk H. destruct h; try discriminate H; reflexivity. Qed.
Lemma gti_map : forall c cs kk vk len cstart j Sk,
  gti (c :: cs) (anc (HMap kk vk len) cstart j :: Sk) = if N.even j then child_for_key c else child_for_val c.
Proof. reflexivity. Qed.

Lemma rv_eq : forall ek Sk st k st', resolve Scrypto ek st = Ok (k, st') ->
  rv ek Sk st = rvb k (offset cfg st) Sk st'.
Proof.
  intros ek Sk st k st' R. unfold read_value. destruct ek as [k0|]; cbn [resolve] in R.
  - inversion R; subst. reflexivity.
  - rewrite R. reflexivity.
Qed.

(* outcome of one value / a run of elements, as a function of the value-level verdict *)
Definition VOut (ot : option tid) (v : value) (o : tout) (cs : list ctype) (tgt : list ctype * tstate) : Prop :=
  match ot with
  | Some t => if validates s t v then exists n, TReach o cs n tgt else TFailOut cs o
  | None => TFailOut cs o
  end.

Definition TVB (f : nat) : Prop := forall k Sk st v rest start cs,
  kind_ok Scrypto k = true -> nlen Sk + 1 <= md ->
  dec_body Scrypto f md (nlen Sk + 1) k st = Ok (v, rest) ->
  VOut (gti cs Sk) v (rvb k start Sk st) cs (cs, mk ANextChild Sk rest).
Definition TE (f : nat) : Prop := forall ek n st vs rest h cstart i Sk c cs,
  dec_elems Scrypto f md (nlen Sk + 1) ek n st = Ok (vs, rest) ->
  child_count h = i + 1 + n -> (forall j, implicit_kind h j = ek) ->
  (forall k, ek = Some k -> kind_ok Scrypto k = true) -> nonmap h = true ->
  if elems_ok s c (i + 1) vs
  then exists m, tysteps m (c :: cs) (mk ANextChild (anc h cstart i :: Sk) st) = Some (cs, mk ANextChild Sk rest)
  else TFail (c :: cs) (mk ANextChild (anc h cstart i :: Sk) st).
Definition TC (f : nat) : Prop := forall ek n st vs rest h cstart Sk c cs,
  dec_elems Scrypto f md (nlen Sk + 1) ek n st = Ok (vs, rest) ->
  child_count h = n -> (forall j, implicit_kind h j = ek) ->
  (forall k, ek = Some k -> kind_ok Scrypto k = true) -> nonmap h = true ->
  (is_u8_array h = true -> exists te, forall j, child_for_element c j = Some te) ->
  if elems_ok s c 0 vs
  then exists m, tysteps m (c :: cs) (mk (AContainerStart h cstart) Sk st) = Some (cs, mk ANextChild Sk rest)
  else TFail (c :: cs) (mk (AContainerStart h cstart) Sk st).
Definition TM (f : nat) : Prop := forall kk vk n st es rest len cstart i Sk c cs,
  dec_entries Scrypto f md (nlen Sk + 1) kk vk n st = Ok (es, rest) ->
  len * 2 = i + 1 + 2 * n -> N.even i = false -> kind_ok Scrypto kk = true -> kind_ok Scrypto vk = true ->
  if entries_ok s c es
  then exists m, tysteps m (c :: cs) (mk ANextChild (anc (HMap kk vk len) cstart i :: Sk) st) = Some (cs, mk ANextChild Sk rest)
  else TFail (c :: cs) (mk ANextChild (anc (HMap kk vk len) cstart i :: Sk) st).
Definition TCM (f : nat) : Prop := forall kk vk n st es rest cstart Sk c cs,
  dec_entries Scrypto f md (nlen Sk + 1) kk vk n st = Ok (es, rest) ->
  kind_ok Scrypto kk = true -> kind_ok Scrypto vk = true ->
  if entries_ok s c es
  then exists m, tysteps m (c :: cs) (mk (AContainerStart (HMap kk vk n) cstart) Sk st) = Some (cs, mk ANextChild Sk rest)
  else TFail (c :: cs) (mk (AContainerStart (HMap kk vk n) cstart) Sk st).

(* one child value read through `read_value` under the typed stack (c :: cs) *)
Lemma TV_of : forall f, TVB f -> forall ek k Sk st st' v rest cs,
  resolve Scrypto ek st = Ok (k, st') -> (forall k0, ek = Some k0 -> kind_ok Scrypto k0 = true) ->
  nlen Sk + 1 <= md -> dec_body Scrypto f md (nlen Sk + 1) k st' = Ok (v, rest) ->
  VOut (gti cs Sk) v (rv ek Sk st) cs (cs, mk ANextChild Sk rest).
Proof.
  intros f H ek k Sk st st' v rest cs R Hk Hd D.
  destruct (resolve_len Scrypto _ _ _ _ R) as [_ K]. specialize (K Hk).
  rewrite (rv_eq _ _ _ _ _ R). apply H; assumption.
Qed.

(* ---------------------------------------------------------------------------------------- *)
Lemma seq_fail : forall n cs0 st0 cs1 st1 o, tysteps n cs0 st0 = Some (cs1, st1) -> stepc st1 = o ->
  TFailOut cs1 o -> TFail cs0 st0.
Proof. intros n cs0 st0 cs1 st1 o R H F. eapply TFail_steps; [exact R|]. eapply TFail_S; eassumption. Qed.
Lemma first_fail : forall cs0 st0 o, stepc st0 = o -> TFailOut cs0 o -> TFail cs0 st0.
Proof. intros. eapply TFail_S; eassumption. Qed.

Lemma VOut_terminal : forall v start Sk rest cs, is_leaf v = true ->
  VOut (gti cs Sk) v (complete cfg (EvTerminal v) start Sk rest ANextChild) cs (cs, mk ANextChild Sk rest).
Proof.
  intros v start Sk rest cs L. unfold VOut. destruct (gti cs Sk) as [t|] eqn:G.
  - destruct (check_terminal s t v) as [err|] eqn:CT.
    + assert (V : validates s t v = false).
      { destruct (validates s t v) eqn:V; [|reflexivity]. apply (check_terminal_iff s t v L) in V. congruence. }
      rewrite V. left. rewrite tout_terminal, G, CT. eexists. split; [reflexivity|discriminate].
    + assert (V : validates s t v = true) by (apply (check_terminal_iff s t v L); exact CT).
      rewrite V. exists O, cs, (mk ANextChild Sk rest). rewrite tout_terminal, G, CT. split; reflexivity.
  - left. rewrite tout_terminal, G. eexists. split; [reflexivity|discriminate].
Qed.

Lemma VOut_container : forall v h start Sk st1 cs rest (inner : ctype -> bool),
  (forall t, validates s t v = match start_ok s t h with Some c => inner c | None => false end) ->
  (forall t c, start_ok s t h = Some c ->
     if inner c
     then exists m, tysteps m (c :: cs) (mk (AContainerStart h start) Sk st1) = Some (cs, mk ANextChild Sk rest)
     else TFail (c :: cs) (mk (AContainerStart h start) Sk st1)) ->
  VOut (gti cs Sk) v (complete cfg (EvContainerStart h) start Sk st1 (AContainerStart h start)) cs
       (cs, mk ANextChild Sk rest).
Proof.
  intros v h start Sk st1 cs rest inner H1 H2. unfold VOut. destruct (gti cs Sk) as [t|] eqn:G.
  - rewrite H1. destruct (start_ok s t h) as [c|] eqn:SO.
    + specialize (H2 t c SO). destruct (inner c).
      * destruct H2 as [m R]. exists m, (c :: cs), (mk (AContainerStart h start) Sk st1).
        split; [eapply tout_start_some; eassumption|exact R].
      * right. exists (c :: cs), (mk (AContainerStart h start) Sk st1).
        split; [eapply tout_start_some; eassumption|exact H2].
    + left. apply tout_start_bad. rewrite G. exact SO.
  - left. apply tout_start_bad. rewrite G. exact I.
Qed.

Lemma TE_step : forall f, TVB f -> TE f -> TE (S f).
Proof.
  intros f HV HE ek n st vs rest h cstart i Sk c cs D Hc Hi Hk Hn. rewrite dec_elems_S' in D.
  destruct (n =? 0) eqn:N0.
  - apply N.eqb_eq in N0. subst n. inversion D; subst. cbn [elems_ok]. exists 1%nat.
    cbn [tysteps]. unfold typed_step. rewrite step_next_end by lia. rewrite tout_end. reflexivity.
  - apply N.eqb_neq in N0.
    destruct (resolve Scrypto ek st) as [[k st']| | |] eqn:R; cbn [bind] in D; try discriminate.
    destruct (dec_deeper Scrypto f md (nlen Sk + 1) k st') as [[v st1]| | |] eqn:D1; cbn [bind] in D; try discriminate.
    destruct (dec_elems Scrypto f md (nlen Sk + 1) ek (n - 1) st1) as [[vs' st2]| | |] eqn:D2; cbn [bind] in D; try discriminate.
    inversion D; subst vs rest. clear D.
    apply deeper_ok in D1. destruct D1 as [Dd D1].
    set (Sk1 := anc h cstart (i + 1) :: Sk).
    assert (St : stepc (mk ANextChild (anc h cstart i :: Sk) st) = rv ek Sk1 st).
    { rewrite step_next_child by lia. rewrite Hi. reflexivity. }
    assert (VO := TV_of f HV ek k Sk1 st st' v st1 (c :: cs) R Hk).
    unfold Sk1 in VO at 1 2. rewrite nlen_cons in VO. specialize (VO ltac:(lia) D1).
    unfold Sk1 in VO at 1. rewrite (gti_elem c cs h cstart (i + 1) Sk Hn) in VO.
    assert (IH := HE ek (n - 1) st1 vs' st2 h cstart (i + 1) Sk c cs D2 ltac:(lia) Hi Hk Hn).
    cbn [elems_ok]. unfold VOut in VO. destruct (child_for_element c (i + 1)) as [t|].
    + destruct (validates s t v); cbn [andb].
      * destruct VO as [n1 RO]. pose proof (tysteps_S _ _ _ _ _ St RO) as R1.
        destruct (elems_ok s c (i + 1 + 1) vs').
        { destruct IH as [m2 R2]. exists (S n1 + m2)%nat. rewrite (tysteps_app _ m2 _ _ _ _ R1). exact R2. }
        { eapply TFail_steps; eassumption. }
      * eapply first_fail; eassumption.
    + eapply first_fail; eassumption.
Qed.

Lemma TC_step : forall f, TVB f -> TE f -> TC (S f).
Proof.
  intros f HV HE ek n st vs rest h cstart Sk c cs D Hc Hi Hk Hn Hu.
  destruct (N.eq_dec n 0) as [N0|N0].
  - rewrite dec_elems_S', N0 in D. change (0 =? 0) with true in D. cbv iota in D. inversion D; subst vs rest.
    cbn [elems_ok]. exists 1%nat. cbn [tysteps]. unfold typed_step.
    rewrite step_cs_empty by (rewrite Hc; exact N0). rewrite tout_end. reflexivity.
  - destruct (is_u8_array h) eqn:U.
    + destruct (u8_array_inv h ek U Hi) as [Eek [l Eh]]. subst ek h. cbn [child_count] in Hc. subst l.
      assert (Dd : nlen Sk + 1 + 1 <= md).
      { rewrite dec_elems_S' in D. replace (n =? 0) with false in D by (symmetry; apply N.eqb_neq; exact N0).
        cbn [resolve bind] in D. destruct (dec_deeper Scrypto f md (nlen Sk + 1) (KInt U8) st) as [[v st1]| | |] eqn:D1; cbn [bind] in D; try discriminate.
        apply deeper_ok in D1. tauto. }
      destruct (u8_elems_values _ _ _ _ _ _ _ _ D) as [b [R Ev]]. subst vs.
      assert (L := read_slice_len _ _ _ _ R).
      assert (NE : b <> []) by (intro E; subst b; cbn in L; lia).
      destruct (Hu eq_refl) as [te Hte].
      rewrite (elems_ok_uniform s c te Hte).
      set (h := HArray (KInt U8) n) in *.
      assert (St : stepc (mk (AContainerStart h cstart) Sk st) =
                   complete cfg (EvBatch b) (offset cfg st) (anc h cstart (n - 1) :: Sk) rest ANextChild).
      { rewrite step_cs_batch by (unfold h; cbn [child_count is_u8_array]; try lia; reflexivity).
        unfold h; cbn [child_count]. rewrite R. reflexivity. }
      assert (G : gti (c :: cs) (anc h cstart (n - 1) :: Sk) = Some te) by (rewrite gti_elem by reflexivity; apply Hte).
      destruct (check_batch s te b) as [err|] eqn:CB.
      * assert (V : forallb (validates s te) (map u8val b) = false).
        { destruct (forallb (validates s te) (map u8val b)) eqn:V; [|reflexivity].
          apply (check_batch_iff s te b NE) in V. congruence. }
        rewrite V. exists O, (c :: cs), (mk (AContainerStart h cstart) Sk st), (PErr err).
        split; [reflexivity|]. split; [|discriminate]. unfold typed_step. rewrite St, tout_batch, G, CB. reflexivity.
      * assert (V : forallb (validates s te) (map u8val b) = true) by (apply (check_batch_iff s te b NE); exact CB).
        rewrite V. exists 2%nat. cbn [tysteps]. unfold typed_step at 1. rewrite St, tout_batch, G, CB.
        unfold typed_step. rewrite step_next_end by (unfold h; cbn [child_count]; lia). rewrite tout_end. reflexivity.
    + rewrite dec_elems_S' in D. replace (n =? 0) with false in D by (symmetry; apply N.eqb_neq; exact N0).
      destruct (resolve Scrypto ek st) as [[k st']| | |] eqn:R; cbn [bind] in D; try discriminate.
      destruct (dec_deeper Scrypto f md (nlen Sk + 1) k st') as [[v st1]| | |] eqn:D1; cbn [bind] in D; try discriminate.
      destruct (dec_elems Scrypto f md (nlen Sk + 1) ek (n - 1) st1) as [[vs' st2]| | |] eqn:D2; cbn [bind] in D; try discriminate.
      inversion D; subst vs rest. clear D.
      apply deeper_ok in D1. destruct D1 as [Dd D1].
      set (Sk1 := anc h cstart 0 :: Sk).
      assert (St : stepc (mk (AContainerStart h cstart) Sk st) = rv ek Sk1 st).
      { rewrite step_cs_child by (try lia; exact U). rewrite Hi. reflexivity. }
      assert (VO := TV_of f HV ek k Sk1 st st' v st1 (c :: cs) R Hk).
      unfold Sk1 in VO at 1 2. rewrite nlen_cons in VO. specialize (VO ltac:(lia) D1).
      unfold Sk1 in VO at 1. rewrite (gti_elem c cs h cstart 0 Sk Hn) in VO.
      assert (IH := HE ek (n - 1) st1 vs' st2 h cstart 0 Sk c cs D2 ltac:(lia) Hi Hk Hn).
      cbn [elems_ok]. unfold VOut in VO. destruct (child_for_element c 0) as [t|].
      * destruct (validates s t v); cbn [andb].
        { destruct VO as [n1 RO]. pose proof (tysteps_S _ _ _ _ _ St RO) as R1.
          destruct (elems_ok s c (0 + 1) vs').
          - destruct IH as [m2 R2]. exists (S n1 + m2)%nat. rewrite (tysteps_app _ m2 _ _ _ _ R1). exact R2.
          - eapply TFail_steps; eassumption. }
        { eapply first_fail; eassumption. }
      * eapply first_fail; eassumption.
Qed.

(* key, then value, then the remaining entries: shared by TM_step and TCM_step *)
Lemma entry_steps : forall f, TVB f -> forall kk vk len cstart j Sk c cs st0 st st1 st2 k x es' st3,
  kind_ok Scrypto kk = true -> kind_ok Scrypto vk = true -> N.even j = true ->
  nlen Sk + 1 + 1 <= md ->
  stepc st0 = rv (Some kk) (anc (HMap kk vk len) cstart j :: Sk) st ->
  j + 1 < len * 2 ->
  dec_body Scrypto f md (nlen Sk + 1 + 1) kk st = Ok (k, st1) ->
  dec_body Scrypto f md (nlen Sk + 1 + 1) vk st1 = Ok (x, st2) ->
  (if entries_ok s c es'
   then exists m, tysteps m (c :: cs) (mk ANextChild (anc (HMap kk vk len) cstart (j + 1) :: Sk) st2) = Some (cs, mk ANextChild Sk st3)
   else TFail (c :: cs) (mk ANextChild (anc (HMap kk vk len) cstart (j + 1) :: Sk) st2)) ->
  if entries_ok s c ((k, x) :: es')
  then exists m, tysteps m (c :: cs) st0 = Some (cs, mk ANextChild Sk st3)
  else TFail (c :: cs) st0.
Proof.
  intros f HV kk vk len cstart j Sk c cs st0 st st1 st2 k x es' st3 Hkk Hvk Hev Dd St Hj D1 D2 IH.
  set (h := HMap kk vk len) in *.
  assert (VO1 := TV_of f HV (Some kk) kk (anc h cstart j :: Sk) st st k st1 (c :: cs) eq_refl).
  rewrite nlen_cons in VO1.
  specialize (VO1 ltac:(intros k0 E0; inversion E0; subst; exact Hkk) ltac:(lia) D1).
  unfold h in VO1 at 1. rewrite gti_map, Hev in VO1. fold h in VO1.
  assert (St2 : stepc (mk ANextChild (anc h cstart j :: Sk) st1) = rv (Some vk) (anc h cstart (j + 1) :: Sk) st1).
  { rewrite step_next_child by (unfold h; cbn [child_count]; lia).
    unfold h; cbn [implicit_kind]. rewrite even_p1, Hev. reflexivity. }
  assert (VO2 := TV_of f HV (Some vk) vk (anc h cstart (j + 1) :: Sk) st1 st1 x st2 (c :: cs) eq_refl).
  rewrite nlen_cons in VO2.
  specialize (VO2 ltac:(intros k0 E0; inversion E0; subst; exact Hvk) ltac:(lia) D2).
  unfold h in VO2 at 1. rewrite gti_map, even_p1, Hev in VO2. cbn [negb] in VO2. fold h in VO2.
  cbn [entries_ok]. unfold VOut in VO1, VO2.
  destruct (child_for_key c) as [tk|].
  2:{ eapply first_fail; eassumption. }
  destruct (validates s tk k).
  2:{ assert (F : TFail (c :: cs) st0) by (eapply first_fail; eassumption).
      destruct (child_for_val c); cbn [andb]; exact F. }
  destruct VO1 as [n1 RO1]. pose proof (tysteps_S _ _ _ _ _ St RO1) as R1.
  destruct (child_for_val c) as [tv|].
  2:{ eapply seq_fail; eassumption. }
  destruct (validates s tv x); cbn [andb].
  2:{ eapply seq_fail; eassumption. }
  destruct VO2 as [n2 RO2]. pose proof (tysteps_S _ _ _ _ _ St2 RO2) as R2.
  destruct (entries_ok s c es').
  - destruct IH as [m3 R3]. exists (S n1 + (S n2 + m3))%nat.
    rewrite (tysteps_app _ _ _ _ _ _ R1). rewrite (tysteps_app _ _ _ _ _ _ R2). exact R3.
  - eapply TFail_steps; [exact R1|]. eapply TFail_steps; [exact R2|]. exact IH.
Qed.

Lemma TM_step : forall f, TVB f -> TM f -> TM (S f).
Proof.
  intros f HV HM kk vk n st es rest len cstart i Sk c cs D Hc Hev Hkk Hvk. rewrite dec_entries_S in D.
  destruct (n =? 0) eqn:N0.
  - apply N.eqb_eq in N0. subst n. inversion D; subst. cbn [entries_ok]. exists 1%nat.
    cbn [tysteps]. unfold typed_step. rewrite step_next_end by (cbn [child_count]; lia). rewrite tout_end. reflexivity.
  - apply N.eqb_neq in N0.
    destruct (dec_deeper Scrypto f md (nlen Sk + 1) kk st) as [[k st1]| | |] eqn:D1; cbn [bind] in D; try discriminate.
    destruct (dec_deeper Scrypto f md (nlen Sk + 1) vk st1) as [[x st2]| | |] eqn:D2; cbn [bind] in D; try discriminate.
    destruct (dec_entries Scrypto f md (nlen Sk + 1) kk vk (n - 1) st2) as [[es' st3]| | |] eqn:D3; cbn [bind] in D; try discriminate.
    inversion D; subst es rest. clear D.
    apply deeper_ok in D1. destruct D1 as [Dd D1]. apply deeper_ok in D2. destruct D2 as [_ D2].
    eapply (entry_steps f HV kk vk len cstart (i + 1) Sk c cs _ st st1 st2 k x es' st3 Hkk Hvk); try eassumption.
    + rewrite even_p1, Hev. reflexivity.
    + rewrite step_next_child by (cbn [child_count]; lia). cbn [implicit_kind]. rewrite even_p1, Hev. reflexivity.
    + lia.
    + apply (HM kk vk (n - 1) st2 es' st3 len cstart (i + 1 + 1) Sk c cs D3); try assumption; [lia|].
      rewrite !even_p1, Hev. reflexivity.
Qed.

Lemma TCM_step : forall f, TVB f -> TM f -> TCM (S f).
Proof.
  intros f HV HM kk vk n st es rest cstart Sk c cs D Hkk Hvk. rewrite dec_entries_S in D.
  destruct (n =? 0) eqn:N0.
  - apply N.eqb_eq in N0. subst n. inversion D; subst. cbn [entries_ok]. exists 1%nat.
    cbn [tysteps]. unfold typed_step. rewrite step_cs_empty by reflexivity. rewrite tout_end. reflexivity.
  - apply N.eqb_neq in N0.
    destruct (dec_deeper Scrypto f md (nlen Sk + 1) kk st) as [[k st1]| | |] eqn:D1; cbn [bind] in D; try discriminate.
    destruct (dec_deeper Scrypto f md (nlen Sk + 1) vk st1) as [[x st2]| | |] eqn:D2; cbn [bind] in D; try discriminate.
    destruct (dec_entries Scrypto f md (nlen Sk + 1) kk vk (n - 1) st2) as [[es' st3]| | |] eqn:D3; cbn [bind] in D; try discriminate.
    inversion D; subst es rest. clear D.
    apply deeper_ok in D1. destruct D1 as [Dd D1]. apply deeper_ok in D2. destruct D2 as [_ D2].
    eapply (entry_steps f HV kk vk n cstart 0 Sk c cs _ st st1 st2 k x es' st3 Hkk Hvk); try eassumption.
    + reflexivity.
    + rewrite step_cs_child by (cbn [child_count is_u8_array]; try lia; reflexivity). reflexivity.
    + lia.
    + apply (HM kk vk (n - 1) st2 es' st3 n cstart (0 + 1) Sk c cs D3); try assumption; [lia|reflexivity].
Qed.

Lemma TVB_step : forall f, TC f -> TCM f -> TVB (S f).
Proof.
  intros f HC HCM k Sk st v rest start cs Hk Hd D.
  destruct (is_container k) eqn:C.
  2:{ (* terminal *)
    rewrite leaf_fuel_indep in D by exact C.
    assert (L := leaf_is_leaf _ _ _ _ _ C D).
    unfold read_value_body. destruct k; try discriminate C; rewrite D; apply VOut_terminal; exact L. }
  rewrite dec_body_S in D. destruct k; try discriminate C; unfold read_value_body.
  - (* Enum *)
    destruct st as [|disc st']; cbn [read_byte bind] in D |- *; [discriminate|].
    destruct (read_size st') as [[n st1]| | |] eqn:R; cbn [bind] in D |- *; try discriminate.
    destruct (dec_elems Scrypto f md (nlen Sk + 1) None n st1) as [[fs st2]| | |] eqn:DE; cbn [bind] in D; try discriminate.
    inversion D; subst v rest. clear D.
    assert (Ln := dec_elems_nlen _ _ _ _ _ _ _ _ _ DE). subst n.
    apply (VOut_container _ _ _ _ _ _ _ (fun c => elems_ok s c 0 fs)); [intro t; apply enum_hdr|].
    intros t c SO. apply (HC None (nlen fs) st1 fs st2 (HEnum disc (nlen fs)) start Sk c cs DE eq_refl);
      [reflexivity|discriminate|reflexivity|discriminate].
  - (* Array *)
    destruct (read_value_kind Scrypto st) as [[ek st0]| | |] eqn:RK; cbn [bind] in D |- *; try discriminate.
    apply read_value_kind_len in RK. destruct RK as [L Hek].
    destruct (read_size st0) as [[n st1]| | |] eqn:R; cbn [bind] in D |- *; try discriminate.
    destruct (dec_elems Scrypto f md (nlen Sk + 1) (Some ek) n st1) as [[fs st2]| | |] eqn:DE; cbn [bind] in D; try discriminate.
    inversion D; subst v rest. clear D.
    assert (Ln := dec_elems_nlen _ _ _ _ _ _ _ _ _ DE). subst n.
    apply (VOut_container _ _ _ _ _ _ _ (fun c => elems_ok s c 0 fs)); [intro t; apply array_hdr|].
    intros t c SO. apply (HC (Some ek) (nlen fs) st1 fs st2 (HArray ek (nlen fs)) start Sk c cs DE eq_refl);
      [reflexivity|intros k0 E0; inversion E0; subst; exact Hek|reflexivity|].
    intros _. eapply start_ok_array_uniform. exact SO.
  - (* Tuple *)
    destruct (read_size st) as [[n st1]| | |] eqn:R; cbn [bind] in D |- *; try discriminate.
    destruct (dec_elems Scrypto f md (nlen Sk + 1) None n st1) as [[fs st2]| | |] eqn:DE; cbn [bind] in D; try discriminate.
    inversion D; subst v rest. clear D.
    assert (Ln := dec_elems_nlen _ _ _ _ _ _ _ _ _ DE). subst n.
    apply (VOut_container _ _ _ _ _ _ _ (fun c => elems_ok s c 0 fs)); [intro t; apply tuple_hdr|].
    intros t c SO. apply (HC None (nlen fs) st1 fs st2 (HTuple (nlen fs)) start Sk c cs DE eq_refl);
      [reflexivity|discriminate|reflexivity|discriminate].
  - (* Map *)
    destruct (read_value_kind Scrypto st) as [[kk st0]| | |] eqn:RK; cbn [bind] in D |- *; try discriminate.
    apply read_value_kind_len in RK. destruct RK as [L Hkk].
    destruct (read_value_kind Scrypto st0) as [[vk st0']| | |] eqn:RV; cbn [bind] in D |- *; try discriminate.
    apply read_value_kind_len in RV. destruct RV as [L' Hvk].
    destruct (read_size st0') as [[n st1]| | |] eqn:R; cbn [bind] in D |- *; try discriminate.
    destruct (dec_entries Scrypto f md (nlen Sk + 1) kk vk n st1) as [[es st2]| | |] eqn:DE; cbn [bind] in D; try discriminate.
    inversion D; subst v rest. clear D.
    assert (Ln := dec_entries_nlen _ _ _ _ _ _ _ _ _ _ DE). subst n.
    apply (VOut_container _ _ _ _ _ _ _ (fun c => entries_ok s c es)); [intro t; apply map_hdr|].
    intros t c SO. apply (HCM kk vk (nlen es) st1 es st2 start Sk c cs DE Hkk Hvk).
Qed.

Lemma T_all : forall f, TVB f /\ TE f /\ TC f /\ TM f /\ TCM f.
Proof.
  induction f as [|f [IV [IE [IC [IM ICM]]]]].
  - repeat split; repeat intro; discriminate.
  - split; [apply TVB_step; assumption|]. split; [apply TE_step; assumption|].
    split; [apply TC_step; assumption|]. split; [apply TM_step; assumption|apply TCM_step; assumption].
Qed.

End Machine.

(* ------------------------------------------------------------------------------------------ *)
(* fuel: the typed run makes exactly the untyped traverser's steps, so C21's totality bounds it *)
Section Run.
Variable s : schema.
Variable root : tid.
Variable cfg : tconfig.
Notation tstep := (typed_step s root cfg).
Notation trun := (typed_run s root cfg).

Lemma typed_not_oof : forall fuel cs st evs, run Scrypto cfg fuel st = RDone evs -> trun fuel cs st <> POutOfFuel.
Proof.
  induction fuel as [|f IH]; intros cs st evs R; [discriminate|].
  cbn [run] in R. cbn [typed_run]. unfold typed_step.
  destruct (step Scrypto cfg st) as [e st'|] eqn:St; [|discriminate].
  destruct (typed_out s root cs (TStep e st')) as [cs' st''|r] eqn:TO.
  - assert (is_final (l_ev e) = false /\ st'' = st').
    { unfold typed_out in TO. destruct (l_ev e); cbn [is_final];
        repeat match type of TO with
        | context [match ?x with _ => _ end] => destruct x; try discriminate TO
        end; inversion TO; split; reflexivity. }
    destruct H as [F E]. subst st''. rewrite F in R.
    destruct (run Scrypto cfg f st') as [l|l|l] eqn:R'; try discriminate. eapply IH. exact R'.
  - unfold typed_out in TO. destruct (l_ev e);
      repeat match type of TO with
      | context [match ?x with _ => _ end] => destruct x; try discriminate TO
      end; inversion TO; discriminate.
Qed.

Lemma typed_run_reach : forall n cs st cs1 s1 r, tysteps s root cfg n cs st = Some (cs1, s1) ->
  tstep cs1 s1 = TyDone r -> forall fuel, trun fuel cs st = r \/ trun fuel cs st = POutOfFuel.
Proof.
  induction n as [|n IH]; intros cs st cs1 s1 r R T fuel; cbn [tysteps] in R.
  - inversion R; subst. destruct fuel; [right; reflexivity|]. cbn [typed_run]. rewrite T. left. reflexivity.
  - destruct (tstep cs st) as [cs' st'|] eqn:TS; [|discriminate].
    destruct fuel; [right; reflexivity|]. cbn [typed_run]. rewrite TS. eapply IH; eassumption.
Qed.

(* POk only on the untyped End event *)
Lemma accepts_cons : forall e l, l <> [] -> accepts (RDone (e :: l)) = accepts (RDone l).
Proof.
  intros e l NE. unfold accepts. cbn [rev]. destruct (rev l) as [|x r] eqn:E.
  - apply (f_equal (@rev _)) in E. rewrite rev_involutive in E. cbn in E. contradiction.
  - reflexivity.
Qed.
Lemma typed_ok_untyped : forall fuel cs st, trun fuel cs st = POk -> accepts (run Scrypto cfg fuel st) = true.
Proof.
  induction fuel as [|f IH]; intros cs st H; [discriminate|].
  cbn [typed_run] in H. cbn [run]. unfold typed_step in H.
  destruct (step Scrypto cfg st) as [e st'|] eqn:St; [|cbn in H; discriminate].
  destruct (typed_out s root cs (TStep e st')) as [cs' st''|r] eqn:TO.
  - assert (is_final (l_ev e) = false /\ st'' = st').
    { unfold typed_out in TO. destruct (l_ev e); cbn [is_final];
        repeat match type of TO with
        | context [match ?x with _ => _ end] => destruct x; try discriminate TO
        end; inversion TO; split; reflexivity. }
    destruct H0 as [F E]. subst st''. rewrite F. specialize (IH cs' st' H).
    destruct (run Scrypto cfg f st') as [l|l|l]; try discriminate IH.
    destruct l as [|x l]; [discriminate IH|]. rewrite accepts_cons by discriminate. exact IH.
  - subst r. unfold typed_out in TO. destruct (l_ev e) eqn:Ev;
      repeat match type of TO with
      | context [match ?x with _ => _ end] => destruct x; try discriminate TO
      end; try discriminate TO.
    cbn [is_final]. unfold accepts. cbn [rev app]. rewrite Ev. reflexivity.
Qed.
End Run.

(* ------------------------------------------------------------------------------------------ *)
Theorem streaming_iff_validates : forall s t md payload, 1 <= md ->
  (validate_payload s t md payload = POk <-> validates_payload s t md payload = true).
Proof.
  intros s t md payload Hmd. unfold validate_payload, validates_payload.
  set (cfg := {| c_md := md; c_check_end := true; c_total := nlen payload |}).
  change (cfg_of md true payload) with cfg in *.
  set (st0 := {| t_act := AReadPrefix (payload_prefix Scrypto); t_stack := []; t_in := payload |}).
  set (fuel := (2 * length payload + 4)%nat).
  assert (Tot : exists evs, run Scrypto cfg fuel st0 = RDone evs) by (apply (total_payload Scrypto cfg payload); exact Hmd).
  destruct Tot as [evs Tot].
  assert (NO : forall cs, typed_run s t cfg fuel cs st0 <> POutOfFuel) by (intro cs; eapply typed_not_oof; exact Tot).
  assert (Agree := traverser_agrees Scrypto md payload Hmd). rewrite traverse_payload_run in Agree.
  change (cfg_of md true payload) with cfg in Agree. change (fuel_t payload) with fuel in Agree.
  change (s0 Scrypto payload) with st0 in Agree.
  destruct (decode_payload Scrypto md payload) as [v|err| |] eqn:DP.
  2-4: (split; [|discriminate]; intro H; apply typed_ok_untyped in H; apply Agree in H; destruct H as [v' H]; discriminate).
  (* the decoder produced v: unfold it as in C21's sim_payload *)
  assert (Main : if validates s t v
                 then exists n, tysteps s t cfg n [] st0 = Some ([], mk ANextChild [] [])
                 else TFail s t cfg [] st0).
  { unfold decode_payload, decode_payload_fuel in DP.
    destruct payload as [|p st]; cbn [read_byte bind] in DP; [discriminate|].
    destruct (negb (p =? payload_prefix Scrypto)) eqn:P; [discriminate|].
    assert (St0 : step Scrypto cfg st0 = read_value Scrypto cfg None [] st).
    { unfold st0, step. cbn [t_act t_stack t_in read_byte bind]. rewrite P. reflexivity. }
    unfold dec_value in DP.
    destruct (read_value_kind Scrypto st) as [[k st']| | |] eqn:RK; cbn [bind] in DP; try discriminate.
    unfold dec_deeper in DP. replace (md <? 0 + 1) with false in DP by (symmetry; apply N.ltb_ge; lia).
    change (0 + 1) with (nlen (@nil ancestor) + 1) in DP.
    destruct (dec_body Scrypto (fuel_for (p :: st)) md (nlen (@nil ancestor) + 1) k st') as [[v0 rest]| | |] eqn:DB;
      cbn [bind] in DP; try discriminate.
    destruct rest as [|x rest]; [|discriminate]. inversion DP; subst v0. clear DP.
    destruct (T_all s t cfg (fuel_for (p :: st))) as [TV _].
    assert (VO := TV_of s t cfg _ TV None k [] st st' v [] [] RK ltac:(discriminate) ltac:(exact Hmd) DB).
    unfold VOut in VO. cbn [get_type_id] in VO.
    destruct (validates s t v).
    - destruct VO as [n RO]. exists (S n). eapply tysteps_S; eassumption.
    - eapply TFail_S; eassumption. }
  destruct (validates s t v).
  - split; [reflexivity|intros _].
    destruct Main as [n R].
    assert (TS : typed_step s t cfg [] (mk ANextChild [] []) = TyDone POk) by reflexivity.
    destruct (typed_run_reach s t cfg n _ _ _ _ _ R TS fuel) as [E|E]; [exact E|]. exfalso. eapply NO. exact E.
  - split; [|discriminate]. intro H. exfalso.
    destruct Main as [n [cs1 [s1 [r [R [TS NR]]]]]].
    destruct (typed_run_reach s t cfg n _ _ _ _ _ R TS fuel) as [E|E].
    + apply NR. rewrite <- E. exact H.
    + eapply NO. exact E.
Qed.

(* with validates_spec: the streaming validator accepts exactly the payloads that decode to a
   value of the type *)
Theorem streaming_iff_hastype : forall s t md payload, 1 <= md ->
  (validate_payload s t md payload = POk <->
   exists v, decode_payload Scrypto md payload = Ok v /\ HasType s t v).
Proof.
  intros s t md payload Hmd. rewrite (streaming_iff_validates s t md payload Hmd).
  unfold validates_payload. destruct (decode_payload Scrypto md payload) as [v| | |].
  - rewrite validates_spec. split; [intro H; exists v; split; [reflexivity|exact H]|].
    intros [v' [E H]]. inversion E; subst. exact H.
  - split; [discriminate|intros [v' [E _]]; discriminate].
  - split; [discriminate|intros [v' [E _]]; discriminate].
  - split; [discriminate|intros [v' [E _]]; discriminate].
Qed.

(* the streaming model never panics and never runs out of fuel (limits >= 1) *)
Theorem streaming_total : forall s t md payload, 1 <= md ->
  validate_payload s t md payload <> POutOfFuel.
Proof.
  intros s t md payload Hmd. unfold validate_payload.
  destruct (total_payload Scrypto (cfg_of md true payload) payload Hmd) as [evs Tot].
  eapply typed_not_oof. exact Tot.
Qed.

(* the first half of the property, at the level of value trees: the encoding of a (well-formed,
   valid) value decodes back to it, and validates at type t exactly when the value has type t *)
Theorem encode_validates : forall s t md v bs, 1 <= md ->
  wf_value Scrypto v = true -> valid_value v = true -> encode_payload Scrypto md v = Ok bs ->
  decode_payload Scrypto md bs = Ok v /\ (validate_payload s t md bs = POk <-> HasType s t v).
Proof.
  intros s t md v bs Hmd W V E.
  assert (D : decode_payload Scrypto md bs = Ok v) by (eapply decode_encode; eassumption).
  split; [exact D|]. rewrite (streaming_iff_hastype s t md bs Hmd). split.
  - intros [v' [D' H]]. rewrite D in D'. inversion D'; subst. exact H.
  - intro H. exists v. split; assumption.
Qed.
