(* C22 — the streaming implementation model (Model/C22_Typed.v: typed traverser over the C21
   traverser + validator) accepts a payload exactly when the payload decodes to a value v and
   `validates s t v = true` (depth limits >= 1).  Structure: the accept/reject simulation of
   Proof/C21_Sim.v redone with the typed container stack; totality and "End only if the decoder
   accepts" come from C21 (total_payload, traverser_agrees). *)
From Coq Require Import List NArith ZArith Bool Lia.
Import ListNotations.
Require Import RV.Lib.Utf8 RV.Model.C20_Sbor RV.Model.C21_Traverser RV.Model.C22_Types RV.Model.C22_Schema
               RV.Model.C22_Typed RV.Proof.C20_Base RV.Proof.C20_Codec RV.Proof.C20_Sbor RV.Proof.C20_Top
               RV.Proof.C21_Sim RV.Proof.C21_Agree RV.Proof.C22_Schema.
Open Scope N_scope.

Arguments N.add : simpl never. Arguments N.sub : simpl never. Arguments N.mul : simpl never.
Arguments N.eqb : simpl never. Arguments N.ltb : simpl never. Arguments N.leb : simpl never.
Arguments N.even : simpl never.

(* ------------------------------------------------------------------------------------------ *)
(* value-level: `validates` phrased with the functions the streaming model uses                *)
Section Value.
Variable s : schema.

(* map_container_start + validate_container *)
Definition start_ok (t : tid) (h : header) : option ctype :=
  match map_container_start s t h with
  | inl c => match validate_container s t h with None => Some c | Some _ => None end
  | inr _ => None
  end.

Fixpoint elems_ok (c : ctype) (i : N) (vs : list value) : bool :=
  match vs with
  | [] => true
  | v :: r =>
    match child_for_element c i with
    | Some t => validates s t v && elems_ok c (i + 1) r
    | None => false
    end
  end.
Fixpoint entries_ok (c : ctype) (es : list (value * value)) : bool :=
  match es with
  | [] => true
  | (a, b) :: r =>
    match child_for_key c, child_for_val c with
    | Some tk, Some tv => validates s tk a && validates s tv b && entries_ok c r
    | _, _ => false
    end
  end.

Lemma elems_ok_uniform : forall c te, (forall j, child_for_element c j = Some te) ->
  forall vs i, elems_ok c i vs = forallb (validates s te) vs.
Proof.
  intros c te U. induction vs as [|v r IH]; intro i; cbn [elems_ok forallb]; [reflexivity|].
  rewrite U, IH. reflexivity.
Qed.

Lemma nth_N_app : forall A (pre : list A) x r, nth_N (pre ++ x :: r) (nlen pre) = Some x.
Proof.
  induction pre as [|y pre IH]; intros x r; cbn [nth_N app].
  - rewrite nlen_nil. reflexivity.
  - rewrite nlen_cons. replace (nlen pre + 1 =? 0) with false by (symmetry; apply N.eqb_neq; lia).
    replace (nlen pre + 1 - 1) with (nlen pre) by lia. apply IH.
Qed.

Lemma elems_ok_fields : forall (mkc : list tid -> ctype),
  (forall l j, child_for_element (mkc l) j = nth_N l j) ->
  forall fts pre fs, length fts = length fs ->
  elems_ok (mkc (pre ++ fts)) (nlen pre) fs = forall2b (fun ft x => validates s ft x) fts fs.
Proof.
  intros mkc Hc. induction fts as [|ft fts IH]; intros pre fs L; destruct fs as [|v fs]; try discriminate L.
  - reflexivity.
  - cbn [elems_ok forall2b]. rewrite Hc, nth_N_app.
    replace (pre ++ ft :: fts) with ((pre ++ [ft]) ++ fts) by (rewrite <- app_assoc; reflexivity).
    replace (nlen pre + 1) with (nlen (pre ++ [ft])) by (rewrite nlen_app, nlen_cons, nlen_nil; lia).
    rewrite IH by (cbn in L; lia). reflexivity.
Qed.

Lemma forall2b_len : forall A B (f : A -> B -> bool) l1 l2, forall2b f l1 l2 = true -> length l1 = length l2.
Proof.
  intros A B f l1 l2. revert l1. induction l2 as [|y l2 IH]; intros [|x l1] H; cbn in *; try discriminate; [reflexivity|].
  apply andb_true_iff in H. destruct H as [_ H]. f_equal. auto.
Qed.

Lemma nlen_eqb_length : forall A B (a : list A) (b : list B), (nlen a =? nlen b) = true <-> length a = length b.
Proof. intros. rewrite N.eqb_eq, !nlen_spec. lia. Qed.

(* validate_container as a boolean on the header *)
Lemma validate_container_none : forall t h,
  validate_container s t h = None <->
  exists tv, resolve_val s t = Some tv /\
    match tv with
    | VNone => True
    | VArr b => match h with HArray _ len => len_ok b len = true | _ => False end
    | VMapV b => match h with HMap _ _ len => len_ok b len = true | _ => False end
    | _ => False
    end.
Proof.
  intros t h. unfold validate_container. destruct (resolve_val s t) as [tv|].
  - split.
    + intro H. exists tv. split; [reflexivity|].
      destruct tv; try discriminate; try exact I; destruct h; try discriminate;
        match goal with |- len_ok ?b ?l = true => destruct (len_ok b l); [reflexivity|discriminate] end.
    + intros [tv' [E H]]. inversion E; subst tv'.
      destruct tv; try contradiction; try reflexivity; destruct h; try contradiction; rewrite H; reflexivity.
  - split; [discriminate|]. intros [tv [E _]]. discriminate.
Qed.

Ltac hdr_cases :=
  repeat match goal with
  | |- context [if ?c then _ else _] => destruct c eqn:?
  | |- context [match find_variant ?d ?v with _ => _ end] => destruct (find_variant d v) eqn:?
  | |- context [match resolve_kind ?s ?e with _ => _ end] => destruct (resolve_kind s e) eqn:?
  end; cbn;
  repeat match goal with H : (if ?c then _ else _) = _ |- _ => destruct c eqn:?; try discriminate H; clear H end;
  repeat match goal with H : negb ?x = true |- _ => apply negb_true_iff in H | H : negb ?x = false |- _ => apply negb_false_iff in H end;
  repeat match goal with H : ?x = true |- context [?x] => rewrite H | H : ?x = false |- context [?x] => rewrite H end;
  cbn [andb]; rewrite ?andb_false_r; try reflexivity.

Lemma tuple_hdr : forall t fs,
  validates s t (VTuple fs) =
  match start_ok t (HTuple (nlen fs)) with Some c => elems_ok c 0 fs | None => false end.
Proof.
  intros t fs. rewrite validates_tuple_eq. unfold start_ok, map_container_start, validate_container.
  destruct (resolve_kind s t) as [k|]; [|reflexivity].
  destruct (resolve_val s t) as [tv|]; [|destruct k; hdr_cases].
  destruct k; destruct tv; cbn; try reflexivity; hdr_cases.
  - symmetry. apply (elems_ok_uniform (CAny t) any_tid). reflexivity.
  - match goal with L : (nlen _ =? nlen _) = true |- _ => apply nlen_eqb_length in L;
      rewrite <- (elems_ok_fields (CTuple t) (fun l j => eq_refl) fields [] fs L) end.
    cbn [app]. rewrite nlen_nil. reflexivity.
  - destruct (forall2b (fun ft x => validates s ft x) fields fs) eqn:F; [|reflexivity].
    apply forall2b_len in F. apply nlen_eqb_length in F. congruence.
Qed.

Lemma enum_hdr : forall t d fs,
  validates s t (VEnum d fs) =
  match start_ok t (HEnum d (nlen fs)) with Some c => elems_ok c 0 fs | None => false end.
Proof.
  intros t d fs. rewrite validates_enum_eq. unfold start_ok, map_container_start, validate_container.
  destruct (resolve_kind s t) as [k|]; [|reflexivity].
  destruct (resolve_val s t) as [tv|]; [|destruct k; hdr_cases].
  destruct k; destruct tv; cbn; try reflexivity; hdr_cases.
  - symmetry. apply (elems_ok_uniform (CAny t) any_tid). reflexivity.
  - match goal with L : (nlen ?fts =? nlen _) = true |- _ => apply nlen_eqb_length in L;
      rewrite <- (elems_ok_fields (CEnumV t) (fun l j => eq_refl) fts [] fs L) end.
    cbn [app]. rewrite nlen_nil. reflexivity.
  - match goal with |- forall2b ?f ?a ?b = false => destruct (forall2b f a b) eqn:F; [|reflexivity] end.
    apply forall2b_len in F. apply nlen_eqb_length in F. congruence.
Qed.

Lemma array_hdr : forall t ek es,
  validates s t (VArray ek es) =
  match start_ok t (HArray ek (nlen es)) with Some c => elems_ok c 0 es | None => false end.
Proof.
  intros t ek es. rewrite validates_array_eq. unfold start_ok, map_container_start, validate_container.
  destruct (resolve_kind s t) as [k|]; [|reflexivity].
  destruct (resolve_val s t) as [tv|]; [|destruct k; hdr_cases].
  destruct k; destruct tv; cbn; try reflexivity; hdr_cases;
    try (symmetry; apply (elems_ok_uniform (CAny t) any_tid); reflexivity);
    try (symmetry; apply (elems_ok_uniform (CArray t elem) elem); reflexivity).
Qed.

Lemma entries_ok_eq : forall c tk tv, child_for_key c = Some tk -> child_for_val c = Some tv ->
  forall es, entries_ok c es = val_entries s tk tv es.
Proof.
  intros c tk tv K V. induction es as [|[a b] r IH]; cbn [entries_ok val_entries]; [reflexivity|].
  rewrite K, V, IH. reflexivity.
Qed.

Lemma map_hdr : forall t kk vk es,
  validates s t (VMap kk vk es) =
  match start_ok t (HMap kk vk (nlen es)) with Some c => entries_ok c es | None => false end.
Proof.
  intros t kk vk es. rewrite validates_map_eq. unfold start_ok, map_container_start, validate_container.
  destruct (resolve_kind s t) as [k|]; [|reflexivity].
  destruct (resolve_val s t) as [tv|]; [|destruct k; hdr_cases].
  destruct k; destruct tv; cbn; try reflexivity; hdr_cases;
    try (symmetry; apply (entries_ok_eq (CAny t) any_tid any_tid); reflexivity);
    try (symmetry; apply (entries_ok_eq (CMap t key val) key val); reflexivity).
Qed.

(* containers produced for an array header give every element the same type *)
Lemma start_ok_array_uniform : forall t ek n c, start_ok t (HArray ek n) = Some c ->
  exists te, forall j, child_for_element c j = Some te.
Proof.
  intros t ek n c H. unfold start_ok, map_container_start in H.
  destruct (resolve_kind s t) as [k|]; [|discriminate].
  destruct k; try discriminate.
  - destruct (validate_container s t (HArray ek n)); [discriminate|]. inversion H; subst. exists any_tid. reflexivity.
  - destruct (resolve_kind s elem) as [ke|]; [|discriminate]. destruct (kind_matches ek ke); [|discriminate].
    destruct (validate_container s t (HArray ek n)); [discriminate|]. inversion H; subst. exists elem. reflexivity.
Qed.

(* terminal values *)
Ltac iff_fin := solve [split; (let X := fresh "X" in intro X; try reflexivity; try discriminate X)].
Lemma check_terminal_iff : forall t v, is_leaf v = true ->
  (check_terminal s t v = None <-> validates s t v = true).
Proof.
  intros t v L. rewrite (validates_leaf_eq s t v L). unfold check_terminal.
  destruct (resolve_kind s t) as [k|]; [|iff_fin].
  destruct (kind_matches (value_kind v) k); cbn [negb andb]; [|destruct (resolve_val s t); iff_fin].
  destruct (resolve_val s t) as [tv|].
  2:{ destruct v; try discriminate L; iff_fin. }
  destruct v; try discriminate L; cbn [leaf_val_ok].
  - destruct tv; iff_fin.
  - destruct tv; try iff_fin.
    destruct (ikind_eqb i0 i); cbn [andb]; [|iff_fin].
    destruct (num_ok i0 b z); iff_fin.
  - destruct tv; try iff_fin.
    destruct (len_ok b (nlen s0)); iff_fin.
  - destruct tv; try iff_fin.
    + destruct c; try iff_fin. destruct (ref_ok r node); iff_fin.
    + destruct c; try iff_fin. destruct (own_ok o node); iff_fin.
Qed.

(* byte batches *)
Definition u8val (x : N) : value := VInt U8 (dec_int U8 [x]).
Lemma dec_int_u8 : forall x, dec_int U8 [x] = Z.of_N x.
Proof. intro x. unfold dec_int. cbn. f_equal. lia. Qed.

Lemma check_batch_iff : forall t b, b <> [] ->
  (check_batch s t b = None <-> forallb (validates s t) (map u8val b) = true).
Proof.
  intros t b NE. unfold check_batch.
  assert (E : forall x, validates s t (u8val x) =
              match resolve_kind s t, resolve_val s t with
              | Some k, Some tv => kind_matches (KInt U8) k && leaf_val_ok tv (u8val x)
              | _, _ => false end) by (intro x; apply validates_leaf_eq; reflexivity).
  destruct b as [|x0 b]; [contradiction|].
  destruct (resolve_kind s t) as [k|].
  2:{ cbn [map forallb]. rewrite E. iff_fin. }
  destruct (kind_matches (KInt U8) k); cbn [negb].
  2:{ cbn [map forallb]. rewrite E. destruct (resolve_val s t); iff_fin. }
  destruct (resolve_val s t) as [tv|].
  2:{ cbn [map forallb]. rewrite E. iff_fin. }
  assert (F : forall l, forallb (validates s t) (map u8val l) = forallb (fun x => leaf_val_ok tv (u8val x)) l).
  { induction l as [|y l IH]; [reflexivity|]. cbn [map forallb]. rewrite E, IH. reflexivity. }
  rewrite F. destruct tv; try (cbn [forallb leaf_val_ok u8val]; iff_fin).
  - split; [intros _|reflexivity]. apply forallb_forall. reflexivity.
  - destruct i; try (cbn [forallb leaf_val_ok u8val andb ikind_eqb]; iff_fin).
    assert (G : forallb (fun x => leaf_val_ok (VNum U8 b0) (u8val x)) (x0 :: b) =
                forallb (fun x => num_ok U8 b0 (Z.of_N x)) (x0 :: b)).
    { generalize (x0 :: b). induction l as [|y l IH]; [reflexivity|]. cbn [forallb]. rewrite IH. f_equal.
      unfold u8val. cbn [leaf_val_ok]. rewrite dec_int_u8. reflexivity. }
    rewrite G. destruct (forallb (fun x => num_ok U8 b0 (Z.of_N x)) (x0 :: b)); iff_fin.
Qed.
End Value.
