(* C34 — proofs about the model coq/Model/C34_Validate.v: the limit checks accept exactly the summaries
   within the configured limits (V1 and V2), the V2 overall window is the intersection of the intents'
   windows, and executable boundary checks instantiated on the generated configurations in Props. *)
From Coq Require Import List NArith ZArith Bool Lia.
Import ListNotations.
Require Import RV.Model.C34_Validate.
Open Scope N_scope.

(* ---------- specification ("within the configured limits") ---------- *)
Definition dec_count (d : N * N * N) : N := snd d.
Definition dec_ok (d : N * N * N) : Prop := snd (fst d) = fst (fst d) /\ 1 <= snd d.
Definition msg_within (c : config) (m : message) : Prop :=
  match m with
  | MNone => True
  | MPlaintext mime msg => mime <= max_mime_type_length c /\ msg <= max_plaintext_message_length c
  | MEncrypted enc ds =>
      enc <= max_encrypted_message_length c /\ ds <> [] /\ Forall dec_ok ds /\
      sum (map dec_count ds) <= max_decryptors c
  end.
Definition epoch_within (c : config) (s e : N) : Prop :=
  s < e /\ e <= s + max_epoch_range c /\ s + max_epoch_range c <= U64_MAX.
Definition net_within (net : option N) (n : N) : Prop :=
  match net with Some r => n = r | None => True end.
Definition ts_within (lo hi : option Z) : Prop :=
  match lo, hi with Some l, Some h => (l < h)%Z | _, _ => True end.

Definition within_v1 (c : config) (net : option N) (t : tx_v1) : Prop :=
  v1_payload_len t <= max_user_payload_length c /\
  v1_blobs t <= max_blobs c /\
  v1_signatures t <= max_signer_signatures_per_intent c /\
  net_within net (h1_network (v1_header t)) /\
  epoch_within c (h1_start (v1_header t)) (h1_end (v1_header t)) /\
  (min_tip_percentage c <= h1_tip_percentage (v1_header t) /\
   h1_tip_percentage (v1_header t) <= max_tip_percentage c) /\
  msg_within c (v1_message t) /\
  v1_references t <= max_references_per_intent c /\
  v1_instructions t <= max_instructions c /\
  v1_references t <= max_total_references c /\
  v1_signatures t + 1 <= max_total_signature_validations c.

(* ---------- small reflections ---------- *)
Lemma decryptors_loop_spec : forall ds tot,
  match decryptors_loop ds tot with
  | inr total => Forall dec_ok ds /\ total = tot + sum (map dec_count ds)
  | inl _ => ~ Forall dec_ok ds
  end.
Proof.
  induction ds as [|[[cv act] n] r IH]; intros tot; cbn [decryptors_loop].
  - split; [constructor|unfold sum; cbn [map fold_right]; lia].
  - destruct (act =? cv) eqn:E1; cbn [negb].
    + apply N.eqb_eq in E1. destruct (n =? 0) eqn:E2.
      * apply N.eqb_eq in E2. intro F. inversion F as [|? ? (_ & H) _]; subst. cbn in H. lia.
      * apply N.eqb_neq in E2. specialize (IH (tot + n)).
        destruct (decryptors_loop r (tot + n)) as [e|total].
        -- intro F. inversion F; subst; auto.
        -- destruct IH as (F & ->). split.
           ++ constructor; auto. split; cbn; auto. lia.
           ++ unfold sum. cbn [map fold_right]. change (dec_count (cv, act, n)) with n. lia.
    + apply N.eqb_neq in E1. intro F. inversion F as [|? ? (H & _) _]; subst. cbn in H. congruence.
Qed.

Lemma validate_message_None : forall c m, validate_message c m = None <-> msg_within c m.
Proof.
  intros c [|mime msg|enc ds]; cbn [validate_message msg_within].
  - tauto.
  - destruct (N.ltb_spec (max_mime_type_length c) mime); [split; [discriminate|lia]|].
    destruct (N.ltb_spec (max_plaintext_message_length c) msg); [split; [discriminate|lia]|].
    split; auto.
  - destruct (N.ltb_spec (max_encrypted_message_length c) enc); [split; [discriminate|lia]|].
    destruct ds as [|d r]; [split; [discriminate|intros (_ & Hne & _); congruence]|].
    pose proof (decryptors_loop_spec (d :: r) 0) as HL.
    destruct (decryptors_loop (d :: r) 0) as [e|total].
    + split; [discriminate|]. intros (_ & _ & F & _). contradiction.
    + destruct HL as (F & ->). rewrite N.add_0_l.
      destruct (N.ltb_spec (max_decryptors c) (sum (map dec_count (d :: r)))); [split; [discriminate|lia]|].
      split; auto. intros _. repeat split; auto. discriminate.
Qed.

Lemma epoch_check_None : forall c s e, epoch_check c s e = None <-> epoch_within c s e.
Proof.
  intros c s e. unfold epoch_check, epoch_within.
  destruct (N.leb_spec e s); [split; [discriminate|lia]|].
  destruct (N.ltb_spec U64_MAX (s + max_epoch_range c)); [split; [discriminate|lia]|].
  destruct (N.ltb_spec (s + max_epoch_range c) e); [split; [discriminate|lia]|].
  split; auto.
Qed.
Lemma network_check_None : forall net n, network_check net n = None <-> net_within net n.
Proof.
  intros [r|] n; cbn; [|tauto].
  destruct (N.eqb_spec n r); cbn; split; auto; try discriminate; congruence.
Qed.

Ltac none_cases H :=
  match type of H with
  | _ <-> _ => idtac
  end.

Theorem v1_accept_iff : forall c net t, validate_v1 c net t = AcceptV1 <-> within_v1 c net t.
Proof.
  intros c net t. unfold validate_v1, prepare_v1, validate_header_v1, within_v1.
  destruct (N.ltb_spec (max_user_payload_length c) (v1_payload_len t)); [split; [discriminate|lia]|].
  destruct (N.ltb_spec (max_blobs c) (v1_blobs t)); [split; [discriminate|lia]|].
  destruct (N.ltb_spec (max_signer_signatures_per_intent c) (v1_signatures t)); [split; [discriminate|lia]|].
  pose proof (network_check_None net (h1_network (v1_header t))) as HN.
  destruct (network_check net (h1_network (v1_header t))).
  { split; [discriminate|]. intros (_ & _ & _ & W & _). apply HN in W. discriminate. }
  pose proof (epoch_check_None c (h1_start (v1_header t)) (h1_end (v1_header t))) as HE.
  destruct (epoch_check c (h1_start (v1_header t)) (h1_end (v1_header t))).
  { split; [discriminate|]. intros (_ & _ & _ & _ & W & _). apply HE in W. discriminate. }
  destruct (N.ltb_spec (h1_tip_percentage (v1_header t)) (min_tip_percentage c)); cbn [orb];
    [split; [discriminate|lia]|].
  destruct (N.ltb_spec (max_tip_percentage c) (h1_tip_percentage (v1_header t)));
    [split; [discriminate|lia]|].
  pose proof (validate_message_None c (v1_message t)) as HM.
  destruct (validate_message c (v1_message t)).
  { split; [discriminate|]. intros (_ & _ & _ & _ & _ & _ & W & _). apply HM in W. discriminate. }
  destruct (N.ltb_spec (max_references_per_intent c) (v1_references t)); [split; [discriminate|lia]|].
  destruct (N.ltb_spec (max_instructions c) (v1_instructions t)); [split; [discriminate|lia]|].
  destruct (N.ltb_spec (max_total_references c) (v1_references t)); [split; [discriminate|lia]|].
  destruct (N.ltb_spec (max_total_signature_validations c) (v1_signatures t + 1)); [split; [discriminate|lia]|].
  split; auto. intros _. repeat split; auto; try lia; try (apply HN; auto); try (apply HE; auto); try (apply HM; auto).
Qed.

(* ================================ V2 ================================ *)
Definition opt_max (a x : option Z) : option Z :=
  match x with
  | Some v => match a with None => Some v | Some y => if (y <? v)%Z then Some v else Some y end
  | None => a
  end.
Definition opt_min (a x : option Z) : option Z :=
  match x with
  | Some v => match a with None => Some v | Some y => if (v <? y)%Z then Some v else Some y end
  | None => a
  end.
(* the aggregation without its checks *)
Definition agg_hdr (a : agg) (h : header_v2) : agg :=
  {| a_refs := a_refs a;
     a_start := if a_start a <? h2_start h then h2_start h else a_start a;
     a_end := if h2_end h <? a_end a then h2_end h else a_end a;
     a_min_ts := opt_max (a_min_ts a) (h2_min_ts h);
     a_max_ts := opt_min (a_max_ts a) (h2_max_ts h) |}.
Definition agg_step (a : agg) (i : intent_v2) : agg :=
  let b := agg_hdr a (i_header i) in
  {| a_refs := a_refs b + i_references i; a_start := a_start b; a_end := a_end b;
     a_min_ts := a_min_ts b; a_max_ts := a_max_ts b |}.
Definition agg_ok (a : agg) : Prop := a_start a < a_end a /\ ts_within (a_min_ts a) (a_max_ts a).

Definition intent_within (c : config) (net : option N) (i : intent_v2) : Prop :=
  net_within net (h2_network (i_header i)) /\
  epoch_within c (h2_start (i_header i)) (h2_end (i_header i)) /\
  ts_within (h2_min_ts (i_header i)) (h2_max_ts (i_header i)) /\
  msg_within c (i_message i) /\
  i_references i <= max_references_per_intent c /\
  i_instructions i <= max_instructions c.
Definition prep_within (c : config) (i : intent_v2) : Prop :=
  v2_transactions_permitted c = true /\ i_blobs i <= max_blobs c /\
  i_children i <= max_child_subintents_per_intent c.

Definition intents (t : tx_v2) : list intent_v2 := v2_root t :: v2_subs t.
Definition agg_all (t : tx_v2) : agg := fold_left agg_step (intents t) agg_start.
Definition range_of (a : agg) : range :=
  {| r_start := a_start a; r_end := a_end a; r_min_ts := a_min_ts a; r_max_ts := a_max_ts a |}.
Definition total_signature_validations (t : tx_v2) : N :=
  v2_root_signatures t + (match v2_tip t with Some _ => 1 | None => 0 end) + sum (v2_batches t).

Definition within_v2 (c : config) (net : option N) (t : tx_v2) : Prop :=
  (match v2_tip t with
   | Some _ => v2_preview t = true \/ v2_payload_len t <= max_user_payload_length c
   | None => True end) /\
  Forall (prep_within c) (intents t) /\
  len (v2_subs t) <= max_subintents_per_transaction c /\
  (v2_preview t = true \/ len (v2_batches t) <= max_subintents_per_transaction c) /\
  (v2_tip t = None -> max_subintent_depth c <> 0) /\
  v2_transactions_allowed c = true /\
  v2_root_signatures t <= max_signer_signatures_per_intent c /\
  length (v2_subs t) = length (v2_batches t) /\
  Forall (fun n => n <= max_signer_signatures_per_intent c) (v2_batches t) /\
  (match v2_tip t with
   | Some tip => min_tip_basis_points c <= tip /\ tip <= max_tip_basis_points c
   | None => True end) /\
  Forall (intent_within c net) (intents t) /\
  agg_ok (agg_all t) /\
  a_refs (agg_all t) <= max_total_references c /\
  total_signature_validations t <= max_total_signature_validations c.

Lemma update_headers_spec : forall a h,
  match update_headers a h with
  | inr a' => a' = agg_hdr a h /\ agg_ok a'
  | inl _ => ~ agg_ok (agg_hdr a h)
  end.
Proof.
  intros a h. unfold update_headers, agg_ok.
  fold (opt_max (a_min_ts a) (h2_min_ts h)). fold (opt_min (a_max_ts a) (h2_max_ts h)).
  set (s := if a_start a <? h2_start h then h2_start h else a_start a).
  set (e := if h2_end h <? a_end a then h2_end h else a_end a).
  destruct (N.leb_spec e s) as [Hes|Hes].
  - cbn. fold s e. lia.
  - destruct (opt_max (a_min_ts a) (h2_min_ts h)) as [lo|] eqn:Elo;
    destruct (opt_min (a_max_ts a) (h2_max_ts h)) as [hi|] eqn:Ehi;
    try (split; [unfold agg_hdr; fold s e; rewrite Elo, Ehi; reflexivity|cbn; split; auto]).
    destruct (Z.leb_spec hi lo).
    + cbn. rewrite Elo, Ehi. cbn. lia.
    + split; [unfold agg_hdr; fold s e; rewrite Elo, Ehi; reflexivity|cbn; split; auto].
Qed.

Lemma intent_header_spec : forall c net a h,
  match validate_intent_header_v2 c net a h with
  | inr a' => (net_within net (h2_network h) /\ epoch_within c (h2_start h) (h2_end h) /\
               ts_within (h2_min_ts h) (h2_max_ts h)) /\ a' = agg_hdr a h /\ agg_ok a'
  | inl _ => ~ ((net_within net (h2_network h) /\ epoch_within c (h2_start h) (h2_end h) /\
                 ts_within (h2_min_ts h) (h2_max_ts h)) /\ agg_ok (agg_hdr a h))
  end.
Proof.
  intros c net a h. unfold validate_intent_header_v2.
  pose proof (network_check_None net (h2_network h)) as HN.
  destruct (network_check net (h2_network h)).
  { intros ((W & _) & _). apply HN in W. discriminate. }
  pose proof (epoch_check_None c (h2_start h) (h2_end h)) as HE.
  destruct (epoch_check c (h2_start h) (h2_end h)).
  { intros ((_ & W & _) & _). apply HE in W. discriminate. }
  pose proof (update_headers_spec a h) as HU.
  assert (HNE : net_within net (h2_network h) /\ epoch_within c (h2_start h) (h2_end h))
    by (split; [apply HN|apply HE]; reflexivity).
  destruct (h2_min_ts h) as [lo|] eqn:Elo; destruct (h2_max_ts h) as [hi|] eqn:Ehi; cbn [ts_within];
    try (destruct (update_headers a h); [tauto|tauto]).
  destruct (Z.leb_spec hi lo) as [Hle|Hlt].
  - intros ((_ & _ & W) & _). lia.
  - destruct (update_headers a h); [tauto|]. split; [split; [tauto|split; [tauto|exact Hlt]]|tauto].
Qed.

Lemma core_spec : forall c net l a i,
  match validate_intent_core c net l a i with
  | inr a' => intent_within c net i /\ a' = agg_step a i /\ agg_ok a'
  | inl _ => ~ (intent_within c net i /\ agg_ok (agg_step a i))
  end.
Proof.
  intros c net l a i. unfold validate_intent_core, intent_within.
  pose proof (intent_header_spec c net a (i_header i)) as HH.
  destruct (validate_intent_header_v2 c net a (i_header i)) as [e|a1].
  { intros (W & O). apply HH. split; [tauto|]. exact O. }
  destruct HH as (WH & -> & OK).
  pose proof (validate_message_None c (i_message i)) as HM.
  destruct (validate_message c (i_message i)).
  { intros ((_ & _ & _ & W & _) & _). apply HM in W. discriminate. }
  destruct (N.ltb_spec (max_references_per_intent c) (i_references i)); [intros (W & _); lia|].
  destruct (N.ltb_spec (max_instructions c) (i_instructions i)); [intros (W & _); lia|].
  split; [|split; [reflexivity|exact OK]].
  destruct WH as (W1 & W2 & W3).
  split; [exact W1|split; [exact W2|split; [exact W3|split; [apply HM; reflexivity|split; lia]]]].
Qed.

Fixpoint steps_ok (a : agg) (l : list intent_v2) : Prop :=
  match l with [] => True | i :: r => agg_ok (agg_step a i) /\ steps_ok (agg_step a i) r end.

Lemma subs_spec : forall c net l idx a,
  match validate_subs c net idx a l with
  | inr a' => Forall (intent_within c net) l /\ a' = fold_left agg_step l a /\ steps_ok a l
  | inl _ => ~ (Forall (intent_within c net) l /\ steps_ok a l)
  end.
Proof.
  intros c net l; induction l as [|i r IH]; intros idx a; cbn [validate_subs fold_left steps_ok].
  - split; [constructor|split; [reflexivity|exact I]].
  - pose proof (core_spec c net (NonRoot idx) a i) as HC.
    destruct (validate_intent_core c net (NonRoot idx) a i) as [e|a1].
    + intros (F & O & _). inversion F; subst. apply HC; tauto.
    + destruct HC as (W & -> & OK). specialize (IH (idx + 1) (agg_step a i)).
      destruct (validate_subs c net (idx + 1) (agg_step a i) r) as [e|a2].
      * intros (F & _ & O). inversion F; subst. apply IH; tauto.
      * destruct IH as (F & -> & O). split; [constructor; auto|split; [reflexivity|split; auto]].
Qed.

(* the window only shrinks: if it is non-empty at the end it was non-empty all along *)
Lemma opt_max_ge : forall a x l, opt_max a x = Some l -> forall y, a = Some y -> (y <= l)%Z.
Proof.
  intros a x l H y ->. destruct x as [v|]; cbn in H; [|inversion H; lia].
  destruct (Z.ltb_spec y v); inversion H; lia.
Qed.
Lemma opt_min_le : forall a x l, opt_min a x = Some l -> forall y, a = Some y -> (l <= y)%Z.
Proof.
  intros a x l H y ->. destruct x as [v|]; cbn in H; [|inversion H; lia].
  destruct (Z.ltb_spec v y); inversion H; lia.
Qed.
Lemma opt_max_some : forall a x y, a = Some y -> exists l, opt_max a x = Some l.
Proof. intros a x y ->. destruct x; cbn; eauto. destruct (y <? z)%Z; eauto. Qed.
Lemma opt_min_some : forall a x y, a = Some y -> exists l, opt_min a x = Some l.
Proof. intros a x y ->. destruct x; cbn; eauto. destruct (z <? y)%Z; eauto. Qed.

Lemma step_ok_back : forall a i, agg_ok (agg_step a i) -> agg_ok a.
Proof.
  intros a i (He & Ht). cbn in He, Ht. split.
  - destruct (N.ltb_spec (a_start a) (h2_start (i_header i)));
    destruct (N.ltb_spec (h2_end (i_header i)) (a_end a)); lia.
  - unfold ts_within in *. destruct (a_min_ts a) as [lo|] eqn:Elo; auto.
    destruct (a_max_ts a) as [hi|] eqn:Ehi; auto.
    destruct (opt_max_some _ (h2_min_ts (i_header i)) _ Elo) as (l' & El').
    destruct (opt_min_some _ (h2_max_ts (i_header i)) _ Ehi) as (h' & Eh').
    rewrite Elo, Ehi in *. rewrite El', Eh' in Ht.
    pose proof (opt_max_ge _ _ _ El' lo eq_refl). pose proof (opt_min_le _ _ _ Eh' hi eq_refl). lia.
Qed.
Lemma fold_ok_back : forall l a, agg_ok (fold_left agg_step l a) -> agg_ok a.
Proof.
  induction l as [|i r IH]; intros a H; cbn in H; auto. apply (step_ok_back a i). apply IH; auto.
Qed.
Lemma steps_ok_iff : forall l a, agg_ok a -> (steps_ok a l <-> agg_ok (fold_left agg_step l a)).
Proof.
  induction l as [|i r IH]; intros a Ha; cbn [steps_ok fold_left].
  - tauto.
  - split.
    + intros (H1 & H2). apply IH; auto.
    + intro H. assert (H1 : agg_ok (agg_step a i)) by (eapply fold_ok_back; eauto).
      split; auto. apply IH; auto.
Qed.
Lemma agg_start_ok : agg_ok agg_start.
Proof. split; cbn; [reflexivity|exact I]. Qed.

Lemma prepare_core_None : forall c i, prepare_core c i = None <-> prep_within c i.
Proof.
  intros c i. unfold prepare_core, prep_within.
  destruct (v2_transactions_permitted c); cbn [negb]; [|split; [discriminate|intros (W & _); discriminate]].
  destruct (N.ltb_spec (max_blobs c) (i_blobs i)); [split; [discriminate|lia]|].
  destruct (N.ltb_spec (max_child_subintents_per_intent c) (i_children i)); [split; [discriminate|lia]|].
  split; auto.
Qed.
Lemma prepare_cores_None : forall c l, prepare_cores c l = None <-> Forall (prep_within c) l.
Proof.
  intros c l; induction l as [|i r IH]; cbn [prepare_cores].
  - split; auto.
  - pose proof (prepare_core_None c i) as HP. destruct (prepare_core c i).
    + split; [discriminate|]. intro F. inversion F; subst. apply HP in H1. discriminate.
    + rewrite IH. split; [intro F; constructor; auto; apply HP; reflexivity|intro F; inversion F; auto].
Qed.
Lemma batch_counts_None : forall c bs idx,
  batch_counts c idx bs = None <-> Forall (fun n => n <= max_signer_signatures_per_intent c) bs.
Proof.
  intros c bs; induction bs as [|n r IH]; intros idx; cbn [batch_counts].
  - split; auto.
  - destruct (N.ltb_spec (max_signer_signatures_per_intent c) n).
    + split; [discriminate|]. intro F. inversion F; subst. lia.
    + rewrite IH. split; [intro F; constructor; auto|intro F; inversion F; auto].
Qed.
Lemma len_eqb : forall A B (a : list A) (b : list B), (len a =? len b) = true <-> length a = length b.
Proof. intros. unfold len. rewrite N.eqb_eq. lia. Qed.

Ltac wsplit W :=
  destruct W as (W1 & W2 & W3 & W4 & W5 & W6 & W7 & W8 & W9 & W10 & W11 & W12 & W13 & W14).
Theorem v2_accept_iff : forall c net t r,
  validate_v2 c net t = AcceptV2 r <-> within_v2 c net t /\ r = range_of (agg_all t).
Proof.
  intros c net t r. unfold validate_v2, prepare_v2, within_v2, intents.
  (* preparation *)
  assert (HP0 : (match v2_tip t with
                 | Some _ => negb (v2_preview t) && (max_user_payload_length c <? v2_payload_len t)
                 | None => false end) = false
                <-> match v2_tip t with
                    | Some _ => v2_preview t = true \/ v2_payload_len t <= max_user_payload_length c
                    | None => True end).
  { destruct (v2_tip t); [|tauto]. destruct (v2_preview t); cbn [negb andb]; [split; auto|].
    destruct (N.ltb_spec (max_user_payload_length c) (v2_payload_len t)); split; auto; try discriminate.
    intros [X|X]; [discriminate|lia]. }
  destruct (match v2_tip t with
            | Some _ => negb (v2_preview t) && (max_user_payload_length c <? v2_payload_len t)
            | None => false end).
  { split; [discriminate|]. intros (W & _). wsplit W. apply HP0 in W1. discriminate. }
  pose proof (prepare_core_None c (v2_root t)) as HPr.
  destruct (prepare_core c (v2_root t)).
  { split; [discriminate|]. intros (W & _). wsplit W. inversion W2 as [|? ? X Y]; subst. apply HPr in X. discriminate. }
  destruct (N.ltb_spec (max_subintents_per_transaction c) (len (v2_subs t))); [split; [discriminate|intros (W & _); wsplit W; lia]|].
  pose proof (prepare_cores_None c (v2_subs t)) as HPs.
  destruct (prepare_cores c (v2_subs t)).
  { split; [discriminate|]. intros (W & _). wsplit W. inversion W2 as [|? ? X Y]; subst. apply HPs in Y. discriminate. }
  assert (HPB : negb (v2_preview t) && (max_subintents_per_transaction c <? len (v2_batches t)) = false
                <-> (v2_preview t = true \/ len (v2_batches t) <= max_subintents_per_transaction c)).
  { destruct (v2_preview t); cbn [negb andb]; [split; auto|].
    destruct (N.ltb_spec (max_subintents_per_transaction c) (len (v2_batches t))); split; auto; try discriminate.
    intros [X|X]; [discriminate|lia]. }
  destruct (negb (v2_preview t) && (max_subintents_per_transaction c <? len (v2_batches t))).
  { split; [discriminate|]. intros (W & _). wsplit W. apply HPB in W4. discriminate. }
  (* validation *)
  destruct (v2_transactions_allowed c); cbn [negb];
    [|split; [discriminate|intros (W & _); wsplit W; discriminate]].
  destruct (N.ltb_spec (max_signer_signatures_per_intent c) (v2_root_signatures t)); [split; [discriminate|intros (W & _); wsplit W; lia]|].
  pose proof (len_eqb _ _ (v2_subs t) (v2_batches t)) as HL.
  destruct (len (v2_subs t) =? len (v2_batches t)); cbn [negb].
  2:{ split; [discriminate|]. intros (W & _). wsplit W. apply HL in W8. discriminate. }
  pose proof (batch_counts_None c (v2_batches t) 0) as HB.
  destruct (batch_counts c 0 (v2_batches t)).
  { split; [discriminate|]. intros (W & _). wsplit W. apply HB in W9. discriminate. }
  assert (HD : (match v2_tip t with None => max_subintent_depth c =? 0 | Some _ => false end) = false
               <-> (v2_tip t = None -> max_subintent_depth c <> 0)).
  { destruct (v2_tip t); [split; [intros _ X; discriminate|auto]|].
    destruct (N.eqb_spec (max_subintent_depth c) 0); split; auto; try discriminate. intro X. exfalso. apply X; auto. }
  destruct (match v2_tip t with None => max_subintent_depth c =? 0 | Some _ => false end).
  { split; [discriminate|]. intros (W & _). wsplit W. apply HD in W5. discriminate. }
  assert (HT : (match v2_tip t with
                | Some tip => (tip <? min_tip_basis_points c) || (max_tip_basis_points c <? tip)
                | None => false end) = false
               <-> match v2_tip t with
                   | Some tip => min_tip_basis_points c <= tip /\ tip <= max_tip_basis_points c
                   | None => True end).
  { destruct (v2_tip t) as [tip|]; [|tauto].
    destruct (N.ltb_spec tip (min_tip_basis_points c)); destruct (N.ltb_spec (max_tip_basis_points c) tip);
      cbn; split; auto; try discriminate; lia. }
  destruct (match v2_tip t with
            | Some tip => (tip <? min_tip_basis_points c) || (max_tip_basis_points c <? tip)
            | None => false end).
  { split; [discriminate|]. intros (W & _). wsplit W. apply HT in W10. discriminate. }
  pose proof (core_spec c net Root agg_start (v2_root t)) as HC.
  destruct (validate_intent_core c net Root agg_start (v2_root t)) as [e|a1].
  { split; [discriminate|]. intros (W & _). wsplit W. exfalso. apply HC.
    inversion W11; subst. split; auto. unfold agg_all, intents in W12. cbn [fold_left] in W12.
    eapply fold_ok_back; eauto. }
  destruct HC as (WR & -> & OK1).
  pose proof (subs_spec c net (v2_subs t) 0 (agg_step agg_start (v2_root t))) as HS.
  destruct (validate_subs c net 0 (agg_step agg_start (v2_root t)) (v2_subs t)) as [e|a].
  { split; [discriminate|]. intros (W & _). wsplit W. exfalso. apply HS.
    inversion W11; subst. split; auto. apply steps_ok_iff; auto. }
  destruct HS as (FS & -> & SO).
  change (fold_left agg_step (v2_subs t) (agg_step agg_start (v2_root t))) with (agg_all t).
  assert (OKall : agg_ok (agg_all t)) by (apply (steps_ok_iff (v2_subs t) _ OK1); exact SO).
  destruct (N.ltb_spec (max_total_references c) (a_refs (agg_all t))); [split; [discriminate|intros (W & _); wsplit W; lia]|].
  fold (total_signature_validations t).
  destruct (N.ltb_spec (max_total_signature_validations c) (total_signature_validations t));
    [split; [discriminate|intros (W & _); wsplit W; lia]|].
  split.
  - intro E. inversion E. split; [|reflexivity].
    split; [apply HP0; reflexivity|].
    split; [constructor; [apply HPr; reflexivity|apply HPs; reflexivity]|].
    split; [lia|]. split; [apply HPB; reflexivity|]. split; [apply HD; reflexivity|].
    split; [reflexivity|]. split; [lia|].
    split; [apply HL; reflexivity|]. split; [apply HB; reflexivity|].
    split; [apply HT; reflexivity|]. split; [constructor; auto|].
    split; [exact OKall|]. split; lia.
  - intros (_ & ->). reflexivity.
Qed.

(* ---------- what the aggregate is ---------- *)
Lemma agg_refs : forall l a, a_refs (fold_left agg_step l a) = a_refs a + sum (map i_references l).
Proof.
  induction l as [|i r IH]; intros a; cbn [fold_left map].
  - unfold sum; cbn; lia.
  - rewrite IH. unfold sum. cbn [fold_right agg_step agg_hdr a_refs]. lia.
Qed.

Definition in_epochs (s e x : N) : Prop := s <= x /\ x < e.
Lemma agg_epochs : forall l a x,
  in_epochs (a_start (fold_left agg_step l a)) (a_end (fold_left agg_step l a)) x <->
  in_epochs (a_start a) (a_end a) x /\
  Forall (fun i => in_epochs (h2_start (i_header i)) (h2_end (i_header i)) x) l.
Proof.
  induction l as [|i r IH]; intros a x; cbn [fold_left].
  - split; [intro H; split; [exact H|constructor]|tauto].
  - rewrite IH. unfold in_epochs. cbn [agg_step agg_hdr a_start a_end].
    destruct (N.ltb_spec (a_start a) (h2_start (i_header i)));
    destruct (N.ltb_spec (h2_end (i_header i)) (a_end a)); split.
    all: try (intros (H1 & F); split; [lia|constructor; [lia|exact F]]).
    all: intros (H1 & F); inversion F as [|? ? Hi Fr]; subst; split; [lia|exact Fr].
Qed.

Definition in_ts (lo hi : option Z) (x : Z) : Prop :=
  (forall l, lo = Some l -> (l <= x)%Z) /\ (forall h, hi = Some h -> (x < h)%Z).
Lemma opt_max_in : forall a v x,
  (forall l, opt_max a v = Some l -> (l <= x)%Z) <->
  (forall l, a = Some l -> (l <= x)%Z) /\ (forall l, v = Some l -> (l <= x)%Z).
Proof.
  intros [y|] [v|] x; cbn.
  - destruct (Z.ltb_spec y v); split.
    + intro HH. split; intros l E; inversion E; subst; specialize (HH _ eq_refl); lia.
    + intros (H1 & H2) l E; inversion E; subst; auto.
    + intro HH. split; intros l E; inversion E; subst; specialize (HH _ eq_refl); lia.
    + intros (H1 & H2) l E; inversion E; subst; auto.
  - split; [intro H; split; [exact H|intros l E; discriminate]|tauto].
  - split; [intro H; split; [intros l E; discriminate|exact H]|tauto].
  - split; [intros _; split; intros l E; discriminate|intros _ l E; discriminate].
Qed.
Lemma opt_min_in : forall a v x,
  (forall h, opt_min a v = Some h -> (x < h)%Z) <->
  (forall h, a = Some h -> (x < h)%Z) /\ (forall h, v = Some h -> (x < h)%Z).
Proof.
  intros [y|] [v|] x; cbn.
  - destruct (Z.ltb_spec v y); split.
    + intro HH. split; intros l E; inversion E; subst; specialize (HH _ eq_refl); lia.
    + intros (H1 & H2) l E; inversion E; subst; auto.
    + intro HH. split; intros l E; inversion E; subst; specialize (HH _ eq_refl); lia.
    + intros (H1 & H2) l E; inversion E; subst; auto.
  - split; [intro H; split; [exact H|intros l E; discriminate]|tauto].
  - split; [intro H; split; [intros l E; discriminate|exact H]|tauto].
  - split; [intros _; split; intros l E; discriminate|intros _ l E; discriminate].
Qed.
Lemma agg_timestamps : forall l a x,
  in_ts (a_min_ts (fold_left agg_step l a)) (a_max_ts (fold_left agg_step l a)) x <->
  in_ts (a_min_ts a) (a_max_ts a) x /\
  Forall (fun i => in_ts (h2_min_ts (i_header i)) (h2_max_ts (i_header i)) x) l.
Proof.
  induction l as [|i r IH]; intros a x; cbn [fold_left].
  - split; [intro H; split; [exact H|constructor]|tauto].
  - rewrite IH. unfold in_ts. cbn [agg_step agg_hdr a_min_ts a_max_ts].
    rewrite opt_max_in, opt_min_in. split.
    + intros (((A1 & A2) & (B1 & B2)) & F). split; [split; assumption|constructor; [split; assumption|exact F]].
    + intros ((A1 & B1) & F). inversion F as [|? ? (A2 & B2) Fr]; subst. split; [split; split; assumption|exact Fr].
Qed.

Theorem overall_window : forall c net t r, validate_v2 c net t = AcceptV2 r ->
  r_start r < r_end r /\ ts_within (r_min_ts r) (r_max_ts r) /\
  (forall x, in_epochs (r_start r) (r_end r) x <->
     x < U64_MAX /\ Forall (fun i => in_epochs (h2_start (i_header i)) (h2_end (i_header i)) x) (intents t)) /\
  (forall x, in_ts (r_min_ts r) (r_max_ts r) x <->
     Forall (fun i => in_ts (h2_min_ts (i_header i)) (h2_max_ts (i_header i)) x) (intents t)).
Proof.
  intros c net t r H. apply v2_accept_iff in H. destruct H as (W & ->).
  destruct W as (_ & _ & _ & _ & _ & _ & _ & _ & _ & _ & _ & (O1 & O2) & _).
  cbn [range_of r_start r_end r_min_ts r_max_ts]. split; [exact O1|]. split; [exact O2|]. split.
  - intro x. unfold agg_all. rewrite agg_epochs. unfold in_epochs at 1. cbn [agg_start a_start a_end].
    split; [intros ((_ & A) & F); split; assumption|intros (A & F); split; [split; [lia|exact A]|exact F]].
  - intro x. unfold agg_all. rewrite agg_timestamps. unfold in_ts at 1. cbn [agg_start a_min_ts a_max_ts].
    split; [intros (_ & F); exact F|intro F; split; [split; intros l E; discriminate|exact F]].
Qed.

Theorem epoch_window_v2 : forall c net t r, validate_v2 c net t = AcceptV2 r ->
  Forall (fun i => h2_start (i_header i) < h2_end (i_header i) /\
                   h2_end (i_header i) <= h2_start (i_header i) + max_epoch_range c) (intents t).
Proof.
  intros c net t r H. apply v2_accept_iff in H. destruct H as (W & _).
  destruct W as (_ & _ & _ & _ & _ & _ & _ & _ & _ & _ & F & _).
  eapply Forall_impl; [|exact F]. intros i (_ & (A & B & _) & _). split; assumption.
Qed.
Theorem epoch_window_v1 : forall c net t, validate_v1 c net t = AcceptV1 ->
  h1_start (v1_header t) < h1_end (v1_header t) /\
  h1_end (v1_header t) <= h1_start (v1_header t) + max_epoch_range c.
Proof.
  intros c net t H. apply v1_accept_iff in H. destruct H as (_ & _ & _ & _ & (A & B & _) & _). split; assumption.
Qed.

(* ---------- boundary checks, executable (instantiated on the generated configs in Props) ---------- *)
Definition is_accept (o : outcome) : bool :=
  match o with AcceptV1 | AcceptV2 _ => true | Reject _ | PanicDepthUnderflow => false end.
Definition hdr1 (c : config) : header_v1 :=
  {| h1_network := 1; h1_start := 10; h1_end := 11; h1_tip_percentage := min_tip_percentage c |}.
Definition base1 (c : config) : tx_v1 :=
  {| v1_payload_len := 100; v1_header := hdr1 c; v1_message := MNone; v1_references := 0;
     v1_instructions := 1; v1_blobs := 0; v1_signatures := 0 |}.
Definition with_hdr1 (t : tx_v1) (h : header_v1) : tx_v1 :=
  {| v1_payload_len := v1_payload_len t; v1_header := h; v1_message := v1_message t;
     v1_references := v1_references t; v1_instructions := v1_instructions t; v1_blobs := v1_blobs t;
     v1_signatures := v1_signatures t |}.
Definition with_msg1 (t : tx_v1) (m : message) : tx_v1 :=
  {| v1_payload_len := v1_payload_len t; v1_header := v1_header t; v1_message := m;
     v1_references := v1_references t; v1_instructions := v1_instructions t; v1_blobs := v1_blobs t;
     v1_signatures := v1_signatures t |}.
(* each entry: limit value L |-> transaction with the field at L *)
Definition v1_fields (c : config) : list (N * (N -> tx_v1)) :=
  let b := base1 c in
  [ (max_user_payload_length c, fun v => {| v1_payload_len := v; v1_header := v1_header b; v1_message := MNone;
       v1_references := 0; v1_instructions := 1; v1_blobs := 0; v1_signatures := 0 |});
    (max_blobs c, fun v => {| v1_payload_len := 100; v1_header := v1_header b; v1_message := MNone;
       v1_references := 0; v1_instructions := 1; v1_blobs := v; v1_signatures := 0 |});
    (N.min (max_signer_signatures_per_intent c) (max_total_signature_validations c - 1),
     fun v => {| v1_payload_len := 100; v1_header := v1_header b; v1_message := MNone;
       v1_references := 0; v1_instructions := 1; v1_blobs := 0; v1_signatures := v |});
    (N.min (max_references_per_intent c) (max_total_references c),
     fun v => {| v1_payload_len := 100; v1_header := v1_header b; v1_message := MNone;
       v1_references := v; v1_instructions := 1; v1_blobs := 0; v1_signatures := 0 |});
    (max_instructions c, fun v => {| v1_payload_len := 100; v1_header := v1_header b; v1_message := MNone;
       v1_references := 0; v1_instructions := v; v1_blobs := 0; v1_signatures := 0 |});
    (10 + max_epoch_range c, fun v => with_hdr1 b {| h1_network := 1; h1_start := 10; h1_end := v;
       h1_tip_percentage := min_tip_percentage c |});
    (max_tip_percentage c, fun v => with_hdr1 b {| h1_network := 1; h1_start := 10; h1_end := 11;
       h1_tip_percentage := v |});
    (max_mime_type_length c, fun v => with_msg1 b (MPlaintext v 0));
    (max_plaintext_message_length c, fun v => with_msg1 b (MPlaintext 0 v));
    (max_encrypted_message_length c, fun v => with_msg1 b (MEncrypted v [(0, 0, 1)]));
    (max_decryptors c, fun v => with_msg1 b (MEncrypted 0 [(0, 0, 1); (1, 1, v - 1)])) ].
Definition at_and_above (A : Type) (run : A -> outcome) (f : N * (N -> A)) : bool :=
  is_accept (run (snd f (fst f))) && negb (is_accept (run (snd f (fst f + 1)))).
Definition v1_boundaries (c : config) : bool :=
  is_accept (validate_v1 c (Some 1) (base1 c)) &&
  forallb (at_and_above tx_v1 (validate_v1 c (Some 1))) (v1_fields c) &&
  (* lower bounds and the other side of the epoch window *)
  negb (is_accept (validate_v1 c (Some 1) (with_hdr1 (base1 c)
        {| h1_network := 1; h1_start := 10; h1_end := 10; h1_tip_percentage := min_tip_percentage c |}))) &&
  negb (is_accept (validate_v1 c (Some 1) (with_hdr1 (base1 c)
        {| h1_network := 2; h1_start := 10; h1_end := 11; h1_tip_percentage := min_tip_percentage c |}))) &&
  negb (is_accept (validate_v1 c (Some 1) (with_hdr1 (base1 c)
        {| h1_network := 1; h1_start := U64_MAX - max_epoch_range c + 1; h1_end := U64_MAX;
           h1_tip_percentage := min_tip_percentage c |}))) &&
  is_accept (validate_v1 c (Some 1) (with_hdr1 (base1 c)
        {| h1_network := 1; h1_start := U64_MAX - max_epoch_range c; h1_end := U64_MAX;
           h1_tip_percentage := min_tip_percentage c |})) &&
  negb (is_accept (validate_v1 c (Some 1) (with_msg1 (base1 c) (MEncrypted 0 [])))) &&
  negb (is_accept (validate_v1 c (Some 1) (with_msg1 (base1 c) (MEncrypted 0 [(0, 1, 1)])))) &&
  negb (is_accept (validate_v1 c (Some 1) (with_msg1 (base1 c) (MEncrypted 0 [(0, 0, 0)])))).

Definition hdr2 (s e : N) (lo hi : option Z) : header_v2 :=
  {| h2_network := 1; h2_start := s; h2_end := e; h2_min_ts := lo; h2_max_ts := hi |}.
Definition int2 (h : header_v2) (m : message) (refs instrs blobs children : N) : intent_v2 :=
  {| i_header := h; i_message := m; i_references := refs; i_instructions := instrs; i_blobs := blobs;
     i_children := children |}.
Definition base_int : intent_v2 := int2 (hdr2 10 11 None None) MNone 0 1 0 0.
Definition tx2 (c : config) (tip : N) (root : intent_v2) (rs : N) (subs : list intent_v2) (bs : list N) : tx_v2 :=
  {| v2_payload_len := 100; v2_tip := Some tip; v2_root := root; v2_root_signatures := rs;
     v2_subs := subs; v2_batches := bs; v2_preview := false |}.
Definition base2 (c : config) : tx_v2 := tx2 c (min_tip_basis_points c) base_int 0 [] [].
(* spread n signatures over batches of at most `per` *)
Fixpoint spread (fuel : nat) (n per : N) : list N :=
  match fuel with
  | O => []
  | S f => if n =? 0 then [] else if n <=? per then [n] else per :: spread f (n - per) per
  end.
Definition total_case (c : config) (total : N) : tx_v2 :=
  let per := max_signer_signatures_per_intent c in
  let rs := N.min per (total - 1) in
  let bs := spread 64 (total - 1 - rs) per in
  tx2 c (min_tip_basis_points c) base_int rs (map (fun _ => base_int) bs) bs.
Definition v2_fields (c : config) : list (N * (N -> tx_v2)) :=
  let tip := min_tip_basis_points c in
  [ (max_user_payload_length c, fun v => {| v2_payload_len := v; v2_tip := Some tip; v2_root := base_int;
        v2_root_signatures := 0; v2_subs := []; v2_batches := []; v2_preview := false |});
    (max_tip_basis_points c, fun v => tx2 c v base_int 0 [] []);
    (max_blobs c, fun v => tx2 c tip (int2 (hdr2 10 11 None None) MNone 0 1 v 0) 0 [] []);
    (max_child_subintents_per_intent c, fun v => tx2 c tip (int2 (hdr2 10 11 None None) MNone 0 1 0 v) 0 [] []);
    (max_blobs c, fun v => tx2 c tip base_int 0 [int2 (hdr2 10 11 None None) MNone 0 1 v 0] [0]);
    (max_subintents_per_transaction c, fun v => tx2 c tip base_int 0
        (repeat base_int (N.to_nat v)) (repeat 0 (N.to_nat v)));
    (max_signer_signatures_per_intent c, fun v => tx2 c tip base_int v [] []);
    (max_signer_signatures_per_intent c, fun v => tx2 c tip base_int 0 [base_int] [v]);
    (max_total_signature_validations c, fun v => total_case c v);
    (N.min (max_references_per_intent c) (max_total_references c),
     fun v => tx2 c tip (int2 (hdr2 10 11 None None) MNone v 1 0 0) 0 [] []);
    (max_total_references c - 1, fun v => tx2 c tip (int2 (hdr2 10 11 None None) MNone 1 1 0 0) 0
        [int2 (hdr2 10 11 None None) MNone v 1 0 0] [0]);
    (max_instructions c, fun v => tx2 c tip base_int 0 [int2 (hdr2 10 11 None None) MNone 0 v 0 0] [0]);
    (10 + max_epoch_range c, fun v => tx2 c tip (int2 (hdr2 10 v None None) MNone 0 1 0 0) 0 [] []);
    (max_mime_type_length c, fun v => tx2 c tip (int2 (hdr2 10 11 None None) (MPlaintext v 0) 0 1 0 0) 0 [] []);
    (max_decryptors c, fun v => tx2 c tip base_int 0
        [int2 (hdr2 10 11 None None) (MEncrypted 0 [(1, 1, v)]) 0 1 0 0] [0]) ].
Definition v2_boundaries (c : config) : bool :=
  if v2_transactions_permitted c && v2_transactions_allowed c then
    is_accept (validate_v2 c (Some 1) (base2 c)) &&
    forallb (at_and_above tx_v2 (validate_v2 c (Some 1))) (v2_fields c) &&
    (* overall window: [10,12) and [11,13) intersect in [11,12); [10,11) and [11,12) do not *)
    is_accept (validate_v2 c (Some 1) (tx2 c (min_tip_basis_points c)
       (int2 (hdr2 10 12 None None) MNone 0 1 0 0) 0 [int2 (hdr2 11 13 None None) MNone 0 1 0 0] [0])) &&
    negb (is_accept (validate_v2 c (Some 1) (tx2 c (min_tip_basis_points c)
       (int2 (hdr2 10 11 None None) MNone 0 1 0 0) 0 [int2 (hdr2 11 12 None None) MNone 0 1 0 0] [0]))) &&
    (* timestamps: per intent lo < hi; across intents max lo < min hi *)
    is_accept (validate_v2 c (Some 1) (tx2 c (min_tip_basis_points c)
       (int2 (hdr2 10 11 (Some 5%Z) (Some 6%Z)) MNone 0 1 0 0) 0 [] [])) &&
    negb (is_accept (validate_v2 c (Some 1) (tx2 c (min_tip_basis_points c)
       (int2 (hdr2 10 11 (Some 6%Z) (Some 6%Z)) MNone 0 1 0 0) 0 [] []))) &&
    is_accept (validate_v2 c (Some 1) (tx2 c (min_tip_basis_points c)
       (int2 (hdr2 10 11 (Some 5%Z) None) MNone 0 1 0 0) 0 [int2 (hdr2 10 11 None (Some 6%Z)) MNone 0 1 0 0] [0])) &&
    negb (is_accept (validate_v2 c (Some 1) (tx2 c (min_tip_basis_points c)
       (int2 (hdr2 10 11 (Some 6%Z) None) MNone 0 1 0 0) 0 [int2 (hdr2 10 11 None (Some 6%Z)) MNone 0 1 0 0] [0]))) &&
    (* one batch too few *)
    negb (is_accept (validate_v2 c (Some 1) (tx2 c (min_tip_basis_points c) base_int 0 [base_int] [])))
  else negb (is_accept (validate_v2 c (Some 1) (base2 c))).

(* ---------- the configured-depth-0 underflow ---------- *)
Lemma prepare_core_permitted : forall c i, prepare_core c i = None -> v2_transactions_permitted c = true.
Proof. intros c i H. apply prepare_core_None in H. destruct H; auto. Qed.
Theorem v2_panic_only_if : forall c net t,
  validate_v2 c net t = PanicDepthUnderflow ->
  v2_transactions_permitted c = true /\ v2_transactions_allowed c = true /\
  max_subintent_depth c = 0 /\ v2_tip t = None.
Proof.
  intros c net t. unfold validate_v2, prepare_v2.
  destruct (match v2_tip t with
            | Some _ => negb (v2_preview t) && (max_user_payload_length c <? v2_payload_len t)
            | None => false end); [discriminate|].
  destruct (prepare_core c (v2_root t)) eqn:EP; [discriminate|].
  apply prepare_core_permitted in EP.
  destruct (max_subintents_per_transaction c <? len (v2_subs t)); [discriminate|].
  destruct (prepare_cores c (v2_subs t)); [discriminate|].
  destruct (negb (v2_preview t) && (max_subintents_per_transaction c <? len (v2_batches t))); [discriminate|].
  destruct (v2_transactions_allowed c); cbn [negb]; [|discriminate].
  destruct (max_signer_signatures_per_intent c <? v2_root_signatures t); [discriminate|].
  destruct (len (v2_subs t) =? len (v2_batches t)); cbn [negb]; [|discriminate].
  destruct (batch_counts c 0 (v2_batches t)); [discriminate|].
  destruct (v2_tip t) as [tip|] eqn:ET.
  - destruct ((tip <? min_tip_basis_points c) || (max_tip_basis_points c <? tip)); [discriminate|].
    destruct (validate_intent_core c net Root agg_start (v2_root t)); [discriminate|].
    destruct (validate_subs c net 0 a (v2_subs t)); [discriminate|].
    destruct (max_total_references c <? a_refs a0); [discriminate|].
    destruct (max_total_signature_validations c <? _); discriminate.
  - destruct (N.eqb_spec (max_subintent_depth c) 0).
    + intros _. auto.
    + destruct (validate_intent_core c net Root agg_start (v2_root t)); [discriminate|].
      destruct (validate_subs c net 0 a (v2_subs t)); [discriminate|].
      destruct (max_total_references c <? a_refs a0); [discriminate|].
      destruct (max_total_signature_validations c <? _); discriminate.
Qed.
(* and it IS reached: the smallest signed partial transaction under a V2-enabled configuration with depth 0 *)
Definition depth0_witness : tx_v2 :=
  {| v2_payload_len := 100; v2_tip := None;
     v2_root := {| i_header := {| h2_network := 1; h2_start := 10; h2_end := 11; h2_min_ts := None; h2_max_ts := None |};
                   i_message := MNone; i_references := 0; i_instructions := 1; i_blobs := 0; i_children := 0 |};
     v2_root_signatures := 0; v2_subs := []; v2_batches := []; v2_preview := false |}.

(* ---------- V1 preview ---------- *)
Definition within_preview_v1 (c : config) (net : option N) (t : tx_v1) : Prop :=
  v1_blobs t <= max_blobs c /\
  net_within net (h1_network (v1_header t)) /\
  epoch_within c (h1_start (v1_header t)) (h1_end (v1_header t)) /\
  (min_tip_percentage c <= h1_tip_percentage (v1_header t) /\
   h1_tip_percentage (v1_header t) <= max_tip_percentage c) /\
  msg_within c (v1_message t) /\
  v1_references t <= max_references_per_intent c /\
  v1_instructions t <= max_instructions c /\
  v1_references t <= max_total_references c.
Theorem preview_v1_accept_iff : forall c net t,
  validate_preview_v1 c net t = AcceptV1 <-> within_preview_v1 c net t.
Proof.
  intros c net t. unfold validate_preview_v1, validate_header_v1, within_preview_v1.
  destruct (N.ltb_spec (max_blobs c) (v1_blobs t)); [split; [discriminate|lia]|].
  pose proof (network_check_None net (h1_network (v1_header t))) as HN.
  destruct (network_check net (h1_network (v1_header t))).
  { split; [discriminate|]. intros (_ & W & _). apply HN in W. discriminate. }
  pose proof (epoch_check_None c (h1_start (v1_header t)) (h1_end (v1_header t))) as HE.
  destruct (epoch_check c (h1_start (v1_header t)) (h1_end (v1_header t))).
  { split; [discriminate|]. intros (_ & _ & W & _). apply HE in W. discriminate. }
  destruct (N.ltb_spec (h1_tip_percentage (v1_header t)) (min_tip_percentage c)); cbn [orb];
    [split; [discriminate|lia]|].
  destruct (N.ltb_spec (max_tip_percentage c) (h1_tip_percentage (v1_header t)));
    [split; [discriminate|lia]|].
  pose proof (validate_message_None c (v1_message t)) as HM.
  destruct (validate_message c (v1_message t)).
  { split; [discriminate|]. intros (_ & _ & _ & _ & W & _). apply HM in W. discriminate. }
  destruct (N.ltb_spec (max_references_per_intent c) (v1_references t)); [split; [discriminate|lia]|].
  destruct (N.ltb_spec (max_instructions c) (v1_instructions t)); [split; [discriminate|lia]|].
  destruct (N.ltb_spec (max_total_references c) (v1_references t)); [split; [discriminate|lia]|].
  split; auto. intros _.
  split; [lia|]. split; [apply HN; reflexivity|]. split; [apply HE; reflexivity|]. split; [lia|].
  split; [apply HM; reflexivity|]. split; [lia|]. split; lia.
Qed.
(* a notarized V1 transaction is valid iff its intent passes preview validation and, in addition, the
   payload length and the signature counts are within their limits: preview checks nothing about signatures *)
Theorem v1_accept_iff_preview : forall c net t,
  validate_v1 c net t = AcceptV1 <->
  validate_preview_v1 c net t = AcceptV1 /\
  v1_payload_len t <= max_user_payload_length c /\
  v1_signatures t <= max_signer_signatures_per_intent c /\
  v1_signatures t + 1 <= max_total_signature_validations c.
Proof.
  intros c net t. rewrite v1_accept_iff, preview_v1_accept_iff. unfold within_v1, within_preview_v1. tauto.
Qed.
Theorem preview_v1_ignores_signatures : forall c net t t',
  v1_header t = v1_header t' -> v1_message t = v1_message t' -> v1_references t = v1_references t' ->
  v1_instructions t = v1_instructions t' -> v1_blobs t = v1_blobs t' ->
  validate_preview_v1 c net t = validate_preview_v1 c net t'.
Proof. intros c net t t' H1 H2 H3 H4 H5. unfold validate_preview_v1. rewrite H1, H2, H3, H4, H5. reflexivity. Qed.
