(* checked_powi: magnitude bound, negative exponents, unit bases *)
From Coq Require Import ZArith List Bool Lia.
Import ListNotations.
Require Import RV.Lib.DecCore RV.Lib.DecCoreFacts RV.Model.C25_Round RV.Model.C24_Dec RV.Model.C26_RootPow
  RV.Proof.C25_Round RV.Proof.C24_Dec RV.Proof.C26_Powi.
Open Scope Z_scope.

(* ---- algebra of truncated powers ---- *)
Lemma quot_mag_gen num den : den <> 0 -> Z.abs (Z.quot num den) * Z.abs den <= Z.abs num.
Proof.
  intros Hd. pose proof (Z.quot_abs num den Hd) as E.
  pose proof (Z.mul_quot_le (Z.abs num) (Z.abs den) ltac:(lia) ltac:(lia)) as H.
  rewrite E in H. lia.
Qed.
Lemma quot_mag num den : 0 < den -> Z.abs (Z.quot num den) * den <= Z.abs num.
Proof. intros Hd. pose proof (quot_mag_gen num den ltac:(lia)) as H. rewrite (Z.abs_eq den) in H by lia. exact H. Qed.

Lemma pow_split o j : 1 <= j -> o ^ (2 * j - 1) = o ^ (j - 1) * o ^ j.
Proof. intros. rewrite <- Z.pow_add_r by lia. f_equal. lia. Qed.
Lemma pow_sq A j : 0 <= j -> A ^ (2 * j) = (A * A) ^ j.
Proof. intros. rewrite Z.pow_mul_r by lia. rewrite Z.pow_2_r. reflexivity. Qed.

Lemma mag_even A D R o j : 0 < o -> 0 <= A -> 0 <= D -> 0 <= R -> 1 <= j ->
  D * o <= A * A -> R * o ^ (j - 1) <= D ^ j -> R * o ^ (2 * j - 1) <= A ^ (2 * j).
Proof.
  intros Ho HA HD HR Hj H1 H2.
  assert (Hoj : 0 < o ^ j) by (apply Z.pow_pos_nonneg; lia).
  rewrite pow_split, pow_sq by lia.
  apply Z.le_trans with (D ^ j * o ^ j).
  - rewrite Z.mul_assoc. apply Z.mul_le_mono_nonneg_r; lia.
  - rewrite <- Z.pow_mul_l. apply Z.pow_le_mono_l. split; [apply Z.mul_nonneg_nonneg; lia|exact H1].
Qed.

Lemma mag_odd A D R Bb o j : 0 < o -> 0 <= A -> 0 <= D -> 0 <= R -> 0 <= Bb -> 1 <= j ->
  D * o <= A * A -> Bb * o ^ (j - 1) <= D ^ j -> R * o <= A * Bb ->
  R * o ^ (2 * j) <= A ^ (2 * j + 1).
Proof.
  intros Ho HA HD HR HB Hj H1 H2 H3.
  assert (Hoj : 0 < o ^ j) by (apply Z.pow_pos_nonneg; lia).
  assert (Hoj1 : 0 < o ^ (j - 1)) by (apply Z.pow_pos_nonneg; lia).
  assert (E1 : o ^ (2 * j) = o * (o ^ (j - 1) * o ^ j)).
  { rewrite <- pow_split by lia. rewrite <- Z.pow_succ_r by lia. f_equal. lia. }
  assert (E2 : A ^ (2 * j + 1) = A * (A * A) ^ j).
  { rewrite <- pow_sq by lia. replace (2 * j + 1) with (Z.succ (2 * j)) by lia. apply Z.pow_succ_r. lia. }
  rewrite E1, E2.
  assert (S1 : R * (o * (o ^ (j - 1) * o ^ j)) = (R * o) * (o ^ (j - 1) * o ^ j)) by ring.
  rewrite S1.
  apply Z.le_trans with ((A * Bb) * (o ^ (j - 1) * o ^ j)).
  { apply Z.mul_le_mono_nonneg_r; [apply Z.mul_nonneg_nonneg; lia|exact H3]. }
  assert (S2 : A * Bb * (o ^ (j - 1) * o ^ j) = A * ((Bb * o ^ (j - 1)) * o ^ j)) by ring.
  rewrite S2. apply Z.mul_le_mono_nonneg_l; [lia|].
  apply Z.le_trans with (D ^ j * o ^ j).
  - apply Z.mul_le_mono_nonneg_r; lia.
  - rewrite <- Z.pow_mul_l. apply Z.pow_le_mono_l. split; [apply Z.mul_nonneg_nonneg; lia|exact H1].
Qed.

Lemma mag_neg A I R o e : 0 < o -> 0 <= A -> 0 <= I -> 0 <= R -> 1 <= e ->
  I * A <= o * o -> R * o ^ (e - 1) <= I ^ e -> R * A ^ e <= o ^ (e + 1).
Proof.
  intros Ho HA HI HR He H1 H2.
  assert (Hp : 0 < o ^ (e - 1)) by (apply Z.pow_pos_nonneg; lia).
  assert (HAe : 0 <= A ^ e) by (apply Z.pow_nonneg; lia).
  apply (Z.mul_le_mono_pos_r _ _ (o ^ (e - 1)) Hp).
  assert (E : o ^ (e + 1) * o ^ (e - 1) = (o * o) ^ e).
  { rewrite <- Z.pow_add_r by lia. rewrite <- pow_sq by lia. f_equal. lia. }
  rewrite E.
  assert (S1 : R * A ^ e * o ^ (e - 1) = (R * o ^ (e - 1)) * A ^ e) by ring. rewrite S1.
  apply Z.le_trans with (I ^ e * A ^ e).
  - apply Z.mul_le_mono_nonneg_r; lia.
  - rewrite <- Z.pow_mul_l. apply Z.pow_le_mono_l. split; [apply Z.mul_nonneg_nonneg; lia|exact H1].
Qed.

Section Powi2.
  Variable f : fmt.
  Hypothesis Hok : fmt_ok f.
  Local Notation ONE := (one f).
  Local Notation K := (2 ^ (fbits f - 1)).
  Local Notation M := (2 ^ (wbits f - fbits f)).

  Lemma even_odd_split e : 2 <= e ->
    (Z.rem e 2 = 0 -> e = 2 * Z.quot e 2 /\ 1 <= Z.quot e 2) /\
    (Z.rem e 2 <> 0 -> e = 2 * Z.quot (e - 1) 2 + 1 /\ (e = 3 \/ 1 <= Z.quot (e - 1) 2)).
  Proof.
    intros He. pose proof (Z.quot_rem' e 2). pose proof (Z.rem_bound_pos e 2 ltac:(lia) ltac:(lia)).
    pose proof (Z.quot_rem' (e - 1) 2). pose proof (Z.rem_bound_pos (e - 1) 2 ltac:(lia) ltac:(lia)).
    split; intros; lia.
  Qed.

  (* truncation only shrinks: the returned value never exceeds the exact power in magnitude *)
  Lemma ppow_go_mag : forall k x e r, InF f x -> ppow_go f k x e = Ok r -> 1 <= e ->
    Z.abs r * ONE ^ (e - 1) <= Z.abs x ^ e.
  Proof.
    pose proof (one_pos f Hok) as H1.
    induction k as [|k IH]; intros x e r Hx H He; [discriminate|]. rewrite ppow_go_S in H.
    destruct (Z.eqb_spec e 0); [lia|].
    destruct (Z.eqb_spec e 1) as [->|Hne1].
    { inversion H; subst. change (1 - 1) with 0. rewrite Z.pow_0_r, Z.pow_1_r. lia. }
    destruct (exact_or_none f (Z.quot (x * x) ONE)) as [d| |] eqn:Ed; cbn [bind] in H; try discriminate.
    apply (exact_or_none_inv f) in Ed. destruct Ed as [Ed Hd].
    assert (HD : Z.abs d * ONE <= Z.abs x * Z.abs x).
    { rewrite Ed, <- Z.abs_mul. apply quot_mag. lia. }
    destruct (even_odd_split e ltac:(lia)) as [Hev Hod].
    destruct (Z.eqb_spec (Z.rem e 2) 0) as [E|E].
    - destruct (Hev E) as [Ee Hj]. set (j := Z.quot e 2) in *.
      pose proof (IH d j r Hd H Hj) as IHr.
      rewrite Ee. apply (mag_even (Z.abs x) (Z.abs d) (Z.abs r) ONE j);
        [exact H1|apply Z.abs_nonneg|apply Z.abs_nonneg|apply Z.abs_nonneg|exact Hj|exact HD|exact IHr].
    - destruct (Hod E) as [Ee Hj]. set (j := Z.quot (e - 1) 2) in *.
      destruct (ppow_go f k d j) as [b| |] eqn:Eb; cbn [bind] in H; try discriminate.
      apply (exact_or_none_inv f) in H. destruct H as [Er _].
      assert (HR : Z.abs r * ONE <= Z.abs x * Z.abs b).
      { rewrite Er, <- Z.abs_mul. apply quot_mag. lia. }
      assert (Hj1 : 1 <= j).
      { destruct Hj as [E3|]; [|assumption]. unfold j. rewrite E3. reflexivity. }
      pose proof (IH d j b Hd Eb Hj1) as IHb.
      rewrite Ee. replace (2 * j + 1 - 1) with (2 * j) by lia.
      apply (mag_odd (Z.abs x) (Z.abs d) (Z.abs r) (Z.abs b) ONE j);
        [exact H1|apply Z.abs_nonneg|apply Z.abs_nonneg|apply Z.abs_nonneg|apply Z.abs_nonneg|exact Hj1|exact HD|exact IHb|exact HR].
  Qed.

  (* what the code does for a negative exponent *)
  Lemma powi_neg_step x exp : InF f x -> I64_MIN <= exp < 0 ->
    dec_powi f x exp =
      if x =? 0 then Err ENone else
      let* inv := exact_or_none f (Z.quot (ONE * ONE) x) in
      if exp =? I64_MIN then Err ENone else ppow_go f 65 inv (- exp).
  Proof.
    intros Hx He. pose proof (one_pos f Hok) as H1. pose proof (one_lt_M f Hok) as H2.
    pose proof (one_lt_K f Hok) as H3. pose proof (K_pos f Hok) as H4.
    unfold dec_powi, powi_fuel. rewrite powi_go_S.
    rewrite (widen f Hok _ (one_InF f Hok)), (widen f Hok x Hx). cbn [bind].
    destruct (Z.ltb_spec exp 0); [|lia].
    assert (Hoo : InTy (wty f) (ONE * ONE)) by (apply <- (InW_iff f Hok); nia).
    unfold pmul. rewrite pan_in by exact Hoo. cbn [bind].
    unfold cdiv. destruct (Z.eqb_spec x 0); [reflexivity|].
    assert (Hq : InTy (wty f) (Z.quot (ONE * ONE) x)).
    { apply <- (InW_iff f Hok). pose proof (quot_between (ONE * ONE) x ltac:(lia)). nia. }
    rewrite chk_in by exact Hq. cbn [bind]. rewrite (narrow f Hok _ Hq).
    destruct (exact_or_none f (Z.quot (ONE * ONE) x)) as [inv| |] eqn:Ei; cbn [bind]; try reflexivity.
    apply (exact_or_none_inv f) in Ei. destruct Ei as [_ Hinv].
    unfold cmul, chk. destruct (Z.eqb_spec exp I64_MIN) as [->|Hne].
    - reflexivity.
    - assert (Hin : in_ity I64 (exp * -1) = true).
      { apply in_ity_iff. apply <- InTy_SI. unfold I64_MIN in *. change (2 ^ (64 - 1)) with (2 ^ 63). lia. }
      rewrite Hin. cbn [bind]. replace (exp * -1) with (- exp) by lia.
      apply (powi_go_nonneg f Hok); [exact Hinv|]. unfold I64_MIN, I64_MAX in *. lia.
  Qed.

  Lemma powi_nonneg_step x exp : InF f x -> 0 <= exp <= I64_MAX ->
    dec_powi f x exp = ppow_go f 66 x exp.
  Proof. intros. apply (powi_go_nonneg f Hok); assumption. Qed.

  (* never a panic, never out of fuel; a returned value is representable *)
  Theorem powi_total x exp : InF f x -> I64_MIN <= exp <= I64_MAX ->
    dec_powi f x exp = Err ENone \/ exists r, dec_powi f x exp = Ok r /\ InF f r.
  Proof.
    intros Hx He.
    assert (Hfin : forall k' y e, InF f y -> 0 <= e < 2 ^ Z.of_nat k' ->
      ppow_go f (S k') y e = Err ENone \/ exists r, ppow_go f (S k') y e = Ok r /\ InF f r).
    { intros k' y e Hy Hb. destruct (ppow_go_total f k' y e Hy Hb) as [E|[r E]]; [left; exact E|].
      right. exists r. split; [exact E|]. apply (ppow_go_InF f Hok _ _ _ _ Hy E). }
    destruct (Z_lt_le_dec exp 0) as [Hneg|Hpos].
    - rewrite powi_neg_step by (try assumption; lia).
      destruct (x =? 0); [left; reflexivity|].
      destruct (exact_or_none f (Z.quot (ONE * ONE) x)) as [inv|e|] eqn:Ei; cbn [bind].
      + apply (exact_or_none_inv f) in Ei. destruct Ei as [_ Hinv].
        destruct (Z.eqb_spec exp I64_MIN); [left; reflexivity|].
        apply (Hfin 64%nat); [exact Hinv|]. unfold I64_MIN in *. change (2 ^ Z.of_nat 64) with (2 ^ 64). lia.
      + unfold exact_or_none in Ei. destruct (in_f f _); inversion Ei. left; reflexivity.
      + unfold exact_or_none in Ei. destruct (in_f f _); discriminate.
    - rewrite powi_nonneg_step by (try assumption; lia).
      apply (Hfin 65%nat); [exact Hx|]. unfold I64_MAX in *. change (2 ^ Z.of_nat 65) with (2 ^ 65). lia.
  Qed.

  Theorem powi_mag x exp r : InF f x -> I64_MIN <= exp <= I64_MAX -> dec_powi f x exp = Ok r ->
    (1 <= exp -> Z.abs r * ONE ^ (exp - 1) <= Z.abs x ^ exp) /\
    (exp = 0 -> r = ONE) /\
    (exp < 0 -> Z.abs r * Z.abs x ^ (- exp) <= ONE ^ (- exp + 1)).
  Proof.
    intros Hx He H. pose proof (one_pos f Hok) as H1. split; [|split].
    - intros Hp. rewrite powi_nonneg_step in H by (try assumption; lia).
      apply (ppow_go_mag 66 x exp r Hx H Hp).
    - intros ->. rewrite powi_nonneg_step in H by (try assumption; unfold I64_MAX; lia).
      cbn in H. inversion H; reflexivity.
    - intros Hn. rewrite powi_neg_step in H by (try assumption; lia).
      destruct (Z.eqb_spec x 0); [discriminate|].
      destruct (exact_or_none f (Z.quot (ONE * ONE) x)) as [inv| |] eqn:Ei; cbn [bind] in H; try discriminate.
      apply (exact_or_none_inv f) in Ei. destruct Ei as [Ei Hinv].
      destruct (Z.eqb_spec exp I64_MIN); [discriminate|].
      pose proof (ppow_go_mag 65 inv (- exp) r Hinv H ltac:(lia)) as Hm.
      assert (HI : Z.abs inv * Z.abs x <= ONE * ONE).
      { rewrite Ei. pose proof (quot_mag_gen (ONE * ONE) x ltac:(lia)) as Hq.
        rewrite (Z.abs_eq (ONE * ONE)) in Hq by nia. exact Hq. }
      apply (mag_neg _ (Z.abs inv)); try lia.
  Qed.

End Powi2.
