(* C12 — the Track model refines the `view` specification: invariant and per-operation lemmas
   (single-substate operations, create_node, force_write, delete_partition). *)
From Coq Require Import List NArith Bool Lia.
Import ListNotations.
Require Import RV.Model.C12_Track RV.Model.C12_View RV.Proof.C12_Maps.
Open Scope N_scope.

Definition tlookup (ns : nodes) (n p k : N) : option tsv :=
  match find_part ns n p with Some ps => al_get k (ps_subs ps) | None => None end.
Definition tview (db : dbfun) (t : track) (n p k : N) : option value :=
  match tlookup (t_nodes t) n p k with Some tv => tsv_get tv | None => al_get k (db n p) end.

Definition nodes_wf (ns : nodes) : Prop :=
  NoDup (map fst ns) /\ forall n nd, al_get n ns = Some nd -> NoDup (map fst (tn_parts nd)).
Definition subs_sorted (ns : nodes) : Prop :=
  forall n p ps, find_part ns n p = Some ps -> sorted (ps_subs ps).

(* what a tracked value may claim about the database *)
Definition tsv_ok (tv : tsv) (b : option value) : Prop :=
  match tv with
  | TNew _ | TRoNone | TRNexW _ | TGarbage => b = None
  | TRoSome v => b = Some v
  | TRExW e _ => b = Some e
  | TWo _ => True
  end.

Record Inv (db : dbfun) (t : track) (s : vstate) : Prop := {
  inv_wf : nodes_wf (t_nodes t);
  inv_sorted : subs_sorted (t_nodes t);
  inv_view : forall n p k, al_get k (v_view s n p) = tview db t n p k;
  inv_vsorted : forall n p, sorted (v_view s n p);
  inv_new : forall n, node_is_new (t_nodes t) n = v_new s n;
  inv_fresh : forall n, v_new s n = true -> forall p, db n p = [];
  inv_ok : forall n p k tv, tlookup (t_nodes t) n p k = Some tv -> tsv_ok tv (al_get k (db n p));
  inv_fw_wf : nodes_wf (t_fw t);
  inv_fw_sorted : subs_sorted (t_fw t);
  inv_fw_get : forall n p k, fw_get (v_fw s) n p k = option_map tsv_get (tlookup (t_fw t) n p k);
  inv_fw_in : forall n p k tv, tlookup (t_fw t) n p k = Some tv ->
      v_new s n = false /\ tlookup (t_nodes t) n p k <> None /\ tsv_ok tv (al_get k (db n p));
  inv_del : t_del t = v_del s
}.

(* ---------- put_part / find_part ---------- *)
Lemma find_part_put_part : forall ns n p ps n' p',
  find_part (put_part ns n p ps) n' p' =
  if (n' =? n) && (p' =? p) then Some ps else find_part ns n' p'.
Proof.
  intros. unfold find_part, put_part. rewrite al_get_im_set.
  destruct (n' =? n) eqn:En; simpl.
  - apply N.eqb_eq in En; subst. rewrite al_get_im_set. destruct (p' =? p); [reflexivity|].
    unfold node_or_default. destruct (al_get n ns); reflexivity.
  - reflexivity.
Qed.
Lemma node_is_new_put_part : forall ns n p ps n',
  node_is_new (put_part ns n p ps) n' = node_is_new ns n'.
Proof.
  intros. unfold node_is_new, put_part. rewrite al_get_im_set.
  destruct (n' =? n) eqn:En; [|reflexivity]. apply N.eqb_eq in En; subst. simpl.
  unfold node_or_default. destruct (al_get n ns); reflexivity.
Qed.
Lemma nodes_wf_put_part : forall ns n p ps, nodes_wf ns -> nodes_wf (put_part ns n p ps).
Proof.
  intros ns n p ps [H1 H2]. unfold put_part. split.
  - apply im_set_nodup. exact H1.
  - intros n' nd. rewrite al_get_im_set. destruct (n' =? n) eqn:En.
    + intros E; inversion E; subst; simpl. apply im_set_nodup.
      unfold node_or_default. destruct (al_get n ns) eqn:G; [eapply H2; eauto|constructor].
    + apply H2.
Qed.
Lemma cur_part_find : forall ns n p,
  cur_part ns n p = match find_part ns n p with Some ps => ps | None => empty_part end.
Proof.
  intros. unfold cur_part, find_part, node_or_default, part_or_default.
  destruct (al_get n ns); reflexivity.
Qed.
Lemma nodes_wf_nil : nodes_wf [].
Proof. split; [constructor|intros; discriminate]. Qed.

Lemma tlookup_put_part : forall ns n p ps n' p' k',
  tlookup (put_part ns n p ps) n' p' k' =
  if (n' =? n) && (p' =? p) then al_get k' (ps_subs ps) else tlookup ns n' p' k'.
Proof. intros. unfold tlookup. rewrite find_part_put_part. destruct ((n' =? n) && (p' =? p)); reflexivity. Qed.

(* touching a partition (entry().or_insert().entry().or_default()) changes no lookup *)
Lemma tlookup_touch : forall ns n p n' p' k',
  tlookup (put_part ns n p (cur_part ns n p)) n' p' k' = tlookup ns n' p' k'.
Proof.
  intros. rewrite tlookup_put_part. destruct ((n' =? n) && (p' =? p)) eqn:E; [|reflexivity].
  apply andb_true_iff in E. destruct E as [E1 E2]. apply N.eqb_eq in E1, E2. subst.
  rewrite cur_part_find. unfold tlookup. destruct (find_part ns n p); reflexivity.
Qed.

(* the update of one tracked substate *)
Definition upd_sub (ns : nodes) (n p k : N) (tv : tsv) : nodes :=
  put_part ns n p (with_subs (cur_part ns n p) (sm_put k tv (ps_subs (cur_part ns n p)))).

Definition same3 (n p k n' p' k' : N) : bool := (n' =? n) && (p' =? p) && (k' =? k).

Lemma tlookup_upd_sub : forall ns n p k tv n' p' k',
  tlookup (upd_sub ns n p k tv) n' p' k' = if same3 n p k n' p' k' then Some tv else tlookup ns n' p' k'.
Proof.
  intros. unfold upd_sub, same3. rewrite tlookup_put_part. destruct ((n' =? n) && (p' =? p)) eqn:E; simpl; [|reflexivity].
  rewrite al_get_sm_put. destruct (k' =? k); [reflexivity|].
  apply andb_true_iff in E. destruct E as [E1 E2]. apply N.eqb_eq in E1, E2. subst.
  rewrite cur_part_find. unfold tlookup. destruct (find_part ns n p); reflexivity.
Qed.
Lemma subs_sorted_put_part : forall ns n p ps, subs_sorted ns -> sorted (ps_subs ps) -> subs_sorted (put_part ns n p ps).
Proof.
  intros ns n p ps H Hs n' p' ps'. rewrite find_part_put_part.
  destruct ((n' =? n) && (p' =? p)); [intros E; inversion E; subst; exact Hs|apply H].
Qed.
Lemma cur_part_sorted : forall ns n p, subs_sorted ns -> sorted (ps_subs (cur_part ns n p)).
Proof.
  intros. rewrite cur_part_find. destruct (find_part ns n p) eqn:E; [eapply H; eauto|simpl; trivial].
Qed.
Lemma subs_sorted_upd_sub : forall ns n p k tv, subs_sorted ns -> subs_sorted (upd_sub ns n p k tv).
Proof.
  intros. unfold upd_sub. apply subs_sorted_put_part; [assumption|]. simpl.
  apply sm_put_sorted. apply cur_part_sorted. assumption.
Qed.
Lemma node_is_new_upd_sub : forall ns n p k tv n', node_is_new (upd_sub ns n p k tv) n' = node_is_new ns n'.
Proof. intros. apply node_is_new_put_part. Qed.
Lemma nodes_wf_upd_sub : forall ns n p k tv, nodes_wf ns -> nodes_wf (upd_sub ns n p k tv).
Proof. intros. apply nodes_wf_put_part. assumption. Qed.

Lemma same3_true : forall n p k n' p' k', same3 n p k n' p' k' = true -> n' = n /\ p' = p /\ k' = k.
Proof.
  unfold same3. intros. apply andb_true_iff in H. destruct H as [H H3]. apply andb_true_iff in H. destruct H as [H1 H2].
  apply N.eqb_eq in H1, H2, H3. auto.
Qed.
Lemma same3_refl : forall n p k, same3 n p k n p k = true.
Proof. intros. unfold same3. rewrite !N.eqb_refl. reflexivity. Qed.

(* ---------- generic preservation: one substate of the track and of the view change together ---------- *)
Lemma inv_upd_sub : forall db t s n p k tv view',
  Inv db t s ->
  tsv_ok tv (al_get k (db n p)) ->
  (forall n' p', sorted (view' n' p')) ->
  (forall n' p' k', al_get k' (view' n' p') =
       if same3 n p k n' p' k' then tsv_get tv else al_get k' (v_view s n' p')) ->
  Inv db (set_nodes t (upd_sub (t_nodes t) n p k tv)) (mk_vstate view' (v_new s) (v_fw s) (v_del s)).
Proof.
  intros db t s n p k tv view' I Hok Hs Hv. destruct I.
  constructor; simpl; auto.
  - apply nodes_wf_upd_sub; assumption.
  - apply subs_sorted_upd_sub; assumption.
  - intros n' p' k'. rewrite Hv. unfold tview; simpl. rewrite tlookup_upd_sub.
    destruct (same3 n p k n' p' k'); [reflexivity|]. apply inv_view0.
  - intros n'. rewrite node_is_new_upd_sub. apply inv_new0.
  - intros n' p' k' tv'. rewrite tlookup_upd_sub. destruct (same3 n p k n' p' k') eqn:E.
    + apply same3_true in E. destruct E as [-> [-> ->]]. intros X; inversion X; subst. assumption.
    + apply inv_ok0.
  - intros n' p' k' tv' H. destruct (inv_fw_in0 _ _ _ _ H) as [H1 [H2 H3]]. split; [assumption|split; [|assumption]].
    rewrite tlookup_upd_sub. destruct (same3 n p k n' p' k'); [discriminate|assumption].
Qed.

(* touching only *)
Lemma inv_touch : forall db t s n p,
  Inv db t s -> Inv db (set_nodes t (put_part (t_nodes t) n p (cur_part (t_nodes t) n p))) s.
Proof.
  intros db t s n p I. destruct I. destruct s as [vw nw fw dl]. simpl in *.
  constructor; simpl; auto.
  - apply nodes_wf_put_part; assumption.
  - apply subs_sorted_put_part; [assumption|apply cur_part_sorted; assumption].
  - intros. rewrite inv_view0. unfold tview; simpl. rewrite tlookup_touch. reflexivity.
  - intros. rewrite node_is_new_put_part. apply inv_new0.
  - intros n' p' k' tv'. rewrite tlookup_touch. apply inv_ok0.
  - intros n' p' k' tv' H. destruct (inv_fw_in0 _ _ _ _ H) as [H1 [H2 H3]]. rewrite tlookup_touch. auto.
Qed.

(* changing only range_read of a partition *)
Lemma tlookup_put_rr : forall ns n p rr n' p' k',
  tlookup (put_part ns n p (mk_tpart (ps_subs (cur_part ns n p)) rr)) n' p' k' = tlookup ns n' p' k'.
Proof.
  intros. rewrite tlookup_put_part. destruct ((n' =? n) && (p' =? p)) eqn:E; [|reflexivity].
  apply andb_true_iff in E. destruct E as [E1 E2]. apply N.eqb_eq in E1, E2. subst. simpl.
  rewrite cur_part_find. unfold tlookup. destruct (find_part ns n p); reflexivity.
Qed.
Lemma inv_put_rr : forall db t s n p rr,
  Inv db t s -> Inv db (set_nodes t (put_part (t_nodes t) n p (mk_tpart (ps_subs (cur_part (t_nodes t) n p)) rr))) s.
Proof.
  intros db t s n p rr I. destruct I. destruct s as [vw nw fw dl]. simpl in *.
  constructor; simpl; auto.
  - apply nodes_wf_put_part; assumption.
  - apply subs_sorted_put_part; [assumption|simpl; apply cur_part_sorted; assumption].
  - intros. rewrite inv_view0. unfold tview; simpl. rewrite tlookup_put_rr. reflexivity.
  - intros. rewrite node_is_new_put_part. apply inv_new0.
  - intros n' p' k' tv'. rewrite tlookup_put_rr. apply inv_ok0.
  - intros n' p' k' tv' H. destruct (inv_fw_in0 _ _ _ _ H) as [H1 [H2 H3]]. rewrite tlookup_put_rr. auto.
Qed.

(* ---------- initial state ---------- *)
Lemma inv_init : forall db, db_wf db -> Inv db track_new (vinit db).
Proof.
  intros db H. constructor; simpl; auto using nodes_wf_nil; try (intros; discriminate);
    try (intros n p ps; unfold find_part; simpl; discriminate).
Qed.

(* ---------- get_tracked ---------- *)
Lemma al_get_cur_part : forall ns n p k, al_get k (ps_subs (cur_part ns n p)) = tlookup ns n p k.
Proof. intros. rewrite cur_part_find. unfold tlookup. destruct (find_part ns n p); reflexivity. Qed.

Lemma get_tracked_spec : forall db t s n p k t' tv evs,
  Inv db t s -> get_tracked db t n p k = (t', tv, evs) ->
  Inv db t' s /\ tlookup (t_nodes t') n p k = Some tv /\ tsv_get tv = al_get k (v_view s n p)
  /\ t_fw t' = t_fw t /\ t_del t' = t_del t.
Proof.
  intros db t s n p k t' tv evs I G. unfold get_tracked in G.
  rewrite al_get_cur_part in G. destruct (tlookup (t_nodes t) n p k) as [tv0|] eqn:L.
  - inversion G; subst; clear G. split; [apply inv_touch; assumption|]. simpl.
    rewrite tlookup_touch. split; [assumption|]. split; [|auto].
    rewrite (inv_view _ _ _ I). unfold tview. rewrite L. reflexivity.
  - assert (Hv : al_get k (v_view s n p) = al_get k (db n p)).
    { rewrite (inv_view _ _ _ I). unfold tview. rewrite L. reflexivity. }
    destruct (al_get k (db n p)) as [v|] eqn:B; inversion G; subst; clear G; simpl.
    + split; [|split; [|split; [|auto]]].
      * destruct s as [vw nw fw dl]. change (t_nodes t) with (t_nodes t).
        apply (inv_upd_sub db t (mk_vstate vw nw fw dl) n p k (TRoSome v) vw); auto.
        -- exact (inv_vsorted _ _ _ I).
        -- intros n' p' k'. destruct (same3 n p k n' p' k') eqn:E; [|reflexivity].
           apply same3_true in E. destruct E as [-> [-> ->]]. simpl in Hv. rewrite Hv. reflexivity.
      * fold (upd_sub (t_nodes t) n p k (TRoSome v)). rewrite tlookup_upd_sub, same3_refl. reflexivity.
      * simpl. congruence.
    + split; [|split; [|split; [|auto]]].
      * destruct s as [vw nw fw dl].
        apply (inv_upd_sub db t (mk_vstate vw nw fw dl) n p k TRoNone vw); auto.
        -- exact (inv_vsorted _ _ _ I).
        -- intros n' p' k'. destruct (same3 n p k n' p' k') eqn:E; [|reflexivity].
           apply same3_true in E. destruct E as [-> [-> ->]]. simpl in Hv. rewrite Hv. reflexivity.
      * fold (upd_sub (t_nodes t) n p k TRoNone). rewrite tlookup_upd_sub, same3_refl. reflexivity.
      * simpl. congruence.
Qed.

(* ---------- TrackedSubstateValue facts ---------- *)
Lemma tsv_set_get : forall tv v, tsv_get (tsv_set tv v) = Some v.
Proof. destruct tv; reflexivity. Qed.
Lemma tsv_set_ok : forall tv v b, tsv_ok tv b -> tsv_ok (tsv_set tv v) b.
Proof. destruct tv; simpl; auto. Qed.
Lemma tsv_take_get : forall tv, tsv_get (fst (tsv_take tv)) = None /\ snd (tsv_take tv) = tsv_get tv.
Proof. destruct tv as [| | |? w| |w|]; try destruct w; simpl; auto. Qed.
Lemma tsv_take_ok : forall tv b, tsv_ok tv b -> tsv_ok (fst (tsv_take tv)) b.
Proof. destruct tv; simpl; auto. Qed.

(* the view with one key changed *)
Lemma upd2_view_put : forall (vw : N -> N -> list (key * value)) n p k v n' p' k',
  al_get k' (upd2 vw n p (sm_put k v (vw n p)) n' p') =
  if same3 n p k n' p' k' then Some v else al_get k' (vw n' p').
Proof.
  intros. unfold upd2, same3. destruct ((n' =? n) && (p' =? p)) eqn:E; simpl; [|reflexivity].
  apply andb_true_iff in E. destruct E as [E1 E2]. apply N.eqb_eq in E1, E2. subst.
  rewrite al_get_sm_put. reflexivity.
Qed.
Lemma upd2_view_del : forall (vw : N -> N -> list (key * value)) n p k n' p' k',
  sorted (vw n p) ->
  al_get k' (upd2 vw n p (sm_del k (vw n p)) n' p') =
  if same3 n p k n' p' k' then None else al_get k' (vw n' p').
Proof.
  intros. unfold upd2, same3. destruct ((n' =? n) && (p' =? p)) eqn:E; simpl; [|reflexivity].
  apply andb_true_iff in E. destruct E as [E1 E2]. apply N.eqb_eq in E1, E2. subst.
  rewrite al_get_sm_del by assumption. reflexivity.
Qed.
Lemma upd2_sorted : forall (vw : N -> N -> list (key * value)) n p l,
  (forall n' p', sorted (vw n' p')) -> sorted l -> forall n' p', sorted (upd2 vw n p l n' p').
Proof. intros. unfold upd2. destruct ((n' =? n) && (p' =? p)); auto. Qed.

(* ---------- step lemmas: get / set / remove ---------- *)
Lemma step_get : forall db t s n p k t' r evs,
  Inv db t s -> get_substate db t n p k = (t', r, evs) ->
  r = al_get k (v_view s n p) /\ Inv db t' s.
Proof.
  intros db t s n p k t' r evs I G. unfold get_substate in G.
  destruct (get_tracked db t n p k) as [[t1 tv] ev] eqn:GT. inversion G; subst; clear G.
  destruct (get_tracked_spec _ _ _ _ _ _ _ _ _ I GT) as [I' [_ [Hg _]]]. auto.
Qed.

Lemma step_set : forall db t s n p k v t' evs,
  Inv db t s -> set_substate t n p k v = (t', evs) ->
  Inv db t' (spec_next db s (OSet n p k v) RUnit).
Proof.
  intros db t s n p k v t' evs I G. unfold set_substate in G. rewrite al_get_cur_part in G. simpl.
  destruct (tlookup (t_nodes t) n p k) as [tv0|] eqn:L; inversion G; subst; clear G.
  - fold (upd_sub (t_nodes t) n p k (tsv_set tv0 v)). apply inv_upd_sub; auto.
    + apply tsv_set_ok. eapply inv_ok; eauto.
    + apply upd2_sorted; [apply (inv_vsorted _ _ _ I)|apply sm_put_sorted; apply (inv_vsorted _ _ _ I)].
    + intros. rewrite upd2_view_put, tsv_set_get. reflexivity.
  - fold (upd_sub (t_nodes t) n p k (TWo (WUpdate v))). apply inv_upd_sub; simpl; auto.
    + apply upd2_sorted; [apply (inv_vsorted _ _ _ I)|apply sm_put_sorted; apply (inv_vsorted _ _ _ I)].
    + intros. rewrite upd2_view_put. reflexivity.
Qed.

Lemma step_remove : forall db t s n p k t' r evs,
  Inv db t s -> remove_substate db t n p k = (t', r, evs) ->
  r = al_get k (v_view s n p) /\ Inv db t' (spec_next db s (ORemove n p k) (ROpt r)).
Proof.
  intros db t s n p k t' r evs I G. unfold remove_substate in G.
  destruct (get_tracked db t n p k) as [[t1 tv] ev] eqn:GT.
  destruct (get_tracked_spec _ _ _ _ _ _ _ _ _ I GT) as [I1 [L [Hg [Hf Hd]]]].
  pose proof (tsv_take_get tv) as [T1 T2]. destruct (tsv_take tv) as [tv' taken] eqn:TT. simpl in T1, T2.
  inversion G; subst; clear G. split; [congruence|]. simpl.
  fold (upd_sub (t_nodes t1) n p k tv'). apply inv_upd_sub; auto.
  - pose proof (tsv_take_ok tv _ (inv_ok _ _ _ I1 _ _ _ _ L)) as X. rewrite TT in X. exact X.
  - apply upd2_sorted; [apply (inv_vsorted _ _ _ I1)|apply sm_del_sorted; apply (inv_vsorted _ _ _ I1)].
  - intros. rewrite upd2_view_del by apply (inv_vsorted _ _ _ I1). rewrite T1. reflexivity.
Qed.
