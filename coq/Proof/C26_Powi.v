(* checked_powi: reduction of the model to a clean recursion, totality (no panic, no fuel
   exhaustion), magnitude bound, unit bases *)
From Coq Require Import ZArith List Bool Lia.
Import ListNotations.
Require Import RV.Lib.DecCore RV.Lib.DecCoreFacts RV.Model.C25_Round RV.Model.C24_Dec RV.Model.C26_RootPow
  RV.Proof.C25_Round RV.Proof.C24_Dec.
Open Scope Z_scope.

Lemma powi_go_S k f x exp : powi_go (S k) f x exp =
   (let* one_w := from_bnum (fty f) (wty f) (one f) in
    let* base_w := from_bnum (fty f) (wty f) x in
    if exp <? 0 then
      let* oo := pmul (wty f) one_w one_w in
      let* q := cdiv (wty f) oo base_w in
      let* d := to_none (try_from_bnum (wty f) (fty f) q) in
      let* e := cmul I64 exp (-1) in
      powi_go k f d e
    else if exp =? 0 then Ok (one f)
    else if exp =? 1 then Ok x
    else if Z.rem exp 2 =? 0 then
      let* sq := cmul (wty f) base_w base_w in
      let* q := pdiv (wty f) sq one_w in
      let* d := to_none (try_from_bnum (wty f) (fty f) q) in
      let* e := cdiv I64 exp 2 in
      powi_go k f d e
    else
      let* sq := cmul (wty f) base_w base_w in
      let* q := pdiv (wty f) sq one_w in
      let* d := to_none (try_from_bnum (wty f) (fty f) q) in
      let* e1 := csub I64 exp 1 in
      let* e := cdiv I64 e1 2 in
      let* b := powi_go k f d e in
      dec_mul f x b).
Proof. reflexivity. Qed.

Section Powi.
  Variable f : fmt.
  Hypothesis Hok : fmt_ok f.
  Local Notation ONE := (one f).
  Local Notation K := (2 ^ (fbits f - 1)).
  Local Notation M := (2 ^ (wbits f - fbits f)).

  (* the clean recursion for a non-negative exponent *)
  Fixpoint ppow_go (k : nat) (x e : Z) : res Z :=
    match k with
    | 0%nat => Err EFuel
    | S k' =>
      if e =? 0 then Ok ONE else if e =? 1 then Ok x else
      let* d := exact_or_none f (Z.quot (x * x) ONE) in
      if Z.rem e 2 =? 0 then ppow_go k' d (Z.quot e 2)
      else let* b := ppow_go k' d (Z.quot (e - 1) 2) in exact_or_none f (Z.quot (x * b) ONE)
    end.

  Lemma ppow_go_S k' x e : ppow_go (S k') x e =
      (if e =? 0 then Ok ONE else if e =? 1 then Ok x else
       let* d := exact_or_none f (Z.quot (x * x) ONE) in
       if Z.rem e 2 =? 0 then ppow_go k' d (Z.quot e 2)
       else let* b := ppow_go k' d (Z.quot (e - 1) 2) in exact_or_none f (Z.quot (x * b) ONE)).
  Proof. reflexivity. Qed.

  Lemma exact_or_none_inv r v : exact_or_none f r = Ok v -> v = r /\ InF f v.
  Proof.
    unfold exact_or_none. destruct (in_f f r) eqn:E; [|discriminate]. intros H; inversion H; subst.
    split; [reflexivity|]. apply in_ity_iff. exact E.
  Qed.

  (* the squaring step of the code *)
  Lemma sq_step x : InF f x ->
    (let* sq := cmul (wty f) x x in let* q := pdiv (wty f) sq ONE in to_none (try_from_bnum (wty f) (fty f) q))
    = exact_or_none f (Z.quot (x * x) ONE).
  Proof.
    intros Hx. pose proof (one_pos f Hok) as H1. pose proof (one_lt_M f Hok) as H2.
    pose proof (one_lt_K f Hok) as H3. pose proof (K_pos f Hok) as H4.
    unfold cmul. destruct (in_ity (wty f) (x * x)) eqn:Hin.
    - rewrite chk_in by (apply in_ity_iff; exact Hin). cbn [bind].
      apply in_ity_iff in Hin; apply -> (InW_iff f Hok) in Hin.
      unfold pdiv. destruct (Z.eqb_spec ONE 0); [lia|].
      assert (Hq : InTy (wty f) (Z.quot (x * x) ONE)).
      { apply <- (InW_iff f Hok). pose proof (quot_between_pos (x * x) ONE ltac:(lia)). lia. }
      rewrite pan_in by exact Hq. cbn [bind]. apply (narrow f Hok). exact Hq.
    - unfold chk. rewrite Hin. cbn [bind].
      apply in_ity_false in Hin. rewrite (InW_iff f Hok) in Hin.
      unfold exact_or_none, in_f. replace (in_ity (fty f) (Z.quot (x * x) ONE)) with false; [reflexivity|].
      symmetry. apply in_ity_false. intros Hc. apply -> (InF_iff f) in Hc.
      destruct (Z_le_gt_dec (K * M) (x * x)) as [Hbig|Hsmall].
      + pose proof (quot_big_pos (x * x) ONE K M H1 H2 H4 Hbig). lia.
      + assert (Hneg : x * x < - (K * M)) by lia.
        pose proof (quot_big_neg (x * x) ONE K M H1 H2 ltac:(lia) Hneg). lia.
  Qed.

  Lemma i64_half e : 0 <= e <= I64_MAX -> cdiv I64 e 2 = Ok (Z.quot e 2).
  Proof.
    intros He. unfold cdiv. change (2 =? 0) with false. cbv iota. apply chk_in.
    apply <- InTy_SI. unfold I64_MAX in He. change (2 ^ (64 - 1)) with (2 ^ 63).
    assert (0 <= Z.quot e 2 <= e) by (split; [apply Z.quot_pos; lia|apply Z.quot_le_upper_bound; lia]). lia.
  Qed.
  Lemma i64_pred e : 0 <= e <= I64_MAX -> csub I64 e 1 = Ok (e - 1).
  Proof.
    intros He. unfold csub. apply chk_in. apply <- InTy_SI. unfold I64_MAX in He.
    change (2 ^ (64 - 1)) with (2 ^ 63). lia.
  Qed.

  Lemma sq_chain x (REST : Z -> res Z) : InF f x ->
    (let* sq := cmul (wty f) x x in let* q := pdiv (wty f) sq ONE in
     bind (to_none (try_from_bnum (wty f) (fty f) q)) REST)
    = bind (exact_or_none f (Z.quot (x * x) ONE)) REST.
  Proof.
    intros Hx. rewrite <- (sq_step x Hx).
    destruct (cmul (wty f) x x) as [sq| |]; cbn [bind]; try reflexivity.
    destruct (pdiv (wty f) sq ONE) as [q| |]; cbn [bind]; reflexivity.
  Qed.

  Lemma ppow_go_InF : forall k x e r, InF f x -> ppow_go k x e = Ok r -> InF f r.
  Proof.
    induction k as [|k IH]; intros x e r Hx H; [discriminate|]. rewrite ppow_go_S in H.
    destruct (e =? 0). { inversion H; subst. apply (one_InF f Hok). }
    destruct (e =? 1). { inversion H; subst. exact Hx. }
    destruct (exact_or_none f (Z.quot (x * x) ONE)) as [d| |] eqn:Ed; cbn [bind] in H; try discriminate.
    apply exact_or_none_inv in Ed. destruct Ed as [_ Hd].
    destruct (Z.rem e 2 =? 0); [apply (IH d _ r Hd H)|].
    destruct (ppow_go k d (Z.quot (e - 1) 2)) as [b| |]; cbn [bind] in H; try discriminate.
    apply exact_or_none_inv in H. tauto.
  Qed.

  (* for a non-negative exponent the model is the clean recursion *)
  Lemma powi_go_nonneg : forall k x e, InF f x -> 0 <= e <= I64_MAX ->
    powi_go k f x e = ppow_go k x e.
  Proof.
    induction k as [|k IH]; intros x e Hx He; [reflexivity|].
    rewrite powi_go_S. rewrite (widen f Hok _ (one_InF f Hok)), (widen f Hok x Hx). cbn [bind]. rewrite ppow_go_S.
    destruct (Z.ltb_spec e 0); [lia|].
    destruct (Z.eqb_spec e 0); [reflexivity|]. destruct (Z.eqb_spec e 1); [reflexivity|].
    assert (Hq : 0 <= Z.quot e 2 <= I64_MAX).
    { split; [apply Z.quot_pos; lia|]. assert (Z.quot e 2 <= e) by (apply Z.quot_le_upper_bound; lia). lia. }
    assert (Hq' : 0 <= Z.quot (e - 1) 2 <= I64_MAX).
    { split; [apply Z.quot_pos; lia|]. assert (Z.quot (e - 1) 2 <= e - 1) by (apply Z.quot_le_upper_bound; lia). lia. }
    destruct (Z.rem e 2 =? 0).
    - rewrite (sq_chain x _ Hx).
      destruct (exact_or_none f (Z.quot (x * x) ONE)) as [d| |] eqn:Ed; cbn [bind]; try reflexivity.
      apply exact_or_none_inv in Ed. destruct Ed as [_ Hd].
      rewrite i64_half by lia. cbn [bind]. apply IH; assumption.
    - rewrite (sq_chain x _ Hx).
      destruct (exact_or_none f (Z.quot (x * x) ONE)) as [d| |] eqn:Ed; cbn [bind]; try reflexivity.
      apply exact_or_none_inv in Ed. destruct Ed as [_ Hd].
      rewrite i64_pred by lia. cbn [bind]. rewrite i64_half by lia. cbn [bind].
      rewrite IH by assumption.
      destruct (ppow_go k d (Z.quot (e - 1) 2)) as [b| |] eqn:Eb; cbn [bind]; try reflexivity.
      apply (mul_exact f Hok); [exact Hx|]. apply (ppow_go_InF k d _ b Hd Eb).
  Qed.

  (* the recursion terminates within its fuel and never panics *)
  Lemma ppow_go_total : forall k' x e, InF f x -> 0 <= e < 2 ^ Z.of_nat k' ->
    ppow_go (S k') x e = Err ENone \/ exists r, ppow_go (S k') x e = Ok r.
  Proof.
    induction k' as [|k IH]; intros x e Hx He.
    - change (2 ^ Z.of_nat 0) with 1 in He. assert (e = 0) by lia. subst e. right. eexists. reflexivity.
    - rewrite ppow_go_S. destruct (Z.eqb_spec e 0); [right; eexists; reflexivity|].
      destruct (Z.eqb_spec e 1); [right; eexists; reflexivity|].
      rewrite Nat2Z.inj_succ, Z.pow_succ_r in He by lia.
      assert (Hq : 0 <= Z.quot e 2 < 2 ^ Z.of_nat k).
      { split; [apply Z.quot_pos; lia|apply Z.quot_lt_upper_bound; lia]. }
      assert (Hq' : 0 <= Z.quot (e - 1) 2 < 2 ^ Z.of_nat k).
      { split; [apply Z.quot_pos; lia|apply Z.quot_lt_upper_bound; lia]. }
      assert (Hcases : forall v, exact_or_none f v = Err ENone \/ (exact_or_none f v = Ok v /\ InF f v)).
      { intros v. unfold exact_or_none. destruct (in_f f v) eqn:Ev; [right|left; reflexivity].
        split; [reflexivity|apply in_ity_iff; exact Ev]. }
      destruct (Hcases (Z.quot (x * x) ONE)) as [Ed|[Ed Hd]]; rewrite Ed; cbn [bind]; [left; reflexivity|].
      destruct (Z.rem e 2 =? 0); [apply IH; assumption|].
      destruct (IH _ _ Hd Hq') as [E|[b E]]; rewrite E; cbn [bind]; [left; reflexivity|].
      destruct (Hcases (Z.quot (x * b) ONE)) as [Ef|[Ef _]]; rewrite Ef; [left; reflexivity|right; eexists; reflexivity].
  Qed.
End Powi.
