(* C40 — proofs about the access controller model. *)
From Coq Require Import List NArith ZArith Bool String Lia.
Import ListNotations.
Require Import RV.Model.C40_AccessController.
Open Scope Z_scope.

(* ------------------------------------------------------------------------------------------ *)
(* What the theorems need from the generated table (decidable; discharged by vm_compute in Props) *)

(* method `name`, if it exists, is not public and every controller role that admits to it is in `allowed` *)
Definition check_roles (t : table) (name : string) (allowed : list role) : bool :=
  match lookup name (t_methods t) with
  | None => true
  | Some (pub, rs) =>
      negb pub && forallb (fun r => implb (mem_str (role_name r) rs) (existsb (role_eqb r) allowed)) all_roles
  end.
(* no controller role may update a role's rule through the role-assignment module *)
Definition check_updaters (t : table) : bool :=
  forallb (fun r => match lookup (role_name r) (t_updaters t) with
                    | Some ups => forallb (fun r' => negb (mem_str (role_name r') ups)) all_roles
                    | None => true end) all_roles.
Definition other_roles (pr : proposer) : list role :=
  match pr with PPrimary => [Recovery; Confirmation] | PRecovery => [Primary; Confirmation] end.
Definition table_ok (t : table) : bool :=
  check_roles t (meth_name (MInitRec PPrimary {| p_rules := deny_all_rules; p_delay := None |})) [Primary]
  && check_roles t (meth_name (MInitRec PRecovery {| p_rules := deny_all_rules; p_delay := None |})) [Recovery]
  && check_roles t (meth_name (MInitWd PPrimary)) [Primary]
  && check_roles t (meth_name (MInitWd PRecovery)) [Recovery]
  && check_roles t (meth_name (MQuickRec PPrimary {| p_rules := deny_all_rules; p_delay := None |})) (other_roles PPrimary)
  && check_roles t (meth_name (MQuickRec PRecovery {| p_rules := deny_all_rules; p_delay := None |})) (other_roles PRecovery)
  && check_roles t (meth_name (MQuickWd PPrimary)) (other_roles PPrimary)
  && check_roles t (meth_name (MQuickWd PRecovery)) (other_roles PRecovery)
  && check_updaters t.

(* ------------------------------------------------------------------------------------------ *)
(* basic facts *)

Lemma rule_eqb_eq : forall a b, rule_eqb a b = true -> a = b.
Proof.
  intros a b. destruct a as [| |x], b as [| |y]; cbn; intros H; try discriminate; auto.
  apply N.eqb_eq in H. subst. reflexivity.
Qed.
Lemma ruleset_eqb_eq : forall a b, ruleset_eqb a b = true -> a = b.
Proof.
  intros [a1 a2 a3] [b1 b2 b3]. unfold ruleset_eqb. cbn. intros H.
  apply andb_prop in H. destruct H as [H H3]. apply andb_prop in H. destruct H as [H1 H2].
  apply rule_eqb_eq in H1, H2, H3. subst. reflexivity.
Qed.
Lemma optN_eqb_eq : forall a b, optN_eqb a b = true -> a = b.
Proof.
  intros a b. destruct a as [x|], b as [y|]; cbn; intros H; try discriminate; auto. apply N.eqb_eq in H. subst. reflexivity.
Qed.
Lemma proposal_eqb_eq : forall a b, proposal_eqb a b = true -> a = b.
Proof.
  intros [ra da] [rb db]. unfold proposal_eqb. cbn. intros H. apply andb_prop in H. destruct H as [H1 H2].
  apply ruleset_eqb_eq in H1. apply optN_eqb_eq in H2. subst. reflexivity.
Qed.
Lemma role_eqb_eq : forall a b, role_eqb a b = true -> a = b.
Proof. destruct a, b; cbn; intros; try discriminate; reflexivity. Qed.

Lemma sat_roles_in : forall names rs who r,
  In r (sat_roles names rs who) -> mem_str (role_name r) names = true /\ rule_sat (role_rule rs r) who = true.
Proof.
  unfold sat_roles. intros names rs who r H. apply filter_In in H. destruct H as [_ H].
  apply andb_prop in H. exact H.
Qed.
Lemma nonempty_in : forall A (l : list A), match l with [] => false | _ => true end = true -> exists x, In x l.
Proof. destruct l; intros H; [discriminate|]. eexists. left. reflexivity. Qed.

(* who is admitted to a role-protected method satisfies the current rule of one of the listed roles *)
Lemma admitted_roles : forall t name allowed acc rs who,
  check_roles t name allowed = true -> lookup name (t_methods t) = Some acc -> admitted acc rs who = true ->
  exists r, In r allowed /\ mem_str (role_name r) (snd acc) = true /\ rule_sat (role_rule rs r) who = true.
Proof.
  intros t name allowed [pub names] rs who Hc Hl Ha. unfold check_roles in Hc. rewrite Hl in Hc.
  apply andb_prop in Hc. destruct Hc as [Hp Hf]. apply negb_true_iff in Hp. subst pub.
  unfold admitted in Ha. cbn in Ha. apply nonempty_in in Ha. destruct Ha as [r Hr].
  apply sat_roles_in in Hr. destruct Hr as [Hm Hs]. exists r. cbn. repeat split; auto.
  rewrite forallb_forall in Hf. assert (Hin : In r all_roles) by (destruct r; cbn; auto).
  specialize (Hf r Hin). rewrite Hm in Hf. cbn in Hf. apply existsb_exists in Hf.
  destruct Hf as [r' [Hin' He]]. apply role_eqb_eq in He. subst. exact Hin'.
Qed.

Lemma direct_update_never : forall t r rs who,
  check_updaters t = true -> direct_update_admitted t r rs who = false.
Proof.
  intros t r rs who Hc. unfold direct_update_admitted. unfold check_updaters in Hc.
  rewrite forallb_forall in Hc. assert (Hin : In r all_roles) by (destruct r; cbn; auto).
  specialize (Hc r Hin). destruct (lookup (role_name r) (t_updaters t)) as [ups|]; [|reflexivity].
  destruct (sat_roles ups rs who) as [|x l] eqn:E; [reflexivity|].
  assert (Hx : In x (sat_roles ups rs who)) by (rewrite E; left; reflexivity).
  apply sat_roles_in in Hx. destruct Hx as [Hm _]. rewrite forallb_forall in Hc.
  assert (Hin' : In x all_roles) by (destruct x; cbn; auto). specialize (Hc x Hin').
  rewrite Hm in Hc. discriminate.
Qed.

(* the three role updates of update_role_assignment amount to replacing the rule set *)
Lemma update_role_assignment_eq : forall t cur new,
  update_role_assignment t cur new = if self_can_update t then Some new else None.
Proof.
  intros t cur new. unfold update_role_assignment, self_can_update, self_updates. cbn [forallb all_roles].
  destruct (lookup (role_name Primary) (t_updaters t)) as [u1|];
    destruct (lookup (role_name Recovery) (t_updaters t)) as [u2|];
    destruct (lookup (role_name Confirmation) (t_updaters t)) as [u3|];
    try destruct (mem_str (t_self t) u1); try destruct (mem_str (t_self t) u2); try destruct (mem_str (t_self t) u3);
    cbn; try reflexivity; destruct cur, new; reflexivity.
Qed.
Lemma confirm_rules_eq : forall t c rs,
  confirm_rules t c rs = if self_can_update t then (set_roles (set_st c st_default) rs, Ok) else (c, Fail EUnauthorized).
Proof. intros. unfold confirm_rules. rewrite update_role_assignment_eq. destruct (self_can_update t); reflexivity. Qed.
Lemma confirm_withdraw_eq : forall t c,
  confirm_withdraw t c = if self_can_update t then (set_badge (set_roles (set_st c st_default) deny_all_rules) false, Ok)
                         else (c, Fail EUnauthorized).
Proof. intros. unfold confirm_withdraw. rewrite update_role_assignment_eq. destruct (self_can_update t); reflexivity. Qed.

(* ------------------------------------------------------------------------------------------ *)
(* history predicates *)

Definition stored (pr : proposer) (s : acstate) : option proposal :=
  match pr with
  | PPrimary => s_prim_rec s
  | PRecovery => match s_rec_rec s with RecNone => None | RecUntimed p | RecTimed p _ => Some p end
  end.
Definition stored_wd (pr : proposer) (s : acstate) : bool :=
  match pr with PPrimary => s_prim_wd s | PRecovery => s_rec_wd s end.

(* an earlier successful initiate_recovery_as_<pr>(p) by a caller satisfying, at that time, the
   rule of role <pr> *)
Definition Proposed (hist : list entry) (pr : proposer) (p : proposal) : Prop :=
  exists h, In h hist /\ h_out h = Ok /\ e_meth (h_ev h) = MInitRec pr p /\
            rule_sat (role_rule (c_roles (h_before h)) (role_of pr)) (e_who (h_ev h)) = true.
Definition ProposedWd (hist : list entry) (pr : proposer) : Prop :=
  exists h, In h hist /\ h_out h = Ok /\ e_meth (h_ev h) = MInitWd pr /\
            rule_sat (role_rule (c_roles (h_before h)) (role_of pr)) (e_who (h_ev h)) = true.
(* ... by the recovery role at minute e_now on a controller with configured delay d, which makes
   allowed_after = (e_now + d) minutes, in seconds *)
Definition ProposedTimed (hist : list entry) (p : proposal) (after : Z) : Prop :=
  exists h d, In h hist /\ h_out h = Ok /\ e_meth (h_ev h) = MInitRec PRecovery p /\
              rule_sat (role_rule (c_roles (h_before h)) Recovery) (e_who (h_ev h)) = true /\
              c_delay (h_before h) = Some d /\ after = e_now (h_ev h) * 60 + Z.of_N d * 60.

Definition changed (c c' : controller) : Prop :=
  c_roles c' <> c_roles c \/ (c_badge c = true /\ c_badge c' = false).

Definition confirmer (t : table) (name : string) (r : role) : Prop :=
  exists acc, lookup name (t_methods t) = Some acc /\ fst acc = false /\ mem_str (role_name r) (snd acc) = true.

Inductive Justified (t : table) (hist : list entry) (c : controller) (e : event) (c' : controller) : Prop :=
  | J_quick_rec (pr : proposer) (p : proposal) (r : role) :
      e_meth e = MQuickRec pr p -> stored pr (c_st c) = Some p -> Proposed hist pr p ->
      r <> role_of pr -> In r (other_roles pr) -> confirmer t (meth_name (e_meth e)) r ->
      rule_sat (role_rule (c_roles c) r) (e_who e) = true ->
      c_roles c' = p_rules p -> c_badge c' = c_badge c -> Justified t hist c e c'
  | J_quick_wd (pr : proposer) (r : role) :
      e_meth e = MQuickWd pr -> stored_wd pr (c_st c) = true -> ProposedWd hist pr ->
      r <> role_of pr -> In r (other_roles pr) -> confirmer t (meth_name (e_meth e)) r ->
      rule_sat (role_rule (c_roles c) r) (e_who e) = true ->
      c_roles c' = deny_all_rules -> c_badge c' = false -> Justified t hist c e c'
  | J_timed (p : proposal) (after : Z) :
      e_meth e = MTimedConfirm p -> s_rec_rec (c_st c) = RecTimed p after -> ProposedTimed hist p after ->
      time_elapsed (e_now e) after = true ->
      c_roles c' = p_rules p -> c_badge c' = c_badge c -> Justified t hist c e c'.

(* the invariant tying the stored attempts to the history *)
Record Inv (hist : list entry) (c : controller) : Prop := {
  inv_rec : forall pr p, stored pr (c_st c) = Some p -> Proposed hist pr p;
  inv_wd : forall pr, stored_wd pr (c_st c) = true -> ProposedWd hist pr;
  inv_timed : forall p a, s_rec_rec (c_st c) = RecTimed p a -> ProposedTimed hist p a
}.

Lemma Proposed_mono : forall hist x pr p, Proposed hist pr p -> Proposed (hist ++ [x]) pr p.
Proof. intros hist x pr p [h [Hi H]]. exists h. split; [apply in_or_app; auto|exact H]. Qed.
Lemma ProposedWd_mono : forall hist x pr, ProposedWd hist pr -> ProposedWd (hist ++ [x]) pr.
Proof. intros hist x pr [h [Hi H]]. exists h. split; [apply in_or_app; auto|exact H]. Qed.
Lemma ProposedTimed_mono : forall hist x p a, ProposedTimed hist p a -> ProposedTimed (hist ++ [x]) p a.
Proof. intros hist x p a [h [d [Hi H]]]. exists h, d. split; [apply in_or_app; auto|exact H]. Qed.

Lemma Inv_mono : forall hist x c, Inv hist c -> Inv (hist ++ [x]) c.
Proof.
  intros hist x c [H1 H2 H3]. constructor; intros.
  - apply Proposed_mono; auto.
  - apply ProposedWd_mono; auto.
  - apply ProposedTimed_mono; auto.
Qed.

Lemma Inv_create : forall rs d, Inv [] (create rs d).
Proof.
  intros rs d. constructor.
  - intros [|] p H; cbn in H; discriminate.
  - intros [|] H; cbn in H; discriminate.
  - intros p a H; cbn in H; discriminate.
Qed.

Definition mk_entry (t : table) (c : controller) (e : event) : entry :=
  {| h_before := c; h_ev := e; h_after := fst (do_event t c e); h_out := snd (do_event t c e) |}.

(* the state after a reset *)
Lemma Inv_default : forall hist c, c_st c = st_default -> Inv hist c.
Proof.
  intros hist c H. constructor; rewrite H.
  - intros [|] p H'; cbn in H'; discriminate.
  - intros [|] H'; cbn in H'; discriminate.
  - intros p a H'; cbn in H'; discriminate.
Qed.

Lemma Inv_st : forall hist c c', c_st c' = c_st c -> Inv hist c -> Inv hist c'.
Proof. intros hist c c' H [I1 I2 I3]. constructor; rewrite H; auto. Qed.

Ltac inv_pair H := inversion H; subst; clear H.

(* add_minutes on the current time *)
Lemma add_minutes_val : forall s m r, add_minutes s m = Some r -> r = s + m * 60.
Proof.
  unfold add_minutes. intros s m r H. destruct (in_i64 (m * 60)); [|discriminate].
  destruct (in_i64 (s + m * 60)); [|discriminate]. inversion H. reflexivity.
Qed.

Section WithTable.
Variable t : table.
Hypothesis Hok : table_ok t = true.

Lemma tok_parts :
  check_roles t "initiate_recovery_as_primary" [Primary] = true /\
  check_roles t "initiate_recovery_as_recovery" [Recovery] = true /\
  check_roles t "initiate_badge_withdraw_attempt_as_primary" [Primary] = true /\
  check_roles t "initiate_badge_withdraw_attempt_as_recovery" [Recovery] = true /\
  check_roles t "quick_confirm_primary_role_recovery_proposal" [Recovery; Confirmation] = true /\
  check_roles t "quick_confirm_recovery_role_recovery_proposal" [Primary; Confirmation] = true /\
  check_roles t "quick_confirm_primary_role_badge_withdraw_attempt" [Recovery; Confirmation] = true /\
  check_roles t "quick_confirm_recovery_role_badge_withdraw_attempt" [Primary; Confirmation] = true /\
  check_updaters t = true.
Proof.
  pose proof Hok as K. unfold table_ok in K. cbn [meth_name other_roles] in K.
  repeat (apply andb_prop in K; let H := fresh "H" in destruct K as [K H]).
  repeat split; assumption.
Qed.

(* One step: the invariant is preserved and any change of rules/badge is justified. `e` is the
   event, hist the history before it. *)
Lemma step_sound : forall hist c e,
  Inv hist c ->
  Inv (hist ++ [mk_entry t c e]) (fst (do_event t c e)) /\
  (changed c (fst (do_event t c e)) -> Justified t hist c e (fst (do_event t c e))).
Proof.
  intros hist c e HI.
  destruct tok_parts as (Tip & Tir & Twp & Twr & Tqp & Tqr & Tqwp & Tqwr & Tup).
  set (x := mk_entry t c e).
  assert (Hsame : Inv (hist ++ [x]) c) by (apply Inv_mono; exact HI).
  assert (Hnochange : forall c', c_roles c' = c_roles c -> c_badge c' = c_badge c -> ~ changed c c').
  { intros c' Hr Hb [H | [H1 H2]]; [congruence|]. rewrite Hb in H2. congruence. }
  (* entry x is in the extended history, with these projections *)
  assert (Hx_in : In x (hist ++ [x])) by (apply in_or_app; right; left; reflexivity).
  destruct e as [who now m].
  unfold do_event in *. cbn [e_who e_now e_meth] in *.
  destruct m as [ | pr p | pr | pr q | pr | q | pr | pr | | | q | ids | amt | amt | amt | r nr | bid ].
  - (* create_proof *)
    unfold step. cbn [meth_name]. destruct (lookup _ (t_methods t)) as [acc|]; cbn; [|split; [exact Hsame|intro H; exfalso; revert H; apply Hnochange; auto]].
    destruct (admitted acc (c_roles c) who); cbn; [|split; [exact Hsame|intro H; exfalso; revert H; apply Hnochange; auto]].
    unfold body. destruct (s_locked (c_st c)); [|destruct (c_badge c) eqn:Eb]; cbn;
      (split; [exact Hsame|intro H; exfalso; revert H; apply Hnochange; auto]).
  - (* initiate_recovery *)
    unfold step.
    assert (Hname : meth_name (MInitRec pr p) = match pr with PPrimary => "initiate_recovery_as_primary" | PRecovery => "initiate_recovery_as_recovery" end%string) by (destruct pr; reflexivity).
    destruct (lookup (meth_name (MInitRec pr p)) (t_methods t)) as [acc|] eqn:El; cbn;
      [|split; [exact Hsame|intro H; exfalso; revert H; apply Hnochange; auto]].
    destruct (admitted acc (c_roles c) who) eqn:Ea; cbn;
      [|split; [exact Hsame|intro H; exfalso; revert H; apply Hnochange; auto]].
    assert (Hsat : rule_sat (role_rule (c_roles c) (role_of pr)) who = true).
    { destruct pr; cbn [role_of].
      - destruct (admitted_roles _ _ _ _ _ _ Tip El Ea) as [r [Hin [_ Hs]]]. destruct Hin as [<-|[]]. exact Hs.
      - destruct (admitted_roles _ _ _ _ _ _ Tir El Ea) as [r [Hin [_ Hs]]]. destruct Hin as [<-|[]]. exact Hs. }
    (* the entry x as a witness, once we know the outcome is Ok *)
    assert (Hwit : snd (step t c who now (MInitRec pr p)) = Ok -> Proposed (hist ++ [x]) pr p).
    { intros Ho. exists x. split; [exact Hx_in|]. subst x. unfold mk_entry, do_event. cbn [h_before h_ev h_after h_out e_who e_now e_meth]. repeat split; auto. }
    assert (Hstep : step t c who now (MInitRec pr p) = body t c now (MInitRec pr p)).
    { unfold step. rewrite El, Ea. reflexivity. }
    rewrite Hstep in Hwit.
    destruct pr; unfold body in *.
    + destruct (s_prim_rec (c_st c)) eqn:Es; cbn;
        [split; [exact Hsame|intro H; exfalso; revert H; apply Hnochange; auto]|].
      split; [|intro H; exfalso; revert H; apply Hnochange; auto].
      destruct Hsame as [I1 I2 I3]. constructor; cbn.
      * intros [|] p' Hp'; cbn in Hp'.
        -- inversion Hp'; subst. apply Hwit. reflexivity.
        -- apply I1. exact Hp'.
      * intros [|] Hw; cbn in Hw; apply I2; exact Hw.
      * intros p' a Hp'. apply I3. exact Hp'.
    + destruct (s_rec_rec (c_st c)) eqn:Es; cbn;
        try (split; [exact Hsame|intro H; exfalso; revert H; apply Hnochange; auto]).
      destruct (c_delay c) as [d|] eqn:Ed.
      * destruct (add_minutes (current_time now) (Z.of_N d)) as [after|] eqn:Eadd; cbn;
          [|split; [exact Hsame|intro H; exfalso; revert H; apply Hnochange; auto]].
        split; [|intro H; exfalso; revert H; apply Hnochange; auto].
        destruct Hsame as [I1 I2 I3]. constructor; cbn.
        -- intros [|] p' Hp'; cbn in Hp'.
           ++ apply I1. exact Hp'.
           ++ inversion Hp'; subst. apply Hwit. reflexivity.
        -- intros [|] Hw; cbn in Hw; apply I2; exact Hw.
        -- intros p' a Hp'. inversion Hp'; subst. exists x, d. split; [exact Hx_in|].
           subst x. unfold mk_entry, do_event. cbn [h_before h_ev h_after h_out e_who e_now e_meth]. rewrite Hstep. cbn [fst snd].
           repeat split; auto. apply add_minutes_val in Eadd. unfold current_time in Eadd. exact Eadd.
      * cbn. split; [|intro H; exfalso; revert H; apply Hnochange; auto].
        destruct Hsame as [I1 I2 I3]. constructor; cbn.
        -- intros [|] p' Hp'; cbn in Hp'.
           ++ apply I1. exact Hp'.
           ++ inversion Hp'; subst. apply Hwit. reflexivity.
        -- intros [|] Hw; cbn in Hw; apply I2; exact Hw.
        -- intros p' a Hp'. discriminate.
  - (* initiate_badge_withdraw_attempt *)
    unfold step.
    destruct (lookup (meth_name (MInitWd pr)) (t_methods t)) as [acc|] eqn:El; cbn;
      [|split; [exact Hsame|intro H; exfalso; revert H; apply Hnochange; auto]].
    destruct (admitted acc (c_roles c) who) eqn:Ea; cbn;
      [|split; [exact Hsame|intro H; exfalso; revert H; apply Hnochange; auto]].
    assert (Hsat : rule_sat (role_rule (c_roles c) (role_of pr)) who = true).
    { destruct pr; cbn [role_of]; cbn [meth_name] in El.
      - destruct (admitted_roles _ _ _ _ _ _ Twp El Ea) as [r [Hin [_ Hs]]]. destruct Hin as [<-|[]]. exact Hs.
      - destruct (admitted_roles _ _ _ _ _ _ Twr El Ea) as [r [Hin [_ Hs]]]. destruct Hin as [<-|[]]. exact Hs. }
    assert (Hstep : step t c who now (MInitWd pr) = body t c now (MInitWd pr)).
    { unfold step. rewrite El, Ea. reflexivity. }
    assert (Hwit : snd (body t c now (MInitWd pr)) = Ok -> ProposedWd (hist ++ [x]) pr).
    { intros Ho. exists x. split; [exact Hx_in|]. subst x. unfold mk_entry, do_event. cbn [h_before h_ev h_after h_out e_who e_now e_meth]. rewrite Hstep. repeat split; auto. }
    destruct pr; unfold body in *.
    + destruct (s_prim_wd (c_st c)) eqn:Es; cbn;
        [split; [exact Hsame|intro H; exfalso; revert H; apply Hnochange; auto]|].
      split; [|intro H; exfalso; revert H; apply Hnochange; auto].
      destruct Hsame as [I1 I2 I3]. constructor; cbn.
      * intros [|] p' Hp'; cbn in Hp'; apply I1; exact Hp'.
      * intros [|] Hw; cbn in Hw; [apply Hwit; reflexivity|apply I2; exact Hw].
      * intros p' a Hp'. apply I3. exact Hp'.
    + destruct (s_rec_wd (c_st c)) eqn:Es; cbn;
        [split; [exact Hsame|intro H; exfalso; revert H; apply Hnochange; auto]|].
      split; [|intro H; exfalso; revert H; apply Hnochange; auto].
      destruct Hsame as [I1 I2 I3]. constructor; cbn.
      * intros [|] p' Hp'; cbn in Hp'; apply I1; exact Hp'.
      * intros [|] Hw; cbn in Hw; [apply I2; exact Hw|apply Hwit; reflexivity].
      * intros p' a Hp'. apply I3. exact Hp'.
  - (* quick_confirm recovery proposal *)
    unfold step.
    destruct (lookup (meth_name (MQuickRec pr q)) (t_methods t)) as [acc|] eqn:El; cbn;
      [|split; [exact Hsame|intro H; exfalso; revert H; apply Hnochange; auto]].
    destruct (admitted acc (c_roles c) who) eqn:Ea; cbn;
      [|split; [exact Hsame|intro H; exfalso; revert H; apply Hnochange; auto]].
    assert (Hconf : exists r, In r (other_roles pr) /\ confirmer t (meth_name (MQuickRec pr q)) r /\
                              rule_sat (role_rule (c_roles c) r) who = true).
    { assert (Hc : check_roles t (meth_name (MQuickRec pr q)) (other_roles pr) = true) by (destruct pr; assumption).
      destruct (admitted_roles _ _ _ _ _ _ Hc El Ea) as [r [Hin [Hm Hs]]]. exists r. repeat split; auto.
      exists acc. repeat split; auto. unfold check_roles in Hc. rewrite El in Hc. destruct acc as [pub names].
      apply andb_prop in Hc. destruct Hc as [Hp _]. apply negb_true_iff in Hp. exact Hp. }
    destruct Hconf as [r [Hrin [Hrc Hrs]]].
    assert (Hne : r <> role_of pr) by (destruct pr; cbn in Hrin; destruct Hrin as [<-|[<-|[]]]; discriminate).
    assert (Hst : forall p, stored pr (c_st c) = Some p -> proposal_eqb p q = true ->
              Inv (hist ++ [x]) (fst (confirm_rules t c (p_rules p))) /\
              (changed c (fst (confirm_rules t c (p_rules p))) ->
               Justified t hist c {| e_who := who; e_now := now; e_meth := MQuickRec pr q |} (fst (confirm_rules t c (p_rules p))))).
    { intros p Hs He. apply proposal_eqb_eq in He. subst q. rewrite confirm_rules_eq.
      destruct (self_can_update t); cbn.
      - split; [apply Inv_default; reflexivity|]. intros _.
        eapply J_quick_rec with (pr := pr) (p := p) (r := r); cbn; auto.
        destruct HI as [I1 _ _]. apply I1. exact Hs.
      - split; [exact Hsame|intro H; exfalso; revert H; apply Hnochange; auto]. }
    destruct pr; unfold body.
    + destruct (s_prim_rec (c_st c)) as [p|] eqn:Es; cbn;
        [|split; [exact Hsame|intro H; exfalso; revert H; apply Hnochange; auto]].
      destruct (proposal_eqb p q) eqn:Ep; cbn;
        [|split; [exact Hsame|intro H; exfalso; revert H; apply Hnochange; auto]].
      apply Hst; auto.
    + destruct (s_rec_rec (c_st c)) as [|p|p a] eqn:Es; cbn;
        try (split; [exact Hsame|intro H; exfalso; revert H; apply Hnochange; auto]).
      * destruct (proposal_eqb p q) eqn:Ep; cbn;
          [|split; [exact Hsame|intro H; exfalso; revert H; apply Hnochange; auto]].
        apply Hst; auto. cbn. rewrite Es. reflexivity.
      * destruct (proposal_eqb p q) eqn:Ep; cbn;
          [|split; [exact Hsame|intro H; exfalso; revert H; apply Hnochange; auto]].
        apply Hst; auto. cbn. rewrite Es. reflexivity.
  - (* quick_confirm badge withdraw *)
    unfold step.
    destruct (lookup (meth_name (MQuickWd pr)) (t_methods t)) as [acc|] eqn:El; cbn;
      [|split; [exact Hsame|intro H; exfalso; revert H; apply Hnochange; auto]].
    destruct (admitted acc (c_roles c) who) eqn:Ea; cbn;
      [|split; [exact Hsame|intro H; exfalso; revert H; apply Hnochange; auto]].
    assert (Hconf : exists r, In r (other_roles pr) /\ confirmer t (meth_name (MQuickWd pr)) r /\
                              rule_sat (role_rule (c_roles c) r) who = true).
    { assert (Hc : check_roles t (meth_name (MQuickWd pr)) (other_roles pr) = true) by (destruct pr; assumption).
      destruct (admitted_roles _ _ _ _ _ _ Hc El Ea) as [r [Hin [Hm Hs]]]. exists r. repeat split; auto.
      exists acc. repeat split; auto. unfold check_roles in Hc. rewrite El in Hc. destruct acc as [pub names].
      apply andb_prop in Hc. destruct Hc as [Hp _]. apply negb_true_iff in Hp. exact Hp. }
    destruct Hconf as [r [Hrin [Hrc Hrs]]].
    assert (Hne : r <> role_of pr) by (destruct pr; cbn in Hrin; destruct Hrin as [<-|[<-|[]]]; discriminate).
    assert (Hst : stored_wd pr (c_st c) = true ->
              Inv (hist ++ [x]) (fst (confirm_withdraw t c)) /\
              (changed c (fst (confirm_withdraw t c)) ->
               Justified t hist c {| e_who := who; e_now := now; e_meth := MQuickWd pr |} (fst (confirm_withdraw t c)))).
    { intros Hs. rewrite confirm_withdraw_eq. destruct (self_can_update t); cbn.
      - split; [apply Inv_default; reflexivity|]. intros _.
        eapply J_quick_wd with (pr := pr) (r := r); cbn; auto.
        destruct HI as [_ I2 _]. apply I2. exact Hs.
      - split; [exact Hsame|intro H; exfalso; revert H; apply Hnochange; auto]. }
    destruct pr; unfold body.
    + destruct (s_prim_wd (c_st c)) eqn:Es; cbn;
        [|split; [exact Hsame|intro H; exfalso; revert H; apply Hnochange; auto]].
      apply Hst. exact Es.
    + destruct (s_rec_wd (c_st c)) eqn:Es; cbn;
        [|split; [exact Hsame|intro H; exfalso; revert H; apply Hnochange; auto]].
      apply Hst. exact Es.
  - (* timed_confirm_recovery *)
    unfold step.
    destruct (lookup (meth_name (MTimedConfirm q)) (t_methods t)) as [acc|] eqn:El; cbn;
      [|split; [exact Hsame|intro H; exfalso; revert H; apply Hnochange; auto]].
    destruct (admitted acc (c_roles c) who) eqn:Ea; cbn;
      [|split; [exact Hsame|intro H; exfalso; revert H; apply Hnochange; auto]].
    unfold body.
    destruct (s_rec_rec (c_st c)) as [|p|p a] eqn:Es; cbn;
      try (split; [exact Hsame|intro H; exfalso; revert H; apply Hnochange; auto]).
    destruct (proposal_eqb p q) eqn:Ep; cbn;
      [|split; [exact Hsame|intro H; exfalso; revert H; apply Hnochange; auto]].
    destruct (time_elapsed now a) eqn:Et; cbn;
      [|split; [exact Hsame|intro H; exfalso; revert H; apply Hnochange; auto]].
    apply proposal_eqb_eq in Ep. subst q. rewrite confirm_rules_eq. destruct (self_can_update t); cbn.
    + split; [apply Inv_default; reflexivity|]. intros _.
      eapply J_timed with (p := p) (after := a); cbn; auto.
      destruct HI as [_ _ I3]. apply I3. exact Es.
    + split; [exact Hsame|intro H; exfalso; revert H; apply Hnochange; auto].
  - (* cancel recovery proposal *)
    unfold step.
    destruct (lookup (meth_name (MCancelRec pr)) (t_methods t)) as [acc|] eqn:El; cbn;
      [|split; [exact Hsame|intro H; exfalso; revert H; apply Hnochange; auto]].
    destruct (admitted acc (c_roles c) who) eqn:Ea; cbn;
      [|split; [exact Hsame|intro H; exfalso; revert H; apply Hnochange; auto]].
    destruct pr; unfold body.
    + destruct (s_prim_rec (c_st c)) eqn:Es; cbn;
        [|split; [exact Hsame|intro H; exfalso; revert H; apply Hnochange; auto]].
      split; [|intro H; exfalso; revert H; apply Hnochange; auto].
      destruct Hsame as [I1 I2 I3]. constructor; cbn.
      * intros [|] p' Hp'; cbn in Hp'; [discriminate|apply I1; exact Hp'].
      * intros [|] Hw; cbn in Hw; apply I2; exact Hw.
      * intros p' a Hp'. apply I3. exact Hp'.
    + destruct (s_rec_rec (c_st c)) eqn:Es; cbn;
        try (split; [exact Hsame|intro H; exfalso; revert H; apply Hnochange; auto]);
        (split; [|intro H; exfalso; revert H; apply Hnochange; auto]);
        destruct Hsame as [I1 I2 I3]; constructor; cbn;
        try (intros [|] p' Hp'; cbn in Hp'; [apply I1; exact Hp'|discriminate]);
        try (intros [|] Hw; cbn in Hw; apply I2; exact Hw);
        try (intros p' a' Hp'; discriminate).
  - (* cancel badge withdraw *)
    unfold step.
    destruct (lookup (meth_name (MCancelWd pr)) (t_methods t)) as [acc|] eqn:El; cbn;
      [|split; [exact Hsame|intro H; exfalso; revert H; apply Hnochange; auto]].
    destruct (admitted acc (c_roles c) who) eqn:Ea; cbn;
      [|split; [exact Hsame|intro H; exfalso; revert H; apply Hnochange; auto]].
    destruct pr; unfold body.
    + destruct (s_prim_wd (c_st c)) eqn:Es; cbn;
        [|split; [exact Hsame|intro H; exfalso; revert H; apply Hnochange; auto]].
      split; [|intro H; exfalso; revert H; apply Hnochange; auto].
      destruct Hsame as [I1 I2 I3]. constructor; cbn.
      * intros [|] p' Hp'; cbn in Hp'; apply I1; exact Hp'.
      * intros [|] Hw; cbn in Hw; [discriminate|apply I2; exact Hw].
      * intros p' a Hp'. apply I3. exact Hp'.
    + destruct (s_rec_wd (c_st c)) eqn:Es; cbn;
        [|split; [exact Hsame|intro H; exfalso; revert H; apply Hnochange; auto]].
      split; [|intro H; exfalso; revert H; apply Hnochange; auto].
      destruct Hsame as [I1 I2 I3]. constructor; cbn.
      * intros [|] p' Hp'; cbn in Hp'; apply I1; exact Hp'.
      * intros [|] Hw; cbn in Hw; [apply I2; exact Hw|discriminate].
      * intros p' a Hp'. apply I3. exact Hp'.
  - (* lock *)
    unfold step. cbn [meth_name].
    destruct (lookup _ (t_methods t)) as [acc|]; cbn;
      [|split; [exact Hsame|intro H; exfalso; revert H; apply Hnochange; auto]].
    destruct (admitted acc (c_roles c) who); cbn;
      [|split; [exact Hsame|intro H; exfalso; revert H; apply Hnochange; auto]].
    split; [|intro H; exfalso; revert H; apply Hnochange; auto].
    destruct Hsame as [I1 I2 I3]. constructor; cbn.
    + intros [|] p' Hp'; cbn in Hp'; apply I1; exact Hp'.
    + intros [|] Hw; cbn in Hw; apply I2; exact Hw.
    + intros p' a Hp'. apply I3. exact Hp'.
  - (* unlock *)
    unfold step. cbn [meth_name].
    destruct (lookup _ (t_methods t)) as [acc|]; cbn;
      [|split; [exact Hsame|intro H; exfalso; revert H; apply Hnochange; auto]].
    destruct (admitted acc (c_roles c) who); cbn;
      [|split; [exact Hsame|intro H; exfalso; revert H; apply Hnochange; auto]].
    split; [|intro H; exfalso; revert H; apply Hnochange; auto].
    destruct Hsame as [I1 I2 I3]. constructor; cbn.
    + intros [|] p' Hp'; cbn in Hp'; apply I1; exact Hp'.
    + intros [|] Hw; cbn in Hw; apply I2; exact Hw.
    + intros p' a Hp'. apply I3. exact Hp'.
  - (* stop_timed_recovery *)
    unfold step. cbn [meth_name].
    destruct (lookup _ (t_methods t)) as [acc|]; cbn;
      [|split; [exact Hsame|intro H; exfalso; revert H; apply Hnochange; auto]].
    destruct (admitted acc (c_roles c) who); cbn;
      [|split; [exact Hsame|intro H; exfalso; revert H; apply Hnochange; auto]].
    unfold body.
    destruct (s_rec_rec (c_st c)) as [|p|p a] eqn:Es; cbn;
      try (split; [exact Hsame|intro H; exfalso; revert H; apply Hnochange; auto]).
    destruct (proposal_eqb p q) eqn:Ep; cbn;
      [|split; [exact Hsame|intro H; exfalso; revert H; apply Hnochange; auto]].
    split; [|intro H; exfalso; revert H; apply Hnochange; auto].
    destruct Hsame as [I1 I2 I3]. constructor; cbn.
    + intros [|] p' Hp'; cbn in Hp'.
      * apply I1. exact Hp'.
      * inversion Hp'; subst. apply (I1 PRecovery). cbn. rewrite Es. reflexivity.
    + intros [|] Hw; cbn in Hw; apply I2; exact Hw.
    + intros p' a' Hp'. discriminate.
  - (* mint *)
    unfold step. cbn [meth_name].
    destruct (lookup _ (t_methods t)) as [acc|]; cbn;
      [|split; [exact Hsame|intro H; exfalso; revert H; apply Hnochange; auto]].
    destruct (admitted acc (c_roles c) who); cbn;
      [|split; [exact Hsame|intro H; exfalso; revert H; apply Hnochange; auto]].
    unfold body. destruct (nodupb ids && _); cbn;
      (split; [apply (Inv_st _ c); [reflexivity|exact Hsame]|intro H; exfalso; revert H; apply Hnochange; auto]).
  - (* lock fee *)
    unfold step. cbn [meth_name].
    destruct (lookup _ (t_methods t)) as [acc|]; cbn;
      [|split; [exact Hsame|intro H; exfalso; revert H; apply Hnochange; auto]].
    destruct (admitted acc (c_roles c) who); cbn;
      [|split; [exact Hsame|intro H; exfalso; revert H; apply Hnochange; auto]].
    unfold body. destruct (c_fee c); cbn;
      (split; [exact Hsame|intro H; exfalso; revert H; apply Hnochange; auto]).
  - (* withdraw fee *)
    unfold step. cbn [meth_name].
    destruct (lookup _ (t_methods t)) as [acc|]; cbn;
      [|split; [exact Hsame|intro H; exfalso; revert H; apply Hnochange; auto]].
    destruct (admitted acc (c_roles c) who); cbn;
      [|split; [exact Hsame|intro H; exfalso; revert H; apply Hnochange; auto]].
    unfold body. destruct (c_fee c); cbn; [destruct ((0 <=? amt) && (amt <=? z)); cbn|];
      (split; [apply (Inv_st _ c); [reflexivity|exact Hsame]|intro H; exfalso; revert H; apply Hnochange; auto]).
  - (* contribute fee *)
    unfold step. cbn [meth_name].
    destruct (lookup _ (t_methods t)) as [acc|]; cbn;
      [|split; [exact Hsame|intro H; exfalso; revert H; apply Hnochange; auto]].
    destruct (admitted acc (c_roles c) who); cbn;
      [|split; [exact Hsame|intro H; exfalso; revert H; apply Hnochange; auto]].
    unfold body. destruct (0 <=? amt); cbn;
      (split; [apply (Inv_st _ c); [reflexivity|exact Hsame]|intro H; exfalso; revert H; apply Hnochange; auto]).
  - (* direct role update: never admitted *)
    unfold step. rewrite (direct_update_never t r (c_roles c) who Tup). cbn.
    split; [exact Hsame|intro H; exfalso; revert H; apply Hnochange; auto].
  - (* recovery badge burnt by its holder *)
    unfold step. destruct (existsb (N.eqb bid) (c_minted c) && negb (existsb (N.eqb bid) (c_burned c))); cbn;
      (split; [apply (Inv_st _ c); [reflexivity|exact Hsame]|intro H; exfalso; revert H; apply Hnochange; auto]).
Qed.

(* histories *)
Lemma run_sound : forall evs c hist0,
  Inv hist0 c ->
  forall hist h rest, run t c evs = hist ++ h :: rest ->
  changed (h_before h) (h_after h) ->
  Justified t (hist0 ++ hist) (h_before h) (h_ev h) (h_after h).
Proof.
  induction evs as [|e evs IH]; intros c hist0 HI hist h rest Hrun Hch.
  - cbn in Hrun. destruct hist; discriminate.
  - cbn [run] in Hrun. destruct (step_sound hist0 c e HI) as [HI' HJ].
    destruct hist as [|h0 hist].
    + cbn in Hrun. inversion Hrun; subst. cbn in *. rewrite app_nil_r. apply HJ. exact Hch.
    + cbn in Hrun. inversion Hrun as [[Hh0 Hrest]].
      specialize (IH (fst (do_event t c e)) (hist0 ++ [mk_entry t c e]) HI' hist h rest Hrest Hch).
      rewrite <- app_assoc in IH. cbn in IH. unfold mk_entry in IH. exact IH.
Qed.

Theorem change_needs_two : forall rs delay evs hist h rest,
  run t (create rs delay) evs = hist ++ h :: rest ->
  changed (h_before h) (h_after h) ->
  Justified t hist (h_before h) (h_ev h) (h_after h).
Proof.
  intros rs delay evs hist h rest Hrun Hch.
  exact (run_sound evs (create rs delay) [] (Inv_create rs delay) hist h rest Hrun Hch).
Qed.

End WithTable.

(* ------------------------------------------------------------------------------------------ *)
(* locked => no proof (any table, any caller) *)
Theorem locked_no_proof : forall t c who now,
  s_locked (c_st c) = true -> snd (step t c who now MCreateProof) <> Ok.
Proof.
  intros t c who now Hl. unfold step. cbn [meth_name].
  destruct (lookup _ (t_methods t)) as [acc|]; cbn; [|discriminate].
  destruct (admitted acc (c_roles c) who); cbn; [|discriminate].
  unfold body. rewrite Hl. cbn. discriminate.
Qed.

Lemma run_entries : forall t evs c h, In h (run t c evs) ->
  h_after h = fst (do_event t (h_before h) (h_ev h)) /\ h_out h = snd (do_event t (h_before h) (h_ev h)).
Proof.
  induction evs as [|e evs IH]; intros c h Hin; cbn in Hin; [contradiction|].
  destruct Hin as [<-|Hin]; [cbn; auto|]. eapply IH. exact Hin.
Qed.

Theorem locked_no_proof_hist : forall t c evs h,
  In h (run t c evs) -> s_locked (c_st (h_before h)) = true -> e_meth (h_ev h) = MCreateProof -> h_out h <> Ok.
Proof.
  intros t c evs h Hin Hl Hm. destruct (run_entries _ _ _ _ Hin) as [_ Ho]. rewrite Ho.
  unfold do_event. rewrite Hm. apply locked_no_proof. exact Hl.
Qed.

(* ------------------------------------------------------------------------------------------ *)
(* cancel clears; stop blocks the timer *)

Definition is_init_rec (pr : proposer) (m : meth) : bool :=
  match m, pr with MInitRec PPrimary _, PPrimary | MInitRec PRecovery _, PRecovery => true | _, _ => false end.
Definition is_init_wd (pr : proposer) (m : meth) : bool :=
  match m, pr with MInitWd PPrimary, PPrimary | MInitWd PRecovery, PRecovery => true | _, _ => false end.
(* the calls that complete a recovery proposal of pr *)
Definition is_confirm_rec (pr : proposer) (m : meth) : bool :=
  match m, pr with
  | MQuickRec PPrimary _, PPrimary | MQuickRec PRecovery _, PRecovery | MTimedConfirm _, PRecovery => true
  | _, _ => false
  end.
Definition is_confirm_wd (pr : proposer) (m : meth) : bool :=
  match m, pr with MQuickWd PPrimary, PPrimary | MQuickWd PRecovery, PRecovery => true | _, _ => false end.
Definition is_timed (m : meth) : bool := match m with MTimedConfirm _ => true | _ => false end.
Definition timer_running (s : acstate) : bool := match s_rec_rec s with RecTimed _ _ => true | _ => false end.

Ltac step_cases t c who m :=
  unfold step; cbn [meth_name];
  try (destruct (direct_update_admitted t _ (c_roles c) who); cbn; auto);
  try (destruct (lookup _ (t_methods t)) as [?acc|]; cbn; auto;
       destruct (admitted _ (c_roles c) who); cbn; auto).

(* a successful step's effect on the attempt slots; failed steps change nothing *)
Lemma step_fail_same : forall t c who now m, snd (step t c who now m) <> Ok -> fst (step t c who now m) = c.
Proof.
  intros t c who now m H.
  destruct m as [ | pr p | pr | pr q | pr | q | pr | pr | | | q | ids | amt | amt | amt | r nr | bid ];
    try destruct pr; revert H; unfold step; cbn [meth_name];
    try (destruct (direct_update_admitted t _ (c_roles c) who); cbn; try reflexivity; intros H; exfalso; apply H; reflexivity);
    try (destruct (existsb (N.eqb _) (c_minted c) && negb _); cbn; try reflexivity; intros H; exfalso; apply H; reflexivity);
    (destruct (lookup _ (t_methods t)) as [acc|]; cbn; [|reflexivity]);
    (destruct (admitted acc (c_roles c) who); cbn; [|reflexivity]);
    unfold body; rewrite ?confirm_rules_eq, ?confirm_withdraw_eq;
    repeat match goal with
           | |- context [match ?x with _ => _ end] => destruct x; cbn; rewrite ?confirm_rules_eq, ?confirm_withdraw_eq
           end;
    try reflexivity; intros H; exfalso; apply H; reflexivity.
Qed.

Arguments stored : simpl never.
Arguments stored_wd : simpl never.
Arguments timer_running : simpl never.

Ltac destruct_scrutinees :=
  repeat match goal with
         | |- context [match ?x with _ => _ end] => destruct x eqn:?; cbn [fst snd]; rewrite ?confirm_rules_eq, ?confirm_withdraw_eq
         end.

Lemma stored_none_kept : forall t pr c who now m,
  stored pr (c_st c) = None -> is_init_rec pr m = false ->
  stored pr (c_st (fst (step t c who now m))) = None.
Proof.
  intros t pr c who now m Hs Hm.
  destruct m as [ | pr' p | pr' | pr' q | pr' | q | pr' | pr' | | | q | ids | amt | amt | amt | r nr | bid ];
    try destruct pr'; destruct pr; try discriminate Hm;
    unfold step; cbn [meth_name];
    try (destruct (direct_update_admitted t _ (c_roles c) who); cbn [fst snd]; exact Hs);
    try (destruct (existsb (N.eqb _) (c_minted c) && negb _); cbn [fst snd]; exact Hs);
    (destruct (lookup _ (t_methods t)) as [acc|]; cbn [fst snd]; [|exact Hs]);
    (destruct (admitted acc (c_roles c) who); cbn [fst snd]; [|exact Hs]);
    unfold body; rewrite ?confirm_rules_eq, ?confirm_withdraw_eq;
    destruct_scrutinees;
    try exact Hs; try reflexivity;
    unfold stored in *; cbn in *;
    try (match goal with H : s_rec_rec _ = _ |- _ => rewrite H in *; cbn in *; try discriminate; try reflexivity end);
    try (match goal with H : s_prim_rec _ = _ |- _ => rewrite H in *; cbn in *; try discriminate; try reflexivity end).
Qed.

Lemma stored_none_confirm_fails : forall t pr c who now m,
  stored pr (c_st c) = None -> is_confirm_rec pr m = true -> snd (step t c who now m) <> Ok.
Proof.
  intros t pr c who now m Hs Hm.
  destruct m as [ | pr' p | pr' | pr' q | pr' | q | pr' | pr' | | | q | ids | amt | amt | amt | r nr | bid ];
    try destruct pr'; destruct pr; try discriminate Hm; unfold stored in Hs;
    unfold step; cbn [meth_name];
    (destruct (lookup _ (t_methods t)) as [acc|]; cbn; [|discriminate]);
    (destruct (admitted acc (c_roles c) who); cbn; [|discriminate]);
    unfold body.
  - rewrite Hs. cbn. discriminate.
  - destruct (s_rec_rec (c_st c)); try discriminate Hs. cbn. discriminate.
  - destruct (s_rec_rec (c_st c)); try discriminate Hs. cbn. discriminate.
Qed.

Lemma wd_false_kept : forall t pr c who now m,
  stored_wd pr (c_st c) = false -> is_init_wd pr m = false ->
  stored_wd pr (c_st (fst (step t c who now m))) = false.
Proof.
  intros t pr c who now m Hs Hm.
  destruct m as [ | pr' p | pr' | pr' q | pr' | q | pr' | pr' | | | q | ids | amt | amt | amt | r nr | bid ];
    try destruct pr'; destruct pr; try discriminate Hm;
    unfold step; cbn [meth_name];
    try (destruct (direct_update_admitted t _ (c_roles c) who); cbn [fst snd]; exact Hs);
    try (destruct (existsb (N.eqb _) (c_minted c) && negb _); cbn [fst snd]; exact Hs);
    (destruct (lookup _ (t_methods t)) as [acc|]; cbn [fst snd]; [|exact Hs]);
    (destruct (admitted acc (c_roles c) who); cbn [fst snd]; [|exact Hs]);
    unfold body; rewrite ?confirm_rules_eq, ?confirm_withdraw_eq;
    destruct_scrutinees;
    try exact Hs; try reflexivity;
    unfold stored_wd in *; cbn in *; congruence.
Qed.

Lemma wd_false_confirm_fails : forall t pr c who now m,
  stored_wd pr (c_st c) = false -> is_confirm_wd pr m = true -> snd (step t c who now m) <> Ok.
Proof.
  intros t pr c who now m Hs Hm.
  destruct m as [ | pr' p | pr' | pr' q | pr' | q | pr' | pr' | | | q | ids | amt | amt | amt | r nr | bid ];
    try destruct pr'; destruct pr; try discriminate Hm; unfold stored_wd in Hs;
    unfold step; cbn [meth_name];
    (destruct (lookup _ (t_methods t)) as [acc|]; cbn; [|discriminate]);
    (destruct (admitted acc (c_roles c) who); cbn; [|discriminate]);
    unfold body; rewrite Hs; cbn; discriminate.
Qed.

Lemma timer_off_kept : forall t c who now m,
  timer_running (c_st c) = false -> is_init_rec PRecovery m = false ->
  timer_running (c_st (fst (step t c who now m))) = false.
Proof.
  intros t c who now m Hs Hm.
  destruct m as [ | pr' p | pr' | pr' q | pr' | q | pr' | pr' | | | q | ids | amt | amt | amt | r nr | bid ];
    try destruct pr'; try discriminate Hm;
    unfold step; cbn [meth_name];
    try (destruct (direct_update_admitted t _ (c_roles c) who); cbn [fst snd]; exact Hs);
    try (destruct (existsb (N.eqb _) (c_minted c) && negb _); cbn [fst snd]; exact Hs);
    (destruct (lookup _ (t_methods t)) as [acc|]; cbn [fst snd]; [|exact Hs]);
    (destruct (admitted acc (c_roles c) who); cbn [fst snd]; [|exact Hs]);
    unfold body; rewrite ?confirm_rules_eq, ?confirm_withdraw_eq;
    destruct_scrutinees;
    try exact Hs; try reflexivity;
    unfold timer_running in *; cbn in *;
    try (match goal with H : s_rec_rec _ = _ |- _ => rewrite H in *; cbn in *; try discriminate; try reflexivity end).
Qed.

Lemma timer_off_timed_fails : forall t c who now m,
  timer_running (c_st c) = false -> is_timed m = true -> snd (step t c who now m) <> Ok.
Proof.
  intros t c who now m Hs Hm. destruct m; try discriminate Hm. unfold timer_running in Hs.
  unfold step; cbn [meth_name].
  (destruct (lookup _ (t_methods t)) as [acc|]; cbn; [|discriminate]).
  (destruct (admitted acc (c_roles c) who); cbn; [|discriminate]).
  unfold body. destruct (s_rec_rec (c_st c)); try discriminate Hs; cbn; discriminate.
Qed.

(* generic: a state predicate kept by every event that is not `init`, under which `bad` calls fail *)
Lemma blocked_until_init : forall t (P : controller -> Prop) (init bad : meth -> bool),
  (forall c who now m, P c -> init m = false -> P (fst (step t c who now m))) ->
  (forall c who now m, P c -> bad m = true -> snd (step t c who now m) <> Ok) ->
  forall evs c, P c -> (forall e, In e evs -> init (e_meth e) = false) ->
  forall h, In h (run t c evs) -> bad (e_meth (h_ev h)) = true -> h_out h <> Ok.
Proof.
  intros t P init bad Hkeep Hbad. induction evs as [|e evs IH]; intros c HP Hno h Hin Hb; cbn in Hin; [contradiction|].
  destruct Hin as [<-|Hin].
  - cbn in *. unfold do_event. apply Hbad; auto.
  - eapply IH; [| |exact Hin|exact Hb].
    + unfold do_event. apply Hkeep; auto. apply Hno. left. reflexivity.
    + intros e' He'. apply Hno. right. exact He'.
Qed.

Theorem cancel_clears_rec : forall t c who now pr c',
  step t c who now (MCancelRec pr) = (c', Ok) ->
  stored pr (c_st c') = None /\
  forall evs, (forall e, In e evs -> is_init_rec pr (e_meth e) = false) ->
  forall h, In h (run t c' evs) -> is_confirm_rec pr (e_meth (h_ev h)) = true -> h_out h <> Ok.
Proof.
  intros t c who now pr c' Hs.
  assert (Hn : stored pr (c_st c') = None).
  { revert Hs. unfold step. cbn [meth_name]. destruct pr; cbn [meth_name];
      (destruct (lookup _ (t_methods t)) as [acc|]; [|intros H; inversion H]);
      (destruct (admitted acc (c_roles c) who); [|intros H; inversion H]); unfold body.
    - destruct (s_prim_rec (c_st c)); intros H; inversion H. reflexivity.
    - destruct (s_rec_rec (c_st c)); intros H; inversion H; reflexivity. }
  split; [exact Hn|]. intros evs Hno h Hin Hc.
  eapply (blocked_until_init t (fun c => stored pr (c_st c) = None) (is_init_rec pr) (is_confirm_rec pr)); eauto.
  - intros. apply stored_none_kept; auto.
  - intros. eapply stored_none_confirm_fails; eauto.
Qed.

Theorem cancel_clears_wd : forall t c who now pr c',
  step t c who now (MCancelWd pr) = (c', Ok) ->
  stored_wd pr (c_st c') = false /\
  forall evs, (forall e, In e evs -> is_init_wd pr (e_meth e) = false) ->
  forall h, In h (run t c' evs) -> is_confirm_wd pr (e_meth (h_ev h)) = true -> h_out h <> Ok.
Proof.
  intros t c who now pr c' Hs.
  assert (Hn : stored_wd pr (c_st c') = false).
  { revert Hs. unfold step. cbn [meth_name]. destruct pr; cbn [meth_name];
      (destruct (lookup _ (t_methods t)) as [acc|]; [|intros H; inversion H]);
      (destruct (admitted acc (c_roles c) who); [|intros H; inversion H]); unfold body.
    - destruct (s_prim_wd (c_st c)); intros H; inversion H. reflexivity.
    - destruct (s_rec_wd (c_st c)); intros H; inversion H; reflexivity. }
  split; [exact Hn|]. intros evs Hno h Hin Hc.
  eapply (blocked_until_init t (fun c => stored_wd pr (c_st c) = false) (is_init_wd pr) (is_confirm_wd pr)); eauto.
  - intros. apply wd_false_kept; auto.
  - intros. eapply wd_false_confirm_fails; eauto.
Qed.

Theorem stop_timed_blocks_timer : forall t c who now q c',
  step t c who now (MStopTimed q) = (c', Ok) ->
  s_rec_rec (c_st c') = RecUntimed q /\
  forall evs, (forall e, In e evs -> is_init_rec PRecovery (e_meth e) = false) ->
  forall h, In h (run t c' evs) -> is_timed (e_meth (h_ev h)) = true -> h_out h <> Ok.
Proof.
  intros t c who now q c' Hs.
  assert (Hn : s_rec_rec (c_st c') = RecUntimed q).
  { revert Hs. unfold step. cbn [meth_name].
    (destruct (lookup _ (t_methods t)) as [acc|]; [|intros H; inversion H]).
    (destruct (admitted acc (c_roles c) who); [|intros H; inversion H]). unfold body.
    destruct (s_rec_rec (c_st c)) as [|p|p a]; try (intros H; inversion H; fail).
    destruct (proposal_eqb p q) eqn:E; intros H; inversion H. apply proposal_eqb_eq in E. subst. reflexivity. }
  split; [exact Hn|]. intros evs Hno h Hin Hc.
  eapply (blocked_until_init t (fun c => timer_running (c_st c) = false) (is_init_rec PRecovery) is_timed); eauto.
  - intros. apply timer_off_kept; auto.
  - intros. eapply timer_off_timed_fails; eauto.
  - unfold timer_running. rewrite Hn. reflexivity.
Qed.

(* ------------------------------------------------------------------------------------------ *)
(* time: below the i32 minute horizon `time_elapsed` is exactly "now >= minute of proposal + delay" *)
Lemma time_elapsed_exact : forall m now,
  i32_min <= m <= i32_max -> (time_elapsed now (m * 60) = true <-> m <= now).
Proof.
  intros m now Hm. unfold time_elapsed, instant_to_minute.
  assert (E : m * 60 * 1000 = m * 60000) by ring. rewrite E.
  assert (Hi : in_i64 (m * 60000) = true).
  { unfold in_i64, i64_min, i64_max, i32_min, i32_max in *. apply andb_true_intro. split; apply Z.leb_le; lia. }
  rewrite Hi. rewrite Z.quot_mul by lia.
  assert (Hj : in_i32 m = true).
  { unfold in_i32. apply andb_true_intro. split; apply Z.leb_le; lia. }
  rewrite Hj. apply Z.leb_le.
Qed.

(* ------------------------------------------------------------------------------------------ *)
(* the literal reading "the recovery role confirms its own timed recovery" and the known class *)
Definition KnownClass (c : controller) (e : event) : Prop :=
  (exists p, e_meth e = MTimedConfirm p) /\ rule_sat (rs_recovery (c_roles c)) (e_who e) = false.
Definition LiteralJustified (t : table) (hist : list entry) (c : controller) (e : event) (c' : controller) : Prop :=
  Justified t hist c e c' /\
  (forall p, e_meth e = MTimedConfirm p -> rule_sat (rs_recovery (c_roles c)) (e_who e) = true).

Theorem literal_except_known : forall t, table_ok t = true -> forall rs delay evs hist h rest,
  run t (create rs delay) evs = hist ++ h :: rest ->
  changed (h_before h) (h_after h) ->
  ~ KnownClass (h_before h) (h_ev h) ->
  LiteralJustified t hist (h_before h) (h_ev h) (h_after h).
Proof.
  intros t Hok rs delay evs hist h rest Hrun Hch Hnk. split.
  - eapply change_needs_two; eauto.
  - intros p Hp. destruct (rule_sat (rs_recovery (c_roles (h_before h))) (e_who (h_ev h))) eqn:E; [reflexivity|].
    exfalso. apply Hnk. split; [exists p; exact Hp|exact E].
Qed.

(* ------------------------------------------------------------------------------------------ *)
(* the configured delay never changes: the timed_recovery_delay_in_minutes carried by a proposal is
   compared (proposal equality) but never written to the controller *)
Lemma step_delay : forall t c who now m, c_delay (fst (step t c who now m)) = c_delay c.
Proof.
  intros t c who now m.
  destruct m as [ | pr p | pr | pr q | pr | q | pr | pr | | | q | ids | amt | amt | amt | r nr | bid ];
    try destruct pr; unfold step; cbn [meth_name];
    try (destruct (direct_update_admitted t _ (c_roles c) who); cbn [fst snd]; reflexivity);
    try (destruct (existsb (N.eqb _) (c_minted c) && negb _); cbn [fst snd]; reflexivity);
    (destruct (lookup _ (t_methods t)) as [acc|]; cbn [fst snd]; [|reflexivity]);
    (destruct (admitted acc (c_roles c) who); cbn [fst snd]; [|reflexivity]);
    unfold body; rewrite ?confirm_rules_eq, ?confirm_withdraw_eq;
    repeat match goal with
           | |- context [match ?x with _ => _ end] => destruct x eqn:?; cbn [fst snd]; rewrite ?confirm_rules_eq, ?confirm_withdraw_eq
           end;
    cbn; congruence.
Qed.
Theorem delay_never_changes : forall t evs c h, In h (run t c evs) ->
  c_delay (h_before h) = c_delay c /\ c_delay (h_after h) = c_delay c.
Proof.
  intros t evs. induction evs as [|e evs IH]; intros c h Hin; cbn in Hin; [contradiction|].
  destruct Hin as [<-|Hin]; cbn.
  - split; [reflexivity|apply step_delay].
  - destruct (IH _ _ Hin) as [A B]. unfold do_event in A, B. rewrite step_delay in A, B. auto.
Qed.

(* the timer at the end of the i32 minute clock: known class = proposal minute + delay beyond i32::MAX *)
Definition Horizon (n0 : Z) (d : N) : Prop := i32_max < n0 + Z.of_N d.
Theorem delay_elapsed_except_horizon : forall n0 d now,
  i32_min <= n0 + Z.of_N d -> ~ Horizon n0 d ->
  time_elapsed now (n0 * 60 + Z.of_N d * 60) = true -> n0 + Z.of_N d <= now.
Proof.
  intros n0 d now Hlo Hh He. unfold Horizon in Hh.
  replace (n0 * 60 + Z.of_N d * 60) with ((n0 + Z.of_N d) * 60) in He by ring.
  apply time_elapsed_exact in He; [exact He|]. split; [exact Hlo|lia].
Qed.

(* ------------------------------------------------------------------------------------------ *)
(* the role assignment after any call: the stored proposal's rule set after a committed recovery
   confirmation (quick or timed), deny-all after a committed badge withdrawal, otherwise untouched *)
Definition out_ok (o : outcome) : bool := match o with Ok => true | _ => false end.
Definition expected_roles (c : controller) (m : meth) : ruleset :=
  match m with
  | MQuickRec pr _ => match stored pr (c_st c) with Some p => p_rules p | None => c_roles c end
  | MTimedConfirm _ => match stored PRecovery (c_st c) with Some p => p_rules p | None => c_roles c end
  | MQuickWd _ => deny_all_rules
  | MSetRoleDirect r x => set_role (c_roles c) r x
  | _ => c_roles c
  end.
Theorem roles_after_step : forall t c who now m,
  c_roles (fst (step t c who now m)) =
  if out_ok (snd (step t c who now m)) then expected_roles c m else c_roles c.
Proof.
  intros t c who now m.
  destruct m as [ | pr p | pr | pr q | pr | q | pr | pr | | | q | ids | amt | amt | amt | r nr | bid ];
    try destruct pr; unfold step, expected_roles; cbn [meth_name];
    try (destruct (direct_update_admitted t _ (c_roles c) who); cbn [fst snd out_ok]; reflexivity);
    try (destruct (existsb (N.eqb _) (c_minted c) && negb _); cbn [fst snd out_ok]; reflexivity);
    (destruct (lookup _ (t_methods t)) as [acc|]; cbn [fst snd out_ok]; [|reflexivity]);
    (destruct (admitted acc (c_roles c) who); cbn [fst snd out_ok]; [|reflexivity]);
    unfold body, stored;
    repeat match goal with
           | |- context [match ?x with _ => _ end] => destruct x eqn:?; cbn [fst snd out_ok]; rewrite ?confirm_rules_eq, ?confirm_withdraw_eq
           end;
    cbn; try reflexivity;
    repeat match goal with H : proposal_eqb _ _ = true |- _ => apply proposal_eqb_eq in H; subst end;
    try congruence; try reflexivity.
Qed.
