(* C02 — determine_result_type facts. *)
From Coq Require Import List NArith Bool.
Import ListNotations.
Require Import RV.Model.C12_Track RV.Model.C12_View RV.Model.C02_ResultType RV.Proof.C12_Main.

Lemma reject_abort_empty : forall i r f t,
  (determine_result_type i r f = Reject \/ determine_result_type i r f = Abort) ->
  receipt_state (determine_result_type i r f) t = None.
Proof. intros i r f t [H|H]; rewrite H; reflexivity. Qed.

Lemma commit_failure_iff : forall i r f,
  determine_result_type i r f = CommitFailure <-> i = IErrRuntime false /\ f = true.
Proof.
  intros i r f. split.
  - intros H. destruct i as [| |[|]]; simpl in H; try (destruct r as [|[|]]; discriminate); try discriminate.
    destruct f; [auto|discriminate].
  - intros [-> ->]. reflexivity.
Qed.

Lemma failure_receipt_reverts : forall db t s i r f,
  db_wf db -> reach db t s -> determine_result_type i r f = CommitFailure ->
  exists t', receipt_state (determine_result_type i r f) t = Some (Some t') /\ revert t = Some t'.
Proof.
  intros db t s i r f Hdb R H. rewrite H. simpl.
  destruct (revert t) as [t'|] eqn:E.
  - exists t'. auto.
  - exfalso. eapply reach_revert_no_panic; eauto.
Qed.
