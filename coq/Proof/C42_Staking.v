(* Proof/C42_Staking.v — proofs about the staking model (Model/C42_Staking.v). *)
From Coq Require Import ZArith List Bool Lia Sorted.
Import ListNotations.
Require Import RV.Model.C42_Staking.
Open Scope Z_scope.

Lemma DD_pos : 0 < DD. Proof. reflexivity. Qed.
Global Opaque DD.

(* ---------------------------------------------------------------------------------------------- *)
(* checked operations on non-negative arguments *)

Lemma ddiv_some a b q : ddiv a b = Some q -> 0 <= a -> 0 < b -> q = a * DD / b.
Proof.
  unfold ddiv. intros H Ha Hb. destruct (in256 _); [|discriminate].
  destruct (Z.eqb_spec b 0); [lia|]. destruct (in192 _); [|discriminate].
  assert (q = Z.quot (a * DD) b) by congruence. subst. apply Z.quot_div_nonneg; [|lia].
  pose proof DD_pos; nia.
Qed.
Lemma dmul_some a b c : dmul a b = Some c -> 0 <= a -> 0 <= b -> c = a * b / DD.
Proof.
  unfold dmul. intros H Ha Hb. destruct (in256 _); [|discriminate]. destruct (in192 _); [|discriminate].
  assert (c = Z.quot (a * b) DD) by congruence. subst. apply Z.quot_div_nonneg; [nia|apply DD_pos].
Qed.
Lemma dadd_some a b c : dadd a b = Some c -> c = a + b.
Proof. unfold dadd. destruct (in192 _); congruence. Qed.
Lemma dsub_some a b c : dsub a b = Some c -> c = a - b.
Proof. unfold dsub. destruct (in192 _); congruence. Qed.

(* x * ⌊u·D/v⌋ / D: proportional, rounded down *)
Lemma prop_down x u v r m :
  0 <= x -> 0 <= u -> 0 < v -> r = u * DD / v -> m = x * r / DD -> 0 <= m /\ m * v <= x * u.
Proof.
  intros Hx Hu Hv -> ->. pose proof DD_pos as HD.
  pose proof (Z.mul_div_le (u * DD) v Hv) as H1. set (r := u * DD / v) in *.
  assert (Hr : 0 <= r) by (apply Z.div_pos; nia).
  pose proof (Z.mul_div_le (x * r) DD HD) as H2. set (m := x * r / DD) in *.
  assert (Hm : 0 <= m) by (apply Z.div_pos; nia).
  split; [auto|]. assert (m * v * DD <= x * u * DD) by nia. nia.
Qed.

(* ---------------------------------------------------------------------------------------------- *)
(* stake units and redemption value are proportional (rounded down) *)

Lemma stake_units_prop x v u m :
  stake_units x v u = Some m -> 0 <= x -> 0 <= v -> 0 <= u ->
  0 <= m /\ (v = 0 -> m = x) /\ (0 < v -> m * v <= x * u).
Proof.
  unfold stake_units. intros H Hx Hv Hu. destruct (Z.eqb_spec v 0).
  - assert (m = x) by congruence. subst. repeat split; auto; lia.
  - destruct (ddiv u v) as [r|] eqn:Er; cbn [obind] in H; [|discriminate].
    apply ddiv_some in Er; [|lia|lia].
    apply dmul_some in H; [|lia|subst r; apply Z.div_pos; pose proof DD_pos; nia].
    destruct (prop_down x u v r m Hx Hu ltac:(lia) Er H). repeat split; auto; lia.
Qed.

Lemma redemption_value_prop n v u c :
  redemption_value n v u = Some c -> 0 <= n -> 0 <= v -> 0 <= u ->
  0 <= c /\ (u = 0 -> c = 0) /\ (0 < u -> c * u <= n * v).
Proof.
  unfold redemption_value. intros H Hn Hv Hu. destruct (Z.eqb_spec u 0).
  - assert (c = 0) by congruence. subst. repeat split; auto; lia.
  - destruct (ddiv v u) as [r|] eqn:Er; cbn [obind] in H; [|discriminate].
    apply ddiv_some in Er; [|lia|lia].
    apply dmul_some in H; [|lia|subst r; apply Z.div_pos; pose proof DD_pos; nia].
    destruct (prop_down n v u r c Hn Hv ltac:(lia) Er H). repeat split; auto; lia.
Qed.

Lemma stake_ok x v u m v' u' :
  stake x v u = Some (m, v', u') -> stake_units x v u = Some m /\ v' = v + x /\ u' = u + m.
Proof.
  unfold stake. destruct (stake_units x v u) as [m0|]; cbn [obind]; [|discriminate].
  destruct (_ || _); [discriminate|]. destruct (dadd u m0) as [u0|] eqn:E; cbn [obind]; [|discriminate].
  apply dadd_some in E. intros H. assert (m0 = m /\ v + x = v' /\ u0 = u') as (-> & <- & <-) by (repeat split; congruence).
  auto.
Qed.
Lemma unstake_ok n v u c v' u' :
  unstake n v u = Some (c, v', u') -> redemption_value n v u = Some c /\ c <= v /\ n <= u /\ v' = v - c /\ u' = u - n.
Proof.
  unfold unstake. destruct (redemption_value n v u) as [c0|]; cbn [obind]; [|discriminate].
  destruct (Z.ltb_spec c0 0); [discriminate|]. destruct (Z.ltb_spec v c0); [discriminate|]. cbn [orb].
  destruct (Z.ltb_spec u n); [discriminate|].
  intros HH. assert (c0 = c /\ v - c0 = v' /\ u - n = u') as (-> & <- & <-) by (repeat split; congruence).
  repeat split; auto.
Qed.

(* staking and immediately unstaking the minted units never returns more than was staked *)
Theorem stake_unstake_no_gain x v u m v' u' c v'' u'' :
  0 <= x -> 0 <= v -> 0 <= u ->
  stake x v u = Some (m, v', u') -> unstake m v' u' = Some (c, v'', u'') -> c <= x.
Proof.
  intros Hx Hv Hu Hs Hun. apply stake_ok in Hs. destruct Hs as (Hm & -> & ->).
  apply unstake_ok in Hun. destruct Hun as (Hc & _).
  apply stake_units_prop in Hm; auto. destruct Hm as (Hm0 & Hmv0 & Hmv).
  apply redemption_value_prop in Hc; try lia. destruct Hc as (Hc0 & Hcu0 & Hcu).
  destruct (Z.eq_dec (u + m) 0) as [E|E]; [rewrite (Hcu0 E); lia|].
  specialize (Hcu ltac:(lia)).
  destruct (Z.eq_dec v 0) as [Ev|Ev].
  - subst v. rewrite (Hmv0 eq_refl) in *. cbn [Z.add] in Hcu.
    destruct (Z_le_gt_dec c x); [auto|]. exfalso. nia.
  - specialize (Hmv ltac:(lia)).
    destruct (Z_le_gt_dec c x); [auto|]. exfalso.
    assert ((x + 1) * (u + m) <= c * (u + m)) by nia.
    nia.
Qed.

(* ---------------------------------------------------------------------------------------------- *)
(* sort prefix *)

Lemma sort_prefix_val s p :
  sort_prefix s = Some p -> 0 <= s ->
  p = U16_MAX - Z.min U16_MAX (s * DD / (100000 * DD) * DD / (10 ^ 18 * DD)).
Proof.
  unfold sort_prefix. intros H Hs. pose proof DD_pos as HD.
  destruct (ddiv s (100000 * DD)) as [a|] eqn:Ea; cbn [obind] in H; [|discriminate].
  apply ddiv_some in Ea; [|lia|lia].
  destruct (ddiv a (10 ^ 18 * DD)) as [w|] eqn:Ew; cbn [obind] in H; [|discriminate].
  apply ddiv_some in Ew; [|subst a; apply Z.div_pos; nia|lia].
  subst a w. set (w := _ / (10 ^ 18 * DD)) in *.
  assert (Hp : p = U16_MAX - (if U16_MAX <? w then U16_MAX else w)) by congruence.
  rewrite Hp. destruct (Z.ltb_spec U16_MAX w); lia.
Qed.

Theorem sort_prefix_antitone s1 s2 p1 p2 :
  sort_prefix s1 = Some p1 -> sort_prefix s2 = Some p2 -> 0 <= s1 <= s2 ->
  p2 <= p1 /\ 0 <= p2 /\ p1 <= U16_MAX.
Proof.
  intros H1 H2 Hs. apply sort_prefix_val in H1; [|lia]. apply sort_prefix_val in H2; [|lia].
  pose proof DD_pos as HD.
  assert (Hmono : s1 * DD / (100000 * DD) * DD / (10 ^ 18 * DD) <= s2 * DD / (100000 * DD) * DD / (10 ^ 18 * DD)).
  { apply Z.div_le_mono; [lia|]. apply Z.mul_le_mono_nonneg_r; [lia|]. apply Z.div_le_mono; [lia|]. nia. }
  assert (0 <= s1 * DD / (100000 * DD) * DD / (10 ^ 18 * DD)).
  { apply Z.div_pos; [|lia]. apply Z.mul_nonneg_nonneg; [|lia]. apply Z.div_pos; nia. }
  unfold U16_MAX in *. lia.
Qed.

(* ---------------------------------------------------------------------------------------------- *)
(* next validator set *)

Definition ge_stake (a b : Z * Z) : Prop := snd b <= snd a.

Lemma insert_desc_in x l y : In y (insert_desc x l) <-> y = x \/ In y l.
Proof.
  induction l as [|z l IH]; cbn [insert_desc]; [cbn; intuition|].
  destruct (snd z <? snd x); cbn [In]; [intuition|]. rewrite IH. intuition.
Qed.
Lemma insert_desc_sorted x l : StronglySorted ge_stake l -> StronglySorted ge_stake (insert_desc x l).
Proof.
  induction 1 as [|z l Hs IH Hall]; cbn [insert_desc]; [repeat constructor|].
  destruct (Z.ltb_spec (snd z) (snd x)).
  - constructor; [constructor; auto|]. constructor; [unfold ge_stake; lia|].
    rewrite Forall_forall in *. intros y Hy. specialize (Hall y Hy). unfold ge_stake in *. lia.
  - constructor; [auto|]. rewrite Forall_forall in *. intros y Hy.
    apply insert_desc_in in Hy. destruct Hy as [->|Hy]; [unfold ge_stake; lia|auto].
Qed.
Lemma sort_desc_sorted l : StronglySorted ge_stake (sort_desc l).
Proof. induction l; cbn [sort_desc]; [constructor|now apply insert_desc_sorted]. Qed.
Lemma sort_desc_in l y : In y (sort_desc l) <-> In y l.
Proof.
  induction l as [|x l IH]; cbn [sort_desc]; [tauto|]. rewrite insert_desc_in, IH. cbn [In]. intuition.
Qed.
Lemma firstn_in {A} n : forall (l : list A) x, In x (firstn n l) -> In x l.
Proof.
  induction n as [|n IH]; intros l x H; cbn [firstn] in H; [contradiction|].
  destruct l as [|y l]; [contradiction|]. destruct H as [->|H]; [left; auto|right; auto].
Qed.
Lemma firstn_sorted {A} (R : A -> A -> Prop) n l : StronglySorted R l -> StronglySorted R (firstn n l).
Proof.
  revert l. induction n as [|n IH]; intros l H; cbn [firstn]; [constructor|].
  destruct H as [|x l Hs Hall]; [constructor|]. constructor; [auto|].
  rewrite Forall_forall in *. intros y Hy. apply Hall. eapply firstn_in; eauto.
Qed.

Theorem next_set_shape maxv scan :
  0 <= maxv ->
  (length (next_set maxv scan) <= Z.to_nat maxv)%nat /\
  StronglySorted ge_stake (next_set maxv scan) /\
  (forall y, In y (next_set maxv scan) -> In y scan) /\
  (* nobody with strictly more stake than a member is left out *)
  (forall y z, In y scan -> ~ In y (next_set maxv scan) -> In z (next_set maxv scan) -> snd y <= snd z).
Proof.
  intros Hm. unfold next_set. split; [apply firstn_le_length|]. split; [apply firstn_sorted, sort_desc_sorted|].
  split.
  - intros y Hy. apply firstn_in in Hy. apply (proj1 (sort_desc_in _ _)) in Hy. apply (proj2 (in_rev _ _)). exact Hy.
  - intros y z Hy Hny Hz.
    assert (Hys : In y (sort_desc (rev scan))) by (apply (proj2 (sort_desc_in _ _)); apply (proj1 (in_rev _ _)); exact Hy).
    pose proof (sort_desc_sorted (rev scan)) as Hs.
    rewrite <- (firstn_skipn (Z.to_nat maxv) (sort_desc (rev scan))) in Hys, Hs.
    apply in_app_or in Hys. destruct Hys as [Hys|Hys]; [contradiction|].
    set (a := firstn _ _) in *. set (b := skipn _ _) in *. clearbody a b.
    clear -Hs Hz Hys. induction a as [|w a IH]; [contradiction|].
    cbn [app] in Hs. inversion Hs as [|? ? Hs' Hall]; subst. destruct Hz as [->|Hz]; [|auto].
    rewrite Forall_forall in Hall. apply (Hall y). apply in_or_app. auto.
Qed.

(* ---------------------------------------------------------------------------------------------- *)
(* emissions never exceed the configured amount *)

Lemma success_ratio_range made missed sr :
  success_ratio made missed = Some sr -> 0 <= made -> 0 <= missed -> 0 <= sr <= DD.
Proof.
  unfold success_ratio. intros H Hm Hs. pose proof DD_pos as HD.
  destruct (Z.eqb_spec (made + missed) 0); [assert (sr = DD) by congruence; lia|].
  apply ddiv_some in H; [|nia|nia]. subst sr. split; [apply Z.div_pos; nia|].
  apply Z.div_le_upper_bound; nia.
Qed.
Lemma reliability_factor_range rel minrel f :
  reliability_factor rel minrel = Some f -> 0 <= rel <= DD -> 0 <= f <= DD.
Proof.
  unfold reliability_factor. intros H Hr. pose proof DD_pos as HD.
  destruct (dsub rel minrel) as [reserve|] eqn:E1; cbn [obind] in H; [|discriminate].
  apply dsub_some in E1. destruct (Z.ltb_spec reserve 0); [assert (f = 0) by congruence; lia|].
  destruct (dsub DD minrel) as [maxun|] eqn:E2; cbn [obind] in H; [|discriminate].
  apply dsub_some in E2. destruct (Z.eqb_spec maxun 0).
  - destruct (rel =? DD); assert (f = DD \/ f = 0) as [->| ->] by (first [left; congruence|right; congruence]); lia.
  - apply ddiv_some in H; [|lia|lia]. subst f. split; [apply Z.div_pos; nia|].
    apply Z.div_le_upper_bound; nia.
Qed.

Definition info_ok (i : info) : Prop := 0 <= snd i <= snd (fst i).

Lemma infos_ok minrel active : forall is,
  infos minrel active = Some is ->
  Forall (fun a : Z * Z * Z * Z => 0 <= snd (fst a) /\ 0 <= snd a) active ->
  Forall info_ok is.
Proof.
  induction active as [|[[[id st] made] missed] rest IH]; intros is H Ha; cbn [infos] in H.
  - assert (is = []) by congruence. subst. constructor.
  - inversion Ha as [|? ? [Hmade Hmissed] Ha']; subst. cbn [fst snd] in *.
    destruct (Z.ltb_spec 0 st); [|now apply IH].
    destruct (success_ratio made missed) as [sr|] eqn:E1; cbn [obind] in H; [|discriminate].
    destruct (reliability_factor sr minrel) as [f|] eqn:E2; cbn [obind] in H; [|discriminate].
    destruct (dmul st f) as [eff|] eqn:E3; cbn [obind] in H; [|discriminate].
    destruct (infos minrel rest) as [r|] eqn:E4; cbn [obind] in H; [|discriminate].
    assert (is = (id, st, eff) :: r) by congruence. subst.
    apply success_ratio_range in E1; auto. apply reliability_factor_range in E2; auto.
    apply dmul_some in E3; [|lia|lia].
    constructor; [|now apply IH]. unfold info_ok. cbn [fst snd]. pose proof DD_pos. subst eff.
    split; [apply Z.div_pos; nia|]. apply Z.div_le_upper_bound; nia.
Qed.

Lemma sum_left_val l : forall acc s, sum_left acc l = Some s -> s = acc + zsum l.
Proof.
  induction l as [|x l IH]; intros acc s H; cbn [sum_left zsum] in *; [assert (s = acc) by congruence; lia|].
  destruct (dadd acc x) as [a|] eqn:E; cbn [obind] in H; [|discriminate].
  apply dadd_some in E. apply IH in H. lia.
Qed.

Lemma emissions_split k : 0 <= k -> forall is l,
  Forall info_ok is ->
  map_opt (fun i : info => obind (dmul (snd i) k) (fun e => Some (fst (fst i), e))) is = Some l ->
  Forall (fun it : Z * Z => 0 <= snd it) l /\
  zsum (map snd l) * DD <= zsum (map (fun i : info => snd (fst i)) is) * k.
Proof.
  intros Hk. induction is as [|i is IH]; intros l Hok H; cbn [map_opt] in H.
  - assert (l = []) by congruence. subst. cbn. split; [constructor|lia].
  - inversion Hok as [|? ? Hi Hok']; subst.
    destruct (dmul (snd i) k) as [e|] eqn:E; cbn [obind] in H; [|discriminate].
    destruct (map_opt _ is) as [r|] eqn:Er; cbn [obind] in H; [|discriminate].
    assert (l = (fst (fst i), e) :: r) by congruence. subst. cbn [map snd zsum].
    destruct (IH r Hok' eq_refl) as [Hr0 Hr]. unfold info_ok in Hi.
    apply dmul_some in E; [|lia|lia]. pose proof DD_pos as HD.
    pose proof (Z.mul_div_le (snd i * k) DD HD). rewrite <- E in *.
    split; [constructor; [cbn; subst e; apply Z.div_pos; nia|auto]|]. nia.
Qed.

Theorem emission_bounded te minrel active l :
  emissions te minrel active = Some l -> 0 <= te ->
  Forall (fun a : Z * Z * Z * Z => 0 <= snd (fst a) /\ 0 <= snd a) active ->
  Forall (fun it : Z * Z => 0 <= snd it) l /\ zsum (map snd l) <= te.
Proof.
  unfold emissions. intros H Hte Ha.
  destruct (infos minrel active) as [is|] eqn:Ei; cbn [obind] in H; [|discriminate].
  pose proof (infos_ok _ _ _ Ei Ha) as Hok.
  destruct is as [|i0 is0]; [assert (l = []) by congruence; subst; cbn; split; [constructor|lia]|].
  set (is := i0 :: is0) in *.
  destruct (sum_left 0 (map (fun i : info => snd (fst i)) is)) as [ss|] eqn:Es; cbn [obind] in H; [|discriminate].
  apply sum_left_val in Es. cbn [Z.add] in Es.
  destruct (ddiv te ss) as [k|] eqn:Ek; cbn [obind] in H; [|discriminate].
  assert (Hss : 0 <= ss).
  { rewrite Es. clear -Hok. induction Hok; cbn; [lia|]. unfold info_ok in H. lia. }
  pose proof DD_pos as HD.
  destruct (Z.eq_dec ss 0) as [E0|E0].
  { unfold ddiv in Ek. rewrite E0 in Ek. destruct (in256 _); cbn in Ek; discriminate. }
  apply ddiv_some in Ek; [|lia|lia].
  assert (Hk0 : 0 <= k) by (subst k; apply Z.div_pos; nia).
  destruct (emissions_split k Hk0 is l Hok H) as [Hl0 Hl]. split; [auto|].
  pose proof (Z.mul_div_le (te * DD) ss ltac:(lia)). rewrite <- Ek in *. rewrite <- Es in Hl. nia.
Qed.
