(* C12 — get_commit_info lists exactly the substates whose final value differs in kind from the
   database, with the right kind and sizes. *)
From Coq Require Import List NArith Bool Lia.
Import ListNotations.
Require Import RV.Model.C12_Track RV.Model.C12_View RV.Proof.C12_Maps RV.Proof.C12_Track RV.Proof.C12_Main.
Open Scope N_scope.

(* what the entry must be, from the emitted update and the database *)
Definition commit_expected (n p k : N) (u : option dbupd) (b : option value) : option commit :=
  match u, b with
  | Some (USet v), None => Some (CInsert n p k (vsize v))
  | Some (USet v), Some o => Some (CUpdate n p k (vsize v) (vsize o))
  | Some UDelete, Some o => Some (CDelete n p k (vsize o))
  | Some UDelete, None => None
  | None, _ => None
  end.

Lemma commit_of_expected : forall db n p k tv, tsv_ok tv (al_get k (db n p)) ->
  commit_of db n p k tv = commit_expected n p k (tsv_update tv) (al_get k (db n p)).
Proof.
  intros db n p k tv H. destruct tv as [v| |v|old w|v|w|]; simpl in *;
    try (rewrite H; reflexivity); try destruct w; try (rewrite H; reflexivity);
    destruct (al_get k (db n p)); reflexivity.
Qed.

Lemma in_commit_subs : forall db n p subs c, NoDup (map fst subs) ->
  (In c (commit_subs db n p subs) <-> exists k tv, al_get k subs = Some tv /\ commit_of db n p k tv = Some c).
Proof.
  induction subs as [|[k0 tv0] r IH]; simpl; intros c Hn.
  - split; [intros []|intros [k [tv [X _]]]; discriminate].
  - inversion Hn; subst. split.
    + intros H. destruct (commit_of db n p k0 tv0) as [c0|] eqn:C.
      * destruct H as [<-|H].
        -- exists k0, tv0. rewrite N.eqb_refl. auto.
        -- apply IH in H; [|assumption]. destruct H as [k [tv [X Y]]]. exists k, tv. split; [|assumption].
           destruct (k =? k0) eqn:E; [|assumption]. apply N.eqb_eq in E; subst. exfalso. apply H1. apply al_get_some_in. congruence.
      * apply IH in H; [|assumption]. destruct H as [k [tv [X Y]]]. exists k, tv. split; [|assumption].
        destruct (k =? k0) eqn:E; [|assumption]. apply N.eqb_eq in E; subst. exfalso. apply H1. apply al_get_some_in. congruence.
    + intros [k [tv [X Y]]]. destruct (k =? k0) eqn:E.
      * apply N.eqb_eq in E; subst. inversion X; subst. rewrite Y. left; reflexivity.
      * assert (In c (commit_subs db n p r)) by (apply IH; [assumption|eauto]).
        destruct (commit_of db n p k0 tv0); [right|]; assumption.
Qed.

Lemma in_get_commit_info : forall db t c, nodes_wf (t_nodes t) -> subs_sorted (t_nodes t) ->
  (In c (get_commit_info db t) <->
   exists n p k tv, tlookup (t_nodes t) n p k = Some tv /\ commit_of db n p k tv = Some c).
Proof.
  intros db t c [Wn Wp] S. unfold get_commit_info. rewrite in_flat_map. split.
  - intros [[n nd] [Hn H]]. simpl in H. apply in_flat_map in H. destruct H as [[p ps] [Hp H]]. simpl in H.
    assert (An : al_get n (t_nodes t) = Some nd) by (apply in_nodup_al_get; assumption).
    assert (Ap : al_get p (tn_parts nd) = Some ps) by (apply in_nodup_al_get; [eapply Wp; eauto|assumption]).
    assert (F : find_part (t_nodes t) n p = Some ps) by (unfold find_part; rewrite An; assumption).
    apply in_commit_subs in H; [|apply sorted_nodup; eapply S; eauto].
    destruct H as [k [tv [X Y]]]. exists n, p, k, tv. split; [|assumption]. unfold tlookup. rewrite F. assumption.
  - intros [n [p [k [tv [X Y]]]]]. unfold tlookup, find_part in X.
    destruct (al_get n (t_nodes t)) as [nd|] eqn:An; [|discriminate].
    destruct (al_get p (tn_parts nd)) as [ps|] eqn:Ap; [|discriminate].
    exists (n, nd). split; [apply al_get_in; assumption|]. simpl. apply in_flat_map.
    exists (p, ps). split; [apply al_get_in; assumption|]. simpl.
    apply in_commit_subs; [|eauto]. apply sorted_nodup. apply (S n p). unfold find_part. rewrite An. assumption.
Qed.

(* in every reachable state: c is listed iff some tracked substate's emitted update and the database
   value at its key call for exactly c *)
Lemma commit_info_exact : forall db t s c, db_wf db -> reach db t s ->
  (In c (get_commit_info db t) <->
   exists n p k tv, tlookup (t_nodes t) n p k = Some tv /\
                    commit_expected n p k (tsv_update tv) (al_get k (db n p)) = Some c).
Proof.
  intros db t s c Hdb R. pose proof (reach_inv _ _ _ Hdb R) as I.
  rewrite in_get_commit_info; [|apply (inv_wf _ _ _ I)|apply (inv_sorted _ _ _ I)].
  split; intros [n [p [k [tv [X Y]]]]]; exists n, p, k, tv; (split; [assumption|]).
  - rewrite <- commit_of_expected; [assumption|]. eapply (inv_ok _ _ _ I); eauto.
  - rewrite commit_of_expected; [assumption|]. eapply (inv_ok _ _ _ I); eauto.
Qed.
