(* C31 — lexer error + diagnostics: the span of every lexer error and of every token is accepted by the
   (fixed) snippet arithmetic — no Panic for any text. *)
From Coq Require Import List Arith NArith ZArith Bool Lia.
Import ListNotations.
Require Import RV.Model.C30_Text RV.Model.C31_Lexer RV.Model.C31_Snippet RV.Proof.C31_Snippet RV.Proof.C31_Spans.
Open Scope N_scope.

Lemma span_snippet_total : forall text bytes a b, a <= b -> b <= ln text -> lenN text <= bytes ->
  snippet true text bytes a (line_idx text a) b (line_idx text b) <> SnPanic.
Proof.
  intros text bytes a b Hab Hb Hbytes. unfold line_idx, ln in *.
  pose proof (snippet_total_fixed text bytes (N.to_nat a) (N.to_nat b)) as H.
  rewrite !N2Nat.id in H. apply H; [lia | lia | exact Hbytes].
Qed.
Theorem lex_error_snippet_total : forall text bytes k a b, tokenize text = LErr k a b -> lenN text <= bytes ->
  snippet true text bytes a (line_idx text a) b (line_idx text b) <> SnPanic.
Proof.
  intros text bytes k a b E Hbytes. pose proof (lex_spans_wellformed text) as H. rewrite E in H.
  apply span_snippet_total; [apply H | apply H | exact Hbytes].
Qed.
(* parser / generator error spans run from the start of one token to the end of a token (or are the empty
   span at a token end): *)
Theorem token_span_snippet_total : forall text bytes ts t1 a1 b1 t2 a2 b2, tokenize text = LOk ts ->
  In (t1, a1, b1) ts -> In (t2, a2, b2) ts -> a1 <= b2 -> lenN text <= bytes ->
  snippet true text bytes a1 (line_idx text a1) b2 (line_idx text b2) <> SnPanic.
Proof.
  intros text bytes ts t1 a1 b1 t2 a2 b2 E I1 I2 Hle Hbytes. pose proof (lex_spans_wellformed text) as H. rewrite E in H.
  rewrite Forall_forall in H. pose proof (H _ I2) as H2. cbn [span_ok] in H2.
  apply span_snippet_total; [exact Hle | apply H2 | exact Hbytes].
Qed.
