From Coq Require Import ZArith List Bool Lia.
Import ListNotations.
Require Import RV.Lib.DecCore RV.Lib.DecCoreFacts RV.Model.C25_Round RV.Model.C24_Dec RV.Model.C26_RootPow
  RV.Proof.C25_Round RV.Proof.C24_Dec RV.Proof.C26_Powi RV.Proof.C26_PowiMag.
Open Scope Z_scope.
Section Powi3.
  Variable f : fmt.
  Hypothesis Hok : fmt_ok f.
  Local Notation ONE := (one f).
  Local Notation K := (2 ^ (fbits f - 1)).
  (* bases 1 and -1 *)
  Lemma exact_one : exact_or_none f ONE = Ok ONE /\ exact_or_none f (- ONE) = Ok (- ONE).
  Proof.
    pose proof (one_pos f Hok). pose proof (one_lt_K f Hok).
    unfold exact_or_none, in_f. split; rewrite (proj2 (in_ity_iff _ _)); try reflexivity;
      apply <- (InF_iff f); lia.
  Qed.
  Lemma ppow_unit_pos : forall k' e, 0 <= e < 2 ^ Z.of_nat k' -> ppow_go f (S k') ONE e = Ok ONE.
  Proof.
    pose proof (one_pos f Hok) as H1. destruct exact_one as [E1 _].
    induction k' as [|k IH]; intros e He.
    - change (2 ^ Z.of_nat 0) with 1 in He. assert (e = 0) by lia. subst e. reflexivity.
    - rewrite ppow_go_S. destruct (Z.eqb_spec e 0); [reflexivity|]. destruct (Z.eqb_spec e 1); [reflexivity|].
      rewrite Nat2Z.inj_succ, Z.pow_succ_r in He by lia.
      rewrite Z.quot_mul by lia. rewrite E1. cbn [bind].
      assert (Hq : 0 <= Z.quot e 2 < 2 ^ Z.of_nat k) by (split; [apply Z.quot_pos; lia|apply Z.quot_lt_upper_bound; lia]).
      assert (Hq' : 0 <= Z.quot (e - 1) 2 < 2 ^ Z.of_nat k) by (split; [apply Z.quot_pos; lia|apply Z.quot_lt_upper_bound; lia]).
      destruct (Z.rem e 2 =? 0); [apply IH; exact Hq|].
      rewrite IH by exact Hq'. cbn [bind]. rewrite Z.quot_mul by lia. exact E1.
  Qed.
  Lemma ppow_unit_neg k' e : 0 <= e < 2 ^ Z.of_nat (S k') ->
    ppow_go f (S (S k')) (- ONE) e = Ok (if Z.rem e 2 =? 0 then ONE else - ONE).
  Proof.
    intros He. pose proof (one_pos f Hok) as H1. destruct exact_one as [E1 E2].
    rewrite ppow_go_S. destruct (Z.eqb_spec e 0) as [->|]; [reflexivity|].
    destruct (Z.eqb_spec e 1) as [->|]; [reflexivity|].
    rewrite Nat2Z.inj_succ, Z.pow_succ_r in He by lia.
    replace (- ONE * - ONE) with (ONE * ONE) by ring. rewrite Z.quot_mul by lia. rewrite E1. cbn [bind].
    assert (Hq : 0 <= Z.quot e 2 < 2 ^ Z.of_nat k') by (split; [apply Z.quot_pos; lia|apply Z.quot_lt_upper_bound; lia]).
    assert (Hq' : 0 <= Z.quot (e - 1) 2 < 2 ^ Z.of_nat k') by (split; [apply Z.quot_pos; lia|apply Z.quot_lt_upper_bound; lia]).
    destruct (Z.rem e 2 =? 0); [apply ppow_unit_pos; exact Hq|].
    rewrite ppow_unit_pos by exact Hq'. cbn [bind].
    rewrite Z.quot_mul by lia. exact E2.
  Qed.

  Theorem powi_unit exp : I64_MIN < exp <= I64_MAX ->
    dec_powi f ONE exp = Ok ONE /\
    dec_powi f (- ONE) exp = Ok (if Z.rem exp 2 =? 0 then ONE else - ONE).
  Proof.
    intros He. pose proof (one_pos f Hok) as H1. pose proof (one_lt_K f Hok) as H3.
    destruct exact_one as [E1 E2].
    assert (HP : InF f ONE) by (apply (one_InF f Hok)).
    assert (HN : InF f (- ONE)) by (apply <- (InF_iff f); lia).
    destruct (Z_lt_le_dec exp 0) as [Hneg|Hpos].
    - rewrite !powi_neg_step by (try assumption; lia).
      destruct (Z.eqb_spec ONE 0); [lia|]. destruct (Z.eqb_spec (- ONE) 0); [lia|].
      assert (Eq1 : Z.quot (ONE * ONE) ONE = ONE) by (apply Z.quot_mul; lia).
      assert (Eq2 : Z.quot (ONE * ONE) (- ONE) = - ONE).
      { replace (ONE * ONE) with ((- ONE) * (- ONE)) by ring. apply Z.quot_mul. lia. }
      rewrite Eq1, Eq2.
      rewrite E1, E2. cbn [bind]. destruct (Z.eqb_spec exp I64_MIN); [lia|].
      assert (Hb : 0 <= - exp < 2 ^ Z.of_nat 64).
      { unfold I64_MIN in *. change (2 ^ Z.of_nat 64) with (2 ^ 64). lia. }
      split; [apply (ppow_unit_pos 64%nat); exact Hb|].
      rewrite (ppow_unit_neg 63%nat) by exact Hb.
      rewrite Z.rem_opp_l by lia. destruct (Z.eqb_spec (Z.rem exp 2) 0) as [E|E].
      + rewrite E. reflexivity.
      + destruct (Z.eqb_spec (- Z.rem exp 2) 0); [lia|reflexivity].
    - rewrite !powi_nonneg_step by (try assumption; lia).
      assert (Hb : 0 <= exp < 2 ^ Z.of_nat 65).
      { unfold I64_MAX in *. change (2 ^ Z.of_nat 65) with (2 ^ 65). lia. }
      split; [apply (ppow_unit_pos 65%nat); exact Hb|apply (ppow_unit_neg 64%nat); exact Hb].
  Qed.
End Powi3.
