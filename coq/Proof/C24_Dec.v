(* Proof/C24_Dec.v — the checked arithmetic and the conversions of the model are exact or fail:
   the result is the exact rational result truncated toward zero when that is representable,
   and a failure (never a panic) otherwise. *)
From Coq Require Import ZArith List Bool Lia.
Import ListNotations.
Require Import RV.Lib.DecCore RV.Lib.DecCoreFacts RV.Model.C25_Round RV.Model.C24_Dec RV.Proof.C25_Round.
Open Scope Z_scope.

Ltac Zify.zify_post_hook ::= Z.to_euclidean_division_equations.

Definition exact_or_none (f : fmt) (r : Z) : res Z := if in_f f r then Ok r else Err ENone.

Lemma quot_between x d : d <> 0 ->
  (0 <= x -> 0 <= Z.abs (Z.quot x d) <= x) /\ (x <= 0 -> 0 <= Z.abs (Z.quot x d) <= - x).
Proof. intros. nia. Qed.

Lemma quot_between_pos x d : 0 < d ->
  (0 <= x -> 0 <= Z.quot x d <= x) /\ (x <= 0 -> x <= Z.quot x d <= 0).
Proof. intros. nia. Qed.

Section Arith.
  Variable f : fmt.
  Hypothesis Hok : fmt_ok f.

  Let K := 2 ^ (fbits f - 1).
  Let M := 2 ^ (wbits f - fbits f).

  Lemma KM : 2 ^ (wbits f - 1) = K * M.
  Proof.
    destruct Hok as (Hsc & Hfb & Hwb & _). unfold K, M.
    rewrite <- Z.pow_add_r by lia. f_equal. lia.
  Qed.
  Lemma K_pos : 0 < K. Proof. destruct Hok as (Hsc & Hfb & _). apply pow2_pos. lia. Qed.
  Lemma one_pos : 0 < one f.
  Proof. destruct Hok as (Hsc & _). unfold one. apply pow10_pos. lia. Qed.
  Lemma one_lt_M : one f < M. Proof. destruct Hok as (_ & _ & _ & H & _). exact H. Qed.
  Lemma one_lt_K : 2 * one f < K. Proof. destruct Hok as (_ & _ & _ & _ & H & _). exact H. Qed.

  Lemma InF_iff z : InF f z <-> - K <= z <= K - 1.
  Proof. unfold InF, fty. rewrite InTy_SI. reflexivity. Qed.
  Lemma InW_iff z : InTy (wty f) z <-> - (K * M) <= z <= K * M - 1.
  Proof. unfold wty. rewrite InTy_SI, KM. reflexivity. Qed.

  Lemma widen v : InF f v -> from_bnum (fty f) (wty f) v = Ok v.
  Proof.
    intros H. destruct Hok as (Hsc & Hfb & Hwb & _). unfold wty.
    apply from_bnum_widen; cbn [ibits fty SI]; try lia. exact H.
  Qed.
  Lemma one_InF : InF f (one f).
  Proof. apply <- InF_iff. pose proof one_pos. pose proof one_lt_K. lia. Qed.

  Lemma narrow v : InTy (wty f) v ->
    to_none (try_from_bnum (wty f) (fty f) v) = exact_or_none f v.
  Proof.
    intros H. destruct Hok as (Hsc & Hfb & Hwb & _). unfold fty at 1.
    rewrite try_from_bnum_narrow; cbn [ibits isigned wty SI]; try lia; [|exact H].
    unfold exact_or_none, in_f, fty. destruct (in_ity (SI (fbits f)) v); reflexivity.
  Qed.

  Theorem add_exact a b : dec_add f a b = exact_or_none f (a + b).
  Proof. reflexivity. Qed.
  Theorem sub_exact a b : dec_sub f a b = exact_or_none f (a - b).
  Proof. reflexivity. Qed.
  Theorem neg_exact a : dec_neg f a = exact_or_none f (- a).
  Proof. reflexivity. Qed.
  Theorem abs_exact a : InF f a -> dec_abs f a = exact_or_none f (Z.abs a).
  Proof.
    intros Ha. apply -> InF_iff in Ha. pose proof K_pos. unfold dec_abs, exact_or_none, in_f.
    assert (Hmin : fmin f = - K) by reflexivity. rewrite Hmin.
    destruct (Z.eqb_spec a (- K)) as [->|Hne]; cbn [negb].
    - replace (in_ity (fty f) (Z.abs (- K))) with false; [reflexivity|].
      symmetry. apply in_ity_false. intros Hc. apply -> InF_iff in Hc. lia.
    - assert (Hin : InTy (fty f) (Z.abs a)) by (apply <- InF_iff; lia).
      rewrite pan_in by exact Hin. apply in_ity_iff in Hin. rewrite Hin. reflexivity.
  Qed.

  Theorem mul_exact a b : InF f a -> InF f b ->
    dec_mul f a b = exact_or_none f (Z.quot (a * b) (one f)).
  Proof.
    intros Ha Hb. unfold dec_mul. rewrite (widen a Ha), (widen b Hb), (widen _ one_InF). cbn [bind].
    pose proof one_pos as H1. pose proof one_lt_M as H2. pose proof one_lt_K as H3. pose proof K_pos as H4.
    unfold cmul. destruct (in_ity (wty f) (a * b)) eqn:Hin.
    - rewrite chk_in by (apply in_ity_iff; exact Hin). cbn [bind].
      apply in_ity_iff in Hin; apply -> InW_iff in Hin.
      unfold cdiv. destruct (Z.eqb_spec (one f) 0); [lia|].
      assert (Hq : InTy (wty f) (Z.quot (a * b) (one f))).
      { apply <- InW_iff. pose proof (quot_between_pos (a * b) (one f) ltac:(lia)). lia. }
      rewrite chk_in by exact Hq. cbn [bind]. apply narrow. exact Hq.
    - unfold chk. rewrite Hin. cbn [bind].
      apply in_ity_false in Hin. rewrite InW_iff in Hin.
      unfold exact_or_none, in_f. replace (in_ity (fty f) (Z.quot (a * b) (one f))) with false; [reflexivity|].
      symmetry. apply in_ity_false. intros Hc. apply -> InF_iff in Hc.
      destruct (Z_le_gt_dec (K * M) (a * b)) as [Hbig|Hsmall].
      + pose proof (quot_big_pos (a * b) (one f) K M H1 H2 H4 Hbig). lia.
      + assert (Hneg : a * b < - (K * M)) by lia.
        pose proof (quot_big_neg (a * b) (one f) K M H1 H2 ltac:(lia) Hneg). lia.
  Qed.

  Theorem div_exact a b : InF f a -> InF f b ->
    dec_div f a b = if b =? 0 then Err ENone else exact_or_none f (Z.quot (a * one f) b).
  Proof.
    intros Ha Hb. unfold dec_div. rewrite (widen a Ha), (widen b Hb), (widen _ one_InF). cbn [bind].
    pose proof one_pos as H1. pose proof one_lt_M as H2. pose proof one_lt_K as H3. pose proof K_pos as H4.
    apply -> InF_iff in Ha.
    assert (Hprod : - (K * M) < a * one f < K * M) by nia.
    unfold cmul. rewrite chk_in by (apply <- InW_iff; lia). cbn [bind].
    unfold cdiv. destruct (Z.eqb_spec b 0); [reflexivity|].
    assert (Hq : InTy (wty f) (Z.quot (a * one f) b)).
    { apply <- InW_iff. pose proof (quot_between (a * one f) b ltac:(lia)). lia. }
    rewrite chk_in by exact Hq. cbn [bind]. apply narrow. exact Hq.
  Qed.

  (* From<primitive integer>: exact, never a panic (primitive integers have at most 128 bits) *)
  Theorem from_prim_exact src v :
    - 2 ^ 127 <= v <= 2 ^ 128 - 1 -> 2 ^ 128 * one f < K ->
    dec_from_prim f src v = Ok (v * one f).
  Proof.
    intros Hv Hbig. pose proof one_pos as H1. unfold dec_from_prim.
    assert (Hin : InTy (fty f) v) by (apply <- InF_iff; nia).
    apply in_ity_iff in Hin. rewrite Hin. cbn [bind].
    unfold pmul. apply pan_in. apply <- InF_iff. nia.
  Qed.

  (* TryFrom<bnum integer>: exact or Overflow *)
  Theorem try_from_int_exact src v :
    1 <= ibits src -> InTy src v ->
    dec_try_from_int f src v = if in_f f (v * one f) then Ok (v * one f) else Err EOverflow.
  Proof.
    intros Hs Hv. destruct Hok as (Hsc & Hfb & Hwb & _).
    pose proof one_pos as H1. pose proof K_pos as H4.
    unfold dec_try_from_int.
    assert (Hmulin : forall z, InF f z ->
      or_err EOverflow (cmul (fty f) z (one f)) = if in_f f (z * one f) then Ok (z * one f) else Err EOverflow).
    { intros z _. unfold cmul, chk, in_f. destruct (in_ity (fty f) (z * one f)); reflexivity. }
    assert (Hout : ~ InF f v -> in_f f (v * one f) = false).
    { intros Hn. apply in_ity_false. intros Hc. apply -> InF_iff in Hc. rewrite InF_iff in Hn. nia. }
    destruct ((ibits src =? fbits f) && isigned src) eqn:Hsame.
    - apply andb_true_iff in Hsame. destruct Hsame as [Hb Hsg]. apply Z.eqb_eq in Hb.
      cbn [or_err bind]. apply Hmulin. unfold InF, fty. destruct src as [sb ss]. cbn in *. subst. exact Hv.
    - destruct (Z.ltb_spec (ibits src) (fbits f)) as [Hlt|Hge].
      + unfold fty at 1. rewrite from_bnum_widen by (try lia; exact Hv). cbn [or_err bind].
        apply Hmulin. unfold InF, fty.
        assert (Hp : 2 ^ ibits src <= 2 ^ (fbits f - 1)) by (apply Z.pow_le_mono_r; lia).
        pose proof (pow2_split (ibits src) Hs). pose proof (pow2_pos (ibits src - 1) ltac:(lia)).
        apply <- InTy_SI. unfold InTy, imin, imax in Hv. destruct (isigned src); lia.
      + unfold fty at 1. rewrite try_from_bnum_narrow; [|lia| |exact Hv].
        2:{ destruct (isigned src) eqn:Hsg; [|lia].
            apply andb_false_iff in Hsame. destruct Hsame as [Hb|Hb]; [|discriminate].
            apply Z.eqb_neq in Hb. lia. }
        destruct (in_ity (SI (fbits f)) v) eqn:Hin; cbn [or_err bind].
        * apply Hmulin. apply in_ity_iff. exact Hin.
        * rewrite Hout; [reflexivity|]. apply in_ity_false. exact Hin.
  Qed.
End Arith.

(* ---------------------------------------------------------------------------------------------- *)
(* conversions between the two types (concrete widths) *)

Theorem dec_to_pdec_exact a : InF DEC a -> dec_to_pdec a = Ok (a * 10 ^ 18).
Proof.
  intros Ha. unfold dec_to_pdec.
  change (from_bnum I192 I256 a) with (from_bnum I192 (SI 256) a).
  rewrite (from_bnum_widen I192 256 a) by (cbn; try lia; exact Ha). cbn [bind].
  change (ppow I256 10 (scale PDEC - scale DEC)) with (Ok (10 ^ 18) : res Z). cbn [bind].
  unfold pmul. apply pan_in. unfold InF, fty in Ha. cbn [fbits DEC] in Ha.
  apply -> InTy_SI in Ha. apply <- InTy_SI.
  change (2 ^ (192 - 1)) with 3138550867693340381917894711603833208051177722232017256448 in Ha.
  change (2 ^ (256 - 1)) with 57896044618658097711785492504343953926634992332820282019728792003956564819968.
  change (10 ^ 18) with 1000000000000000000. lia.
Qed.

Theorem pdec_to_dec_trunc p : InF PDEC p ->
  pdec_to_dec p = if in_f DEC (Z.quot p (10 ^ 18)) then Ok (Z.quot p (10 ^ 18)) else Err EOverflow.
Proof.
  intros Hp. unfold pdec_to_dec, pdec_truncate.
  rewrite (round_spec_thm PDEC fmt_ok_PDEC p (scale DEC) ToZero Hp) by (cbn; lia).
  cbv zeta. cbn [round_spec]. unfold step. change (10 ^ (scale PDEC - scale DEC)) with 1000000000000000000.
  change (10 ^ 18) with 1000000000000000000.
  unfold InF, fty in Hp. cbn [fbits PDEC] in Hp. apply -> InTy_SI in Hp.
  change (2 ^ (256 - 1)) with 57896044618658097711785492504343953926634992332820282019728792003956564819968 in Hp.
  set (D := 1000000000000000000) in *.
  assert (Hr : r_toward_zero D p = D * Z.quot p D).
  { unfold r_toward_zero, r_lo, r_hi. destruct (Z.leb_spec 0 p); [subst D; lia|].
    destruct (Z.eqb_spec (p mod D) 0); subst D; lia. }
  rewrite Hr.
  assert (Hin : InTy (fty PDEC) (D * Z.quot p D)).
  { unfold fty. cbn [fbits PDEC]. apply <- InTy_SI.
    change (2 ^ (256 - 1)) with 57896044618658097711785492504343953926634992332820282019728792003956564819968.
    subst D; lia. }
  unfold in_f. rewrite (proj2 (in_ity_iff _ _) Hin). cbn [bind].
  change (ppow I256 10 (scale PDEC - scale DEC)) with (Ok D : res Z). cbn [bind].
  unfold cdiv. change (D =? 0) with false. cbv iota.
  assert (Hq : Z.quot (D * Z.quot p D) D = Z.quot p D) by (subst D; lia).
  rewrite Hq.
  assert (Hq256 : InTy I256 (Z.quot p D)).
  { apply <- InTy_SI.
    change (2 ^ (256 - 1)) with 57896044618658097711785492504343953926634992332820282019728792003956564819968.
    subst D; lia. }
  rewrite chk_in by exact Hq256. cbn [bind].
  change (try_from_bnum I256 I192) with (try_from_bnum I256 (SI 192)).
  rewrite (try_from_bnum_narrow I256 192) by (cbn; try lia; exact Hq256).
  change (in_ity (SI 192)) with (in_ity (fty DEC)).
  destruct (in_ity (fty DEC) (Z.quot p D)); reflexivity.
Qed.

(* the defect that was repaired: before the fix the narrowing rejected the target minimum, so
   MIN * 1 reported overflow although the exact result MIN is representable *)
Lemma mul_min_prefix_refuted :
  dec_mul_prefix DEC (fmin DEC) (one DEC) = Err ENone /\
  dec_mul DEC (fmin DEC) (one DEC) = Ok (fmin DEC) /\
  in_f DEC (Z.quot (fmin DEC * one DEC) (one DEC)) = true.
Proof. repeat split; vm_compute; reflexivity. Qed.
