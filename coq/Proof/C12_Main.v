(* C12 — every operation refines the view specification; runs conform. *)
From Coq Require Import List NArith Bool Lia.
Import ListNotations.
Require Import RV.Model.C12_Track RV.Model.C12_View RV.Proof.C12_Maps RV.Proof.C12_Track RV.Proof.C12_Ops
  RV.Proof.C12_Revert RV.Proof.C12_Scan RV.Proof.C12_Drain.
Open Scope N_scope.

Lemma step_refines : forall db t s o t' r evs,
  db_wf db -> Inv db t s -> adm db t s o -> step db t o = (t', r, evs) ->
  spec_ok s o r /\ (r <> RPanic -> Inv db t' (spec_next db s o r)).
Proof.
  intros db t s o t' r evs Hdb I A G. destruct o; simpl in G.
  - (* create_node *)
    destruct (step_create_node db t s n subs I A) as [t1 [evs1 [E I1]]]. rewrite E in G.
    injection G as <- <- <-. split; [reflexivity|auto].
  - destruct (get_substate db t n p k) as [[t1 r1] e1] eqn:E. injection G as <- <- <-.
    destruct (step_get _ _ _ _ _ _ _ _ _ I E) as [R I1]. subst. split; [reflexivity|auto].
  - destruct (set_substate t n p k v) as [t1 e1] eqn:E. injection G as <- <- <-.
    split; [reflexivity|]. intros _. eapply step_set; eauto.
  - destruct (remove_substate db t n p k) as [[t1 r1] e1] eqn:E. injection G as <- <- <-.
    destruct (step_remove _ _ _ _ _ _ _ _ _ I E) as [R I1]. subst. split; [reflexivity|auto].
  - destruct (force_write t n p k) as [t1|] eqn:E; injection G as <- <- <-.
    + split; [left; reflexivity|]. intros _. eapply step_force_write; eauto.
    + split; [right; reflexivity|]. intros X; congruence.
  - injection G as <- <- <-. split; [eexists; reflexivity|auto].
  - destruct (scan_keys db t n p limit) as [[t1 r1] e1] eqn:E. injection G as <- <- <-. split.
    + exists r1. split; [reflexivity|]. eapply step_scan_keys_result; eauto.
    + intros _. simpl. eapply step_scan_keys_state; eauto.
  - destruct (drain_substates db t n p limit) as [[t1 r1] e1] eqn:E. injection G as <- <- <-.
    destruct (step_drain _ _ _ _ _ _ _ _ _ Hdb I E) as [S1 [S2 I1]]. split.
    + exists r1. auto.
    + auto.
  - destruct (scan_sorted db t n p limit) as [[t1 r1] e1] eqn:E. injection G as <- <- <-. split.
    + simpl. f_equal. eapply step_scan_sorted_result; eauto.
    + intros _. simpl. eapply step_scan_sorted_state; eauto.
  - injection G as <- <- <-. split; [reflexivity|]. intros _. apply step_delete_partition. assumption.
  - destruct (revert_no_panic _ _ _ I) as [t1 E]. rewrite E in G. injection G as <- <- <-.
    split; [reflexivity|]. intros _. eapply step_revert; eauto.
Qed.

Lemma reach_inv : forall db t s, db_wf db -> reach db t s -> Inv db t s.
Proof.
  intros db t s Hdb R. induction R.
  - apply inv_init. assumption.
  - destruct (step_refines _ _ _ _ _ _ _ Hdb IHR H H0) as [_ X]. auto.
Qed.

Lemma conforms_inv : forall db ops t s, db_wf db -> Inv db t s -> conforms db t s ops.
Proof.
  induction ops as [|o r IH]; simpl; intros t s Hdb I; [exact Logic.I|].
  intros A. destruct (step db t o) as [[t' rs] evs] eqn:E.
  destruct (step_refines _ _ _ _ _ _ _ Hdb I A E) as [S1 S2]. split; [assumption|].
  destruct rs; try exact Logic.I; apply IH; auto; apply S2; discriminate.
Qed.

Lemma refines_view : forall db ops, db_wf db -> conforms db track_new (vinit db) ops.
Proof. intros. apply conforms_inv; [assumption|apply inv_init; assumption]. Qed.

(* --- statements in terms of reachable states --- *)
Lemma read_your_writes : forall db t s n p k, db_wf db -> reach db t s ->
  snd (fst (get_substate db t n p k)) = al_get k (v_view s n p) /\
  snd (fst (remove_substate db t n p k)) = al_get k (v_view s n p).
Proof.
  intros db t s n p k Hdb R. pose proof (reach_inv _ _ _ Hdb R) as I. split.
  - destruct (get_substate db t n p k) as [[t1 r1] e1] eqn:E. simpl. eapply step_get; eauto.
  - destruct (remove_substate db t n p k) as [[t1 r1] e1] eqn:E. simpl. eapply step_remove; eauto.
Qed.

Lemma scan_spec_count : forall limit (pv : list (key * value)) ks, sorted pv -> scan_spec limit pv ks ->
  N.of_nat (length ks) = N.min limit (N.of_nat (length pv)).
Proof.
  intros limit pv ks Hs [H1 [H2 [H3 H4]]].
  assert (L1 : (length ks <= length pv)%nat).
  { rewrite <- (map_length fst pv). apply NoDup_incl_length; [assumption|]. intros k Hin. apply al_get_some_in. auto. }
  destruct (N.lt_ge_cases (N.of_nat (length ks)) limit) as [Hlt|Hge]; [|lia].
  assert (L2 : (length pv <= length ks)%nat).
  { rewrite <- (map_length fst pv). apply NoDup_incl_length; [apply sorted_nodup; assumption|].
    intros k Hin. apply H4; [assumption|]. apply al_get_some_in. assumption. }
  lia.
Qed.

Lemma scan_keys_ok : forall db t s n p limit, db_wf db -> reach db t s ->
  let ks := snd (fst (scan_keys db t n p limit)) in
  scan_spec limit (v_view s n p) ks /\ N.of_nat (length ks) = N.min limit (N.of_nat (length (v_view s n p))).
Proof.
  intros db t s n p limit Hdb R. pose proof (reach_inv _ _ _ Hdb R) as I.
  destruct (scan_keys db t n p limit) as [[t1 r1] e1] eqn:E. simpl.
  pose proof (step_scan_keys_result _ _ _ _ _ _ _ _ _ Hdb I E) as S. split; [assumption|].
  apply scan_spec_count; [apply (inv_vsorted _ _ _ I)|assumption].
Qed.

Lemma drain_ok : forall db t s n p limit, db_wf db -> reach db t s ->
  let kvs := snd (fst (drain_substates db t n p limit)) in
  scan_spec limit (v_view s n p) (map fst kvs) /\
  N.of_nat (length kvs) = N.min limit (N.of_nat (length (v_view s n p))) /\
  (forall k v, In (k, v) kvs -> al_get k (v_view s n p) = Some v) /\
  (forall k, al_get k (v_view (spec_next db s (ODrain n p limit) (RKVs kvs)) n p) =
             if mem k kvs then None else al_get k (v_view s n p)).
Proof.
  intros db t s n p limit Hdb R. pose proof (reach_inv _ _ _ Hdb R) as I.
  destruct (drain_substates db t n p limit) as [[t1 r1] e1] eqn:E. simpl.
  destruct (step_drain _ _ _ _ _ _ _ _ _ Hdb I E) as [S1 [S2 I1]]. split; [assumption|]. split.
  - rewrite <- (map_length fst r1). apply scan_spec_count; [apply (inv_vsorted _ _ _ I)|assumption].
  - split; [assumption|]. intros k. unfold upd2. rewrite !N.eqb_refl. simpl.
    apply fold_del_spec. apply (inv_vsorted _ _ _ I).
Qed.

Lemma scan_sorted_ok : forall db t s n p limit, db_wf db -> reach db t s ->
  snd (fst (scan_sorted db t n p limit)) = firstn (N.to_nat limit) (v_view s n p) /\ sorted (v_view s n p).
Proof.
  intros db t s n p limit Hdb R. pose proof (reach_inv _ _ _ Hdb R) as I.
  destruct (scan_sorted db t n p limit) as [[t1 r1] e1] eqn:E. simpl. split.
  - eapply step_scan_sorted_result; eauto.
  - apply (inv_vsorted _ _ _ I).
Qed.

Lemma reach_revert_no_panic : forall db t s, db_wf db -> reach db t s -> revert t <> None.
Proof.
  intros db t s Hdb R. destruct (revert_no_panic db t s (reach_inv _ _ _ Hdb R)) as [t' E]. congruence.
Qed.

(* after a revert a read returns the database overlaid with the force-written snapshots only *)
Lemma revert_view : forall db t s t' n p k, db_wf db -> reach db t s -> no_blind_overwrite db t ->
  revert t = Some t' ->
  snd (fst (get_substate db t' n p k)) =
    match fw_get (v_fw s) n p k with Some x => x | None => al_get k (db n p) end
  /\ forall n', node_is_new (t_nodes t') n' = false.
Proof.
  intros db t s t' n p k Hdb R Hnb E. pose proof (reach_inv _ _ _ Hdb R) as I.
  pose proof (step_revert _ _ _ _ Hdb I Hnb E) as I1. split.
  - destruct (get_substate db t' n p k) as [[t1 r1] e1] eqn:G. simpl.
    destruct (step_get _ _ _ _ _ _ _ _ _ I1 G) as [X _]. rewrite X. simpl.
    apply fw_view_spec. apply Hdb.
  - intros n'. rewrite (inv_new _ _ _ I1). reflexivity.
Qed.

(* the known finding: a blind write over a database value, reverted, then read *)
Definition witness_db : dbfun := fun n p => if (n =? 0) && (p =? 0) then [(0, (1, 1))] else [].
Lemma witness_db_wf : db_wf witness_db.
Proof. intros n p. unfold witness_db. destruct ((n =? 0) && (p =? 0)); exact Logic.I. Qed.
Lemma read_after_revert_refuted :
  exists t s t', reach witness_db t s /\ revert t = Some t' /\
    snd (fst (get_substate witness_db t' 0 0 0)) = None /\
    al_get 0 (v_view (spec_next witness_db s ORevert RUnit) 0 0) = Some (1, 1).
Proof.
  eexists _, _, _. split.
  - eapply (reach_step witness_db track_new (vinit witness_db) (OSet 0 0 0 (2, 1))).
    + apply reach_init.
    + exact Logic.I.
    + reflexivity.
    + discriminate.
  - split; [reflexivity|]. split; reflexivity.
Qed.
