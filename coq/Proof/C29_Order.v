(* C29 — order, inverses, arithmetic. *)
From Coq Require Import List ZArith Bool Lia.
Import ListNotations.
Require Import RV.Model.C29_Calendar RV.Proof.C29_Calendar RV.Proof.C29_ToInstant.
Open Scope Z_scope.

Lemma sod_bounds : forall d, valid_dt d ->
  0 <= hour d * 3600 + minute d * 60 + second d < 86400.
Proof. intros d (_ & _ & _ & Hh & Hmi & Hs). lia. Qed.

Lemma greg_lt : forall a b, valid_dt a -> valid_dt b ->
  dt_compare a b = Lt -> greg_seconds a < greg_seconds b.
Proof.
  intros a b Va Vb. pose proof (sod_bounds a Va) as Sa. pose proof (sod_bounds b Vb) as Sb.
  destruct a as [y1 m1 d1 h1 i1 s1], b as [y2 m2 d2 h2 i2 s2].
  destruct Va as (Hy1 & Hm1 & Hd1 & Hh1 & Hi1 & Hs1), Vb as (Hy2 & Hm2 & Hd2 & Hh2 & Hi2 & Hs2).
  unfold dt_compare, dt_key, greg_seconds in *. cbn [year month day hour minute second lex_compare] in *.
  pose proof (dfc_bounds y1 m1 d1 Hm1 Hd1) as [A1 A2].
  pose proof (dfc_bounds y2 m2 d2 Hm2 Hd2) as [B1 B2].
  destruct (Z.compare_spec y1 y2) as [Ey|Ly|Gy]; [subst y2| |discriminate].
  2:{ intros _. pose proof (dby_mono (y1 + 1) y2 ltac:(lia)). lia. }
  destruct (Z.compare_spec m1 m2) as [Em|Lm|Gm]; [subst m2| |discriminate].
  2:{ intros _. pose proof (dbm_mono (greg_leap y1) m1 m2 ltac:(lia) Lm ltac:(lia)).
      unfold days_from_civil in *. lia. }
  destruct (Z.compare_spec d1 d2) as [Ed|Ld|Gd]; [subst d2| |discriminate].
  2:{ intros _. unfold days_from_civil in *. lia. }
  destruct (Z.compare_spec h1 h2) as [Eh|Lh|Gh]; [subst h2| |discriminate].
  2:{ intros _. lia. }
  destruct (Z.compare_spec i1 i2) as [Ei|Li|Gi]; [subst i2| |discriminate].
  2:{ intros _. lia. }
  destruct (Z.compare_spec s1 s2) as [Es|Ls|Gs]; [discriminate| |discriminate].
  intros _. lia.
Qed.

Lemma lex_compare_eq : forall a b, length a = length b -> lex_compare a b = Eq -> a = b.
Proof.
  induction a as [|x a IH]; destruct b as [|y b]; cbn; intros L H; try discriminate; [reflexivity|].
  destruct (Z.compare_spec x y); try discriminate. subst. f_equal. apply IH; [lia|exact H].
Qed.
Lemma lex_compare_antisym : forall a b, lex_compare a b = CompOpp (lex_compare b a).
Proof.
  induction a as [|x a IH]; destruct b as [|y b]; cbn; try reflexivity.
  rewrite (Z.compare_antisym x y). destruct (x ?= y); cbn; [apply IH|reflexivity|reflexivity].
Qed.

Lemma dt_compare_eq : forall a b, dt_compare a b = Eq -> a = b.
Proof.
  intros [y1 m1 d1 h1 i1 s1] [y2 m2 d2 h2 i2 s2] H.
  apply lex_compare_eq in H; [|reflexivity]. unfold dt_key in H. cbn in H. congruence.
Qed.

(* the derived order on valid date-times is the order of their Gregorian second counts *)
Theorem greg_compare : forall a b, valid_dt a -> valid_dt b ->
  dt_compare a b = (greg_seconds a ?= greg_seconds b).
Proof.
  intros a b Va Vb. destruct (dt_compare a b) eqn:C.
  - apply dt_compare_eq in C. subst. symmetry. apply Z.compare_refl.
  - symmetry. apply Z.compare_lt_iff. apply greg_lt; assumption.
  - symmetry. apply Z.compare_gt_iff. apply greg_lt; try assumption.
    unfold dt_compare in *. rewrite lex_compare_antisym, C. reflexivity.
Qed.

Lemma greg_inj : forall a b, valid_dt a -> valid_dt b -> greg_seconds a = greg_seconds b -> a = b.
Proof.
  intros a b Va Vb E. apply dt_compare_eq. rewrite greg_compare by assumption.
  rewrite E. apply Z.compare_refl.
Qed.

Lemma greg_in_range : forall d, valid_dt d -> in_range (greg_seconds d).
Proof.
  intros d V. pose proof (sod_bounds d V) as S.
  destruct V as (Hy & Hm & Hd & _). unfold greg_seconds.
  pose proof (dfc_bounds _ _ _ Hm Hd) as [A1 A2].
  pose proof (dby_mono 1 (year d) ltac:(lia)).
  pose proof (dby_mono (year d + 1) (U32_MAX + 1) ltac:(lia)).
  pose proof dby_min. pose proof dby_max.
  unfold in_range, MIN_SUPPORTED_TIMESTAMP, MAX_SUPPORTED_TIMESTAMP. lia.
Qed.

Theorem from_to : forall E t, in_range t ->
  exists d, from_instant t = Ok d /\ valid_dt d /\ @to_instant E d = Ok t.
Proof.
  intros E t H. destruct (from_instant_spec t H) as (d & F & V & G).
  exists d. split; [exact F|split; [exact V|]]. rewrite to_instant_spec by assumption. now rewrite G.
Qed.

Theorem to_from : forall E d, valid_dt d ->
  exists t, @to_instant E d = Ok t /\ in_range t /\ from_instant t = Ok d.
Proof.
  intros E d V. exists (greg_seconds d). split; [apply to_instant_spec; exact V|].
  pose proof (greg_in_range d V) as R. split; [exact R|].
  destruct (from_instant_spec _ R) as (d' & F & V' & G).
  rewrite F. f_equal. apply greg_inj; assumption.
Qed.

Theorem gregorian : forall t, in_range t ->
  exists d, from_instant t = Ok d /\ valid_dt d /\ greg_seconds d = t
            /\ forall d', valid_dt d' -> greg_seconds d' = t -> d' = d.
Proof.
  intros t H. destruct (from_instant_spec t H) as (d & F & V & G).
  exists d. split; [exact F|split; [exact V|split; [exact G|]]]. intros d' V' G'. apply greg_inj; try assumption. lia.
Qed.

Theorem from_instant_out_of_range : forall t, ~ in_range t -> from_instant t = Err InstantIsOutOfRange.
Proof.
  intros t H. unfold from_instant, in_range in *.
  destruct (Z.ltb_spec t MIN_SUPPORTED_TIMESTAMP); [reflexivity|].
  destruct (Z.ltb_spec MAX_SUPPORTED_TIMESTAMP t); [reflexivity|]. lia.
Qed.

Theorem strictly_increasing : forall t1 t2, in_range t1 -> in_range t2 -> t1 < t2 ->
  exists d1 d2, from_instant t1 = Ok d1 /\ from_instant t2 = Ok d2 /\ dt_compare d1 d2 = Lt.
Proof.
  intros t1 t2 H1 H2 L.
  destruct (from_instant_spec t1 H1) as (d1 & F1 & V1 & G1).
  destruct (from_instant_spec t2 H2) as (d2 & F2 & V2 & G2).
  exists d1, d2. split; [exact F1|split; [exact F2|]].
  rewrite greg_compare by assumption. apply Z.compare_lt_iff. lia.
Qed.

(* ---------------------------------------------------------------------------------------------- *)
(* date-time arithmetic = timestamp arithmetic *)

Lemma checked_some : forall z r, checked z = Some r <-> (in_i64 z = true /\ r = z).
Proof. intros z r. unfold checked. destruct (in_i64 z); split; intros H; try discriminate; [inversion H; auto|destruct H; subst; reflexivity|destruct H; discriminate]. Qed.

Lemma in_range_i64 : forall t, in_range t -> in_i64 t = true.
Proof.
  intros t [A B]. unfold in_i64, I64_MIN, I64_MAX, MIN_SUPPORTED_TIMESTAMP, MAX_SUPPORTED_TIMESTAMP in *.
  apply andb_true_iff; split; apply Z.leb_le; lia.
Qed.

Definition in_rangeb (t : Z) : bool := (MIN_SUPPORTED_TIMESTAMP <=? t) && (t <=? MAX_SUPPORTED_TIMESTAMP).
Lemma in_rangeb_spec : forall t, in_rangeb t = true <-> in_range t.
Proof. intros t. unfold in_rangeb, in_range. rewrite andb_true_iff, !Z.leb_le. tauto. Qed.

(* closed form of dt_add on valid date-times *)
Theorem dt_add_spec : forall unit d n, valid_dt d ->
  let t' := greg_seconds d + n * unit in
  if in_i64 (n * unit) && in_rangeb t'
  then exists d', dt_add unit d n = Ok (Some d') /\ valid_dt d' /\ greg_seconds d' = t'
  else dt_add unit d n = Ok None.
Proof.
  intros unit d n V t'. unfold dt_add. rewrite to_instant_spec by exact V. cbn [bind].
  unfold instant_add, checked. destruct (in_i64 (n * unit)) eqn:I; cbn [andb]; [|reflexivity].
  fold t'. destruct (in_rangeb t') eqn:R.
  - apply in_rangeb_spec in R. rewrite (in_range_i64 _ R).
    destruct (from_instant_spec _ R) as (d' & F & V' & G). rewrite F. exists d'. auto.
  - destruct (in_i64 t'); [|reflexivity].
    rewrite from_instant_out_of_range; [reflexivity|].
    intros C. apply in_rangeb_spec in C. congruence.
Qed.
