(* C12 — create_node's assert!(old_tracked.is_none()) fires exactly on a partition with a repeated key. *)
From Coq Require Import List ListDec NArith Bool Lia.
Import ListNotations.
Require Import RV.Model.C12_Track RV.Model.C12_View RV.Proof.C12_Maps RV.Proof.C12_Track RV.Proof.C12_Ops.
Open Scope N_scope.

Lemma cn_subs_none_iff : forall n p l (acc : list (key * tsv)), sorted acc ->
  (cn_subs n p l acc = None <-> ~ (NoDup (map fst l) /\ forall k, In k (map fst l) -> al_get k acc = None)).
Proof.
  intros n p l acc Hs. split.
  - intros E [H1 H2]. destruct (cn_subs_spec n p l acc H1 H2 Hs) as [s [evs [X _]]]. congruence.
  - revert acc Hs. induction l as [|[k0 v0] r IH]; simpl; intros acc Hs H.
    + exfalso. apply H. split; [constructor|intros k []].
    + destruct (al_get k0 acc) eqn:A; [reflexivity|].
      rewrite IH; [reflexivity|apply sm_put_sorted; assumption|].
      intros [N1 D1]. apply H. split.
      * constructor; [|assumption]. intros Hin. specialize (D1 _ Hin). rewrite al_get_sm_put, N.eqb_refl in D1. discriminate.
      * intros k [<-|Hin]; [assumption|]. specialize (D1 _ Hin). rewrite al_get_sm_put in D1.
        destruct (k =? k0); [discriminate|assumption].
Qed.

Lemma cn_parts_none_iff : forall n l acc,
  cn_parts n l acc = None <-> exists p subs, In (p, subs) l /\ ~ NoDup (map fst subs).
Proof.
  intros n l. induction l as [|[p0 subs0] r IH]; simpl; intros acc.
  - split; [discriminate|intros [p [subs [[] _]]]].
  - destruct (cn_subs n p0 subs0 []) as [[s evs]|] eqn:E.
    + assert (Nd : NoDup (map fst subs0)).
      { destruct (NoDup_dec N.eq_dec (map fst subs0)) as [Y|Nn]; [assumption|]. exfalso.
        assert (cn_subs n p0 subs0 [] = None) by (apply cn_subs_none_iff; [exact Logic.I|intros [Y _]; contradiction]).
        congruence. }
      destruct (cn_parts n r (im_set p0 (mk_tpart s 0) acc)) as [[ps evs']|] eqn:E2.
      * split; [discriminate|]. intros [p [subs [[X|Hin] Hn]]].
        -- inversion X; subst. contradiction.
        -- assert (cn_parts n r (im_set p0 (mk_tpart s 0) acc) = None) by (apply IH; eauto). congruence.
      * split; [|reflexivity]. intros _. apply IH in E2. destruct E2 as [p [subs [Hin Hn]]]. exists p, subs. auto.
    + split; [|reflexivity]. intros _. exists p0, subs0. split; [left; reflexivity|].
      apply (cn_subs_none_iff n p0 subs0 [] Logic.I) in E. intros Nd. apply E. split; [assumption|reflexivity].
Qed.

Lemma create_node_panics_iff : forall t n l,
  create_node t n l = None <-> exists p subs, In (p, subs) l /\ ~ NoDup (map fst subs).
Proof.
  intros. unfold create_node. rewrite <- (cn_parts_none_iff n l []).
  destruct (cn_parts n l []) as [[ps evs]|]; split; intros; congruence.
Qed.
