(* C31 — BasicManifestValidator never reaches its panic sites: the lock count of every bucket equals the
   number of live proofs of that bucket, for every sequence of calls from the empty state. *)
From Coq Require Import List NArith Bool Lia.
Import ListNotations.
Require Import RV.Model.C31_IdValidator.
Open Scope N_scope.

Definition refs (b : N) (x : N * option N) : bool := match snd x with Some b' => b' =? b | None => false end.
Definition cnt (b : N) (ps : list (N * option N)) : nat := length (filter (refs b) ps).
Definition locks (m : bmap) (b : N) : nat := match m b with Some c => c | None => O end.

Record Inv (s : st) : Prop := {
  fresh_b : forall b, next_b s <= b -> bk s b = None;
  cnt_ok : forall b, cnt b (pr s) = locks (bk s) b }.
Definition good (r : vres) : Prop := match r with VOk s => Inv s | VErr => True | VPanic => False end.

Lemma cnt_cons : forall b p k ps, cnt b ((p, k) :: ps) = ((if refs b (p, k) then 1 else 0) + cnt b ps)%nat.
Proof. intros. unfold cnt. cbn [filter]. destruct (refs b (p, k)); reflexivity. Qed.
Lemma pfind_cnt : forall p b ps, pfind p ps = Some (Some b) -> (1 <= cnt b ps)%nat.
Proof.
  induction ps as [|[k v] t IH]; cbn [pfind]; [discriminate|]. intros H. rewrite cnt_cons.
  destruct (k =? p).
  - inversion H; subst. unfold refs; cbn [snd]. rewrite N.eqb_refl. lia.
  - specialize (IH H). lia.
Qed.
Lemma cnt_premove : forall p k b ps, pfind p ps = Some k ->
  cnt b ps = ((if refs b (p, k) then 1 else 0) + cnt b (premove p ps))%nat.
Proof.
  induction ps as [|[q v] t IH]; cbn [pfind premove]; [discriminate|]. intros H.
  destruct (q =? p) eqn:E.
  - inversion H; subst. rewrite cnt_cons. unfold refs; cbn [snd]. reflexivity.
  - rewrite !cnt_cons. rewrite (IH H). unfold refs; cbn [snd]. lia.
Qed.
Lemma locks_upd : forall m k v b, locks (upd m k v) b = if b =? k then match v with Some c => c | None => O end else locks m b.
Proof. intros. unfold locks, upd. destruct (b =? k); reflexivity. Qed.

Lemma add_proof_inv : forall s k m, Inv s ->
  (forall b, next_b s <= b -> m b = None) ->
  (forall b, locks m b = ((if refs b (next_p s, k) then 1 else 0) + locks (bk s) b)%nat) ->
  Inv (add_proof s m k).
Proof.
  intros s k m [F C] Hf Hl. split; cbn [add_proof next_b bk pr].
  - exact Hf.
  - intros b. rewrite cnt_cons, C, Hl. reflexivity.
Qed.
Lemma lock_bucket_inv : forall s b c, Inv s -> bk s b = Some c -> Inv (add_proof s (upd (bk s) b (Some (S c))) (Some b)).
Proof.
  intros s b c I Hb. apply add_proof_inv; [exact I| |].
  - intros x Hx. unfold upd. destruct (x =? b) eqn:E; [|apply (fresh_b _ I); exact Hx].
    apply N.eqb_eq in E; subst. rewrite (fresh_b _ I _ Hx) in Hb. discriminate.
  - intros x. rewrite locks_upd. unfold refs; cbn [snd]. rewrite (N.eqb_sym b x).
    destruct (x =? b) eqn:E; [|reflexivity]. apply N.eqb_eq in E; subst. unfold locks. rewrite Hb. reflexivity.
Qed.
Lemma az_proof_inv : forall s, Inv s -> Inv (add_proof s (bk s) None).
Proof. intros s I. apply add_proof_inv; [exact I | apply (fresh_b _ I) | intros; reflexivity]. Qed.

Lemma drop_proof_good : forall p s, Inv s -> good (drop_proof p s).
Proof.
  intros p s I. unfold drop_proof. destruct (pfind p (pr s)) as [[b|]|] eqn:F; [| |exact Logic.I].
  - pose proof (pfind_cnt _ _ _ F) as H1. rewrite (cnt_ok _ I) in H1. unfold locks in H1.
    destruct (bk s b) as [[|c]|] eqn:Hb; try lia. cbn [good]. split; cbn [next_b bk pr].
    + intros x Hx. unfold upd. destruct (x =? b) eqn:E; [|apply (fresh_b _ I); exact Hx].
      apply N.eqb_eq in E; subst. rewrite (fresh_b _ I _ Hx) in Hb. discriminate.
    + intros x. pose proof (cnt_premove p (Some b) x _ F) as H2. rewrite (cnt_ok _ I) in H2.
      rewrite locks_upd. unfold refs in H2; cbn [snd] in H2. rewrite (N.eqb_sym b x) in H2.
      destruct (x =? b) eqn:E; [|lia]. apply N.eqb_eq in E; subst. unfold locks in H2. rewrite Hb in H2. lia.
  - cbn [good]. split; cbn [next_b bk pr]; [apply (fresh_b _ I)|].
    intros x. pose proof (cnt_premove p None x _ F) as H2. rewrite (cnt_ok _ I) in H2. unfold refs in H2; cbn [snd] in H2. lia.
Qed.
Lemma drop_all_good : forall keys s, Inv s -> good (drop_all keys s).
Proof.
  induction keys as [|p t IH]; intros s I; cbn [drop_all]; [exact I|].
  pose proof (drop_proof_good p s I) as H. destruct (drop_proof p s); [apply IH; exact H | exact Logic.I | exact H].
Qed.

Lemma step_good : forall o s, Inv s -> good (step o s).
Proof.
  intros o s I. destruct o as [|b|k|p|p|]; cbn [step].
  - (* new_bucket *) unfold new_bucket. cbn [good]. split; cbn [next_b bk pr].
    + intros b Hb. unfold upd. destruct (b =? next_b s) eqn:E; [apply N.eqb_eq in E; lia|]. apply (fresh_b _ I). lia.
    + intros b. rewrite locks_upd. destruct (b =? next_b s) eqn:E; [|apply (cnt_ok _ I)].
      apply N.eqb_eq in E; subst. rewrite (cnt_ok _ I). unfold locks. rewrite (fresh_b _ I); [reflexivity | lia].
  - (* drop_bucket *) unfold drop_bucket. destruct (bk s b) as [[|c]|] eqn:Hb; try exact Logic.I. cbn [good]. split; cbn [next_b bk pr].
    + intros x Hx. unfold upd. destruct (x =? b); [reflexivity | apply (fresh_b _ I); exact Hx].
    + intros x. rewrite locks_upd. destruct (x =? b) eqn:E; [|apply (cnt_ok _ I)].
      apply N.eqb_eq in E; subst. rewrite (cnt_ok _ I). unfold locks. rewrite Hb. reflexivity.
  - (* new_proof *) unfold new_proof. destruct k as [b|]; [|apply az_proof_inv; exact I].
    destruct (bk s b) eqn:Hb; [|exact Logic.I]. eapply lock_bucket_inv; eauto.
  - (* clone_proof *) unfold clone_proof. destruct (pfind p (pr s)) as [[b|]|] eqn:F; [| apply az_proof_inv; exact I | exact Logic.I].
    pose proof (pfind_cnt _ _ _ F) as H1. rewrite (cnt_ok _ I) in H1. unfold locks in H1.
    destruct (bk s b) eqn:Hb; [|lia]. eapply lock_bucket_inv; eauto.
  - apply drop_proof_good; exact I.
  - apply drop_all_good; exact I.
Qed.
Lemma init_inv : Inv init.
Proof. split; intros; reflexivity. Qed.
Lemma run_good : forall ops s, Inv s -> good (run ops s).
Proof.
  induction ops as [|o t IH]; intros s I; cbn [run]; [exact I|].
  pose proof (step_good o s I) as H. destruct (step o s); [apply IH; exact H | exact Logic.I | exact H].
Qed.
Theorem id_validator_no_panic : forall ops, run ops init <> VPanic.
Proof. intros ops E. pose proof (run_good ops init init_inv) as H. rewrite E in H. exact H. Qed.
