(* C31 — the parser model is total: for every token list, with fuel 2 * tokens + 3, every loop terminates
   (no POutOfFuel); the model has no other abnormal outcome (index sites: see Model/C31_Parser.v). *)
From Coq Require Import String.
From Coq Require Import List Arith NArith ZArith Bool Lia.
Import ListNotations.
Require Import RV.Model.C30_Text RV.Model.C31_Lexer RV.Model.C30_Value RV.Gen.C31_instructions RV.Model.C31_Parser.
Open Scope N_scope.

(* result is not POutOfFuel and, if Ok, leaves at most n tokens *)
Definition G {A} (n : nat) (r : pres A) : Prop :=
  match r with POk _ rest => (length rest <= n)%nat | PErr _ => True | POutOfFuel => False end.
Lemma G_nf : forall A n (r : pres A), G n r -> r <> POutOfFuel.
Proof. intros A n r H E; subst; exact H. Qed.
Lemma G_len : forall A n (r : pres A) a rest, G n r -> r = POk a rest -> (length rest <= n)%nat.
Proof. intros A n r a rest H E; subst; exact H. Qed.
Lemma G_bind : forall A B (r : pres A) (k : A -> list token -> pres B) n,
  r <> POutOfFuel -> (forall a rest, r = POk a rest -> G n (k a rest)) -> G n (pbind r k).
Proof. intros A B r k n H1 H2. destruct r as [a rest|e|]; cbn [pbind]; [apply H2; reflexivity | exact I | contradiction]. Qed.

Lemma expect_nf : forall t ts, expect t ts <> POutOfFuel.
Proof. intros t ts; unfold expect. destruct ts as [|x r]; [discriminate|]. destruct (tok_eqb x t); discriminate. Qed.
Lemma expect_inv : forall t ts a rest, expect t ts = POk a rest -> length ts = S (length rest).
Proof. intros t ts a rest H; unfold expect in H. destruct ts as [|x r]; [discriminate|]. destruct (tok_eqb x t); inversion H; subst; reflexivity. Qed.
Lemma peek_nf : forall t ts, peek_is t ts <> POutOfFuel.
Proof. intros t ts; unfold peek_is. destruct ts; discriminate. Qed.
Lemma peek_inv : forall t ts b rest, peek_is t ts = POk b rest -> rest = ts /\ (1 <= length ts)%nat.
Proof. intros t ts b rest H; unfold peek_is in H. destruct ts as [|x r]; [discriminate|]. inversion H; subst. split; [reflexivity | cbn; lia]. Qed.

Ltac bexpect := apply G_bind; [apply expect_nf | let a := fresh "u" in let rest := fresh "r" in let E := fresh "E" in intros a rest E; apply expect_inv in E].
Ltac bpeek := apply G_bind; [apply peek_nf | let b := fresh "b" in let rest := fresh "r" in let E := fresh "E" in let Hn := fresh "Hn" in
                              intros b rest E; apply peek_inv in E; destruct E as [-> Hn]].
Ltac buse H := apply G_bind; [apply (G_nf _ _ _ H) | let a := fresh "a" in let rest := fresh "r" in let E := fresh "E" in intros a rest E; apply (G_len _ _ _ _ _ H) in E].
Ltac dm := match goal with |- G _ (match ?x with _ => _ end) => destruct x end.
Ltac leaf := first [exact I | cbn [G length] in *; lia].

Lemma generics_loop_G : forall f ts acc, (length ts + 1 <= f)%nat -> G (length ts) (generics_loop f ts acc).
Proof.
  induction f as [|f IH]; intros ts acc Hf; [lia|]. cbn [generics_loop].
  bpeek. destruct b; [leaf|].
  destruct ts as [|x r]; [leaf|]. destruct x; try leaf. destruct (is_kind s); [|leaf].
  cbn [length] in *. bpeek. destruct b.
  - assert (H : G (length r) (generics_loop f r (s :: acc))) by (apply IH; lia).
    destruct (generics_loop f r (s :: acc)); cbn [G] in *; lia.
  - bexpect. assert (H : G (length r0) (generics_loop f r0 (s :: acc))) by (apply IH; lia).
    destruct (generics_loop f r0 (s :: acc)); cbn [G] in *; lia.
Qed.
Lemma parse_generics_G : forall f n ts, (length ts + 1 <= f)%nat -> G (pred (length ts)) (parse_generics f n ts).
Proof.
  intros f n ts Hf. unfold parse_generics. bexpect.
  assert (H : G (length r) (generics_loop f r [])) by (apply generics_loop_G; lia).
  buse H. bexpect. destruct (Nat.eqb (length a) n); leaf.
Qed.
(* parse_generics(n) returns exactly n kinds: `generics[0]`, `generics[1]` cannot be out of range *)
Lemma generics_length : forall f n ts ks rest, parse_generics f n ts = POk ks rest -> length ks = n.
Proof.
  intros f n ts ks rest H. unfold parse_generics, pbind in H.
  destruct (expect TLt ts) as [u r| |]; try discriminate.
  destruct (generics_loop f r []) as [ks' r1| |]; try discriminate.
  destruct (expect TGt r1) as [u2 r2| |]; try discriminate.
  destruct (Nat.eqb (length ks') n) eqn:E; [|discriminate]. inversion H; subst. apply Nat.eqb_eq; exact E.
Qed.

Lemma value_layer_total : forall f,
  (forall d ts, (2 * length ts + 1 <= f)%nat -> G (pred (length ts)) (parse_value f d ts)) /\
  (forall d ts, (2 * length ts + 1 <= f)%nat -> G (pred (length ts)) (values_any f d ts)) /\
  (forall d ts acc, (2 * length ts + 2 <= f)%nat -> G (length ts) (values_loop f d ts acc)) /\
  (forall d ts acc, (2 * length ts + 2 <= f)%nat -> G (length ts) (map_loop f d ts acc)).
Proof.
  induction f as [|f [IHpv [IHany [IHloop IHmap]]]].
  { repeat split; intros; lia. }
  repeat split.
  - (* parse_value *)
    intros d ts Hf. cbn [parse_value].
    destruct (PARSER_MAX_DEPTH <? d + 1); [destruct ts; leaf|].
    destruct ts as [|t r]; [leaf|]. cbn [length] in Hf. cbn [length pred].
    destruct t as [b|sg bits v|s|id| | | | | | |]; try leaf.
    destruct (id_is id "Enum").
    { bexpect. destruct r0 as [|t0 r1]; [leaf|].
      repeat (dm; try leaf).
      bexpect. cbn [length] in *.
      assert (H : G (pred (length r0)) (values_any f (d + 1) r0)) by (apply IHany; lia).
      buse H. leaf. }
    destruct (id_is id "Array").
    { assert (H : G (pred (length r)) (parse_generics f 1 r)) by (apply parse_generics_G; lia).
      buse H. assert (H2 : G (pred (length r0)) (values_any f (d + 1) r0)) by (apply IHany; lia).
      buse H2. leaf. }
    destruct (id_is id "Tuple").
    { assert (H : G (pred (length r)) (values_any f (d + 1) r)) by (apply IHany; lia). buse H. leaf. }
    destruct (id_is id "Map").
    { assert (H : G (pred (length r)) (parse_generics f 2 r)) by (apply parse_generics_G; lia).
      buse H. bexpect.
      assert (H2 : G (length r1) (map_loop f (d + 1) r1 [])) by (apply IHmap; lia).
      buse H2. bexpect. leaf. }
    destruct (id_is id "None"); [leaf|].
    destruct (is_one_arg id); [|leaf].
    assert (H : G (pred (length r)) (values_any f (d + 1) r)) by (apply IHany; lia).
    buse H. destruct a as [|v [|v2 vs]]; leaf.
  - (* values_any *)
    intros d ts Hf. cbn [values_any]. bexpect.
    assert (H : G (length r) (values_loop f d r [])) by (apply IHloop; lia).
    buse H. bexpect. leaf.
  - (* values_loop *)
    intros d ts acc Hf. cbn [values_loop]. bpeek. destruct b; [leaf|].
    assert (H : G (pred (length ts)) (parse_value f d ts)) by (apply IHpv; lia).
    buse H. bpeek. destruct b.
    + assert (H2 : G (length r) (values_loop f d r (a :: acc))) by (apply IHloop; lia).
      destruct (values_loop f d r (a :: acc)); cbn [G] in *; lia.
    + bexpect. assert (H2 : G (length r0) (values_loop f d r0 (a :: acc))) by (apply IHloop; lia).
      destruct (values_loop f d r0 (a :: acc)); cbn [G] in *; lia.
  - (* map_loop *)
    intros d ts acc Hf. cbn [map_loop]. bpeek. destruct b; [leaf|].
    assert (H : G (pred (length ts)) (parse_value f d ts)) by (apply IHpv; lia).
    buse H. bexpect.
    assert (H1 : G (pred (length r0)) (parse_value f d r0)) by (apply IHpv; lia).
    buse H1. bpeek. destruct b.
    + assert (H2 : G (length r1) (map_loop f d r1 ((a, a0) :: acc))) by (apply IHmap; lia).
      destruct (map_loop f d r1 ((a, a0) :: acc)); cbn [G] in *; lia.
    + bexpect. assert (H2 : G (length r2) (map_loop f d r2 ((a, a0) :: acc))) by (apply IHmap; lia).
      destruct (map_loop f d r2 ((a, a0) :: acc)); cbn [G] in *; lia.
Qed.
Lemma parse_value_G : forall f d ts, (2 * length ts + 1 <= f)%nat -> G (pred (length ts)) (parse_value f d ts).
Proof. intros f d ts H. apply (proj1 (value_layer_total f)); exact H. Qed.

(* ---- instructions and manifests ------------------------------------------------------------------------ *)
Lemma parse_n_G : forall n f ts acc, (2 * length ts + 1 <= f)%nat -> G (length ts) (parse_n f n ts acc).
Proof.
  induction n as [|n IH]; intros f ts acc Hf; cbn [parse_n]; [leaf|].
  assert (H : G (pred (length ts)) (parse_value f 0 ts)) by (apply parse_value_G; exact Hf).
  buse H. assert (H2 : G (length r) (parse_n f n r (a :: acc))) by (apply IH; lia).
  destruct (parse_n f n r (a :: acc)); cbn [G] in *; lia.
Qed.
Lemma args_loop_G : forall f ts acc, (2 * length ts + 2 <= f)%nat -> G (length ts) (args_loop f ts acc).
Proof.
  induction f as [|f IH]; intros ts acc Hf; [lia|]. cbn [args_loop]. bpeek. destruct b; [leaf|].
  assert (H : G (pred (length ts)) (parse_value f 0 ts)) by (apply parse_value_G; lia).
  buse H. assert (H2 : G (length r) (args_loop f r (a :: acc))) by (apply IH; lia).
  destruct (args_loop f r (a :: acc)); cbn [G] in *; lia.
Qed.
Lemma parse_instruction_G : forall f ts, (2 * length ts + 1 <= f)%nat -> G (pred (length ts)) (parse_instruction f ts).
Proof.
  intros f ts Hf. unfold parse_instruction. destruct ts as [|t r]; [leaf|]. cbn [length] in Hf. cbn [length pred].
  destruct t; try leaf. destruct (lookup_instr s instruction_table) as [[n variadic]|]; [|leaf].
  assert (H : G (length r) (parse_n f n r [])) by (apply parse_n_G; lia).
  buse H. destruct variadic.
  - assert (H2 : G (length r0) (args_loop f r0 [])) by (apply args_loop_G; lia).
    buse H2. bexpect. leaf.
  - cbn [pbind]. bexpect. leaf.
Qed.
Lemma manifest_loop_G : forall f ts acc, (2 * length ts + 2 <= f)%nat -> G 0 (manifest_loop f ts acc).
Proof.
  induction f as [|f IH]; intros ts acc Hf; [lia|]. cbn [manifest_loop].
  destruct ts as [|t r]; [leaf|].
  assert (H : G (pred (length (t :: r))) (parse_instruction f (t :: r))) by (apply parse_instruction_G; lia).
  buse H. cbn [length pred] in *. apply IH. lia.
Qed.

(* C31_parse_total *)
Theorem parse_total : forall ts, parse_manifest ts <> POutOfFuel.
Proof.
  intros ts. unfold parse_manifest. destruct ts as [|t r]; [discriminate|].
  apply (G_nf _ 0). apply manifest_loop_G. lia.
Qed.
Theorem parse_value_total : forall ts, parse_tokens ts <> POutOfFuel.
Proof. intros ts. unfold parse_tokens. apply (G_nf _ (pred (length ts))). apply parse_value_G. lia. Qed.
