(* C23 — the semantic core: a relation R on (type id of s1, type id of s2) that is closed under a
   shallow, declarative compatibility condition is a simulation for `HasType`: related ids accept
   (at least) the same values.  Independent of the executable comparison (Proof/C23_Cmp.v shows
   that a Valid verdict yields such a relation). *)
From Coq Require Import List NArith ZArith Bool Lia.
Import ListNotations.
Require Import RV.Model.C20_Sbor RV.Model.C22_Types RV.Gen.C22_wellknown RV.Model.C22_Schema
               RV.Model.C23_SchemaCmp RV.Proof.C20_Sbor RV.Proof.C22_Schema.
Open Scope N_scope.

(* ------------------------------------------------------------------------------------------ *)
(* well-known types only refer to well-known types: their typing does not depend on the schema *)
Definition is_wk (t : tid) : bool := match t with WK _ => true | Loc _ => false end.
Lemma wk_table_closed :
  forallb (fun p => forallb is_wk (kind_children (td_kind (snd p)))) scrypto_well_known = true.
Proof. vm_compute. reflexivity. Qed.

Lemma wk_children_wk : forall i d, wk_lookup i = Some d ->
  forall c, In c (kind_children (td_kind d)) -> exists j, c = WK j.
Proof.
  intros i d H c Hc. unfold wk_lookup in H.
  destruct (find (fun p => fst p =? i) scrypto_well_known) as [p|] eqn:F; [|discriminate].
  inversion H; subst d. apply find_some in F. destruct F as [Hin _].
  pose proof wk_table_closed as W. rewrite forallb_forall in W. specialize (W p Hin).
  rewrite forallb_forall in W. specialize (W c Hc). destruct c; [eexists; reflexivity|discriminate].
Qed.

Lemma resolve_kind_wk : forall s i, resolve_kind s (WK i) = option_map td_kind (wk_lookup i).
Proof. reflexivity. Qed.
Lemma resolve_val_wk : forall s i, resolve_val s (WK i) = option_map td_val (wk_lookup i).
Proof. reflexivity. Qed.

Lemma wk_kind_children : forall s i k, resolve_kind s (WK i) = Some k ->
  forall c, In c (kind_children k) -> exists j, c = WK j.
Proof.
  intros s i k H c Hc. rewrite resolve_kind_wk in H.
  destruct (wk_lookup i) as [d|] eqn:E; [|discriminate]. cbn in H. inversion H; subst k.
  eapply wk_children_wk; eauto.
Qed.

Lemma find_variant_in : forall d vs fts, find_variant d vs = Some fts -> In (d, fts) vs.
Proof.
  intros d vs fts H. unfold find_variant in H.
  destruct (find (fun p => fst p =? d) vs) as [p|] eqn:F; [|discriminate].
  inversion H; subst. apply find_some in F. destruct F as [Hin E]. apply N.eqb_eq in E.
  destruct p as [d' f]. cbn in *. subst. exact Hin.
Qed.
Lemma variant_children : forall d vs fts c, find_variant d vs = Some fts -> In c fts ->
  In c (kind_children (TEnum vs)).
Proof.
  intros d vs fts c H Hc. cbn. apply in_flat_map. exists (d, fts). split; [|exact Hc].
  apply find_variant_in; assumption.
Qed.

Section Indep.
Variables s1 s2 : schema.

Definition IHwk (x : value) : Prop := forall i, HasType s1 (WK i) x -> HasType s2 (WK i) x.

Lemma indep_forall2 : forall fts fs,
  (forall c, In c fts -> exists j, c = WK j) ->
  Forall2 (HasType s1) fts fs -> Forall IHwk fs -> Forall2 (HasType s2) fts fs.
Proof.
  intros fts fs W H. induction H; intro IH; [constructor|]. inversion IH; subst. constructor.
  - destruct (W x (or_introl eq_refl)) as [j ->]. apply H3. assumption.
  - apply IHForall2; [|assumption]. intros c Hc. apply W. right. exact Hc.
Qed.
Lemma indep_forall : forall j fs,
  Forall (HasType s1 (WK j)) fs -> Forall IHwk fs -> Forall (HasType s2 (WK j)) fs.
Proof.
  intros j fs H. induction H; intro IH; [constructor|]. inversion IH; subst.
  constructor; [apply H3; assumption|auto].
Qed.
Lemma indep_entries : forall j1 j2 (es : list (value * value)),
  Forall (fun p => HasType s1 (WK j1) (fst p) /\ HasType s1 (WK j2) (snd p)) es ->
  Forall (fun p => IHwk (fst p) /\ IHwk (snd p)) es ->
  Forall (fun p => HasType s2 (WK j1) (fst p) /\ HasType s2 (WK j2) (snd p)) es.
Proof.
  intros j1 j2 es H. induction H; intro IH; [constructor|]. inversion IH; subst.
  destruct H as [A B]. destruct H3 as [IA IB].
  constructor; [split; [apply IA|apply IB]; assumption|auto].
Qed.

Lemma wk_indep : forall v i, HasType s1 (WK i) v -> HasType s2 (WK i) v.
Proof.
  induction v using value_ind'; intros i0 Hty; fold IHwk in *;
    inversion Hty; subst; try discriminate;
    repeat match goal with
    | Hk : resolve_kind s1 (WK _) = _ |- _ => rewrite resolve_kind_wk in Hk
    | Hv : resolve_val s1 (WK _) = _ |- _ => rewrite resolve_val_wk in Hv
    end.
  (* leaves *)
  1-3, 12: (eapply HT_leaf; [rewrite resolve_kind_wk; eassumption|rewrite resolve_val_wk; eassumption| | |]; assumption).
  - (* enum typed *)
    eapply HT_enum; [rewrite resolve_kind_wk; eassumption|rewrite resolve_val_wk; eassumption|assumption|eassumption|].
    eapply indep_forall2; [|eassumption|assumption].
    intros c Hc. eapply (wk_kind_children s2 i0); [rewrite resolve_kind_wk; eassumption|].
    eapply variant_children; eauto.
  - (* enum any *)
    eapply HT_enum_any; [rewrite resolve_kind_wk; eassumption|rewrite resolve_val_wk; eassumption|assumption|].
    eapply indep_forall; eassumption.
  - (* array typed *)
    match goal with Hk : option_map td_kind (wk_lookup i0) = Some (TArray ?e) |- _ =>
      assert (W : exists j, e = WK j) by
        (eapply (wk_kind_children s2 i0); [rewrite resolve_kind_wk; exact Hk|cbn; left; reflexivity])
    end.
    destruct W as [j ->].
    eapply HT_array; [rewrite resolve_kind_wk; eassumption|rewrite resolve_val_wk; eassumption|assumption| |eassumption|].
    + rewrite resolve_kind_wk.
      match goal with He : resolve_kind s1 (WK j) = Some _ |- _ => rewrite resolve_kind_wk in He; exact He end.
    + eapply indep_forall; eassumption.
  - (* array any *)
    eapply HT_array_any; [rewrite resolve_kind_wk; eassumption|rewrite resolve_val_wk; eassumption|assumption|].
    eapply indep_forall; eassumption.
  - (* tuple typed *)
    eapply HT_tuple; [rewrite resolve_kind_wk; eassumption|rewrite resolve_val_wk; eassumption|assumption|].
    eapply indep_forall2; [|eassumption|assumption].
    intros c Hc. eapply (wk_kind_children s2 i0); [rewrite resolve_kind_wk; eassumption|exact Hc].
  - (* tuple any *)
    eapply HT_tuple_any; [rewrite resolve_kind_wk; eassumption|rewrite resolve_val_wk; eassumption|assumption|].
    eapply indep_forall; eassumption.
  - (* map typed *)
    match goal with Hk : option_map td_kind (wk_lookup i0) = Some (TMap ?k ?v) |- _ =>
      assert (W1 : exists j, k = WK j) by
        (eapply (wk_kind_children s2 i0); [rewrite resolve_kind_wk; exact Hk|cbn; left; reflexivity]);
      assert (W2 : exists j, v = WK j) by
        (eapply (wk_kind_children s2 i0); [rewrite resolve_kind_wk; exact Hk|cbn; right; left; reflexivity])
    end.
    destruct W1 as [j1 ->]. destruct W2 as [j2 ->].
    eapply HT_map; [rewrite resolve_kind_wk; eassumption|rewrite resolve_val_wk; eassumption|assumption| | |eassumption|eassumption|].
    + rewrite resolve_kind_wk.
      match goal with He : resolve_kind s1 (WK j1) = Some _ |- _ => rewrite resolve_kind_wk in He; exact He end.
    + rewrite resolve_kind_wk.
      match goal with He : resolve_kind s1 (WK j2) = Some _ |- _ => rewrite resolve_kind_wk in He; exact He end.
    + eapply indep_entries; eassumption.
  - (* map any *)
    eapply HT_map_any; [rewrite resolve_kind_wk; eassumption|rewrite resolve_val_wk; eassumption|assumption|].
    eapply indep_entries; eassumption.
Qed.
End Indep.

(* ------------------------------------------------------------------------------------------ *)
Definition ValImp (va vb : tval) : Prop :=
  (forall v, ContainerValOk va v -> ContainerValOk vb v) /\
  (forall v, LeafValOk va v -> LeafValOk vb v).

Section Sim.
Variables s1 s2 : schema.
Variable R : tid -> tid -> Prop.

Inductive KindSim : tkind -> tkind -> Prop :=
| KS_any : forall ka, (forall c, In c (kind_children ka) -> R c any_tid) -> KindSim ka TAny
| KS_leaf : forall k, leaf_kind k = true -> KindSim k k
| KS_array : forall e e', R e e' -> KindSim (TArray e) (TArray e')
| KS_tuple : forall fs fs', Forall2 R fs fs' -> KindSim (TTuple fs) (TTuple fs')
| KS_enum : forall vs vs',
    (forall d fts, find_variant d vs = Some fts ->
       exists fts', find_variant d vs' = Some fts' /\ Forall2 R fts fts') ->
    KindSim (TEnum vs) (TEnum vs')
| KS_map : forall k v k' v', R k k' -> R v v' -> KindSim (TMap k v) (TMap k' v').

Definition ShallowSim (a b : tid) : Prop :=
  (exists i, a = WK i /\ b = WK i) \/
  exists ka va kb vb,
    resolve_kind s1 a = Some ka /\ resolve_val s1 a = Some va /\
    resolve_kind s2 b = Some kb /\ resolve_val s2 b = Some vb /\
    KindSim ka kb /\ ValImp va vb.

Hypothesis closed : forall a b, R a b -> ShallowSim a b.

Lemma kind_sim_matches : forall ka kb vk,
  KindSim ka kb -> kind_matches vk ka = true -> kind_matches vk kb = true.
Proof.
  intros ka kb vk KS M. destruct KS; try exact M; try reflexivity;
    destruct vk; cbn in *; try exact M; try discriminate.
Qed.

(* the kind a related id resolves to matches the same value kinds *)
Lemma related_matches : forall a b ka vk,
  R a b -> resolve_kind s1 a = Some ka -> kind_matches vk ka = true ->
  exists kb, resolve_kind s2 b = Some kb /\ kind_matches vk kb = true.
Proof.
  intros a b ka vk Rab Ka M. destruct (closed a b Rab) as [[i [-> ->]]|(ka' & va & kb & vb & Ka' & _ & Kb & _ & KS & _)].
  - exists ka. split; [|exact M]. rewrite resolve_kind_wk in *. exact Ka.
  - rewrite Ka in Ka'. inversion Ka'; subst ka'. exists kb. split; [exact Kb|].
    eapply kind_sim_matches; eauto.
Qed.

Definition IHv (x : value) : Prop := forall a b, R a b -> HasType s1 a x -> HasType s2 b x.

Lemma transfer_forall2 : forall fts fts' fs,
  Forall2 R fts fts' -> Forall2 (HasType s1) fts fs -> Forall IHv fs -> Forall2 (HasType s2) fts' fs.
Proof.
  intros fts fts' fs HR. revert fs. induction HR; intros fs H1 IH; inversion H1; subst; [constructor|].
  inversion IH; subst. constructor; [eapply H4; eauto|apply IHHR; assumption].
Qed.
Lemma transfer_to_any : forall fts fs,
  (forall c, In c fts -> R c any_tid) -> Forall2 (HasType s1) fts fs -> Forall IHv fs ->
  Forall (HasType s2 any_tid) fs.
Proof.
  intros fts fs HR H1. induction H1; intro IH; [constructor|]. inversion IH; subst. constructor.
  - eapply H3; [apply HR; left; reflexivity|assumption].
  - apply IHForall2; [|assumption]. intros c Hc. apply HR. right. exact Hc.
Qed.
Lemma transfer_any_any : forall fs, Forall (HasType s1 any_tid) fs -> Forall (HasType s2 any_tid) fs.
Proof. intros fs H. eapply Forall_impl; [|exact H]. intros x Hx. apply (wk_indep s1 s2). exact Hx. Qed.
Lemma transfer_elems : forall e e' es,
  R e e' -> Forall (HasType s1 e) es -> Forall IHv es -> Forall (HasType s2 e') es.
Proof.
  intros e e' es HR H1. induction H1; intro IH; [constructor|]. inversion IH; subst.
  constructor; [eapply H3; eauto|auto].
Qed.
Lemma transfer_entries : forall k k' v v' (es : list (value * value)),
  R k k' -> R v v' ->
  Forall (fun p => HasType s1 k (fst p) /\ HasType s1 v (snd p)) es ->
  Forall (fun p => IHv (fst p) /\ IHv (snd p)) es ->
  Forall (fun p => HasType s2 k' (fst p) /\ HasType s2 v' (snd p)) es.
Proof.
  intros k k' v v' es Rk Rv H1. induction H1; intro IH; [constructor|]. inversion IH; subst.
  destruct H as [A B]. destruct H3 as [IA IB].
  constructor; [split; [eapply IA|eapply IB]; eauto|auto].
Qed.
Lemma transfer_entries_any_any : forall (es : list (value * value)),
  Forall (fun p => HasType s1 any_tid (fst p) /\ HasType s1 any_tid (snd p)) es ->
  Forall (fun p => HasType s2 any_tid (fst p) /\ HasType s2 any_tid (snd p)) es.
Proof.
  intros es H. eapply Forall_impl; [|exact H]. intros p [A B].
  split; apply (wk_indep s1 s2); assumption.
Qed.

Theorem sim_sound : forall v a b, R a b -> HasType s1 a v -> HasType s2 b v.
Proof.
  induction v using value_ind'; intros ta tb Rab Hty; fold IHv in *;
    (destruct (closed ta tb Rab) as [[i0 [-> ->]]|(ka & va & kb & vb & Ka & Va & Kb & Vb & KS & [VIc VIl])];
     [apply (wk_indep s1 s2); exact Hty|]);
    inversion Hty; subst; try discriminate;
    repeat match goal with
    | H1 : resolve_kind s1 ta = Some ?x, H2 : resolve_kind s1 ta = Some ?y |- _ =>
      rewrite H1 in H2; inversion H2; subst; clear H2
    | H1 : resolve_val s1 ta = Some ?x, H2 : resolve_val s1 ta = Some ?y |- _ =>
      rewrite H1 in H2; inversion H2; subst; clear H2
    end.
  (* leaves *)
  1-3, 12: (eapply HT_leaf; [exact Kb|exact Vb|assumption|eapply kind_sim_matches; eauto|apply VIl; assumption]).
  - (* enum typed *)
    inversion KS; subst; try discriminate.
    + eapply HT_enum_any; eauto. eapply transfer_to_any; [|eassumption|assumption].
      intros c Hc. match goal with HA : forall c, In c (kind_children _) -> R c any_tid |- _ => apply HA end.
      eapply variant_children; eauto.
    + match goal with
      | HE : forall d fts, find_variant d _ = Some fts -> _, HF : find_variant _ _ = Some _ |- _ =>
        destruct (HE _ _ HF) as (fts' & F' & HR)
      end.
      eapply HT_enum; eauto. eapply transfer_forall2; eauto.
  - (* enum any *)
    assert (kb = TAny) by (inversion KS; subst; reflexivity). subst kb.
    eapply HT_enum_any; eauto. apply transfer_any_any; assumption.
  - (* array typed *)
    inversion KS; subst; try discriminate.
    + eapply HT_array_any; eauto.
      match goal with HA : forall c, In c (kind_children (TArray ?e)) -> R c any_tid |- _ =>
        assert (Re : R e any_tid) by (apply HA; cbn; left; reflexivity) end.
      eapply transfer_elems; eauto.
    + match goal with
      | HR : R ?e ?e', HK : resolve_kind s1 ?e = Some ?ke, HM : kind_matches ?ek ?ke = true |- _ =>
        destruct (related_matches e e' ke ek HR HK HM) as (ke' & Ke' & M')
      end.
      eapply HT_array; eauto. eapply transfer_elems; eauto.
  - (* array any *)
    assert (kb = TAny) by (inversion KS; subst; reflexivity). subst kb.
    eapply HT_array_any; eauto. apply transfer_any_any; assumption.
  - (* tuple typed *)
    inversion KS; subst; try discriminate.
    + eapply HT_tuple_any; eauto. eapply transfer_to_any; [|eassumption|assumption].
      match goal with HA : forall c, In c (kind_children _) -> R c any_tid |- _ => exact HA end.
    + eapply HT_tuple; eauto. eapply transfer_forall2; eauto.
  - (* tuple any *)
    assert (kb = TAny) by (inversion KS; subst; reflexivity). subst kb.
    eapply HT_tuple_any; eauto. apply transfer_any_any; assumption.
  - (* map typed *)
    inversion KS; subst; try discriminate.
    + eapply HT_map_any; eauto.
      match goal with HA : forall c, In c (kind_children (TMap ?k ?v)) -> R c any_tid |- _ =>
        assert (Rk : R k any_tid) by (apply HA; cbn; left; reflexivity);
        assert (Rv : R v any_tid) by (apply HA; cbn; right; left; reflexivity);
        apply (transfer_entries k any_tid v any_tid); assumption end.
    + match goal with
      | HR1 : R ?k ?k', HR2 : R ?v ?v',
        HK1 : resolve_kind s1 ?k = Some ?kk', HK2 : resolve_kind s1 ?v = Some ?vk',
        HM1 : kind_matches ?kk ?kk' = true, HM2 : kind_matches ?vk ?vk' = true |- _ =>
        destruct (related_matches k k' kk' kk HR1 HK1 HM1) as (kk2 & Kk2 & M1);
        destruct (related_matches v v' vk' vk HR2 HK2 HM2) as (vk2 & Vk2 & M2);
        eapply HT_map; eauto; apply (transfer_entries k k' v v'); assumption
      end.
  - (* map any *)
    assert (kb = TAny) by (inversion KS; subst; reflexivity). subst kb.
    eapply HT_map_any; eauto. apply transfer_entries_any_any; assumption.
Qed.

End Sim.
