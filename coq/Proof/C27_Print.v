(* part 4: Display, and parse (print d) = d *)
From Coq Require Import ZArith NArith List Bool Lia.
Import ListNotations.
Require Import RV.Lib.DecCore RV.Lib.DecCoreFacts RV.Proof.C24_Dec RV.Model.C27_DecText RV.Proof.C27_Uint RV.Proof.C27_SInt RV.Proof.C27_FromStr.
Open Scope Z_scope.

(* ---- digits ---- *)
Lemma digit_char n : 0 <= n -> let d := Z.to_N (48 + n mod 10) in
  is_digit d = true /\ digit_val d = n mod 10.
Proof.
  intros Hn d. pose proof (Z.mod_pos_bound n 10 ltac:(lia)) as Hb.
  unfold is_digit, digit_val, d. split.
  - apply andb_true_iff. split; apply N.leb_le; lia.
  - rewrite Z2N.id by lia. lia.
Qed.

Lemma digits_go_spec fuel : forall n acc, 0 <= n < 2 ^ Z.of_nat fuel ->
  exists l, digits_go fuel n acc = l ++ acc /\ all_digits l = true /\
    dval l = n /\ (n = 0 -> l = []) /\ (0 < n -> l <> [] /\ 10 ^ (Z.of_nat (length l) - 1) <= n).
Proof.
  induction fuel as [|k IH]; intros n acc Hn.
  - change (2 ^ Z.of_nat 0) with 1 in Hn. assert (n = 0) by lia. subst n.
    exists []. cbn. repeat split; try lia; try reflexivity.
  - cbn [digits_go]. destruct (Z.leb_spec n 0) as [H0|H0].
    + assert (n = 0) by lia. subst n. exists []. cbn. repeat split; try lia; try reflexivity.
    + rewrite Nat2Z.inj_succ, Z.pow_succ_r in Hn by lia.
      pose proof (Z.div_mod n 10 ltac:(lia)) as Hdm.
      pose proof (Z.mod_pos_bound n 10 ltac:(lia)) as Hmb.
      assert (Hq : 0 <= n / 10 < 2 ^ Z.of_nat k) by (split; [apply Z.div_pos; lia|apply Z.div_lt_upper_bound; lia]).
      destruct (IH (n / 10) (Z.to_N (48 + n mod 10) :: acc) Hq) as (l' & Heq & Hall & Hv & Hz & Hp).
      destruct (digit_char n ltac:(lia)) as [Hd Hdv].
      set (d := Z.to_N (48 + n mod 10)) in *.
      assert (Hd1 : all_digits [d] = true) by (cbn; rewrite Hd; reflexivity).
      exists (l' ++ [d]). rewrite Heq, <- app_assoc. cbn [app].
      split; [reflexivity|]. split; [rewrite all_digits_app, Hall, Hd1; reflexivity|].
      split.
      { rewrite dval_app by assumption. cbn [length]. change (10 ^ Z.of_nat 1) with 10.
        assert (dval [d] = digit_val d) by (unfold dval; cbn [horner]; rewrite Hd; lia). lia. }
      split; [lia|]. intros _. split; [intros Hc; apply app_eq_nil in Hc; destruct Hc; discriminate|].
      rewrite app_length. cbn [length]. replace (Z.of_nat (length l' + 1) - 1) with (Z.of_nat (length l')) by lia.
      destruct (Z.eq_dec (n / 10) 0) as [E|E].
      * rewrite (Hz E). cbn. lia.
      * destruct (Hp ltac:(lia)) as [_ Hlow].
        replace (Z.of_nat (length l')) with (Z.succ (Z.of_nat (length l') - 1)) by lia.
        rewrite Z.pow_succ_r; [lia|]. destruct l'; [exfalso; apply (proj1 (Hp ltac:(lia))); reflexivity|cbn [length]; lia].
Qed.

Lemma digits_spec n : 0 <= n ->
  all_digits (digits n) = true /\ digits n <> [] /\ dval (digits n) = n /\
  (forall k, 1 <= k -> n < 10 ^ k -> Z.of_nat (length (digits n)) <= k).
Proof.
  intros Hn. unfold digits. destruct (Z.leb_spec n 0) as [H0|H0].
  - assert (n = 0) by lia. subst n. repeat split; try reflexivity; try discriminate. intros k Hk _. cbn. lia.
  - assert (Hb : 0 <= n < 2 ^ Z.of_nat (S (Z.to_nat (Z.log2 n)))).
    { rewrite Nat2Z.inj_succ, Z2Nat.id by apply Z.log2_nonneg. destruct (Z.log2_spec n H0). lia. }
    destruct (digits_go_spec _ n [] Hb) as (l & Heq & Hall & Hv & _ & Hp).
    rewrite Heq, app_nil_r. destruct (Hp H0) as [Hne Hlow].
    repeat split; try assumption. intros k Hk Hlt.
    destruct (Z_le_gt_dec (Z.of_nat (length l)) k) as [|Hgt]; [assumption|].
    assert (10 ^ k <= 10 ^ (Z.of_nat (length l) - 1)) by (apply Z.pow_le_mono_r; lia). lia.
Qed.

(* ---- strings without '.' ---- *)
Definition nodot (s : str) : bool := forallb (fun c => negb (c =? ch_dot)%N) s.
Lemma nodot_digits s : all_digits s = true -> nodot s = true.
Proof.
  unfold all_digits, nodot. induction s as [|c r IH]; [reflexivity|]. cbn [forallb].
  rewrite !andb_true_iff. intros [Hc Hr]. split; [|apply IH; exact Hr].
  unfold is_digit in Hc. apply andb_true_iff in Hc. destruct Hc as [H1 H2].
  apply N.leb_le in H1. apply negb_true_iff, N.eqb_neq. unfold ch_dot. lia.
Qed.
Lemma nodot_app a b : nodot (a ++ b) = nodot a && nodot b.
Proof. apply forallb_app. Qed.

Lemma split_dot_nodot s : forall cur, nodot s = true -> split_dot s cur = [rev cur ++ s].
Proof.
  induction s as [|c r IH]; intros cur H; cbn [split_dot].
  - rewrite app_nil_r. reflexivity.
  - cbn [nodot forallb] in H. apply andb_true_iff in H. destruct H as [Hc Hr].
    apply negb_true_iff in Hc. rewrite Hc, (IH (c :: cur) Hr). cbn [rev]. rewrite <- app_assoc. reflexivity.
Qed.
Lemma split_dot_one a : forall b cur, nodot a = true ->
  split_dot (a ++ ch_dot :: b) cur = (rev cur ++ a) :: split_dot b [].
Proof.
  induction a as [|c r IH]; intros b cur H; cbn [app split_dot].
  - change (ch_dot =? ch_dot)%N with true. cbv iota. rewrite app_nil_r. reflexivity.
  - cbn [nodot forallb] in H. apply andb_true_iff in H. destruct H as [Hc Hr].
    apply negb_true_iff in Hc. rewrite Hc, (IH b (c :: cur) Hr). cbn [rev]. rewrite <- app_assoc. reflexivity.
Qed.

Lemma strip_sign_digits s : all_digits s = true -> strip_sign s = (false, s).
Proof.
  destruct s as [|c r]; [reflexivity|]. unfold all_digits. cbn [forallb strip_sign]. intros H.
  apply andb_true_iff in H. destruct H as [Hc _]. unfold is_digit in Hc. apply andb_true_iff in Hc.
  destruct Hc as [H1 H2]. apply N.leb_le in H1.
  replace (c =? ch_minus)%N with false by (symmetry; apply N.eqb_neq; unfold ch_minus; lia).
  replace (c =? ch_plus)%N with false by (symmetry; apply N.eqb_neq; unfold ch_plus; lia). reflexivity.
Qed.

(* ---- zero padding and trimming ---- *)
Lemma zeros_spec k : all_digits (repeat ch_zero k) = true /\ dval (repeat ch_zero k) = 0.
Proof.
  assert (H : forall j, horner (repeat ch_zero j) 0 = Some 0).
  { intros j. induction j as [|k' IH]; [reflexivity|]. cbn [repeat horner]. change (is_digit ch_zero) with true. cbv iota.
    change (0 * 10 + digit_val ch_zero) with 0. exact IH. }
  split; [|unfold dval; rewrite H; reflexivity].
  unfold all_digits. induction k as [|k' IH]; [reflexivity|]. cbn [repeat forallb]. rewrite IH. reflexivity.
Qed.
Lemma rev_zeros k : rev (repeat ch_zero k) = repeat ch_zero k.
Proof.
  induction k as [|k IH]; [reflexivity|]. cbn [repeat rev]. rewrite IH.
  clear IH. induction k as [|k IH]; [reflexivity|]. cbn [repeat app]. rewrite IH. reflexivity.
Qed.
Lemma trim_rev_spec l : exists k, l = repeat ch_zero k ++ trim_zeros_rev l.
Proof.
  induction l as [|c r IH]; [exists 0%nat; reflexivity|]. cbn [trim_zeros_rev].
  destruct (N.eqb_spec c ch_zero) as [->|Hc].
  - destruct IH as [k Hk]. exists (S k). cbn [repeat app]. rewrite <- Hk. reflexivity.
  - exists 0%nat. reflexivity.
Qed.
Lemma trim_spec s : exists k, s = trim_end_zeros s ++ repeat ch_zero k.
Proof.
  unfold trim_end_zeros. destruct (trim_rev_spec (rev s)) as [k Hk]. exists k.
  rewrite <- (rev_involutive s) at 1. rewrite Hk at 1. rewrite rev_app_distr, rev_zeros. reflexivity.
Qed.

Section Print.
  Variable f : fmt.
  Hypothesis Hok : fmt_ok f.
  Local Notation K := (2 ^ (fbits f - 1)).

  (* the fractional digits printed for a remainder 0 < a < ONE denote exactly a *)
  Lemma frac_spec a : 0 < a < one f ->
    let fp := trim_end_zeros (pad0 (Z.to_nat (scale f)) (show_int a)) in
    all_digits fp = true /\ nonempty fp = true /\ Z.of_nat (length fp) <= scale f /\
    dval fp * 10 ^ (scale f - Z.of_nat (length fp)) = a.
  Proof.
    intros Ha fp. destruct Hok as (Hsc & _).
    assert (Es : show_int a = digits a) by (unfold show_int; destruct (Z.ltb_spec a 0); [lia|reflexivity]).
    destruct (digits_spec a ltac:(lia)) as (Hda & Hdn & Hdv & Hdl).
    pose proof (Hdl (scale f) ltac:(lia) ltac:(unfold one in Ha; lia)) as Hlen.
    set (pad := pad0 (Z.to_nat (scale f)) (show_int a)) in *.
    assert (Hpad : pad = repeat ch_zero (Z.to_nat (scale f) - length (digits a)) ++ digits a)
      by (unfold pad, pad0; rewrite Es; reflexivity).
    destruct (zeros_spec (Z.to_nat (scale f) - length (digits a))) as [Hz1 Hz2].
    assert (Hpa : all_digits pad = true) by (rewrite Hpad, all_digits_app, Hz1, Hda; reflexivity).
    assert (Hpl : Z.of_nat (length pad) = scale f) by (rewrite Hpad, app_length, repeat_length; lia).
    assert (Hpv : dval pad = a) by (rewrite Hpad, dval_app, Hz2, Hdv by assumption; lia).
    destruct (trim_spec pad) as [k Hk]. fold fp in Hk.
    destruct (zeros_spec k) as [Hk1 Hk2].
    assert (Hfa : all_digits fp = true).
    { rewrite Hk, all_digits_app in Hpa. apply andb_true_iff in Hpa. tauto. }
    assert (Hfl : Z.of_nat (length fp) + Z.of_nat k = scale f).
    { pose proof (f_equal (@length N) Hk) as Hl. rewrite app_length, repeat_length in Hl. lia. }
    assert (Hfv : dval fp * 10 ^ Z.of_nat k = a).
    { pose proof (f_equal dval Hk) as Hl. rewrite dval_app, repeat_length, Hk2 in Hl by assumption. lia. }
    split; [exact Hfa|]. split.
    - destruct fp; [cbn in Hfv; lia|reflexivity].
    - split; [lia|]. replace (scale f - Z.of_nat (length fp)) with (Z.of_nat k) by lia. exact Hfv.
  Qed.

  Lemma show_int_spec z : 
    nodot (show_int z) = true /\
    strip_sign (show_int z) = (z <? 0, digits (Z.abs z)) /\
    all_digits (digits (Z.abs z)) = true /\ nonempty (digits (Z.abs z)) = true /\ dval (digits (Z.abs z)) = Z.abs z.
  Proof.
    destruct (digits_spec (Z.abs z) ltac:(lia)) as (Hda & Hdn & Hdv & _).
    assert (Hne : nonempty (digits (Z.abs z)) = true) by (destruct (digits (Z.abs z)); [congruence|reflexivity]).
    unfold show_int. destruct (Z.ltb_spec z 0).
    - replace (- z) with (Z.abs z) by lia. repeat split; try assumption.
      cbn [nodot forallb]. change (negb (ch_minus =? ch_dot)%N) with true. apply nodot_digits. exact Hda.
    - replace z with (Z.abs z) at 1 2 by lia. repeat split; try assumption.
      + apply nodot_digits. exact Hda.
      + apply strip_sign_digits. exact Hda.
  Qed.

  Theorem print_spec x : InF f x -> parse_spec f (dec_to_string f x) = Some x.
  Proof.
    intros Hx. pose proof (one_pos f Hok) as H1.
    assert (Hin : in_f f x = true) by (apply in_ity_iff; exact Hx).
    pose proof (Z.quot_rem' x (one f)) as Hqr.
    pose proof (Z.rem_bound_abs x (one f) ltac:(lia)) as Hrb.
    pose proof (Z.rem_sign_mul x (one f) ltac:(lia)) as Hrs.
    unfold parse_spec, grammar_value, dec_to_string. cbv zeta.
    set (q := Z.quot x (one f)) in *. set (r := Z.rem x (one f)) in *.
    destruct (show_int_spec q) as (Hnd & Hss & Hqa & Hqn & Hqv).
    destruct (Z.eqb_spec r 0) as [Hr0|Hr0]; cbn [negb].
    - (* whole number *)
      rewrite split_dot_nodot by exact Hnd. cbn [rev app]. rewrite Hss, Hqn, Hqa. cbn [andb]. rewrite Hqv.
      assert (E : (if q <? 0 then -1 else 1) * (Z.abs q * one f) = x)
        by (destruct (Z.ltb_spec q 0); nia).
      rewrite E, Hin. reflexivity.
    - destruct (frac_spec (Z.abs r) ltac:(lia)) as (Hfa & Hfn & Hfl & Hfv).
      set (fp := trim_end_zeros (pad0 (Z.to_nat (scale f)) (show_int (Z.abs r)))) in *.
      set (sign := if (r <? 0) && (q =? 0) then [ch_minus] else []).
      assert (Hsplit : split_dot (sign ++ show_int q ++ [ch_dot] ++ fp) [] = [sign ++ show_int q; fp]).
      { rewrite app_assoc. cbn [app]. rewrite split_dot_one.
        - rewrite split_dot_nodot by (apply nodot_digits; exact Hfa). reflexivity.
        - rewrite nodot_app, Hnd. unfold sign. destruct ((r <? 0) && (q =? 0)); reflexivity. }
      rewrite Hsplit.
      assert (Hip : strip_sign (sign ++ show_int q) = ((q <? 0) || ((r <? 0) && (q =? 0)), digits (Z.abs q))).
      { unfold sign. destruct (Z.ltb_spec r 0) as [Hrn|Hrp]; cbn [andb].
        - destruct (Z.eqb_spec q 0) as [Hq0|Hq0].
          + rewrite Hq0. cbn. reflexivity.
          + cbn [app]. rewrite Hss, orb_false_r. reflexivity.
        - cbn [app]. rewrite Hss, orb_false_r. reflexivity. }
      rewrite Hip, Hqn, Hqa, Hfn, Hfa. cbn [andb].
      rewrite (proj2 (Z.leb_le _ _) Hfl), Hqv, Hfv.
      assert (E : (if (q <? 0) || ((r <? 0) && (q =? 0)) then -1 else 1) * (Z.abs q * one f + Z.abs r) = x).
      { destruct (Z.ltb_spec q 0), (Z.ltb_spec r 0), (Z.eqb_spec q 0); cbn [orb andb]; nia. }
      rewrite E, Hin. reflexivity.
  Qed.
End Print.
