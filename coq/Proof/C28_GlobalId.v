(* C28 — NonFungibleGlobalId text round trip. *)
From Coq Require Import List NArith Arith Bool Lia.
Import ListNotations.
Require Import RV.Gen.C28_entity_types RV.Model.C28_Bech32 RV.Model.C28_LocalId RV.Model.C28_GlobalId.
Require Import RV.Proof.C28_Address RV.Proof.C28_Bits RV.Proof.C28_Roundtrip RV.Proof.C28_LocalId
  RV.Proof.C28_LocalIdRoundtrip.
Open Scope N_scope.

Lemma split_none : forall t, ~ In 58 t -> split_colon t = [t].
Proof.
  induction t as [|c t IH]; intros H; [reflexivity|]. cbn [split_colon].
  destruct (N.eqb_spec c 58) as [->|NE]; [exfalso; apply H; left; reflexivity|].
  rewrite IH by (intros I; apply H; right; exact I). reflexivity.
Qed.

Lemma split_one : forall a t, ~ In 58 a -> ~ In 58 t -> split_colon (a ++ 58 :: t) = [a; t].
Proof.
  induction a as [|c a IH]; intros t Ha Ht; cbn [app split_colon].
  - rewrite N.eqb_refl, (split_none t Ht). reflexivity.
  - destruct (N.eqb_spec c 58) as [->|NE]; [exfalso; apply Ha; left; reflexivity|].
    rewrite IH; [reflexivity| |exact Ht]. intros I. apply Ha. right. exact I.
Qed.

Lemma table_no_colon : forallb (fun e => forallb (fun c => negb (c =? 58)) (snd e)) entity_table = true.
Proof. vm_compute. reflexivity. Qed.

Lemma prefix_no_colon : forall b p, entity_prefix b = Some p -> ~ In 58 p.
Proof.
  intros b p H I. apply lookup_in in H. pose proof table_no_colon as T. rewrite forallb_forall in T.
  specialize (T _ H). cbn [snd] in T. rewrite forallb_forall in T. specialize (T _ I). discriminate.
Qed.

Lemma encoded_no_colon : forall suffix b tl a, ~ In 58 suffix ->
  encode_address suffix (b :: tl) = Ok a -> ~ In 58 a.
Proof.
  intros suffix b tl a Hs H I.
  destruct (encode_shape _ _ _ _ H) as (p & dchars & cchars & P & _ & M1 & M2 & ->).
  pose proof (map_res_notin _ _ M1) as F1. pose proof (map_res_notin _ _ M2) as F2.
  rewrite Forall_forall in F1, F2.
  apply in_app_or in I. destruct I as [I|I].
  - apply in_app_or in I. destruct I as [I|I]; [exact (prefix_no_colon _ _ P I)|exact (Hs I)].
  - destruct I as [I|I]; [discriminate|]. apply in_app_or in I.
    destruct I as [I|I]; [destruct (F1 _ I) as [_ A]|destruct (F2 _ I) as [_ A]]; apply A; reflexivity.
Qed.

Lemma in_firstn : forall (l : list N) n x, In x (firstn n l) -> In x l.
Proof.
  induction l as [|y l IH]; intros n x H; destruct n; cbn in H; try contradiction.
  destruct H as [->|H]; [left; reflexivity|right; eapply IH; exact H].
Qed.
Lemma in_skipn : forall (l : list N) n x, In x (skipn n l) -> In x l.
Proof.
  induction l as [|y l IH]; intros n x H; destruct n; cbn in H; try contradiction; try exact H.
  right. eapply IH. exact H.
Qed.

Lemma print_no_colon : forall id, valid_id id -> ~ In 58 (print id).
Proof.
  intros [s|n|b|b] V I; cbn [valid_id print] in *; cbn [app In] in I.
  - destruct I as [I|I]; [discriminate|]. apply in_app_or in I. destruct I as [I|[I|[]]]; [|discriminate].
    unfold validate_string in V. destruct (Nat.eqb _ 0); [discriminate|]. destruct (Nat.ltb _ _); [discriminate|].
    destruct (forallb is_id_char s) eqn:F; [|discriminate]. rewrite forallb_forall in F.
    specialize (F _ I). discriminate.
  - destruct I as [I|I]; [discriminate|]. apply in_app_or in I. destruct I as [I|[I|[]]]; [|discriminate].
    assert (n < 10 ^ N.of_nat 20) as B
      by (unfold U64_MAX in V; change (10 ^ N.of_nat 20) with 100000000000000000000; lia).
    destruct (digits_rev_spec 19 n B) as (D & _). cbv zeta in D. unfold dec_digits in I.
    rewrite forallb_forall in D. specialize (D _ I). discriminate.
  - destruct V as [_ BL]. destruct (hex_roundtrip b BL) as (_ & X & _).
    destruct I as [I|I]; [discriminate|]. apply in_app_or in I. destruct I as [I|[I|[]]]; [|discriminate].
    unfold hexish in X. rewrite Forall_forall in X. destruct (X _ I) as (_ & _ & A). apply A. reflexivity.
  - destruct V as [_ BL]. destruct (hex_roundtrip b BL) as (_ & X & _).
    unfold hexish in X. rewrite Forall_forall in X.
    assert (forall x, In x (hex_encode b) -> x <> 58) as NX by (intros x Hx; destruct (X _ Hx) as (_ & _ & A); exact A).
    repeat (first [ apply in_app_or in I; destruct I as [I|I]
                  | destruct I as [I|I]; [discriminate|] ]);
      try contradiction;
      try (apply in_firstn in I; try apply in_skipn in I; exact (NX _ I eq_refl)).
Qed.

Theorem global_roundtrip : forall suffix data id a,
  byte_list data -> is_resource_node data = true -> valid_id id -> ~ In 58 suffix ->
  encode_address suffix data = Ok a ->
  global_print suffix data id = Ok (a ++ [58] ++ print id)
  /\ global_from_str suffix (a ++ [58] ++ print id) = Ok (data, id).
Proof.
  intros suffix data id a BL R V Hs E. split; [unfold global_print; now rewrite E|].
  destruct (address_roundtrip suffix data a BL E) as (b & tl & -> & D).
  unfold global_from_str. change (a ++ [58] ++ print id) with (a ++ 58 :: print id).
  rewrite (split_one a (print id) (encoded_no_colon _ _ _ _ Hs E) (print_no_colon id V)).
  rewrite D, R, (localid_text_roundtrip id V). reflexivity.
Qed.

(* the stated corner: a suffix containing ':' makes the printed text unparseable *)
Lemma colon_suffix_breaks : forall s, In 58 s -> forall t, split_colon (s ++ 58 :: t) <> [s; t].
Proof.
  induction s as [|c s IH]; intros I t; [contradiction|]. cbn [app split_colon].
  destruct (N.eqb_spec c 58) as [->|NE]; [discriminate|].
  destruct I as [->|I]; [contradiction|].
  specialize (IH I t). destruct (split_colon (s ++ 58 :: t)) as [|p ps]; [discriminate|].
  intros C. inversion C. subst. apply IH. reflexivity.
Qed.
