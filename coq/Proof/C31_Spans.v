(* C31 — every span the lexer model produces (token spans and the error span) is well formed:
   start <= end <= number of characters of the text.  Indices are character indices, so both ends are on
   character boundaries by construction. *)
From Coq Require Import List Arith NArith ZArith Bool Lia.
Import ListNotations.
Require Import RV.Model.C30_Text RV.Proof.C30_Text RV.Model.C31_Lexer RV.Proof.C31_Lexer.
Open Scope N_scope.

Definition ln {A} (l : list A) : N := N.of_nat (length l).
Lemma ln_cons : forall A (x : A) l, ln (x :: l) = ln l + 1.
Proof. intros; unfold ln; cbn [length]; lia. Qed.
Lemma ln_nil : forall A, ln (@nil A) = 0. Proof. reflexivity. Qed.

(* ---- string lexer ------------------------------------------------------------------------------------- *)
Definition Q (l : list N) (pos : N) (r : sres) : Prop :=
  match r with
  | SOk _ e => pos < e /\ e <= pos + ln l
  | SErr _ a b => pos <= a /\ a <= b /\ b <= pos + ln l
  | SPanic => False
  end.
Definition NTQ (total pos : N) (r : ntres) : Prop :=
  match r with
  | NTOk _ rest e => pos < e /\ e + ln rest = total
  | NTErr _ a b => pos <= a /\ a <= b /\ b <= total
  | NTPanic => False
  end.

Ltac solveQ := cbn [lex_string hex_err Q NTQ]; rewrite ?ln_cons, ?ln_nil; lia.
Lemma Q_shift : forall r k pos res l, Q r (pos + k) res -> ln l = ln r + k -> Q l pos res.
Proof. intros r k pos res l H E. destruct res; cbn [Q NTQ] in *; lia. Qed.

Lemma hex_err_span : forall n u p, Q u p (hex_err n u p) \/ hex_err n u p = SPanic.
Proof.
  induction n as [|n IH]; intros u p; [right; reflexivity|]. cbn [hex_err].
  destruct u as [|c t]; [left; solveQ|].
  destruct (hexval c); [|left; solveQ].
  destruct (IH t (p + 1)) as [H|H]; [left | right; exact H].
  apply (Q_shift t 1 p _ _ H). rewrite ln_cons; reflexivity.
Qed.
Lemma hex_err_Q_short : forall u p, (length u < 4)%nat -> Q u p (hex_err 4 u p).
Proof. intros u p H. destruct (hex_err_span 4 u p) as [HQ|HP]; [exact HQ | exfalso; apply (hex_err_short u p H HP)]. Qed.
Lemma hex_err_Q_none : forall a b c d r p, hex4val a b c d = None -> Q (a :: b :: c :: d :: r) p (hex_err 4 (a :: b :: c :: d :: r) p).
Proof. intros a b c d r p H. destruct (hex_err_span 4 (a :: b :: c :: d :: r) p) as [HQ|HP]; [exact HQ | exfalso; apply (hex_err_none a b c d r p H HP)]. Qed.

Lemma after_hi_Q : forall unit1 r pos start acc, 55296 <= unit1 ->
  (forall r2 pos' acc', (length r2 <= length r)%nat -> Q r2 pos' (lex_string r2 pos' start acc')) ->
  Q (92 :: 117 :: 0 :: 0 :: 0 :: 0 :: r) pos (after_hi unit1 r pos start acc).
Proof.
  intros unit1 r pos start acc Hu IH. unfold after_hi.
  destruct r as [|x r1]; [solveQ|].
  destruct (N.eq_dec x 92) as [->|Hx]; [|rewrite not92_default by exact Hx; solveQ].
  destruct r1 as [|y u2]; [solveQ|].
  destruct (N.eq_dec y 117) as [->|Hy]; [|rewrite not117_default by exact Hy; solveQ].
  assert (Hsh : forall res, Q u2 (pos + 6 + 2) res -> Q (92 :: 117 :: 0 :: 0 :: 0 :: 0 :: 92 :: 117 :: u2) pos res).
  { intros res H. apply (Q_shift u2 8 pos res); [rewrite <- N.add_assoc in H; exact H | rewrite !ln_cons; lia]. }
  destruct u2 as [|a2 [|b2 [|c2 [|d2 r2]]]]; try (apply Hsh; apply hex_err_Q_short; cbn [length]; lia).
  destruct (hex4val a2 b2 c2 d2) as [unit2|] eqn:E; [|apply Hsh; apply hex_err_Q_none; exact E].
  cbv zeta. destruct (65536 + (unit1 - 55296) * 1024 + unit2 <? 56320) eqn:El; [apply N.ltb_lt in El; lia|].
  destruct (is_scalar _).
  - apply (Q_shift r2 12 pos); [|rewrite !ln_cons; lia].
    replace (pos + 12) with (pos + 6 + 6) by lia. apply IH. cbn [length]; lia.
  - solveQ.
Qed.

Lemma lex_string_Q_n : forall n l, (length l <= n)%nat -> forall pos start acc, Q l pos (lex_string l pos start acc).
Proof.
  induction n as [|n IH]; intros l Hl pos start acc.
  - destruct l; [solveQ | cbn in Hl; lia].
  - destruct l as [|c t]; [solveQ|]. cbn [length] in Hl.
    destruct (N.eq_dec c 34) as [->|H34]; [solveQ|].
    destruct (N.eq_dec c 92) as [->|H92].
    2:{ rewrite lex_plain by assumption. apply (Q_shift t 1); [apply IH; lia | rewrite ln_cons; reflexivity]. }
    destruct t as [|c2 r]; [solveQ|]. cbn [length] in Hl.
    assert (Hsimple : forall x, Q (92 :: c2 :: r) pos (lex_string r (pos + 2) start (x :: acc))).
    { intro x. apply (Q_shift r 2); [apply IH; lia | rewrite !ln_cons; lia]. }
    destruct (N.eq_dec c2 34) as [->|E1]; [cbn [lex_string]; apply Hsimple|].
    destruct (N.eq_dec c2 92) as [->|E2]; [cbn [lex_string]; apply Hsimple|].
    destruct (N.eq_dec c2 47) as [->|E3]; [cbn [lex_string]; apply Hsimple|].
    destruct (N.eq_dec c2 98) as [->|E4]; [cbn [lex_string]; apply Hsimple|].
    destruct (N.eq_dec c2 102) as [->|E5]; [cbn [lex_string]; apply Hsimple|].
    destruct (N.eq_dec c2 110) as [->|E6]; [cbn [lex_string]; apply Hsimple|].
    destruct (N.eq_dec c2 114) as [->|E7]; [cbn [lex_string]; apply Hsimple|].
    destruct (N.eq_dec c2 116) as [->|E8]; [cbn [lex_string]; apply Hsimple|].
    destruct (N.eq_dec c2 117) as [->|E9]; [|rewrite lex_bad_escape by assumption; solveQ].
    assert (Hsh : forall res, Q r (pos + 2) res -> Q (92 :: 117 :: r) pos res).
    { intros res H. apply (Q_shift r 2 pos res _ H). rewrite !ln_cons; lia. }
    destruct r as [|a [|b [|c3 [|d r2]]]]; try (cbn [lex_string]; apply Hsh; apply hex_err_Q_short; cbn [length]; lia).
    cbn [length] in Hl.
    destruct (hex4val a b c3 d) as [unit1|] eqn:Eh.
    + rewrite (lex_u_eq _ _ _ _ _ _ _ _ _ Eh).
      destruct ((55296 <=? unit1) && (unit1 <=? 57343)) eqn:Es.
      * apply andb_true_iff in Es. destruct Es as [Es _]. apply N.leb_le in Es.
        pose proof (after_hi_Q unit1 r2 pos start acc Es) as H.
        assert (HQ : Q (92 :: 117 :: 0 :: 0 :: 0 :: 0 :: r2) pos (after_hi unit1 r2 pos start acc)).
        { apply H. intros r3 pos' acc' Hr. apply IH. lia. }
        destruct (after_hi unit1 r2 pos start acc); cbn [Q NTQ] in *; rewrite ?ln_cons in *; try exact HQ; lia.
      * destruct (is_scalar unit1).
        -- apply (Q_shift r2 6); [apply IH; lia | rewrite !ln_cons; lia].
        -- solveQ.
    + cbn [lex_string]. rewrite Eh. apply Hsh. apply hex_err_Q_none; exact Eh.
Qed.
Lemma lex_string_Q : forall l pos start acc, Q l pos (lex_string l pos start acc).
Proof. intros. apply (lex_string_Q_n (length l) l (le_n _)). Qed.

(* ---- the other sub-lexers keep  position + remaining length  constant ------------------------------------ *)
Lemma skip_pos : forall l pos ic l1 p1, skip l pos ic = (l1, p1) -> p1 + ln l1 = pos + ln l.
Proof.
  induction l as [|c t IH]; intros pos ic l1 p1 H; cbn [skip] in H.
  - inversion H; subst; reflexivity.
  - rewrite ln_cons. destruct ic; [apply IH in H; lia|].
    destruct (c =? 35); [apply IH in H; lia|]. destruct (is_ws c); [apply IH in H; lia|].
    inversion H; subst. rewrite ln_cons. reflexivity.
Qed.
Lemma take_digits_pos : forall l pos acc m l2 p2, take_digits l pos acc = Some (m, l2, p2) -> p2 + ln l2 = pos + ln l.
Proof.
  induction l as [|c t IH]; intros pos acc m l2 p2 H; cbn [take_digits] in H; [discriminate|].
  rewrite ln_cons. destruct (is_digit c); [apply IH in H; lia | inversion H; subst; rewrite ln_cons; reflexivity].
Qed.
Lemma take_ident_pos : forall l pos acc id rest p, take_ident l pos acc = (id, rest, p) -> p + ln rest = pos + ln l.
Proof.
  induction l as [|c t IH]; intros pos acc id rest p H; cbn [take_ident] in H.
  - inversion H; subst; reflexivity.
  - rewrite ln_cons. destruct (is_ident_char c); [apply IH in H; lia | inversion H; subst; rewrite ln_cons; reflexivity].
Qed.
Lemma lex_int_type_pos : forall l pos,
  match lex_int_type l pos with
  | TyOk _ _ rest p => p + ln rest = pos + ln l
  | TyEof p => p = pos + ln l
  | TyBad p => pos < p /\ p <= pos + ln l
  end.
Proof.
  intros l pos. unfold lex_int_type.
  destruct l as [|c t]; [rewrite ln_nil; lia|]. rewrite ln_cons.
  destruct ((c =? 105) || (c =? 117)); [|lia].
  destruct t as [|c1 t1]; [rewrite ln_nil; lia|]. rewrite ln_cons.
  destruct (c1 =? 49).
  { destruct t1 as [|c2 t2]; [rewrite ln_nil; lia|]. rewrite ln_cons. destruct (c2 =? 50).
    - destruct t2 as [|c3 t3]; [rewrite ln_nil; lia|]. rewrite ln_cons. destruct (c3 =? 56); lia.
    - destruct (c2 =? 54); lia. }
  destruct (c1 =? 51). { destruct t1 as [|c2 t2]; [rewrite ln_nil; lia|]. rewrite ln_cons. destruct (c2 =? 50); lia. }
  destruct (c1 =? 54). { destruct t1 as [|c2 t2]; [rewrite ln_nil; lia|]. rewrite ln_cons. destruct (c2 =? 52); lia. }
  destruct (c1 =? 56); lia.
Qed.

Lemma lex_number_Q : forall c t pos, NTQ (pos + ln (c :: t)) pos (lex_number (c :: t) pos).
Proof.
  intros c t pos. unfold lex_number.
  assert (G : forall l1 p1 neg, pos <= p1 -> p1 + ln l1 = pos + ln (c :: t) ->
            NTQ (pos + ln (c :: t)) pos
            (match l1 with
             | [] => NTErr LUnexpectedEof p1 p1
             | c0 :: t0 =>
                 match (if c0 =? 48 then Some (Some (0%Z, t0, p1 + 1))
                        else if is_digit c0 then Some (take_digits t0 (p1 + 1) (Z.of_N (c0 - 48))) else None) with
                 | None => NTErr LInvalidIntegerLiteral pos (p1 + 1)
                 | Some None => NTErr LUnexpectedEof (p1 + 1 + N.of_nat (length t0)) (p1 + 1 + N.of_nat (length t0))
                 | Some (Some (mag, l2, p2)) =>
                     match lex_int_type l2 p2 with
                     | TyEof p => NTErr LUnexpectedEof p p
                     | TyBad p => NTErr LInvalidIntegerType p2 p
                     | TyOk sg bits rest0 p3 =>
                         match parse_int neg mag sg bits with
                         | Some v => NTOk (TInt sg bits v) rest0 p3
                         | None => NTErr LInvalidInteger pos p3
                         end
                     end
                 end
             end)).
  { intros l1 p1 neg Hp Ht. destruct l1 as [|c0 t0]; [cbn [Q NTQ]; rewrite ln_nil in Ht; lia|]. rewrite ln_cons in Ht.
    assert (Hty : forall mag l2 p2, p1 < p2 -> p2 + ln l2 = pos + ln (c :: t) ->
              NTQ (pos + ln (c :: t)) pos
                (match lex_int_type l2 p2 with
                 | TyEof p => NTErr LUnexpectedEof p p
                 | TyBad p => NTErr LInvalidIntegerType p2 p
                 | TyOk sg bits rest0 p3 => match parse_int neg mag sg bits with Some v => NTOk (TInt sg bits v) rest0 p3 | None => NTErr LInvalidInteger pos p3 end
                 end)).
    { intros mag l2 p2 H2 Ht2. pose proof (lex_int_type_pos l2 p2) as HT.
      destruct (lex_int_type l2 p2) as [sg bits rest0 p3|p|p] eqn:ET; cbn [Q NTQ].
      - pose proof (lex_int_type_len l2 p2 sg bits rest0 p3 ET) as HL.
        assert (p2 <= p3) by (unfold ln in *; lia).
        destruct (parse_int neg mag sg bits); cbn [Q NTQ]; unfold ln in *; lia.
      - unfold ln in *; lia.
      - unfold ln in *; lia. }
    destruct (c0 =? 48).
    - apply Hty; lia.
    - destruct (is_digit c0); [|cbn [Q NTQ]; lia].
      destruct (take_digits t0 (p1 + 1) (Z.of_N (c0 - 48))) as [[[mag l2] p2]|] eqn:ED.
      + pose proof (take_digits_pos _ _ _ _ _ _ ED) as HD. pose proof (take_digits_len _ _ _ _ _ _ ED) as HL.
        apply Hty; unfold ln in *; lia.
      + cbn [Q NTQ]. unfold ln in *. lia. }
  destruct (N.eq_dec c 45) as [->|Hc].
  - exact (G t (pos + 1) true ltac:(lia) ltac:(rewrite (ln_cons _ 45 t); lia)).
  - assert (E : (match c :: t with 45 :: t' => (true, t', pos + 1) | _ => (false, c :: t, pos) end) = (false, c :: t, pos)).
    { destruct c as [|p]; [reflexivity|]. do 6 (try (destruct p as [p|p|]; try reflexivity)). exfalso; apply Hc; reflexivity. }
    rewrite E. exact (G (c :: t) pos false ltac:(lia) ltac:(lia)).
Qed.

Lemma next_token_Q : forall c t pos, NTQ (pos + 1 + ln t) pos (next_token c t pos).
Proof.
  intros c t pos. unfold next_token.
  destruct ((c =? 45) || is_digit c).
  { pose proof (lex_number_Q c t pos) as H. rewrite ln_cons in H. replace (pos + (ln t + 1)) with (pos + 1 + ln t) in H by lia. exact H. }
  destruct (c =? 34).
  { pose proof (lex_string_Q t (pos + 1) pos []) as H.
    destruct (lex_string t (pos + 1) pos []) as [s e|k a b|]; cbn [Q NTQ] in *; [|lia|exact H].
    split; [lia|]. unfold ln. rewrite skipn_length. unfold ln in H. lia. }
  destruct (is_alpha c).
  { destruct (take_ident t (pos + 1) [c]) as [[id rest0] p] eqn:E.
    pose proof (take_ident_pos _ _ _ _ _ _ E) as HP. pose proof (take_ident_len _ _ _ _ _ _ E) as HL.
    cbn [NTQ]. unfold ln in *. lia. }
  repeat (match goal with |- NTQ _ _ (if ?b then _ else _) => destruct b end; [cbn [NTQ]; lia|]).
  destruct (c =? 61).
  { destruct t as [|c1 t1]; [cbn [NTQ]; rewrite ln_nil; lia|]. rewrite ln_cons. destruct (c1 =? 62); cbn [NTQ]; lia. }
  destruct ((c =? 123) || (c =? 125) || (c =? 38)); cbn [NTQ]; lia.
Qed.

Definition span_ok (total : N) (x : tok) : Prop := let '(_, a, b) := x in a < b /\ b <= total.

Lemma tokenize_fuel_spans : forall fuel l pos acc total, pos + ln l = total -> Forall (span_ok total) acc ->
  match tokenize_fuel fuel l pos acc with
  | LOk ts => Forall (span_ok total) ts
  | LErr _ a b => a <= b /\ b <= total
  | _ => True
  end.
Proof.
  induction fuel as [|f IH]; intros l pos acc total Ht Hacc; [exact I|]. cbn [tokenize_fuel].
  destruct (skip l pos false) as [l1 p1] eqn:ES. apply skip_pos in ES.
  destruct l1 as [|c t]; [apply Forall_rev; exact Hacc|]. rewrite ln_cons in ES.
  pose proof (next_token_Q c t p1) as HN.
  destruct (next_token c t p1) as [tk rest p2|k a b|]; cbn [NTQ] in HN; [|lia|exact I].
  apply IH; [lia|]. constructor; [cbn; lia | exact Hacc].
Qed.

(* C31_lex_spans_wellformed *)
Theorem lex_spans_wellformed : forall text,
  match tokenize text with
  | LOk ts => Forall (span_ok (ln text)) ts
  | LErr _ a b => a <= b /\ b <= ln text
  | _ => True
  end.
Proof. intro text. unfold tokenize. apply tokenize_fuel_spans; [lia | constructor]. Qed.
