(* C21 — payload level: traverser totality and decoder/traverser agreement. *)
From Coq Require Import List NArith ZArith Bool Lia.
Import ListNotations.
Require Import RV.Lib.Utf8 RV.Model.C20_Sbor RV.Model.C21_Traverser RV.Proof.C20_Base RV.Proof.C20_Codec RV.Proof.C20_Sbor RV.Proof.C20_Top RV.Proof.C21_Sim RV.Proof.C21_Depth.
Open Scope N_scope.

Arguments N.add : simpl never. Arguments N.sub : simpl never. Arguments N.mul : simpl never.
Arguments N.eqb : simpl never. Arguments N.ltb : simpl never. Arguments N.leb : simpl never.

Section Agree.
Variable fl : flavour.
Variable cfg : tconfig.
Notation md := (c_md cfg).
Notation stepc := (step fl cfg).

Lemma run_final : forall n s s1 e s2, steps fl cfg n s = Some s1 -> stepc s1 = TStep e s2 ->
  is_final (l_ev e) = true -> forall fuel, (n < fuel)%nat -> exists evs, run fl cfg fuel s = RDone (evs ++ [e]).
Proof.
  induction n as [|n IH]; intros s s1 e s2 R St F fuel Hf; (destruct fuel as [|fuel]; [lia|]); cbn [steps] in R; cbn [run].
  - inversion R; subst. rewrite St, F. exists []. reflexivity.
  - destruct (stepc s) as [e0 s'|]; [|discriminate]. destruct (is_final (l_ev e0)); [discriminate|].
    destruct (IH s' s1 e s2 R St F fuel ltac:(lia)) as [evs E]. rewrite E. exists (e0 :: evs). reflexivity.
Qed.

Definition s0 (input : bytes) : tstate := mk (AReadPrefix (payload_prefix fl)) [] input.
Definition last_of (r : trun) : option tevent :=
  match r with RDone evs => match rev evs with e :: _ => Some (l_ev e) | [] => None end | _ => None end.
Lemma last_of_app : forall evs e, last_of (RDone (evs ++ [e])) = Some (l_ev e).
Proof. intros. unfold last_of. rewrite rev_app_distr. reflexivity. Qed.

(* the end step *)
Lemma step_end : forall rest, stepc (mk ANextChild [] rest) =
  if c_check_end cfg && negb (nlen rest =? 0)
  then complete_err cfg (ExtraTrailingBytes (nlen rest)) (offset cfg rest) [] rest
  else complete cfg EvEnd (offset cfg rest) [] rest AEnded.
Proof. reflexivity. Qed.

Lemma nlen_zero_iff : forall (l : bytes), (nlen l =? 0) = match l with [] => true | _ => false end.
Proof. intro l. destruct l; [reflexivity|]. rewrite nlen_cons. apply N.eqb_neq. lia. Qed.

(* outcome of the traverser on an arbitrary input, in terms of the decoder's outcome *)
Definition fuel_t (input : bytes) : nat := (2 * length input + 4)%nat.

Theorem sim_payload : forall input, 1 <= md -> c_check_end cfg = true ->
  match decode_payload fl md input with
  | Ok _ => exists evs e, run fl cfg (fuel_t input) (s0 input) = RDone (evs ++ [e]) /\ l_ev e = EvEnd
  | Err err => exists evs e err', run fl cfg (fuel_t input) (s0 input) = RDone (evs ++ [e]) /\
                                  l_ev e = EvError err' /\ err_ok cfg err err'
  | _ => False
  end.
Proof.
  intros input Hmd Hce.
  assert (Tot := decode_total fl md input).
  unfold decode_payload, decode_payload_fuel in *. unfold fuel_t.
  destruct input as [|p st]; cbn [read_byte bind] in *.
  { (* empty input *)
    destruct (run_final O (s0 []) (s0 []) _ _ eq_refl eq_refl eq_refl 4 ltac:(lia)) as [evs E].
    exists evs. eexists. eexists. split; [exact E|]. split; [reflexivity|left; reflexivity]. }
  assert (St0 : stepc (s0 (p :: st)) =
                if negb (p =? payload_prefix fl)
                then complete_err cfg (UnexpectedPayloadPrefix (payload_prefix fl) p) (offset cfg (p :: st)) [] st
                else read_value fl cfg None [] st) by reflexivity.
  destruct (negb (p =? payload_prefix fl)) eqn:P.
  { destruct (run_final O (s0 (p :: st)) _ _ _ eq_refl St0 eq_refl (2 * length (p :: st) + 4) ltac:(lia)) as [evs E].
    exists evs. eexists. eexists. split; [exact E|]. split; [reflexivity|left; reflexivity]. }
  unfold dec_value in *.
  destruct (read_value_kind fl st) as [[k st']|e0| |] eqn:RK; cbn [bind] in *; try (destruct Tot; congruence).
  2:{ (* unknown kind / underflow *)
      assert (St1 : stepc (s0 (p :: st)) = complete_err cfg e0 (offset cfg st) [] st).
      { rewrite St0. unfold read_value. rewrite RK. reflexivity. }
      destruct (run_final O (s0 (p :: st)) _ _ _ eq_refl St1 eq_refl (2 * length (p :: st) + 4) ltac:(lia)) as [evs E].
      exists evs. eexists. eexists. split; [exact E|]. split; [reflexivity|left; reflexivity]. }
  assert (Hk := proj2 (read_value_kind_len fl _ _ _ RK)).
  assert (Lk := proj1 (read_value_kind_len fl _ _ _ RK)).
  set (F := fuel_for (p :: st)) in *.
  unfold dec_deeper in *. replace (md <? 0 + 1) with false in * by (symmetry; apply N.ltb_ge; lia).
  change (0 + 1) with (nlen (@nil ancestor) + 1) in *.
  destruct (dec_body fl F md (nlen (@nil ancestor) + 1) k st') as [[v rest]|e0| |] eqn:DB; cbn [bind] in *;
    try (destruct Tot; congruence).
  - (* the decoder got a value *)
    destruct (S_all fl cfg F) as [SV _].
    destruct (SV_of fl cfg F SV None k [] st st' v rest RK ltac:(discriminate) ltac:(exact Hmd) DB) as [n [RO B]].
    assert (R1 : steps fl cfg (S n) (s0 (p :: st)) = Some (mk ANextChild [] rest)).
    { eapply steps_S; [exact St0|exact RO]. }
    assert (Se := step_end rest). rewrite Hce, nlen_zero_iff in Se. cbn [andb] in Se.
    destruct rest as [|x rest]; cbn [negb] in Se.
    + destruct (run_final (S n) _ _ _ _ R1 Se eq_refl (2 * length (p :: st) + 4) ltac:(cbn [length] in *; lia)) as [evs E].
      exists evs. eexists. split; [exact E|reflexivity].
    + destruct (run_final (S n) _ _ _ _ R1 Se eq_refl (2 * length (p :: st) + 4) ltac:(cbn [length] in *; lia)) as [evs E].
      exists evs. eexists. eexists. split; [exact E|]. split; [reflexivity|left; reflexivity].
  - (* the decoder failed inside the value *)
    destruct (R_all fl cfg F) as [RV _].
    assert (FO := RV_of fl cfg F RV None k [] st st' e0 RK ltac:(discriminate) ltac:(exact Hmd) DB).
    destruct (Fail_S fl cfg _ _ _ _ St0 FO) as [n [s1 [ev [s2 [e' [R [St [L [Oe B]]]]]]]]].
    destruct (run_final n _ _ _ _ R St ltac:(rewrite L; reflexivity) (2 * length (p :: st) + 4) ltac:(cbn [length] in *; lia)) as [evs E].
    exists evs, ev, e'. split; [exact E|]. split; [exact L|exact Oe].
Qed.

Theorem total_payload : forall input, 1 <= md ->
  exists evs, run fl cfg (fuel_t input) (s0 input) = RDone evs.
Proof.
  intros input Hmd.
  assert (Tot := decode_total fl md input).
  unfold decode_payload, decode_payload_fuel in *. unfold fuel_t.
  destruct input as [|p st]; cbn [read_byte bind] in *.
  { (* empty input *)
    destruct (run_final O (s0 []) (s0 []) _ _ eq_refl eq_refl eq_refl 4 ltac:(lia)) as [evs E].
    eexists; exact E. }
  assert (St0 : stepc (s0 (p :: st)) =
                if negb (p =? payload_prefix fl)
                then complete_err cfg (UnexpectedPayloadPrefix (payload_prefix fl) p) (offset cfg (p :: st)) [] st
                else read_value fl cfg None [] st) by reflexivity.
  destruct (negb (p =? payload_prefix fl)) eqn:P.
  { destruct (run_final O (s0 (p :: st)) _ _ _ eq_refl St0 eq_refl (2 * length (p :: st) + 4) ltac:(lia)) as [evs E].
    eexists; exact E. }
  unfold dec_value in *.
  destruct (read_value_kind fl st) as [[k st']|e0| |] eqn:RK; cbn [bind] in *; try (destruct Tot; congruence).
  2:{ (* unknown kind / underflow *)
      assert (St1 : stepc (s0 (p :: st)) = complete_err cfg e0 (offset cfg st) [] st).
      { rewrite St0. unfold read_value. rewrite RK. reflexivity. }
      destruct (run_final O (s0 (p :: st)) _ _ _ eq_refl St1 eq_refl (2 * length (p :: st) + 4) ltac:(lia)) as [evs E].
      eexists; exact E. }
  assert (Hk := proj2 (read_value_kind_len fl _ _ _ RK)).
  assert (Lk := proj1 (read_value_kind_len fl _ _ _ RK)).
  set (F := fuel_for (p :: st)) in *.
  unfold dec_deeper in *. replace (md <? 0 + 1) with false in * by (symmetry; apply N.ltb_ge; lia).
  change (0 + 1) with (nlen (@nil ancestor) + 1) in *.
  destruct (dec_body fl F md (nlen (@nil ancestor) + 1) k st') as [[v rest]|e0| |] eqn:DB; cbn [bind] in *;
    try (destruct Tot; congruence).
  - (* the decoder got a value *)
    destruct (S_all fl cfg F) as [SV _].
    destruct (SV_of fl cfg F SV None k [] st st' v rest RK ltac:(discriminate) ltac:(exact Hmd) DB) as [n [RO B]].
    assert (R1 : steps fl cfg (S n) (s0 (p :: st)) = Some (mk ANextChild [] rest)).
    { eapply steps_S; [exact St0|exact RO]. }
    assert (Se := step_end rest).
    destruct (c_check_end cfg && negb (nlen rest =? 0));
      destruct (run_final (S n) _ _ _ _ R1 Se eq_refl (2 * length (p :: st) + 4) ltac:(cbn [length] in *; lia)) as [evs E];
      eexists; exact E.
  - (* the decoder failed inside the value *)
    destruct (R_all fl cfg F) as [RV _].
    assert (FO := RV_of fl cfg F RV None k [] st st' e0 RK ltac:(discriminate) ltac:(exact Hmd) DB).
    destruct (Fail_S fl cfg _ _ _ _ St0 FO) as [n [s1 [ev [s2 [e' [R [St [L [Oe B]]]]]]]]].
    destruct (run_final n _ _ _ _ R St ltac:(rewrite L; reflexivity) (2 * length (p :: st) + 4) ltac:(cbn [length] in *; lia)) as [evs E].
    eexists; exact E.
Qed.

(* ------------------------------------------------------------------------------------------ *)
(* depth limit 0: at most four steps, never a panic                                            *)
Lemma leaf_total : forall k st, is_container k = false -> kind_ok fl k = true ->
  dec_body fl 1 0 0 k st <> Panic /\ dec_body fl 1 0 0 k st <> OutOfFuel.
Proof.
  intros k st C Hk. rewrite dec_body_S. destruct k; try discriminate C.
  - destruct st as [|b st']; cbn [read_byte bind]; [split; discriminate|].
    destruct (b =? 0); [split; discriminate|]. destruct (b =? 1); split; discriminate.
  - destruct (read_slice (ikind_bytes i) st) as [[s st1]| | |] eqn:S; cbn [bind]; try (split; discriminate);
      exfalso; first [exact (rsl_oof _ _ S)|exact (rsl_panic _ _ S)].
  - destruct (read_size st) as [[n st1]| | |] eqn:R; cbn [bind]; try (split; discriminate);
      try (exfalso; first [exact (rs_oof _ R)|exact (rs_panic _ R)]).
    destruct (read_slice n st1) as [[s st2]| | |] eqn:S; cbn [bind]; try (split; discriminate);
      try (exfalso; first [exact (rsl_oof _ _ S)|exact (rsl_panic _ _ S)]).
    destruct (utf8_valid s); split; discriminate.
  - cbn [kind_ok] in Hk. rewrite Hk. assert (T := dec_custom_T c st).
    destruct (dec_custom c st) as [[cv st1]| | |]; cbn [bind]; cbn [Tres] in T; try (split; discriminate); exfalso; tauto.
Qed.

Inductive rvb_shape (start : N) (Sk : list ancestor) : tout -> Prop :=
| ShErr : forall e st, rvb_shape start Sk (complete_err cfg e start Sk st)
| ShTerm : forall v st, rvb_shape start Sk (complete cfg (EvTerminal v) start Sk st ANextChild)
| ShStart : forall h st, rvb_shape start Sk (complete cfg (EvContainerStart h) start Sk st (AContainerStart h start)).

Lemma rvb_shape_ok : forall k start Sk st, kind_ok fl k = true ->
  rvb_shape start Sk (read_value_body fl cfg k start Sk st).
Proof.
  intros k start Sk st Hk. destruct (is_container k) eqn:C.
  2:{ destruct (leaf_total k st C Hk) as [NP NO]. unfold read_value_body.
      destruct k; try discriminate C; destruct (dec_body fl 1 0 0 _ st) as [[v st1]| | |]; try constructor; congruence. }
  unfold read_value_body. destruct k; try discriminate C.
  - destruct st as [|disc st']; cbn [read_byte bind]; [constructor|].
    destruct (read_size st') as [[n st1]| | |] eqn:R; cbn [bind]; try constructor;
      exfalso; first [exact (rs_oof _ R)|exact (rs_panic _ R)].
  - destruct (read_value_kind fl st) as [[ek st0]| | |] eqn:RK; cbn [bind]; try constructor;
      try (exfalso; first [exact (rvk_oof fl _ RK)|exact (rvk_panic fl _ RK)]).
    destruct (read_size st0) as [[n st1]| | |] eqn:R; cbn [bind]; try constructor;
      exfalso; first [exact (rs_oof _ R)|exact (rs_panic _ R)].
  - destruct (read_size st) as [[n st1]| | |] eqn:R; cbn [bind]; try constructor;
      exfalso; first [exact (rs_oof _ R)|exact (rs_panic _ R)].
  - destruct (read_value_kind fl st) as [[kk st0]| | |] eqn:RK; cbn [bind]; try constructor;
      try (exfalso; first [exact (rvk_oof fl _ RK)|exact (rvk_panic fl _ RK)]).
    destruct (read_value_kind fl st0) as [[vk st0']| | |] eqn:RV; cbn [bind]; try constructor;
      try (exfalso; first [exact (rvk_oof fl _ RV)|exact (rvk_panic fl _ RV)]).
    destruct (read_size st0') as [[n st1]| | |] eqn:R; cbn [bind]; try constructor;
      exfalso; first [exact (rs_oof _ R)|exact (rs_panic _ R)].
Qed.

Lemma end_done : forall rest fuel, exists evs, run fl cfg (S fuel) (mk ANextChild [] rest) = RDone evs.
Proof.
  intros rest fuel. cbn [run]. rewrite step_end.
  destruct (c_check_end cfg && negb (nlen rest =? 0)); eexists; reflexivity.
Qed.

Lemma run_step_final : forall s e s' f, stepc s = TStep e s' -> is_final (l_ev e) = true ->
  exists evs, run fl cfg (S f) s = RDone evs.
Proof. intros s e s' f H F. cbn [run]. rewrite H, F. eexists; reflexivity. Qed.
Lemma run_step_cont : forall s e s' f, stepc s = TStep e s' -> is_final (l_ev e) = false ->
  (exists evs, run fl cfg f s' = RDone evs) -> exists evs, run fl cfg (S f) s = RDone evs.
Proof. intros s e s' f H F [evs E]. cbn [run]. rewrite H, F, E. eexists; reflexivity. Qed.

Theorem total_payload_zero : forall input, md = 0 ->
  exists evs, run fl cfg (fuel_t input) (s0 input) = RDone evs.
Proof.
  intros input Hmd. unfold fuel_t.
  replace (2 * length input + 4)%nat with (S (S (S (S (2 * length input))))) by lia.
  set (F := (2 * length input)%nat).
  destruct input as [|p st]; [eapply run_step_final; reflexivity|].
  assert (St0 : stepc (s0 (p :: st)) =
    (if negb (p =? payload_prefix fl)
     then complete_err cfg (UnexpectedPayloadPrefix (payload_prefix fl) p) (offset cfg (p :: st)) [] st
     else read_value fl cfg None [] st)) by reflexivity.
  destruct (negb (p =? payload_prefix fl)); [eapply run_step_final; [exact St0|reflexivity]|].
  unfold read_value in St0.
  destruct (read_value_kind fl st) as [[k st']| | |] eqn:RK;
    try (eapply run_step_final; [exact St0|reflexivity]);
    try (exfalso; first [exact (rvk_oof fl _ RK)|exact (rvk_panic fl _ RK)]).
  assert (Hk := proj2 (read_value_kind_len fl _ _ _ RK)).
  destruct (rvb_shape_ok k (offset cfg st) [] st' Hk) as [e st1|v st1|h st1].
  - eapply run_step_final; [exact St0|reflexivity].
  - eapply run_step_cont; [exact St0|reflexivity|]. apply end_done.
  - eapply run_step_cont; [exact St0|reflexivity|].
    fold (mk (AContainerStart h (offset cfg st)) [] st1).
    destruct (N.eq_dec (child_count h) 0) as [Z|NZ].
    + eapply run_step_cont; [apply step_cs_empty; exact Z|reflexivity|]. apply end_done.
    + eapply run_step_final; [apply step_cs_depth; [exact NZ|rewrite Hmd; lia]|reflexivity].
Qed.
End Agree.

(* ------------------------------------------------------------------------------------------ *)
(* statements about traverse_payload                                                           *)
Definition cfg_of (md : N) (ce : bool) (input : bytes) : tconfig :=
  {| c_md := md; c_check_end := ce; c_total := nlen input |}.
Lemma traverse_payload_run : forall fl md ce input,
  traverse_payload fl md ce input = run fl (cfg_of md ce input) (fuel_t input) (s0 fl input).
Proof. reflexivity. Qed.

Theorem traverser_total : forall fl md ce input, exists evs, traverse_payload fl md ce input = RDone evs.
Proof.
  intros fl md ce input. rewrite traverse_payload_run.
  destruct (N.eq_dec md 0) as [Z|NZ].
  - apply total_payload_zero. exact Z.
  - apply total_payload. cbn. lia.
Qed.

Lemma accepts_app : forall evs e, accepts (RDone (evs ++ [e])) = match l_ev e with EvEnd => true | _ => false end.
Proof. intros. unfold accepts. rewrite rev_app_distr. reflexivity. Qed.

Theorem traverser_agrees : forall fl md input, 1 <= md ->
  (accepts (traverse_payload fl md true input) = true <-> exists v, decode_payload fl md input = Ok v).
Proof.
  intros fl md input Hmd. rewrite traverse_payload_run.
  assert (H := sim_payload fl (cfg_of md true input) input Hmd eq_refl). cbn [c_md cfg_of] in H.
  destruct (decode_payload fl md input) as [v|err| |].
  - destruct H as [evs [e [R L]]]. rewrite R, accepts_app, L. split; [intros _; exists v; reflexivity|reflexivity].
  - destruct H as [evs [e [err' [R [L _]]]]]. rewrite R, accepts_app, L. split; [discriminate|intros [v E]; discriminate].
  - contradiction.
  - contradiction.
Qed.

Definition last_event (r : trun) : option tevent :=
  match r with RDone evs => match rev evs with e :: _ => Some (l_ev e) | [] => None end | _ => None end.

Theorem traverser_error_class : forall fl md input err, 1 <= md ->
  decode_payload fl md input = Err err ->
  exists err', last_event (traverse_payload fl md true input) = Some (EvError err') /\
    (err' = err \/ err' = MaxDepthExceeded md \/ (is_uf err = true /\ is_uf err' = true)).
Proof.
  intros fl md input err Hmd D. rewrite traverse_payload_run.
  assert (H := sim_payload fl (cfg_of md true input) input Hmd eq_refl). cbn [c_md cfg_of] in H. rewrite D in H.
  destruct H as [evs [e [err' [R [L Oe]]]]]. exists err'. rewrite R. unfold last_event. rewrite rev_app_distr. cbn [rev app].
  rewrite L. split; [reflexivity|exact Oe].
Qed.

(* three-way depth consistency on encodings *)
Theorem depth_three_way : forall fl md0 md v bs, 1 <= md ->
  wf_value fl v = true -> valid_value v = true -> encode_payload fl md0 v = Ok bs ->
  (vdepth v <= md -> encode_payload fl md v = Ok bs /\ decode_payload fl md bs = Ok v /\
                     accepts (traverse_payload fl md true bs) = true) /\
  (md < vdepth v -> encode_payload fl md v = Err (EMaxDepthExceeded md) /\
                    decode_payload fl md bs = Err (MaxDepthExceeded md) /\
                    last_event (traverse_payload fl md true bs) = Some (EvError (MaxDepthExceeded md))).
Proof.
  intros fl md0 md v bs Hmd W V E. destruct (depth_consistent fl md0 md v bs W V E) as [H1 H2]. split; intro L.
  - destruct (H1 L) as [A B]. repeat split; try assumption. apply traverser_agrees; [exact Hmd|]. exists v. exact B.
  - destruct (H2 L) as [A B]. repeat split; try assumption.
    destruct (traverser_error_class fl md bs _ Hmd B) as [err' [Le [O|[O|[O _]]]]]; try discriminate; subst err'; exact Le.
Qed.
