(* Proof/C41_Pool.v — proofs about the pool model (Model/C41_Pool.v). *)
From Coq Require Import ZArith List Bool Lia.
Import ListNotations.
Require Import RV.Model.C41_Pool.
Open Scope Z_scope.

(* ---------------------------------------------------------------------------------------------- *)
(* constants *)

Lemma DD_pos : 0 < DD. Proof. reflexivity. Qed.
Lemma PP_pos : 0 < PP. Proof. reflexivity. Qed.
Lemma PP_DD : PP = DD * DD. Proof. reflexivity. Qed.
Lemma pow_36_18 : 10 ^ (36 - 18) = DD. Proof. reflexivity. Qed.
Global Opaque DD PP.

Lemma step_pos dv : dv <= 18 -> 0 < step dv.
Proof. intros. unfold step. apply Z.pow_pos_nonneg; lia. Qed.

(* floor to a multiple of d *)
Definition floor_to (d x : Z) : Z := d * (x / d).

Lemma floor_to_le d x : 0 < d -> floor_to d x <= x.
Proof. intros. unfold floor_to. pose proof (Z.mul_div_le x d). lia. Qed.
Lemma floor_to_gt d x : 0 < d -> x < floor_to d x + d.
Proof. intros. unfold floor_to. pose proof (Z.mod_pos_bound x d). pose proof (Z.div_mod x d). lia. Qed.
Lemma floor_to_nonneg d x : 0 < d -> 0 <= x -> 0 <= floor_to d x.
Proof. intros. unfold floor_to. pose proof (Z.div_pos x d). nia. Qed.
Lemma floor_to_mono d x y : 0 < d -> x <= y -> floor_to d x <= floor_to d y.
Proof. intros. unfold floor_to. pose proof (Z.div_le_mono x y d). nia. Qed.
Lemma floor_to_multiple d k : 0 < d -> floor_to d (d * k) = d * k.
Proof. intros. unfold floor_to. rewrite (Z.mul_comm d k), Z.div_mul by lia. lia. Qed.
(* x below the next multiple after a multiple a  ==>  floor x <= a *)
Lemma floor_to_below d a k x : 0 < d -> a = d * k -> x < a + d -> floor_to d x <= a.
Proof.
  intros Hd -> Hx. unfold floor_to.
  assert (x / d < k + 1) by (apply Z.div_lt_upper_bound; lia).
  nia.
Qed.

(* ---------------------------------------------------------------------------------------------- *)
(* what the checked operations compute on non-negative arguments *)

Lemma pd_of_dec_ok a x : pd_of_dec a = POk x -> x = a * DD.
Proof. unfold pd_of_dec. destruct (in256 _); congruence. Qed.

Lemma pd_div_some a b q : pd_div a b = Some q -> 0 <= a -> 0 < b -> q = a * PP / b.
Proof.
  unfold pd_div. intros H Ha Hb. destruct (in384 _); [|discriminate].
  destruct (Z.eqb_spec b 0); [lia|]. destruct (in256 _); [|discriminate].
  inversion H. apply Z.quot_div_nonneg; [|lia]. pose proof PP_pos. nia.
Qed.
Lemma pd_div_some_nz a b q : pd_div a b = Some q -> b <> 0.
Proof.
  unfold pd_div. destruct (in384 _); [|discriminate]. destruct (Z.eqb_spec b 0); [discriminate|auto].
Qed.
Lemma pd_mul_some a b c : pd_mul a b = Some c -> 0 <= a -> 0 <= b -> c = a * b / PP.
Proof.
  unfold pd_mul. intros H Ha Hb. destruct (in384 _); [|discriminate]. destruct (in256 _); [|discriminate].
  inversion H. apply Z.quot_div_nonneg; [nia|apply PP_pos].
Qed.

Lemma round_to_nonneg t sc dp m x y :
  round_to t sc dp m x = POk (Some y) -> m <> RUp -> 0 <= x ->
  0 <= dp <= sc /\ y = floor_to (10 ^ (sc - dp)) x.
Proof.
  unfold round_to. intros H Hm Hx.
  destruct (Z.leb_spec dp sc); cbn [negb] in H; [|discriminate].
  destruct (Z.leb_spec 0 dp); cbn [negb] in H; [|discriminate].
  split; [lia|].
  set (d := 10 ^ (sc - dp)) in *.
  assert (Hd : 0 < d) by (apply Z.pow_pos_nonneg; lia).
  rewrite Z.rem_mod_nonneg in H by lia.
  pose proof (Z.mod_pos_bound x d Hd). pose proof (Z.div_mod x d ltac:(lia)).
  unfold floor_to.
  destruct (Z.eqb_spec (x mod d) 0).
  - assert (x = y) by congruence. subst y. lia.
  - destruct (Z.ltb_spec (x mod d) 0); [lia|].
    assert (Hup : match m with RDown => false | RUp => true | RZero => negb (0 <? x) end = false).
    { destruct m; [reflexivity|congruence|]. destruct (Z.ltb_spec 0 x); [reflexivity|].
      assert (x = 0) by lia. subst. rewrite Z.mod_0_l in * by lia. lia. }
    rewrite Hup in H. destruct (in_ity t _); [|discriminate]. assert (y = x - x mod d) by congruence. lia.
Qed.

Lemma pd_to_dec_some p d : pd_to_dec p = POk (Some d) -> 0 <= p -> d = p / DD.
Proof.
  unfold pd_to_dec. intros H Hp.
  destruct (round_to I256 36 18 RZero p) as [[r|]| |] eqn:E; cbn [pbind obind] in H; try discriminate.
  apply round_to_nonneg in E; [|discriminate|lia]. destruct E as [_ ->].
  rewrite pow_36_18 in H. destruct (in192 _); [|discriminate].
  assert (Hd : d = Z.quot (floor_to DD p) DD) by congruence. rewrite Hd.
  unfold floor_to. pose proof DD_pos.
  rewrite Z.quot_div_nonneg; [|apply Z.mul_nonneg_nonneg; [lia|apply Z.div_pos; lia]|lia].
  rewrite Z.mul_comm, Z.div_mul; lia.
Qed.

Lemma to_dec_or_overflow_ok p d : to_dec_or_overflow p = POk d -> 0 <= p -> d = p / DD.
Proof.
  unfold to_dec_or_overflow. intros H Hp.
  destruct (pd_to_dec p) as [[x|]| |] eqn:E; cbn [pbind orerr] in H; try discriminate.
  assert (x = d) by congruence. subst. eapply pd_to_dec_some; eauto.
Qed.

Lemma dec_round_down_ok dv a y :
  dec_round dv RDown a = POk (Some y) -> 0 <= a -> 0 <= dv <= 18 /\ y = floor_to (step dv) a.
Proof. unfold dec_round, step. intros. eapply round_to_nonneg; eauto. discriminate. Qed.

(* division facts used below *)
Lemma div_div_DD x : 0 <= x -> x * DD / PP = x / DD.
Proof. intros. rewrite PP_DD. apply Z.div_mul_cancel_r; pose proof DD_pos; lia. Qed.

(* ---------------------------------------------------------------------------------------------- *)
(* calculate_amount_owed *)

(* the amount owed as a closed formula: q = ⌊units·10^36 / supply⌋, owed = ⌊⌊q·reserve / 10^36⌋⌋_step *)
Definition ratio_q (units supply : Z) : Z := units * PP / supply.
Definition owed_formula (dv units supply reserve : Z) : Z :=
  floor_to (step dv) (ratio_q units supply * reserve / PP).

Lemma amount_owed_ok dv u s r x :
  amount_owed dv u s r = POk x -> 0 <= u -> 0 < s -> 0 <= r ->
  0 <= dv <= 18 /\ x = owed_formula dv u s r.
Proof.
  unfold amount_owed. intros H Hu Hs Hr.
  destruct (pd_of_dec u) as [up| |] eqn:Eu; cbn [pbind] in H; try discriminate.
  destruct (pd_of_dec s) as [sp| |] eqn:Es; cbn [pbind] in H; try discriminate.
  destruct (pd_of_dec r) as [rp| |] eqn:Er; cbn [pbind] in H; try discriminate.
  apply pd_of_dec_ok in Eu, Es, Er. subst.
  pose proof DD_pos as HD. pose proof PP_pos as HP.
  destruct (pd_div (u * DD) (s * DD)) as [q|] eqn:Eq; cbn [obind orerr pbind] in H; try discriminate.
  apply pd_div_some in Eq; [|nia|nia].
  destruct (pd_mul q (r * DD)) as [o|] eqn:Eo; cbn [orerr pbind] in H; try discriminate.
  assert (Hq : q = ratio_q u s).
  { unfold ratio_q. subst q. rewrite <- (Z.mul_assoc u DD PP), (Z.mul_comm DD PP), (Z.mul_assoc u PP DD).
    apply Z.div_mul_cancel_r; lia. }
  assert (Hq0 : 0 <= q). { rewrite Hq. unfold ratio_q. apply Z.div_pos; nia. }
  apply pd_mul_some in Eo; [|lia|nia].
  destruct (pd_to_dec o) as [[v|]| |] eqn:Ev; cbn [pbind] in H; try discriminate.
  apply pd_to_dec_some in Ev; [|subst o; apply Z.div_pos; nia].
  destruct (dec_round dv RDown v) as [[y|]| |] eqn:Ey; cbn [pbind orerr] in H; try discriminate.
  inversion H; subst x.
  assert (Hv : v = ratio_q u s * r / PP).
  { subst v o. rewrite <- Hq. rewrite Z.mul_assoc. rewrite div_div_DD by nia.
    rewrite Z.div_div by lia. now rewrite <- PP_DD. }
  apply dec_round_down_ok in Ey; [|rewrite Hv; apply Z.div_pos; [rewrite <- Hq; nia|lia]].
  destruct Ey as [Hdv ->]. split; [exact Hdv|]. unfold owed_formula. now rewrite Hv.
Qed.

(* ---------------------------------------------------------------------------------------------- *)
(* pro-rata bound and solvency of a redemption *)

Lemma ratio_q_nonneg u s : 0 <= u -> 0 < s -> 0 <= ratio_q u s.
Proof. intros. unfold ratio_q. pose proof PP_pos. apply Z.div_pos; nia. Qed.
Lemma ratio_q_mul_le u s : 0 < s -> ratio_q u s * s <= u * PP.
Proof. intros. unfold ratio_q. pose proof (Z.mul_div_le (u * PP) s). lia. Qed.
Lemma ratio_q_full s : 0 < s -> ratio_q s s = PP.
Proof. intros. unfold ratio_q. rewrite Z.mul_comm. apply Z.div_mul. lia. Qed.

Lemma owed_pro_rata dv u s r :
  0 <= u -> 0 < s -> 0 <= r -> dv <= 18 ->
  owed_formula dv u s r <= floor_to (step dv) (u * r / s).
Proof.
  intros Hu Hs Hr Hdv. unfold owed_formula. apply floor_to_mono; [now apply step_pos|].
  pose proof PP_pos as HP. pose proof (ratio_q_nonneg u s Hu Hs) as Hq0.
  pose proof (ratio_q_mul_le u s Hs) as Hq. set (q := ratio_q u s) in *.
  apply Z.div_le_lower_bound; [lia|].
  pose proof (Z.mul_div_le (q * r) PP HP) as Ht. set (t := q * r / PP) in *.
  assert (0 <= t) by (apply Z.div_pos; nia).
  assert (s * t * PP <= u * r * PP) by nia.
  nia.
Qed.

Lemma owed_le_reserve dv u s r :
  0 <= u -> u <= s -> 0 < s -> 0 <= r -> dv <= 18 -> owed_formula dv u s r <= r.
Proof.
  intros Hu Hus Hs Hr Hdv. unfold owed_formula.
  pose proof (step_pos dv Hdv). pose proof PP_pos as HP.
  eapply Z.le_trans; [apply floor_to_le; lia|].
  pose proof (ratio_q_nonneg u s Hu Hs) as Hq0.
  pose proof (ratio_q_mul_le u s Hs) as Hq. set (q := ratio_q u s) in *.
  assert (q <= PP) by nia.
  apply Z.div_le_upper_bound; [lia|]. nia.
Qed.

Lemma owed_nonneg dv u s r : 0 <= u -> 0 < s -> 0 <= r -> dv <= 18 -> 0 <= owed_formula dv u s r.
Proof.
  intros. unfold owed_formula. apply floor_to_nonneg; [now apply step_pos|].
  pose proof PP_pos. pose proof (ratio_q_nonneg u s). apply Z.div_pos; nia.
Qed.

Lemma owed_multiple dv u s r : exists k, owed_formula dv u s r = step dv * k.
Proof. unfold owed_formula, floor_to. eauto. Qed.

(* ---------------------------------------------------------------------------------------------- *)
(* the core of "no round-trip gain" *)

(* A contribution to a pool with supply S > 0 and reserve R that used the ratio q (36 digits),
   minted m <= q*S/10^36 units and took a (a multiple of the step st with q*R/10^36 < a + st):
   redeeming m units from the pool (S+m, R+a) pays, before rounding to the step, less than a+st. *)
Lemma round_trip_core S m q R a st :
  0 < S -> 0 <= m -> 0 <= q -> 0 <= R -> 0 <= a -> 0 < st ->
  m * PP <= q * S ->
  q * R < (a + st) * PP ->
  ratio_q m (S + m) * (R + a) / PP < a + st.
Proof.
  intros HS Hm Hq HR Ha Hst Hmq HqR. pose proof PP_pos as HP.
  assert (HSm : 0 < S + m) by lia.
  pose proof (ratio_q_nonneg m (S + m) Hm HSm) as Hr0.
  pose proof (ratio_q_mul_le m (S + m) HSm) as Hr. set (r := ratio_q m (S + m)) in *.
  apply Z.div_lt_upper_bound; [lia|].
  assert (H1 : m * R * PP <= q * R * S) by nia.
  assert (H2 : q * R * S < (a + st) * S * PP) by nia.
  assert (H3 : m * R < (a + st) * S) by nia.
  assert (H4 : r * (R + a) * (S + m) <= PP * (m * R + m * a)) by nia.
  assert (H5 : PP * (m * R + m * a) < PP * ((a + st) * (S + m))) by nia.
  nia.
Qed.

Lemma round_trip_owed dv S m q R a k :
  0 <= dv <= 18 -> 0 < S -> 0 <= m -> 0 <= q -> 0 <= R -> 0 <= a -> a = step dv * k ->
  m * PP <= q * S -> q * R < (a + step dv) * PP ->
  owed_formula dv m (S + m) (R + a) <= a.
Proof.
  intros. unfold owed_formula. pose proof (step_pos dv ltac:(lia)).
  eapply floor_to_below; eauto. apply (round_trip_core S m q R a (step dv)); auto.
Qed.

(* new pool: the minted units are the whole supply, so they redeem for the whole reserve *)
Lemma round_trip_new dv m c k :
  0 <= dv <= 18 -> 0 < m -> c = step dv * k -> owed_formula dv m m c = c.
Proof.
  intros. unfold owed_formula. rewrite ratio_q_full by lia.
  rewrite Z.mul_comm, Z.div_mul by (pose proof PP_pos; lia).
  subst c. apply floor_to_multiple. apply step_pos; lia.
Qed.

(* ---------------------------------------------------------------------------------------------- *)
(* resource layer *)

Lemma vault_put_ok r a r' : vault_put r a = POk r' -> r' = r + a.
Proof. unfold vault_put. destruct (in192 _); congruence. Qed.
Lemma mint_units_ok s m s' : mint_units s m = POk s' -> s' = s + m /\ 0 <= m.
Proof.
  unfold mint_units. destruct (Z.ltb_spec m 0); [discriminate|]. destruct (_ <? _); [discriminate|].
  destruct (in192 _); [|discriminate]. intros HH; split; [congruence|lia].
Qed.
Lemma take_down_ok e dv bal a t rest :
  take_advanced e dv bal a WDown = POk (t, rest) -> 0 <= a ->
  0 <= dv <= 18 /\ t = floor_to (step dv) a /\ t <= bal /\ rest = bal - t.
Proof.
  unfold take_advanced. intros H Ha.
  destruct (dec_round dv RDown a) as [[x|]| |] eqn:E; cbn [pbind] in H; try discriminate.
  apply dec_round_down_ok in E; [|lia]. destruct E as [Hdv ->].
  destruct (amount_ok dv _); cbn [negb] in H; [|discriminate].
  destruct (Z.ltb_spec bal (floor_to (step dv) a)); [discriminate|].
  assert (t = floor_to (step dv) a /\ rest = bal - floor_to (step dv) a) as [-> ->] by (split; congruence).
  auto.
Qed.

(* ---------------------------------------------------------------------------------------------- *)
(* shape of a successful contribution *)

Definition valid_amount (dv c : Z) : Prop := 0 <= c /\ exists k, c = step dv * k.

(* what happened to one resource in a contribution that used the 36-digit ratio q *)
Definition took (q dv r c t r' : Z) : Prop :=
  0 <= dv <= 18 /\ 0 <= t <= c /\ (exists k, t = step dv * k) /\ q * r < (t + step dv) * PP /\ r' = r + t.

Lemma took_floor q dv r c r' x :
  0 <= dv <= 18 -> 0 <= x -> q * r < (x + 1) * PP -> floor_to (step dv) x <= c -> r' = r + floor_to (step dv) x ->
  took q dv r c (floor_to (step dv) x) r'.
Proof.
  intros Hdv Hx Hq Hc Hr. pose proof (step_pos dv ltac:(lia)) as Hs. pose proof PP_pos.
  unfold took. split; [lia|]. split; [split; [apply floor_to_nonneg; lia|exact Hc]|].
  split; [unfold floor_to; eauto|]. split; [|exact Hr].
  pose proof (floor_to_gt (step dv) x Hs). nia.
Qed.

(* q*r/PP as computed by pd_mul (r*DD) q then to Decimal *)
Lemma mul_ratio_to_dec r q : 0 <= r -> 0 <= q -> r * DD * q / PP / DD = q * r / PP.
Proof.
  intros. pose proof DD_pos. pose proof PP_pos.
  replace (r * DD * q) with (q * r * DD) by ring. rewrite div_div_DD by nia.
  rewrite Z.div_div by lia. now rewrite <- PP_DD.
Qed.
Lemma div_lt_succ_mul a b : 0 < b -> a < (a / b + 1) * b.
Proof. intros. pose proof (Z.div_mod a b ltac:(lia)). pose proof (Z.mod_pos_bound a b ltac:(lia)). nia. Qed.

(* --- one-resource pool --- *)
Lemma one_contribute_shape S R c p' m ts :
  one_contribute S R c = POk (p', m, ts) -> 0 <= S -> 0 <= R -> 0 <= c ->
  ts = [c] /\ reserves p' = [R + c] /\ supply p' = S + m /\ 0 < m /\
  (S = 0 \/ (0 < S /\ exists q, 0 <= q /\ m * PP <= q * S /\ q * R <= c * PP)).
Proof.
  unfold one_contribute. intros H HS HR Hc. pose proof DD_pos as HD. pose proof PP_pos as HP.
  destruct (Z.eqb_spec c 0); [discriminate|].
  destruct (pd_of_dec R) as [rp| |] eqn:Er; cbn [pbind] in H; try discriminate.
  destruct (pd_of_dec S) as [sp| |] eqn:Es; cbn [pbind] in H; try discriminate.
  destruct (pd_of_dec c) as [cp| |] eqn:Ec; cbn [pbind] in H; try discriminate.
  apply pd_of_dec_ok in Er, Es, Ec. subst.
  match type of H with pbind ?X _ = _ => destruct X as [mp| |] eqn:Em; cbn [pbind] in H; try discriminate end.
  destruct (to_dec_or_overflow mp) as [m'| |] eqn:Emd; cbn [pbind] in H; try discriminate.
  destruct (Z.eqb_spec m' 0); [discriminate|].
  destruct (vault_put R c) as [r'| |] eqn:Ep; cbn [pbind] in H; try discriminate.
  destruct (mint_units S m') as [s'| |] eqn:Emi; cbn [pbind] in H; try discriminate.
  apply vault_put_ok in Ep. apply mint_units_ok in Emi. destruct Emi as [-> Hm0].
  assert (p' = {| supply := S + m'; reserves := [r'] |} /\ m = m' /\ ts = [c]) as (-> & -> & ->)
    by (repeat split; congruence).
  subst r'. cbn [reserves supply]. repeat split; auto; [lia|].
  destruct (Z.ltb_spec 0 (S * DD)); [|left; nia].
  right. split; [nia|].
  destruct (Z.ltb_spec 0 (R * DD)); [|discriminate].
  destruct (pd_div (c * DD) (R * DD)) as [q|] eqn:Eq; cbn [obind orerr] in Em; [|discriminate].
  destruct (pd_mul q (S * DD)) as [x|] eqn:Ex; cbn [orerr] in Em; [|discriminate].
  assert (x = mp) by congruence. subst x.
  apply pd_div_some in Eq; [|nia|nia].
  assert (Hq0 : 0 <= q) by (subst q; apply Z.div_pos; nia).
  apply pd_mul_some in Ex; [|lia|nia].
  apply to_dec_or_overflow_ok in Emd; [|subst mp; apply Z.div_pos; nia].
  exists q. split; [auto|]. split.
  - subst m'. pose proof (Z.mul_div_le mp DD HD). pose proof (Z.mul_div_le (q * (S * DD)) PP HP).
    rewrite <- Ex in *. nia.
  - pose proof (Z.mul_div_le (c * DD * PP) (R * DD) ltac:(nia)). rewrite <- Eq in *. nia.
Qed.

(* --- lists --- *)
Lemma Forall2_len {A B} (P : A -> B -> Prop) l l' : Forall2 P l l' -> length l = length l'.
Proof. induction 1; cbn; auto. Qed.

Inductive all_took (q : Z) : list Z -> list Z -> list Z -> list Z -> list Z -> Prop :=
| at_nil : all_took q [] [] [] [] []
| at_cons dv r c t r' dvs rs cs ts rs' :
    took q dv r c t r' -> all_took q dvs rs cs ts rs' ->
    all_took q (dv :: dvs) (r :: rs) (c :: cs) (t :: ts) (r' :: rs').

Lemma pd_of_decs_ok l ps : pd_of_decs l = POk ps -> ps = map (fun a => a * DD) l.
Proof.
  revert ps. induction l as [|a l IH]; intros ps H; cbn [pd_of_decs] in H.
  - inversion H; reflexivity.
  - destruct (pd_of_dec a) as [x| |] eqn:Ea; cbn [pbind] in H; try discriminate.
    destruct (pd_of_decs l) as [xs| |] eqn:El; cbn [pbind] in H; try discriminate.
    apply pd_of_dec_ok in Ea. pose proof (IH xs eq_refl). cbn [map]. congruence.
Qed.

Lemma fold_min_nonneg l x : 0 <= x -> Forall (fun y => 0 <= y) l -> 0 <= fold_left Z.min l x.
Proof.
  revert x. induction l as [|a l IH]; intros x Hx Hl; cbn [fold_left]; [auto|].
  inversion Hl; subst. apply IH; [lia|auto].
Qed.
Lemma list_min_nonneg l k : list_min l = Some k -> Forall (fun y => 0 <= y) l -> 0 <= k.
Proof.
  destruct l as [|x l]; [discriminate|]. cbn [list_min]. intros H Hl. inversion Hl; subst.
  assert (k = fold_left Z.min l x) by congruence. subst. now apply fold_min_nonneg.
Qed.
Lemma ratios_nonneg rps cps :
  Forall (fun y => 0 <= y) rps -> Forall (fun y => 0 <= y) cps -> Forall (fun y => 0 <= y) (ratios rps cps).
Proof.
  revert cps. induction rps as [|rp rps IH]; intros cps Hr Hc; [constructor|].
  destruct cps as [|cp cps]; [constructor|]. cbn [ratios].
  inversion Hr; inversion Hc; subst.
  destruct (Z.eqb_spec rp 0); [now apply IH|].
  destruct (pd_div cp rp) as [k|] eqn:E; [|now apply IH].
  constructor; [|now apply IH]. apply pd_div_some in E; [|lia|lia]. subst k.
  pose proof PP_pos. apply Z.div_pos; nia.
Qed.

Lemma multi_take_shape dvs : forall rs cs k rs' ts,
  length dvs = length rs -> length rs = length cs ->
  Forall (fun y => 0 <= y) rs -> 0 <= k ->
  multi_take dvs rs cs k = POk (rs', ts) -> all_took k dvs rs cs ts rs'.
Proof.
  induction dvs as [|dv dvs IH]; intros rs cs k rs' ts L1 L2 Hrs Hk H.
  - destruct rs; [|discriminate]. destruct cs; [|discriminate]. cbn in H.
    assert (rs' = [] /\ ts = []) as [-> ->] by (split; congruence). constructor.
  - destruct rs as [|r rs]; [discriminate|]. destruct cs as [|c cs]; [discriminate|].
    cbn [multi_take] in H. inversion Hrs as [|? ? Hr Hrs']; subst.
    pose proof DD_pos as HD. pose proof PP_pos as HP.
    destruct (pd_of_dec r) as [rp| |] eqn:Er; cbn [pbind] in H; try discriminate.
    apply pd_of_dec_ok in Er. subst rp.
    destruct (pd_mul (r * DD) k) as [ap|] eqn:Ea; cbn [orerr pbind] in H; try discriminate.
    apply pd_mul_some in Ea; [|nia|lia].
    destruct (to_dec_or_overflow ap) as [a| |] eqn:Ead; cbn [pbind] in H; try discriminate.
    apply to_dec_or_overflow_ok in Ead; [|subst ap; apply Z.div_pos; nia].
    assert (Ha : a = k * r / PP) by (subst a ap; now apply mul_ratio_to_dec).
    assert (Ha0 : 0 <= a) by (rewrite Ha; apply Z.div_pos; nia).
    destruct (take_advanced EBucket dv c a WDown) as [[t rest]| |] eqn:Et; cbn [pbind] in H; try discriminate.
    apply take_down_ok in Et; [|lia]. destruct Et as (Hdv & Ht & Htc & _).
    destruct ((t =? 0) && negb (r * DD =? 0)); [discriminate|].
    destruct (vault_put r t) as [r1| |] eqn:Ep; cbn [pbind] in H; try discriminate.
    apply vault_put_ok in Ep.
    destruct (multi_take dvs rs cs k) as [[rs1 ts1]| |] eqn:Em; cbn [pbind] in H; try discriminate.
    assert (rs' = r1 :: rs1 /\ ts = t :: ts1) as [-> ->] by (split; congruence).
    constructor; [|apply IH; auto; cbn in *; lia].
    subst t. apply took_floor; auto; try lia.
    all: try (rewrite Ha; apply div_lt_succ_mul; lia).
Qed.

Lemma put_all_ok rs : forall cs rs', length rs = length cs -> put_all rs cs = POk rs' ->
  rs' = map (fun rc => fst rc + snd rc) (combine rs cs).
Proof.
  induction rs as [|r rs IH]; intros cs rs' L H; destruct cs as [|c cs]; try discriminate.
  - cbn in H. cbn. congruence.
  - cbn [put_all] in H.
    destruct (vault_put r c) as [r1| |] eqn:Ep; cbn [pbind] in H; try discriminate.
    destruct (put_all rs cs) as [rest| |] eqn:Er; cbn [pbind] in H; try discriminate.
    apply vault_put_ok in Ep. cbn [combine map fst snd]. rewrite <- (IH cs rest); [congruence|cbn in L; lia|auto].
Qed.

(* --- multi-resource pool --- *)
Lemma multi_contribute_shape dvs S rs cs p' m ts :
  multi_contribute dvs S rs cs = POk (p', m, ts) ->
  length dvs = length rs -> length rs = length cs ->
  0 <= S -> Forall (fun y => 0 <= y) rs -> Forall (fun y => 0 <= y) cs ->
  supply p' = S + m /\ 0 < m /\
  ((S = 0 /\ ts = cs /\ reserves p' = map (fun rc => fst rc + snd rc) (combine rs cs)) \/
   (0 < S /\ exists q, 0 <= q /\ m * PP <= q * S /\ all_took q dvs rs cs ts (reserves p'))).
Proof.
  unfold multi_contribute. intros H L1 L2 HS Hrs Hcs. pose proof DD_pos as HD. pose proof PP_pos as HP.
  destruct (pd_of_dec S) as [sp| |] eqn:Es; cbn [pbind] in H; try discriminate.
  destruct (pd_of_decs rs) as [rps| |] eqn:Er; cbn [pbind] in H; try discriminate.
  destruct (pd_of_decs cs) as [cps| |] eqn:Ec; cbn [pbind] in H; try discriminate.
  apply pd_of_dec_ok in Es. apply pd_of_decs_ok in Er, Ec. subst sp.
  match type of H with pbind ?X _ = _ => destruct X as [[[mp rs1] ts1]| |] eqn:Em; cbn [pbind] in H; try discriminate end.
  destruct (to_dec_or_overflow mp) as [m'| |] eqn:Emd; cbn [pbind] in H; try discriminate.
  destruct (Z.eqb_spec m' 0); [discriminate|].
  destruct (mint_units S m') as [s'| |] eqn:Emi; cbn [pbind] in H; try discriminate.
  apply mint_units_ok in Emi. destruct Emi as [-> Hm0].
  assert (p' = {| supply := S + m'; reserves := rs1 |} /\ m = m' /\ ts = ts1) as (-> & -> & ->)
    by (repeat split; congruence).
  cbn [supply reserves]. split; [reflexivity|]. split; [lia|].
  destruct (Z.eqb_spec (S * DD) 0) as [E0|E0].
  - left. split; [nia|].
    match type of Em with pbind ?X _ = _ => destruct X as [[g|]| |] eqn:Eg; cbn [pbind] in Em; try discriminate end.
    match type of Em with pbind ?X _ = _ => destruct X as [x| |] eqn:Ex; cbn [pbind] in Em; try discriminate end.
    match type of Em with pbind ?X _ = _ => destruct X as [mp1| |] eqn:Emp; cbn [pbind] in Em; try discriminate end.
    destruct (put_all rs cs) as [rs2| |] eqn:Ep; cbn [pbind] in Em; try discriminate.
    apply put_all_ok in Ep; [|auto].
    assert (rs1 = rs2 /\ ts1 = cs) as [-> ->] by (split; congruence). auto.
  - right. split; [nia|].
    match type of Em with pbind ?X _ = _ => destruct X as [k| |] eqn:Ek; cbn [pbind] in Em; try discriminate end.
    destruct (multi_take dvs rs cs k) as [[rs2 ts2]| |] eqn:Et; cbn [pbind] in Em; try discriminate.
    destruct (pd_mul (S * DD) k) as [mp2|] eqn:Emp; cbn [orerr pbind] in Em; try discriminate.
    assert (mp = mp2 /\ rs1 = rs2 /\ ts1 = ts2) as (-> & -> & ->) by (repeat split; congruence).
    assert (Hk : 0 <= k).
    { destruct (list_min (ratios rps cps)) as [k'|] eqn:El; cbn [orerr] in Ek; [|discriminate].
      assert (k' = k) by congruence. subst k'.
      eapply list_min_nonneg; eauto. subst rps cps. apply ratios_nonneg.
      - apply Forall_map. eapply Forall_impl; [|exact Hrs]. cbn. intros; nia.
      - apply Forall_map. eapply Forall_impl; [|exact Hcs]. cbn. intros; nia. }
    exists k. split; [auto|]. split.
    + apply pd_mul_some in Emp; [|nia|lia].
      apply to_dec_or_overflow_ok in Emd; [|subst mp2; apply Z.div_pos; nia].
      pose proof (Z.mul_div_le mp2 DD HD). pose proof (Z.mul_div_le (S * DD * k) PP HP).
      rewrite <- Emp in *. rewrite <- Emd in *. nia.
    + eapply multi_take_shape; eauto.
Qed.

(* --- two-resource pool --- *)
Lemma two_candidate_some sp r1p c c1p c2p a1 a2 mm :
  two_candidate sp r1p c c1p c2p = Some (a1, a2, mm) ->
  c = Some (a1, a2) /\ exists q, pd_div a1 r1p = Some q /\ pd_mul q sp = Some mm.
Proof.
  unfold two_candidate. destruct c as [[x1 x2]|]; [|discriminate].
  destruct ((x1 <=? c1p) && (x2 <=? c2p)); [|discriminate].
  destruct (pd_div x1 r1p) as [q|] eqn:Eq; cbn [obind]; [|discriminate].
  destruct (pd_mul q sp) as [y|] eqn:Ey; [|discriminate].
  intros H. assert (x1 = a1 /\ x2 = a2 /\ y = mm) as (-> & -> & ->) by (repeat split; congruence).
  split; [reflexivity|]. exists q. rewrite Eq. auto.
Qed.
Lemma two_pick_cases a b r : two_pick a b = Some r -> a = Some r \/ b = Some r.
Proof.
  unfold two_pick. destruct a as [[[x1 x2] mx]|], b as [[[y1 y2] my]|]; auto.
  destruct (my <? mx); auto.
Qed.

(* the arithmetic content of the branches with pool units in circulation *)
Definition two_used (S r1 r2 a1p a2p mp : Z) : Prop :=
  0 <= a1p /\ 0 <= a2p /\
  exists q, 0 <= q /\ mp = q * (S * DD) / PP /\
            q * r1 < (a1p / DD + 1) * PP /\ q * r2 < (a2p / DD + 1) * PP.

Lemma cand_A S r1 r2 c1 q x mm :
  0 < S -> 0 < r1 -> 0 <= r2 -> 0 <= c1 ->
  pd_div (c1 * DD) (r1 * DD) = Some q -> pd_mul q (r2 * DD) = Some x -> pd_mul q (S * DD) = Some mm ->
  two_used S r1 r2 (c1 * DD) x mm.
Proof.
  intros HS H1 H2 Hc Eq Ex Em. pose proof DD_pos as HD. pose proof PP_pos as HP.
  apply pd_div_some in Eq; [|nia|nia].
  assert (Hq0 : 0 <= q) by (subst q; apply Z.div_pos; nia).
  apply pd_mul_some in Ex; [|lia|nia]. apply pd_mul_some in Em; [|lia|nia].
  split; [nia|]. split; [subst x; apply Z.div_pos; nia|].
  exists q. split; [auto|]. split; [auto|]. split.
  - rewrite Z.div_mul by lia.
    pose proof (Z.mul_div_le (c1 * DD * PP) (r1 * DD) ltac:(nia)). rewrite <- Eq in *. nia.
  - subst x. replace (q * (r2 * DD)) with (r2 * DD * q) by ring. rewrite mul_ratio_to_dec by lia.
    apply div_lt_succ_mul. lia.
Qed.

Lemma cand_B S r1 r2 c2 q2 y q mm :
  0 < S -> 0 < r1 -> 0 < r2 -> 0 <= c2 ->
  pd_div (c2 * DD) (r2 * DD) = Some q2 -> pd_mul q2 (r1 * DD) = Some y ->
  pd_div y (r1 * DD) = Some q -> pd_mul q (S * DD) = Some mm ->
  two_used S r1 r2 y (c2 * DD) mm.
Proof.
  intros HS H1 H2 Hc Eq2 Ey Eq Em. pose proof DD_pos as HD. pose proof PP_pos as HP.
  apply pd_div_some in Eq2; [|nia|nia].
  assert (Hq20 : 0 <= q2) by (subst q2; apply Z.div_pos; nia).
  apply pd_mul_some in Ey; [|lia|nia].
  assert (Hy0 : 0 <= y) by (subst y; apply Z.div_pos; nia).
  apply pd_div_some in Eq; [|lia|nia].
  assert (Hq0 : 0 <= q) by (subst q; apply Z.div_pos; nia).
  apply pd_mul_some in Em; [|lia|nia].
  split; [auto|]. split; [nia|].
  exists q. split; [auto|]. split; [auto|].
  pose proof (Z.mul_div_le (y * PP) (r1 * DD) ltac:(nia)) as Hqy. rewrite <- Eq in Hqy.
  pose proof (Z.mul_div_le (q2 * (r1 * DD)) PP HP) as Hyq. rewrite <- Ey in Hyq.
  pose proof (Z.mul_div_le (c2 * DD * PP) (r2 * DD) ltac:(nia)) as Hq2c. rewrite <- Eq2 in Hq2c.
  split.
  - pose proof (div_lt_succ_mul y DD HD). nia.
  - rewrite Z.div_mul by lia.
    assert (q <= q2).
    { rewrite Eq. apply Z.div_le_upper_bound; [nia|]. nia. }
    assert (q * r2 <= q2 * r2) by nia.
    assert (q2 * r2 * DD <= c2 * PP * DD) by nia.
    assert (q2 * r2 <= c2 * PP) by nia.
    nia.
Qed.

Lemma two_contribute_shape dv1 dv2 S r1 r2 c1 c2 p' m ts :
  two_contribute dv1 dv2 S r1 r2 c1 c2 = POk (p', m, ts) ->
  0 <= S -> 0 <= r1 -> 0 <= r2 -> 0 <= c1 -> 0 <= c2 ->
  exists t1 t2 r1' r2',
    ts = [t1; t2] /\ reserves p' = [r1'; r2'] /\ supply p' = S + m /\ 0 < m /\
    ((S = 0 /\ 0 <= dv1 <= 18 /\ 0 <= dv2 <= 18 /\
      t1 = floor_to (step dv1) c1 /\ t2 = floor_to (step dv2) c2 /\ r1' = r1 + t1 /\ r2' = r2 + t2) \/
     (0 < S /\ exists q, 0 <= q /\ m * PP <= q * S /\
        took q dv1 r1 c1 t1 r1' /\ took q dv2 r2 c2 t2 r2')).
Proof.
  unfold two_contribute. intros H HS Hr1 Hr2 Hc1 Hc2. pose proof DD_pos as HD. pose proof PP_pos as HP.
  destruct (pd_of_dec S) as [sp| |] eqn:Es; cbn [pbind] in H; try discriminate.
  destruct (pd_of_dec r1) as [r1p| |] eqn:Er1; cbn [pbind] in H; try discriminate.
  destruct (pd_of_dec r2) as [r2p| |] eqn:Er2; cbn [pbind] in H; try discriminate.
  destruct (pd_of_dec c1) as [c1p| |] eqn:Ec1; cbn [pbind] in H; try discriminate.
  destruct (pd_of_dec c2) as [c2p| |] eqn:Ec2; cbn [pbind] in H; try discriminate.
  apply pd_of_dec_ok in Es, Er1, Er2, Ec1, Ec2. subst.
  match type of H with pbind ?X _ = _ => destruct X as [[[a1p a2p] mp]| |] eqn:Em; cbn [pbind] in H; try discriminate end.
  (* what the branch computed *)
  assert (Hbranch : 0 <= a1p /\ 0 <= a2p /\
            ((S = 0 /\ a1p = c1 * DD /\ a2p = c2 * DD) \/ (0 < S /\ two_used S r1 r2 a1p a2p mp))).
  { destruct (Z.ltb_spec 0 (S * DD)) as [HS1|HS1].
    - assert (HS' : 0 < S) by nia.
      assert (Hmp : forall q, 0 <= q -> 0 <= q * (S * DD) / PP) by (intros; apply Z.div_pos; nia).
      destruct (Z.ltb_spec 0 (r1 * DD)) as [Hr1p|Hr1p], (Z.ltb_spec 0 (r2 * DD)) as [Hr2p|Hr2p].
      + (* normal operation *)
        match type of Em with orerr _ ?X = _ => destruct X as [[[x1 x2] xm]|] eqn:Ep; cbn [orerr] in Em; [|discriminate] end.
        assert (x1 = a1p /\ x2 = a2p /\ xm = mp) as (-> & -> & ->) by (repeat split; congruence).
        assert (Hu : two_used S r1 r2 a1p a2p mp).
        { apply two_pick_cases in Ep. destruct Ep as [Ep|Ep]; apply two_candidate_some in Ep;
            destruct Ep as [Ec (q & Eq & Eqm)].
          - destruct (pd_div (c1 * DD) (r1 * DD)) as [q1|] eqn:Eq1; cbn [obind option_map] in Ec; [|discriminate].
            destruct (pd_mul q1 (r2 * DD)) as [x|] eqn:Ex; cbn [option_map] in Ec; [|discriminate].
            assert (a1p = c1 * DD /\ a2p = x) as [-> ->] by (split; congruence).
            assert (q = q1) by congruence. subst q1.
            eapply cand_A; eauto; nia.
          - destruct (pd_div (c2 * DD) (r2 * DD)) as [q2|] eqn:Eq2; cbn [obind option_map] in Ec; [|discriminate].
            destruct (pd_mul q2 (r1 * DD)) as [y|] eqn:Ey; cbn [option_map] in Ec; [|discriminate].
            assert (a1p = y /\ a2p = c2 * DD) as [-> ->] by (split; congruence).
            eapply cand_B; eauto; nia. }
        pose proof Hu as (? & ? & _).
        split; [auto|]. split; [auto|]. right. split; auto.
      + (* only resource 1 has reserves *)
        destruct (pd_div (c1 * DD) (r1 * DD)) as [q|] eqn:Eq; cbn [obind orerr pbind] in Em; [|discriminate].
        destruct (pd_mul q (S * DD)) as [x|] eqn:Ex; cbn [orerr pbind] in Em; [|discriminate].
        assert (a1p = c1 * DD /\ a2p = 0 /\ x = mp) as (-> & -> & ->) by (repeat split; congruence).
        assert (r2 = 0) by nia. subst r2.
        apply pd_div_some in Eq; [|nia|nia].
        assert (Hq0 : 0 <= q) by (subst q; apply Z.div_pos; nia).
        apply pd_mul_some in Ex; [|lia|nia].
        split; [nia|]. split; [lia|]. right. split; [auto|].
        split; [nia|]. split; [lia|]. exists q. split; [auto|]. split; [auto|]. split.
        * rewrite Z.div_mul by lia.
          pose proof (Z.mul_div_le (c1 * DD * PP) (r1 * DD) ltac:(nia)). rewrite <- Eq in *. nia.
        * rewrite Z.div_0_l by lia. nia.
      + (* only resource 2 has reserves *)
        destruct (pd_div (c2 * DD) (r2 * DD)) as [q|] eqn:Eq; cbn [obind orerr pbind] in Em; [|discriminate].
        destruct (pd_mul q (S * DD)) as [x|] eqn:Ex; cbn [orerr pbind] in Em; [|discriminate].
        assert (a1p = 0 /\ a2p = c2 * DD /\ x = mp) as (-> & -> & ->) by (repeat split; congruence).
        assert (r1 = 0) by nia. subst r1.
        apply pd_div_some in Eq; [|nia|nia].
        assert (Hq0 : 0 <= q) by (subst q; apply Z.div_pos; nia).
        apply pd_mul_some in Ex; [|lia|nia].
        split; [lia|]. split; [nia|]. right. split; [auto|].
        split; [lia|]. split; [nia|]. exists q. split; [auto|]. split; [auto|]. split.
        * rewrite Z.div_0_l by lia. nia.
        * rewrite Z.div_mul by lia.
          pose proof (Z.mul_div_le (c2 * DD * PP) (r2 * DD) ltac:(nia)). rewrite <- Eq in *. nia.
      + discriminate.
    - (* no pool units: new pool *)
      assert (S = 0) by nia. subst S.
      assert (a1p = c1 * DD /\ a2p = c2 * DD) as [-> ->].
      { destruct (0 <? r1 * DD), (0 <? r2 * DD);
        (match type of Em with pbind ?X _ = _ => destruct X as [mp0| |]; cbn [pbind] in Em; try discriminate end;
         split; congruence). }
      split; [nia|]. split; [nia|]. left; auto. }
  destruct Hbranch as (Ha1 & Ha2 & Hcase).
  destruct (to_dec_or_overflow a1p) as [a1| |] eqn:Ea1; cbn [pbind] in H; try discriminate.
  destruct (to_dec_or_overflow a2p) as [a2| |] eqn:Ea2; cbn [pbind] in H; try discriminate.
  destruct (to_dec_or_overflow mp) as [m'| |] eqn:Emd; cbn [pbind] in H; try discriminate.
  apply to_dec_or_overflow_ok in Ea1; [|auto]. apply to_dec_or_overflow_ok in Ea2; [|auto].
  assert (Ha10 : 0 <= a1) by (subst a1; apply Z.div_pos; lia).
  assert (Ha20 : 0 <= a2) by (subst a2; apply Z.div_pos; lia).
  destruct (take_advanced EBucket dv1 c1 a1 WDown) as [[t1 rest1]| |] eqn:Et1; cbn [pbind] in H; try discriminate.
  destruct (take_advanced EBucket dv2 c2 a2 WDown) as [[t2 rest2]| |] eqn:Et2; cbn [pbind] in H; try discriminate.
  apply take_down_ok in Et1; [|auto]. apply take_down_ok in Et2; [|auto].
  destruct Et1 as (Hdv1 & Ht1 & Htc1 & _). destruct Et2 as (Hdv2 & Ht2 & Htc2 & _).
  match type of H with (if ?X then _ else _) = _ => destruct X; [discriminate|] end.
  destruct (Z.eqb_spec m' 0); [discriminate|].
  destruct (mint_units S m') as [s'| |] eqn:Emi; cbn [pbind] in H; try discriminate.
  destruct (vault_put r1 t1) as [r1'| |] eqn:Ep1; cbn [pbind] in H; try discriminate.
  destruct (vault_put r2 t2) as [r2'| |] eqn:Ep2; cbn [pbind] in H; try discriminate.
  match type of H with (if ?X then _ else _) = _ => destruct X; [discriminate|] end.
  apply mint_units_ok in Emi. destruct Emi as [-> Hm0]. apply vault_put_ok in Ep1, Ep2.
  assert (p' = {| supply := S + m'; reserves := [r1'; r2'] |} /\ m = m' /\ ts = [t1; t2]) as (-> & -> & ->)
    by (repeat split; congruence).
  exists t1, t2, r1', r2'. cbn [supply reserves].
  split; [reflexivity|]. split; [reflexivity|]. split; [reflexivity|]. split; [lia|].
  destruct Hcase as [(-> & -> & ->)|(HS' & _ & _ & q & Hq0 & Hmp & Hq1 & Hq2)].
  - left. rewrite !Z.div_mul in * by lia. subst a1 a2. auto 10.
  - right. split; [auto|]. exists q. split; [auto|]. split.
    + apply to_dec_or_overflow_ok in Emd; [|rewrite Hmp; apply Z.div_pos; nia].
      pose proof (Z.mul_div_le mp DD HD). pose proof (Z.mul_div_le (q * (S * DD)) PP HP).
      rewrite <- Hmp in *. rewrite <- Emd in *. nia.
    + split.
      * rewrite Ht1. apply took_floor; auto; try lia; try (now rewrite <- Ea1); try (now rewrite <- Ht1).
      * rewrite Ht2. apply took_floor; auto; try lia; try (now rewrite <- Ea2); try (now rewrite <- Ht2).
Qed.

(* ---------------------------------------------------------------------------------------------- *)
(* well-formed pools and the unified shape of a contribution *)

Definition wf_divs (dvs : list Z) : Prop := Forall (fun dv => 0 <= dv <= 18) dvs.
Definition wf_pool (dvs : list Z) (p : pool) : Prop :=
  0 <= supply p /\ length (reserves p) = length dvs /\ Forall (fun r => 0 <= r) (reserves p).
Definition kind_ok (k : kind) (dvs : list Z) : Prop :=
  match k with KOne => length dvs = 1%nat | KTwo => length dvs = 2%nat | KMulti => True end.
(* reserves without pool units belong to nobody (only protected_deposit can create this state) *)
Definition unowned_reserves (p : pool) : Prop := supply p = 0 /\ exists r, In r (reserves p) /\ r <> 0.

Inductive all_new : list Z -> list Z -> list Z -> list Z -> list Z -> Prop :=
| an_nil : all_new [] [] [] [] []
| an_cons dv r c t r' dvs rs cs ts rs' :
    0 <= dv <= 18 -> 0 <= t <= c -> (exists k, t = step dv * k) -> r' = r + t ->
    all_new dvs rs cs ts rs' -> all_new (dv :: dvs) (r :: rs) (c :: cs) (t :: ts) (r' :: rs').

Lemma all_new_sum dvs : forall rs cs,
  length dvs = length rs -> Forall2 valid_amount dvs cs -> wf_divs dvs ->
  all_new dvs rs cs cs (map (fun rc => fst rc + snd rc) (combine rs cs)).
Proof.
  induction dvs as [|dv dvs IH]; intros rs cs L Hv Hd; inversion Hv; subst; destruct rs; try discriminate.
  - constructor.
  - inversion Hd; subst. cbn [combine map fst snd]. destruct H1 as [Hc0 Hk].
    constructor; auto; try lia.
Qed.

Lemma contribute_shape k dvs p cs p' m ts :
  contribute k dvs p cs = POk (p', m, ts) ->
  kind_ok k dvs -> wf_divs dvs -> wf_pool dvs p -> Forall2 valid_amount dvs cs ->
  supply p' = supply p + m /\ 0 < m /\
  ((supply p = 0 /\ all_new dvs (reserves p) cs ts (reserves p')) \/
   (0 < supply p /\ exists q, 0 <= q /\ m * PP <= q * supply p /\ all_took q dvs (reserves p) cs ts (reserves p'))).
Proof.
  intros H Hk Hd (HS & HL & HR) Hv. destruct p as [S rs]. cbn [supply reserves] in *.
  destruct k; cbn [contribute supply reserves kind_ok] in *.
  - (* one *)
    destruct dvs as [|dv [|? ?]]; try discriminate. destruct rs as [|R [|? ?]]; try discriminate.
    inversion Hv as [|? c ? cs' Hc Hv']; subst. inversion Hv'; subst. unfold nthz in H. change (Z.to_nat 0) with 0%nat in H. cbn [nth] in H.
    inversion HR; subst. inversion Hd; subst. destruct Hc as [Hc0 Hck].
    apply one_contribute_shape in H; auto. destruct H as (-> & Hr' & Hs' & Hm & Hcase).
    rewrite Hr'. split; [auto|]. split; [auto|]. destruct Hcase as [->|(HS' & q & Hq0 & Hmq & HqR)].
    + left. split; [auto|]. repeat constructor; auto; lia.
    + right. split; [auto|]. exists q. split; [auto|]. split; [auto|].
      repeat constructor; auto; try lia. pose proof (step_pos dv ltac:(lia)). pose proof PP_pos. nia.
  - (* two *)
    destruct dvs as [|dv1 [|dv2 [|? ?]]]; try discriminate. destruct rs as [|r1 [|r2 [|? ?]]]; try discriminate.
    inversion Hv as [|? c1 ? cs' Hc1 Hv']; subst. inversion Hv' as [|? c2 ? cs'' Hc2 Hv'']; subst. inversion Hv''; subst.
    unfold nthz in H. change (Z.to_nat 0) with 0%nat in H. change (Z.to_nat 1) with 1%nat in H. cbn [nth] in H.
    inversion HR as [|? ? Hr1 HR']; subst. inversion HR' as [|? ? Hr2 ?]; subst.
    destruct Hc1 as [Hc10 [k1 Hk1]], Hc2 as [Hc20 [k2 Hk2]].
    apply two_contribute_shape in H; auto.
    destruct H as (t1 & t2 & r1' & r2' & -> & Hr' & Hs' & Hm & Hcase).
    rewrite Hr'. split; [auto|]. split; [auto|].
    destruct Hcase as [(-> & Hd1 & Hd2 & Ht1 & Ht2 & -> & ->)|(HS' & q & Hq0 & Hmq & Hk1' & Hk2')].
    + left. split; [auto|].
      rewrite Hk1, floor_to_multiple in Ht1 by (apply step_pos; lia).
      rewrite Hk2, floor_to_multiple in Ht2 by (apply step_pos; lia). subst t1 t2.
      repeat constructor; eauto; lia.
    + right. split; [auto|]. exists q. split; [auto|]. split; [auto|].
      constructor; [exact Hk1'|]. constructor; [exact Hk2'|]. constructor.
  - (* multi *)
    assert (L2 : length rs = length cs) by (rewrite HL; eapply Forall2_len; eauto).
    assert (Hcs : Forall (fun y => 0 <= y) cs).
    { clear -Hv. induction Hv; constructor; auto. destruct H; auto. }
    apply multi_contribute_shape in H; auto.
    destruct H as (Hs' & Hm & Hcase). split; [auto|]. split; [auto|].
    destruct Hcase as [(-> & -> & Hr')|Hcase]; [|right; auto].
    left. split; [auto|]. rewrite Hr'. apply all_new_sum; auto.
Qed.

(* ---------------------------------------------------------------------------------------------- *)
(* amounts owed over the list of resources *)

Inductive owed_are (u s : Z) : list Z -> list Z -> list Z -> Prop :=
| oa_nil : owed_are u s [] [] []
| oa_cons dv r dvs rs owed :
    0 <= dv <= 18 -> owed_are u s dvs rs owed ->
    owed_are u s (dv :: dvs) (r :: rs) (owed_formula dv u s r :: owed).

Lemma amounts_owed_ok dvs : forall rs u s owed,
  amounts_owed dvs u s rs = POk owed -> length rs = length dvs ->
  0 <= u -> 0 < s -> Forall (fun r => 0 <= r) rs -> owed_are u s dvs rs owed.
Proof.
  induction dvs as [|dv dvs IH]; intros rs u s owed H L Hu Hs Hr; destruct rs as [|r rs]; try discriminate.
  - cbn in H. assert (owed = []) by congruence. subst. constructor.
  - cbn [amounts_owed] in H. inversion Hr; subst.
    destruct (amount_owed dv u s r) as [o| |] eqn:Eo; cbn [pbind] in H; try discriminate.
    destruct (amounts_owed dvs u s rs) as [os| |] eqn:Eos; cbn [pbind] in H; try discriminate.
    apply amount_owed_ok in Eo; auto. destruct Eo as [Hdv ->].
    assert (owed = owed_formula dv u s r :: os) by congruence. subst.
    constructor; auto. all: try (apply IH; auto).
Qed.

(* the pro-rata bound, solvency and shape of every amount owed *)
Definition owed_bound (u s : Z) (o : Z) (dr : Z * Z) : Prop :=
  let '(dv, r) := dr in
  0 <= o /\ o <= floor_to (step dv) (u * r / s) /\ (u <= s -> o <= r) /\ exists k, o = step dv * k.

Lemma owed_are_bound u s dvs rs owed :
  owed_are u s dvs rs owed -> 0 <= u -> 0 < s -> Forall (fun r => 0 <= r) rs ->
  Forall2 (owed_bound u s) owed (combine dvs rs).
Proof.
  induction 1; intros Hu Hs Hr; cbn [combine]; constructor.
  - inversion Hr; subst. cbn. repeat split.
    + apply owed_nonneg; auto; lia.
    + apply owed_pro_rata; auto; lia.
    + intros. apply owed_le_reserve; auto; lia.
    + apply owed_multiple.
  - inversion Hr; subst. auto.
Qed.

Lemma redeem_owed k dvs p u p' owed :
  redeem k dvs p u = POk (p', owed) -> amounts_owed dvs u (supply p) (reserves p) = POk owed.
Proof.
  unfold redeem. intros H.
  destruct (amounts_owed dvs u (supply p) (reserves p)) as [o| |]; cbn [pbind] in H; try discriminate.
  destruct (match k with KOne => _ | _ => _ end); [discriminate|].
  destruct (supply p <? u); [discriminate|].
  destruct (take_all dvs (reserves p) o) as [rs'| |]; cbn [pbind] in H; try discriminate.
  congruence.
Qed.

Lemma redeem_pro_rata k dvs p u p' owed :
  redeem k dvs p u = POk (p', owed) -> wf_pool dvs p -> 0 <= u -> 0 < supply p ->
  Forall2 (owed_bound u (supply p)) owed (combine dvs (reserves p)).
Proof.
  intros H (HS & HL & HR) Hu Hs. apply redeem_owed in H.
  apply amounts_owed_ok in H; auto. apply owed_are_bound; auto.
Qed.

Lemma get_redemption_pro_rata k dvs p u owed :
  get_redemption k dvs p u = POk owed -> wf_pool dvs p ->
  0 < u <= supply p /\ Forall2 (owed_bound u (supply p)) owed (combine dvs (reserves p)).
Proof.
  unfold get_redemption. intros H (HS & HL & HR).
  destruct (Z.ltb_spec u 0); [discriminate|]. destruct (Z.eqb_spec u 0); [discriminate|].
  destruct (Z.ltb_spec (supply p) u); [discriminate|]. cbn [orb] in H.
  split; [lia|]. apply amounts_owed_ok in H; auto; try lia. apply owed_are_bound; auto; lia.
Qed.

(* ---------------------------------------------------------------------------------------------- *)
(* no round-trip gain *)

Lemma round_trip_took q S m dvs rs cs ts rs' owed :
  all_took q dvs rs cs ts rs' -> 0 < S -> 0 <= m -> 0 <= q -> m * PP <= q * S ->
  Forall (fun r => 0 <= r) rs ->
  owed_are m (S + m) dvs rs' owed -> Forall2 Z.le owed ts.
Proof.
  intros Ht HS Hm Hq Hmq. revert owed. induction Ht; intros owed Hr Ho; inversion Ho; subst; constructor.
  - inversion Hr; subst. destruct H as (Hdv & Htc & [k Hk] & Hqr & ->).
    apply (round_trip_owed dv S m q r t k); auto; lia.
  - inversion Hr; subst. auto.
Qed.

Lemma round_trip_all_new m dvs rs cs ts rs' owed :
  all_new dvs rs cs ts rs' -> 0 < m -> Forall (fun r => r = 0) rs ->
  owed_are m m dvs rs' owed -> Forall2 Z.le owed ts.
Proof.
  intros Hn Hm. revert owed. induction Hn; intros owed Hr Ho; inversion Ho; subst; constructor.
  - inversion Hr; subst. destruct H1 as [k Hk]. cbn [Z.add]. rewrite (round_trip_new dv m t k); auto; lia.
  - inversion Hr; subst. auto.
Qed.

Lemma all_took_facts q dvs rs cs ts rs' :
  all_took q dvs rs cs ts rs' ->
  length rs' = length dvs /\ length ts = length dvs /\
  (Forall (fun r => 0 <= r) rs -> Forall (fun r => 0 <= r) rs') /\
  Forall2 (fun t c => 0 <= t <= c) ts cs.
Proof.
  induction 1; [repeat split; auto|]. destruct IHall_took as (L1 & L2 & Hn & Hc).
  destruct H as (_ & Htc & _ & _ & ->). cbn [length]. repeat split; auto; try lia.
  intros Hr. inversion Hr; subst. constructor; [lia|auto].
Qed.
Lemma all_new_facts dvs rs cs ts rs' :
  all_new dvs rs cs ts rs' ->
  length rs' = length dvs /\ length ts = length dvs /\
  (Forall (fun r => 0 <= r) rs -> Forall (fun r => 0 <= r) rs') /\
  Forall2 (fun t c => 0 <= t <= c) ts cs.
Proof.
  induction 1; [repeat split; auto|]. destruct IHall_new as (L1 & L2 & Hn & Hc).
  subst. cbn [length]. repeat split; auto; try lia.
  intros Hr. inversion Hr; subst. constructor; [lia|auto].
Qed.

Lemma contribute_wf k dvs p cs p' m ts :
  contribute k dvs p cs = POk (p', m, ts) ->
  kind_ok k dvs -> wf_divs dvs -> wf_pool dvs p -> Forall2 valid_amount dvs cs ->
  wf_pool dvs p' /\ 0 < supply p' /\ Forall2 (fun t c => 0 <= t <= c) ts cs.
Proof.
  intros H Hk Hd Hw Hv. pose proof Hw as (HS & HL & HR).
  destruct (contribute_shape _ _ _ _ _ _ _ H Hk Hd Hw Hv) as (Hs' & Hm & [(HS0 & Hn)|(HS1 & q & _ & _ & Ht)]).
  - apply all_new_facts in Hn. destruct Hn as (L1 & _ & Hn & Hc).
    split; [|split; [lia|auto]]. split; [lia|]. split; auto.
  - apply all_took_facts in Ht. destruct Ht as (L1 & _ & Hn & Hc).
    split; [|split; [lia|auto]]. split; [lia|]. split; auto.
Qed.

Theorem no_round_trip_gain k dvs p cs p' m ts owed :
  kind_ok k dvs -> wf_divs dvs -> wf_pool dvs p -> Forall2 valid_amount dvs cs ->
  ~ unowned_reserves p ->
  contribute k dvs p cs = POk (p', m, ts) ->
  amounts_owed dvs m (supply p') (reserves p') = POk owed ->
  Forall2 Z.le owed ts.
Proof.
  intros Hk Hd Hw Hv Hno Hc Ho. pose proof Hw as (HS & HL & HR).
  destruct (contribute_wf _ _ _ _ _ _ _ Hc Hk Hd Hw Hv) as ((_ & HL' & HR') & HS' & _).
  destruct (contribute_shape _ _ _ _ _ _ _ Hc Hk Hd Hw Hv) as (Hs' & Hm & [(HS0 & Hn)|(HS1 & q & Hq0 & Hmq & Ht)]).
  - rewrite Hs', HS0 in Ho. cbn [Z.add] in Ho.
    apply amounts_owed_ok in Ho; auto; try lia.
    eapply round_trip_all_new; eauto.
    apply Forall_forall. intros r Hin. destruct (Z.eq_dec r 0); auto.
    exfalso. apply Hno. split; eauto.
  - rewrite Hs' in Ho. apply amounts_owed_ok in Ho; auto; try lia.
    eapply (round_trip_took q (supply p) m); eauto; lia.
Qed.

(* ---------------------------------------------------------------------------------------------- *)
(* invariants over operation sequences *)

Definition op_ok (dvs : list Z) (o : op) : Prop :=
  match o with
  | OContribute cs => Forall2 valid_amount dvs cs   (* bucket amounts: >= 0, multiples of the step *)
  | ORedeem u => 0 <= u
  | ODeposit i a => valid_amount (nthz dvs i) a
  | _ => True
  end.

Definition multiples (dvs rs : list Z) : Prop := Forall2 (fun dv r => exists k, r = step dv * k) dvs rs.
(* the invariant: well-formed, every reserve a multiple of its step *)
Definition inv (dvs : list Z) (p : pool) : Prop := wf_pool dvs p /\ multiples dvs (reserves p).
(* the additional invariant of histories without protected deposits / withdrawals *)
Definition owned (p : pool) : Prop := supply p = 0 -> Forall (fun r => r = 0) (reserves p).

Lemma owned_not_unowned p : owned p -> ~ unowned_reserves p.
Proof.
  intros Ho (Hs & r & Hin & Hr). specialize (Ho Hs). rewrite Forall_forall in Ho. auto.
Qed.

Lemma setz_length l i v : length (setz l i v) = length l.
Proof. revert i; induction l; intros [|i]; cbn; auto. Qed.
Lemma nthz_Forall (P : Z -> Prop) l i : P 0 -> Forall P l -> P (nthz l i).
Proof.
  unfold nthz. intros H0 Hl. generalize (Z.to_nat i). induction Hl; intros [|n]; cbn; auto.
Qed.
Lemma setz_Forall (P : Z -> Prop) l i v : Forall P l -> P v -> Forall P (setz l i v).
Proof. intros Hl Hv. revert i. induction Hl; intros [|i]; cbn; auto. Qed.
Lemma setz_multiples dvs : forall rs i v,
  multiples dvs rs -> (exists k, v = step (nthz dvs i) * k) -> multiples dvs (setz rs (Z.to_nat i) v).
Proof.
  unfold nthz. intros rs i v Hm. generalize (Z.to_nat i). intros n. revert n.
  induction Hm as [|x y l l' Hxy Hm IH]; intros n Hv.
  - destruct n; constructor.
  - destruct n as [|n]; cbn [setz nth] in *.
    + constructor; auto.
    + constructor; [auto|apply IH; auto].
Qed.
Lemma nthz_multiple dvs rs i : multiples dvs rs -> exists k, nthz rs i = step (nthz dvs i) * k.
Proof.
  unfold nthz. intros Hm. generalize (Z.to_nat i). induction Hm as [|x y l l' Hxy Hm IH]; intros n.
  - exists 0. destruct n; cbn [nth]; ring.
  - destruct n as [|n]; cbn [nth]; [exact Hxy|apply IH].
Qed.

Lemma multiple_add dv r t : (exists k, r = step dv * k) -> (exists k, t = step dv * k) -> exists k, r + t = step dv * k.
Proof. intros [k1 ->] [k2 ->]. exists (k1 + k2). ring. Qed.
Lemma multiple_sub dv r t : (exists k, r = step dv * k) -> (exists k, t = step dv * k) -> exists k, r - t = step dv * k.
Proof. intros [k1 ->] [k2 ->]. exists (k1 - k2). ring. Qed.

Lemma all_took_multiples q dvs rs cs ts rs' :
  all_took q dvs rs cs ts rs' -> multiples dvs rs -> multiples dvs rs'.
Proof.
  induction 1 as [|dv r c t r' dvs rs cs ts rs' Ht Hall IH]; intros Hm; inversion Hm as [|? ? ? ? Hr Hm']; subst.
  - constructor.
  - constructor; [|apply IH; exact Hm'].
    destruct Ht as (_ & _ & Hk & _ & ->). apply multiple_add; auto.
Qed.
Lemma all_new_multiples dvs rs cs ts rs' :
  all_new dvs rs cs ts rs' -> multiples dvs rs -> multiples dvs rs'.
Proof.
  induction 1 as [|dv r c t r' dvs rs cs ts rs' Hdv Htc Hk Hr' Hall IH]; intros Hm; inversion Hm as [|? ? ? ? Hr Hm']; subst.
  - constructor.
  - constructor; [|apply IH; exact Hm']. apply multiple_add; auto.
Qed.

(* vault.take of every amount owed *)
Lemma take_all_ok dvs : forall rs owed rs',
  take_all dvs rs owed = POk rs' -> length rs = length dvs -> length owed = length dvs ->
  length rs' = length dvs /\ Forall2 (fun r' ro => r' = fst ro - snd ro /\ 0 <= snd ro <= fst ro) rs' (combine rs owed).
Proof.
  induction dvs as [|dv dvs IH]; intros rs owed rs' H L1 L2; destruct rs as [|r rs], owed as [|o owed]; try discriminate.
  - cbn in H. assert (rs' = []) by congruence. subst. split; [auto|constructor].
  - cbn [take_all] in H. unfold take_advanced in H at 1. cbn [pbind] in H.
    destruct (amount_ok dv o) eqn:Ea; cbn [negb] in H; [|discriminate].
    destruct (Z.ltb_spec r o); [discriminate|]. cbn [pbind] in H.
    destruct (take_all dvs rs owed) as [rest| |] eqn:Er; cbn [pbind] in H; try discriminate.
    assert (rs' = (r - o) :: rest) by congruence. subst.
    apply IH in Er; [|cbn in *; lia|cbn in *; lia]. destruct Er as [L Hf].
    split; [cbn; lia|]. cbn [combine]. constructor; auto. cbn.
    unfold amount_ok in Ea. destruct (Z.ltb_spec o 0); [discriminate|]. lia.
Qed.

Lemma owed_are_length u s dvs rs owed : owed_are u s dvs rs owed -> length owed = length dvs.
Proof. induction 1; cbn; auto. Qed.

Lemma redeem_inv k dvs p u p' owed :
  redeem k dvs p u = POk (p', owed) -> inv dvs p -> 0 <= u ->
  inv dvs p' /\ (owned p -> owned p') /\ supply p' = supply p - u.
Proof.
  intros H ((HS & HL & HR) & Hm) Hu. pose proof (redeem_owed _ _ _ _ _ _ H) as Ho.
  unfold redeem in H. rewrite Ho in H. cbn [pbind] in H.
  destruct (match k with KOne => _ | _ => _ end); [discriminate|].
  destruct (Z.ltb_spec (supply p) u); [discriminate|].
  destruct (take_all dvs (reserves p) owed) as [rs'| |] eqn:Et; cbn [pbind] in H; try discriminate.
  assert (p' = {| supply := supply p - u; reserves := rs' |}) by congruence. subst p'. cbn [supply reserves].
  (* the supply cannot be zero: 0/0 fails, and an empty list of resources is excluded by length *)
  assert (Hs0 : supply p = 0 -> dvs = [] \/ False).
  { intros Hz. destruct dvs as [|dv dvs]; [auto|right]. destruct (reserves p) as [|r rs]; [discriminate|].
    cbn [amounts_owed] in Ho. unfold amount_owed in Ho.
    destruct (pd_of_dec u) as [up| |]; cbn [pbind] in Ho; try discriminate.
    destruct (pd_of_dec (supply p)) as [sp| |] eqn:Es; cbn [pbind] in Ho; try discriminate.
    destruct (pd_of_dec r) as [rp| |]; cbn [pbind] in Ho; try discriminate.
    apply pd_of_dec_ok in Es. rewrite Hz in Es. cbn in Es. subst sp.
    destruct (pd_div up 0) as [q|] eqn:Eq; cbn [obind orerr pbind] in Ho; [|discriminate].
    apply pd_div_some_nz in Eq. lia. }
  destruct (Z.eq_dec (supply p) 0) as [Hz|Hnz].
  - destruct (Hs0 Hz) as [->|[]]. destruct (reserves p); [|discriminate]. cbn in Et.
    assert (rs' = []) by congruence. subst. repeat split; cbn; auto; try lia; try constructor.
  - assert (Hsp : 0 < supply p) by lia.
    apply amounts_owed_ok in Ho; auto.
    pose proof (owed_are_length _ _ _ _ _ Ho) as Lo.
    apply take_all_ok in Et; auto. destruct Et as [L' Hf].
    assert (Hres : Forall (fun r => 0 <= r) rs' /\ multiples dvs rs' /\
                   (u = supply p -> Forall (fun r => r = 0) rs')).
    { clear -Ho Hf Hm HR Hsp Hu. revert rs' Hf Hm HR.
      induction Ho as [|dv r dvs0 rs0 owed0 Hdv Ho IH]; intros rs' Hf Hm HR.
      - inversion Hf; subst. repeat split; constructor.
      - cbn [combine] in Hf. inversion Hf as [|x y l l' Hxy Hf']; subst.
        inversion Hm as [|? ? ? ? Hk1 Hm']; subst. inversion HR as [|? ? Hr0 HR']; subst.
        cbn [fst snd] in Hxy. destruct Hxy as [-> [Ho0 Hor]].
        destruct (IH _ Hf' Hm' HR') as (F1 & F2 & F3).
        split; [constructor; [cbv beta; lia|auto]|]. split.
        + constructor; auto. apply multiple_sub; auto. apply owed_multiple.
        + intros ->. constructor; auto.
          destruct Hk1 as [k1 Hk1]. unfold owed_formula. rewrite ratio_q_full by lia.
          rewrite (Z.mul_comm PP r), Z.div_mul by (pose proof PP_pos; lia).
          rewrite Hk1, floor_to_multiple by (apply step_pos; lia). lia. }
    destruct Hres as (F1 & F2 & F3).
    unfold inv, wf_pool, owned. cbn [supply reserves].
    split; [split; [split; [lia|split; auto]|auto]|]. split; [|reflexivity].
    intros _ Hz. apply F3. lia.
Qed.

Lemma contribute_inv k dvs p cs p' m ts :
  contribute k dvs p cs = POk (p', m, ts) ->
  kind_ok k dvs -> wf_divs dvs -> inv dvs p -> Forall2 valid_amount dvs cs ->
  inv dvs p' /\ owned p'.
Proof.
  intros H Hk Hd (Hw & Hm) Hv.
  destruct (contribute_wf _ _ _ _ _ _ _ H Hk Hd Hw Hv) as (Hw' & HS' & _).
  split; [split; [auto|]|intros Hz; lia].
  destruct (contribute_shape _ _ _ _ _ _ _ H Hk Hd Hw Hv) as (_ & _ & [(_ & Hn)|(_ & q & _ & _ & Ht)]).
  - eapply all_new_multiples; eauto.
  - eapply all_took_multiples; eauto.
Qed.

(* every operation preserves the invariant; reserves never go negative *)
Lemma step_op_inv k dvs p o :
  kind_ok k dvs -> wf_divs dvs -> inv dvs p -> op_ok dvs o -> inv dvs (fst (step_op k dvs p o)).
Proof.
  intros Hk Hd Hi Ho. pose proof Hi as ((HS & HL & HR) & Hm). destruct o; cbn [step_op].
  - destruct (contribute k dvs p cs) as [[[p' m] ts]| |] eqn:E; cbn [fst]; auto.
    eapply contribute_inv in E; eauto. tauto.
  - destruct (redeem k dvs p units) as [[p' owed]| |] eqn:E; cbn [fst]; auto.
    eapply redeem_inv in E; eauto. tauto.
  - destruct (vault_put (nthz (reserves p) i) a) as [r'| |] eqn:E; cbn [fst]; auto.
    apply vault_put_ok in E. destruct Ho as [Ha [ka Hka]].
    destruct (nthz_multiple dvs (reserves p) i Hm) as [kr Hkr].
    assert (0 <= nthz (reserves p) i) by (apply nthz_Forall; [lia|auto]).
    split; [split; [auto|split]|]; cbn [supply reserves].
    + now rewrite setz_length.
    + apply setz_Forall; auto. lia.
    + apply setz_multiples; auto. rewrite E. apply multiple_add; eauto.
  - destruct (take_advanced EVault (nthz dvs i) (nthz (reserves p) i) a w) as [[t r']| |] eqn:E; cbn [fst]; auto.
    (* the vault checks amount >= 0, multiple of the step, <= balance *)
    unfold take_advanced in E.
    match type of E with pbind ?X _ = _ => destruct X as [[a'|]| |] eqn:Ea; cbn [pbind] in E; try discriminate end.
    destruct (amount_ok (nthz dvs i) a') eqn:Eok; cbn [negb] in E; [|discriminate].
    destruct (Z.ltb_spec (nthz (reserves p) i) a'); [discriminate|].
    assert (t = a' /\ r' = nthz (reserves p) i - a') as [-> ->] by (split; congruence).
    unfold amount_ok in Eok. destruct (Z.ltb_spec a' 0); [discriminate|]. cbn [negb andb] in Eok.
    destruct (nthz_multiple dvs (reserves p) i Hm) as [kr Hkr].
    assert (Hdi : 0 <= nthz dvs i <= 18) by (apply nthz_Forall; [lia|auto]).
    pose proof (step_pos (nthz dvs i) ltac:(lia)) as Hst.
    assert (Hmul : exists k, a' = step (nthz dvs i) * k).
    { apply Z.eqb_eq in Eok. rewrite Z.rem_mod_nonneg in Eok by lia.
      apply Z.mod_divide in Eok; [|lia]. destruct Eok as [k' ->]. exists k'. ring. }
    split; [split; [auto|split]|]; cbn [supply reserves].
    + now rewrite setz_length.
    + apply setz_Forall; auto. lia.
    + apply setz_multiples; auto. apply multiple_sub; eauto.
  - destruct (get_redemption k dvs p units); cbn [fst]; auto.
Qed.

Lemma run_inv k dvs : forall ops p,
  kind_ok k dvs -> wf_divs dvs -> inv dvs p -> Forall (op_ok dvs) ops ->
  Forall (fun xp => inv dvs (snd xp)) (run k dvs p ops).
Proof.
  induction ops as [|o ops IH]; intros p Hk Hd Hi Ho; cbn [run]; [constructor|].
  inversion Ho; subst. pose proof (step_op_inv k dvs p o Hk Hd Hi H1) as Hi'.
  destruct (step_op k dvs p o) as [p' x]. cbn [fst] in Hi'. constructor; [exact Hi'|]. apply IH; auto.
Qed.

Lemma pool_new_inv dvs : inv dvs (pool_new (length dvs)) /\ owned (pool_new (length dvs)).
Proof.
  unfold inv, wf_pool, owned, pool_new, multiples. cbn [supply reserves]. repeat split.
  - lia.
  - apply repeat_length.
  - induction dvs; cbn; constructor; auto; lia.
  - induction dvs; cbn; constructor; auto. exists 0; lia.
  - intros _. induction dvs; cbn; constructor; auto.
Qed.

(* histories of contributions, redemptions and queries only (no protected deposit/withdraw):
   a pool without units has no reserves *)
Definition user_op (o : op) : Prop :=
  match o with OContribute _ | ORedeem _ | OGetRedemption _ => True | _ => False end.

Lemma step_op_owned k dvs p o :
  kind_ok k dvs -> wf_divs dvs -> inv dvs p -> op_ok dvs o -> user_op o -> owned p ->
  owned (fst (step_op k dvs p o)).
Proof.
  intros Hk Hd Hi Ho Hu Hown. destruct o; cbn [user_op] in Hu; try contradiction; cbn [step_op].
  - destruct (contribute k dvs p cs) as [[[p' m] ts]| |] eqn:E; cbn [fst]; auto.
    eapply contribute_inv in E; eauto. tauto.
  - destruct (redeem k dvs p units) as [[p' owed]| |] eqn:E; cbn [fst]; auto.
    eapply redeem_inv in E; eauto. tauto.
  - destruct (get_redemption k dvs p units); cbn [fst]; auto.
Qed.

Lemma run_owned k dvs : forall ops p,
  kind_ok k dvs -> wf_divs dvs -> inv dvs p -> owned p ->
  Forall (op_ok dvs) ops -> Forall user_op ops ->
  Forall (fun xp => owned (snd xp)) (run k dvs p ops).
Proof.
  induction ops as [|o ops IH]; intros p Hk Hd Hi Hown Ho Hu; cbn [run]; [constructor|].
  inversion Ho; subst. inversion Hu; subst.
  pose proof (step_op_inv k dvs p o Hk Hd Hi H1) as Hi'.
  pose proof (step_op_owned k dvs p o Hk Hd Hi H1 H3 Hown) as Ho'.
  destruct (step_op k dvs p o) as [p' x]. cbn [fst] in *. constructor; [exact Ho'|]. apply IH; auto.
Qed.

(* ---------------------------------------------------------------------------------------------- *)
(* redeem written against the state: corollaries used in Props *)

Lemma no_round_trip_gain_redeem k dvs p cs p' m ts p'' owed :
  kind_ok k dvs -> wf_divs dvs -> wf_pool dvs p -> Forall2 valid_amount dvs cs ->
  ~ unowned_reserves p ->
  contribute k dvs p cs = POk (p', m, ts) ->
  redeem k dvs p' m = POk (p'', owed) ->
  Forall2 Z.le owed ts.
Proof. intros. eapply no_round_trip_gain; eauto. eapply redeem_owed; eauto. Qed.

(* ---------------------------------------------------------------------------------------------- *)
(* panics: the redemption path (calculate_amount_owed) cannot panic on Decimal-range inputs *)

Lemma DD_lt : DD < 2 ^ 60. Proof. vm_compute. reflexivity. Qed.

Lemma pd_of_dec_no_panic a : 0 <= a < 2 ^ 191 -> pd_of_dec a = POk (a * DD).
Proof.
  intros Ha. unfold pd_of_dec, in256, in_ity, I256, SI, imin, imax. cbn [isigned ibits].
  pose proof DD_lt. pose proof DD_pos.
  assert (a * DD < 2 ^ 191 * 2 ^ 60) by nia.
  change (2 ^ 191 * 2 ^ 60) with (2 ^ 251) in *.
  assert (2 ^ 251 <= 2 ^ (256 - 1) - 1) by (vm_compute; discriminate).
  assert (- 2 ^ (256 - 1) <= 0) by (vm_compute; discriminate).
  destruct (Z.leb_spec (- 2 ^ (256 - 1)) (a * DD)); [|nia].
  destruct (Z.leb_spec (a * DD) (2 ^ (256 - 1) - 1)); [reflexivity|lia].
Qed.

Lemma round_to_no_panic t sc dp m x : 0 <= dp <= sc -> round_to t sc dp m x <> PPanic.
Proof.
  intros H. unfold round_to.
  destruct (Z.leb_spec dp sc); [|lia]. destruct (Z.leb_spec 0 dp); [|lia]. cbn [negb].
  destruct (_ =? 0); discriminate.
Qed.

Lemma amount_owed_no_panic dv u s r :
  0 <= dv <= 18 -> 0 <= u < 2 ^ 191 -> 0 <= s < 2 ^ 191 -> 0 <= r < 2 ^ 191 ->
  amount_owed dv u s r <> PPanic.
Proof.
  intros Hdv Hu Hs Hr. unfold amount_owed.
  rewrite !pd_of_dec_no_panic by auto. cbn [pbind].
  destruct (obind _ _) as [o|]; cbn [orerr pbind]; [|discriminate].
  unfold pd_to_dec.
  destruct (round_to I256 36 18 RZero o) as [x| |] eqn:E; cbn [pbind];
    [| discriminate | exfalso; eapply round_to_no_panic; [|exact E]; lia].
  destruct (obind x _) as [v|]; [|discriminate].
  unfold dec_round.
  destruct (round_to I192 18 dv RDown v) as [y| |] eqn:E2; cbn [pbind];
    [| discriminate | exfalso; eapply round_to_no_panic; [|exact E2]; lia].
  destruct y; discriminate.
Qed.

Lemma amounts_owed_no_panic dvs : forall rs u s,
  wf_divs dvs -> 0 <= u < 2 ^ 191 -> 0 <= s < 2 ^ 191 -> Forall (fun r => 0 <= r < 2 ^ 191) rs ->
  amounts_owed dvs u s rs <> PPanic.
Proof.
  induction dvs as [|dv dvs IH]; intros rs u s Hd Hu Hs Hr; destruct rs as [|r rs]; cbn [amounts_owed]; try discriminate.
  inversion Hd; subst. inversion Hr; subst.
  pose proof (amount_owed_no_panic dv u s r ltac:(auto) Hu Hs ltac:(auto)).
  destruct (amount_owed dv u s r); cbn [pbind]; try congruence.
  pose proof (IH rs u s ltac:(auto) Hu Hs ltac:(auto)).
  destruct (amounts_owed dvs u s rs); cbn [pbind]; congruence.
Qed.

Lemma take_all_no_panic dvs : forall rs owed, take_all dvs rs owed <> PPanic.
Proof.
  induction dvs as [|dv dvs IH]; intros rs owed; destruct rs as [|r rs], owed as [|o owed]; cbn [take_all]; try discriminate.
  unfold take_advanced at 1. cbn [pbind].
  destruct (negb _); [discriminate|]. destruct (_ <? _); [discriminate|]. cbn [pbind].
  pose proof (IH rs owed). destruct (take_all dvs rs owed); cbn [pbind]; congruence.
Qed.

Lemma redeem_no_panic k dvs p u :
  wf_divs dvs -> 0 <= u < 2 ^ 191 -> 0 <= supply p < 2 ^ 191 ->
  Forall (fun r => 0 <= r < 2 ^ 191) (reserves p) ->
  redeem k dvs p u <> PPanic /\ get_redemption k dvs p u <> PPanic.
Proof.
  intros Hd Hu Hs Hr. pose proof (amounts_owed_no_panic dvs (reserves p) u (supply p) Hd Hu Hs Hr) as Ha.
  split.
  - unfold redeem. destruct (amounts_owed dvs u (supply p) (reserves p)) as [o| |]; cbn [pbind]; try congruence.
    destruct (match k with KOne => _ | _ => _ end); [discriminate|].
    destruct (_ <? _); [discriminate|].
    pose proof (take_all_no_panic dvs (reserves p) o).
    destruct (take_all dvs (reserves p) o); cbn [pbind]; congruence.
  - unfold get_redemption. destruct (_ || _); [discriminate|]. exact Ha.
Qed.
