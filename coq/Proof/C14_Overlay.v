(* C14 — proofs: the overlay refines "the base with the commits applied". *)
From Coq Require Import List Arith NArith Bool Lia.
Import ListNotations.
Require Import RV.Lib.Bytes RV.Lib.SortedMap RV.Model.C14_Store RV.Model.C14_Overlay RV.Proof.C14_Store.
Open Scope N_scope.

Local Notation BST := blt_strict_total.
Local Notation NST := Nltb_strict_total.
Local Notation PST := pk_ltb_strict_total.

(* ================================================================================================ *)
(* OverlayingIterator                                                                               *)
(* ================================================================================================ *)
Definition emit (ko : bytes) (c : option bytes) (rest : list (bytes * bytes)) : list (bytes * bytes) :=
  match c with Some v => (ko, v) :: rest | None => rest end.

Lemma ov_iter_nil_r : forall u, overlaying_iter u [] = u.
Proof. destruct u; reflexivity. Qed.
Lemma ov_iter_nil_l : forall ko c o, overlaying_iter [] ((ko, c) :: o) = emit ko c (overlaying_iter [] o).
Proof. reflexivity. Qed.
Lemma ov_iter_cons : forall ku vu u ko c o,
  overlaying_iter ((ku, vu) :: u) ((ko, c) :: o) =
    if blt ku ko then (ku, vu) :: overlaying_iter u ((ko, c) :: o)
    else if blt ko ku then emit ko c (overlaying_iter ((ku, vu) :: u) o)
    else emit ko c (overlaying_iter u o).
Proof. reflexivity. Qed.

Definition ov_spec (k : bytes) (u : list (bytes * bytes)) (o : list (bytes * option bytes)) : option bytes :=
  match lookup blt k o with
  | Some (Some v) => Some v
  | Some None => None
  | None => lookup blt k u
  end.

Lemma lt_all_emit : forall a ko c r, blt a ko = true -> lt_all blt a r -> lt_all blt a (emit ko c r).
Proof. intros a ko [v|] r H L; cbn [emit]; [constructor; [exact H|exact L]|exact L]. Qed.

Lemma ov_iter_lt_all : forall u o a, lt_all blt a u -> lt_all blt a o -> lt_all blt a (overlaying_iter u o).
Proof.
  induction u as [|[ku vu] u IHu]; intro o; induction o as [|[ko c] o IHo]; intros a Lu Lo.
  - constructor.
  - rewrite ov_iter_nil_l. inversion Lo; subst. apply lt_all_emit; [assumption|]. apply IHo; assumption.
  - rewrite ov_iter_nil_r. exact Lu.
  - rewrite ov_iter_cons. inversion Lu; subst. inversion Lo; subst. cbn [fst] in *.
    destruct (blt ku ko); [|destruct (blt ko ku)].
    + constructor; [assumption|]. apply IHu; assumption.
    + apply lt_all_emit; [assumption|]. apply IHo; assumption.
    + apply lt_all_emit; [assumption|]. apply IHu; assumption.
Qed.

Lemma sorted_emit : forall ko c r, lt_all blt ko r -> sorted blt r -> sorted blt (emit ko c r).
Proof. intros ko [v|] r L S; cbn [emit]; [split; assumption|exact S]. Qed.

Lemma ov_iter_sorted : forall u o, sorted blt u -> sorted blt o -> sorted blt (overlaying_iter u o).
Proof.
  induction u as [|[ku vu] u IHu]; intro o; induction o as [|[ko c] o IHo]; intros Su So.
  - exact I.
  - rewrite ov_iter_nil_l. destruct So as [Lo So]. apply sorted_emit; [|apply IHo; assumption].
    apply ov_iter_lt_all; [constructor|exact Lo].
  - rewrite ov_iter_nil_r. exact Su.
  - rewrite ov_iter_cons. destruct Su as [Lu Su']. destruct So as [Lo So'].
    destruct (blt ku ko) eqn:A; [|destruct (blt ko ku) eqn:B].
    + split; [|apply IHu; [exact Su'|split; assumption]].
      apply ov_iter_lt_all; [exact Lu|]. constructor; [exact A|]. eapply (lt_all_trans _ BST); eassumption.
    + apply sorted_emit; [|apply IHo; [split; assumption|exact So']].
      apply ov_iter_lt_all; [|exact Lo]. constructor; [exact B|]. eapply (lt_all_trans _ BST); eassumption.
    + assert (ku = ko) as -> by (apply blt_total; assumption).
      apply sorted_emit; [|apply IHu; assumption]. apply ov_iter_lt_all; assumption.
Qed.

Lemma lookup_emit : forall k ko c r,
  lookup blt k (emit ko c r) = if keqb blt k ko then (match c with Some v => Some v | None => lookup blt k r end) else lookup blt k r.
Proof.
  intros k ko [v|] r; cbn [emit lookup]; destruct (keqb blt k ko); reflexivity.
Qed.

Lemma ov_iter_lookup : forall u o k, sorted blt u -> sorted blt o ->
  lookup blt k (overlaying_iter u o) = ov_spec k u o.
Proof.
  induction u as [|[ku vu] u IHu]; intro o; induction o as [|[ko c] o IHo]; intros k Su So.
  - reflexivity.
  - rewrite ov_iter_nil_l, lookup_emit. destruct So as [Lo So]. rewrite (IHo k I So).
    unfold ov_spec. cbn [lookup]. destruct (keqb blt k ko) eqn:E; [|reflexivity].
    apply (keqb_eq _ BST) in E. subst k. rewrite lookup_lt_all by exact Lo. destruct c; reflexivity.
  - rewrite ov_iter_nil_r. reflexivity.
  - rewrite ov_iter_cons. destruct Su as [Lu Su']. destruct So as [Lo So'].
    destruct (blt ku ko) eqn:A; [|destruct (blt ko ku) eqn:B].
    + cbn [lookup]. rewrite (IHu ((ko, c) :: o) k Su' (conj Lo So')). unfold ov_spec. cbn [lookup].
      destruct (keqb blt k ku) eqn:E; [|reflexivity].
      apply (keqb_eq _ BST) in E. subst k. rewrite (keqb_lt blt _ _ A).
      rewrite lookup_lt_all; [reflexivity|]. eapply (lt_all_trans _ BST); eassumption.
    + rewrite lookup_emit. rewrite (IHo k (conj Lu Su') So'). unfold ov_spec. cbn [lookup].
      destruct (keqb blt k ko) eqn:E; [|reflexivity].
      apply (keqb_eq _ BST) in E. subst k. rewrite lookup_lt_all by exact Lo.
      rewrite (keqb_lt blt _ _ B). rewrite lookup_lt_all; [destruct c; reflexivity|].
      eapply (lt_all_trans _ BST); eassumption.
    + assert (ku = ko) as -> by (apply blt_total; assumption).
      rewrite lookup_emit. rewrite (IHu _ k Su' So'). unfold ov_spec. cbn [lookup].
      destruct (keqb blt k ko) eqn:E; [|reflexivity].
      apply (keqb_eq _ BST) in E. subst k. rewrite !lookup_lt_all by assumption. destruct c; reflexivity.
Qed.

(* ================================================================================================ *)
(* staging area: representation invariant                                                           *)
(* ================================================================================================ *)
Definition sp_wf (sp : staging_part) : Prop :=
  match sp with SDelta m => sorted blt m | SReset m => sorted blt m end.
Definition sn_wf (sn : staging_node) : Prop :=
  sorted N.ltb sn /\ Forall (fun e : N * staging_part => sp_wf (snd e)) sn.
Definition st_wf (s : staging) : Prop :=
  sorted blt s /\ Forall (fun e : bytes * staging_node => sn_wf (snd e)) s.
Definition osp_wf (o : option staging_part) : Prop := match o with Some sp => sp_wf sp | None => True end.

Lemma to_staging_part_wf : forall pu, sp_wf (to_staging_part pu).
Proof. intros [l|l]; cbn; apply (of_list_sorted _ BST). Qed.

Definition merge_opt (o : option staging_part) (pu : part_updates) : staging_part :=
  match o with Some sp => merge_part sp pu | None => to_staging_part pu end.

Lemma merge_opt_wf : forall o pu, osp_wf o -> sp_wf (merge_opt o pu).
Proof.
  intros [[m|m]|] [l|l] W; cbn in *; try apply (of_list_sorted _ BST).
  - apply (extend_sorted _ BST). exact W.
  - apply apply_delta_sorted. exact W.
Qed.

(* ================================================================================================ *)
(* the overlay's view of one partition                                                              *)
(* ================================================================================================ *)
Definition view_part (o : option staging_part) (b : pmap) : pmap :=
  match o with
  | None => b
  | Some (SDelta m) => apply_delta m b
  | Some (SReset m) => m
  end.

Lemma view_part_sorted : forall o b, osp_wf o -> sorted blt b -> sorted blt (view_part o b).
Proof. intros [[m|m]|] b W S; cbn in *; [apply apply_delta_sorted; exact S|exact W|exact S]. Qed.

Lemma resolve_default : forall (k : bytes) (l : list (bytes * db_update)) d old,
  resolve (assoc_last blt k l d) old = resolve (assoc_last blt k l None) (resolve d old).
Proof.
  intros k l d old. rewrite (assoc_last_default blt k l d). destruct (assoc_last blt k l None) as [[v|]|]; reflexivity.
Qed.

(* the heart of merge_database_updates: merging a partition update into the staged state of the
   partition has the effect of applying it to the overlay's view of the partition *)
Lemma view_merge_opt : forall o pu b, osp_wf o -> sorted blt b ->
  view_part (Some (merge_opt o pu)) b = apply_part pu (view_part o b).
Proof.
  intros [[m|m]|] [l|l] b W S; cbn [merge_opt merge_part to_staging_part view_part apply_part]; try reflexivity.
  - (* Delta on Delta: this.extend(other) *)
    cbn in W. apply (sorted_ext _ BST).
    + apply apply_delta_sorted. exact S.
    + apply apply_delta_sorted. apply apply_delta_sorted. exact S.
    + intro k. rewrite !lookup_apply_delta by (try apply apply_delta_sorted; exact S).
      rewrite (assoc_last_sorted _ BST k (extend blt m l)) by (apply (extend_sorted _ BST); exact W).
      rewrite (lookup_extend _ BST l m k) by exact W.
      rewrite (assoc_last_sorted _ BST k m) by exact W.
      rewrite (assoc_last_default blt k l (lookup blt k m)).
      destruct (assoc_last blt k l None) as [[v|]|]; reflexivity.
  - (* Delta on nothing staged: collect into a BTreeMap *)
    apply (sorted_ext _ BST).
    + apply apply_delta_sorted. exact S.
    + apply apply_delta_sorted. exact S.
    + intro k. rewrite !lookup_apply_delta by exact S.
      rewrite (assoc_last_sorted _ BST k (of_list blt l)) by apply (of_list_sorted _ BST).
      rewrite (lookup_of_list _ BST). reflexivity.
Qed.

(* ================================================================================================ *)
(* what merge does to the staged state of one partition                                             *)
(* ================================================================================================ *)
Definition sel_node (nu : node_updates) (pn : N) (o : option staging_part) : option staging_part :=
  fold_left (fun o e => if fst e =? pn then Some (merge_opt o (snd e)) else o) nu o.
Definition sel (u : db_updates) (pk : pkey) (o : option staging_part) : option staging_part :=
  fold_left (fun o e => if beqb (fst e) (fst pk) then sel_node (snd e) (snd pk) o else o) u o.

Lemma keqb_N : forall a b, keqb N.ltb a b = (b =? a).
Proof.
  intros a b. destruct (b =? a) eqn:E.
  - apply N.eqb_eq in E. subst. apply (keqb_refl _ NST).
  - apply (keqb_neq _ NST). intro C. subst. rewrite N.eqb_refl in E. discriminate.
Qed.
Lemma keqb_bytes : forall a b, keqb blt a b = beqb b a.
Proof.
  intros a b. destruct (beqb b a) eqn:E.
  - apply beqb_eq in E. subst. apply (keqb_refl _ BST).
  - apply (keqb_neq _ BST). intro C. subst. rewrite beqb_refl in E. discriminate.
Qed.

Lemma merge_node_step : forall sn pn pu,
  (match lookup N.ltb pn sn with
   | Some sp => insert N.ltb pn (merge_part sp pu) sn
   | None => insert N.ltb pn (to_staging_part pu) sn
   end) = insert N.ltb pn (merge_opt (lookup N.ltb pn sn) pu) sn.
Proof. intros. destruct (lookup N.ltb pn sn); reflexivity. Qed.

Lemma merge_node_wf : forall nu sn, sn_wf sn -> sn_wf (merge_node sn nu).
Proof.
  induction nu as [|[pn pu] nu IH]; intros sn W; [exact W|]. unfold merge_node in *. cbn [fold_left fst snd].
  rewrite merge_node_step. apply IH. destruct W as [S F]. split.
  - apply (insert_sorted _ NST). exact S.
  - apply Forall_insert; [|exact F]. cbn [snd]. apply merge_opt_wf.
    destruct (lookup N.ltb pn sn) as [sp|] eqn:E; [|exact I]. exact (Forall_lookup _ NST _ _ _ _ F E).
Qed.
Lemma lookup_merge_node : forall nu sn pn, sn_wf sn ->
  lookup N.ltb pn (merge_node sn nu) = sel_node nu pn (lookup N.ltb pn sn).
Proof.
  induction nu as [|[pn' pu] nu IH]; intros sn pn W; [reflexivity|].
  unfold merge_node, sel_node in *. cbn [fold_left fst snd]. rewrite merge_node_step.
  assert (sn_wf (insert N.ltb pn' (merge_opt (lookup N.ltb pn' sn) pu) sn)) as W'.
  { pose proof (merge_node_wf [(pn', pu)] sn W) as X. unfold merge_node in X. cbn [fold_left fst snd] in X.
    rewrite merge_node_step in X. exact X. }
  rewrite (IH _ pn W'). f_equal. destruct W as [S _].
  rewrite (lookup_insert _ NST) by exact S. rewrite keqb_N.
  destruct (pn' =? pn) eqn:E; [|reflexivity]. apply N.eqb_eq in E. subst. reflexivity.
Qed.

Lemma to_staging_node_wf : forall nu, sn_wf (to_staging_node nu).
Proof.
  intro nu. unfold to_staging_node. split; [apply (of_list_sorted _ NST)|].
  apply Forall_of_list. apply Forall_forall. intros e He. apply in_map_iff in He.
  destruct He as [e' [<- _]]. cbn [snd]. apply to_staging_part_wf.
Qed.
Lemma sel_node_notin : forall nu pn o, ~ In pn (map fst nu) -> sel_node nu pn o = o.
Proof.
  induction nu as [|[pn' pu] nu IH]; intros pn o H; [reflexivity|]. unfold sel_node in *. cbn [fold_left fst snd].
  cbn [map fst In] in H. destruct (pn' =? pn) eqn:E; [apply N.eqb_eq in E; tauto|]. apply IH. tauto.
Qed.
Lemma assoc_last_notin : forall (g : N * part_updates -> N * staging_part) nu pn d,
  (forall e, fst (g e) = fst e) -> ~ In pn (map fst nu) -> assoc_last N.ltb pn (map g nu) d = d.
Proof.
  intros g nu. induction nu as [|e nu IH]; intros pn d G H; [reflexivity|]. cbn [map assoc_last].
  destruct (g e) as [k v] eqn:Eg. cbn [map fst In] in H.
  assert (k = fst e) as -> by (rewrite <- G, Eg; reflexivity).
  rewrite keqb_N. destruct (fst e =? pn) eqn:E; [apply N.eqb_eq in E; tauto|]. apply IH; [exact G|tauto].
Qed.
(* a node that is new to the staging area: collecting its partitions into a BTreeMap is the same as
   merging them one by one into nothing — because an IndexMap has no duplicate keys *)
Lemma lookup_to_staging_node : forall nu pn, NoDup (map fst nu) ->
  lookup N.ltb pn (to_staging_node nu) = sel_node nu pn None.
Proof.
  intros nu pn ND. unfold to_staging_node. rewrite (lookup_of_list _ NST).
  induction nu as [|[pn' pu] nu IH]; [reflexivity|]. cbn [map fst] in ND. inversion ND as [|x l NI ND']; subst.
  cbn [map assoc_last fst snd]. unfold sel_node. cbn [fold_left fst snd]. rewrite keqb_N.
  destruct (pn' =? pn) eqn:E.
  - apply N.eqb_eq in E. subst pn'. fold (sel_node nu pn (Some (merge_opt None pu))).
    rewrite sel_node_notin by exact NI.
    rewrite (assoc_last_notin (fun e => (fst e, to_staging_part (snd e)))); [reflexivity|reflexivity|exact NI].
  - apply IH. exact ND'.
Qed.

Lemma merge_step : forall s nk nu,
  (match lookup blt nk s with
   | Some sn => insert blt nk (merge_node sn nu) s
   | None => insert blt nk (to_staging_node nu) s
   end) = insert blt nk (match lookup blt nk s with Some sn => merge_node sn nu | None => to_staging_node nu end) s.
Proof. intros. destruct (lookup blt nk s); reflexivity. Qed.

Lemma merge_wf : forall u s, st_wf s -> st_wf (merge s u).
Proof.
  induction u as [|[nk nu] u IH]; intros s W; [exact W|]. unfold merge in *. cbn [fold_left fst snd].
  rewrite merge_step. apply IH. destruct W as [S F]. split.
  - apply (insert_sorted _ BST). exact S.
  - apply Forall_insert; [|exact F]. cbn [snd]. destruct (lookup blt nk s) as [sn|] eqn:E.
    + apply merge_node_wf. exact (Forall_lookup _ BST _ _ _ _ F E).
    + apply to_staging_node_wf.
Qed.

Lemma ov_lookup_merge : forall u s pk, st_wf s -> updates_wf u ->
  ov_lookup_part (merge s u) pk = sel u pk (ov_lookup_part s pk).
Proof.
  induction u as [|[nk nu] u IH]; intros s pk W U; [reflexivity|].
  inversion U as [|x l ND U']; subst. cbn [snd] in ND.
  unfold merge, sel in *. cbn [fold_left fst snd]. rewrite merge_step.
  assert (st_wf (insert blt nk (match lookup blt nk s with Some sn => merge_node sn nu | None => to_staging_node nu end) s)) as W'.
  { pose proof (merge_wf [(nk, nu)] s W) as X. unfold merge in X. cbn [fold_left fst snd] in X. rewrite merge_step in X. exact X. }
  rewrite (IH _ pk W' U'). f_equal. destruct W as [S F]. destruct pk as [nk' pn]. unfold ov_lookup_part. cbn [fst snd].
  rewrite (lookup_insert _ BST) by exact S. rewrite keqb_bytes.
  destruct (beqb nk nk') eqn:E; [|reflexivity]. apply beqb_eq in E. subst nk'.
  destruct (lookup blt nk s) as [sn|] eqn:L.
  - apply lookup_merge_node. exact (Forall_lookup _ BST _ _ _ _ F L).
  - apply lookup_to_staging_node. exact ND.
Qed.

(* lifting view_merge_opt over a whole commit *)
Lemma view_sel_node : forall nu pn o b, osp_wf o -> sorted blt b ->
  osp_wf (sel_node nu pn o) /\ view_part (sel_node nu pn o) b = eff_node nu pn (view_part o b).
Proof.
  induction nu as [|[pn' pu] nu IH]; intros pn o b W S; [split; [exact W|reflexivity]|].
  unfold sel_node, eff_node in *. cbn [fold_left fst snd]. destruct (pn' =? pn).
  - rewrite <- (view_merge_opt o pu b W S). apply IH; [apply merge_opt_wf; exact W|exact S].
  - apply IH; assumption.
Qed.
Lemma view_sel : forall u pk o b, osp_wf o -> sorted blt b ->
  osp_wf (sel u pk o) /\ view_part (sel u pk o) b = eff u pk (view_part o b).
Proof.
  induction u as [|[nk nu] u IH]; intros pk o b W S; [split; [exact W|reflexivity]|].
  unfold sel, eff in *. cbn [fold_left fst snd]. destruct (beqb nk (fst pk)).
  - destruct (view_sel_node nu (snd pk) o b W S) as [W' E]. rewrite <- E. apply IH; assumption.
  - apply IH; assumption.
Qed.

Lemma ov_lookup_part_wf : forall s pk, st_wf s -> osp_wf (ov_lookup_part s pk).
Proof.
  intros s [nk pn] [S F]. unfold ov_lookup_part. cbn [fst snd].
  destruct (lookup blt nk s) as [sn|] eqn:E; [|exact I].
  pose proof (Forall_lookup _ BST _ _ _ _ F E) as [Sn Fn]. cbn [snd] in *.
  destruct (lookup N.ltb pn sn) as [sp|] eqn:E2; [|exact I].
  exact (Forall_lookup _ NST _ _ _ _ Fn E2).
Qed.

Definition view (s : staging) (base : memdb) (pk : pkey) : pmap :=
  view_part (ov_lookup_part s pk) (part_of base pk).

Lemma view_merge : forall s u base pk, st_wf s -> updates_wf u -> db_wf base ->
  view (merge s u) base pk = eff u pk (view s base pk).
Proof.
  intros s u base pk W U B. unfold view. rewrite ov_lookup_merge by assumption.
  apply view_sel; [apply ov_lookup_part_wf; exact W|apply part_of_sorted; exact B].
Qed.

(* ================================================================================================ *)
(* refinement over histories                                                                        *)
(* ================================================================================================ *)
Lemma refines_gen : forall cs s db base, st_wf s -> db_wf db -> db_wf base -> Forall updates_wf cs ->
  (forall pk, view s base pk = part_of db pk) ->
  st_wf (fold_left merge cs s) /\
  forall pk, view (fold_left merge cs s) base pk = part_of (fold_left mem_commit cs db) pk.
Proof.
  induction cs as [|c cs IH]; intros s db base W D B U H; [split; assumption|].
  inversion U as [|x l Uc U']; subst. cbn [fold_left].
  apply IH; try assumption.
  - apply merge_wf. exact W.
  - apply mem_commit_wf. exact D.
  - intro pk. rewrite view_merge by assumption. rewrite part_of_commit by exact D. rewrite H. reflexivity.
Qed.

Lemma ov_run_fold : forall cs o, fold_left ov_commit cs o =
  {| ov_staging := fold_left merge cs (ov_staging o); ov_root := ov_root o |}.
Proof. induction cs as [|c cs IH]; intro o; [destruct o; reflexivity|]. cbn [fold_left]. rewrite IH. reflexivity. Qed.
Lemma ov_run_eq : forall base cs, ov_run base cs = {| ov_staging := fold_left merge cs []; ov_root := base |}.
Proof. intros. unfold ov_run. rewrite ov_run_fold. reflexivity. Qed.

Lemma st_wf_nil : st_wf [].
Proof. split; [exact I|constructor]. Qed.

Lemma refines : forall base cs, db_wf base -> Forall updates_wf cs ->
  st_wf (ov_staging (ov_run base cs)) /\
  forall pk, view (ov_staging (ov_run base cs)) base pk = part_of (apply_commits base cs) pk.
Proof.
  intros base cs B U. rewrite ov_run_eq. cbn [ov_staging]. unfold apply_commits.
  apply refines_gen; try assumption; [apply st_wf_nil|]. intro pk. reflexivity.
Qed.

(* ================================================================================================ *)
(* reads and listings through the overlay = reads and listings of the view                          *)
(* ================================================================================================ *)
Lemma ov_get_view : forall o pk sk, st_wf (ov_staging o) -> db_wf (ov_root o) ->
  ov_get o pk sk = lookup blt sk (view (ov_staging o) (ov_root o) pk).
Proof.
  intros o pk sk W B. unfold ov_get, view. pose proof (ov_lookup_part_wf _ pk W) as Wp.
  destruct (ov_lookup_part (ov_staging o) pk) as [[m|m]|]; cbn [view_part].
  - rewrite lookup_apply_delta by (apply part_of_sorted; exact B). cbn in Wp.
    rewrite (assoc_last_sorted _ BST sk m Wp). rewrite mem_get_part_of.
    destruct (lookup blt sk m) as [[v|]|]; reflexivity.
  - reflexivity.
  - apply mem_get_part_of.
Qed.

Lemma lookup_from_cursor : forall (V : Type) from k (m : list (bytes * V)), sorted blt m ->
  lookup blt k (from_cursor from m) =
    match from with Some f => if blt k f then None else lookup blt k m | None => lookup blt k m end.
Proof. intros V [f|] k m S; cbn [from_cursor]; [apply (lookup_range_from _ BST); exact S|reflexivity]. Qed.
Lemma from_cursor_sorted : forall (V : Type) from (m : list (bytes * V)), sorted blt m -> sorted blt (from_cursor from m).
Proof. intros V [f|] m S; cbn [from_cursor]; [apply range_from_sorted; exact S|exact S]. Qed.

Lemma overlay_listing : forall from m b, sorted blt m -> sorted blt b ->
  overlaying_iter (from_cursor from b) (map_vals change_of (from_cursor from m)) = from_cursor from (apply_delta m b).
Proof.
  intros from m b Sm Sb.
  assert (sorted blt (map_vals change_of (from_cursor from m))) as So
    by (apply map_vals_sorted; apply from_cursor_sorted; exact Sm).
  pose proof (from_cursor_sorted _ from b Sb) as Su.
  apply (sorted_ext _ BST).
  - apply ov_iter_sorted; assumption.
  - apply from_cursor_sorted. apply apply_delta_sorted. exact Sb.
  - intro k. rewrite ov_iter_lookup by assumption. unfold ov_spec.
    rewrite lookup_map_vals. rewrite !lookup_from_cursor by (try apply apply_delta_sorted; assumption).
    rewrite lookup_apply_delta by exact Sb. rewrite (assoc_last_sorted _ BST k m Sm).
    destruct from as [f|].
    + destruct (blt k f); [reflexivity|]. destruct (lookup blt k m) as [[v|]|]; reflexivity.
    + destruct (lookup blt k m) as [[v|]|]; reflexivity.
Qed.

Lemma ov_list_view : forall o pk from, st_wf (ov_staging o) -> db_wf (ov_root o) ->
  ov_list o pk from = from_cursor from (view (ov_staging o) (ov_root o) pk).
Proof.
  intros o pk from W B. unfold ov_list, view. pose proof (ov_lookup_part_wf _ pk W) as Wp.
  destruct (ov_lookup_part (ov_staging o) pk) as [[m|m]|]; cbn [view_part].
  - rewrite mem_list_part_of. apply overlay_listing; [exact Wp|apply part_of_sorted; exact B].
  - reflexivity.
  - apply mem_list_part_of.
Qed.

(* ================================================================================================ *)
(* the theorems                                                                                     *)
(* ================================================================================================ *)
Theorem overlay_get : forall base cs pk sk, db_wf base -> Forall updates_wf cs ->
  ov_get (ov_run base cs) pk sk = mem_get (apply_commits base cs) pk sk.
Proof.
  intros base cs pk sk B U. destruct (refines base cs B U) as [W H].
  rewrite ov_get_view; [|exact W|rewrite ov_run_eq; exact B].
  rewrite mem_get_part_of, <- H. rewrite ov_run_eq. reflexivity.
Qed.
Theorem overlay_list : forall base cs pk from, db_wf base -> Forall updates_wf cs ->
  ov_list (ov_run base cs) pk from = mem_list (apply_commits base cs) pk from.
Proof.
  intros base cs pk from B U. destruct (refines base cs B U) as [W H].
  rewrite ov_list_view; [|exact W|rewrite ov_run_eq; exact B].
  rewrite mem_list_part_of, <- H. rewrite ov_run_eq. reflexivity.
Qed.

(* ---- merging the overlay into the base ---- *)
Lemma fold_left_map : forall (A B C : Type) (g : A -> C -> A) (h : B -> C) l a,
  fold_left g (map h l) a = fold_left (fun a e => g a (h e)) l a.
Proof. intros A B C g h l. induction l as [|x l IH]; intro a; [reflexivity|]. cbn. apply IH. Qed.

Lemma apply_from_staging_part : forall sp b, sp_wf sp -> apply_part (from_staging_part sp) b = view_part (Some sp) b.
Proof. intros [m|m] b W; cbn in *; [reflexivity|apply (of_list_sorted_id _ BST); exact W]. Qed.

Lemma eff_node_from_staging : forall sn pn b, sn_wf sn ->
  eff_node (from_staging_node sn) pn b = view_part (lookup N.ltb pn sn) b.
Proof.
  intros sn pn b [S F]. unfold eff_node, from_staging_node. rewrite fold_left_map. cbn [fst snd].
  rewrite (fold_select_sorted _ NST pmap (fun k' => k' =? pn) (fun sp p => apply_part (from_staging_part sp) p) pn sn b).
  - destruct (lookup N.ltb pn sn) as [sp|] eqn:E; [|reflexivity].
    apply apply_from_staging_part. exact (Forall_lookup _ NST _ _ _ _ F E).
  - intro k'. apply N.eqb_eq.
  - exact S.
Qed.
Lemma eff_from_staging : forall s pk b, st_wf s -> eff (from_staging s) pk b = view_part (ov_lookup_part s pk) b.
Proof.
  intros s [nk pn] b [S F]. unfold eff, from_staging. rewrite fold_left_map. cbn [fst snd].
  rewrite (fold_select_sorted _ BST pmap (fun k' => beqb k' nk) (fun sn p => eff_node (from_staging_node sn) pn p) nk s b).
  - unfold ov_lookup_part. cbn [fst snd]. destruct (lookup blt nk s) as [sn|] eqn:E; [|reflexivity].
    apply eff_node_from_staging. exact (Forall_lookup _ BST _ _ _ _ F E).
  - intro k'. apply beqb_eq.
  - exact S.
Qed.

Theorem overlay_merge_into_base : forall base cs, db_wf base -> Forall updates_wf cs ->
  ov_commit_into_root (ov_run base cs) = overlay_new (apply_commits base cs).
Proof.
  intros base cs B U. destruct (refines base cs B U) as [W H]. rewrite ov_run_eq in *. cbn [ov_staging] in *.
  unfold ov_commit_into_root, overlay_new. cbn [ov_staging ov_root]. f_equal.
  apply db_ext; [apply mem_commit_wf; exact B|apply apply_commits_wf; exact B|].
  intro pk. rewrite part_of_commit by exact B. rewrite eff_from_staging by exact W. apply H.
Qed.
