(* C43 — proofs about the non-fungible data store model. *)
From Coq Require Import List NArith Bool Lia.
Import ListNotations.
Require Import RV.Model.C43_NfData.
Open Scope N_scope.

(* ---------- keys ---------- *)
Lemma idtype_eqb_eq : forall a b, idtype_eqb a b = true <-> a = b.
Proof. destruct a, b; cbn; split; intros; try discriminate; reflexivity. Qed.
Lemma nfid_eqb_eq : forall a b, nfid_eqb a b = true <-> a = b.
Proof.
  intros [t1 n1] [t2 n2]. unfold nfid_eqb. cbn. split.
  - intros H. apply andb_prop in H. destruct H as [H1 H2]. apply idtype_eqb_eq in H1. apply N.eqb_eq in H2. subst. reflexivity.
  - intros H. inversion H. subst. apply andb_true_intro. split; [apply idtype_eqb_eq; reflexivity|apply N.eqb_refl].
Qed.
Lemma nfid_eqb_refl : forall a, nfid_eqb a a = true.
Proof. intros. apply nfid_eqb_eq. reflexivity. Qed.
Lemma nfid_eqb_neq : forall a b, nfid_eqb a b = false <-> a <> b.
Proof.
  intros a b. split.
  - intros H E. apply nfid_eqb_eq in E. congruence.
  - intros H. destruct (nfid_eqb a b) eqn:E; [|reflexivity]. apply nfid_eqb_eq in E. contradiction.
Qed.
Lemma nfid_dec : forall a b : nfid, {a = b} + {a <> b}.
Proof.
  intros a b. destruct (nfid_eqb a b) eqn:E; [left; apply nfid_eqb_eq; exact E|right; apply nfid_eqb_neq; exact E].
Qed.

Lemma find_put : forall k k' e s, find k (put k' e s) = if nfid_eqb k k' then Some e else find k s.
Proof.
  intros k k' e s. induction s as [|[k0 e0] s IH]; cbn.
  - destruct (nfid_eqb k k'); reflexivity.
  - destruct (nfid_eqb k' k0) eqn:E0; cbn.
    + apply nfid_eqb_eq in E0. subst k0. destruct (nfid_eqb k k'); reflexivity.
    + destruct (nfid_eqb k k0) eqn:E1.
      * apply nfid_eqb_eq in E1. subst k0. destruct (nfid_eqb k k') eqn:E2; [|reflexivity].
        apply nfid_eqb_eq in E2. subst k'. rewrite nfid_eqb_refl in E0. discriminate.
      * exact IH.
Qed.

(* ---------- create_non_fungibles ---------- *)
Lemma create_nfs_ok : forall ty nf check es s s',
  create_nfs ty nf check es s = ROk s' ->
  (forall id, find id s <> None -> find id s' <> None) /\
  (forall id, find id s = Some Tomb -> find id s' = Some Tomb) /\
  (forall id, In id (map fst es) -> find id s' <> None /\ fst id = ty /\ find id s <> Some Tomb) /\
  (forall id, ~ In id (map fst es) -> find id s' = find id s) /\
  (check = true -> NoDup (map fst es) /\ forall id, In id (map fst es) -> find id s = None).
Proof.
  intros ty nf check es. induction es as [|[id d] es IH]; intros s s' H.
  - cbn in H. inversion H. subst. split; [auto|]. split; [auto|]. split; [intros id []|]. split; [auto|].
    intros _. split; [constructor|intros id []].
  - cbn [create_nfs] in H.
    destruct (negb (idtype_eqb (fst id) ty)) eqn:Et; [discriminate|].
    apply negb_false_iff in Et. apply idtype_eqb_eq in Et.
    assert (Hnext : exists sn, sn = put id (Live d) s /\ create_nfs ty nf check es sn = ROk s' /\
                    find id s <> Some Tomb /\ (check = true -> find id s = None)).
    { destruct (find id s) as [[d0|]|] eqn:Ef.
      - destruct check; [discriminate|]. destruct (Nat.eqb (length d) nf); [|discriminate].
        eexists. repeat split; eauto; intros; discriminate.
      - discriminate.
      - destruct (Nat.eqb (length d) nf); [|discriminate]. eexists. repeat split; eauto. intros; discriminate. }
    destruct Hnext as [sn [Esn [Hc [Hnt Hck]]]]. subst sn.
    destruct (IH _ _ Hc) as (A & B & C & D & E).
    repeat split.
    + intros k Hk. apply A. rewrite find_put. destruct (nfid_eqb k id); [discriminate|exact Hk].
    + intros k Hk. apply B. rewrite find_put. destruct (nfid_eqb k id) eqn:Ek; [|exact Hk].
      apply nfid_eqb_eq in Ek. subst. contradiction.
    + destruct H0 as [<-|Hin]; cbn [fst].
      * apply A. rewrite find_put, nfid_eqb_refl. discriminate.
      * apply (C id0 Hin).
    + destruct H0 as [<-|Hin]; cbn [fst]; [exact Et|apply (C id0 Hin)].
    + destruct H0 as [<-|Hin]; cbn [fst]; [exact Hnt|].
      destruct (C id0 Hin) as (_ & _ & Hn). rewrite find_put in Hn.
      destruct (nfid_eqb id0 id) eqn:Ek; [apply nfid_eqb_eq in Ek; subst; exact Hnt|exact Hn].
    + intros k Hk. cbn [map fst] in Hk. rewrite D.
      * rewrite find_put. destruct (nfid_eqb k id) eqn:Ek; [|reflexivity].
        apply nfid_eqb_eq in Ek. subst. exfalso. apply Hk. left. reflexivity.
      * intros Hin. apply Hk. right. exact Hin.
    + destruct (E H0) as [Hnd Hnone]. cbn [map fst]. constructor; [|exact Hnd].
      intros Hin. specialize (Hnone id Hin). rewrite find_put, nfid_eqb_refl in Hnone. discriminate.
    + intros k [<-|Hin]; cbn [fst].
      * apply Hck. exact H0.
      * destruct (E H0) as [_ Hnone]. specialize (Hnone k Hin). rewrite find_put in Hnone.
        destruct (nfid_eqb k id); [discriminate|exact Hnone].
Qed.

(* ---------- burn ---------- *)
Lemma burn_fold : forall ids s k,
  find k (fold_left (fun s id => put id Tomb s) ids s) =
  if existsb (nfid_eqb k) ids then Some Tomb else find k s.
Proof.
  induction ids as [|id ids IH]; intros s k; cbn; [reflexivity|].
  rewrite IH. rewrite find_put. destruct (nfid_eqb k id) eqn:E; cbn.
  - destruct (existsb (nfid_eqb k) ids); reflexivity.
  - reflexivity.
Qed.

(* ---------- update ---------- *)
Lemma set_nth_other : forall i v d d' j, set_nth i v d = Some d' -> j <> i -> nth_error d' j = nth_error d j.
Proof.
  induction i as [|i IH]; intros v d d' j H Hne; destruct d as [|x d]; cbn in H; try discriminate.
  - inversion H. subst. destruct j; [contradiction|reflexivity].
  - destruct (set_nth i v d) as [r|] eqn:E; [|discriminate]. inversion H. subst.
    destruct j; [reflexivity|]. cbn. eapply IH; eauto.
Qed.
Lemma lookup_field_in : forall name l i, lookup_field name l = Some i -> In (name, i) l.
Proof.
  intros name l. induction l as [|[n k] l IH]; cbn; intros i H; [discriminate|].
  destruct (N.eqb name n) eqn:E.
  - inversion H. subst. apply N.eqb_eq in E. subst. left. reflexivity.
  - right. apply IH. exact H.
Qed.

(* ---------- step-level facts ---------- *)
Definition ever (m : rm) (id : nfid) : Prop := find id (r_store m) <> None.
Definition minted_ids (o : op) : list nfid :=
  match o with OMint es | OMintRuid es => map fst es | _ => [] end.
Definition is_ok (r : res unit) : bool := match r with ROk _ => true | _ => false end.

Lemma step_cfg : forall m o, r_idtype (fst (step m o)) = r_idtype m /\ r_nfields (fst (step m o)) = r_nfields m /\
  r_mutable (fst (step m o)) = r_mutable m.
Proof.
  intros m o. destruct o as [es|es|ids|id f v]; cbn.
  - destruct (idtype_eqb (r_idtype m) TRUID); cbn; auto. destruct (create_nfs _ _ _ _ _); cbn; auto.
  - destruct (negb (idtype_eqb (r_idtype m) TRUID)); cbn; auto. destruct (create_nfs _ _ _ _ _); cbn; auto.
  - destruct (forallb _ ids); cbn; auto.
  - destruct (lookup_field f (r_mutable m)); cbn; auto. destruct (find id (r_store m)) as [[d|]|]; cbn; auto.
    destruct (set_nth n v d); cbn; auto.
Qed.

Lemma step_fail_same : forall m o, is_ok (snd (step m o)) = false -> fst (step m o) = m.
Proof.
  intros m o. destruct o as [es|es|ids|id f v]; cbn.
  - destruct (idtype_eqb (r_idtype m) TRUID); cbn; auto. destruct (create_nfs _ _ _ _ _); cbn; auto; discriminate.
  - destruct (negb (idtype_eqb (r_idtype m) TRUID)); cbn; auto. destruct (create_nfs _ _ _ _ _); cbn; auto; discriminate.
  - destruct (forallb _ ids); cbn; auto; discriminate.
  - destruct (lookup_field f (r_mutable m)); cbn; auto. destruct (find id (r_store m)) as [[d|]|]; cbn; auto.
    destruct (set_nth n v d); cbn; auto; discriminate.
Qed.

(* an id that ever existed (live or tombstone) exists forever; a tombstone stays a tombstone *)
Lemma ever_mono : forall m o id, ever m id -> ever (fst (step m o)) id.
Proof.
  unfold ever. intros m o id H. destruct o as [es|es|ids|id0 f v]; cbn.
  - destruct (idtype_eqb (r_idtype m) TRUID); cbn; auto.
    destruct (create_nfs _ _ _ _ _) eqn:E; cbn; auto. destruct (create_nfs_ok _ _ _ _ _ _ E) as (A & _). apply A. exact H.
  - destruct (negb (idtype_eqb (r_idtype m) TRUID)); cbn; auto.
    destruct (create_nfs _ _ _ _ _) eqn:E; cbn; auto. destruct (create_nfs_ok _ _ _ _ _ _ E) as (A & _). apply A. exact H.
  - destruct (forallb _ ids); cbn; auto. rewrite burn_fold. destruct (existsb (nfid_eqb id) ids); [discriminate|exact H].
  - destruct (lookup_field f (r_mutable m)); cbn; auto. destruct (find id0 (r_store m)) as [[d|]|]; cbn; auto.
    destruct (set_nth n v d); cbn; auto. rewrite find_put. destruct (nfid_eqb id id0); [discriminate|exact H].
Qed.
Lemma tomb_stays : forall m o id, find id (r_store m) = Some Tomb -> find id (r_store (fst (step m o))) = Some Tomb.
Proof.
  intros m o id H. destruct o as [es|es|ids|id0 f v]; cbn.
  - destruct (idtype_eqb (r_idtype m) TRUID); cbn; auto.
    destruct (create_nfs _ _ _ _ _) eqn:E; cbn; auto. destruct (create_nfs_ok _ _ _ _ _ _ E) as (_ & B & _). apply B. exact H.
  - destruct (negb (idtype_eqb (r_idtype m) TRUID)); cbn; auto.
    destruct (create_nfs _ _ _ _ _) eqn:E; cbn; auto. destruct (create_nfs_ok _ _ _ _ _ _ E) as (_ & B & _). apply B. exact H.
  - destruct (forallb _ ids); cbn; auto. rewrite burn_fold. destruct (existsb (nfid_eqb id) ids); [reflexivity|exact H].
  - destruct (lookup_field f (r_mutable m)); cbn; auto. destruct (find id0 (r_store m)) as [[d|]|] eqn:Ef; cbn; auto.
    destruct (set_nth n v d); cbn; auto. rewrite find_put. destruct (nfid_eqb id id0) eqn:E; [|exact H].
    apply nfid_eqb_eq in E. subst. congruence.
Qed.

(* a successful explicit mint: ids pairwise distinct, none of them ever existed (neither live nor
   burned), all of them exist afterwards and have the resource's id type *)
Lemma mint_ok : forall m es, is_ok (snd (step m (OMint es))) = true ->
  NoDup (map fst es) /\
  forall id, In id (map fst es) -> ~ ever m id /\ ever (fst (step m (OMint es))) id /\ fst id = r_idtype m.
Proof.
  intros m es. cbn. destruct (idtype_eqb (r_idtype m) TRUID); cbn; [discriminate|].
  destruct (create_nfs _ _ _ _ _) eqn:E; cbn; try discriminate. intros _.
  destruct (create_nfs_ok _ _ _ _ _ _ E) as (A & B & C & D & F). destruct (F eq_refl) as [Hnd Hnone].
  split; [exact Hnd|]. intros id Hin. unfold ever. cbn. repeat split.
  - intros H. apply H. apply Hnone. exact Hin.
  - apply (C id Hin).
  - apply (C id Hin).
Qed.
(* a successful RUID mint never touches a burned id, and only happens on a RUID resource *)
Lemma mint_ruid_ok : forall m es, is_ok (snd (step m (OMintRuid es))) = true ->
  r_idtype m = TRUID /\
  forall id, In id (map fst es) -> find id (r_store m) <> Some Tomb /\ ever (fst (step m (OMintRuid es))) id /\ fst id = TRUID.
Proof.
  intros m es. cbn. destruct (idtype_eqb (r_idtype m) TRUID) eqn:Et; cbn; [|discriminate].
  apply idtype_eqb_eq in Et.
  destruct (create_nfs _ _ _ _ _) eqn:E; cbn; try discriminate. intros _.
  destruct (create_nfs_ok _ _ _ _ _ _ E) as (A & B & C & D & F).
  split; [exact Et|]. intros id Hin. unfold ever. cbn. repeat split; apply (C id Hin).
Qed.
Lemma mint_wrong_kind_fails : forall m es,
  (r_idtype m = TRUID -> is_ok (snd (step m (OMint es))) = false) /\
  (r_idtype m <> TRUID -> is_ok (snd (step m (OMintRuid es))) = false).
Proof.
  intros m es. split; intros H; cbn.
  - rewrite H. reflexivity.
  - destruct (idtype_eqb (r_idtype m) TRUID) eqn:E; [apply idtype_eqb_eq in E; contradiction|reflexivity].
Qed.

(* ---------- id type invariant ---------- *)
Definition typed (m : rm) : Prop := forall id, ever m id -> fst id = r_idtype m.

Lemma typed_step : forall m o, typed m -> typed (fst (step m o)).
Proof.
  unfold typed, ever. intros m o Hw id. destruct (step_cfg m o) as (Ht & _ & _). rewrite Ht.
  destruct o as [es|es|ids|id0 f v]; cbn.
  - destruct (idtype_eqb (r_idtype m) TRUID); cbn; [apply Hw|].
    destruct (create_nfs _ _ _ _ _) eqn:E; cbn; try apply Hw.
    destruct (create_nfs_ok _ _ _ _ _ _ E) as (A & B & C & D & F).
    intros H. destruct (in_dec nfid_dec id (map fst es)) as [Hin|Hnin].
    + apply (C id Hin).
    + rewrite (D id Hnin) in H. apply Hw. exact H.
  - destruct (idtype_eqb (r_idtype m) TRUID) eqn:Et; cbn; [|apply Hw]. apply idtype_eqb_eq in Et.
    destruct (create_nfs _ _ _ _ _) eqn:E; cbn; try apply Hw.
    destruct (create_nfs_ok _ _ _ _ _ _ E) as (A & B & C & D & F).
    intros H. destruct (in_dec nfid_dec id (map fst es)) as [Hin|Hnin].
    + rewrite Et. apply (C id Hin).
    + rewrite (D id Hnin) in H. apply Hw. exact H.
  - destruct (forallb (is_live (r_store m)) ids) eqn:Ef; cbn; [|apply Hw].
    rewrite burn_fold. destruct (existsb (nfid_eqb id) ids) eqn:Ex; [|apply Hw].
    intros _. apply existsb_exists in Ex. destruct Ex as [k [Hin Ek]]. apply nfid_eqb_eq in Ek. subst k.
    rewrite forallb_forall in Ef. specialize (Ef id Hin). unfold is_live in Ef. apply Hw.
    destruct (find id (r_store m)); [discriminate|discriminate].
  - destruct (lookup_field f (r_mutable m)); cbn; [|apply Hw]. destruct (find id0 (r_store m)) as [[d|]|] eqn:Ef; cbn; try apply Hw.
    destruct (set_nth n v d); cbn; [|apply Hw]. rewrite find_put. destruct (nfid_eqb id id0) eqn:E; [|apply Hw].
    intros _. apply nfid_eqb_eq in E. subst. apply Hw. rewrite Ef. discriminate.
Qed.

Lemma typed_create : forall ty nf mu init m, create ty nf mu init = Some m -> typed m /\ r_idtype m = ty.
Proof.
  unfold create, typed, ever. intros ty nf mu init m H.
  destruct (create_nfs ty nf false init []) eqn:E; try discriminate. inversion H. subst. cbn. split; [|reflexivity].
  destruct (create_nfs_ok _ _ _ _ _ _ E) as (A & B & C & D & F). intros id Hid.
  destruct (in_dec nfid_dec id (map fst init)) as [Hin|Hnin]; [apply (C id Hin)|].
  rewrite (D id Hnin) in Hid. cbn in Hid. contradiction.
Qed.

(* ---------- histories ---------- *)
Lemma final_app : forall ops1 ops2 m, final m (ops1 ++ ops2) = final (final m ops1) ops2.
Proof. intros. unfold final. apply fold_left_app. Qed.
Lemma ever_final : forall ops m id, ever m id -> ever (final m ops) id.
Proof.
  induction ops as [|o ops IH]; intros m id H; cbn; [exact H|]. apply IH. apply ever_mono. exact H.
Qed.
Lemma tomb_final : forall ops m id, find id (r_store m) = Some Tomb -> find id (r_store (final m ops)) = Some Tomb.
Proof.
  induction ops as [|o ops IH]; intros m id H; cbn; [exact H|]. apply IH. apply tomb_stays. exact H.
Qed.
Lemma typed_final : forall ops m, typed m -> typed (final m ops).
Proof. induction ops as [|o ops IH]; intros m H; cbn; [exact H|]. apply IH. apply typed_step. exact H. Qed.
Lemma final_idtype : forall ops m, r_idtype (final m ops) = r_idtype m.
Proof.
  induction ops as [|o ops IH]; intros m; [reflexivity|].
  change (final m (o :: ops)) with (final (fst (step m o)) ops). rewrite IH. apply (step_cfg m o).
Qed.

(* the shape of run: the k-th entry starts from the state after the first k ops *)
Lemma run_split : forall ops m pre e post, run m ops = pre ++ e :: post ->
  exists ops1 o ops2, ops = ops1 ++ o :: ops2 /\ length ops1 = length pre /\
    e = (final m ops1, o, fst (step (final m ops1) o), snd (step (final m ops1) o)) /\
    pre = run m ops1.
Proof.
  induction ops as [|o ops IH]; intros m pre e post H.
  - destruct pre; discriminate.
  - destruct pre as [|p pre]; cbn in H.
    + inversion H. subst. exists [], o, ops. repeat split.
    + inversion H as [[Hp Hrest]]. destruct (IH _ _ _ _ Hrest) as (ops1 & o' & ops2 & E1 & E2 & E3 & E4).
      exists (o :: ops1), o', ops2. subst. cbn. repeat split; auto.
Qed.
Lemma in_run : forall ops m e, In e (run m ops) -> exists ops1 o ops2, ops = ops1 ++ o :: ops2 /\
  e = (final m ops1, o, fst (step (final m ops1) o), snd (step (final m ops1) o)).
Proof.
  intros ops m e Hin. apply in_split in Hin. destruct Hin as [pre [post H]].
  destruct (run_split _ _ _ _ _ H) as (ops1 & o & ops2 & E1 & _ & E3 & _). exists ops1, o, ops2. auto.
Qed.

(* MINT ONCE (explicit ids): in every history, a successful mint_non_fungible carries pairwise
   distinct ids none of which existed in the initial store or was minted by any earlier successful
   mint of the history — whether or not it has been burned since — and all of which exist for ever after *)
Theorem mint_once : forall m ops pre mb es ma out post,
  run m ops = pre ++ (mb, OMint es, ma, out) :: post -> is_ok out = true ->
  NoDup (map fst es) /\
  forall id, In id (map fst es) ->
    ~ ever m id /\
    (forall e, In e pre -> is_ok (snd e) = true -> ~ In id (minted_ids (snd (fst (fst e))))) /\
    ever (final m ops) id.
Proof.
  intros m ops pre mb es ma out post Hrun Hok.
  destruct (run_split _ _ _ _ _ Hrun) as (ops1 & o & ops2 & E1 & E2 & E3 & E4).
  inversion E3. subst mb o ma out. clear E3.
  destruct (mint_ok _ _ Hok) as [Hnd Hids]. split; [exact Hnd|].
  intros id Hin. destruct (Hids id Hin) as (Hnever & Hafter & _). repeat split.
  - intros H. apply Hnever. apply ever_final. exact H.
  - intros e He Heok Hm. subst pre. destruct (in_run _ _ _ He) as (opsa & oa & opsb & Ea & Eb). subst e. cbn [fst snd] in *.
    apply Hnever. rewrite Ea. rewrite final_app. cbn [final fold_left].
    change (fold_left (fun m0 o => fst (step m0 o)) opsb (fst (step (final m opsa) oa)))
      with (final (fst (step (final m opsa) oa)) opsb).
    apply ever_final.
    destruct oa as [es'|es'|ids|id0 f v]; cbn [minted_ids] in Hm; try contradiction.
    + apply (mint_ok _ _ Heok). exact Hm.
    + apply (mint_ruid_ok _ _ Heok). exact Hm.
  - subst ops. rewrite final_app. cbn [final fold_left].
    change (fold_left (fun m0 o => fst (step m0 o)) ops2 (fst (step (final m ops1) (OMint es))))
      with (final (fst (step (final m ops1) (OMint es))) ops2).
    apply ever_final. exact Hafter.
Qed.

(* burned means burned: once an id is a tombstone no later operation of any history makes it live,
   and in particular every later mint containing it fails *)
Theorem burned_never_returns : forall m ops id,
  find id (r_store m) = Some Tomb ->
  find id (r_store (final m ops)) = Some Tomb /\
  forall e, In e (run m ops) -> In id (minted_ids (snd (fst (fst e)))) -> is_ok (snd e) = false.
Proof.
  intros m ops id H. split; [apply tomb_final; exact H|].
  intros e He Hm. destruct (in_run _ _ _ He) as (opsa & oa & opsb & Ea & Eb). subst e. cbn [fst snd] in *.
  pose proof (tomb_final opsa m id H) as Ht.
  destruct (is_ok (snd (step (final m opsa) oa))) eqn:Eok; [|reflexivity]. exfalso.
  destruct oa as [es'|es'|ids|id0 f v]; cbn [minted_ids] in Hm; try contradiction.
  - destruct (mint_ok _ _ Eok) as [_ Hids]. destruct (Hids id Hm) as (Hn & _). apply Hn. unfold ever. rewrite Ht. discriminate.
  - destruct (mint_ruid_ok _ _ Eok) as [_ Hids]. destruct (Hids id Hm) as (Hn & _). contradiction.
Qed.
Lemma burn_makes_tomb : forall m ids id, is_ok (snd (step m (OBurn ids))) = true -> In id ids ->
  find id (r_store (fst (step m (OBurn ids)))) = Some Tomb.
Proof.
  intros m ids id. cbn. destruct (forallb _ ids); cbn; [|discriminate]. intros _ Hin.
  rewrite burn_fold. assert (H : existsb (nfid_eqb id) ids = true).
  { apply existsb_exists. exists id. split; [exact Hin|apply nfid_eqb_refl]. }
  rewrite H. reflexivity.
Qed.

(* ID TYPE: in every history from creation, every id that exists (live or burned) has the
   resource's id type *)
Theorem id_type : forall ty nf mu init m ops id,
  create ty nf mu init = Some m -> ever (final m ops) id -> fst id = ty.
Proof.
  intros ty nf mu init m ops id Hc He. destruct (typed_create _ _ _ _ _ Hc) as [Hw Ht].
  pose proof (typed_final ops m Hw id He) as H. rewrite final_idtype, Ht in H. exact H.
Qed.

(* ONLY MUTABLE FIELDS: for any operation, a non-fungible that is live before and after keeps every
   field whose index is not the index of a declared-mutable field name. For RUID mints the generated
   ids are assumed new to the resource (the id generator is outside the model). *)
Definition ruid_fresh (m : rm) (o : op) : Prop :=
  match o with OMintRuid es => forall id, In id (map fst es) -> find id (r_store m) = None | _ => True end.
Definition immutable_index (m : rm) (i : nat) : Prop := forall name, lookup_field name (r_mutable m) <> Some i.

Theorem only_mutable_fields : forall m o id d d' i,
  ruid_fresh m o ->
  find id (r_store m) = Some (Live d) -> find id (r_store (fst (step m o))) = Some (Live d') ->
  immutable_index m i -> nth_error d' i = nth_error d i.
Proof.
  intros m o id d d' i Hfresh Hb Ha Him.
  destruct o as [es|es|ids|id0 f v]; cbn in Ha.
  - destruct (idtype_eqb (r_idtype m) TRUID); cbn in Ha; [congruence|].
    destruct (create_nfs _ _ _ _ _) eqn:E; cbn in Ha; try congruence.
    destruct (create_nfs_ok _ _ _ _ _ _ E) as (A & B & C & D & F). destruct (F eq_refl) as [_ Hnone].
    destruct (in_dec nfid_dec id (map fst es)) as [Hin|Hnin].
    + rewrite (Hnone id Hin) in Hb. discriminate.
    + rewrite (D id Hnin) in Ha. congruence.
  - destruct (negb (idtype_eqb (r_idtype m) TRUID)); cbn in Ha; [congruence|].
    destruct (create_nfs _ _ _ _ _) eqn:E; cbn in Ha; try congruence.
    destruct (create_nfs_ok _ _ _ _ _ _ E) as (A & B & C & D & F).
    destruct (in_dec nfid_dec id (map fst es)) as [Hin|Hnin].
    + cbn in Hfresh. rewrite (Hfresh id Hin) in Hb. discriminate.
    + rewrite (D id Hnin) in Ha. congruence.
  - destruct (forallb _ ids); cbn in Ha; [|congruence]. rewrite burn_fold in Ha.
    destruct (existsb (nfid_eqb id) ids); [discriminate|congruence].
  - destruct (lookup_field f (r_mutable m)) as [i0|] eqn:El; cbn in Ha; [|congruence].
    destruct (find id0 (r_store m)) as [[d0|]|] eqn:Ef; cbn in Ha; try congruence.
    destruct (set_nth i0 v d0) as [d1|] eqn:Es; cbn in Ha; [|congruence].
    rewrite find_put in Ha. destruct (nfid_eqb id id0) eqn:E.
    + apply nfid_eqb_eq in E. subst id0. inversion Ha. subst d1. rewrite Ef in Hb. inversion Hb. subst d0.
      eapply set_nth_other; eauto. intros Heq. subst i0. apply (Him f). exact El.
    + congruence.
Qed.

(* an update naming a field that is not declared mutable fails and changes nothing; a successful
   update writes exactly the index of the named mutable field of exactly that id *)
Theorem update_spec : forall m id f v,
  (lookup_field f (r_mutable m) = None -> step m (OUpdate id f v) = (m, RErr EUnknownField)) /\
  (is_ok (snd (step m (OUpdate id f v))) = true ->
     exists i d d', lookup_field f (r_mutable m) = Some i /\ find id (r_store m) = Some (Live d) /\
       set_nth i v d = Some d' /\
       forall k, find k (r_store (fst (step m (OUpdate id f v)))) = if nfid_eqb k id then Some (Live d') else find k (r_store m)).
Proof.
  intros m id f v. split.
  - intros H. cbn. rewrite H. reflexivity.
  - cbn. destruct (lookup_field f (r_mutable m)) as [i|]; cbn; [|discriminate].
    destruct (find id (r_store m)) as [[d|]|] eqn:Ef; cbn; try discriminate.
    destruct (set_nth i v d) as [d'|] eqn:Es; cbn; [|discriminate]. intros _.
    exists i, d, d'. repeat split; auto. intros k. apply find_put.
Qed.

(* ------------------------------------------------------------------------------------------ *)
(* RUID generation.  Runtime::generate_ruid (system_modules/transaction_runtime/module.rs):
       ruid = hash(tx_hash ++ next_id.to_le_bytes());  next_id += 1      (next_id starts at 0 per transaction)
   and NonFungibleLocalId::ruid(ruid). The model abstracts the hash as H : (tx, counter) -> id
   content and states what uniqueness rests on:
     - H is collision-free on the inputs used (Blake2b-256, visible hypothesis),
     - no (tx_hash, counter) pair is used twice: transaction hashes are unique per committed
       transaction (replay protection, C07) and the counter only increases within a transaction. *)
Section Ruid.
Variable H : N * N -> N.
Hypothesis H_inj : forall a b, H a = H b -> a = b.

Definition genid (p : N * N) : nfid := (TRUID, H p).
Fixpoint pairs_from (tx k0 : N) (n : nat) : list (N * N) :=
  match n with O => [] | S n' => (tx, k0) :: pairs_from tx (k0 + 1) n' end.

(* operations of a history, RUID mints carrying the transaction hash and the counter value at
   which their generation starts *)
Inductive gop :=
  | GMint (es : list (nfid * data))
  | GBurn (ids : list nfid)
  | GUpdate (id : nfid) (f v : N)
  | GRuid (tx k0 : N) (ds : list data).
Definition gpairs (g : gop) : list (N * N) :=
  match g with GRuid tx k0 ds => pairs_from tx k0 (length ds) | _ => [] end.
Definition to_op (g : gop) : op :=
  match g with
  | GMint es => OMint es
  | GBurn ids => OBurn ids
  | GUpdate id f v => OUpdate id f v
  | GRuid tx k0 ds => OMintRuid (combine (map genid (pairs_from tx k0 (length ds))) ds)
  end.

Lemma pairs_from_length : forall n tx k0, length (pairs_from tx k0 n) = n.
Proof. induction n; intros; cbn; [reflexivity|rewrite IHn; reflexivity]. Qed.
Lemma map_fst_combine : forall A B (l : list A) (l' : list B), length l = length l' -> map fst (combine l l') = l.
Proof.
  induction l as [|x l IH]; intros [|y l'] Hl; cbn in *; try discriminate; [reflexivity|].
  rewrite IH; [reflexivity|]. inversion Hl. reflexivity.
Qed.
Lemma minted_to_op : forall g, minted_ids (to_op g) =
  match g with GMint es => map fst es | GRuid tx k0 ds => map genid (pairs_from tx k0 (length ds)) | _ => [] end.
Proof.
  destruct g; cbn; try reflexivity. apply map_fst_combine. rewrite map_length, pairs_from_length. reflexivity.
Qed.

(* what a step can add to the set of existing ids *)
Lemma ever_step_inv : forall m o id, ever (fst (step m o)) id -> ever m id \/ (is_ok (snd (step m o)) = true /\ In id (minted_ids o)).
Proof.
  unfold ever. intros m o id. destruct o as [es|es|ids|id0 f v]; cbn.
  - destruct (idtype_eqb (r_idtype m) TRUID); cbn; [auto|].
    destruct (create_nfs _ _ _ _ _) eqn:E; cbn; auto.
    destruct (create_nfs_ok _ _ _ _ _ _ E) as (A & B & C & D & F).
    intros Hid. destruct (in_dec nfid_dec id (map fst es)) as [Hin|Hnin]; [right; auto|left; rewrite <- (D id Hnin); exact Hid].
  - destruct (negb (idtype_eqb (r_idtype m) TRUID)); cbn; [auto|].
    destruct (create_nfs _ _ _ _ _) eqn:E; cbn; auto.
    destruct (create_nfs_ok _ _ _ _ _ _ E) as (A & B & C & D & F).
    intros Hid. destruct (in_dec nfid_dec id (map fst es)) as [Hin|Hnin]; [right; auto|left; rewrite <- (D id Hnin); exact Hid].
  - destruct (forallb (is_live (r_store m)) ids) eqn:Ef; cbn; [|auto]. rewrite burn_fold.
    destruct (existsb (nfid_eqb id) ids) eqn:Ex; [|auto]. intros _. left.
    apply existsb_exists in Ex. destruct Ex as [k [Hin Ek]]. apply nfid_eqb_eq in Ek. subst k.
    rewrite forallb_forall in Ef. specialize (Ef id Hin). unfold is_live in Ef.
    destruct (find id (r_store m)); [discriminate|discriminate].
  - destruct (lookup_field f (r_mutable m)); cbn; [|auto]. destruct (find id0 (r_store m)) as [[d|]|] eqn:Ef; cbn; auto.
    destruct (set_nth n v d); cbn; [|auto]. rewrite find_put. destruct (nfid_eqb id id0) eqn:E; [|auto].
    intros _. left. apply nfid_eqb_eq in E. subst. rewrite Ef. discriminate.
Qed.

(* on a RUID resource that started empty, every existing id is the image of a pair used earlier *)
Lemma ruid_store_generated : forall gs m id,
  r_idtype m = TRUID -> ever (final m (map to_op gs)) id ->
  ever m id \/ In id (map genid (concat (map gpairs gs))).
Proof.
  induction gs as [|g gs IH]; intros m id Ht He; cbn in *; [left; exact He|].
  change (fold_left (fun m0 o => fst (step m0 o)) (map to_op gs) (fst (step m (to_op g))))
    with (final (fst (step m (to_op g))) (map to_op gs)) in He.
  assert (Ht' : r_idtype (fst (step m (to_op g))) = TRUID) by (rewrite (proj1 (step_cfg m (to_op g))); exact Ht).
  destruct (IH _ _ Ht' He) as [H1|H1].
  - destruct (ever_step_inv _ _ _ H1) as [H2|[Hok Hin]]; [left; exact H2|right].
    rewrite map_app. apply in_or_app. left.
    destruct g as [es|ids0|id0 f v|tx k0 ds].
    + exfalso. destruct (mint_wrong_kind_fails m es) as [A _].
      change (to_op (GMint es)) with (OMint es) in Hok. rewrite (A Ht) in Hok. discriminate.
    + cbn in Hin. contradiction.
    + cbn in Hin. contradiction.
    + rewrite minted_to_op in Hin. exact Hin.
  - right. rewrite map_app. apply in_or_app. right. exact H1.
Qed.

(* FRESHNESS DERIVED: in a history on a RUID resource created empty, in which no (tx, counter) pair
   is used twice, the ids of every RUID mint are new to the resource at the time of the mint *)
Theorem ruid_fresh_derived : forall m gs1 g gs2,
  r_idtype m = TRUID -> r_store m = [] ->
  NoDup (concat (map gpairs (gs1 ++ g :: gs2))) ->
  ruid_fresh (final m (map to_op gs1)) (to_op g).
Proof.
  intros m gs1 g gs2 Ht Hs Hnd. destruct g as [es|ids|id f v|tx k0 ds]; cbn; auto.
  intros id Hin. rewrite map_fst_combine in Hin by (rewrite map_length, pairs_from_length; reflexivity).
  destruct (find id (r_store (final m (map to_op gs1)))) eqn:Ef; [|reflexivity]. exfalso.
  assert (He : ever (final m (map to_op gs1)) id) by (unfold ever; rewrite Ef; discriminate).
  destruct (ruid_store_generated _ _ _ Ht He) as [H1|H1].
  - unfold ever in H1. rewrite Hs in H1. cbn in H1. contradiction.
  - apply in_map_iff in Hin. destruct Hin as [p [Hp Hpin]]. apply in_map_iff in H1. destruct H1 as [q [Hq Hqin]].
    assert (Epq : p = q). { apply H_inj. unfold genid in *. congruence. } subst q.
    rewrite map_app, concat_app in Hnd. cbn [map concat] in Hnd.
    cbn [gpairs] in Hnd. clear - Hnd Hpin Hqin.
    remember (concat (map gpairs gs1)) as l1. clear Heql1.
    induction l1 as [|x l1 IH]; [contradiction|]. cbn in Hnd. inversion Hnd as [|? ? Hx Hrest]. subst.
    destruct Hqin as [->|Hq'].
    + apply Hx. apply in_or_app. right. apply in_or_app. left. exact Hpin.
    + apply IH; assumption.
Qed.

(* consequence: all ids ever minted by RUID mints of such a history are pairwise distinct *)
Theorem ruid_ids_distinct : forall gs, NoDup (concat (map gpairs gs)) ->
  NoDup (map genid (concat (map gpairs gs))).
Proof.
  intros gs Hnd. induction Hnd as [|x l Hx Hnd IH]; cbn; constructor; [|exact IH].
  intros Hin. apply in_map_iff in Hin. destruct Hin as [y [Hy Hyin]].
  assert (y = x) by (apply H_inj; unfold genid in Hy; congruence). subst. contradiction.
Qed.

End Ruid.

(* ------------------------------------------------------------------------------------------ *)
(* admission: a committed operation was admitted by the auth module and allowed by the resource's
   feature flag, and then it is exactly the store operation `step`; a refused one changes nothing *)
Theorem astep_spec : forall cfg m auth o,
  (is_ok (snd (astep cfg m auth o)) = true ->
     auth = true /\ astep cfg m auth o = step m o /\
     (match o with OMint _ | OMintRuid _ => mintable cfg = true | OBurn _ => burnable cfg = true | _ => True end)) /\
  (is_ok (snd (astep cfg m auth o)) = false -> fst (astep cfg m auth o) = m).
Proof.
  intros cfg m auth o. unfold astep. destruct auth; cbn [negb].
  - destruct o as [es|es|ids|id f v].
    + destruct (mintable cfg); [split; [intros _; repeat split|apply step_fail_same]|cbn; split; [discriminate|reflexivity]].
    + destruct (mintable cfg); [split; [intros _; repeat split|apply step_fail_same]|cbn; split; [discriminate|reflexivity]].
    + destruct (burnable cfg); [split; [intros _; repeat split|apply step_fail_same]|cbn; split; [discriminate|reflexivity]].
    + split; [intros _; repeat split|apply step_fail_same].
  - cbn. split; [discriminate|reflexivity].
Qed.

(* transactions of several operations (each with the auth decision for its own method): a committed
   transaction is exactly the run of its operations, every one admitted and committing; a failed one
   changes nothing. So the history theorems above, stated over single store operations, cover
   histories of admitted multi-operation transactions (e.g. mint, burn and re-mint of an id inside
   one transaction). *)
Lemma tx_go_ok : forall cfg ops m m' u, tx_go cfg m ops = (m', ROk u) ->
  m' = final m (map snd ops) /\ (forall e, In e (run m (map snd ops)) -> is_ok (snd e) = true) /\
  Forall (fun ao => fst ao = true) ops.
Proof.
  intros cfg. induction ops as [|[a o] ops IH]; intros m m' u H; cbn [tx_go] in H.
  - inversion H. subst. repeat split; [intros e []|constructor].
  - destruct (astep cfg m a o) as [m1 r] eqn:E. destruct r as [x|e|]; try (inversion H; fail).
    destruct (IH _ _ _ H) as (A & B & C).
    destruct (astep_spec cfg m a o) as [S _]. rewrite E in S. destruct (S eq_refl) as (Ha & Hs & _).
    cbn [map snd]. repeat split.
    + change (final m (o :: map snd ops)) with (final (fst (step m o)) (map snd ops)). rewrite <- Hs. exact A.
    + change (run m (o :: map snd ops)) with ((m, o, fst (step m o), snd (step m o)) :: run (fst (step m o)) (map snd ops)).
      rewrite <- Hs. intros e0 [<-|Hin]; [reflexivity|apply B; exact Hin].
    + constructor; [exact Ha|exact C].
Qed.
Theorem tx_step_spec : forall cfg m ops,
  (is_ok (snd (tx_step cfg m ops)) = true ->
     fst (tx_step cfg m ops) = final m (map snd ops) /\
     (forall e, In e (run m (map snd ops)) -> is_ok (snd e) = true) /\ Forall (fun ao => fst ao = true) ops) /\
  (is_ok (snd (tx_step cfg m ops)) = false -> fst (tx_step cfg m ops) = m).
Proof.
  intros cfg m ops. unfold tx_step. destruct (tx_go cfg m ops) as [m' r] eqn:E. destruct r as [u|e|]; cbn; split; intros H; try discriminate; try reflexivity.
  apply (tx_go_ok _ _ _ _ _ E).
Qed.
