(* C15 — proofs: key layout of the RocksDB stores, the ordered-map assumption, refinement of the
   in-memory store by the RocksDB store model over all commit histories. *)
From Coq Require Import List Arith NArith Bool Lia.
Import ListNotations.
Require Import RV.Lib.Bytes RV.Lib.SortedMap RV.Model.C14_Store RV.Proof.C14_Store
               RV.Gen.C15_consts RV.Model.C15_Stores.
Open Scope N_scope.

Local Notation BST := blt_strict_total.
Local Notation PST := pk_ltb_strict_total.

(* ================================================================================================ *)
(* A. the key layout                                                                                *)
(* ================================================================================================ *)
Lemma pow_256_4 : 256 ^ N.of_nat 4 = 2 ^ 32.
Proof. reflexivity. Qed.

Lemma decode_parts : forall L nk pn sk, length L = 4%nat -> N.to_nat (be_decode L) = length nk ->
  rocks_decode (L ++ nk ++ [pn] ++ sk) = Some ((nk, pn), sk).
Proof.
  intros L nk pn sk HL Hlen. unfold rocks_decode.
  assert (slice_to 4 (L ++ nk ++ [pn] ++ sk) = Some L) as E1 by (rewrite <- HL; apply slice_to_app).
  rewrite E1, Hlen.
  assert (length (L ++ nk) = (4 + length nk)%nat) as LN by (rewrite app_length, HL; reflexivity).
  assert (slice_to (4 + length nk) (L ++ nk ++ [pn] ++ sk) = Some (L ++ nk)) as E2.
  { rewrite <- LN. rewrite (app_assoc L nk). apply slice_to_app. }
  rewrite E2.
  assert (index (4 + length nk) (L ++ nk ++ [pn] ++ sk) = Some pn) as E3.
  { unfold index. rewrite (app_assoc L nk). rewrite nth_error_app2 by (rewrite LN; apply le_n).
    rewrite LN, Nat.sub_diag. reflexivity. }
  rewrite E3.
  assert (slice_from (4 + length nk + 1) (L ++ nk ++ [pn] ++ sk) = Some sk) as E4.
  { replace (4 + length nk + 1)%nat with (length ((L ++ nk) ++ [pn])) by (rewrite app_length, LN; reflexivity).
    replace (L ++ nk ++ [pn] ++ sk) with (((L ++ nk) ++ [pn]) ++ sk) by (rewrite <- !app_assoc; reflexivity).
    apply slice_from_app. }
  rewrite E4. rewrite <- HL at 1. rewrite skipn_app, skipn_all, Nat.sub_diag. reflexivity.
Qed.
Lemma decode_encode : forall pk sk, pk_ok pk -> rocks_decode (enc pk sk) = Some (pk, sk).
Proof.
  intros [nk pn] sk OK. unfold pk_ok in OK. cbn [fst] in OK. unfold enc, enc_header. cbn [fst snd].
  rewrite <- !app_assoc. apply decode_parts; [apply be_encode_length|].
  rewrite be_decode_encode by (rewrite pow_256_4; exact OK). apply Nat2N.id.
Qed.

Lemma enc_inj : forall pk sk pk' sk', pk_ok pk -> pk_ok pk' -> enc pk sk = enc pk' sk' -> pk = pk' /\ sk = sk'.
Proof.
  intros pk sk pk' sk' O O' E. pose proof (decode_encode pk sk O) as D. rewrite E, (decode_encode pk' sk' O') in D.
  inversion D. split; reflexivity.
Qed.
Lemma enc_header_inj : forall pk pk', pk_ok pk -> pk_ok pk' -> enc_header pk = enc_header pk' -> pk = pk'.
Proof.
  intros pk pk' O O' E. apply (enc_inj pk [] pk' [] O O'). unfold enc. rewrite E. reflexivity.
Qed.

Definition hcmp (pk pk' : pkey) : comparison := bcmp (enc_header pk) (enc_header pk').

Lemma hcmp_eq : forall pk pk', pk_ok pk -> pk_ok pk' -> (hcmp pk pk' = Eq <-> pk = pk').
Proof.
  intros pk pk' O O'. unfold hcmp. rewrite bcmp_eq. split; [apply enc_header_inj; assumption|intros ->; reflexivity].
Qed.
Lemma hcmp_antisym : forall pk pk', hcmp pk' pk = CompOpp (hcmp pk pk').
Proof. intros. apply bcmp_antisym. Qed.

Lemma enc_header_length : forall pk, length (enc_header pk) = (4 + length (fst pk) + 1)%nat.
Proof. intros [nk pn]. unfold enc_header. cbn [fst snd]. rewrite !app_length, be_encode_length. cbn. lia. Qed.

(* across different partitions the headers alone decide, whatever the sort keys *)
Lemma enc_cmp_neq : forall pk pk' x y, pk_ok pk -> pk_ok pk' -> pk <> pk' ->
  bcmp (enc pk x) (enc pk' y) = hcmp pk pk' /\ hcmp pk pk' <> Eq.
Proof.
  intros pk pk' x y O O' NE.
  assert (hcmp pk pk' <> Eq) as HN by (intro C; apply (hcmp_eq _ _ O O') in C; contradiction).
  split; [|exact HN].
  destruct (Nat.eq_dec (length (fst pk)) (length (fst pk'))) as [EL|NL].
  - unfold enc. apply bcmp_app_decided; [|exact HN]. rewrite !enc_header_length, EL. reflexivity.
  - destruct pk as [nk pn], pk' as [nk' pn']. unfold pk_ok in O, O'. cbn [fst snd] in *.
    unfold hcmp, enc, enc_header. cbn [fst snd]. rewrite <- !app_assoc.
    assert (bcmp (be_encode 4 (N.of_nat (length nk))) (be_encode 4 (N.of_nat (length nk'))) <> Eq) as LN.
    { rewrite be_encode_cmp by (rewrite pow_256_4; assumption). intro C. apply N.compare_eq in C. apply Nat2N.inj in C. contradiction. }
    rewrite !bcmp_app_decided; try exact LN; try (rewrite !be_encode_length; reflexivity). reflexivity.
Qed.

(* comparison of two encoded keys: the partition headers decide first (independently of the sort
   keys), then the sort keys *)
Lemma enc_cmp : forall pk pk' x y, pk_ok pk -> pk_ok pk' ->
  bcmp (enc pk x) (enc pk' y) = match hcmp pk pk' with Eq => bcmp x y | c => c end.
Proof.
  intros pk pk' x y O O'. destruct (hcmp pk pk') eqn:H.
  - apply (hcmp_eq _ _ O O') in H. subst pk'. apply bcmp_app_l.
  - assert (pk <> pk') as NE by (intro C; apply (hcmp_eq _ _ O O') in C; congruence).
    destruct (enc_cmp_neq pk pk' x y O O' NE) as [E _]. congruence.
  - assert (pk <> pk') as NE by (intro C; apply (hcmp_eq _ _ O O') in C; congruence).
    destruct (enc_cmp_neq pk pk' x y O O' NE) as [E _]. congruence.
Qed.
Lemma enc_cmp_same : forall pk x y, bcmp (enc pk x) (enc pk y) = bcmp x y.
Proof. intros. apply bcmp_app_l. Qed.

Lemma pk_eqb_refl : forall pk, pk_eqb pk pk = true.
Proof. intro pk. apply pk_eqb_eq. reflexivity. Qed.
Lemma pk_eqb_neq : forall a b, pk_eqb a b = false <-> a <> b.
Proof.
  intros a b. split; [intros H C; apply pk_eqb_eq in C; congruence|].
  intro H. destruct (pk_eqb a b) eqn:E; [apply pk_eqb_eq in E; contradiction|reflexivity].
Qed.

Lemma keqb_enc : forall pk sk pk' sk', pk_ok pk -> pk_ok pk' ->
  keqb blt (enc pk' sk') (enc pk sk) = pk_eqb pk' pk && keqb blt sk' sk.
Proof.
  intros pk sk pk' sk' O O'. destruct (keqb blt (enc pk' sk') (enc pk sk)) eqn:E.
  - apply (keqb_eq _ BST) in E. apply enc_inj in E; try assumption. destruct E as [-> ->].
    rewrite pk_eqb_refl, (keqb_refl _ BST). reflexivity.
  - apply (keqb_neq _ BST) in E. destruct (pk_eqb pk' pk) eqn:P; [|reflexivity]. apply pk_eqb_eq in P. subst pk'.
    cbn [andb]. symmetry. apply (keqb_neq _ BST). intro C. subst. contradiction.
Qed.

(* the partition reset range [enc pk [], enc pk 0xFF^(2*MAX)) contains exactly the keys of
   partition pk whose sort key is below the bound *)
Lemma reset_range_covers : forall pk pk' sk', pk_ok pk -> pk_ok pk' ->
  in_range (enc pk []) (enc pk reset_upper) (enc pk' sk') = pk_eqb pk' pk && blt sk' reset_upper.
Proof.
  intros pk pk' sk' O O'. unfold in_range, ble, blt.
  destruct (pk_eqb pk' pk) eqn:P.
  - apply pk_eqb_eq in P. subst pk'. rewrite !enc_cmp_same. cbn [andb]. destruct sk'; reflexivity.
  - apply pk_eqb_neq in P. cbn [andb].
    destruct (enc_cmp_neq pk pk' [] sk' O O' (fun C => P (eq_sym C))) as [E1 N1].
    destruct (enc_cmp_neq pk' pk sk' reset_upper O' O P) as [E2 _].
    rewrite E1, E2, (hcmp_antisym pk pk'). destruct (hcmp pk pk'); try reflexivity; contradiction.
Qed.
Lemma sk_ok_below_bound : forall sk, sk_ok sk -> blt sk reset_upper = true.
Proof. intros sk [B L]. apply blt_repeat_max_short; assumption. Qed.

(* ================================================================================================ *)
(* B. what is assumed of RocksDB, and the simulation by the reference ordered map                   *)
(* ================================================================================================ *)
(* R s m: the store state s holds exactly the ordered content m *)
Record kv_spec {S : Type} (ops : kv_ops S) (R : S -> list (bytes * bytes) -> Prop) : Prop := {
  ks_empty : R (kv_empty ops) [];
  ks_get : forall s m k, R s m -> sorted blt m -> kv_get ops s k = lookup blt k m;
  ks_put : forall s m k v, R s m -> sorted blt m -> R (kv_put ops s k v) (insert blt k v m);
  ks_delete : forall s m k, R s m -> sorted blt m -> R (kv_delete ops s k) (remove blt k m);
  ks_delete_range : forall s m a b, R s m -> sorted blt m ->
    R (kv_delete_range ops s a b) (filter (fun e => negb (in_range a b (fst e))) m);
  ks_iter_from : forall s m k, R s m -> sorted blt m -> kv_iter_from ops s k = range_from blt k m;
  ks_iter_start : forall s m, R s m -> sorted blt m -> kv_iter_start ops s = m
}.

Lemma list_kv_spec : kv_spec list_kv (fun s m => s = m).
Proof. split; intros; subst; reflexivity. Qed.

Section Sim.
  Context {S : Type}.
  Variable ops : kv_ops S.
  Variable R : S -> list (bytes * bytes) -> Prop.
  Hypothesis SP : kv_spec ops R.

  Lemma sim_delta : forall l pk s m, R s m -> sorted blt m ->
    R (rocks_commit_part ops s pk (PDelta l)) (rocks_commit_part list_kv m pk (PDelta l)) /\
    sorted blt (rocks_commit_part list_kv m pk (PDelta l)).
  Proof.
    induction l as [|[k u] l IH]; intros pk s m H Sm; [split; assumption|].
    cbn [rocks_commit_part fold_left fst snd]. destruct u as [v|].
    - apply (IH pk); [apply (ks_put _ _ SP); assumption|apply (insert_sorted _ BST); exact Sm].
    - apply (IH pk); [apply (ks_delete _ _ SP); assumption|apply remove_sorted; exact Sm].
  Qed.
  Lemma sim_puts : forall (l : list (bytes * bytes)) pk s m, R s m -> sorted blt m ->
    R (fold_left (fun s e => kv_put ops s (enc pk (fst e)) (snd e)) l s)
      (fold_left (fun s e => kv_put list_kv s (enc pk (fst e)) (snd e)) l m) /\
    sorted blt (fold_left (fun s e => kv_put list_kv s (enc pk (fst e)) (snd e)) l m).
  Proof.
    induction l as [|[k v] l IH]; intros pk s m H Sm; [split; assumption|]. cbn [fold_left fst snd].
    apply IH; [apply (ks_put _ _ SP); assumption|apply (insert_sorted _ BST); exact Sm].
  Qed.
  Lemma sim_part : forall pu pk s m, R s m -> sorted blt m ->
    R (rocks_commit_part ops s pk pu) (rocks_commit_part list_kv m pk pu) /\
    sorted blt (rocks_commit_part list_kv m pk pu).
  Proof.
    intros [l|l] pk s m H Sm; [apply sim_delta; assumption|].
    cbn [rocks_commit_part]. apply sim_puts.
    - apply (ks_delete_range _ _ SP); assumption.
    - apply filter_sorted. exact Sm.
  Qed.
  Lemma sim_node : forall nu nk s m, R s m -> sorted blt m ->
    R (rocks_commit_node ops s nk nu) (rocks_commit_node list_kv m nk nu) /\
    sorted blt (rocks_commit_node list_kv m nk nu).
  Proof.
    induction nu as [|[pn pu] nu IH]; intros nk s m H Sm; [split; assumption|].
    unfold rocks_commit_node in *. cbn [fold_left fst snd].
    destruct (sim_part pu (nk, pn) s m H Sm) as [H' S']. apply IH; assumption.
  Qed.
  Lemma sim_commit : forall u s m, R s m -> sorted blt m ->
    R (rocks_commit ops s u) (rocks_commit list_kv m u) /\ sorted blt (rocks_commit list_kv m u).
  Proof.
    induction u as [|[nk nu] u IH]; intros s m H Sm; [split; assumption|].
    unfold rocks_commit in *. cbn [fold_left fst snd].
    destruct (sim_node nu nk s m H Sm) as [H' S']. apply IH; assumption.
  Qed.
  Lemma sim_run_gen : forall cs s m, R s m -> sorted blt m ->
    R (fold_left (rocks_commit ops) cs s) (fold_left (rocks_commit list_kv) cs m) /\
    sorted blt (fold_left (rocks_commit list_kv) cs m).
  Proof.
    induction cs as [|c cs IH]; intros s m H Sm; [split; assumption|]. cbn [fold_left].
    destruct (sim_commit c s m H Sm) as [H' S']. apply IH; assumption.
  Qed.
  Lemma sim_run : forall cs, R (rocks_run ops cs) (rocks_run list_kv cs) /\ sorted blt (rocks_run list_kv cs).
  Proof. intro cs. unfold rocks_run. apply sim_run_gen; [apply (ks_empty _ _ SP)|exact I]. Qed.

  (* reads of any store satisfying the assumption = reads of the reference map *)
  Lemma sim_get : forall s m pk sk, R s m -> sorted blt m -> rocks_get ops s pk sk = rocks_get list_kv m pk sk.
  Proof. intros. unfold rocks_get. rewrite (ks_get _ _ SP s m) by assumption. reflexivity. Qed.
  Lemma sim_list : forall s m pk from, R s m -> sorted blt m -> rocks_list ops s pk from = rocks_list list_kv m pk from.
  Proof. intros. unfold rocks_list. rewrite (ks_iter_from _ _ SP s m) by assumption. reflexivity. Qed.
  Lemma sim_parts : forall s m, R s m -> sorted blt m -> rocks_list_partition_keys ops s = rocks_list_partition_keys list_kv m.
  Proof. intros. unfold rocks_list_partition_keys. rewrite (ks_iter_start _ _ SP s m) by assumption. reflexivity. Qed.
End Sim.

(* ================================================================================================ *)
(* C. the reference map holds exactly the flattened in-memory database                              *)
(* ================================================================================================ *)
Definition db_keys_ok (db : memdb) : Prop :=
  forall pk sk v, mem_get db pk sk = Some v -> pk_ok pk /\ sk_ok sk.
Definition flat_ok (m : list (bytes * bytes)) (db : memdb) : Prop :=
  sorted blt m /\
  (forall pk sk, pk_ok pk -> lookup blt (enc pk sk) m = mem_get db pk sk) /\
  (forall k v, In (k, v) m -> exists pk sk, pk_ok pk /\ k = enc pk sk) /\
  db_keys_ok db /\ db_wf db.

Definition flat_step (pk : pkey) (m : list (bytes * bytes)) (e : bytes * db_update) : list (bytes * bytes) :=
  match snd e with USet v => insert blt (enc pk (fst e)) v m | UDelete => remove blt (enc pk (fst e)) m end.

Lemma flat_delta : forall l m pk, sorted blt m -> pk_ok pk ->
  let m' := fold_left (flat_step pk) l m in
  sorted blt m' /\
  (forall pk' sk', pk_ok pk' ->
     lookup blt (enc pk' sk') m' =
       if pk_eqb pk' pk then resolve (assoc_last blt sk' l None) (lookup blt (enc pk sk') m)
       else lookup blt (enc pk' sk') m) /\
  (forall k v, In (k, v) m' -> In (k, v) m \/ exists sk, k = enc pk sk).
Proof.
  intro l. induction l as [|[k u] l IH] using rev_ind; intros m pk Sm O; cbv zeta.
  - cbn [fold_left assoc_last resolve]. split; [exact Sm|]. split; [|intros; left; assumption].
    intros pk' sk' O'. destruct (pk_eqb pk' pk) eqn:P; [apply pk_eqb_eq in P; subst|]; reflexivity.
  - rewrite fold_left_app. cbn [fold_left]. destruct (IH m pk Sm O) as [S1 [L1 I1]].
    set (m1 := fold_left (flat_step pk) l m) in *. unfold flat_step. cbn [fst snd].
    split; [|split].
    + destruct u; [apply (insert_sorted _ BST)|apply remove_sorted]; exact S1.
    + intros pk' sk' O'. rewrite assoc_last_app. cbn [assoc_last].
      destruct u as [v|].
      * rewrite (lookup_insert _ BST) by exact S1. rewrite (keqb_enc pk k pk' sk' O O'). rewrite (L1 pk' sk' O').
        destruct (pk_eqb pk' pk); cbn [andb]; [|reflexivity]. destruct (keqb blt sk' k); reflexivity.
      * rewrite (lookup_remove _ BST) by exact S1. rewrite (keqb_enc pk k pk' sk' O O'). rewrite (L1 pk' sk' O').
        destruct (pk_eqb pk' pk); cbn [andb]; [|reflexivity]. destruct (keqb blt sk' k); reflexivity.
    + intros k' v' H. destruct u as [v|].
      * apply In_insert_inv in H. destruct H as [H|H]; [right; exists k; congruence|apply I1; exact H].
      * apply In_remove_inv in H. apply I1. exact H.
Qed.

Lemma flat_puts : forall (l : list (bytes * bytes)) m pk, sorted blt m -> pk_ok pk ->
  let m' := fold_left (fun s e => insert blt (enc pk (fst e)) (snd e) s) l m in
  sorted blt m' /\
  (forall pk' sk', pk_ok pk' ->
     lookup blt (enc pk' sk') m' =
       if pk_eqb pk' pk then assoc_last blt sk' l (lookup blt (enc pk sk') m)
       else lookup blt (enc pk' sk') m) /\
  (forall k v, In (k, v) m' -> In (k, v) m \/ exists sk, k = enc pk sk).
Proof.
  intro l. induction l as [|[k v0] l IH] using rev_ind; intros m pk Sm O; cbv zeta.
  - cbn [fold_left assoc_last]. split; [exact Sm|]. split; [|intros; left; assumption].
    intros pk' sk' O'. destruct (pk_eqb pk' pk) eqn:P; [apply pk_eqb_eq in P; subst|]; reflexivity.
  - rewrite fold_left_app. cbn [fold_left fst snd]. destruct (IH m pk Sm O) as [S1 [L1 I1]].
    set (m1 := fold_left (fun s e => insert blt (enc pk (fst e)) (snd e) s) l m) in *.
    split; [|split].
    + apply (insert_sorted _ BST). exact S1.
    + intros pk' sk' O'. rewrite assoc_last_app. cbn [assoc_last].
      rewrite (lookup_insert _ BST) by exact S1. rewrite (keqb_enc pk k pk' sk' O O'). rewrite (L1 pk' sk' O').
      destruct (pk_eqb pk' pk); cbn [andb]; [|reflexivity]. destruct (keqb blt sk' k); reflexivity.
    + intros k' v' H. apply In_insert_inv in H. destruct H as [H|H]; [right; exists k; congruence|apply I1; exact H].
Qed.

Lemma rocks_delta_fold : forall l m pk,
  rocks_commit_part list_kv m pk (PDelta l) = fold_left (flat_step pk) l m.
Proof.
  intros l m pk. cbn [rocks_commit_part]. revert m. induction l as [|[k u] l IH]; intro m; [reflexivity|].
  cbn [fold_left]. rewrite IH. unfold flat_step at 2. cbn [fst snd]. destruct u; reflexivity.
Qed.

Lemma resolve_some_cases : forall (sk : bytes) (l : list (bytes * db_update)) old v,
  resolve (assoc_last blt sk l None) old = Some v -> In (sk, USet v) l \/ old = Some v.
Proof.
  intros sk l old v H. destruct (assoc_last blt sk l None) as [[v'|]|] eqn:E; cbn [resolve] in H.
  - left. apply (assoc_last_In _ BST) in E. congruence.
  - discriminate.
  - right. exact H.
Qed.

Lemma mem_get_commit_part : forall db pk pu pk' sk', db_wf db ->
  mem_get (mem_commit_part db pk pu) pk' sk' =
    if pk_eqb pk' pk then lookup blt sk' (apply_part pu (part_of db pk)) else mem_get db pk' sk'.
Proof.
  intros. rewrite mem_get_part_of, part_of_commit_part by assumption.
  destruct (pk_eqb pk' pk); [reflexivity|]. symmetry. apply mem_get_part_of.
Qed.

Lemma flat_part : forall pu pk m db, flat_ok m db -> pk_ok pk -> part_updates_ok pu ->
  flat_ok (rocks_commit_part list_kv m pk pu) (mem_commit_part db pk pu).
Proof.
  intros pu pk m db [Sm [Lm [Im [Kd Wd]]]] O PO. destruct pu as [l|l].
  - (* Delta *)
    rewrite rocks_delta_fold. destruct (flat_delta l m pk Sm O) as [S1 [L1 I1]].
    split; [exact S1|]. split; [|split; [|split]].
    + intros pk' sk' O'. rewrite (L1 pk' sk' O'). rewrite mem_get_commit_part by exact Wd.
      destruct (pk_eqb pk' pk) eqn:P; [|apply Lm; exact O'].
      cbn [apply_part]. rewrite lookup_apply_delta by (apply part_of_sorted; exact Wd).
      rewrite <- mem_get_part_of. rewrite (Lm pk sk' O). reflexivity.
    + intros k v H. destruct (I1 k v H) as [G|[sk G]]; [apply Im in G; exact G|exists pk, sk; split; assumption].
    + intros pk' sk' v H. rewrite mem_get_commit_part in H by exact Wd.
      destruct (pk_eqb pk' pk) eqn:P; [|apply (Kd pk' sk' v H)].
      apply pk_eqb_eq in P. subst pk'. split; [exact O|].
      cbn [apply_part] in H. rewrite lookup_apply_delta in H by (apply part_of_sorted; exact Wd).
      apply resolve_some_cases in H. destruct H as [H|H].
      * cbn in PO. rewrite Forall_forall in PO. exact (PO _ H).
      * rewrite <- mem_get_part_of in H. apply (Kd pk sk' v H).
    + apply mem_commit_part_wf. exact Wd.
  - (* Reset *)
    cbn [rocks_commit_part list_kv kv_delete_range kv_put].
    set (m0 := filter (fun e => negb (in_range (enc pk []) (enc pk reset_upper) (fst e))) m).
    assert (sorted blt m0) as S0 by (apply filter_sorted; exact Sm).
    destruct (flat_puts l m0 pk S0 O) as [S1 [L1 I1]].
    assert (forall pk' sk', pk_ok pk' ->
              lookup blt (enc pk' sk') m0 = if pk_eqb pk' pk then None else lookup blt (enc pk' sk') m) as L0.
    { intros pk' sk' O'. unfold m0.
      rewrite (lookup_filter_key _ BST (fun k => negb (in_range (enc pk []) (enc pk reset_upper) k))).
      rewrite (reset_range_covers pk pk' sk' O O'). destruct (pk_eqb pk' pk) eqn:P; cbn [andb negb]; [|reflexivity].
      apply pk_eqb_eq in P. subst pk'. destruct (blt sk' reset_upper) eqn:B; cbn [negb]; [reflexivity|].
      rewrite (Lm pk sk' O). destruct (mem_get db pk sk') as [v|] eqn:G; [|reflexivity].
      destruct (Kd pk sk' v G) as [_ K]. rewrite (sk_ok_below_bound sk' K) in B. discriminate. }
    split; [exact S1|]. split; [|split; [|split]].
    + intros pk' sk' O'. rewrite (L1 pk' sk' O'). rewrite mem_get_commit_part by exact Wd.
      rewrite (L0 pk sk' O), pk_eqb_refl. destruct (pk_eqb pk' pk) eqn:P.
      * cbn [apply_part]. rewrite (lookup_of_list _ BST). reflexivity.
      * rewrite (L0 pk' sk' O'), P. apply Lm. exact O'.
    + intros k v H. destruct (I1 k v H) as [G|[sk G]]; [|exists pk, sk; split; assumption].
      unfold m0 in G. apply filter_In in G. destruct G as [G _]. apply Im in G. exact G.
    + intros pk' sk' v H. rewrite mem_get_commit_part in H by exact Wd.
      destruct (pk_eqb pk' pk) eqn:P; [|apply (Kd pk' sk' v H)].
      apply pk_eqb_eq in P. subst pk'. split; [exact O|].
      cbn [apply_part] in H. rewrite (lookup_of_list _ BST) in H. apply (assoc_last_In _ BST) in H.
      cbn in PO. rewrite Forall_forall in PO. exact (PO _ H).
    + apply mem_commit_part_wf. exact Wd.
Qed.

Lemma flat_node : forall nu nk m db, flat_ok m db ->
  Forall (fun e' : N * part_updates => pk_ok (nk, fst e') /\ part_updates_ok (snd e')) nu ->
  flat_ok (rocks_commit_node list_kv m nk nu) (mem_commit_node db nk nu).
Proof.
  induction nu as [|[pn pu] nu IH]; intros nk m db F U; [exact F|].
  inversion U as [|x l [O PO] U']; subst. unfold rocks_commit_node, mem_commit_node in *. cbn [fold_left fst snd] in *.
  apply IH; [|exact U']. apply flat_part; assumption.
Qed.
Lemma flat_commit : forall u m db, flat_ok m db -> updates_ok u ->
  flat_ok (rocks_commit list_kv m u) (mem_commit db u).
Proof.
  induction u as [|[nk nu] u IH]; intros m db F U; [exact F|].
  inversion U as [|x l Un U']; subst. unfold rocks_commit, mem_commit in *. cbn [fold_left fst snd] in *.
  apply IH; [|exact U']. apply flat_node; assumption.
Qed.
Lemma flat_nil : flat_ok [] mem_new.
Proof.
  split; [exact I|]. split; [reflexivity|]. split; [intros k v []|]. split; [|exact db_wf_nil].
  intros pk sk v H. discriminate.
Qed.
Lemma flat_run_gen : forall cs m db, flat_ok m db -> Forall updates_ok cs ->
  flat_ok (fold_left (rocks_commit list_kv) cs m) (fold_left mem_commit cs db).
Proof.
  induction cs as [|c cs IH]; intros m db F U; [exact F|]. inversion U; subst. cbn [fold_left].
  apply IH; [|assumption]. apply flat_commit; assumption.
Qed.
Lemma flat_run : forall cs, Forall updates_ok cs -> flat_ok (rocks_run list_kv cs) (apply_commits mem_new cs).
Proof. intros cs U. apply flat_run_gen; [exact flat_nil|exact U]. Qed.

(* ================================================================================================ *)
(* D. reads of the reference map = reads of the in-memory database                                  *)
(* ================================================================================================ *)
Lemma flat_get : forall m db pk sk, flat_ok m db -> pk_ok pk -> rocks_get list_kv m pk sk = mem_get db pk sk.
Proof. intros m db pk sk [_ [L _]] O. exact (L pk sk O). Qed.

Definition image_ok (items : list (bytes * bytes)) : Prop :=
  forall k v, In (k, v) items -> exists pk sk, pk_ok pk /\ k = enc pk sk.

Lemma scan_spec : forall items pk x0, pk_ok pk -> sorted blt items -> image_ok items ->
  (forall k v, In (k, v) items -> ble (enc pk x0) k = true) ->
  exists L, rocks_scan pk items = Some L /\ sorted blt L /\
            forall sk v, In (sk, v) L <-> In (enc pk sk, v) items.
Proof.
  induction items as [|[k v] r IH]; intros pk x0 O Si Im Lo.
  - exists []. split; [reflexivity|]. split; [exact I|]. intros; split; intros [].
  - destruct Si as [Lr Sr]. destruct (Im k v (or_introl eq_refl)) as [pk' [sk' [O' ->]]].
    cbn [rocks_scan]. rewrite (decode_encode pk' sk' O'). destruct (pk_eqb pk' pk) eqn:P.
    + apply pk_eqb_eq in P. subst pk'.
      destruct (IH pk x0 O Sr (fun k0 v0 H => Im k0 v0 (or_intror H)) (fun k0 v0 H => Lo k0 v0 (or_intror H))) as [L' [E [SL HL]]].
      exists ((sk', v) :: L'). rewrite E. split; [reflexivity|]. split.
      * split; [|exact SL]. apply Forall_forall. intros [s w] Hs. cbn [fst]. apply HL in Hs.
        unfold lt_all in Lr. rewrite Forall_forall in Lr. specialize (Lr _ Hs). cbn [fst] in Lr.
        unfold blt in *. rewrite enc_cmp_same in Lr. exact Lr.
      * intros sk v0. cbn [In]. rewrite HL. split; (intros [H|H]; [left|right; exact H]).
        -- congruence.
        -- pose proof (f_equal fst H) as H1; pose proof (f_equal snd H) as H2; cbn [fst snd] in H1, H2. apply enc_inj in H1; try assumption. destruct H1 as [_ ->]. subst. reflexivity.
    + apply pk_eqb_neq in P. exists []. split; [reflexivity|]. split; [exact I|].
      intros sk v0. split; [intros []|]. intros [H|H]; exfalso.
      * pose proof (f_equal fst H) as H1; cbn [fst] in H1. apply enc_inj in H1; try assumption. destruct H1 as [H1 _]. contradiction.
      * unfold lt_all in Lr. rewrite Forall_forall in Lr. specialize (Lr _ H). cbn [fst] in Lr.
        specialize (Lo _ _ (or_introl eq_refl)). unfold ble, blt in *.
        destruct (enc_cmp_neq pk pk' x0 sk' O O' (fun C => P (eq_sym C))) as [E1 N1].
        destruct (enc_cmp_neq pk' pk sk' sk O' O P) as [E2 _].
        rewrite E1 in Lo. rewrite E2, (hcmp_antisym pk pk') in Lr.
        destruct (hcmp pk pk'); cbn in *; try discriminate; contradiction.
Qed.

Lemma flat_list : forall m db pk from, flat_ok m db -> pk_ok pk ->
  rocks_list list_kv m pk from = Some (mem_list db pk from).
Proof.
  intros m db pk from [Sm [Lm [Im [Kd Wd]]]] O. unfold rocks_list. cbn [list_kv kv_iter_from].
  set (f := match from with Some f => f | None => [] end).
  destruct (scan_spec (range_from blt (enc pk f) m) pk f O) as [L [E [SL HL]]].
  - apply range_from_sorted. exact Sm.
  - intros k v H. apply (In_range_from _ BST) in H; [|exact Sm]. apply (Im k v). tauto.
  - intros k v H. apply (In_range_from _ BST) in H; [|exact Sm]. cbn [fst] in H. rewrite ble_negb_blt.
    destruct H as [_ H]. rewrite H. reflexivity.
  - rewrite E. f_equal. rewrite mem_list_part_of.
    pose proof (part_of_sorted db pk Wd) as Sp.
    apply (sorted_ext_In _ BST); [exact SL|destruct from; cbn [from_cursor]; [apply range_from_sorted|]; exact Sp|].
    intros [sk v]. rewrite HL. rewrite (In_range_from _ BST) by exact Sm. cbn [fst].
    rewrite (lookup_In _ BST) by exact Sm. rewrite (Lm pk sk O). rewrite mem_get_part_of.
    rewrite <- (lookup_In _ BST) by exact Sp. unfold blt at 1. rewrite enc_cmp_same. fold (blt sk f).
    destruct from as [f0|]; cbn [from_cursor]; subst f.
    + rewrite (In_range_from _ BST) by exact Sp. cbn [fst]. tauto.
    + assert (blt sk [] = false) as -> by (destruct sk; reflexivity). tauto.
Qed.

(* ---- partition sets ---- *)
Lemma In_dedup : forall l x, In x (dedup l) <-> In x l.
Proof.
  induction l as [|a r IH]; intro x; [tauto|]. cbn [dedup]. destruct r as [|b r'].
  - tauto.
  - destruct (pk_eqb a b) eqn:E.
    + apply pk_eqb_eq in E. subst b. rewrite IH. cbn [In]. tauto.
    + cbn [In]. rewrite IH. cbn [In]. tauto.
Qed.
Definition hle (a b : pkey) : Prop := a = b \/ hcmp a b = Lt.
Fixpoint wsorted (l : list pkey) : Prop :=
  match l with [] => True | x :: r => Forall (hle x) r /\ wsorted r end.
Lemma NoDup_dedup : forall l, wsorted l -> NoDup (dedup l).
Proof.
  induction l as [|a r IH]; intro W; [constructor|]. destruct W as [Fa Wr]. cbn [dedup].
  destruct r as [|b r']; [constructor; [intros []|constructor]|].
  destruct (pk_eqb a b) eqn:E; [apply IH; exact Wr|]. apply pk_eqb_neq in E.
  constructor; [|apply IH; exact Wr]. rewrite In_dedup. intro C.
  inversion Fa as [|x l Hab Far]; subst. destruct Hab as [Hab|Hab]; [contradiction|].
  destruct C as [C|C]; [congruence|]. destruct Wr as [Fb _]. rewrite Forall_forall in Fb.
  destruct (Fb _ C) as [G|G]; [congruence|]. rewrite (hcmp_antisym a b), Hab in G. discriminate.
Qed.

Lemma decode_all_spec : forall m, sorted blt m -> image_ok m ->
  exists l, decode_all m = Some l /\ wsorted l /\
            forall pk, In pk l <-> exists sk v, pk_ok pk /\ In (enc pk sk, v) m.
Proof.
  induction m as [|[k v] r IH]; intros Sm Im.
  - exists []. split; [reflexivity|]. split; [exact I|]. intro pk. split; [intros []|intros [sk [v [_ []]]]].
  - destruct Sm as [Lr Sr]. destruct (Im k v (or_introl eq_refl)) as [pk' [sk' [O' ->]]].
    destruct (IH Sr (fun k0 v0 H => Im k0 v0 (or_intror H))) as [l [E [W HL]]].
    exists (pk' :: l). cbn [decode_all]. rewrite (decode_encode pk' sk' O'), E. split; [reflexivity|]. split.
    + split; [|exact W]. apply Forall_forall. intros q Hq. apply HL in Hq. destruct Hq as [s [w [Oq Hq]]].
      unfold lt_all in Lr. rewrite Forall_forall in Lr. specialize (Lr _ Hq). cbn [fst] in Lr.
      unfold blt in Lr. rewrite (enc_cmp pk' q sk' s O' Oq) in Lr. unfold hle.
      destruct (hcmp pk' q) eqn:C; [left; apply (hcmp_eq _ _ O' Oq); exact C|right; reflexivity|discriminate].
    + intro pk. cbn [In]. rewrite HL. split.
      * intros [H|[s [w [Oq H]]]]; [subst; exists sk', v; split; [exact O'|left; reflexivity]|exists s, w; split; [exact Oq|right; exact H]].
      * intros [s [w [Oq [H|H]]]]; [left|right; exists s, w; split; assumption].
        pose proof (f_equal fst H) as H1; cbn [fst] in H1. apply enc_inj in H1; try assumption. destruct H1 as [H1 _]. exact H1.
Qed.

Lemma flat_parts : forall m db, flat_ok m db ->
  exists l, rocks_list_partition_keys list_kv m = Some l /\ NoDup l /\
            forall pk, In pk l <-> In pk (mem_list_partition_keys db).
Proof.
  intros m db [Sm [Lm [Im [Kd Wd]]]]. destruct (decode_all_spec m Sm Im) as [l [E [W HL]]].
  exists (dedup l). unfold rocks_list_partition_keys. cbn [list_kv kv_iter_start]. rewrite E. split; [reflexivity|].
  split; [apply NoDup_dedup; exact W|]. intro pk. rewrite In_dedup, HL. unfold mem_list_partition_keys.
  pose proof (db_wf_sorted db Wd) as Sd. split.
  - intros [sk [v [O H]]]. apply (lookup_In _ BST) in H; [|exact Sm]. rewrite (Lm pk sk O) in H.
    unfold mem_get in H. destruct (lookup pk_ltb pk db) as [p|] eqn:G; [|discriminate].
    apply (lookup_Some_In _ PST) in G. apply in_map_iff. exists (pk, p). split; [reflexivity|exact G].
  - intro H. apply in_map_iff in H. destruct H as [[pk0 p] [E0 H]]. cbn [fst] in E0. subst pk0.
    pose proof H as H'. apply (lookup_In _ PST) in H'; [|exact Sd].
    destruct (db_wf_part db pk p Wd H') as [Sp Np]. destruct p as [|[sk v] p']; [contradiction|].
    assert (mem_get db pk sk = Some v) as G.
    { unfold mem_get. rewrite H'. cbn [lookup]. rewrite (keqb_refl _ BST). reflexivity. }
    destruct (Kd pk sk v G) as [O _]. exists sk, v. split; [exact O|].
    apply (lookup_In _ BST); [exact Sm|]. rewrite (Lm pk sk O). exact G.
Qed.

(* ================================================================================================ *)
(* E. the refinement theorem                                                                        *)
(* ================================================================================================ *)
Theorem stores_refinement : forall (S : Type) (ops : kv_ops S) R, kv_spec ops R ->
  forall cs, Forall updates_ok cs ->
  let s := rocks_run ops cs in
  let db := apply_commits mem_new cs in
  (forall pk sk, pk_ok pk -> rocks_get ops s pk sk = mem_get db pk sk) /\
  (forall pk from, pk_ok pk -> rocks_list ops s pk from = Some (mem_list db pk from)) /\
  (exists l, rocks_list_partition_keys ops s = Some l /\ NoDup l /\
             forall pk, In pk l <-> In pk (mem_list_partition_keys db)).
Proof.
  intros S ops R SP cs U. cbv zeta. destruct (sim_run ops R SP cs) as [HR Sm].
  pose proof (flat_run cs U) as F. split; [|split].
  - intros pk sk O. rewrite (sim_get ops R SP _ _ pk sk HR Sm). apply flat_get; assumption.
  - intros pk from O. rewrite (sim_list ops R SP _ _ pk from HR Sm). apply flat_list; assumption.
  - rewrite (sim_parts ops R SP _ _ HR Sm). apply flat_parts. exact F.
Qed.
