(* checked_powi returns the exact power whenever it is representable: all exponents but i64::MIN *)
From Coq Require Import ZArith Znumtheory List Bool Lia.
Import ListNotations.
Require Import RV.Lib.DecCore RV.Lib.DecCoreFacts RV.Model.C25_Round RV.Model.C24_Dec RV.Model.C26_RootPow
  RV.Proof.C25_Round RV.Proof.C24_Dec RV.Proof.C26_Powi RV.Proof.C26_PowiMag RV.Proof.C26_Valuation RV.Proof.C26_PowiRep.
Open Scope Z_scope.

Section Rep2.
  Variable f : fmt.
  Hypothesis Hok : fmt_ok f.
  Hypothesis Hsq : one f * one f < 2 ^ (fbits f - 1).
  Local Notation ONE := (one f).
  Local Notation K := (2 ^ (fbits f - 1)).

  (* positive exponent: exact value q = a^e / ONE^(e-1) *)
  Theorem powi_exact_pos a e q : InF f a -> 1 <= e <= I64_MAX ->
    q * ONE ^ (e - 1) = a ^ e -> InF f q -> dec_powi f a e = Ok q.
  Proof.
    intros Ha He Hq Hqin. rewrite (powi_nonneg_step f Hok) by (try assumption; lia).
    apply (ppow_rep f Hok 65%nat); try assumption.
    unfold I64_MAX in He. change (2 ^ Z.of_nat 65) with (2 ^ 65). lia.
  Qed.

  (* negative exponent e = -n: exact value q = ONE^(n+1) / a^n *)
  Theorem powi_exact_neg a e q : InF f a -> a <> 0 -> I64_MIN < e < 0 ->
    q * a ^ (- e) = ONE ^ (- e + 1) -> InF f q -> dec_powi f a e = Ok q.
  Proof.
    intros Ha Ha0 He Hq Hqin. pose proof (one_pos f Hok) as H1. pose proof (scale_pos f Hok) as Hsc.
    set (n := - e) in *. assert (Hn : 1 <= n) by (unfold n; lia).
    rewrite (powi_neg_step f Hok) by (try assumption; lia).
    destruct (Z.eqb_spec a 0); [contradiction|].
    assert (Hdiv : (a ^ n | ONE ^ (n + 1))) by (exists q; lia).
    destruct (claimC (scale f) Hsc a n Ha0 Hn Hdiv) as [inv Hinv]. fold ONE in Hinv.
    assert (Hquot : Z.quot (ONE * ONE) a = inv) by (rewrite Hinv; apply Z.quot_mul; exact Ha0).
    rewrite Hquot.
    assert (Hinvin : InF f inv).
    { apply <- (InF_iff f).
      assert (Hab : Z.abs inv * Z.abs a = ONE * ONE) by (rewrite <- Z.abs_mul, <- Hinv, Z.abs_eq; nia).
      assert (Z.abs inv <= ONE * ONE) by nia. lia. }
    rewrite (exact_ok f inv Hinvin). cbn [bind].
    destruct (Z.eqb_spec e I64_MIN); [lia|].
    apply (ppow_rep f Hok 64%nat); try assumption.
    - unfold n, I64_MIN in *. change (2 ^ Z.of_nat 64) with (2 ^ 64). lia.
    - (* q ONE^(n-1) = inv^n *)
      assert (Han : a ^ n <> 0) by (apply Z.pow_nonzero; lia).
      apply (Z.mul_reg_r _ _ (a ^ n) Han). fold n.
      assert (EL : q * ONE ^ (n - 1) * a ^ n = ONE ^ (n + 1) * ONE ^ (n - 1)) by (rewrite <- Hq; ring).
      assert (ER : inv ^ n * a ^ n = (ONE * ONE) ^ n) by (rewrite <- Z.pow_mul_l, <- Hinv; reflexivity).
      rewrite EL, ER, <- Z.pow_add_r, <- pow_sq by lia. f_equal. lia.
  Qed.

  (* at exp = i64::MIN the exact power is representable only for the bases 1 and -1 *)
  Theorem powi_huge_representable_only_unit N a q : InF f a -> a <> 0 -> scale f < N -> fbits f <= N ->
    q * a ^ N = ONE ^ (N + 1) -> InF f q -> a = ONE \/ a = - ONE.
  Proof.
    intros Ha Ha0 Hs Hfb Hq Hqin. pose proof (one_pos f Hok) as H1. pose proof (scale_pos f Hok) as Hsc.
    pose proof (K_pos f Hok) as HK.
    assert (HN : 0 < N) by lia.
    assert (Hdiv : (a ^ N | ONE ^ (N + 1))) by (exists q; lia).
    destruct (claimD (scale f) Hsc a N Ha0 Hs Hdiv) as [t Ht]. fold ONE in Ht.
    assert (Ht0 : t <> 0) by (intros ->; lia).
    assert (Han : a ^ N <> 0) by (apply Z.pow_nonzero; lia).
    assert (Eq : q = ONE * t ^ N).
    { apply (Z.mul_reg_r _ _ (a ^ N) Han). rewrite Hq.
      replace (ONE * t ^ N * a ^ N) with (ONE * (t ^ N * a ^ N)) by ring. rewrite <- Z.pow_mul_l, <- Ht.
      replace (N + 1) with (Z.succ N) by lia. apply Z.pow_succ_r. lia. }
    destruct (Z_le_gt_dec 2 (Z.abs t)) as [Hbig|Hsmall].
    - exfalso. apply -> (InF_iff f) in Hqin.
      assert (H2N : 2 ^ N <= Z.abs t ^ N) by (apply Z.pow_le_mono_l; lia).
      assert (HKN : K < 2 ^ N) by (apply Z.pow_lt_mono_r; lia).
      assert (Habs : Z.abs q = ONE * Z.abs t ^ N).
      { rewrite Eq, Z.abs_mul, Z.abs_pow, (Z.abs_eq ONE) by lia. reflexivity. }
      assert (Hge : Z.abs t ^ N <= ONE * Z.abs t ^ N).
      { rewrite <- (Z.mul_1_l (Z.abs t ^ N)) at 1. apply Z.mul_le_mono_nonneg_r; [apply Z.pow_nonneg; lia|lia]. }
      lia.
    - assert (Ht1 : t = 1 \/ t = -1) by lia. destruct Ht1 as [-> | ->]; [left|right]; lia.
  Qed.
End Rep2.
