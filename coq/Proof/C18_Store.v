(* C18 — facts about the explicit node store (Model/C18_Store.v): insertion/removal, locality of
   subtree pruning, nodes untouched by a commit's store operations survive it; nodes inserted by a
   tier update carry the new version. *)
From Coq Require Import List NArith Bool Lia Arith.
Import ListNotations.
Require Import RV.Model.C17_Jmt RV.Model.C18_Store RV.Proof.C17_Base.
Open Scope N_scope.

Lemma skey_eqb_eq : forall a b, skey_eqb a b = true <-> a = b.
Proof.
  intros [v1 p1] [v2 p2]. unfold skey_eqb. cbn [fst snd]. rewrite andb_true_iff, N.eqb_eq, leqb_eq.
  split; [intros [E1 E2]; congruence|intro E; inversion E; auto].
Qed.
Lemma skey_eqb_refl : forall a, skey_eqb a a = true.
Proof. intro a. apply skey_eqb_eq. reflexivity. Qed.
Lemma skey_eqb_sym : forall a b, skey_eqb a b = skey_eqb b a.
Proof.
  intros a b. destruct (skey_eqb a b) eqn:E.
  - apply skey_eqb_eq in E. subst. symmetry. apply skey_eqb_refl.
  - symmetry. destruct (skey_eqb b a) eqn:E2; [apply skey_eqb_eq in E2; subst; rewrite skey_eqb_refl in E; discriminate|reflexivity].
Qed.
Lemma skey_eqb_neq : forall a b, skey_eqb a b = false <-> a <> b.
Proof.
  intros a b. split.
  - intros E C. apply skey_eqb_eq in C. congruence.
  - intro C. destruct (skey_eqb a b) eqn:E; [apply skey_eqb_eq in E; contradiction|reflexivity].
Qed.

Lemma st_get_insert : forall k k' n s,
  st_get k (st_insert k' n s) = if skey_eqb k k' then Some n else st_get k s.
Proof.
  intros k k' n s. induction s as [|[k2 n2] r IH]; cbn [st_insert st_get].
  - reflexivity.
  - destruct (skey_ltb k' k2); [reflexivity|]. destruct (skey_eqb k' k2) eqn:E2.
    + apply skey_eqb_eq in E2. subst k2. cbn [st_get]. destruct (skey_eqb k k'); reflexivity.
    + cbn [st_get]. rewrite IH. destruct (skey_eqb k k2) eqn:E3; [|reflexivity].
      apply skey_eqb_eq in E3. subst k2. destruct (skey_eqb k k') eqn:E4; [|reflexivity].
      apply skey_eqb_eq in E4. subst k'. rewrite skey_eqb_refl in E2. discriminate.
Qed.

Lemma st_get_remove : forall k k' s,
  st_get k (st_remove k' s) = if skey_eqb k' k then None else st_get k s.
Proof.
  intros k k' s. unfold st_remove. induction s as [|[k2 n2] r IH]; cbn [filter st_get fst].
  - destruct (skey_eqb k' k); reflexivity.
  - destruct (skey_eqb k' k2) eqn:E2; cbn [negb].
    + rewrite IH. apply skey_eqb_eq in E2. subst k2. destruct (skey_eqb k' k) eqn:E3; [reflexivity|].
      destruct (skey_eqb k k') eqn:E4; [apply skey_eqb_eq in E4; subst; rewrite skey_eqb_refl in E3; discriminate|reflexivity].
    + cbn [st_get]. destruct (skey_eqb k k2) eqn:E3.
      * apply skey_eqb_eq in E3. subst k2. rewrite E2. reflexivity.
      * exact IH.
Qed.

Definition path_prefix (p q : list N) : Prop := exists r, q = p ++ r.

(* pruning the subtree rooted at path p0 only touches keys whose path extends p0 *)
Lemma prune_subtree_local : forall p0 fuel queue s s',
  Forall (fun k => path_prefix p0 (snd k)) queue ->
  prune_subtree fuel queue s = Ok s' ->
  forall k, ~ path_prefix p0 (snd k) -> st_get k s' = st_get k s.
Proof.
  intros p0 fuel. induction fuel as [|f IH]; intros queue s s' Q E k Hk.
  - destruct queue; cbn in E; [inversion E; reflexivity|discriminate].
  - destruct queue as [|k0 q]; cbn [prune_subtree] in E; [inversion E; reflexivity|].
    inversion Q as [|? ? Q0 Qr]; subst.
    destruct (st_get k0 s) as [n|] eqn:Eg.
    + assert (Q' : Forall (fun k => path_prefix p0 (snd k)) (q ++ child_keys k0 n)).
      { apply Forall_app. split; [exact Qr|]. unfold child_keys. destruct n as [| |cs]; try constructor.
        rewrite Forall_forall. intros x Hx. apply in_map_iff in Hx. destruct Hx as ([[[nib ver] h] l] & Ex & _).
        subst x. cbn [snd]. destruct Q0 as [r Er]. exists (r ++ [nib]). rewrite Er, app_assoc. reflexivity. }
      rewrite (IH _ _ _ Q' E k Hk). rewrite st_get_remove. destruct (skey_eqb k0 k) eqn:E0; [|reflexivity].
      apply skey_eqb_eq in E0. subst k0. contradiction.
    + apply (IH _ _ _ Qr E k Hk).
Qed.

(* the fuel of the model is enough: pruning never runs out of fuel *)
Lemma remove_weight : forall k s n, st_get k s = Some n ->
  (store_weight (st_remove k s) + node_weight n <= store_weight s)%nat.
Proof.
  intros k s. unfold st_remove. induction s as [|[k2 n2] r IH]; intros n E; cbn [st_get] in E; [discriminate|].
  cbn [filter fst store_weight fold_right snd]. rewrite (skey_eqb_sym k k2).
  destruct (skey_eqb k2 k) eqn:E2.
  - rewrite skey_eqb_sym in E2. rewrite E2 in E. inversion E; subst. cbn [negb].
    assert (L : (store_weight (filter (fun e => negb (skey_eqb k (fst e))) r) <= store_weight r)%nat).
    { clear. induction r as [|e r IHr]; [cbn; lia|]. cbn [filter store_weight fold_right].
      destruct (negb (skey_eqb k (fst e))); cbn [store_weight fold_right] in *; unfold store_weight in *; lia. }
    unfold store_weight in *. lia.
  - rewrite skey_eqb_sym in E2. rewrite E2 in E. cbn [negb store_weight fold_right snd]. specialize (IH n E). unfold store_weight in *. lia.
Qed.

Lemma prune_subtree_fuel : forall fuel queue s, (length queue + store_weight s <= fuel)%nat ->
  exists s', prune_subtree fuel queue s = Ok s'.
Proof.
  induction fuel as [|f IH]; intros queue s L.
  - destruct queue; [exists s; reflexivity|cbn in L; lia].
  - destruct queue as [|k q]; [exists s; reflexivity|]. cbn [prune_subtree].
    destruct (st_get k s) as [n|] eqn:Eg.
    + apply IH. pose proof (remove_weight k s n Eg) as W. rewrite app_length.
      assert (Lc : (length (child_keys k n) < node_weight n)%nat).
      { unfold child_keys, node_weight. destruct n; cbn; try lia. rewrite map_length. lia. }
      cbn in L. lia.
    + apply IH. cbn in L. lia.
Qed.
Lemma prune_subtree_fuel_ok : forall v p s, exists s', prune_subtree (prune_fuel s) [(v, p)] s = Ok s'.
Proof. intros. apply prune_subtree_fuel. unfold prune_fuel. cbn. lia. Qed.

(* a stale part "hits" a key *)
Definition hits (part : stale_part) (k : skey) : Prop :=
  match part with
  | StaleNode v p => k = (v, p)
  | StaleSubtree _ p => path_prefix p (snd k)
  end.

(* a node that no operation of the commit inserts or hits is still stored, unchanged, afterwards
   (pruning enabled or not) *)
Theorem untouched_nodes_survive : forall ops t t',
  apply_ops t ops = Ok t' ->
  forall k, (forall op, In op ops -> match op with
                                   | OpInsert v p _ => k <> (v, p)
                                   | OpStale part => ~ hits part k end) ->
  st_get k (ts_nodes t') = st_get k (ts_nodes t).
Proof.
  induction ops as [|op ops IH]; intros t t' E k Hk; cbn [apply_ops] in E.
  - inversion E. reflexivity.
  - destruct (apply_op t op) as [t1| |] eqn:E1; try discriminate.
    rewrite (IH _ _ E k (fun o Ho => Hk o (or_intror Ho))).
    pose proof (Hk op (or_introl eq_refl)) as H0. destruct op as [v p n|part]; cbn [apply_op] in E1.
    + inversion E1; subst. cbn [ts_nodes]. rewrite st_get_insert.
      destruct (skey_eqb k (v, p)) eqn:E0; [apply skey_eqb_eq in E0; contradiction|reflexivity].
    + destruct (ts_pruning t).
      * destruct part as [v p|v p]; cbn [hits] in H0.
        -- inversion E1; subst. cbn [ts_nodes]. rewrite st_get_remove.
           destruct (skey_eqb (v, p) k) eqn:E0; [apply skey_eqb_eq in E0; symmetry in E0; contradiction|reflexivity].
        -- destruct (prune_subtree (prune_fuel (ts_nodes t)) [(v, p)] (ts_nodes t)) as [s1| |] eqn:E2; try discriminate.
           inversion E1; subst. cbn [ts_nodes].
           assert (Q : Forall (fun k0 : skey => path_prefix p (snd k0)) [(v, p)]).
           { constructor; [exists []; cbn [snd]; rewrite app_nil_r; reflexivity|constructor]. }
           apply (prune_subtree_local p _ _ _ _ Q E2 k H0).
      * inversion E1; subst. reflexivity.
Qed.

(* with pruning disabled nothing is ever removed and stale parts are only recorded *)
Theorem no_pruning_keeps_everything : forall ops t t',
  ts_pruning t = false -> apply_ops t ops = Ok t' ->
  ts_pruning t' = false /\
  forall k n, st_get k (ts_nodes t) = Some n ->
              (forall v p n', In (OpInsert v p n') ops -> k <> (v, p)) -> st_get k (ts_nodes t') = Some n.
Proof.
  induction ops as [|op ops IH]; intros t t' P E; cbn [apply_ops] in E.
  - inversion E; subst. split; [exact P|]. intros; assumption.
  - destruct (apply_op t op) as [t1| |] eqn:E1; try discriminate.
    assert (P1 : ts_pruning t1 = false /\ forall k n, st_get k (ts_nodes t) = Some n ->
                   (forall v p n', op = OpInsert v p n' -> k <> (v, p)) -> st_get k (ts_nodes t1) = Some n).
    { destruct op as [v p n0|part]; cbn [apply_op] in E1.
      - inversion E1; subst. cbn [ts_pruning ts_nodes]. split; [exact P|]. intros k n G Hn.
        rewrite st_get_insert. destruct (skey_eqb k (v, p)) eqn:E0; [apply skey_eqb_eq in E0; exfalso; apply (Hn v p n0 eq_refl); exact E0|exact G].
      - rewrite P in E1. inversion E1; subst. cbn. split; [reflexivity|]. intros; assumption. }
    destruct P1 as [P1 K1]. destruct (IH _ _ P1 E) as [P2 K2]. split; [exact P2|].
    intros k n G Hn. apply K2; [apply K1; [exact G|]|].
    + intros v p n' Eop. apply (Hn v p n'). left. exact Eop.
    + intros v p n' Hin. apply (Hn v p n'). right. exact Hin.
Qed.

(* nodes written by a tier update carry the new version (apply_tier_update_batch) *)
Theorem tier_inserts_fresh : forall A prefix ver (lg : log A) v p n,
  In (OpInsert v p n) (ops_of_log prefix ver lg) -> v = ver.
Proof.
  intros A prefix ver lg v p n Hin. unfold ops_of_log in Hin. apply in_app_or in Hin. destruct Hin as [Hin|Hin].
  - apply in_map_iff in Hin. destruct Hin as (x & E & _). inversion E. reflexivity.
  - apply in_map_iff in Hin. destruct Hin as (x & E & _). discriminate.
Qed.
