(* part 2: the signed integer parser and FromStr *)
From Coq Require Import ZArith NArith List Bool Lia.
Import ListNotations.
Require Import RV.Lib.DecCore RV.Lib.DecCoreFacts RV.Model.C27_DecText RV.Proof.C27_Uint.
Open Scope Z_scope.

Definition sval (neg : bool) (u : Z) : Z := if neg then - u else u.

Section SInt.
  Variable bits : Z.
  Hypothesis Hb1 : 1 <= bits.
  Hypothesis Hbits : 10 ^ 19 <= 2 ^ bits.
  Let SB := 2 ^ (bits - 1).
  Lemma B_SB : 2 ^ bits = 2 * SB. Proof. apply pow2_split. exact Hb1. Qed.
  Lemma SB_pos : 0 < SB. Proof. apply pow2_pos. lia. Qed.

  Lemma in_SI_iff v : in_ity (SI bits) v = true <-> - SB <= v <= SB - 1.
  Proof. rewrite in_ity_iff. apply InTy_SI. Qed.

  (* digits after an optional sign: value with the signed range test *)
  Lemma int_from_str_ok s :
    let '(neg, body) := strip_sign s in
    nonempty body = true -> all_digits body = true ->
    int_from_str bits s = if in_ity (SI bits) (sval neg (dval body)) then Ok (sval neg (dval body)) else Err EOverflow.
  Proof.
    pose proof B_SB as HB. pose proof SB_pos as HS.
    assert (Hpos : forall body, body <> [] -> all_digits body = true ->
      (let* u := parse_uint bits body in
       if 2 ^ (bits - 1) <=? u then Err EOverflow else Ok u) =
      if in_ity (SI bits) (dval body) then Ok (dval body) else Err EOverflow).
    { intros body Hne Hall. rewrite parse_uint_digits by assumption.
      destruct (horner_digits body 0 Hall) as [_ [Hd0 _]]. fold SB.
      destruct (in_ity (SI bits) (dval body)) eqn:Hin.
      - apply in_SI_iff in Hin. destruct (Z.ltb_spec (dval body) (2 ^ bits)); [|lia]. cbn [bind].
        destruct (Z.leb_spec SB (dval body)); [lia|reflexivity].
      - destruct (Z.ltb_spec (dval body) (2 ^ bits)); [|reflexivity]. cbn [bind].
        destruct (Z.leb_spec SB (dval body)); [reflexivity|].
        assert (in_ity (SI bits) (dval body) = true) by (apply in_SI_iff; lia). congruence. }
    assert (Hneg : forall body, body <> [] -> all_digits body = true ->
      (let* u := parse_uint bits body in
       if (2 ^ (bits - 1) <=? u) && negb (u =? 2 ^ (bits - 1)) then Err EOverflow else Ok (- u)) =
      if in_ity (SI bits) (- dval body) then Ok (- dval body) else Err EOverflow).
    { intros body Hne Hall. rewrite parse_uint_digits by assumption.
      destruct (horner_digits body 0 Hall) as [_ [Hd0 _]]. fold SB.
      destruct (in_ity (SI bits) (- dval body)) eqn:Hin.
      - apply in_SI_iff in Hin. destruct (Z.ltb_spec (dval body) (2 ^ bits)); [|lia]. cbn [bind].
        destruct (Z.leb_spec SB (dval body)); cbn [andb]; [|reflexivity].
        destruct (Z.eqb_spec (dval body) SB); cbn [negb]; [reflexivity|lia].
      - destruct (Z.ltb_spec (dval body) (2 ^ bits)); [|reflexivity]. cbn [bind].
        destruct (Z.leb_spec SB (dval body)); cbn [andb].
        + destruct (Z.eqb_spec (dval body) SB); cbn [negb]; [|reflexivity].
          assert (in_ity (SI bits) (- dval body) = true) by (apply in_SI_iff; lia). congruence.
        + assert (in_ity (SI bits) (- dval body) = true) by (apply in_SI_iff; lia). congruence. }
    destruct s as [|c rest]; [cbn; discriminate|].
    unfold strip_sign. destruct (N.eqb_spec c ch_minus) as [Em|Em].
    - intros Hne Hall. assert (Hr : rest <> []) by (destruct rest; [discriminate|congruence]).
      unfold int_from_str. rewrite Em. change (ch_minus =? ch_minus)%N with true. cbn [orb andb].
      destruct rest as [|r0 rr]; [congruence|]. cbv iota. unfold sval. apply Hneg; assumption.
    - destruct (N.eqb_spec c ch_plus) as [Ep|Ep].
      + intros Hne Hall. assert (Hr : rest <> []) by (destruct rest; [discriminate|congruence]).
        unfold int_from_str. rewrite Ep. change (ch_plus =? ch_minus)%N with false.
        change (ch_plus =? ch_plus)%N with true. cbn [orb andb].
        destruct rest as [|r0 rr]; [congruence|]. cbv iota. unfold sval. apply Hpos; assumption.
      + intros Hne Hall. unfold int_from_str.
        rewrite (proj2 (N.eqb_neq c ch_minus) Em), (proj2 (N.eqb_neq c ch_plus) Ep). cbn [orb andb].
        unfold sval. apply Hpos; [discriminate|assumption].
  Qed.

  (* anything else is rejected with an error (never accepted, never a panic) *)
  Lemma int_from_str_bad s :
    let '(neg, body) := strip_sign s in
    nonempty body && all_digits body = false ->
    exists e, int_from_str bits s = Err e.
  Proof.
    assert (Hbad : forall body (k : Z -> res Z), all_digits body = false ->
      exists e, (let* u := parse_uint bits body in k u) = Err e).
    { intros body k Hall. destruct (parse_uint_bad bits body Hall) as [E|E]; rewrite E; cbn [bind]; eauto. }
    destruct s as [|c rest]; [cbn; eauto|].
    unfold strip_sign. destruct (N.eqb_spec c ch_minus) as [Em|Em].
    - intros H. unfold int_from_str. rewrite Em. change (ch_minus =? ch_minus)%N with true. cbn [orb andb].
      destruct rest as [|r0 rr]; [eauto|]. cbv iota. cbn [nonempty andb] in H. apply Hbad. exact H.
    - destruct (N.eqb_spec c ch_plus) as [Ep|Ep].
      + intros H. unfold int_from_str. rewrite Ep. change (ch_plus =? ch_minus)%N with false.
        change (ch_plus =? ch_plus)%N with true. cbn [orb andb].
        destruct rest as [|r0 rr]; [eauto|]. cbv iota. cbn [nonempty andb] in H. apply Hbad. exact H.
      + intros H. unfold int_from_str.
        rewrite (proj2 (N.eqb_neq c ch_minus) Em), (proj2 (N.eqb_neq c ch_plus) Ep). cbn [orb andb].
        cbn [nonempty andb] in H. apply Hbad. exact H.
  Qed.
End SInt.
