(* C08 — declarative semantics of access rules and proofs that the implementation-shaped
   evaluator of Model/C08_Auth.v decides it. *)
From Coq Require Import List ZArith NArith Bool Lia.
Import ListNotations.
Require Import RV.Model.C08_Auth.
Open Scope N_scope.

(* ---------------------------------------------------------------------------------------- *)
(* Declarative semantics                                                                      *)
(* ---------------------------------------------------------------------------------------- *)
(* the zones whose content counts for a check started from `a`: the local implicit badges (as a
   zone with only implicit non-fungible proofs), the global caller's chain, the parent chain *)
Definition visible (a : azone) : list zdata :=
  (match local_implicit a with [] => [] | li => [{| z_proofs := []; z_vres := []; z_vnf := li |}] end)
  ++ (match az_gc a with Some (_, _, c) => c | None => [] end) ++ az_parent a.

Definition ProofMatches (x : ron) (p : proof) : Prop :=
  match x with
  | RNF g => p_res p = fst g /\ In (snd g) (p_ids p)
  | RRes r => p_res p = r
  end.
(* some visible zone shows the badge: an implicit non-fungible proof, a simulated resource
   (non-fungible requirements only), or a real proof of the resource (containing the id) *)
Definition HasBadge (V : list zdata) (x : ron) : Prop :=
  exists z, In z V /\
    ((exists g, x = RNF g /\ (In g (z_vnf z) \/ In (fst g) (z_vres z))) \/
     (exists p, In p (z_proofs z) /\ ProofMatches x p)).
(* some single visible proof of the resource has at least the amount *)
Definition HasAmount (V : list zdata) (r : N) (amt : Z) : Prop :=
  exists z p, In z V /\ In p (z_proofs z) /\ p_res p = r /\ (amt <= p_amt p)%Z.

(* at least n positions of the list satisfy P *)
Inductive AtLeast (P : ron -> Prop) : nat -> list ron -> Prop :=
| AL_zero : forall l, AtLeast P 0 l
| AL_skip : forall n x t, AtLeast P n t -> AtLeast P n (x :: t)
| AL_take : forall n x t, P x -> AtLeast P n t -> AtLeast P (S n) (x :: t).

Definition SatB (V : list zdata) (b : basic) : Prop :=
  match b with
  | Require x => HasBadge V x
  | AmountOf amt r => HasAmount V r amt
  | AllOf l => Forall (HasBadge V) l
  | AnyOf l => Exists (HasBadge V) l
  | CountOf n l => AtLeast (HasBadge V) (N.to_nat n) l
  end.
Fixpoint SatC (V : list zdata) (c : comp) : Prop :=
  match c with
  | Basic b => SatB V b
  | CAnyOf l => (fix any (l : list comp) : Prop := match l with [] => False | x :: t => SatC V x \/ any t end) l
  | CAllOf l => (fix all (l : list comp) : Prop := match l with [] => True | x :: t => SatC V x /\ all t end) l
  end.
Definition Sat (V : list zdata) (r : rule) : Prop :=
  match r with AllowAll => True | DenyAll => False | Protected c => SatC V c end.

(* induction principle for the nested type *)
Section CompInd.
  Variable P : comp -> Prop.
  Hypothesis HB : forall b, P (Basic b).
  Hypothesis HAny : forall l, Forall P l -> P (CAnyOf l).
  Hypothesis HAll : forall l, Forall P l -> P (CAllOf l).
  Fixpoint comp_ind' (c : comp) : P c :=
    match c with
    | Basic b => HB b
    | CAnyOf l => HAny l ((fix go (l : list comp) : Forall P l :=
                             match l with [] => Forall_nil P | x :: t => Forall_cons x (comp_ind' x) (go t) end) l)
    | CAllOf l => HAll l ((fix go (l : list comp) : Forall P l :=
                             match l with [] => Forall_nil P | x :: t => Forall_cons x (comp_ind' x) (go t) end) l)
    end.
End CompInd.

(* ---------------------------------------------------------------------------------------- *)
(* membership lemmas                                                                          *)
(* ---------------------------------------------------------------------------------------- *)
Lemma memN_In : forall x l, memN x l = true <-> In x l.
Proof.
  induction l as [|y t IH]; cbn [memN In]; [split; [discriminate|tauto]|].
  rewrite orb_true_iff, IH, N.eqb_eq. tauto.
Qed.
Lemma gid_eqb_eq : forall a b, gid_eqb a b = true <-> a = b.
Proof.
  intros [a1 a2] [b1 b2]. unfold gid_eqb. cbn [fst snd]. rewrite andb_true_iff, !N.eqb_eq.
  split; [intros [-> ->]; reflexivity|intros H; injection H; auto].
Qed.
Lemma memG_In : forall x l, memG x l = true <-> In x l.
Proof.
  induction l as [|y t IH]; cbn [memG In]; [split; [discriminate|tauto]|].
  rewrite orb_true_iff, IH, gid_eqb_eq. tauto.
Qed.
Lemma proof_matches_iff : forall x p, proof_matches x p = true <-> ProofMatches x p.
Proof.
  intros [g|r] p; cbn [proof_matches ProofMatches].
  - rewrite andb_true_iff, N.eqb_eq, memN_In. tauto.
  - apply N.eqb_eq.
Qed.

(* ---------------------------------------------------------------------------------------- *)
(* zone traversal = exists over the visible zones                                             *)
(* ---------------------------------------------------------------------------------------- *)
Lemma stack_matches_visible : forall a check, stack_matches a check = existsb check (visible a).
Proof.
  intros a check. unfold stack_matches, visible, chain_matches.
  destruct (local_implicit a) as [|g li]; cbn [app andb].
  - rewrite existsb_app. destruct (az_gc a) as [[[g b] c]|]; cbn [existsb orb].
    + destruct (existsb check c); [reflexivity|]. destruct (az_parent a); reflexivity.
    + destruct (az_parent a); reflexivity.
  - cbn [existsb]. destruct (check {| z_proofs := []; z_vres := []; z_vnf := g :: li |}); cbn [orb]; [reflexivity|].
    rewrite existsb_app. destruct (az_gc a) as [[[g' b] c]|]; cbn [existsb orb].
    + destruct (existsb check c); [reflexivity|]. destruct (az_parent a); reflexivity.
    + destruct (az_parent a); reflexivity.
Qed.

Lemma zone_matches_rule_iff : forall x z, zone_matches_rule x z = true <->
  ((exists g, x = RNF g /\ (In g (z_vnf z) \/ In (fst g) (z_vres z))) \/
   (exists p, In p (z_proofs z) /\ ProofMatches x p)).
Proof.
  intros x z. unfold zone_matches_rule. rewrite orb_true_iff, existsb_exists.
  split.
  - intros [H|[p [Hp Hm]]].
    + left. destruct x as [g|r]; [|discriminate]. exists g. split; [reflexivity|].
      apply orb_true_iff in H. rewrite memG_In, memN_In in H. exact H.
    + right. exists p. split; [assumption|apply proof_matches_iff, Hm].
  - intros [[g [-> H]]|[p [Hp Hm]]].
    + left. apply orb_true_iff. rewrite memG_In, memN_In. exact H.
    + right. exists p. split; [assumption|apply proof_matches_iff, Hm].
Qed.

Lemma stack_matches_rule_iff : forall a x, stack_matches_rule a x = true <-> HasBadge (visible a) x.
Proof.
  intros a x. unfold stack_matches_rule, HasBadge. rewrite stack_matches_visible, existsb_exists.
  split; intros [z [Hz H]]; exists z; (split; [assumption|]); apply zone_matches_rule_iff, H.
Qed.
Lemma stack_has_amount_iff : forall a r amt, stack_has_amount a r amt = true <-> HasAmount (visible a) r amt.
Proof.
  intros a r amt. unfold stack_has_amount, HasAmount, zone_has_amount. rewrite stack_matches_visible, existsb_exists.
  split.
  - intros [z [Hz H]]. apply existsb_exists in H. destruct H as [p [Hp H]].
    apply andb_true_iff in H. destruct H as [H1 H2]. cbn [proof_matches] in H1.
    apply N.eqb_eq in H1. apply Z.leb_le in H2. exists z, p. auto.
  - intros [z [p (Hz & Hp & Hr & Ha)]]. exists z. split; [assumption|]. apply existsb_exists. exists p.
    split; [assumption|]. apply andb_true_iff. cbn [proof_matches]. split; [apply N.eqb_eq, Hr|apply Z.leb_le, Ha].
Qed.

(* ---------------------------------------------------------------------------------------- *)
(* CountOf                                                                                     *)
(* ---------------------------------------------------------------------------------------- *)
Lemma atleast_weaken : forall P n l, AtLeast P (S n) l -> AtLeast P n l.
Proof.
  intros P n l H. remember (S n) as m eqn:E. revert n E.
  induction H as [l|m x t H IH|m x t Hx H IH]; intros n E; [discriminate| |].
  - apply AL_skip, IH, E.
  - injection E as ->. apply AL_skip, H.
Qed.
Lemma atleast_mono : forall (P Q : ron -> Prop) n l, (forall x, P x -> Q x) -> AtLeast P n l -> AtLeast Q n l.
Proof. intros P Q n l HPQ H. induction H; [apply AL_zero|apply AL_skip; assumption|apply AL_take; auto]. Qed.

Lemma count_loop_iff : forall a l n, 0 < n ->
  (count_loop a n l = true <-> AtLeast (fun x => stack_matches_rule a x = true) (N.to_nat n) l).
Proof.
  intros a. induction l as [|x t IH]; intros n Hn; cbn [count_loop].
  - split; [discriminate|]. intros H. inversion H as [l E| |]; lia.
  - destruct (stack_matches_rule a x) eqn:Ex.
    + destruct (N.eqb_spec (n - 1) 0) as [Hz|Hnz].
      * split; [intros _|reflexivity]. replace (N.to_nat n) with 1%nat by lia. apply AL_take; [exact Ex|apply AL_zero].
      * rewrite IH by lia. replace (N.to_nat n) with (S (N.to_nat (n - 1))) by lia. split.
        -- intros H. apply AL_take; assumption.
        -- intros H. inversion H as [| ? ? ? H1 | ? ? ? _ H1]; subst; [apply atleast_weaken, H1|exact H1].
    + rewrite IH by lia. split; [apply AL_skip|].
      intros H. inversion H as [l E | ? ? ? H1 | ? ? ? Hx H1]; subst; [lia|exact H1|congruence].
Qed.

(* ---------------------------------------------------------------------------------------- *)
(* verify decides Sat                                                                          *)
(* ---------------------------------------------------------------------------------------- *)
Lemma verify_basic_iff : forall a b, verify_basic a b = true <-> SatB (visible a) b.
Proof.
  intros a [x|amt r|n l|l|l]; cbn [verify_basic SatB].
  - apply stack_matches_rule_iff.
  - apply stack_has_amount_iff.
  - destruct (N.eqb_spec n 0) as [->|Hn].
    + split; [intros _; apply AL_zero|reflexivity].
    + rewrite count_loop_iff by lia. split; apply atleast_mono; intros x; apply stack_matches_rule_iff.
  - rewrite forallb_forall, Forall_forall. split; intros H x Hx; apply stack_matches_rule_iff, H, Hx.
  - rewrite existsb_exists, Exists_exists. split; intros [x [Hx H]]; exists x; (split; [assumption|]); apply stack_matches_rule_iff, H.
Qed.

Lemma verify_comp_iff : forall a c, verify_comp a c = true <-> SatC (visible a) c.
Proof.
  intros a c. induction c as [b|l IH|l IH] using comp_ind'; cbn [verify_comp SatC].
  - apply verify_basic_iff.
  - induction IH as [|x t Hx _ IHt]; [split; [discriminate|tauto]|].
    destruct (verify_comp a x) eqn:E.
    + split; [intros _; left; apply Hx; reflexivity|reflexivity].
    + rewrite IHt. split; [tauto|]. intros [H|H]; [apply Hx in H; discriminate|exact H].
  - induction IH as [|x t Hx _ IHt]; [split; [tauto|reflexivity]|].
    destruct (verify_comp a x) eqn:E.
    + rewrite IHt. split; [intros H; split; [apply Hx; reflexivity|exact H]|tauto].
    + split; [discriminate|]. intros [H _]. apply Hx in H. discriminate.
Qed.

Theorem verify_iff_sat : forall a r, verify a r = true <-> Sat (visible a) r.
Proof.
  intros a [| |c]; cbn [verify Sat]; [tauto|split; [discriminate|tauto]|apply verify_comp_iff].
Qed.

(* ---------------------------------------------------------------------------------------- *)
(* roles                                                                                       *)
(* ---------------------------------------------------------------------------------------- *)
Lemma role_fallback : forall a addr roles owner key,
  (key <> SELF_ROLE -> forall r, role_find key roles = Some r -> verify_role a addr roles owner key = verify a r) /\
  (key <> SELF_ROLE -> role_find key roles = None -> verify_role a addr roles owner key = verify a owner) /\
  (verify_role a addr roles owner SELF_ROLE = true <-> HasBadge (visible a) (RNF (GC_RES, addr))).
Proof.
  intros a addr roles owner key. unfold verify_role, role_rule. repeat split.
  - intros Hk r Hr. destruct (N.eqb_spec key SELF_ROLE); [contradiction|]. rewrite Hr. reflexivity.
  - intros Hk Hr. destruct (N.eqb_spec key SELF_ROLE); [contradiction|]. rewrite Hr. reflexivity.
  - rewrite N.eqb_refl. intros H. apply verify_iff_sat in H. exact H.
  - rewrite N.eqb_refl. intros H. apply verify_iff_sat. exact H.
Qed.
Lemma role_list_iff : forall a addr roles owner keys,
  verify_role_list a addr roles owner keys = true <->
  exists k, In k keys /\ Sat (visible a) (role_rule addr roles owner k).
Proof.
  intros. unfold verify_role_list, verify_role. rewrite existsb_exists.
  split; intros [k [Hk H]]; exists k; (split; [assumption|]); apply verify_iff_sat, H.
Qed.

(* ---------------------------------------------------------------------------------------- *)
(* monotonicity: more proofs / badges never turn Authorized into Failed                       *)
(* ---------------------------------------------------------------------------------------- *)
Definition zle (z z' : zdata) : Prop :=
  incl (z_proofs z) (z_proofs z') /\ incl (z_vres z) (z_vres z') /\ incl (z_vnf z) (z_vnf z').
Definition Vle (V V' : list zdata) : Prop := forall z, In z V -> exists z', In z' V' /\ zle z z'.

Lemma hasbadge_mono : forall V V' x, Vle V V' -> HasBadge V x -> HasBadge V' x.
Proof.
  intros V V' x Hle [z [Hz H]]. destruct (Hle z Hz) as [z' [Hz' (Hp & Hr & Hn)]]. exists z'. split; [assumption|].
  destruct H as [[g [-> [H|H]]]|[p [Hp' Hm]]].
  - left. exists g. split; [reflexivity|left; apply Hn, H].
  - left. exists g. split; [reflexivity|right; apply Hr, H].
  - right. exists p. split; [apply Hp, Hp'|assumption].
Qed.
Lemma hasamount_mono : forall V V' r amt, Vle V V' -> HasAmount V r amt -> HasAmount V' r amt.
Proof.
  intros V V' r amt Hle [z [p (Hz & Hp & Hr & Ha)]]. destruct (Hle z Hz) as [z' [Hz' (Hpi & _ & _)]].
  exists z', p. repeat split; try assumption. apply Hpi, Hp.
Qed.
Lemma satb_mono : forall V V' b, Vle V V' -> SatB V b -> SatB V' b.
Proof.
  intros V V' [x|amt r|n l|l|l] Hle; cbn [SatB].
  - apply hasbadge_mono, Hle.
  - apply hasamount_mono, Hle.
  - apply atleast_mono. intros x. apply hasbadge_mono, Hle.
  - apply Forall_impl. intros x. apply hasbadge_mono, Hle.
  - apply Exists_impl. intros x. apply hasbadge_mono, Hle.
Qed.
Lemma satc_mono : forall V V' c, Vle V V' -> SatC V c -> SatC V' c.
Proof.
  intros V V' c Hle. induction c as [b|l IH|l IH] using comp_ind'; cbn [SatC].
  - apply satb_mono, Hle.
  - induction IH as [|x t Hx _ IHt]; [tauto|]. intros [H|H]; [left; apply Hx, H|right; apply IHt, H].
  - induction IH as [|x t Hx _ IHt]; [tauto|]. intros [H1 H2]. split; [apply Hx, H1|apply IHt, H2].
Qed.
Theorem monotone : forall a a' r, Vle (visible a) (visible a') -> verify a r = true -> verify a' r = true.
Proof.
  intros a a' r Hle H. apply verify_iff_sat. apply verify_iff_sat in H.
  destruct r as [| |c]; cbn [Sat] in *; [exact I|exact H|eapply satc_mono; eassumption].
Qed.
(* the common case: pushing a proof onto a zone of the caller's chain *)
Lemma vle_refl : forall V, Vle V V.
Proof. intros V z Hz. exists z. split; [assumption|]. repeat split; apply incl_refl. Qed.
Lemma vle_push_proof : forall pre z post p,
  Vle (pre ++ z :: post) (pre ++ {| z_proofs := z_proofs z ++ [p]; z_vres := z_vres z; z_vnf := z_vnf z |} :: post).
Proof.
  intros pre z post p z0 H. apply in_app_or in H. destruct H as [H|[<-|H]].
  - exists z0. split; [apply in_or_app; now left|]. repeat split; apply incl_refl.
  - eexists. split; [apply in_or_app; right; left; reflexivity|]. cbn. repeat split; try apply incl_refl. apply incl_appl, incl_refl.
  - exists z0. split; [apply in_or_app; right; right; exact H|]. repeat split; apply incl_refl.
Qed.

(* ---------------------------------------------------------------------------------------- *)
(* zone construction along a call chain                                                       *)
(* ---------------------------------------------------------------------------------------- *)
Definition cdata (x : call) : zdata := snd (fst x).
Definition ccaller (x : call) : caller := fst (fst x).
Definition crecv (x : call) : recv := snd x.
(* the calls (newest first) made since the last global context change, that change excluded *)
Fixpoint same_ctx (l : list call) : list call :=
  match l with [] => [] | x :: t => if is_change (crecv x) then [] else x :: same_ctx t end.
(* the chain from the last global context change on *)
Fixpoint from_barrier (l : list call) : list call :=
  match l with [] => [] | x :: t => if is_change (crecv x) then x :: t else from_barrier t end.

Definition not_root (x : call) : Prop := ccaller x <> CRoot.
Definition global_caller_kind (x : call) : Prop :=
  match ccaller x with CFunction _ _ => True | CMethod _ (OGlobal _) => True | _ => False end.
Definition caller_id (c : caller) : N :=
  match c with CFunction g _ => g | CMethod _ (OGlobal a) => a | _ => 0 end.

(* the parent chain = the zones of the frames of the same global context, newest first *)
Lemma build_parent : forall l, Forall not_root (same_ctx l) -> fz_par (build l) = map cdata (same_ctx l).
Proof.
  induction l as [|[[c d] r] t IH]; intros H; cbn [build same_ctx]; [reflexivity|].
  unfold create_zone. cbn [fz_par crecv snd]. destruct (is_change r) eqn:E; [reflexivity|].
  cbn [same_ctx crecv snd] in H. rewrite E in H. inversion H as [|? ? Hx Ht]; subst.
  cbn [map cdata fst snd]. rewrite IH by assumption. destruct c; [exfalso; apply Hx; reflexivity|reflexivity|reflexivity].
Qed.

(* the global caller = the caller of the last context-changing call, with the chain of ITS context *)
Lemma build_gc : forall l, Forall global_caller_kind l ->
  fz_gc (build l) =
  match from_barrier l with
  | [] => None
  | b :: t => Some (caller_id (ccaller b), false, cdata b :: map cdata (same_ctx t))
  end.
Proof.
  induction l as [|[[c d] r] t IH]; intros H; cbn [build from_barrier]; [reflexivity|].
  inversion H as [|? ? Hx Ht]; subst. unfold create_zone. cbn [fz_gc crecv snd].
  assert (Hpar : fz_par (build t) = map cdata (same_ctx t)).
  { apply build_parent. clear -Ht. induction t as [|x t IH]; cbn [same_ctx]; [constructor|].
    inversion Ht as [|? ? Hx Ht']; subst. destruct (is_change (crecv x)); [constructor|].
    constructor; [|apply IH, Ht']. unfold not_root, global_caller_kind in *. destruct (ccaller x); [contradiction|discriminate|discriminate]. }
  unfold global_caller_kind in Hx. cbn [ccaller fst] in Hx.
  destruct (is_change r) eqn:E.
  - destruct c as [|g p|p [a| | |]]; try contradiction; cbn [ccaller cdata fst snd caller_id]; rewrite Hpar; reflexivity.
  - destruct c as [|g p|p [a| | |]]; try contradiction; apply IH, Ht.
Qed.

(* callers that are not (under) a global object never give their callee a global caller *)
Lemma build_gc_none : forall c d r t,
  (c = CRoot \/ exists p, c = CMethod p ODirect \/ c = CMethod p OSubstateRef) ->
  fz_gc (build ((c, d, r) :: t)) = None.
Proof. intros c d r t [->|[p [->| ->]]]; reflexivity. Qed.
(* a frame-owned caller passes on at most the frame-owned marker, which yields no badge *)
Lemma build_gc_frame_owned : forall p d r t,
  local_implicit (to_azone (build ((CMethod p OFrameOwned, d, r) :: t))) = [(PKG_RES, p)].
Proof.
  intros p d r t. cbn [build]. unfold create_zone, to_azone, local_implicit. cbn [az_pkg az_gc fz_pkg fz_gc caller_pkg].
  destruct (fz_gc (build t)); reflexivity.
Qed.

(* what is visible to the check of the newest call of a chain of global callers *)
Theorem visible_of_chain : forall l, Forall global_caller_kind l ->
  visible (to_azone (build l)) =
  (match local_implicit (to_azone (build l)) with [] => [] | li => [{| z_proofs := []; z_vres := []; z_vnf := li |}] end)
  ++ (match from_barrier l with [] => [] | b :: t => cdata b :: map cdata (same_ctx t) end)
  ++ map cdata (same_ctx l).
Proof.
  intros l H. unfold visible. cbn [to_azone az_gc az_parent]. rewrite (build_gc l H).
  assert (Hpar : fz_par (build l) = map cdata (same_ctx l)).
  { apply build_parent. clear -H. induction l as [|x t IH]; cbn [same_ctx]; [constructor|].
    inversion H as [|? ? Hx Ht]; subst. destruct (is_change (crecv x)); [constructor|].
    constructor; [|apply IH, Ht]. unfold not_root, global_caller_kind in *. destruct (ccaller x); [contradiction|discriminate|discriminate]. }
  rewrite Hpar. destruct (from_barrier l); reflexivity.
Qed.
Lemma local_implicit_of_chain : forall c d r t, global_caller_kind (c, d, r) -> Forall global_caller_kind t ->
  local_implicit (to_azone (build ((c, d, r) :: t))) =
  (match caller_pkg c with Some p => [(PKG_RES, p)] | None => [] end) ++
  (match from_barrier ((c, d, r) :: t) with [] => [] | b :: _ => [(GC_RES, caller_id (ccaller b))] end).
Proof.
  intros c d r t Hc Ht. unfold local_implicit, to_azone. cbn [az_pkg az_gc].
  rewrite (build_gc ((c, d, r) :: t)) by (constructor; assumption).
  cbn [build]. unfold create_zone. cbn [fz_pkg].
  destruct (from_barrier ((c, d, r) :: t)); reflexivity.
Qed.

(* barrier: a zone older than the context of the global caller is never visible.  `older` = the
   calls before (older than) the second most recent global context change. *)
Fixpoint drop_ctx (l : list call) : list call :=      (* drop the newest context including its barrier call *)
  match l with [] => [] | x :: t => if is_change (crecv x) then t else drop_ctx t end.
Lemma same_ctx_incl : forall l x, In x (same_ctx l) -> In x l.
Proof. induction l as [|y t IH]; cbn [same_ctx]; intros x H; [destruct H|]. destruct (is_change (crecv y)); [destruct H|]. destruct H as [->|H]; [now left|right; apply IH, H]. Qed.
Theorem barrier : forall l z, Forall global_caller_kind l -> In z (visible (to_azone (build l))) ->
  (z_proofs z = [] /\ z_vres z = []) (* the local implicit badges *)
  \/ exists x, cdata x = z /\
       (In x (same_ctx l) \/ (exists t, from_barrier l = x :: t) \/ (exists b t, from_barrier l = b :: t /\ In x (same_ctx t))).
Proof.
  intros l z H Hin. rewrite (visible_of_chain l H) in Hin. apply in_app_or in Hin. destruct Hin as [Hin|Hin].
  - left. destruct (local_implicit (to_azone (build l))); [destruct Hin|]. destruct Hin as [<-|[]]. split; reflexivity.
  - right. apply in_app_or in Hin. destruct Hin as [Hin|Hin].
    + destruct (from_barrier l) as [|b t] eqn:E; [destruct Hin|]. destruct Hin as [<-|Hin].
      * exists b. split; [reflexivity|]. right. left. eauto.
      * apply in_map_iff in Hin. destruct Hin as [x [<- Hx]]. exists x. split; [reflexivity|]. right. right. eauto.
    + apply in_map_iff in Hin. destruct Hin as [x [<- Hx]]. exists x. split; [reflexivity|]. now left.
Qed.
