(* C31 — the snippet arithmetic of the FIXED create_snippet never panics on well-formed spans; the
   pre-fix version does (CRLF). *)
From Coq Require Import List Arith NArith Bool Lia.
Import ListNotations.
Require Import RV.Model.C31_Snippet.
Open Scope N_scope.

Lemma pieces_ne : forall t, pieces t <> [].
Proof. induction t as [|c t IH]; cbn; [discriminate|]. destruct (c =? 10); [discriminate|]. destruct (pieces t); discriminate. Qed.
Lemma sum_pieces : forall t, sum_lens (pieces t) = lenN t + 1.
Proof.
  induction t as [|c t IH]; [reflexivity|]. cbn [pieces]. destruct (c =? 10).
  - cbn [sum_lens]. rewrite IH. unfold lenN; cbn [length]; lia.
  - destruct (pieces t) as [|h r] eqn:E; [exfalso; apply (pieces_ne t E)|].
    cbn [sum_lens] in *. unfold lenN in *; cbn [length] in *. lia.
Qed.
Lemma len_pieces : forall t, length (pieces t) = S (line_of t (length t)).
Proof.
  induction t as [|c t IH]; [reflexivity|]. cbn [pieces length line_of]. destruct (c =? 10).
  - cbn [length]. rewrite IH. reflexivity.
  - destruct (pieces t) as [|h r] eqn:E; [exfalso; apply (pieces_ne t E)|]. cbn [length] in *. lia.
Qed.
Lemma line_of_mono : forall t i j, (i <= j)%nat -> (line_of t i <= line_of t j)%nat.
Proof.
  induction t as [|c t IH]; intros i j H; [destruct i, j; cbn; lia|].
  destruct i as [|i]; [cbn; lia|]. destruct j as [|j]; [lia|]. cbn [line_of].
  specialize (IH i j ltac:(lia)). lia.
Qed.
Lemma line_of_le_total : forall t i, (line_of t i <= line_of t (length t))%nat.
Proof.
  induction t as [|c t IH]; intros i; [destruct i; cbn; lia|]. destruct i as [|i]; [cbn; lia|].
  cbn [line_of length]. specialize (IH i). lia.
Qed.

Lemma sum_firstn_mono : forall l a b, (a <= b)%nat -> sum_lens (firstn a l) <= sum_lens (firstn b l).
Proof.
  induction l as [|h t IH]; intros a b H; [rewrite !firstn_nil; lia|].
  destruct a as [|a]; [cbn; lia|]. destruct b as [|b]; [lia|]. cbn [firstn sum_lens].
  specialize (IH a b ltac:(lia)). lia.
Qed.
Lemma sum_firstn_le : forall l a, sum_lens (firstn a l) <= sum_lens l.
Proof. intros l a. rewrite <- (firstn_all l) at 2. destruct (Nat.le_ge_cases a (length l)) as [H|H]; [apply sum_firstn_mono; exact H | rewrite !firstn_all2 by lia; lia]. Qed.
Lemma sum_firstn_skipn : forall l a b, sum_lens (firstn a l) + sum_lens (firstn b (skipn a l)) = sum_lens (firstn (a + b) l).
Proof.
  induction l as [|h t IH]; intros a b; [rewrite skipn_nil, !firstn_nil; reflexivity|].
  destruct a as [|a]; [reflexivity|]. cbn [firstn skipn sum_lens Nat.add]. rewrite <- IH. lia.
Qed.

(* start of line k <= idx < start of line k+1, where k = line_of text idx *)
Lemma line_bounds : forall t idx, (idx <= length t)%nat ->
  sum_lens (firstn (line_of t idx) (pieces t)) <= N.of_nat idx /\
  N.of_nat idx + 1 <= sum_lens (firstn (S (line_of t idx)) (pieces t)).
Proof.
  induction t as [|c t IH]; intros idx H.
  - destruct idx; [cbn; lia | cbn in H; lia].
  - destruct idx as [|i].
    + cbn [line_of firstn sum_lens]. split; [lia|]. cbn [pieces]. destruct (c =? 10); [cbn; lia|].
      destruct (pieces t); cbn; lia.
    + cbn [length] in H. specialize (IH i ltac:(lia)). destruct IH as [I1 I2].
      cbn [line_of pieces]. destruct (c =? 10).
      * cbn [Nat.add firstn sum_lens]. unfold lenN; cbn [length]. cbn [firstn] in I2. lia.
      * destruct (pieces t) as [|h r] eqn:E; [exfalso; apply (pieces_ne t E)|]. cbn [Nat.add].
        destruct (line_of t i) as [|k] eqn:Ek.
        -- cbn [firstn sum_lens] in *. unfold lenN in *; cbn [length]. lia.
        -- cbn [firstn sum_lens] in *. unfold lenN in *; cbn [length]. lia.
Qed.

(* the fixed line list: the pieces, possibly without a final empty one *)
Lemma drop_last_cases : forall p, p <> [] ->
  (drop_last_empty p = p) \/ (exists q, p = q ++ [[]] /\ drop_last_empty p = q).
Proof.
  intros p Hp. unfold drop_last_empty. destruct (rev p) as [|x r] eqn:E.
  - left; reflexivity.
  - destruct x as [|y x']; [|left; reflexivity]. right. exists (rev r). split; [|reflexivity].
    rewrite <- (rev_involutive p), E. reflexivity.
Qed.
Lemma fixed_lines : forall t, let P := pieces t in let L := drop_last_empty P in
  (line_of t (length t) <= length L)%nat /\ lenN t <= sum_lens L /\
  forall k, (k <= length L)%nat -> firstn k L = firstn k P.
Proof.
  intros t P L. pose proof (len_pieces t) as HL. pose proof (sum_pieces t) as HS. fold P in HL, HS.
  destruct (drop_last_cases P (pieces_ne t)) as [E|[q [Eq E]]]; unfold L; rewrite E.
  - split; [lia|]. split; [lia|]. intros; reflexivity.
  - rewrite Eq in HL, HS. rewrite app_length in HL. cbn [length] in HL.
    split; [lia|]. split.
    + assert (sum_lens (q ++ [[]]) = sum_lens q + 1).
      { clear. induction q as [|h r IH]; [reflexivity|]. cbn [app sum_lens]. rewrite IH. lia. }
      lia.
    + intros k Hk. rewrite Eq. rewrite firstn_app. replace (k - length q)%nat with O by lia. cbn. rewrite app_nil_r. reflexivity.
Qed.

(* C31_snippet_total *)
Theorem snippet_total_fixed : forall text bytes s e,
  (s <= e)%nat -> (e <= length text)%nat -> lenN text <= bytes ->
  snippet true text bytes (N.of_nat s) (N.of_nat (line_of text s)) (N.of_nat e) (N.of_nat (line_of text e)) <> SnPanic.
Proof.
  intros text bytes s e Hse He Hb. unfold snippet. cbn [lines_of].
  destruct (fixed_lines text) as [Hcnt [Hsum Hfirst]].
  set (P := pieces text) in *. set (L := drop_last_empty P) in *.
  set (ls := line_of text s). set (le := line_of text e).
  assert (Hls : (ls <= le)%nat) by (apply line_of_mono; exact Hse).
  assert (Hle : (le <= length L)%nat) by (pose proof (line_of_le_total text e); unfold le; lia).
  destruct (line_bounds text s ltac:(lia)) as [Bs _]. destruct (line_bounds text e He) as [_ Be]. fold ls le P in Bs, Be.
  set (lstart := if 5 <? N.of_nat ls + 1 then N.of_nat ls + 1 - 5 else 1).
  assert (Hl1 : (N.to_nat (lstart - 1) <= ls)%nat).
  { unfold lstart. destruct (5 <? N.of_nat ls + 1) eqn:E5; [apply N.ltb_lt in E5|]; lia. }
  set (lend := N.min (N.of_nat le + 1 + 5) (lenN L)).
  assert (Hlend : (N.to_nat lend <= length L)%nat) by (unfold lend, lenN; lia).
  assert (Hl2 : (N.to_nat (lstart - 1) <= N.to_nat lend)%nat) by (unfold lend, lenN; lia).
  (* skipped <= start index *)
  assert (Hskip : sum_lens (firstn (N.to_nat (lstart - 1)) L) <= N.of_nat s).
  { rewrite Hfirst by lia. eapply N.le_trans; [apply (sum_firstn_mono P _ ls Hl1) | exact Bs]. }
  (* skipped + shown = the first lend lines *)
  assert (Hshown : sum_lens (firstn (N.to_nat (lstart - 1)) L) +
                   sum_lens (firstn (N.to_nat (lend + 1 - lstart)) (skipn (N.to_nat (lstart - 1)) L))
                   = sum_lens (firstn (N.to_nat lend) L)).
  { rewrite sum_firstn_skipn. f_equal. f_equal. unfold lstart in *. destruct (5 <? N.of_nat ls + 1) eqn:E5; [apply N.ltb_lt in E5|]; lia. }
  (* the end index (+1) is within the first lend lines (+1) *)
  assert (Hend : N.of_nat e + 1 <= sum_lens (firstn (N.to_nat lend) L) + 1).
  { unfold lend. destruct (N.min_spec (N.of_nat le + 1 + 5) (lenN L)) as [[Hlt ->]|[Hge ->]].
    - assert (N.of_nat e + 1 <= sum_lens (firstn (S le) L)).
      { rewrite Hfirst by (unfold lenN in Hlt; lia). exact Be. }
      pose proof (sum_firstn_mono L (S le) (N.to_nat (N.of_nat le + 1 + 5)) ltac:(lia)). lia.
    - unfold lenN. rewrite Nat2N.id, firstn_all. unfold lenN in Hsum. lia. }
  assert (Ha0 : N.min (N.of_nat s) bytes = N.of_nat s) by (unfold lenN in Hb; lia).
  assert (Hb0 : N.min (N.of_nat e) bytes = N.of_nat e) by (unfold lenN in Hb; lia).
  fold lstart lend. rewrite Ha0, Hb0.
  set (b1 := if N.of_nat s =? N.of_nat e then N.of_nat e + 1 else N.of_nat e).
  assert (Hb1 : N.of_nat s <= b1 /\ b1 <= N.of_nat e + 1) by (unfold b1; destruct (N.of_nat s =? N.of_nat e); lia).
  destruct ((N.of_nat s <? sum_lens (firstn (N.to_nat (lstart - 1)) L)) || (b1 <? sum_lens (firstn (N.to_nat (lstart - 1)) L))) eqn:E1.
  - exfalso. apply orb_true_iff in E1. destruct E1 as [E1|E1]; apply N.ltb_lt in E1; lia.
  - destruct (sum_lens (firstn (N.to_nat (lend + 1 - lstart)) (skipn (N.to_nat (lstart - 1)) L)) + 1 <? b1 - sum_lens (firstn (N.to_nat (lstart - 1)) L)) eqn:E2; [|discriminate].
    exfalso. apply N.ltb_lt in E2. lia.
Qed.

(* C31_snippet_total_unfixed_refuted: the 6-character text  quote a b c CR LF  (unterminated string) with
   the lexer's UnexpectedEof span (6, line 1) .. (6, line 1) *)
Theorem snippet_unfixed_refuted :
  let text := [34; 97; 98; 99; 13; 10] in
  line_of text 6 = 1%nat /\ snippet false text 6 6 1 6 1 = SnPanic /\ snippet true text 6 6 1 6 1 <> SnPanic.
Proof. cbv zeta. split; [reflexivity|]. split; [vm_compute; reflexivity | vm_compute; discriminate]. Qed.
